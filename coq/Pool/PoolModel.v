(* Pool/PoolModel.v — executable, code-shaped model of core/tx_pool.go and
   core/tx_list.go (definitions only; extracted by ExtractPool.v).

   All numbers are Z (big.Int is unbounded; uint64 fields are Z with the wrap
   written where the Go code can wrap).  Addresses and hashes are opaque
   identifiers (Z) chosen by the harness: the model never looks inside them.
   Go maps are association lists; wherever Go ranges over a map, pops a heap
   with ties or sorts unstably, the order comes from the [oracle] argument and
   the theorems quantify over every oracle. *)
From Coq Require Import List ZArith Bool.
Import ListNotations.
Local Open Scope Z_scope.

Definition two64 : Z := 18446744073709551616.

(* types.Transaction as the pool sees it.  tintr = IntrinsicGas(data, to==nil,
   pool.homestead), tsize = tx.Size(), tsigok = types.Sender succeeds (C12). *)
Record tx := mkTx { thash : Z; tfrom : Z; tnonce : Z; tprice : Z; tgas : Z;
                    tvalue : Z; tintr : Z; tsize : Z; tsigok : bool }.
(* types.Transaction.Cost: value + gasprice * gaslimit *)
Definition tcost (t : tx) : Z := tvalue t + tprice t * tgas t.

(* ---------------------------------------------------------------- oracle *)
(* operm1: range order over pool.queue / the dirty account map / pool.pending (spammers) in promoteExecutables;
   operm4: range order over pool.pending in demoteUnexecutables (an independent Go map range);
   operm2: prque pops among equal priorities (spammers);
   operm3: range order feeding the (stable for n<=12) heartbeat sort;
   orank : order in which txSortedMap.Filter's range over items reports the
           removed transactions, and priceHeap pops among equal prices. *)
Record oracle := mkOracle { operm1 : list Z; operm2 : list Z; operm3 : list Z; operm4 : list Z; orank : list (Z * Z) }.

Fixpoint assoc {A} (k : Z) (l : list (Z * A)) : option A :=
  match l with [] => None | (k', v) :: r => if k =? k' then Some v else assoc k r end.
Fixpoint assoc_del {A} (k : Z) (l : list (Z * A)) : list (Z * A) :=
  match l with [] => [] | (k', v) :: r => if k =? k' then assoc_del k r else (k', v) :: assoc_del k r end.
(* in-place update keeps the position, a new key goes to the end *)
Fixpoint assoc_set {A} (k : Z) (v : A) (l : list (Z * A)) : list (Z * A) :=
  match l with [] => [(k, v)] | (k', v') :: r => if k =? k' then (k, v) :: r else (k', v') :: assoc_set k v r end.
Definition memZ (k : Z) (l : list Z) : bool := existsb (Z.eqb k) l.

Definition rank_of (o : oracle) (h : Z) : Z := match assoc h (orank o) with Some r => r | None => 0 end.
(* stable insertion sort by a key *)
Fixpoint ins_by {A} (key : A -> Z) (x : A) (l : list A) : list A :=
  match l with [] => [x] | y :: r => if key y <=? key x then y :: ins_by key x r else x :: l end.
Definition sort_by {A} (key : A -> Z) (l : list A) : list A := fold_left (fun acc x => ins_by key x acc) l [].
Definition order_txs (o : oracle) (l : list tx) : list tx := sort_by (fun t => rank_of o (thash t)) l.
(* a Go map range: the keys that are in the permutation first (in its order), then the others *)
Definition order_keys (perm : list Z) (keys : list Z) : list Z :=
  filter (fun k => memZ k keys) perm ++ filter (fun k => negb (memZ k perm)) keys.

(* ---------------------------------------------------------------- tx_list.go: txSortedMap + txList *)
(* items: nonce ascending, one entry per nonce (the heap index and the cache of
   txSortedMap are not state of the model; the harness checks index = key set). *)
Record txlist := mkTL { strict : bool; items : list tx; costcap : Z; gascap : Z }.
Definition new_txlist (s : bool) : txlist := mkTL s [] 0 0.

(* txSortedMap.Get *)
Definition tl_get (l : txlist) (n : Z) : option tx := find (fun t => tnonce t =? n) (items l).
(* txSortedMap.Put *)
Fixpoint ins_tx (t : tx) (l : list tx) : list tx :=
  match l with
  | [] => [t]
  | x :: r => if tnonce t <? tnonce x then t :: l else if tnonce t =? tnonce x then t :: r else x :: ins_tx t r
  end.
(* txList.Overlaps *)
Definition tl_overlaps (l : txlist) (t : tx) : bool := match tl_get l (tnonce t) with Some _ => true | None => false end.
(* txList.Add: (inserted, old, list') *)
Definition tl_add (l : txlist) (t : tx) (bump : Z) : bool * option tx * txlist :=
  let old := tl_get l (tnonce t) in
  let reject := match old with
                | Some o => let threshold := (tprice o * (100 + bump)) / 100 in
                            (tprice t <=? tprice o) || (tprice t <? threshold)
                | None => false end in
  if reject then (false, None, l)
  else (true, old, mkTL (strict l) (ins_tx t (items l))
                        (if costcap l <? tcost t then tcost t else costcap l)
                        (if gascap l <? tgas t then tgas t else gascap l)).
(* txList.Forward / txSortedMap.Forward: (removed, list') *)
Definition tl_forward (l : txlist) (threshold : Z) : list tx * txlist :=
  (filter (fun t => tnonce t <? threshold) (items l),
   mkTL (strict l) (filter (fun t => negb (tnonce t <? threshold)) (items l)) (costcap l) (gascap l)).
(* txList.Filter: (removed, invalids, list') *)
Definition tl_filter (o : oracle) (l : txlist) (costLimit gasLimit : Z) : list tx * list tx * txlist :=
  if (costcap l <=? costLimit) && (gascap l <=? gasLimit) then ([], [], l)
  else
    let bad := fun t => (costLimit <? tcost t) || (gasLimit <? tgas t) in
    let removed := filter bad (items l) in
    let rest := filter (fun t => negb (bad t)) (items l) in
    match strict l, removed with
    | true, _ :: _ =>
        let lowest := fold_left (fun lo t => if tnonce t <? lo then tnonce t else lo) removed (two64 - 1) in
        (order_txs o removed, order_txs o (filter (fun t => lowest <? tnonce t) rest),
         mkTL (strict l) (filter (fun t => negb (lowest <? tnonce t)) rest) costLimit gasLimit)
    | _, _ => (order_txs o removed, [], mkTL (strict l) rest costLimit gasLimit)
    end.
(* txList.Cap / txSortedMap.Cap: None = Go panic (negative threshold: index[size-1] / [:threshold]) *)
Definition tl_cap (l : txlist) (threshold : Z) : option (list tx * txlist) :=
  if Z.of_nat (length (items l)) <=? threshold then Some ([], l)
  else if threshold <? 0 then None
  else Some (rev (skipn (Z.to_nat threshold) (items l)),
             mkTL (strict l) (firstn (Z.to_nat threshold) (items l)) (costcap l) (gascap l)).
(* txList.Remove (by nonce!): (removed, invalids, list') *)
Definition tl_remove (o : oracle) (l : txlist) (t : tx) : bool * list tx * txlist :=
  match tl_get l (tnonce t) with
  | None => (false, [], l)
  | Some _ =>
      let rest := filter (fun x => negb (tnonce x =? tnonce t)) (items l) in
      if strict l then
        (true, order_txs o (filter (fun x => tnonce t <? tnonce x) rest),
         mkTL (strict l) (filter (fun x => negb (tnonce t <? tnonce x)) rest) (costcap l) (gascap l))
      else (true, [], mkTL (strict l) rest (costcap l) (gascap l))
  end.
(* txSortedMap.Ready: the run next, next+1, ... starting at the lowest nonce (uint64 next++) *)
Fixpoint take_run (next : Z) (l : list tx) : list tx * list tx :=
  match l with
  | [] => ([], [])
  | x :: r => if tnonce x =? next then let '(a, b) := take_run ((next + 1) mod two64) r in (x :: a, b) else ([], l)
  end.
Definition tl_ready (l : txlist) (start : Z) : list tx * txlist :=
  match items l with
  | [] => ([], l)
  | x :: _ => if start <? tnonce x then ([], l)
              else let '(a, b) := take_run (tnonce x) (items l) in (a, mkTL (strict l) b (costcap l) (gascap l))
  end.
Definition tl_len (l : txlist) : Z := Z.of_nat (length (items l)).
Definition tl_empty (l : txlist) : bool := match items l with [] => true | _ => false end.

(* ---------------------------------------------------------------- txPricedList *)
(* the heap as a multiset (stale entries and duplicates included) + the stale counter *)
Record priced := mkPriced { pitems : list tx; pstales : Z }.
Definition all_t := list (Z * tx).

(* heap.Pop: an entry of least price; ties by oracle rank, then position *)
Definition heap_less (o : oracle) (a b : tx) : bool :=
  (tprice a <? tprice b) || ((tprice a =? tprice b) && (rank_of o (thash a) <? rank_of o (thash b))).
Fixpoint heap_min (o : oracle) (best : tx) (l : list tx) : tx :=
  match l with [] => best | x :: r => heap_min o (if heap_less o x best then x else best) r end.
Fixpoint remove1 (h : Z) (l : list tx) : list tx :=
  match l with [] => [] | x :: r => if thash x =? h then r else x :: remove1 h r end.
Definition heap_pop (o : oracle) (l : list tx) : option (tx * list tx) :=
  match l with [] => None | x :: r => let m := heap_min o x r in Some (m, remove1 (thash m) l) end.

(* txPricedList.Put *)
Definition priced_put (p : priced) (t : tx) : priced := mkPriced (pitems p ++ [t]) (pstales p).
(* txPricedList.Removed *)
Definition priced_removed (al : all_t) (p : priced) : priced :=
  let s := pstales p + 1 in
  if s <=? Z.of_nat (length (pitems p)) / 4 then mkPriced (pitems p) s
  else mkPriced (map snd al) 0.
Definition is_live (al : all_t) (t : tx) : bool := match assoc (thash t) al with Some _ => true | None => false end.
(* txPricedList.Cap: (drop, priced') *)
Fixpoint priced_cap_loop (fuel : nat) (o : oracle) (al : all_t) (locals : list Z) (threshold : Z)
         (its : list tx) (st : Z) (drop save : list tx) : list tx * priced :=
  match fuel with
  | O => (drop, mkPriced (its ++ save) st)
  | S f =>
    match heap_pop o its with
    | None => (drop, mkPriced (its ++ save) st)
    | Some (t, rest) =>
        if negb (is_live al t) then priced_cap_loop f o al locals threshold rest (st - 1) drop save
        else if threshold <=? tprice t then (drop, mkPriced (rest ++ save ++ [t]) st)
        else if memZ (tfrom t) locals then priced_cap_loop f o al locals threshold rest st drop (save ++ [t])
        else priced_cap_loop f o al locals threshold rest st (drop ++ [t]) save
    end
  end.
Definition priced_cap (o : oracle) (al : all_t) (locals : list Z) (p : priced) (threshold : Z) : list tx * priced :=
  priced_cap_loop (length (pitems p)) o al locals threshold (pitems p) (pstales p) [] [].
(* txPricedList.Underpriced: (answer, priced') — pops stale heads as a side effect *)
Fixpoint drop_stale_heads (fuel : nat) (o : oracle) (al : all_t) (its : list tx) (st : Z) : list tx * Z :=
  match fuel with
  | O => (its, st)
  | S f => match heap_pop o its with
           | None => (its, st)
           | Some (t, rest) => if is_live al t then (its, st) else drop_stale_heads f o al rest (st - 1)
           end
  end.
Definition priced_underpriced (o : oracle) (al : all_t) (locals : list Z) (p : priced) (t : tx) : bool * priced :=
  if tsigok t && memZ (tfrom t) locals then (false, p)
  else
    let '(its, st) := drop_stale_heads (length (pitems p)) o al (pitems p) (pstales p) in
    match heap_pop o its with
    | None => (false, mkPriced its st)
    | Some (cheapest, _) => (tprice t <=? tprice cheapest, mkPriced its st)
    end.
(* txPricedList.Discard: (drop, priced') *)
Fixpoint priced_discard_loop (fuel : nat) (o : oracle) (al : all_t) (locals : list Z)
         (its : list tx) (st : Z) (count : Z) (drop save : list tx) : list tx * priced :=
  match fuel with
  | O => (drop, mkPriced (its ++ save) st)
  | S f =>
    if count <=? 0 then (drop, mkPriced (its ++ save) st) else
    match heap_pop o its with
    | None => (drop, mkPriced (its ++ save) st)
    | Some (t, rest) =>
        if negb (is_live al t) then priced_discard_loop f o al locals rest (st - 1) count drop save
        else if memZ (tfrom t) locals then priced_discard_loop f o al locals rest st count drop (save ++ [t])
        else priced_discard_loop f o al locals rest st (count - 1) (drop ++ [t]) save
    end
  end.
Definition priced_discard (o : oracle) (al : all_t) (locals : list Z) (p : priced) (count : Z) : list tx * priced :=
  priced_discard_loop (length (pitems p)) o al locals (pitems p) (pstales p) count [] [].

(* ---------------------------------------------------------------- TxPool *)
Record cfg := mkCfg { c_aslots : Z; c_gslots : Z; c_aqueue : Z; c_gqueue : Z; c_bump : Z; c_nolocals : bool }.
Record pool := mkPool {
  pending : list (Z * txlist);      (* pool.pending *)
  queue   : list (Z * txlist);      (* pool.queue *)
  beats   : list (Z * Z);           (* pool.beats, as a logical clock value *)
  clock   : Z;                      (* time.Now(): strictly increasing *)
  all     : all_t;                  (* pool.all *)
  pricedl : priced;                 (* pool.priced *)
  pnonce  : list (Z * Z);           (* pool.pendingState: managed nonces (absent = current state nonce) *)
  cur     : list (Z * (Z * Z));     (* pool.currentState: addr -> (nonce, balance); absent = (0,0) *)
  maxgas  : Z;                      (* pool.currentMaxGas *)
  gasprice: Z;                      (* pool.gasPrice *)
  locals  : list Z;                 (* pool.locals *)
  conf    : cfg }.

Inductive res (A : Type) := Ok (a : A) | Panic | OutOfFuel.
Arguments Ok {A} _. Arguments Panic {A}. Arguments OutOfFuel {A}.
Definition bind {A B} (r : res A) (f : A -> res B) : res B :=
  match r with Ok a => f a | Panic => Panic | OutOfFuel => OutOfFuel end.
Notation "x <- r ;; k" := (bind r (fun x => k)) (at level 61, r at next level, right associativity).

Definition cur_nonce (p : pool) (a : Z) : Z := match assoc a (cur p) with Some (n, _) => n | None => 0 end.
Definition cur_balance (p : pool) (a : Z) : Z := match assoc a (cur p) with Some (_, b) => b | None => 0 end.
(* ManagedState.GetNonce / SetNonce (NewNonce is never used by the pool, so account.nonces stays empty) *)
Definition pn_get (p : pool) (a : Z) : Z := match assoc a (pnonce p) with Some n => n | None => cur_nonce p a end.

Definition set_pending p v := mkPool v (queue p) (beats p) (clock p) (all p) (pricedl p) (pnonce p) (cur p) (maxgas p) (gasprice p) (locals p) (conf p).
Definition set_queue p v := mkPool (pending p) v (beats p) (clock p) (all p) (pricedl p) (pnonce p) (cur p) (maxgas p) (gasprice p) (locals p) (conf p).
Definition set_beats p v c := mkPool (pending p) (queue p) v c (all p) (pricedl p) (pnonce p) (cur p) (maxgas p) (gasprice p) (locals p) (conf p).
Definition set_all p v := mkPool (pending p) (queue p) (beats p) (clock p) v (pricedl p) (pnonce p) (cur p) (maxgas p) (gasprice p) (locals p) (conf p).
Definition set_priced p v := mkPool (pending p) (queue p) (beats p) (clock p) (all p) v (pnonce p) (cur p) (maxgas p) (gasprice p) (locals p) (conf p).
Definition set_pnonce p v := mkPool (pending p) (queue p) (beats p) (clock p) (all p) (pricedl p) v (cur p) (maxgas p) (gasprice p) (locals p) (conf p).
Definition set_head p c g := mkPool (pending p) (queue p) (beats p) (clock p) (all p) (pricedl p) [] c g (gasprice p) (locals p) (conf p).
Definition set_gasprice p v := mkPool (pending p) (queue p) (beats p) (clock p) (all p) (pricedl p) (pnonce p) (cur p) (maxgas p) v (locals p) (conf p).
Definition set_locals p v := mkPool (pending p) (queue p) (beats p) (clock p) (all p) (pricedl p) (pnonce p) (cur p) (maxgas p) (gasprice p) v (conf p).

Definition pn_set (p : pool) (a n : Z) : pool := set_pnonce p (assoc_set a n (pnonce p)).
(* delete(pool.all, hash); pool.priced.Removed() *)
Definition all_drop (p : pool) (h : Z) : pool :=
  let p1 := set_all p (assoc_del h (all p)) in set_priced p1 (priced_removed (all p1) (pricedl p1)).
(* pool.all[hash] = tx; pool.priced.Put(tx) *)
Definition all_put (p : pool) (t : tx) : pool :=
  let p1 := set_all p (assoc_set (thash t) t (all p)) in set_priced p1 (priced_put (pricedl p1) t).

Inductive err := EKnown | EOversized | ENegative | EGasLimit | EInvalidSender | EUnderpriced
               | ENonceLow | EFunds | EIntrinsic | EReplaceUnderpriced.

(* TxPool.validateTx *)
Definition validate_tx (p : pool) (t : tx) (local : bool) : option err :=
  if 32 * 1024 <? tsize t then Some EOversized
  else if tvalue t <? 0 then Some ENegative
  else if maxgas p <? tgas t then Some EGasLimit
  else if negb (tsigok t) then Some EInvalidSender
  else if negb (local || memZ (tfrom t) (locals p)) && (tprice t <? gasprice p) then Some EUnderpriced
  else if tnonce t <? cur_nonce p (tfrom t) then Some ENonceLow
  else if cur_balance p (tfrom t) <? tcost t then Some EFunds
  else if tgas t <? tintr t then Some EIntrinsic
  else None.

(* TxPool.enqueueTx: (replaced-or-error, pool') *)
Definition enqueue_tx (p : pool) (t : tx) : (bool + err) * pool :=
  let a := tfrom t in
  let l := match assoc a (queue p) with Some l => l | None => new_txlist false end in
  (* the (possibly fresh) list is stored in the map before Add, also when Add refuses *)
  match tl_add l t (c_bump (conf p)) with
  | (false, _, _) => (inr EReplaceUnderpriced, set_queue p (assoc_set a l (queue p)))
  | (true, old, l') =>
      let p1 := set_queue p (assoc_set a l' (queue p)) in
      let p2 := match old with Some ot => all_drop p1 (thash ot) | None => p1 end in
      (inl (match old with Some _ => true | None => false end), all_put p2 t)
  end.

(* TxPool.promoteTx *)
Definition promote_tx (p : pool) (a : Z) (t : tx) : pool :=
  let l := match assoc a (pending p) with Some l => l | None => new_txlist true end in
  match tl_add l t (c_bump (conf p)) with
  | (false, _, _) => all_drop (set_pending p (assoc_set a l (pending p))) (thash t)
  | (true, old, l') =>
      let p1 := set_pending p (assoc_set a l' (pending p)) in
      let p2 := match old with Some ot => all_drop p1 (thash ot) | None => p1 end in
      let p3 := match assoc (thash t) (all p2) with None => all_put p2 t | Some _ => p2 end in
      let p4 := set_beats p3 (assoc_set a (clock p3 + 1) (beats p3)) (clock p3 + 1) in
      pn_set p4 a ((tnonce t + 1) mod two64)
  end.

(* TxPool.removeTx *)
Definition remove_tx (o : oracle) (p : pool) (h : Z) : pool :=
  match assoc h (all p) with
  | None => p
  | Some t =>
    let a := tfrom t in
    let p1 := all_drop p h in
    let in_queue := fun (p1 : pool) =>
      match assoc a (queue p1) with
      | None => p1
      | Some f => let '(_, _, f') := tl_remove o f t in
                  if tl_empty f' then set_queue p1 (assoc_del a (queue p1)) else set_queue p1 (assoc_set a f' (queue p1))
      end in
    match assoc a (pending p1) with
    | None => in_queue p1
    | Some pl =>
      match tl_remove o pl t with
      | (false, _, _) => in_queue p1
      | (true, invalids, pl') =>
        (* "If no more transactions are left, remove the list"; then "Postpone any invalidated transactions" (always) *)
        let pb := if tl_empty pl'
                  then set_beats (set_pending p1 (assoc_del a (pending p1))) (assoc_del a (beats p1)) (clock p1)
                  else set_pending p1 (assoc_set a pl' (pending p1)) in
        let p2 := fold_left (fun q x => snd (enqueue_tx q x)) invalids pb in
        if tnonce t <? pn_get p2 a then pn_set p2 a (tnonce t) else p2
      end
    end
  end.

Definition drop_all (p : pool) (l : list tx) : pool := fold_left (fun q t => all_drop q (thash t)) l p.

(* promoteExecutables, first loop body (one account) *)
Definition pe_account (o : oracle) (p : pool) (a : Z) : res pool :=
  match assoc a (queue p) with
  | None => Ok p
  | Some l =>
    let '(old, l1) := tl_forward l (cur_nonce p a) in
    let p1 := drop_all (set_queue p (assoc_set a l1 (queue p))) old in
    let '(drops, _, l2) := tl_filter o l1 (cur_balance p1 a) (maxgas p1) in
    let p2 := drop_all (set_queue p1 (assoc_set a l2 (queue p1))) drops in
    let '(ready, l3) := tl_ready l2 (pn_get p2 a) in
    let p3 := fold_left (fun q t => promote_tx q a t) ready (set_queue p2 (assoc_set a l3 (queue p2))) in
    r <- (if memZ a (locals p3) then Ok (p3, l3)
          else match tl_cap l3 (c_aqueue (conf p3)) with
               | None => Panic
               | Some (caps, l4) => Ok (drop_all (set_queue p3 (assoc_set a l4 (queue p3))) caps, l4)
               end) ;;
    let '(p4, l4) := r in
    Ok (if tl_empty l4 then set_queue p4 (assoc_del a (queue p4)) else p4)
  end.

Fixpoint fold_res {A B} (f : A -> B -> res A) (l : list B) (a : A) : res A :=
  match l with [] => Ok a | x :: r => a' <- f a x ;; fold_res f r a' end.

Definition pending_count (p : pool) : Z := fold_left (fun n kv => n + tl_len (snd kv)) (pending p) 0.
Definition queued_count (p : pool) : Z := fold_left (fun n kv => n + tl_len (snd kv)) (queue p) 0.

(* `list.Cap(list.Len()-1)` on pool.pending[a] followed by the bookkeeping of the eviction loops *)
Definition shrink_one (p : pool) (a : Z) : res pool :=
  match assoc a (pending p) with
  | None => Panic                               (* nil *txList dereference *)
  | Some l =>
    match tl_cap l (tl_len l - 1) with
    | None => Panic
    | Some (drops, l') =>
      Ok (fold_left (fun q t => let q1 := all_drop q (thash t) in
                                if tnonce t <? pn_get q1 a then pn_set q1 a (tnonce t) else q1)
                    drops (set_pending p (assoc_set a l' (pending p))))
    end
  end.
Definition plen (p : pool) (a : Z) : res Z := match assoc a (pending p) with Some l => Ok (tl_len l) | None => Panic end.

(* prque.Pop among (addr, priority): greatest priority, ties by operm2 *)
Definition pos_in (perm : list Z) (a : Z) : Z :=
  (fix go (l : list Z) (i : Z) := match l with [] => i | x :: r => if x =? a then i else go r (i + 1) end) perm 0.
Definition prque_pop (o : oracle) (q : list (Z * Z)) : option (Z * list (Z * Z)) :=
  match q with
  | [] => None
  | x :: r =>
    let better := fun (c b : Z * Z) => (snd b <? snd c) || ((snd b =? snd c) && (pos_in (operm2 o) (fst c) <? pos_in (operm2 o) (fst b))) in
    let m := fold_left (fun b c => if better c b then c else b) r x in
    Some (fst m, filter (fun c => negb (fst c =? fst m)) q)
  end.
Definition removelast_Z (l : list Z) : list Z := removelast l.

(* the `for pending > GlobalSlots && pool.pending[offenders[len-2]].Len() > threshold` loop *)
Fixpoint equalize (fuel : nat) (p : pool) (cnt : Z) (offs : list Z) (threshold : Z) : res (pool * Z) :=
  match fuel with
  | O => OutOfFuel
  | S f =>
    let prev := nth (length offs - 2) offs 0 in
    n <- plen p prev ;;
    if (c_gslots (conf p) <? cnt) && (threshold <? n) then
      r <- fold_res (fun (st : pool * Z) a => q <- shrink_one (fst st) a ;; Ok (q, (snd st - 1) mod two64))
                    (removelast_Z offs) (p, cnt) ;;
      equalize f (fst r) (snd r) offs threshold
    else Ok (p, cnt)
  end.
(* the `for pending > GlobalSlots && !spammers.Empty()` loop *)
Fixpoint spam_loop (fuel : nat) (o : oracle) (p : pool) (cnt : Z) (spammers : list (Z * Z)) (offs : list Z)
  : res (pool * Z * list Z) :=
  match fuel with
  | O => OutOfFuel
  | S f =>
    if c_gslots (conf p) <? cnt then
      match prque_pop o spammers with
      | None => Ok (p, cnt, offs)
      | Some (off, rest) =>
        let offs' := offs ++ [off] in
        if (1 <? Z.of_nat (length offs'))%Z then
          threshold <- plen p off ;;
          r <- equalize (S (Z.to_nat cnt)) p cnt offs' threshold ;;
          spam_loop f o (fst r) (snd r) rest offs'
        else spam_loop f o p cnt rest offs'
      end
    else Ok (p, cnt, offs)
  end.
(* the `for pending > GlobalSlots && len(pool.pending[offenders[last]]) > AccountSlots` loop *)
Fixpoint minimum_loop (fuel : nat) (p : pool) (cnt : Z) (offs : list Z) : res (pool * Z) :=
  match fuel with
  | O => OutOfFuel
  | S f =>
    n <- plen p (last offs 0) ;;
    if (c_gslots (conf p) <? cnt) && (c_aslots (conf p) <? n) then
      r <- fold_res (fun (st : pool * Z) a => q <- shrink_one (fst st) a ;; Ok (q, (snd st - 1) mod two64)) offs (p, cnt) ;;
      minimum_loop f (fst r) (snd r) offs
    else Ok (p, cnt)
  end.
(* promoteExecutables: "If the pending limit is overflown, start equalizing allowances" *)
Definition pe_pending_limit (o : oracle) (p : pool) : res pool :=
  let cnt := pending_count p in
  if c_gslots (conf p) <? cnt then
    let spammers := flat_map (fun a => match assoc a (pending p) with
                                       | Some l => if negb (memZ a (locals p)) && (c_aslots (conf p) <? tl_len l) then [(a, tl_len l)] else []
                                       | None => [] end)
                             (order_keys (operm1 o) (map fst (pending p))) in
    r <- spam_loop (S (length spammers)) o p cnt spammers [] ;;
    let '(p1, cnt1, offs) := r in
    if (c_gslots (conf p1) <? cnt1) && negb (match offs with [] => true | _ => false end) then
      r2 <- minimum_loop (S (Z.to_nat cnt1)) p1 cnt1 offs ;; Ok (fst r2)
    else Ok p1
  else Ok p.

Definition beat_of (p : pool) (a : Z) : Z := match assoc a (beats p) with Some b => b | None => 0 end.
(* promoteExecutables: "If we've queued more transactions than the hard limit, drop oldest ones" *)
Fixpoint gq_loop (o : oracle) (p : pool) (addrs : list Z) (drop : Z) : res pool :=
  (* addrs is reversed: its head is addresses[len-1] *)
  match addrs with
  | [] => Ok p
  | a :: rest =>
    if 0 <? drop then
      match assoc a (queue p) with
      | None => Panic  (* nil *txList dereference *)
      | Some l =>
        let size := tl_len l in
        if size <=? drop then gq_loop o (fold_left (fun q t => remove_tx o q (thash t)) (items l) p) rest (drop - size)
        else
          let victims := firstn (Z.to_nat drop) (rev (items l)) in
          gq_loop o (fold_left (fun q t => remove_tx o q (thash t)) victims p) rest 0
      end
    else Ok p
  end.
Definition pe_queue_limit (o : oracle) (p : pool) : res pool :=
  let queued := queued_count p in
  if c_gqueue (conf p) <? queued then
    let addrs := filter (fun a => negb (memZ a (locals p))) (order_keys (operm3 o) (map fst (queue p))) in
    let sorted := sort_by (beat_of p) addrs in
    gq_loop o p (rev sorted) (queued - c_gqueue (conf p))
  else Ok p.

(* TxPool.promoteExecutables; accounts = None is the nil argument *)
Definition promote_executables (o : oracle) (p : pool) (accounts : option (list Z)) : res pool :=
  let accs := match accounts with Some l => l | None => order_keys (operm1 o) (map fst (queue p)) end in
  p1 <- fold_res (pe_account o) accs p ;;
  p2 <- pe_pending_limit o p1 ;;
  pe_queue_limit o p2.

(* TxPool.add, second half: "If the transaction is replacing an already pending one, do directly ...
   New transaction isn't replacing a pending one, push into queue" *)
Definition mark_local (p : pool) (a : Z) (local : bool) : pool :=
  if local then set_locals p (if memZ a (locals p) then locals p else locals p ++ [a]) else p.
Definition add_insert (p1 : pool) (t : tx) (local : bool) : (bool + err) * pool :=
  let a := tfrom t in
  let enq := match enqueue_tx p1 t with
             | (inr e, p2) => (inr e, p2)
             | (inl rep, p2) => (inl rep, mark_local p2 a local)
             end in
  match assoc a (pending p1) with
  | Some l =>
    if tl_overlaps l t then
      match tl_add l t (c_bump (conf p1)) with
      | (false, _, _) => (inr EReplaceUnderpriced, p1)
      | (true, old, l') =>
        let p2 := set_pending p1 (assoc_set a l' (pending p1)) in
        let p3 := match old with Some ot => all_drop p2 (thash ot) | None => p2 end in
        (inl (match old with Some _ => true | None => false end), all_put p3 t)
      end
    else enq
  | None => enq
  end.
(* TxPool.add: (replace, error) *)
Definition add (o : oracle) (p : pool) (t : tx) (local : bool) : (bool + err) * pool :=
  match assoc (thash t) (all p) with
  | Some _ => (inr EKnown, p)
  | None =>
    match validate_tx p t local with
    | Some e => (inr e, p)
    | None =>
      let limit := (c_gslots (conf p) + c_gqueue (conf p)) mod two64 in
      if limit <=? Z.of_nat (length (all p)) then
        (* "If the transaction pool is full, discard underpriced transactions" *)
        let '(u, pr) := priced_underpriced o (all p) (locals p) (pricedl p) t in
        let p0 := set_priced p pr in
        if u then (inr EUnderpriced, p0)
        else
          let '(drop, pr1) := priced_discard o (all p0) (locals p0) (pricedl p0)
                                (Z.of_nat (length (all p0)) - ((limit - 1) mod two64)) in
          add_insert (fold_left (fun q x => remove_tx o q (thash x)) drop (set_priced p0 pr1)) t local
      else add_insert p t local
    end
  end.

(* TxPool.addTx (AddLocal / AddRemote) *)
Definition add_tx (o : oracle) (p : pool) (t : tx) (local : bool) : res (option err * pool) :=
  match add o p t local with
  | (inr e, p1) => Ok (Some e, p1)
  | (inl true, p1) => Ok (None, p1)
  | (inl false, p1) => p2 <- promote_executables o p1 (Some [tfrom t]) ;; Ok (None, p2)
  end.
Definition add_local (o : oracle) (p : pool) (t : tx) := add_tx o p t (negb (c_nolocals (conf p))).
Definition add_remote (o : oracle) (p : pool) (t : tx) := add_tx o p t false.

(* TxPool.addTxsLocked *)
Definition atl_step (o : oracle) (local : bool) (st : list (option err) * list Z * pool) (t : tx) : list (option err) * list Z * pool :=
  let '(errs, dirty, q) := st in
  match add o q t local with
  | (inr e, q1) => (errs ++ [Some e], dirty, q1)
  | (inl rep, q1) => (errs ++ [None], (if rep || memZ (tfrom t) dirty then dirty else dirty ++ [tfrom t]), q1)
  end.
Definition add_txs_locked (o : oracle) (p : pool) (txs : list tx) (local : bool) : res (list (option err) * pool) :=
  let '(errs, dirty, p1) := fold_left (atl_step o local) txs ([], [], p) in
  match dirty with
  | [] => Ok (errs, p1)
  | _ => p2 <- promote_executables o p1 (Some (order_keys (operm1 o) dirty)) ;; Ok (errs, p2)
  end.

(* TxPool.demoteUnexecutables, loop body *)
Definition demote_account (o : oracle) (p : pool) (a : Z) : res pool :=
  match assoc a (pending p) with
  | None => Ok p
  | Some l =>
    let nonce := cur_nonce p a in
    let '(old, l1) := tl_forward l nonce in
    let p1 := drop_all (set_pending p (assoc_set a l1 (pending p))) old in
    let '(drops, invalids, l2) := tl_filter o l1 (cur_balance p1 a) (maxgas p1) in
    let p2 := drop_all (set_pending p1 (assoc_set a l2 (pending p1))) drops in
    let p3 := fold_left (fun q x => snd (enqueue_tx q x)) invalids p2 in
    r <- (if (0 <? tl_len l2) && (match tl_get l2 nonce with None => true | Some _ => false end) then
            match tl_cap l2 0 with
            | None => Panic
            | Some (caps, l3) => Ok (fold_left (fun q x => snd (enqueue_tx q x)) caps (set_pending p3 (assoc_set a l3 (pending p3))), l3)
            end
          else Ok (p3, l2)) ;;
    let '(p4, l4) := r in
    Ok (if tl_empty l4 then set_beats (set_pending p4 (assoc_del a (pending p4))) (assoc_del a (beats p4)) (clock p4) else p4)
  end.
Definition demote_unexecutables (o : oracle) (p : pool) : res pool :=
  fold_res (demote_account o) (order_keys (operm4 o) (map fst (pending p))) p.

(* TxPool.reset after the block walk: newcur/newgas = state and gas limit of the new head,
   reinject = TxDifference(discarded, included) *)
Definition reset (o : oracle) (p : pool) (newcur : list (Z * (Z * Z))) (newgas : Z) (reinject : list tx) : res pool :=
  let p0 := set_head p newcur newgas in
  p1 <- (match reinject with [] => Ok p0 | _ => r <- add_txs_locked o p0 reinject false ;; Ok (snd r) end) ;;
  p2 <- demote_unexecutables o p1 ;;
  p3 <- fold_res (fun q a => match assoc a (pending q) with
                             | None => Ok q
                             | Some l => match rev (items l) with
                                         | [] => Panic                       (* txs[len(txs)-1] on an empty slice *)
                                         | t :: _ => Ok (pn_set q a ((tnonce t + 1) mod two64))
                                         end
                             end) (map fst (pending p2)) p2 ;;
  promote_executables o p3 None.

(* types.TxDifference *)
Definition tx_difference (a b : list tx) : list tx :=
  filter (fun t => negb (existsb (fun u => thash u =? thash t) b)) a.

(* the block walk of TxPool.reset over a block store: blocks are (hash, (parent, number, txs));
   GetBlock(hash, number) finds by both.  Result: None = early `return` (unrooted chain: the pool
   state is left untouched), Some reinject otherwise. *)
Record block := mkBlock { bhash : Z; bparent : Z; bnumber : Z; btxs : list tx }.
Definition get_block (bs : list block) (h n : Z) : option block :=
  find (fun b => (bhash b =? h) && (bnumber b =? n)) bs.
Fixpoint walk_down (fuel : nat) (bs : list block) (b : block) (target : Z) (acc : list tx) : res (option (block * list tx)) :=
  match fuel with
  | O => OutOfFuel
  | S f => if target <? bnumber b then
             match get_block bs (bparent b) (bnumber b - 1) with
             | None => Ok None
             | Some b' => walk_down f bs b' target (acc ++ btxs b)
             end
           else Ok (Some (b, acc))
  end.
Fixpoint walk_both (fuel : nat) (bs : list block) (rem add_ : block) (disc incl : list tx) : res (option (list tx * list tx)) :=
  match fuel with
  | O => OutOfFuel
  | S f => if bhash rem =? bhash add_ then Ok (Some (disc, incl))
           else match get_block bs (bparent rem) (bnumber rem - 1) with
                | None => Ok None
                | Some rem' =>
                  match get_block bs (bparent add_) (bnumber add_ - 1) with
                  | None => Ok None
                  | Some add' => walk_both f bs rem' add' (disc ++ btxs rem) (incl ++ btxs add_)
                  end
                end
  end.
(* old = None is the nil oldHead.  Some None = return without touching the pool. *)
Definition reorg_txs (bs : list block) (old : option block) (new : block) : res (option (list tx)) :=
  match old with
  | None => Ok (Some [])
  | Some oldb =>
    if bhash oldb =? bparent new then Ok (Some [])
    else if 64 <? Z.abs (bnumber oldb - bnumber new) then Ok (Some [])
    else
      match get_block bs (bhash oldb) (bnumber oldb), get_block bs (bhash new) (bnumber new) with
      | Some rem, Some add_ =>
        let fuel := S (Z.to_nat (bnumber rem + bnumber add_ + 2)) in
        r1 <- walk_down fuel bs rem (bnumber add_) [] ;;
        match r1 with
        | None => Ok None
        | Some (rem1, disc) =>
          r2 <- walk_down fuel bs add_ (bnumber rem1) [] ;;
          match r2 with
          | None => Ok None
          | Some (add1, incl) =>
            r3 <- walk_both fuel bs rem1 add1 disc incl ;;
            match r3 with
            | None => Ok None
            | Some (d, i) => Ok (Some (tx_difference d i))
            end
          end
        end
      | _, _ => Ok (Some [])
      end
  end.
(* TxPool.reset(oldHead, newHead) *)
Definition reset_heads (o : oracle) (p : pool) (bs : list block) (old : option block) (new : block)
           (newcur : list (Z * (Z * Z))) (newgas : Z) : res pool :=
  r <- reorg_txs bs old new ;;
  match r with
  | None => Ok p
  | Some reinject => reset o p newcur newgas reinject
  end.

(* TxPool.SetGasPrice *)
Definition set_gas_price (o : oracle) (p : pool) (price : Z) : pool :=
  let p1 := set_gasprice p price in
  let '(drop, pr) := priced_cap o (all p1) (locals p1) (pricedl p1) price in
  fold_left (fun q t => remove_tx o q (thash t)) drop (set_priced p1 pr).

(* NewTxPool on an empty journal: reset(nil, head) of an empty pool *)
Definition new_pool (c : cfg) (gp : Z) (cur0 : list (Z * (Z * Z))) (gas0 : Z) : pool :=
  mkPool [] [] [] 0 [] (mkPriced [] 0) [] cur0 gas0 gp [] c.

(* operations of a history *)
Inductive op :=
| OpAddLocal (t : tx) | OpAddRemote (t : tx) | OpSetGasPrice (price : Z)
| OpReset (newcur : list (Z * (Z * Z))) (newgas : Z) (reinject : list tx).
Definition step (o : oracle) (p : pool) (x : op) : res pool :=
  match x with
  | OpAddLocal t => r <- add_local o p t ;; Ok (snd r)
  | OpAddRemote t => r <- add_remote o p t ;; Ok (snd r)
  | OpSetGasPrice g => Ok (set_gas_price o p g)
  | OpReset c g ri => reset o p c g ri
  end.
(* a history with one oracle per step *)
Fixpoint run (p : pool) (h : list (oracle * op)) : res pool :=
  match h with [] => Ok p | (o, x) :: r => p' <- step o p x ;; run p' r end.
