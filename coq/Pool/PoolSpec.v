(* Pool/PoolSpec.v — declarative statement of property C15 over the model state
   (definitions only).  PoolOK = what the miner and the RPC may rely on when
   they read Pending()/Content(). *)
From Coq Require Import List ZArith Bool Sorted.
From AQ Require Import Pool.PoolModel.
Import ListNotations.
Local Open Scope Z_scope.

(* what Pending() / Content() return for an account (Go map lookup = first binding) *)
Definition in_pending (p : pool) (a : Z) (t : tx) : Prop := exists l, assoc a (pending p) = Some l /\ In t (items l).
Definition in_queue (p : pool) (a : Z) (t : tx) : Prop := exists l, assoc a (queue p) = Some l /\ In t (items l).
Definition listed (p : pool) (t : tx) : Prop := exists a, in_pending p a t \/ in_queue p a t.

(* strictly increasing nonces: "in order", and no nonce twice in one list *)
Definition nonce_sorted (l : list tx) : Prop := StronglySorted (fun x y => tnonce x < tnonce y) l.

(* 1. pending_executable: per sender the pending nonces are exactly
      [state nonce, state nonce + k), every one affordable and within the block gas limit *)
Fixpoint run_from (n : Z) (l : list tx) : Prop :=
  match l with [] => True | t :: r => tnonce t = n /\ run_from (n + 1) r end.
Definition pending_executable (p : pool) : Prop :=
  forall a l, assoc a (pending p) = Some l ->
    run_from (cur_nonce p a) (items l) /\
    Forall (fun t => tfrom t = a /\ tcost t <= cur_balance p a /\ tgas t <= maxgas p) (items l).
(* decidable form, used for the refutation witness *)
Fixpoint run_fromb (n : Z) (l : list tx) : bool :=
  match l with [] => true | t :: r => (tnonce t =? n) && run_fromb (n + 1) r end.
Definition pending_executableb (p : pool) : bool :=
  forallb (fun kv => match assoc (fst kv) (pending p) with
                     | Some l => run_fromb (cur_nonce p (fst kv)) (items l) &&
                                 forallb (fun t => (tfrom t =? fst kv) && (tcost t <=? cur_balance p (fst kv)) && (tgas t <=? maxgas p)) (items l)
                     | None => true end) (pending p).

(* 2. unique_nonce: lists are keyed by their sender, in nonce order, and no (sender, nonce)
      occurs twice across pending and queue *)
Definition unique_nonce (p : pool) : Prop :=
  (forall a l, assoc a (pending p) = Some l -> nonce_sorted (items l) /\ Forall (fun t => tfrom t = a) (items l)) /\
  (forall a l, assoc a (queue p) = Some l -> nonce_sorted (items l) /\ Forall (fun t => tfrom t = a) (items l)) /\
  (forall a t u, in_pending p a t -> in_queue p a u -> tnonce t <> tnonce u).

(* 2b. all = pending ∪ queue (auxiliary index; FALSE of the code, see all_is_union_refuted) *)
Definition all_is_union (p : pool) : Prop :=
  forall h, (exists t, assoc h (all p) = Some t) <-> (exists t, listed p t /\ thash t = h).
Definition all_is_unionb (p : pool) : bool :=
  let ls := flat_map (fun kv => items (snd kv)) (pending p) ++ flat_map (fun kv => items (snd kv)) (queue p) in
  forallb (fun kv => existsb (fun t => thash t =? fst kv) ls) (all p) &&
  forallb (fun t => match assoc (thash t) (all p) with Some _ => true | None => false end) ls.

(* 3. the price-bump rule of txList.Add as the code computes it *)
Definition bump_ok (bump : Z) (old new : tx) : Prop :=
  tprice old < tprice new /\ (tprice old * (100 + bump)) / 100 <= tprice new.

(* 4. limits for non-local senders *)
Definition limits_hold (p : pool) : Prop :=
  (forall a l, assoc a (queue p) = Some l -> memZ a (locals p) = false -> tl_len l <= c_aqueue (conf p)) /\
  (c_gslots (conf p) < pending_count p ->
     forall a l, assoc a (pending p) = Some l -> memZ a (locals p) = false -> tl_len l <= c_aslots (conf p)).

(* inputs: transactions are identified by their hash (collision freedom of the tx hash is a premise) *)
Definition op_txs (x : op) : list tx :=
  match x with OpAddLocal t | OpAddRemote t => [t] | OpSetGasPrice _ => [] | OpReset _ _ ri => ri end.

(* all = pending ∪ queue, in the form used as an invariant: every entry of pool.all is keyed by its own hash,
   every pending/queued transaction is in pool.all, and nothing else is (no orphans) *)
Definition all_wf (p : pool) : Prop :=
  (forall h t, assoc h (all p) = Some t -> thash t = h) /\
  (forall t, listed p t -> assoc (thash t) (all p) = Some t).
Definition all_exact (p : pool) : Prop := all_wf p /\ forall h t, assoc h (all p) = Some t -> listed p t.

(* the cached ceilings of txList (costcap / gascap) bound every transaction of the list: what lets
   txList.Filter short-circuit soundly *)
Definition caps_ok (l : txlist) : Prop := Forall (fun t => tcost t <= costcap l /\ tgas t <= gascap l) (items l).
Definition caps_sound (p : pool) : Prop :=
  (forall a l, assoc a (pending p) = Some l -> caps_ok l) /\ (forall a l, assoc a (queue p) = Some l -> caps_ok l).
(* affordability half of pending_executable *)
Definition pending_affordable (p : pool) : Prop :=
  forall a l, assoc a (pending p) = Some l -> Forall (fun t => tcost t <= cur_balance p a /\ tgas t <= maxgas p) (items l).

(* ordering half of pending_executable together with the virtual nonce: per sender the pending nonces are the run
   starting at the chain nonce and State().GetNonce is the chain nonce plus the length of that run *)
Definition pn_ok (p : pool) : Prop :=
  forall a, match assoc a (pending p) with
            | Some l => run_from (cur_nonce p a) (items l) /\ pn_get p a = cur_nonce p a + tl_len l
            | None => pn_get p a = cur_nonce p a
            end.
Definition pn_okb (p : pool) (senders : list Z) : bool :=
  forallb (fun a => match assoc a (pending p) with
                    | Some l => run_fromb (cur_nonce p a) (items l) && (pn_get p a =? cur_nonce p a + tl_len l)
                    | None => pn_get p a =? cur_nonce p a
                    end) senders.

(* uint64 nonces for which nonce+1 does not wrap; pending lists are strict (txList.Remove then invalidates successors) *)
Definition nonce_ok (t : tx) : Prop := 0 <= tnonce t < two64 - 1.
Definition lists_wf (p : pool) : Prop :=
  (forall a l, assoc a (pending p) = Some l -> strict l = true /\ Forall nonce_ok (items l)) /\
  (forall a l, assoc a (queue p) = Some l -> Forall nonce_ok (items l)).

(* ---------------------------------------------------------------- reorganisations: what reset has to reinject *)
(* chain_down bs b l c: following parent links (GetBlock(parent hash, number-1)) from b reaches c; l = the blocks
   passed on the way, b first, c excluded *)
Inductive chain_down (bs : list block) : block -> list block -> block -> Prop :=
| cd_here : forall b, chain_down bs b [] b
| cd_step : forall b b' l c, get_block bs (bparent b) (bnumber b - 1) = Some b' -> chain_down bs b' l c -> chain_down bs b (b :: l) c.
Definition txs_of (l : list block) : list tx := flat_map btxs l.
(* the reinjection set of reset(old, new): transactions of the dropped branch that are not in the new branch *)
Definition reorg_spec (bs : list block) (old new : block) (ri : list tx) : Prop :=
  exists rem add_ dl il c1 c2,
    get_block bs (bhash old) (bnumber old) = Some rem /\ get_block bs (bhash new) (bnumber new) = Some add_ /\
    chain_down bs rem dl c1 /\ chain_down bs add_ il c2 /\ bhash c1 = bhash c2 /\
    ri = tx_difference (txs_of dl) (txs_of il).
