(* Pool/PoolReorg.v — reorg_reinjects: what TxPool.reset reinjects after a reorganisation, and that it is pooled. *)
From Coq Require Import List ZArith Bool Sorted Lia.
From Coq Require Import ZifyBool.
From AQ Require Import Pool.PoolModel Pool.PoolSpec Pool.PoolProofs.
Import ListNotations.
Local Open Scope Z_scope.

(* ---------------------------------------------------------------- A. the block walk *)
Lemma chain_down_app : forall bs a l b m c, chain_down bs a l b -> chain_down bs b m c -> chain_down bs a (l ++ m) c.
Proof. intros bs a l b m c H. induction H; intros H2; cbn [app]; auto. econstructor; eauto. Qed.
Lemma txs_of_app : forall l m, txs_of (l ++ m) = txs_of l ++ txs_of m.
Proof. intros. unfold txs_of. apply flat_map_app. Qed.

Lemma walk_down_spec : forall fuel bs b target acc b' acc',
  walk_down fuel bs b target acc = Ok (Some (b', acc')) ->
  exists l, chain_down bs b l b' /\ acc' = acc ++ txs_of l /\ bnumber b' <= target.
Proof.
  induction fuel as [|f IH]; intros bs b target acc b' acc' H; cbn [walk_down] in H; [discriminate|].
  destruct (target <? bnumber b) eqn:E.
  - destruct (get_block bs (bparent b) (bnumber b - 1)) as [b1|] eqn:G; [|discriminate].
    destruct (IH _ _ _ _ _ _ H) as (l & C & A & N). exists (b :: l). split; [econstructor; eauto|split; auto].
    rewrite A. cbn [txs_of flat_map]. rewrite <- app_assoc. reflexivity.
  - inversion H; subst. exists []. split; [constructor|split; [cbn; rewrite app_nil_r; auto|lia]].
Qed.
Lemma walk_both_spec : forall fuel bs rem add_ disc incl d i,
  walk_both fuel bs rem add_ disc incl = Ok (Some (d, i)) ->
  exists dl il c1 c2, chain_down bs rem dl c1 /\ chain_down bs add_ il c2 /\ bhash c1 = bhash c2 /\
                      d = disc ++ txs_of dl /\ i = incl ++ txs_of il.
Proof.
  induction fuel as [|f IH]; intros bs rem add_ disc incl d i H; cbn [walk_both] in H; [discriminate|].
  destruct (bhash rem =? bhash add_) eqn:E.
  - inversion H; subst. exists [], [], rem, add_. repeat split; try constructor; try (cbn; rewrite app_nil_r; auto). lia.
  - destruct (get_block bs (bparent rem) (bnumber rem - 1)) as [r1|] eqn:G1; [|discriminate].
    destruct (get_block bs (bparent add_) (bnumber add_ - 1)) as [a1|] eqn:G2; [|discriminate].
    destruct (IH _ _ _ _ _ _ _ H) as (dl & il & c1 & c2 & C1 & C2 & Eh & D & I).
    exists (rem :: dl), (add_ :: il), c1, c2. repeat split; auto; try (econstructor; eauto).
    + rewrite D. cbn [txs_of flat_map]. rewrite <- app_assoc. reflexivity.
    + rewrite I. cbn [txs_of flat_map]. rewrite <- app_assoc. reflexivity.
Qed.

(* reset(old, new): what is reinjected.  Some [] for a plain advance, a too deep reorganisation (number difference
   > 64) or unknown blocks; otherwise exactly (transactions of the dropped branch) minus (those of the new branch),
   both taken down to a common ancestor.  None = unrooted chain: reset returns without touching the pool. *)
Theorem reorg_txs_spec : forall bs old new ri, reorg_txs bs (Some old) new = Ok (Some ri) ->
  (bhash old = bparent new /\ ri = []) \/
  (bhash old <> bparent new /\ 64 < Z.abs (bnumber old - bnumber new) /\ ri = []) \/
  (bhash old <> bparent new /\ Z.abs (bnumber old - bnumber new) <= 64 /\
   (get_block bs (bhash old) (bnumber old) = None \/ get_block bs (bhash new) (bnumber new) = None) /\ ri = []) \/
  (bhash old <> bparent new /\ Z.abs (bnumber old - bnumber new) <= 64 /\ reorg_spec bs old new ri).
Proof.
  intros bs old new ri H. unfold reorg_txs in H.
  destruct (bhash old =? bparent new) eqn:E1; [inversion H; subst; left; split; [lia|auto]|].
  destruct (64 <? Z.abs (bnumber old - bnumber new)) eqn:E2; [inversion H; subst; right; left; repeat split; auto; lia|].
  destruct (get_block bs (bhash old) (bnumber old)) as [rem|] eqn:G1.
  2:{ inversion H; subst. right. right. left. repeat split; auto; lia. }
  destruct (get_block bs (bhash new) (bnumber new)) as [add_|] eqn:G2.
  2:{ inversion H; subst. right. right. left. repeat split; auto; lia. }
  right. right. right. split; [lia|split; [lia|]].
  apply bind_ok in H. destruct H as (r1 & W1 & H). destruct r1 as [[rem1 disc]|]; [|inversion H].
  apply bind_ok in H. destruct H as (r2 & W2 & H). destruct r2 as [[add1 incl]|]; [|inversion H].
  apply bind_ok in H. destruct H as (r3 & W3 & H). destruct r3 as [[d i]|]; inversion H; subst; clear H.
  destruct (walk_down_spec _ _ _ _ _ _ _ W1) as (l1 & C1 & A1 & _). destruct (walk_down_spec _ _ _ _ _ _ _ W2) as (l2 & C2 & A2 & _).
  destruct (walk_both_spec _ _ _ _ _ _ _ _ W3) as (dl & il & c1 & c2 & D1 & D2 & Eh & Dd & Di).
  exists rem, add_, (l1 ++ dl), (l2 ++ il), c1, c2. repeat split; auto.
  - eapply chain_down_app; eauto.
  - eapply chain_down_app; eauto.
  - rewrite Dd, Di, A1, A2. cbn [app]. rewrite !txs_of_app. reflexivity.
Qed.
(* nothing is invented, nothing of the dropped branch is forgotten *)
Lemma tx_difference_in : forall a b t, In t (tx_difference a b) <-> In t a /\ (forall u, In u b -> thash u <> thash t).
Proof.
  intros a b t. unfold tx_difference. rewrite filter_In. split; intros [H1 H2]; split; auto.
  - intros u Hu E. rewrite negb_true_iff in H2. assert (existsb (fun u0 => thash u0 =? thash t) b = true); [|congruence].
    apply existsb_exists. exists u. split; auto. lia.
  - rewrite negb_true_iff. destruct (existsb (fun u => thash u =? thash t) b) eqn:E; auto. apply existsb_exists in E. destruct E as (u & Hu & Eu).
    exfalso. apply (H2 u Hu). lia.
Qed.

(* ---------------------------------------------------------------- B. reinjection: add pools what is offered *)
Lemma tl_get_none_intro : forall l n, (forall u, In u (items l) -> tnonce u <> n) -> tl_get l n = None.
Proof.
  intros l n H. unfold tl_get. destruct (find (fun t => tnonce t =? n) (items l)) as [x|] eqn:F; auto.
  apply find_some in F. destruct F as [Hx E]. exfalso. apply (H x Hx). lia.
Qed.
Lemma listed_mark_local : forall p a local t, listed (mark_local p a local) t <-> listed p t.
Proof. intros. unfold mark_local. destruct local; reflexivity. Qed.

(* no transaction of the same sender and nonce is pooled: the submission goes into the queue *)
Lemma add_insert_accepts : forall p t local,
  (forall u, in_pending p (tfrom t) u \/ in_queue p (tfrom t) u -> tnonce u <> tnonce t) ->
  add_insert p t local = (inl false, mark_local (snd (enqueue_tx p t)) (tfrom t) local).
Proof.
  intros p t local Hno. unfold add_insert.
  assert (Henq : match enqueue_tx p t with (inr e, p2) => (inr e, p2) | (inl rep, p2) => (inl rep, mark_local p2 (tfrom t) local) end
                 = (inl false, mark_local (snd (enqueue_tx p t)) (tfrom t) local)).
  { unfold enqueue_tx.
    assert (G : tl_get (match assoc (tfrom t) (queue p) with Some l => l | None => new_txlist false end) (tnonce t) = None).
    { apply tl_get_none_intro. intros u Hu. apply Hno. right. destruct (assoc (tfrom t) (queue p)) as [l|] eqn:Q; [exists l; auto|destruct Hu]. }
    unfold tl_add. rewrite G. cbn. reflexivity. }
  destruct (assoc (tfrom t) (pending p)) as [l|] eqn:P; [|exact Henq].
  assert (Ov : tl_overlaps l t = false).
  { unfold tl_overlaps. rewrite tl_get_none_intro; auto. intros u Hu. apply Hno. left. exists l; auto. }
  rewrite Ov. exact Henq.
Qed.
(* whatever add_insert accepts is pooled afterwards *)
Lemma add_insert_listed : forall p t local r p', K p -> (forall u, listed p u -> thash u <> thash t) ->
  add_insert p t local = (inl r, p') -> listed p' t.
Proof.
  intros p t local r p' [HJ HS] Hfr H. unfold add_insert in H.
  assert (Henq : (forall u, in_pending p (tfrom t) u -> tnonce u <> tnonce t) ->
     forall r p', match enqueue_tx p t with (inr e, p2) => (inr e, p2) | (inl rep, p2) => (inl rep, mark_local p2 (tfrom t) local) end = (inl r, p') -> listed p' t).
  { intros Hpre r0 p0 H0. destruct (enqueue_J p t [] HJ Hpre Hfr) as (_ & _ & _ & _ & _ & L).
    destruct (enqueue_tx p t) as [[rep|e] p2] eqn:E; cbn [snd fst] in *; inversion H0; subst. apply listed_mark_local. eapply L; eauto. }
  destruct (assoc (tfrom t) (pending p)) as [l|] eqn:P.
  - destruct (tl_overlaps l t) eqn:Ov.
    + destruct (tl_add l t (c_bump (conf p))) as [[ins old] l'] eqn:E. destruct ins; [|inversion H].
      inversion H; subst; clear H. pose proof (tl_add_ok _ _ _ _ _ E) as [Hit Hold].
      match goal with |- listed ?Q t => set (q := Q) end.
      assert (Hl : list_of (pending p) (tfrom t) true = l) by (unfold list_of; rewrite P; auto).
      destruct (J_pins p q t true l' [] HJ) as (Lx & _); auto.
      * intros u Hu. unfold tl_overlaps, tl_get in Ov. destruct (find (fun x => tnonce x =? tnonce t) (items l)) as [x|] eqn:Fd; [|discriminate].
        apply find_some in Fd. destruct Fd as [Hin Hn]. destruct HJ as ((_ & _ & HD) & _ & _).
        assert (Hxu : tnonce x <> tnonce u) by (apply (HD (tfrom t)); auto; exists l; auto). lia.
      * rewrite Hl. exact Hit.
      * subst q. destruct old; reflexivity.
      * subst q. destruct old; reflexivity.
      * intros h. rewrite Hl. subst q old. destruct (tl_get l (tnonce t)); reflexivity.
    + eapply Henq; eauto. intros u (lp & Hlp & Hu). rewrite P in Hlp. inversion Hlp; subst.
      unfold tl_overlaps in Ov. destruct (tl_get lp (tnonce t)) eqn:G; [discriminate|]. eapply tl_get_none; eauto.
  - eapply Henq; eauto. intros u (lp & Hlp & Hu). rewrite P in Hlp. discriminate.
Qed.
(* a pooled transaction stays pooled when another one, of a different (sender, nonce), is inserted *)
Lemma listed_qset_keep : forall p q a l l' v, pending q = pending p -> queue q = assoc_set a l' (queue p) ->
  (assoc a (queue p) = Some l \/ (assoc a (queue p) = None /\ items l = [])) ->
  (In v (items l) -> In v (items l')) -> listed p v -> listed q v.
Proof.
  intros p q a l l' v Hp Hq Hl Hk [b [(lp & Hlp & Hin)|(lq & Hlq & Hin)]].
  - exists b. left. exists lp. rewrite Hp. auto.
  - destruct (Z.eq_dec b a) as [->|Hne].
    + exists a. right. exists l'. rewrite Hq, assoc_set_same. split; auto. apply Hk. destruct Hl as [Hl|[Hl _]]; rewrite Hl in Hlq; [inversion Hlq; subst; auto|discriminate].
    + exists b. right. exists lq. rewrite Hq, assoc_set_other by auto. auto.
Qed.
Lemma listed_pset_keep : forall p q a l l' v, queue q = queue p -> pending q = assoc_set a l' (pending p) ->
  assoc a (pending p) = Some l -> (In v (items l) -> In v (items l')) -> listed p v -> listed q v.
Proof.
  intros p q a l l' v Hq Hp Hl Hk [b [(lp & Hlp & Hin)|(lq & Hlq & Hin)]].
  - destruct (Z.eq_dec b a) as [->|Hne].
    + exists a. left. exists l'. rewrite Hp, assoc_set_same. split; auto. apply Hk. rewrite Hl in Hlp. inversion Hlp; subst; auto.
    + exists b. left. exists lp. rewrite Hp, assoc_set_other by auto. auto.
  - exists b. right. exists lq. rewrite Hq. auto.
Qed.
Lemma enqueue_keep : forall p x v, listed p v -> tnonce v <> tnonce x -> listed (snd (enqueue_tx p x)) v.
Proof.
  intros p x v Hv Hn. unfold enqueue_tx.
  destruct (tl_add (match assoc (tfrom x) (queue p) with Some l => l | None => new_txlist false end) x (c_bump (conf p))) as [[ins old] l'] eqn:E.
  assert (Hl : assoc (tfrom x) (queue p) = Some (match assoc (tfrom x) (queue p) with Some l => l | None => new_txlist false end) \/
               (assoc (tfrom x) (queue p) = None /\ items (match assoc (tfrom x) (queue p) with Some l => l | None => new_txlist false end) = [])).
  { destruct (assoc (tfrom x) (queue p)); [left; auto|right; split; auto]. }
  destruct ins; cbn [snd].
  - pose proof (tl_add_ok _ _ _ _ _ E) as [Hit _].
    eapply listed_qset_keep with (p := p) (l' := l'); eauto; [destruct old; reflexivity|destruct old; reflexivity|].
    intros Hin. rewrite Hit. apply ins_in_conv; auto.
  - eapply listed_qset_keep with (p := p); eauto; reflexivity.
Qed.
Lemma add_insert_keep : forall p x local r p' v, listed p v -> tnonce v <> tnonce x \/ tfrom v <> tfrom x -> unique_nonce p ->
  add_insert p x local = (r, p') -> listed p' v.
Proof.
  intros p x local r p' v Hv Hd HU H. unfold add_insert in H.
  assert (Hn : forall l, (assoc (tfrom x) (pending p) = Some l \/ assoc (tfrom x) (queue p) = Some l) -> In v (items l) -> tnonce v <> tnonce x).
  { intros l Hl Hin. destruct Hd as [Hd|Hd]; auto. exfalso. apply Hd. destruct HU as (HP & HQ & _).
    destruct Hl as [Hl|Hl]; [destruct (HP _ _ Hl) as [_ F]|destruct (HQ _ _ Hl) as [_ F]]; rewrite Forall_forall in F; auto. }
  assert (Henq : forall r p', match enqueue_tx p x with (inr e, p2) => (inr e, p2) | (inl rep, p2) => (inl rep, mark_local p2 (tfrom x) local) end = (r, p') -> listed p' v).
  { intros r0 p0 E.
    assert (L : listed (snd (enqueue_tx p x)) v).
    { unfold enqueue_tx.
      destruct (tl_add (match assoc (tfrom x) (queue p) with Some l => l | None => new_txlist false end) x (c_bump (conf p))) as [[ins old] l'] eqn:E2.
      assert (Hl : assoc (tfrom x) (queue p) = Some (match assoc (tfrom x) (queue p) with Some l => l | None => new_txlist false end) \/
               (assoc (tfrom x) (queue p) = None /\ items (match assoc (tfrom x) (queue p) with Some l => l | None => new_txlist false end) = [])).
      { destruct (assoc (tfrom x) (queue p)); [left; auto|right; split; auto]. }
      destruct ins; cbn [snd].
      - pose proof (tl_add_ok _ _ _ _ _ E2) as [Hit _].
        eapply listed_qset_keep with (p := p) (l' := l'); eauto; [destruct old; reflexivity|destruct old; reflexivity|].
        intros Hin. rewrite Hit. apply ins_in_conv; auto. destruct (assoc (tfrom x) (queue p)) as [lq|] eqn:Q; [apply (Hn lq); auto|destruct Hin].
      - eapply listed_qset_keep with (p := p); eauto; reflexivity. }
    destruct (enqueue_tx p x) as [[rep|e] p2]; cbn [snd] in L; inversion E; subst; auto. apply listed_mark_local. auto. }
  destruct (assoc (tfrom x) (pending p)) as [l|] eqn:P; [|eapply Henq; eauto].
  destruct (tl_overlaps l x); [|eapply Henq; eauto].
  destruct (tl_add l x (c_bump (conf p))) as [[ins old] l'] eqn:E. destruct ins; [|inversion H; subst; auto].
  inversion H; subst; clear H. pose proof (tl_add_ok _ _ _ _ _ E) as [Hit _].
  eapply listed_pset_keep with (p := p) (l := l) (l' := l'); eauto; [destruct old; reflexivity|destruct old; reflexivity|].
  intros Hin. rewrite Hit. apply ins_in_conv; auto. apply (Hn l); auto.
Qed.

(* ---------------------------------------------------------------- the reinjection phase of reset: addTxsLocked(reinject, false) *)
Definition pool_limit (p : pool) : Z := (c_gslots (conf p) + c_gqueue (conf p)) mod two64.
Lemma length_assoc_set_le : forall A k (v : A) m, (length (assoc_set k v m) <= S (length m))%nat.
Proof. induction m as [|[k' v'] m IH]; cbn [assoc_set length]; [lia|]. destruct (k =? k'); cbn [length]; lia. Qed.
Lemma length_assoc_del_le : forall A k (m : list (Z * A)), (length (assoc_del k m) <= length m)%nat.
Proof. induction m as [|[k' v'] m IH]; cbn [assoc_del length]; [lia|]. destruct (k =? k'); cbn [length]; lia. Qed.
Lemma assoc_set_some : forall A k (x : A) m h v, assoc h (assoc_set k x m) = Some v -> (h = k /\ v = x) \/ assoc h m = Some v.
Proof. intros A k x m h v H. destruct (Z.eq_dec h k) as [->|Hne]; [rewrite assoc_set_same in H; inversion H; auto|rewrite assoc_set_other in H by auto; auto]. Qed.
Lemma assoc_del_some : forall A k (m : list (Z * A)) h v, assoc h (assoc_del k m) = Some v -> assoc h m = Some v.
Proof. intros A k m h v H. destruct (Z.eq_dec h k) as [->|Hne]; [rewrite assoc_del_same in H; discriminate|rewrite assoc_del_other in H by auto; auto]. Qed.

(* what add_insert does to the rest of the pool: configuration and chain view untouched, pool.all grows by at most
   the submitted transaction *)
Lemma add_insert_frame : forall p x r p', add_insert p x false = (r, p') ->
  conf p' = conf p /\ cur p' = cur p /\ maxgas p' = maxgas p /\ gasprice p' = gasprice p /\ locals p' = locals p /\
  (length (all p') <= S (length (all p)))%nat /\
  (forall h v, assoc h (all p') = Some v -> (h = thash x /\ v = x) \/ assoc h (all p) = Some v).
Proof.
  intros p x r p' H. unfold add_insert in H.
  assert (Henq : forall r p', match enqueue_tx p x with (inr e, p2) => (inr e, p2) | (inl rep, p2) => (inl rep, mark_local p2 (tfrom x) false) end = (r, p') ->
    conf p' = conf p /\ cur p' = cur p /\ maxgas p' = maxgas p /\ gasprice p' = gasprice p /\ locals p' = locals p /\
    (length (all p') <= S (length (all p)))%nat /\ (forall h v, assoc h (all p') = Some v -> (h = thash x /\ v = x) \/ assoc h (all p) = Some v)).
  { intros r0 p0 E. unfold enqueue_tx in E. destruct (tl_add _ x (c_bump (conf p))) as [[ins old] l']. destruct ins.
    - destruct old as [o|]; inversion E; subst; cbn; repeat split; auto.
      + pose proof (length_assoc_set_le _ (thash x) x (assoc_del (thash o) (all p))). pose proof (length_assoc_del_le _ (thash o) (all p)). lia.
      + intros h v Hv. apply assoc_set_some in Hv. destruct Hv as [Hv|Hv]; auto. right. eapply assoc_del_some; eauto.
      + apply length_assoc_set_le.
      + intros h v Hv. apply assoc_set_some in Hv. tauto.
    - inversion E; subst; cbn; repeat split; auto. }
  destruct (assoc (tfrom x) (pending p)) as [l|]; [|eapply Henq; eauto].
  destruct (tl_overlaps l x); [|eapply Henq; eauto].
  destruct (tl_add l x (c_bump (conf p))) as [[ins old] l']. destruct ins; [|inversion H; subst; repeat split; auto].
  destruct old as [o|]; inversion H; subst; cbn; repeat split; auto.
  - pose proof (length_assoc_set_le _ (thash x) x (assoc_del (thash o) (all p))). pose proof (length_assoc_del_le _ (thash o) (all p)). lia.
  - intros h v Hv. apply assoc_set_some in Hv. destruct Hv as [Hv|Hv]; auto. right. eapply assoc_del_some; eauto.
  - apply length_assoc_set_le.
  - intros h v Hv. apply assoc_set_some in Hv. tauto.
Qed.
Lemma validate_frame : forall p q t local, cur q = cur p -> maxgas q = maxgas p -> gasprice q = gasprice p -> locals q = locals p ->
  validate_tx q t local = validate_tx p t local.
Proof. intros p q t local A B C D. unfold validate_tx, cur_nonce, cur_balance. rewrite A, B, C, D. reflexivity. Qed.
Lemma add_not_full : forall o p t, Z.of_nat (length (all p)) < pool_limit p ->
  add o p t false = match assoc (thash t) (all p) with
                    | Some _ => (inr EKnown, p)
                    | None => match validate_tx p t false with Some e => (inr e, p) | None => add_insert p t false end
                    end.
Proof.
  intros o p t H. unfold add. destruct (assoc (thash t) (all p)); auto. destruct (validate_tx p t false); auto.
  unfold pool_limit in H. destruct ((c_gslots (conf p) + c_gqueue (conf p)) mod two64 <=? Z.of_nat (length (all p))) eqn:E; [lia|reflexivity].
Qed.
Lemma K_listed_all : forall p t, K p -> listed p t -> assoc (thash t) (all p) = Some t.
Proof. intros p t [(_ & [_ W2] & _) _] H. auto. Qed.
Lemma K_all_listed : forall p h t, K p -> assoc h (all p) = Some t -> listed p t /\ thash t = h.
Proof.
  intros p h t [(_ & [W1 _] & O) _] H. pose proof (W1 _ _ H) as E. subst h. split; auto. destruct (O t H) as [L|[]]; auto.
Qed.

Theorem reinject_phase : forall ri o q e d t,
  K q -> Z.of_nat (length (all q)) + Z.of_nat (length ri) <= pool_limit q ->
  (forall u, In u ri -> tfrom u = tfrom t -> tnonce u = tnonce t -> u = t) ->
  (forall u, In u ri -> thash u = thash t -> u = t) ->
  validate_tx q t false = None ->
  (listed q t \/ (In t ri /\ assoc (thash t) (all q) = None /\ forall u, listed q u -> tfrom u = tfrom t -> tnonce u <> tnonce t)) ->
  let q' := snd (fold_left (atl_step o false) ri (e, d, q)) in listed q' t /\ K q'.
Proof.
  induction ri as [|x ri IH]; intros o q e d t HK Hroom Hcomp Hhash Hval Ht; cbn [fold_left].
  - cbn [snd]. destruct Ht as [Ht|[[] _]]. auto.
  - cbn [length] in Hroom. rewrite Nat2Z.inj_succ in Hroom.
    assert (Hnf : Z.of_nat (length (all q)) < pool_limit q) by lia.
    (* the pool after this step *)
    assert (Hstep : exists r q1, (match assoc (thash x) (all q) with Some _ => (inr EKnown, q) | None => match validate_tx q x false with Some e0 => (inr e0, q) | None => add_insert q x false end end) = (r, q1) /\
              K q1 /\ conf q1 = conf q /\ validate_tx q1 t false = None /\ (length (all q1) <= S (length (all q)))%nat /\
              (listed q1 t \/ (In t ri /\ assoc (thash t) (all q1) = None /\ forall u, listed q1 u -> tfrom u = tfrom t -> tnonce u <> tnonce t))).
    { destruct (assoc (thash x) (all q)) as [kx|] eqn:Kx.
      - exists (inr EKnown), q. split; [reflexivity|split; [exact HK|split; [reflexivity|split; [exact Hval|split; [lia|]]]]].
        destruct Ht as [Ht|(Hin & Hn & Hc)]; [left; exact Ht|]. destruct Hin as [->|Hin]; [congruence|]. right; auto.
      - destruct (validate_tx q x false) as [ev|] eqn:Vx.
        + exists (inr ev), q. split; [reflexivity|split; [exact HK|split; [reflexivity|split; [exact Hval|split; [lia|]]]]].
          destruct Ht as [Ht|(Hin & Hn & Hc)]; [left; exact Ht|]. destruct Hin as [->|Hin]; [congruence|]. right; auto.
        + destruct (add_insert q x false) as [r q1] eqn:A. exists r, q1.
          destruct (add_insert_frame _ _ _ _ A) as (Fc & Fu & Fm & Fg & Fl & Flen & Fall).
          assert (Hfrx : forall u, listed q u -> thash u <> thash x) by (apply fresh_from_none; [apply HK|exact Kx]).
          assert (K1 : K q1) by (eapply add_insert_K; eauto).
          split; [reflexivity|split; [exact K1|split; [exact Fc|split; [rewrite (validate_frame q q1 t false Fu Fm Fg Fl); exact Hval|split; [exact Flen|]]]]].
          destruct Ht as [Ht|(Hin & Hn & Hc)].
          * left. destruct HK as [(U & _) _]. eapply add_insert_keep; [exact Ht| |exact U|exact A].
            (* x cannot have t's sender and nonce: x = t would be known already *)
            destruct (Z.eq_dec (tnonce t) (tnonce x)) as [En|]; [|left; auto]. destruct (Z.eq_dec (tfrom t) (tfrom x)) as [Ef|]; [|right; auto].
            exfalso. assert (x = t) by (apply Hcomp; [left; auto|auto|auto]). subst x. apply (Hfrx t Ht). reflexivity.
          * destruct (Z.eq_dec (thash x) (thash t)) as [Exh|Nxh].
            -- (* t's turn *) assert (x = t) by (apply Hhash; [left; auto|auto]). subst x. left.
               assert (Hno : forall u, in_pending q (tfrom t) u \/ in_queue q (tfrom t) u -> tnonce u <> tnonce t).
               { intros u Hu. assert (Lu : listed q u) by (exists (tfrom t); exact Hu). apply (Hc u Lu).
                 destruct HK as [((HP & HQ & _) & _) _]. destruct Hu as [(l & Hl & Hi)|(l & Hl & Hi)];
                   [destruct (HP _ _ Hl) as [_ F]|destruct (HQ _ _ Hl) as [_ F]]; rewrite Forall_forall in F; auto. }
               pose proof (add_insert_accepts q t false Hno) as Acc. rewrite Acc in A. inversion A; subst.
               eapply add_insert_listed; [exact HK|exact Hfrx|exact Acc].
            -- assert (Hin' : In t ri) by (destruct Hin as [->|Hin]; [exfalso; apply Nxh; reflexivity|exact Hin]).
               right. split; [exact Hin'|split].
               ++ destruct (assoc (thash t) (all q1)) as [v|] eqn:Av; auto. exfalso. destruct (Fall _ _ Av) as [[Eh Ev]|Old]; [|congruence].
                  subst v. apply Nxh. auto.
               ++ intros u Hu Ef En. pose proof (K_listed_all q1 u K1 Hu) as Au. destruct (Fall _ _ Au) as [[Eh Ev]|Old].
                  ** subst u. assert (x = t) by (apply Hcomp; [left; auto|auto|auto]). subst x. apply Nxh. reflexivity.
                  ** destruct (K_all_listed q _ _ HK Old) as [Lu _]. apply (Hc u Lu Ef En). }
    destruct Hstep as (r & q1 & Eq & K1 & Fc & V1 & Flen & T1). cbv zeta.
    assert (Hst : exists e1 d1, atl_step o false (e, d, q) x = (e1, d1, q1)).
    { unfold atl_step. rewrite (add_not_full o q x Hnf), Eq. destruct r; eauto. }
    destruct Hst as (e1 & d1 & ->).
    apply (IH o q1 e1 d1 t); auto.
    + unfold pool_limit in *. rewrite Fc. lia.
    + intros u Hu. apply Hcomp. right; auto.
    + intros u Hu. apply Hhash. right; auto.
Qed.

(* ---------------------------------------------------------------- non-vacuity: a reorganisation in the model *)
(* block 10 (#0) <- 11 (#1, contains A's nonce 0) ; sibling 12 (#1, empty).  reset(11, 12): the transaction of the
   dropped block is the reinjection set and is pending afterwards *)
Definition ex_bs : list block :=
  [mkBlock 10 0 0 []; mkBlock 11 10 1 [mk 1 0 0 50]; mkBlock 12 10 1 []].
Lemma reorg_example :
  reorg_txs ex_bs (Some (mkBlock 11 10 1 [mk 1 0 0 50])) (mkBlock 12 10 1 []) = Ok (Some [mk 1 0 0 50]) /\
  exists p, reset_heads o0 (new_pool cfg_tiny 1 [(0, (1, 100000000))] 1000000) ex_bs (Some (mkBlock 11 10 1 [mk 1 0 0 50])) (mkBlock 12 10 1 [])
              [(0, (0, 100000000))] 1000000 = Ok p /\
            map (fun kv => (fst kv, map thash (items (snd kv)))) (pending p) = [(0, [1])].
Proof. split; [vm_compute; reflexivity|]. eexists. split; [vm_compute; reflexivity|vm_compute; reflexivity]. Qed.

(* nothing else enters the pool during the reinjection phase *)
Lemma add_not_full_step : forall o q x, K q -> Z.of_nat (length (all q)) < pool_limit q ->
  exists r q1, add o q x false = (r, q1) /\ K q1 /\ conf q1 = conf q /\ (length (all q1) <= S (length (all q)))%nat /\
               (forall v, listed q1 v -> v = x \/ listed q v).
Proof.
  intros o q x HK Hnf. rewrite (add_not_full o q x Hnf).
  destruct (assoc (thash x) (all q)) as [kx|] eqn:Kx; [exists (inr EKnown), q; split; [reflexivity|split; [exact HK|split; [reflexivity|split; [lia|intros v Hv; right; exact Hv]]]]|].
  destruct (validate_tx q x false) as [ev|]; [exists (inr ev), q; split; [reflexivity|split; [exact HK|split; [reflexivity|split; [lia|intros v Hv; right; exact Hv]]]]|].
  destruct (add_insert q x false) as [r q1] eqn:A. exists r, q1.
  destruct (add_insert_frame _ _ _ _ A) as (Fc & _ & _ & _ & _ & Flen & Fall).
  assert (K1 : K q1) by (eapply add_insert_K; eauto; apply fresh_from_none; [apply HK|exact Kx]).
  split; [reflexivity|split; [exact K1|split; [exact Fc|split; [exact Flen|]]]].
  intros v Hv. pose proof (K_listed_all q1 v K1 Hv) as Av. destruct (Fall _ _ Av) as [[_ ->]|Old]; auto.
  right. apply (K_all_listed q _ _ HK Old).
Qed.
Theorem reinject_phase_sub : forall ri o q e d,
  K q -> Z.of_nat (length (all q)) + Z.of_nat (length ri) <= pool_limit q ->
  forall v, listed (snd (fold_left (atl_step o false) ri (e, d, q))) v -> listed q v \/ In v ri.
Proof.
  induction ri as [|x ri IH]; intros o q e d HK Hroom v Hv; cbn [fold_left] in Hv; [left; exact Hv|].
  cbn [length] in Hroom. rewrite Nat2Z.inj_succ in Hroom.
  destruct (add_not_full_step o q x HK) as (r & q1 & A & K1 & Fc & Flen & Sub); [lia|].
  assert (Hst : exists e1 d1, atl_step o false (e, d, q) x = (e1, d1, q1)) by (unfold atl_step; rewrite A; destruct r; eauto).
  destruct Hst as (e1 & d1 & Est). rewrite Est in Hv.
  destruct (IH o q1 e1 d1 K1) with (v := v) as [L|L]; auto.
  - unfold pool_limit in *. rewrite Fc. lia.
  - destruct (Sub v L) as [->|L0]; [right; left; auto|left; auto].
  - right. right. auto.
Qed.
