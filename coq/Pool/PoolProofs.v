(* Pool/PoolProofs.v — lemmas for property C15. *)
From Coq Require Import List ZArith Bool Sorted Lia.
From Coq Require Import ZifyBool.
From AQ Require Import Pool.PoolModel Pool.PoolSpec.
Import ListNotations.
Local Open Scope Z_scope.

(* ---------------------------------------------------------------- association lists *)
Lemma assoc_set_same : forall A k (v : A) m, assoc k (assoc_set k v m) = Some v.
Proof.
  induction m as [|[k' v'] m IH]; cbn [assoc_set assoc].
  - rewrite Z.eqb_refl. reflexivity.
  - destruct (k =? k') eqn:E; cbn [assoc]; rewrite ?Z.eqb_refl, ?E; auto.
Qed.
Lemma assoc_set_other : forall A k a (v : A) m, a <> k -> assoc a (assoc_set k v m) = assoc a m.
Proof.
  induction m as [|[k' v'] m IH]; intros Hne; cbn [assoc_set assoc].
  - destruct (a =? k) eqn:E; [lia|reflexivity].
  - destruct (k =? k') eqn:E; cbn [assoc].
    + destruct (a =? k) eqn:E1; [lia|]. destruct (a =? k') eqn:E2; [lia|]. reflexivity.
    + destruct (a =? k'); auto.
Qed.
Lemma assoc_del_same : forall A k (m : list (Z * A)), assoc k (assoc_del k m) = None.
Proof.
  induction m as [|[k' v'] m IH]; cbn [assoc_del assoc]; auto.
  destruct (k =? k') eqn:E; auto. cbn [assoc]. rewrite E. auto.
Qed.
Lemma assoc_del_other : forall A k a (m : list (Z * A)), a <> k -> assoc a (assoc_del k m) = assoc a m.
Proof.
  induction m as [|[k' v'] m IH]; intros Hne; cbn [assoc_del assoc]; auto.
  destruct (k =? k') eqn:E; cbn [assoc].
  - destruct (a =? k') eqn:E2; [lia|]. auto.
  - destruct (a =? k'); auto.
Qed.

(* ---------------------------------------------------------------- nonce-sorted lists *)
Lemma ns_unique : forall l x y, nonce_sorted l -> In x l -> In y l -> tnonce x = tnonce y -> x = y.
Proof.
  induction l as [|z l IH]; intros x y Hs Hx Hy Hn; [inversion Hx|].
  inversion Hs as [|? ? Hs' Hall]; subst. rewrite Forall_forall in Hall.
  destruct Hx as [->|Hx], Hy as [->|Hy]; auto.
  - specialize (Hall _ Hy). lia.
  - specialize (Hall _ Hx). lia.
Qed.
Lemma ns_filter : forall f l, nonce_sorted l -> nonce_sorted (filter f l).
Proof.
  induction l as [|z l IH]; intros Hs; cbn [filter]; [constructor|].
  inversion Hs as [|? ? Hs' Hall]; subst.
  destruct (f z); [|apply IH; exact Hs']. constructor; [apply IH; exact Hs'|].
  apply Forall_forall. intros x Hx. apply filter_In in Hx. rewrite Forall_forall in Hall. apply Hall. tauto.
Qed.
Lemma ns_app_inv : forall a b, nonce_sorted (a ++ b) ->
  nonce_sorted a /\ nonce_sorted b /\ forall x y, In x a -> In y b -> tnonce x < tnonce y.
Proof.
  unfold nonce_sorted. induction a as [|z a IH]; intros b Hs; cbn [app] in *.
  - repeat split; auto. constructor. intros x y [].
  - inversion Hs as [|? ? Hs' Hall]; subst. destruct (IH _ Hs') as (Ha & Hb & Hab).
    rewrite Forall_forall in Hall. repeat split; auto.
    + constructor; auto. rewrite Forall_forall. intros x Hx. apply Hall. apply in_or_app. auto.
    + intros x y [->|Hx] Hy; auto. apply Hall. apply in_or_app. auto.
Qed.
Lemma filter_partition_disjoint : forall f l x y, nonce_sorted l ->
  In x (filter f l) -> In y (filter (fun t => negb (f t)) l) -> tnonce x <> tnonce y.
Proof.
  intros f l x y Hs Hx Hy Hn. apply filter_In in Hx. apply filter_In in Hy.
  destruct Hx as [Hx Hfx], Hy as [Hy Hfy].
  assert (x = y) by (eapply ns_unique; eauto). subst. rewrite Hfx in Hfy. discriminate.
Qed.
Lemma ns_ins : forall t l, nonce_sorted l -> nonce_sorted (ins_tx t l).
Proof.
  unfold nonce_sorted. induction l as [|z l IH]; intros Hs; cbn [ins_tx]; [repeat constructor|].
  inversion Hs as [|? ? Hs' Hall]; subst. rewrite Forall_forall in Hall.
  destruct (tnonce t <? tnonce z) eqn:E1.
  - constructor; auto. rewrite Forall_forall. intros x [->|Hx]; [lia|]. specialize (Hall _ Hx). lia.
  - destruct (tnonce t =? tnonce z) eqn:E2.
    + constructor; auto. rewrite Forall_forall. intros x Hx. specialize (Hall _ Hx). lia.
    + constructor; auto. rewrite Forall_forall. intros x Hx.
      assert (Hc : x = t \/ In x l).
      { clear - Hx. induction l as [|w l IHl]; cbn [ins_tx] in Hx.
        - destruct Hx as [->|[]]; auto.
        - destruct (tnonce t <? tnonce w).
          + destruct Hx as [->|Hx]; auto.
          + destruct (tnonce t =? tnonce w).
            * destruct Hx as [->|Hx]; auto. right. right. auto.
            * destruct Hx as [->|Hx]; [right; left; auto|]. destruct (IHl Hx); auto. right. right. auto. }
      destruct Hc as [->|Hx']; [lia|]. apply Hall; auto.
Qed.
Lemma ins_in : forall t l x, In x (ins_tx t l) -> x = t \/ (In x l /\ tnonce x <> tnonce t).
Proof.
Abort.
Lemma ins_in : forall t l x, nonce_sorted l -> In x (ins_tx t l) -> x = t \/ (In x l /\ tnonce x <> tnonce t).
Proof.
  unfold nonce_sorted. induction l as [|w l IHl]; intros x Hs Hx; cbn [ins_tx] in Hx.
  - destruct Hx as [->|[]]; auto.
  - inversion Hs as [|? ? Hs' Hall]; subst. rewrite Forall_forall in Hall.
    destruct (tnonce t <? tnonce w) eqn:E1.
    + destruct Hx as [->|[->|Hx]]; auto.
      * right. split; [left; auto|lia].
      * right. split; [right; auto|]. specialize (Hall _ Hx). lia.
    + destruct (tnonce t =? tnonce w) eqn:E2.
      * destruct Hx as [->|Hx]; auto. right. split; [right; auto|]. specialize (Hall _ Hx). lia.
      * destruct Hx as [->|Hx]; [right; split; [left; auto|lia]|].
        destruct (IHl _ Hs' Hx) as [->|[H1 H2]]; auto. right. split; auto. right. auto.
Qed.

(* oracle ordering is a permutation as far as membership goes *)
Lemma ins_by_in : forall A (key : A -> Z) x y l, In y (ins_by key x l) <-> y = x \/ In y l.
Proof.
  induction l as [|z l IH]; cbn [ins_by].
  - cbn. intuition.
  - destruct (key z <=? key x); cbn [In]; rewrite ?IH; intuition.
Qed.
Lemma sort_by_in : forall A (key : A -> Z) l y, In y (sort_by key l) <-> In y l.
Proof.
  intros A key l y. unfold sort_by.
  assert (G : forall l acc, In y (fold_left (fun acc x => ins_by key x acc) l acc) <-> In y l \/ In y acc).
  { induction l0 as [|z l0 IH]; intros acc; cbn [fold_left].
    - cbn. intuition.
    - rewrite IH, ins_by_in. cbn [In]. intuition. }
  rewrite G. cbn. intuition.
Qed.
Lemma order_txs_in : forall o l y, In y (order_txs o l) <-> In y l.
Proof. intros. apply sort_by_in. Qed.

(* ---------------------------------------------------------------- txList operations *)
(* l' keeps part of l in order; ex (what the caller may re-queue) comes from l and shares no nonce with l' *)
Definition split_ok (l l' : list tx) (ex : list tx) : Prop :=
  nonce_sorted l ->
  nonce_sorted l' /\ incl l' l /\ incl ex l /\ (forall x y, In x ex -> In y l' -> tnonce x <> tnonce y).

Lemma split_ok_filter : forall f l, split_ok l (filter (fun t => negb (f t)) l) (filter f l).
Proof.
  intros f l Hs. repeat split.
  - apply ns_filter; auto.
  - intros x Hx. apply filter_In in Hx. tauto.
  - intros x Hx. apply filter_In in Hx. tauto.
  - intros x y Hx Hy. eapply filter_partition_disjoint; eauto.
Qed.
Lemma split_ok_nil : forall l l', (nonce_sorted l -> nonce_sorted l') -> incl l' l -> split_ok l l' [].
Proof. intros l l' H1 H2 Hs. repeat split; auto; try (intros x []); try (intros x y []). Qed.
Lemma split_ok_trans : forall l l1 l2 ex, split_ok l l1 [] -> split_ok l1 l2 ex -> split_ok l l2 ex.
Proof.
  intros l l1 l2 ex H1 H2 Hs. destruct (H1 Hs) as (S1 & I1 & _ & _). destruct (H2 S1) as (S2 & I2 & I3 & D).
  repeat split; auto; eapply incl_tran; eauto.
Qed.
Lemma split_ok_order : forall o l l' ex, split_ok l l' ex -> split_ok l l' (order_txs o ex).
Proof.
  intros o l l' ex H Hs. destruct (H Hs) as (S & I & I2 & D). repeat split; auto.
  - intros x Hx. apply order_txs_in in Hx. auto.
  - intros x y Hx. apply order_txs_in in Hx. auto.
Qed.
Lemma split_ok_app : forall a b, split_ok (a ++ b) a b /\ split_ok (a ++ b) b a.
Proof.
  intros a b. split; intros Hs; destruct (ns_app_inv _ _ Hs) as (Sa & Sb & D); repeat split; auto;
    try (intros x Hx; apply in_or_app; auto).
  - intros x y Hx Hy. specialize (D _ _ Hy Hx). lia.
  - intros x y Hx Hy. specialize (D _ _ Hx Hy). lia.
Qed.

Lemma tl_forward_ok : forall l th rm l', tl_forward l th = (rm, l') -> split_ok (items l) (items l') [] /\ strict l' = strict l.
Proof.
  intros l th rm l' H. unfold tl_forward in H. inversion H; subst; clear H. cbn [items strict]. split; auto.
  apply split_ok_nil. apply ns_filter. intros x Hx. apply filter_In in Hx. tauto.
Qed.
Lemma tl_filter_ok : forall o l c g drops invs l', tl_filter o l c g = (drops, invs, l') -> split_ok (items l) (items l') invs.
Proof.
  intros o l c g drops invs l' H. unfold tl_filter in H.
  destruct ((costcap l <=? c) && (gascap l <=? g)).
  { inversion H; subst. apply split_ok_nil; auto. apply incl_refl. }
  set (bad := fun t => (c <? tcost t) || (g <? tgas t)) in *.
  assert (H0 : split_ok (items l) (filter (fun t => negb (bad t)) (items l)) []).
  { apply split_ok_nil. apply ns_filter. intros x Hx. apply filter_In in Hx. tauto. }
  destruct (strict l); [destruct (filter bad (items l)) eqn:Erem|].
  - inversion H; subst. cbn [items]. exact H0.
  - inversion H; subst; clear H. cbn [items]. apply split_ok_order.
    eapply split_ok_trans; [exact H0|]. apply (split_ok_filter (fun t0 => _ <? tnonce t0)).
  - inversion H; subst. cbn [items]. exact H0.
Qed.
Lemma tl_cap_ok : forall l k drops l', tl_cap l k = Some (drops, l') -> split_ok (items l) (items l') drops.
Proof.
  intros l k drops l' H. unfold tl_cap in H.
  destruct (Z.of_nat (length (items l)) <=? k). { inversion H; subst. apply split_ok_nil; auto. apply incl_refl. }
  destruct (k <? 0); [discriminate|]. inversion H; subst; clear H. cbn [items].
  intros Hs. rewrite <- (firstn_skipn (Z.to_nat k) (items l)) in Hs at 1.
  destruct (proj1 (split_ok_app _ _) Hs) as (S & I & I2 & D).
  rewrite (firstn_skipn (Z.to_nat k) (items l)) in I, I2. repeat split; auto.
  - intros x Hx. apply in_rev in Hx. auto.
  - intros x y Hx. apply in_rev in Hx. auto.
Qed.
Lemma tl_remove_ok : forall o l t b invs l', tl_remove o l t = (b, invs, l') -> split_ok (items l) (items l') invs.
Proof.
  intros o l t b invs l' H. unfold tl_remove in H.
  destruct (tl_get l (tnonce t)). 2:{ inversion H; subst. apply split_ok_nil; auto. apply incl_refl. }
  assert (H0 : split_ok (items l) (filter (fun x => negb (tnonce x =? tnonce t)) (items l)) []).
  { apply split_ok_nil. apply ns_filter. intros x Hx. apply filter_In in Hx. tauto. }
  destruct (strict l); inversion H; subst; clear H; cbn [items]; auto.
  apply split_ok_order. eapply split_ok_trans; [exact H0|]. apply (split_ok_filter (fun x => tnonce t <? tnonce x)).
Qed.
Lemma take_run_app : forall l n a b, take_run n l = (a, b) -> l = a ++ b.
Proof.
  induction l as [|x l IH]; intros n a b H; cbn [take_run] in H.
  - inversion H; auto.
  - destruct (tnonce x =? n).
    + destruct (take_run ((n + 1) mod two64) l) as [a' b'] eqn:E. inversion H; subst. cbn [app]. f_equal. eapply IH; eauto.
    + inversion H; auto.
Qed.
Lemma tl_ready_ok : forall l s ready l', tl_ready l s = (ready, l') -> split_ok (items l) (items l') ready.
Proof.
  intros l s ready l' H. unfold tl_ready in H.
  destruct (items l) as [|x r] eqn:E. { inversion H; subst. rewrite E. apply split_ok_nil; auto. apply incl_refl. }
  destruct (s <? tnonce x). { inversion H; subst. rewrite E. apply split_ok_nil; auto. apply incl_refl. }
  destruct (take_run (tnonce x) (x :: r)) as [a b] eqn:Er. inversion H; subst; clear H. cbn [items].
  rewrite (take_run_app _ _ _ _ Er). apply split_ok_app.
Qed.
Lemma tl_add_ok : forall l t bump old l', tl_add l t bump = (true, old, l') ->
  items l' = ins_tx t (items l) /\ old = tl_get l (tnonce t).
Proof.
  intros l t bump old l' H. unfold tl_add in H.
  destruct (match tl_get l (tnonce t) with Some o => _ | None => false end); inversion H; subst. cbn [items]. auto.
Qed.
(* 3. replacement_needs_bump, at the list *)
Lemma tl_add_bump : forall l t bump o l', tl_add l t bump = (true, Some o, l') -> tnonce o = tnonce t /\ In o (items l) /\ bump_ok bump o t.
Proof.
  intros l t bump o l' H. unfold tl_add in H. destruct (tl_get l (tnonce t)) as [o'|] eqn:G.
  - destruct ((tprice t <=? tprice o') || (tprice t <? tprice o' * (100 + bump) / 100)) eqn:E; inversion H; subst.
    unfold tl_get in G. apply find_some in G. destruct G as [Hin Hn]. unfold bump_ok. repeat split; auto; lia.
  - inversion H.
Qed.
Lemma tl_add_reject : forall l t bump x l', tl_add l t bump = (false, x, l') -> l' = l.
Proof.
  intros l t bump x l' H. unfold tl_add in H.
  destruct (match tl_get l (tnonce t) with Some o => _ | None => false end); inversion H; subst; auto.
Qed.

(* ---------------------------------------------------------------- pool level: unique_nonce is an invariant *)
Lemma un_same : forall p q, pending q = pending p -> queue q = queue p -> unique_nonce p -> unique_nonce q.
Proof. intros p q Hp Hq H. unfold unique_nonce, in_pending, in_queue in *. rewrite Hp, Hq. exact H. Qed.

Lemma drop_all_pq : forall l p, pending (drop_all p l) = pending p /\ queue (drop_all p l) = queue p.
Proof.
  unfold drop_all. induction l as [|t l IH]; intros p; cbn [fold_left]; auto.
  destruct (IH (all_drop p (thash t))) as [H1 H2]. rewrite H1, H2. split; reflexivity.
Qed.

(* replace queue[a] by a part of itself *)
Lemma un_qshrink : forall p q a l l' ex, unique_nonce p -> assoc a (queue p) = Some l -> split_ok (items l) (items l') ex ->
  pending q = pending p -> queue q = assoc_set a l' (queue p) -> unique_nonce q.
Proof.
  intros p q a l l' ex (HP & HQ & HD) Ha Hsp Hp Hq. destruct (HQ _ _ Ha) as [Hs Hf]. destruct (Hsp Hs) as (S & I & _ & _).
  unfold unique_nonce, in_pending, in_queue. rewrite Hp, Hq. split; [|split].
  - intros a0 l0 H. apply HP; auto.
  - intros a0 l0 H. destruct (Z.eq_dec a0 a) as [->|Hne].
    + rewrite assoc_set_same in H; inversion H; subst. split; auto. rewrite Forall_forall in *. intros x Hx. apply Hf. apply I. auto.
    + rewrite assoc_set_other in H by auto. apply HQ; auto.
  - intros a0 t u (lp & Hlp & Ht) (lq & Hlq & Hu). destruct (Z.eq_dec a0 a) as [->|Hne].
    + rewrite assoc_set_same in Hlq. inversion Hlq; subst. apply (HD a); [exists lp; auto|exists l; split; auto].
    + rewrite assoc_set_other in Hlq by auto. apply (HD a0); [exists lp; auto|exists lq; auto].
Qed.
Lemma un_pshrink : forall p q a l l' ex, unique_nonce p -> assoc a (pending p) = Some l -> split_ok (items l) (items l') ex ->
  queue q = queue p -> pending q = assoc_set a l' (pending p) -> unique_nonce q.
Proof.
  intros p q a l l' ex (HP & HQ & HD) Ha Hsp Hq Hp. destruct (HP _ _ Ha) as [Hs Hf]. destruct (Hsp Hs) as (S & I & _ & _).
  unfold unique_nonce, in_pending, in_queue. rewrite Hp, Hq. split; [|split].
  - intros a0 l0 H. destruct (Z.eq_dec a0 a) as [->|Hne].
    + rewrite assoc_set_same in H; inversion H; subst. split; auto. rewrite Forall_forall in *. intros x Hx. apply Hf. apply I. auto.
    + rewrite assoc_set_other in H by auto. apply HP; auto.
  - intros a0 l0 H. apply HQ; auto.
  - intros a0 t u (lp & Hlp & Ht) (lq & Hlq & Hu). destruct (Z.eq_dec a0 a) as [->|Hne].
    + rewrite assoc_set_same in Hlp. inversion Hlp; subst. apply (HD a); [exists l; split; auto|exists lq; auto].
    + rewrite assoc_set_other in Hlp by auto. apply (HD a0); [exists lp; auto|exists lq; auto].
Qed.
Lemma un_qdel : forall p q a, unique_nonce p -> pending q = pending p -> queue q = assoc_del a (queue p) -> unique_nonce q.
Proof.
  intros p q a (HP & HQ & HD) Hp Hq. unfold unique_nonce, in_pending, in_queue. rewrite Hp, Hq. split; [|split].
  - intros a0 l0 H. apply HP; auto.
  - intros a0 l0 H. destruct (Z.eq_dec a0 a) as [->|Hne]; [rewrite assoc_del_same in H; discriminate|rewrite assoc_del_other in H by auto; apply HQ; auto].
  - intros a0 t u (lp & Hlp & Ht) (lq & Hlq & Hu). destruct (Z.eq_dec a0 a) as [->|Hne]; [rewrite assoc_del_same in Hlq; discriminate|].
    rewrite assoc_del_other in Hlq by auto. apply (HD a0); [exists lp; auto|exists lq; auto].
Qed.
Lemma un_pdel : forall p q a, unique_nonce p -> queue q = queue p -> pending q = assoc_del a (pending p) -> unique_nonce q.
Proof.
  intros p q a (HP & HQ & HD) Hq Hp. unfold unique_nonce, in_pending, in_queue. rewrite Hp, Hq. split; [|split].
  - intros a0 l0 H. destruct (Z.eq_dec a0 a) as [->|Hne]; [rewrite assoc_del_same in H; discriminate|rewrite assoc_del_other in H by auto; apply HP; auto].
  - intros a0 l0 H. apply HQ; auto.
  - intros a0 t u (lp & Hlp & Ht) (lq & Hlq & Hu). destruct (Z.eq_dec a0 a) as [->|Hne]; [rewrite assoc_del_same in Hlp; discriminate|].
    rewrite assoc_del_other in Hlp by auto. apply (HD a0); [exists lp; auto|exists lq; auto].
Qed.

Definition list_of (m : list (Z * txlist)) (a : Z) (s : bool) : txlist := match assoc a m with Some l => l | None => new_txlist s end.
Lemma list_of_ok : forall p a s, unique_nonce p ->
  (nonce_sorted (items (list_of (queue p) a s)) /\ Forall (fun t => tfrom t = a) (items (list_of (queue p) a s))) /\
  (nonce_sorted (items (list_of (pending p) a s)) /\ Forall (fun t => tfrom t = a) (items (list_of (pending p) a s))).
Proof.
  intros p a s (HP & HQ & _). unfold list_of. split.
  - destruct (assoc a (queue p)) eqn:E; [apply HQ; auto|cbn; split; constructor].
  - destruct (assoc a (pending p)) eqn:E; [apply HP; auto|cbn; split; constructor].
Qed.

(* insert t into queue[tfrom t] when its nonce is not pending *)
Lemma un_qadd : forall p q t s l', unique_nonce p -> (forall u, in_pending p (tfrom t) u -> tnonce u <> tnonce t) ->
  items l' = ins_tx t (items (list_of (queue p) (tfrom t) s)) ->
  pending q = pending p -> queue q = assoc_set (tfrom t) l' (queue p) -> unique_nonce q.
Proof.
  intros p q t s l' Hun Hnp Hit Hp Hq. destruct (list_of_ok p (tfrom t) s Hun) as [[Ls Lf] _]. destruct Hun as (HP & HQ & HD).
  unfold unique_nonce, in_pending, in_queue. rewrite Hp, Hq. split; [|split].
  - intros a l0 H. apply HP; auto.
  - intros a l0 H. destruct (Z.eq_dec a (tfrom t)) as [->|Hne]; [rewrite assoc_set_same in H; inversion H; subst|rewrite assoc_set_other in H by auto; apply HQ; auto].
    rewrite Hit. split; [apply ns_ins; auto|].
    rewrite Forall_forall in *. intros x Hx. apply ins_in in Hx; auto. destruct Hx as [->|[Hx _]]; auto.
  - intros a t0 u (lp & Hlp & Ht) (lq & Hlq & Hu). destruct (Z.eq_dec a (tfrom t)) as [->|Hne].
    + rewrite assoc_set_same in Hlq. inversion Hlq; subst. rewrite Hit in Hu. apply ins_in in Hu; auto. destruct Hu as [->|[Hu _]].
      * apply Hnp. exists lp; auto.
      * unfold list_of in Hu. destruct (assoc (tfrom t) (queue p)) as [l0|] eqn:E; [|destruct Hu].
        apply (HD (tfrom t)); [exists lp; auto|exists l0; auto].
    + rewrite assoc_set_other in Hlq by auto. apply (HD a); [exists lp; auto|exists lq; auto].
Qed.
Lemma un_padd : forall p q a t s l', unique_nonce p -> tfrom t = a -> (forall u, in_queue p a u -> tnonce u <> tnonce t) ->
  items l' = ins_tx t (items (list_of (pending p) a s)) ->
  queue q = queue p -> pending q = assoc_set a l' (pending p) -> unique_nonce q.
Proof.
  intros p q a t s l' Hun Hfrom Hnq Hit Hq Hp. destruct (list_of_ok p a s Hun) as [_ [Ls Lf]]. destruct Hun as (HP & HQ & HD).
  unfold unique_nonce, in_pending, in_queue. rewrite Hp, Hq. split; [|split].
  - intros a0 l0 H. destruct (Z.eq_dec a0 a) as [->|Hne]; [rewrite assoc_set_same in H; inversion H; subst|rewrite assoc_set_other in H by auto; apply HP; auto].
    rewrite Hit. split; [apply ns_ins; auto|].
    rewrite Forall_forall in *. intros x Hx. apply ins_in in Hx; auto. destruct Hx as [->|[Hx _]]; auto.
  - intros a0 l0 H. apply HQ; auto.
  - intros a0 t0 u (lp & Hlp & Ht) (lq & Hlq & Hu). destruct (Z.eq_dec a0 a) as [->|Hne].
    + rewrite assoc_set_same in Hlp. inversion Hlp; subst. rewrite Hit in Ht. apply ins_in in Ht; auto. destruct Ht as [->|[Ht _]].
      * intros E. apply (Hnq u); [exists lq; auto|auto].
      * unfold list_of in Ht. destruct (assoc (tfrom t) (pending p)) as [l0|] eqn:E; [|destruct Ht].
        apply (HD (tfrom t)); [exists l0; auto|exists lq; auto].
    + rewrite assoc_set_other in Hlp by auto. apply (HD a0); [exists lp; auto|exists lq; auto].
Qed.

Lemma tl_add_empty_accepts : forall s t bump x l', tl_add (new_txlist s) t bump = (false, x, l') -> False.
Proof. intros s t bump x l' H. unfold tl_add, tl_get, new_txlist in H. cbn in H. discriminate. Qed.

Lemma enqueue_un : forall p t, unique_nonce p -> (forall u, in_pending p (tfrom t) u -> tnonce u <> tnonce t) ->
  unique_nonce (snd (enqueue_tx p t)) /\ pending (snd (enqueue_tx p t)) = pending p.
Proof.
  intros p t Hun Hnp. unfold enqueue_tx.
  change (match assoc (tfrom t) (queue p) with Some l => l | None => new_txlist false end) with (list_of (queue p) (tfrom t) false).
  destruct (tl_add (list_of (queue p) (tfrom t) false) t (c_bump (conf p))) as [[ins old] l'] eqn:E. destruct ins.
  - apply tl_add_ok in E. destruct E as [Hit _]. cbn [snd]. split.
    + eapply un_qadd with (p := p); eauto; destruct old; reflexivity.
    + destruct old; reflexivity.
  - cbn [snd]. split; [|reflexivity]. pose proof (tl_add_reject _ _ _ _ _ E) as ->. unfold list_of in *.
    destruct (assoc (tfrom t) (queue p)) as [l|] eqn:Q.
    + eapply un_qshrink with (p := p) (ex := []); eauto; try reflexivity. apply split_ok_nil; auto. apply incl_refl.
    + exfalso. eapply tl_add_empty_accepts; eauto.
Qed.
Lemma enqueue_fold_un : forall invs p, unique_nonce p ->
  (forall x, In x invs -> forall u, in_pending p (tfrom x) u -> tnonce u <> tnonce x) ->
  unique_nonce (fold_left (fun q x => snd (enqueue_tx q x)) invs p) /\
  pending (fold_left (fun q x => snd (enqueue_tx q x)) invs p) = pending p.
Proof.
  induction invs as [|x invs IH]; intros p Hun Hpre; cbn [fold_left]; auto.
  destruct (enqueue_un p x Hun (Hpre x (or_introl eq_refl))) as [H1 H2].
  destruct (IH _ H1) as [H3 H4].
  - intros y Hy u Hu. unfold in_pending in Hu. rewrite H2 in Hu. apply (Hpre y); auto. right; auto.
  - split; auto. rewrite H4. auto.
Qed.

Lemma promote_un : forall p a t, unique_nonce p -> tfrom t = a -> (forall u, in_queue p a u -> tnonce u <> tnonce t) ->
  unique_nonce (promote_tx p a t) /\ queue (promote_tx p a t) = queue p.
Proof.
  intros p a t Hun Hfrom Hnq. unfold promote_tx.
  change (match assoc a (pending p) with Some l => l | None => new_txlist true end) with (list_of (pending p) a true).
  destruct (tl_add (list_of (pending p) a true) t (c_bump (conf p))) as [[ins old] l'] eqn:E. destruct ins.
  - apply tl_add_ok in E. destruct E as [Hit _]. split.
    + eapply un_padd with (p := p) (t := t); eauto.
      * destruct old; cbn; match goal with |- context [match ?X with _ => _ end] => destruct X end; reflexivity.
      * destruct old; cbn; match goal with |- context [match ?X with _ => _ end] => destruct X end; reflexivity.
    + destruct old; cbn; match goal with |- context [match ?X with _ => _ end] => destruct X end; reflexivity.
  - split; [|reflexivity]. pose proof (tl_add_reject _ _ _ _ _ E) as ->. unfold list_of in *.
    destruct (assoc a (pending p)) as [l|] eqn:Q.
    + eapply un_pshrink with (p := p) (ex := []); eauto; try reflexivity. apply split_ok_nil; auto. apply incl_refl.
    + exfalso. eapply tl_add_empty_accepts; eauto.
Qed.
Lemma promote_fold_un : forall a ready p, unique_nonce p -> Forall (fun t => tfrom t = a) ready ->
  (forall t u, In t ready -> in_queue p a u -> tnonce u <> tnonce t) ->
  unique_nonce (fold_left (fun q t => promote_tx q a t) ready p) /\ queue (fold_left (fun q t => promote_tx q a t) ready p) = queue p.
Proof.
  induction ready as [|t ready IH]; intros p Hun Hf Hpre; cbn [fold_left]; auto.
  inversion Hf; subst.
  destruct (promote_un p (tfrom t) t Hun eq_refl) as [G1 G2]. { intros u Hu. apply (Hpre t u); auto. left; auto. }
  destruct (IH _ G1) as [G3 G4]; auto.
  - intros t' u Ht' Hu. unfold in_queue in Hu. rewrite G2 in Hu. apply (Hpre t' u); auto. right; auto.
  - split; auto. rewrite G4; auto.
Qed.

Lemma remove_un : forall o p h, unique_nonce p -> unique_nonce (remove_tx o p h).
Proof.
  intros o p h Hun. unfold remove_tx. destruct (assoc h (all p)) as [t|]; auto.
  set (p1 := all_drop p h). assert (Hun1 : unique_nonce p1) by (apply (un_same p); auto).
  clearbody p1. clear Hun p.
  assert (HQ : unique_nonce (match assoc (tfrom t) (queue p1) with
      | None => p1
      | Some f => let '(_, _, f') := tl_remove o f t in
                  if tl_empty f' then set_queue p1 (assoc_del (tfrom t) (queue p1)) else set_queue p1 (assoc_set (tfrom t) f' (queue p1))
      end)).
  { destruct (assoc (tfrom t) (queue p1)) as [f|] eqn:Q; auto.
    destruct (tl_remove o f t) as [[b invs] f'] eqn:R. destruct (tl_empty f').
    - eapply un_qdel; eauto; reflexivity.
    - eapply un_qshrink with (p := p1); eauto; try reflexivity. eapply tl_remove_ok; eauto. }
  destruct (assoc (tfrom t) (pending p1)) as [pl|] eqn:P; auto.
  destruct (tl_remove o pl t) as [[b invs] pl'] eqn:R. destruct b; auto.
  pose proof (tl_remove_ok _ _ _ _ _ _ R) as Hsp.
  match goal with |- unique_nonce (if _ then pn_set ?X _ _ else _) => assert (H2 : unique_nonce X) end.
  { destruct Hun1 as (HP & HQ1 & HD1). destruct (HP _ _ P) as [Hs Hf]. destruct (Hsp Hs) as (_ & _ & I2 & D).
    assert (Hun1 : unique_nonce p1) by (split; [|split]; auto).
    rewrite Forall_forall in Hf.
    destruct (tl_empty pl').
    - apply enqueue_fold_un.
      + eapply un_pdel with (p := p1); eauto; reflexivity.
      + intros x Hx u (lp & Hlp & Hu). rewrite (Hf x (I2 x Hx)) in Hlp. cbn [pending set_pending set_beats] in Hlp.
        rewrite assoc_del_same in Hlp. discriminate.
    - apply enqueue_fold_un.
      + eapply un_pshrink with (p := p1); eauto; reflexivity.
      + intros x Hx u (lp & Hlp & Hu). rewrite (Hf x (I2 x Hx)) in Hlp. cbn [pending set_pending] in Hlp. rewrite assoc_set_same in Hlp.
        inversion Hlp; subst. intros E. apply (D x u); auto. }
  match goal with |- unique_nonce (if ?c then _ else _) => destruct c end; exact H2.
Qed.
Lemma remove_fold_un : forall o (l : list tx) p, unique_nonce p -> unique_nonce (fold_left (fun q t => remove_tx o q (thash t)) l p).
Proof. induction l; intros; cbn [fold_left]; auto. apply IHl. apply remove_un; auto. Qed.

Lemma bind_ok : forall A B (r : res A) (f : A -> res B) b, bind r f = Ok b -> exists a, r = Ok a /\ f a = Ok b.
Proof. intros A B r f b H. destruct r; cbn in H; try discriminate. eauto. Qed.
Lemma fold_res_inv : forall A B (P : A -> Prop) (f : A -> B -> res A) l a r,
  (forall a x a', P a -> f a x = Ok a' -> P a') -> P a -> fold_res f l a = Ok r -> P r.
Proof.
  induction l as [|x l IH]; intros a r Hf Ha H; cbn [fold_res] in H.
  - inversion H; subst; auto.
  - apply bind_ok in H. destruct H as (a' & H1 & H2). exact (IH a' r Hf (Hf _ _ _ Ha H1) H2).
Qed.

Lemma pe_account_un : forall o p a p', unique_nonce p -> pe_account o p a = Ok p' -> unique_nonce p'.
Proof.
  intros o p a p' Hun H. unfold pe_account in H. destruct (assoc a (queue p)) as [l|] eqn:Q; [|inversion H; subst; auto].
  destruct (tl_forward l (cur_nonce p a)) as [old l1] eqn:F.
  set (p1 := drop_all (set_queue p (assoc_set a l1 (queue p))) old) in *.
  destruct (drop_all_pq old (set_queue p (assoc_set a l1 (queue p)))) as [Pp1 Pq1]. fold p1 in Pp1, Pq1. cbn [pending queue set_queue] in Pp1, Pq1.
  assert (U1 : unique_nonce p1). { eapply un_qshrink with (p := p); eauto. apply (tl_forward_ok _ _ _ _ F). }
  assert (Q1 : assoc a (queue p1) = Some l1) by (rewrite Pq1; apply assoc_set_same).
  clearbody p1. destruct (tl_filter o l1 (cur_balance p1 a) (maxgas p1)) as [[drops invs] l2] eqn:Fi.
  set (p2 := drop_all (set_queue p1 (assoc_set a l2 (queue p1))) drops) in *.
  destruct (drop_all_pq drops (set_queue p1 (assoc_set a l2 (queue p1)))) as [Pp2 Pq2]. fold p2 in Pp2, Pq2. cbn [pending queue set_queue] in Pp2, Pq2.
  assert (U2 : unique_nonce p2). { eapply un_qshrink with (p := p1) (ex := []); eauto.
    pose proof (tl_filter_ok _ _ _ _ _ _ _ Fi) as S. intros Hs. destruct (S Hs) as (A1 & A2 & _ & _). repeat split; auto; try (intros x []); try (intros x y []). }
  assert (Q2 : assoc a (queue p2) = Some l2) by (rewrite Pq2; apply assoc_set_same).
  clearbody p2. destruct (tl_ready l2 (pn_get p2 a)) as [ready l3] eqn:R.
  pose proof (tl_ready_ok _ _ _ _ R) as Sr.
  set (pb := set_queue p2 (assoc_set a l3 (queue p2))) in *.
  assert (Ub : unique_nonce pb) by (eapply un_qshrink with (p := p2); eauto; reflexivity).
  assert (Qb : assoc a (queue pb) = Some l3) by (unfold pb; cbn [queue set_queue]; apply assoc_set_same).
  destruct U2 as (_ & HQ2 & _). destruct (HQ2 _ _ Q2) as [Hs2 Hf2]. destruct (Sr Hs2) as (_ & _ & Ir & Dr).
  destruct (promote_fold_un a ready pb Ub) as [U3 Q3].
  { rewrite Forall_forall in *. intros x Hx. apply Hf2. apply Ir. auto. }
  { intros t u Ht (lq & Hlq & Hu). rewrite Qb in Hlq. inversion Hlq; subst. intros E. apply (Dr t u); auto. }
  set (p3 := fold_left (fun q t => promote_tx q a t) ready pb) in *. clearbody p3. clearbody pb.
  assert (Q3' : assoc a (queue p3) = Some l3) by (rewrite Q3; auto).
  apply bind_ok in H. destruct H as ([p4 l4] & H1 & H2).
  assert (U4 : unique_nonce p4 /\ (tl_empty l4 = true -> True)).
  { split; auto. destruct (memZ a (locals p3)); [inversion H1; subst; auto|].
    destruct (tl_cap l3 (c_aqueue (conf p3))) as [[caps l4']|] eqn:C; [|discriminate]. inversion H1; subst.
    destruct (drop_all_pq caps (set_queue p3 (assoc_set a l4 (queue p3)))) as [Pp4 Pq4]. cbn [pending queue set_queue] in Pp4, Pq4.
    eapply un_qshrink with (p := p3); eauto. eapply tl_cap_ok; eauto. }
  destruct U4 as [U4 _]. inversion H2; subst. destruct (tl_empty l4); auto. eapply un_qdel; eauto; reflexivity.
Qed.

Lemma shrink_one_un : forall p a p', unique_nonce p -> shrink_one p a = Ok p' -> unique_nonce p'.
Proof.
  intros p a p' Hun H. unfold shrink_one in H. destruct (assoc a (pending p)) as [l|] eqn:P; [|discriminate].
  destruct (tl_cap l (tl_len l - 1)) as [[drops l']|] eqn:C; [|discriminate]. inversion H; subst; clear H.
  set (pb := set_pending p (assoc_set a l' (pending p))).
  assert (Ub : unique_nonce pb) by (eapply un_pshrink with (p := p); eauto; try reflexivity; eapply tl_cap_ok; eauto).
  clearbody pb. clear C. revert pb Ub. induction drops as [|t drops IH]; intros pb Ub; cbn [fold_left]; auto.
  apply IH. cbv zeta. match goal with |- unique_nonce (if ?c then _ else _) => destruct c end; exact Ub.
Qed.
Lemma shrink_fold_un : forall l (st r : pool * Z), unique_nonce (fst st) ->
  fold_res (fun (st : pool * Z) a => q <- shrink_one (fst st) a ;; Ok (q, (snd st - 1) mod two64)) l st = Ok r -> unique_nonce (fst r).
Proof.
  intros l st r Hun H. eapply (fold_res_inv _ _ (fun st => unique_nonce (fst st))); eauto.
  intros a x a' Ha Hf. apply bind_ok in Hf. destruct Hf as (q & H1 & H2). inversion H2; subst. cbn [fst]. eapply shrink_one_un; eauto.
Qed.
Lemma equalize_un : forall fuel p cnt offs th r, unique_nonce p -> equalize fuel p cnt offs th = Ok r -> unique_nonce (fst r).
Proof.
  induction fuel as [|f IH]; intros p cnt offs th r Hun H; cbn [equalize] in H; [discriminate|].
  apply bind_ok in H. destruct H as (n & _ & H).
  destruct ((c_gslots (conf p) <? cnt) && (th <? n)); [|inversion H; subst; auto].
  apply bind_ok in H. destruct H as (r1 & H1 & H2). eapply IH; [|exact H2]. eapply shrink_fold_un; [|exact H1]. auto.
Qed.
Lemma spam_loop_un : forall fuel o p cnt sp offs r, unique_nonce p -> spam_loop fuel o p cnt sp offs = Ok r -> unique_nonce (fst (fst r)).
Proof.
  induction fuel as [|f IH]; intros o p cnt sp offs r Hun H; cbn [spam_loop] in H; [discriminate|].
  destruct (c_gslots (conf p) <? cnt); [|inversion H; subst; auto].
  destruct (prque_pop o sp) as [[off rest]|]; [|inversion H; subst; auto].
  destruct (1 <? Z.of_nat (length (offs ++ [off]))).
  - apply bind_ok in H. destruct H as (th & _ & H). apply bind_ok in H. destruct H as (r1 & H1 & H2).
    eapply IH; [|exact H2]. eapply equalize_un; eauto.
  - eapply IH; eauto.
Qed.
Lemma minimum_loop_un : forall fuel p cnt offs r, unique_nonce p -> minimum_loop fuel p cnt offs = Ok r -> unique_nonce (fst r).
Proof.
  induction fuel as [|f IH]; intros p cnt offs r Hun H; cbn [minimum_loop] in H; [discriminate|].
  apply bind_ok in H. destruct H as (n & _ & H).
  destruct ((c_gslots (conf p) <? cnt) && (c_aslots (conf p) <? n)); [|inversion H; subst; auto].
  apply bind_ok in H. destruct H as (r1 & H1 & H2). eapply IH; [|exact H2]. eapply shrink_fold_un; [|exact H1]. auto.
Qed.
Lemma pe_pending_limit_un : forall o p p', unique_nonce p -> pe_pending_limit o p = Ok p' -> unique_nonce p'.
Proof.
  intros o p p' Hun H. unfold pe_pending_limit in H. destruct (c_gslots (conf p) <? pending_count p); [|inversion H; subst; auto].
  apply bind_ok in H. destruct H as ([[p1 cnt1] offs] & H1 & H2). apply spam_loop_un in H1; auto. cbn [fst] in H1.
  destruct ((c_gslots (conf p1) <? cnt1) && negb (match offs with [] => true | _ => false end)); [|inversion H2; subst; auto].
  apply bind_ok in H2. destruct H2 as (r2 & H3 & H4). inversion H4; subst. eapply minimum_loop_un; eauto.
Qed.
Lemma gq_loop_un : forall o addrs p drop p', unique_nonce p -> gq_loop o p addrs drop = Ok p' -> unique_nonce p'.
Proof.
  induction addrs as [|a rest IH]; intros p drop p' Hun H; cbn [gq_loop] in H; [inversion H; subst; auto|].
  destruct (0 <? drop); [|inversion H; subst; auto]. destruct (assoc a (queue p)) as [l|]; [|discriminate].
  destruct (tl_len l <=? drop); eapply IH; try exact H; apply remove_fold_un; auto.
Qed.
Lemma promote_executables_un : forall o p accs p', unique_nonce p -> promote_executables o p accs = Ok p' -> unique_nonce p'.
Proof.
  intros o p accs p' Hun H. unfold promote_executables in H.
  apply bind_ok in H. destruct H as (p1 & H1 & H). apply bind_ok in H. destruct H as (p2 & H2 & H3).
  assert (U1 : unique_nonce p1). { eapply (fold_res_inv _ _ unique_nonce); [|exact Hun|exact H1]. intros; eapply pe_account_un; eauto. }
  assert (U2 : unique_nonce p2) by (eapply pe_pending_limit_un; eauto).
  unfold pe_queue_limit in H3. destruct (c_gqueue (conf p2) <? queued_count p2); [|inversion H3; subst; auto]. eapply gq_loop_un; eauto.
Qed.

(* re-queue transactions that were just taken out of pending[a] *)
Lemma requeue_un : forall p a l' ex, unique_nonce p -> assoc a (pending p) = Some l' -> Forall (fun t => tfrom t = a) ex ->
  (forall x y, In x ex -> In y (items l') -> tnonce x <> tnonce y) ->
  unique_nonce (fold_left (fun q x => snd (enqueue_tx q x)) ex p) /\ pending (fold_left (fun q x => snd (enqueue_tx q x)) ex p) = pending p.
Proof.
  intros p a l' ex Hun P Hf D. apply enqueue_fold_un; auto.
  intros x Hx u (lp & Hlp & Hu). rewrite Forall_forall in Hf. rewrite (Hf x Hx) in Hlp. rewrite P in Hlp. inversion Hlp; subst.
  intros E. apply (D x u); auto.
Qed.

Lemma add_insert_un : forall p t local r p', unique_nonce p -> add_insert p t local = (r, p') -> unique_nonce p'.
Proof.
  intros p t local r p' Hun H. unfold add_insert in H.
  assert (Henq : (forall u, in_pending p (tfrom t) u -> tnonce u <> tnonce t) ->
     forall r p', match enqueue_tx p t with (inr e, p2) => (inr e, p2) | (inl rep, p2) => (inl rep, mark_local p2 (tfrom t) local) end = (r, p') -> unique_nonce p').
  { intros Hpre r0 p0 H0. destruct (enqueue_un p t Hun Hpre) as [U _]. destruct (enqueue_tx p t) as [[rep|e] p2]; cbn [snd] in U; inversion H0; subst; auto.
    unfold mark_local. destruct local; auto. }
  destruct (assoc (tfrom t) (pending p)) as [l|] eqn:P.
  - destruct (tl_overlaps l t) eqn:Ov.
    + destruct (tl_add l t (c_bump (conf p))) as [[ins old] l'] eqn:E. destruct ins; [|inversion H; subst; auto].
      inversion H; subst; clear H. apply tl_add_ok in E. destruct E as [Hit _].
      eapply un_padd with (p := p) (t := t) (a := tfrom t) (s := true) (l' := l'); [exact Hun|reflexivity| | | | ].
      * intros u Hu. unfold tl_overlaps, tl_get in Ov. destruct (find (fun x => tnonce x =? tnonce t) (items l)) as [x|] eqn:Fd; [|discriminate].
        apply find_some in Fd. destruct Fd as [Hin Hn]. destruct Hun as (_ & _ & HD).
        assert (Hxu : tnonce x <> tnonce u) by (apply (HD (tfrom t)); auto; exists l; auto). lia.
      * unfold list_of. rewrite P. exact Hit.
      * destruct old; reflexivity.
      * destruct old; reflexivity.
    + eapply Henq; eauto. intros u (lp & Hlp & Hu). rewrite P in Hlp. inversion Hlp; subst.
      unfold tl_overlaps, tl_get in Ov. destruct (find (fun x => tnonce x =? tnonce t) (items lp)) eqn:Fd; [discriminate|].
      pose proof (find_none _ _ Fd u Hu) as Hn. cbn in Hn. lia.
  - eapply Henq; eauto. intros u (lp & Hlp & Hu). rewrite P in Hlp. discriminate.
Qed.
Lemma add_un : forall o p t local r p', unique_nonce p -> add o p t local = (r, p') -> unique_nonce p'.
Proof.
  intros o p t local r p' Hun H. unfold add in H. destruct (assoc (thash t) (all p)); [inversion H; subst; auto|].
  destruct (validate_tx p t local); [inversion H; subst; auto|].
  match type of H with (if ?c then _ else _) = _ => destruct c end; [|eapply add_insert_un; eauto].
  destruct (priced_underpriced o (all p) (locals p) (pricedl p) t) as [u pr]. destruct u; [inversion H; subst; exact Hun|].
  match type of H with (let '(_, _) := ?d in _) = _ => destruct d as [drop pr1] end.
  eapply add_insert_un; [|exact H]. apply remove_fold_un. exact Hun.
Qed.
Lemma add_tx_un : forall o p t local e p', unique_nonce p -> add_tx o p t local = Ok (e, p') -> unique_nonce p'.
Proof.
  intros o p t local e p' Hun H. unfold add_tx in H. destruct (add o p t local) as [[rep|er] p1] eqn:A; pose proof (add_un _ _ _ _ _ _ Hun A) as U1.
  - destruct rep; [inversion H; subst; auto|]. apply bind_ok in H. destruct H as (p2 & H1 & H2). inversion H2; subst. eapply promote_executables_un; eauto.
  - inversion H; subst; auto.
Qed.
Lemma add_txs_locked_un : forall o p txs local r, unique_nonce p -> add_txs_locked o p txs local = Ok r -> unique_nonce (snd r).
Proof.
  intros o p txs local r Hun H. unfold add_txs_locked in H.
  assert (G : forall txs st, unique_nonce (snd st) -> unique_nonce (snd (fold_left (atl_step o local) txs st))).
  { induction txs0 as [|t txs0 IH]; intros st Hst; cbn [fold_left]; auto. apply IH.
    destruct st as [[errs dirty] q]. cbn [snd] in *. unfold atl_step. destruct (add o q t local) as [[rep|er] q1] eqn:A; cbn [snd]; eapply add_un; eauto. }
  specialize (G txs ([], [], p) Hun).
  destruct (fold_left (atl_step o local) txs ([], [], p)) as [[errs dirty] p1]. cbn [snd] in G.
  destruct dirty; [inversion H; subst; auto|]. apply bind_ok in H. destruct H as (p2 & H1 & H2). inversion H2; subst. cbn [snd].
  eapply promote_executables_un; eauto.
Qed.

Lemma demote_account_un : forall o p a p', unique_nonce p -> demote_account o p a = Ok p' -> unique_nonce p'.
Proof.
  intros o p a p' Hun H. unfold demote_account in H. destruct (assoc a (pending p)) as [l|] eqn:P; [|inversion H; subst; auto].
  destruct (tl_forward l (cur_nonce p a)) as [old l1] eqn:F.
  set (p1 := drop_all (set_pending p (assoc_set a l1 (pending p))) old) in *.
  destruct (drop_all_pq old (set_pending p (assoc_set a l1 (pending p)))) as [Pp1 Pq1]. fold p1 in Pp1, Pq1. cbn [pending queue set_pending] in Pp1, Pq1.
  assert (U1 : unique_nonce p1). { eapply un_pshrink with (p := p); eauto. apply (tl_forward_ok _ _ _ _ F). }
  assert (Q1 : assoc a (pending p1) = Some l1) by (rewrite Pp1; apply assoc_set_same).
  clearbody p1. destruct (tl_filter o l1 (cur_balance p1 a) (maxgas p1)) as [[drops invs] l2] eqn:Fi.
  pose proof (tl_filter_ok _ _ _ _ _ _ _ Fi) as Sf.
  set (p2 := drop_all (set_pending p1 (assoc_set a l2 (pending p1))) drops) in *.
  destruct (drop_all_pq drops (set_pending p1 (assoc_set a l2 (pending p1)))) as [Pp2 Pq2]. fold p2 in Pp2, Pq2. cbn [pending queue set_pending] in Pp2, Pq2.
  assert (U2 : unique_nonce p2) by (eapply un_pshrink with (p := p1); eauto).
  assert (Q2 : assoc a (pending p2) = Some l2) by (rewrite Pp2; apply assoc_set_same).
  destruct U1 as (HP1 & _ & _). destruct (HP1 _ _ Q1) as [Hs1 Hf1]. destruct (Sf Hs1) as (Hs2 & I2 & Iv & Dv).
  clearbody p2.
  destruct (requeue_un p2 a l2 invs U2 Q2) as [U3 P3]; auto.
  { rewrite Forall_forall in *. intros x Hx. apply Hf1. apply Iv. auto. }
  set (p3 := fold_left (fun q x => snd (enqueue_tx q x)) invs p2) in *. clearbody p3.
  assert (Q3 : assoc a (pending p3) = Some l2) by (rewrite P3; auto).
  apply bind_ok in H. destruct H as ([p4 l4] & H1 & H2).
  assert (U4 : unique_nonce p4).
  { destruct ((0 <? tl_len l2) && match tl_get l2 (cur_nonce p a) with None => true | Some _ => false end); [|inversion H1; subst; auto].
    destruct (tl_cap l2 0) as [[caps l3]|] eqn:C; [|discriminate]. inversion H1; subst; clear H1.
    pose proof (tl_cap_ok _ _ _ _ C) as Sc. destruct (Sc Hs2) as (_ & _ & Ic & Dc).
    set (pb := set_pending p3 (assoc_set a l4 (pending p3))).
    assert (Ub : unique_nonce pb) by (eapply un_pshrink with (p := p3); eauto; reflexivity).
    assert (Qb : assoc a (pending pb) = Some l4) by (unfold pb; cbn [pending set_pending]; apply assoc_set_same).
    apply (requeue_un pb a l4 caps Ub Qb); auto.
    rewrite Forall_forall in *. intros x Hx. apply Hf1. apply I2. apply Ic. auto. }
  inversion H2; subst. destruct (tl_empty l4); auto. eapply un_pdel with (p := p4); eauto; reflexivity.
Qed.
Lemma demote_unexecutables_un : forall o p p', unique_nonce p -> demote_unexecutables o p = Ok p' -> unique_nonce p'.
Proof.
  intros o p p' Hun H. unfold demote_unexecutables in H. eapply (fold_res_inv _ _ unique_nonce); [|exact Hun|exact H].
  intros; eapply demote_account_un; eauto.
Qed.
Lemma reset_un : forall o p c g ri p', unique_nonce p -> reset o p c g ri = Ok p' -> unique_nonce p'.
Proof.
  intros o p c g ri p' Hun H. unfold reset in H.
  assert (U0 : unique_nonce (set_head p c g)) by exact Hun.
  apply bind_ok in H. destruct H as (p1 & H1 & H). apply bind_ok in H. destruct H as (p2 & H2 & H). apply bind_ok in H. destruct H as (p3 & H3 & H4).
  assert (U1 : unique_nonce p1).
  { destruct ri; [inversion H1; subst; auto|]. apply bind_ok in H1. destruct H1 as (r & A & B). inversion B; subst. eapply add_txs_locked_un; eauto. }
  assert (U2 : unique_nonce p2) by (eapply demote_unexecutables_un; eauto).
  assert (U3 : unique_nonce p3).
  { eapply (fold_res_inv _ _ unique_nonce); [|exact U2|exact H3]. intros q a q' Hq Hf. cbv beta in Hf. destruct (assoc a (pending q)) as [tl|]; [|inversion Hf; subst; auto].
    destruct (rev (items tl)); [discriminate|]. inversion Hf; subst. exact Hq. }
  eapply promote_executables_un; eauto.
Qed.
Lemma set_gas_price_un : forall o p g, unique_nonce p -> unique_nonce (set_gas_price o p g).
Proof.
  intros o p g Hun. unfold set_gas_price. match goal with |- context [priced_cap ?a ?b ?c ?d ?e] => destruct (priced_cap a b c d e) as [drop pr] end.
  apply remove_fold_un. exact Hun.
Qed.
Lemma step_un : forall o p x p', unique_nonce p -> step o p x = Ok p' -> unique_nonce p'.
Proof.
  intros o p x p' Hun H. destruct x; cbn [step] in H.
  - apply bind_ok in H. destruct H as ([e q] & H1 & H2). inversion H2; subst. eapply add_tx_un; eauto.
  - apply bind_ok in H. destruct H as ([e q] & H1 & H2). inversion H2; subst. eapply add_tx_un; eauto.
  - inversion H; subst. apply set_gas_price_un; auto.
  - eapply reset_un; eauto.
Qed.
Lemma new_pool_un : forall c gp cur0 gas0, unique_nonce (new_pool c gp cur0 gas0).
Proof. intros. unfold unique_nonce, in_pending, in_queue, new_pool. cbn. repeat split; try discriminate. intros a t u (l & H & _). discriminate. Qed.
(* 2. unique_nonce after every history, under every oracle *)
Theorem unique_nonce_invariant : forall h p p', unique_nonce p -> run p h = Ok p' -> unique_nonce p'.
Proof.
  induction h as [|[o x] h IH]; intros p p' Hun H; cbn [run] in H; [inversion H; subst; auto|].
  apply bind_ok in H. destruct H as (p1 & H1 & H2). eapply IH; [|exact H2]. eapply step_un; eauto.
Qed.

(* ---------------------------------------------------------------- 3. replacement_needs_bump at the pool *)
Lemma enqueue_replace_bump : forall p t p', enqueue_tx p t = (inl true, p') ->
  exists old, in_queue p (tfrom t) old /\ tnonce old = tnonce t /\ bump_ok (c_bump (conf p)) old t.
Proof.
  intros p t p' H. unfold enqueue_tx in H.
  destruct (assoc (tfrom t) (queue p)) as [l|] eqn:Q.
  - destruct (tl_add l t (c_bump (conf p))) as [[ins old] l'] eqn:E. destruct ins; [|inversion H].
    destruct old as [o|]; [|inversion H]. apply tl_add_bump in E. destruct E as (E1 & E2 & E3).
    exists o. repeat split; auto; try apply E3. exists l; auto.
  - destruct (tl_add (new_txlist false) t (c_bump (conf p))) as [[ins old] l'] eqn:E. destruct ins; [|inversion H].
    destruct old as [o|]; [|inversion H]. apply tl_add_bump in E. destruct E as (_ & [] & _).
Qed.
Theorem replacement_needs_bump : forall p t local p', add_insert p t local = (inl true, p') ->
  exists old, (in_pending p (tfrom t) old \/ in_queue p (tfrom t) old) /\ tnonce old = tnonce t /\ bump_ok (c_bump (conf p)) old t.
Proof.
  intros p t local p' H. unfold add_insert in H.
  assert (Henq : match enqueue_tx p t with (inr e, p2) => (inr e, p2) | (inl rep, p2) => (inl rep, mark_local p2 (tfrom t) local) end = (inl true, p') ->
     exists old, (in_pending p (tfrom t) old \/ in_queue p (tfrom t) old) /\ tnonce old = tnonce t /\ bump_ok (c_bump (conf p)) old t).
  { intros H0. destruct (enqueue_tx p t) as [[rep|e] p2] eqn:E; inversion H0; subst.
    destruct (enqueue_replace_bump _ _ _ E) as (o & A & B & C). exists o. auto. }
  destruct (assoc (tfrom t) (pending p)) as [l|] eqn:P; auto.
  destruct (tl_overlaps l t); auto.
  destruct (tl_add l t (c_bump (conf p))) as [[ins old] l'] eqn:E. destruct ins; [|inversion H].
  destruct old as [o|]; [|inversion H]. apply tl_add_bump in E. destruct E as (E1 & E2 & E3).
  exists o. repeat split; auto; try apply E3. left. exists l; auto.
Qed.

(* ---------------------------------------------------------------- refutation witnesses (the code really does this) *)
Definition o0 : oracle := mkOracle [] [] [] [].
Definition cfg_tiny : cfg := mkCfg 2 4 2 4 10 false.
Definition mk (h from nonce price : Z) : tx := mkTx h from nonce price 21000 100 21000 110 true.

(* removeTx (directed history of the former finding removetx-leaks-all-index, fixed in /repo by
   "txpool removeTx re-queues invalidated successors also when the pending list becomes empty"):
   the price threshold is raised above the first pending transaction of an account; its successor is re-queued *)
Definition leak_history : list (oracle * op) :=
  [(o0, OpAddRemote (mk 1 0 0 5)); (o0, OpAddRemote (mk 2 0 1 100)); (o0, OpSetGasPrice 50)].
Lemma leak_history_requeues :
  exists p, run (new_pool cfg_tiny 1 [(0, (0, 100000000))] 1000000) leak_history = Ok p /\
            all_is_unionb p = true /\ pending p = [] /\
            map (fun kv => (fst kv, map thash (items (snd kv)))) (queue p) = [(0, [2])].
Proof. eexists. split; [vm_compute; reflexivity|]. vm_compute. repeat split; eauto. Qed.

(* reset: the account nonce goes back from 2 to 0 in a reorganisation; only the nonce-0 transaction is
   reinjected (the nonce-1 one is e.g. no longer affordable).  It is promoted into the old pending list
   [2,3] before demoteUnexecutables looks at it, and demote only checks for a gap in front: pending = [0,2,3] *)
Definition gap_history : list (oracle * op) :=
  [(o0, OpAddRemote (mk 1 0 2 50)); (o0, OpAddRemote (mk 2 0 3 60));
   (o0, OpReset [(0, (0, 100000000))] 1000000 [mk 3 0 0 70])].
Lemma pending_executable_refuted :
  exists p, run (new_pool cfg_tiny 1 [(0, (2, 100000000))] 1000000) gap_history = Ok p /\
            pending_executableb p = false /\
            exists l, assoc 0 (pending p) = Some l /\ map tnonce (items l) = [0; 2; 3] /\ cur_nonce p 0 = 0.
Proof. eexists. split; [vm_compute; reflexivity|]. vm_compute. repeat split; eauto. Qed.

(* non-vacuity: a history with a gap, a promotion, an accepted and a refused replacement runs to Ok and has content *)
Definition demo_history : list (oracle * op) :=
  [(o0, OpAddRemote (mk 1 0 0 50)); (o0, OpAddRemote (mk 2 0 2 60)); (o0, OpAddLocal (mk 3 1 0 70));
   (o0, OpAddRemote (mk 4 0 0 55)); (o0, OpAddRemote (mk 5 0 0 54)); (o0, OpAddRemote (mk 6 0 1 10));
   (o0, OpReset [(0, (1, 90000000)); (1, (0, 5))] 1000000 [])].
Lemma demo_runs :
  exists p, run (new_pool cfg_tiny 1 [(0, (0, 100000000)); (1, (0, 100000000))] 1000000) demo_history = Ok p /\
            map (fun kv => (fst kv, map thash (items (snd kv)))) (pending p) = [(0, [6; 2])] /\ pending_executableb p = true.
Proof. eexists. split; [vm_compute; reflexivity|]. vm_compute. auto. Qed.
