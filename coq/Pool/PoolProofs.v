(* Pool/PoolProofs.v — lemmas for property C15. *)
From Coq Require Import List ZArith Bool Sorted Lia.
From Coq Require Import ZifyBool.
From AQ Require Import Pool.PoolModel Pool.PoolSpec.
Import ListNotations.
Local Open Scope Z_scope.

(* ---------------------------------------------------------------- association lists *)
Lemma assoc_set_same : forall A k (v : A) m, assoc k (assoc_set k v m) = Some v.
Proof.
  induction m as [|[k' v'] m IH]; cbn [assoc_set assoc].
  - rewrite Z.eqb_refl. reflexivity.
  - destruct (k =? k') eqn:E; cbn [assoc]; rewrite ?Z.eqb_refl, ?E; auto.
Qed.
Lemma assoc_set_other : forall A k a (v : A) m, a <> k -> assoc a (assoc_set k v m) = assoc a m.
Proof.
  induction m as [|[k' v'] m IH]; intros Hne; cbn [assoc_set assoc].
  - destruct (a =? k) eqn:E; [lia|reflexivity].
  - destruct (k =? k') eqn:E; cbn [assoc].
    + destruct (a =? k) eqn:E1; [lia|]. destruct (a =? k') eqn:E2; [lia|]. reflexivity.
    + destruct (a =? k'); auto.
Qed.
Lemma assoc_del_same : forall A k (m : list (Z * A)), assoc k (assoc_del k m) = None.
Proof.
  induction m as [|[k' v'] m IH]; cbn [assoc_del assoc]; auto.
  destruct (k =? k') eqn:E; auto. cbn [assoc]. rewrite E. auto.
Qed.
Lemma assoc_del_other : forall A k a (m : list (Z * A)), a <> k -> assoc a (assoc_del k m) = assoc a m.
Proof.
  induction m as [|[k' v'] m IH]; intros Hne; cbn [assoc_del assoc]; auto.
  destruct (k =? k') eqn:E; cbn [assoc].
  - destruct (a =? k') eqn:E2; [lia|]. auto.
  - destruct (a =? k'); auto.
Qed.

(* ---------------------------------------------------------------- nonce-sorted lists *)
Lemma ns_unique : forall l x y, nonce_sorted l -> In x l -> In y l -> tnonce x = tnonce y -> x = y.
Proof.
  induction l as [|z l IH]; intros x y Hs Hx Hy Hn; [inversion Hx|].
  inversion Hs as [|? ? Hs' Hall]; subst. rewrite Forall_forall in Hall.
  destruct Hx as [->|Hx], Hy as [->|Hy]; auto.
  - specialize (Hall _ Hy). lia.
  - specialize (Hall _ Hx). lia.
Qed.
Lemma ns_filter : forall f l, nonce_sorted l -> nonce_sorted (filter f l).
Proof.
  induction l as [|z l IH]; intros Hs; cbn [filter]; [constructor|].
  inversion Hs as [|? ? Hs' Hall]; subst.
  destruct (f z); [|apply IH; exact Hs']. constructor; [apply IH; exact Hs'|].
  apply Forall_forall. intros x Hx. apply filter_In in Hx. rewrite Forall_forall in Hall. apply Hall. tauto.
Qed.
Lemma ns_app_inv : forall a b, nonce_sorted (a ++ b) ->
  nonce_sorted a /\ nonce_sorted b /\ forall x y, In x a -> In y b -> tnonce x < tnonce y.
Proof.
  unfold nonce_sorted. induction a as [|z a IH]; intros b Hs; cbn [app] in *.
  - repeat split; auto. constructor. intros x y [].
  - inversion Hs as [|? ? Hs' Hall]; subst. destruct (IH _ Hs') as (Ha & Hb & Hab).
    rewrite Forall_forall in Hall. repeat split; auto.
    + constructor; auto. rewrite Forall_forall. intros x Hx. apply Hall. apply in_or_app. auto.
    + intros x y [->|Hx] Hy; auto. apply Hall. apply in_or_app. auto.
Qed.
Lemma filter_partition_disjoint : forall f l x y, nonce_sorted l ->
  In x (filter f l) -> In y (filter (fun t => negb (f t)) l) -> tnonce x <> tnonce y.
Proof.
  intros f l x y Hs Hx Hy Hn. apply filter_In in Hx. apply filter_In in Hy.
  destruct Hx as [Hx Hfx], Hy as [Hy Hfy].
  assert (x = y) by (eapply ns_unique; eauto). subst. rewrite Hfx in Hfy. discriminate.
Qed.
Lemma ns_ins : forall t l, nonce_sorted l -> nonce_sorted (ins_tx t l).
Proof.
  unfold nonce_sorted. induction l as [|z l IH]; intros Hs; cbn [ins_tx]; [repeat constructor|].
  inversion Hs as [|? ? Hs' Hall]; subst. rewrite Forall_forall in Hall.
  destruct (tnonce t <? tnonce z) eqn:E1.
  - constructor; auto. rewrite Forall_forall. intros x [->|Hx]; [lia|]. specialize (Hall _ Hx). lia.
  - destruct (tnonce t =? tnonce z) eqn:E2.
    + constructor; auto. rewrite Forall_forall. intros x Hx. specialize (Hall _ Hx). lia.
    + constructor; auto. rewrite Forall_forall. intros x Hx.
      assert (Hc : x = t \/ In x l).
      { clear - Hx. induction l as [|w l IHl]; cbn [ins_tx] in Hx.
        - destruct Hx as [->|[]]; auto.
        - destruct (tnonce t <? tnonce w).
          + destruct Hx as [->|Hx]; auto.
          + destruct (tnonce t =? tnonce w).
            * destruct Hx as [->|Hx]; auto. right. right. auto.
            * destruct Hx as [->|Hx]; [right; left; auto|]. destruct (IHl Hx); auto. right. right. auto. }
      destruct Hc as [->|Hx']; [lia|]. apply Hall; auto.
Qed.
Lemma ins_in : forall t l x, In x (ins_tx t l) -> x = t \/ (In x l /\ tnonce x <> tnonce t).
Proof.
Abort.
Lemma ins_in : forall t l x, nonce_sorted l -> In x (ins_tx t l) -> x = t \/ (In x l /\ tnonce x <> tnonce t).
Proof.
  unfold nonce_sorted. induction l as [|w l IHl]; intros x Hs Hx; cbn [ins_tx] in Hx.
  - destruct Hx as [->|[]]; auto.
  - inversion Hs as [|? ? Hs' Hall]; subst. rewrite Forall_forall in Hall.
    destruct (tnonce t <? tnonce w) eqn:E1.
    + destruct Hx as [->|[->|Hx]]; auto.
      * right. split; [left; auto|lia].
      * right. split; [right; auto|]. specialize (Hall _ Hx). lia.
    + destruct (tnonce t =? tnonce w) eqn:E2.
      * destruct Hx as [->|Hx]; auto. right. split; [right; auto|]. specialize (Hall _ Hx). lia.
      * destruct Hx as [->|Hx]; [right; split; [left; auto|lia]|].
        destruct (IHl _ Hs' Hx) as [->|[H1 H2]]; auto. right. split; auto. right. auto.
Qed.

(* oracle ordering is a permutation as far as membership goes *)
Lemma ins_by_in : forall A (key : A -> Z) x y l, In y (ins_by key x l) <-> y = x \/ In y l.
Proof.
  induction l as [|z l IH]; cbn [ins_by].
  - cbn. intuition.
  - destruct (key z <=? key x); cbn [In]; rewrite ?IH; intuition.
Qed.
Lemma sort_by_in : forall A (key : A -> Z) l y, In y (sort_by key l) <-> In y l.
Proof.
  intros A key l y. unfold sort_by.
  assert (G : forall l acc, In y (fold_left (fun acc x => ins_by key x acc) l acc) <-> In y l \/ In y acc).
  { induction l0 as [|z l0 IH]; intros acc; cbn [fold_left].
    - cbn. intuition.
    - rewrite IH, ins_by_in. cbn [In]. intuition. }
  rewrite G. cbn. intuition.
Qed.
Lemma order_txs_in : forall o l y, In y (order_txs o l) <-> In y l.
Proof. intros. apply sort_by_in. Qed.

(* ---------------------------------------------------------------- txList operations *)
(* l' keeps part of l in order; ex (what the caller may re-queue) comes from l and shares no nonce with l' *)
Definition split_ok (l l' : list tx) (ex : list tx) : Prop :=
  nonce_sorted l ->
  nonce_sorted l' /\ incl l' l /\ incl ex l /\ (forall x y, In x ex -> In y l' -> tnonce x <> tnonce y).

Lemma split_ok_filter : forall f l, split_ok l (filter (fun t => negb (f t)) l) (filter f l).
Proof.
  intros f l Hs. repeat split.
  - apply ns_filter; auto.
  - intros x Hx. apply filter_In in Hx. tauto.
  - intros x Hx. apply filter_In in Hx. tauto.
  - intros x y Hx Hy. eapply filter_partition_disjoint; eauto.
Qed.
Lemma split_ok_nil : forall l l', (nonce_sorted l -> nonce_sorted l') -> incl l' l -> split_ok l l' [].
Proof. intros l l' H1 H2 Hs. repeat split; auto; try (intros x []); try (intros x y []). Qed.
Lemma split_ok_trans : forall l l1 l2 ex, split_ok l l1 [] -> split_ok l1 l2 ex -> split_ok l l2 ex.
Proof.
  intros l l1 l2 ex H1 H2 Hs. destruct (H1 Hs) as (S1 & I1 & _ & _). destruct (H2 S1) as (S2 & I2 & I3 & D).
  repeat split; auto; eapply incl_tran; eauto.
Qed.
Lemma split_ok_order : forall o l l' ex, split_ok l l' ex -> split_ok l l' (order_txs o ex).
Proof.
  intros o l l' ex H Hs. destruct (H Hs) as (S & I & I2 & D). repeat split; auto.
  - intros x Hx. apply order_txs_in in Hx. auto.
  - intros x y Hx. apply order_txs_in in Hx. auto.
Qed.
Lemma split_ok_app : forall a b, split_ok (a ++ b) a b /\ split_ok (a ++ b) b a.
Proof.
  intros a b. split; intros Hs; destruct (ns_app_inv _ _ Hs) as (Sa & Sb & D); repeat split; auto;
    try (intros x Hx; apply in_or_app; auto).
  - intros x y Hx Hy. specialize (D _ _ Hy Hx). lia.
  - intros x y Hx Hy. specialize (D _ _ Hx Hy). lia.
Qed.

Lemma tl_forward_ok : forall l th rm l', tl_forward l th = (rm, l') -> split_ok (items l) (items l') [] /\ strict l' = strict l.
Proof.
  intros l th rm l' H. unfold tl_forward in H. inversion H; subst; clear H. cbn [items strict]. split; auto.
  apply split_ok_nil. apply ns_filter. intros x Hx. apply filter_In in Hx. tauto.
Qed.
Lemma tl_filter_ok : forall o l c g drops invs l', tl_filter o l c g = (drops, invs, l') -> split_ok (items l) (items l') invs.
Proof.
  intros o l c g drops invs l' H. unfold tl_filter in H.
  destruct ((costcap l <=? c) && (gascap l <=? g)).
  { inversion H; subst. apply split_ok_nil; auto. apply incl_refl. }
  set (bad := fun t => (c <? tcost t) || (g <? tgas t)) in *.
  assert (H0 : split_ok (items l) (filter (fun t => negb (bad t)) (items l)) []).
  { apply split_ok_nil. apply ns_filter. intros x Hx. apply filter_In in Hx. tauto. }
  destruct (strict l); [destruct (filter bad (items l)) eqn:Erem|].
  - inversion H; subst. cbn [items]. exact H0.
  - inversion H; subst; clear H. cbn [items]. apply split_ok_order.
    eapply split_ok_trans; [exact H0|]. apply (split_ok_filter (fun t0 => _ <? tnonce t0)).
  - inversion H; subst. cbn [items]. exact H0.
Qed.
Lemma tl_cap_ok : forall l k drops l', tl_cap l k = Some (drops, l') -> split_ok (items l) (items l') drops.
Proof.
  intros l k drops l' H. unfold tl_cap in H.
  destruct (Z.of_nat (length (items l)) <=? k). { inversion H; subst. apply split_ok_nil; auto. apply incl_refl. }
  destruct (k <? 0); [discriminate|]. inversion H; subst; clear H. cbn [items].
  intros Hs. rewrite <- (firstn_skipn (Z.to_nat k) (items l)) in Hs at 1.
  destruct (proj1 (split_ok_app _ _) Hs) as (S & I & I2 & D).
  rewrite (firstn_skipn (Z.to_nat k) (items l)) in I, I2. repeat split; auto.
  - intros x Hx. apply in_rev in Hx. auto.
  - intros x y Hx. apply in_rev in Hx. auto.
Qed.
Lemma tl_remove_ok : forall o l t b invs l', tl_remove o l t = (b, invs, l') -> split_ok (items l) (items l') invs.
Proof.
  intros o l t b invs l' H. unfold tl_remove in H.
  destruct (tl_get l (tnonce t)). 2:{ inversion H; subst. apply split_ok_nil; auto. apply incl_refl. }
  assert (H0 : split_ok (items l) (filter (fun x => negb (tnonce x =? tnonce t)) (items l)) []).
  { apply split_ok_nil. apply ns_filter. intros x Hx. apply filter_In in Hx. tauto. }
  destruct (strict l); inversion H; subst; clear H; cbn [items]; auto.
  apply split_ok_order. eapply split_ok_trans; [exact H0|]. apply (split_ok_filter (fun x => tnonce t <? tnonce x)).
Qed.
Lemma take_run_app : forall l n a b, take_run n l = (a, b) -> l = a ++ b.
Proof.
  induction l as [|x l IH]; intros n a b H; cbn [take_run] in H.
  - inversion H; auto.
  - destruct (tnonce x =? n).
    + destruct (take_run ((n + 1) mod two64) l) as [a' b'] eqn:E. inversion H; subst. cbn [app]. f_equal. eapply IH; eauto.
    + inversion H; auto.
Qed.
Lemma tl_ready_ok : forall l s ready l', tl_ready l s = (ready, l') -> split_ok (items l) (items l') ready.
Proof.
  intros l s ready l' H. unfold tl_ready in H.
  destruct (items l) as [|x r] eqn:E. { inversion H; subst. rewrite E. apply split_ok_nil; auto. apply incl_refl. }
  destruct (s <? tnonce x). { inversion H; subst. rewrite E. apply split_ok_nil; auto. apply incl_refl. }
  destruct (take_run (tnonce x) (x :: r)) as [a b] eqn:Er. inversion H; subst; clear H. cbn [items].
  rewrite (take_run_app _ _ _ _ Er). apply split_ok_app.
Qed.
Lemma tl_add_ok : forall l t bump old l', tl_add l t bump = (true, old, l') ->
  items l' = ins_tx t (items l) /\ old = tl_get l (tnonce t).
Proof.
  intros l t bump old l' H. unfold tl_add in H.
  destruct (match tl_get l (tnonce t) with Some o => _ | None => false end); inversion H; subst. cbn [items]. auto.
Qed.
(* 3. replacement_needs_bump, at the list *)
Lemma tl_add_bump : forall l t bump o l', tl_add l t bump = (true, Some o, l') -> tnonce o = tnonce t /\ In o (items l) /\ bump_ok bump o t.
Proof.
  intros l t bump o l' H. unfold tl_add in H. destruct (tl_get l (tnonce t)) as [o'|] eqn:G.
  - destruct ((tprice t <=? tprice o') || (tprice t <? tprice o' * (100 + bump) / 100)) eqn:E; inversion H; subst.
    unfold tl_get in G. apply find_some in G. destruct G as [Hin Hn]. unfold bump_ok. repeat split; auto; lia.
  - inversion H.
Qed.
Lemma tl_add_reject : forall l t bump x l', tl_add l t bump = (false, x, l') -> l' = l.
Proof.
  intros l t bump x l' H. unfold tl_add in H.
  destruct (match tl_get l (tnonce t) with Some o => _ | None => false end); inversion H; subst; auto.
Qed.

(* ---------------------------------------------------------------- pool level: unique_nonce is an invariant *)
Lemma un_same : forall p q, pending q = pending p -> queue q = queue p -> unique_nonce p -> unique_nonce q.
Proof. intros p q Hp Hq H. unfold unique_nonce, in_pending, in_queue in *. rewrite Hp, Hq. exact H. Qed.

Lemma drop_all_pq : forall l p, pending (drop_all p l) = pending p /\ queue (drop_all p l) = queue p.
Proof.
  unfold drop_all. induction l as [|t l IH]; intros p; cbn [fold_left]; auto.
  destruct (IH (all_drop p (thash t))) as [H1 H2]. rewrite H1, H2. split; reflexivity.
Qed.

(* replace queue[a] by a part of itself *)
Lemma un_qshrink : forall p q a l l' ex, unique_nonce p -> assoc a (queue p) = Some l -> split_ok (items l) (items l') ex ->
  pending q = pending p -> queue q = assoc_set a l' (queue p) -> unique_nonce q.
Proof.
  intros p q a l l' ex (HP & HQ & HD) Ha Hsp Hp Hq. destruct (HQ _ _ Ha) as [Hs Hf]. destruct (Hsp Hs) as (S & I & _ & _).
  unfold unique_nonce, in_pending, in_queue. rewrite Hp, Hq. split; [|split].
  - intros a0 l0 H. apply HP; auto.
  - intros a0 l0 H. destruct (Z.eq_dec a0 a) as [->|Hne].
    + rewrite assoc_set_same in H; inversion H; subst. split; auto. rewrite Forall_forall in *. intros x Hx. apply Hf. apply I. auto.
    + rewrite assoc_set_other in H by auto. apply HQ; auto.
  - intros a0 t u (lp & Hlp & Ht) (lq & Hlq & Hu). destruct (Z.eq_dec a0 a) as [->|Hne].
    + rewrite assoc_set_same in Hlq. inversion Hlq; subst. apply (HD a); [exists lp; auto|exists l; split; auto].
    + rewrite assoc_set_other in Hlq by auto. apply (HD a0); [exists lp; auto|exists lq; auto].
Qed.
Lemma un_pshrink : forall p q a l l' ex, unique_nonce p -> assoc a (pending p) = Some l -> split_ok (items l) (items l') ex ->
  queue q = queue p -> pending q = assoc_set a l' (pending p) -> unique_nonce q.
Proof.
  intros p q a l l' ex (HP & HQ & HD) Ha Hsp Hq Hp. destruct (HP _ _ Ha) as [Hs Hf]. destruct (Hsp Hs) as (S & I & _ & _).
  unfold unique_nonce, in_pending, in_queue. rewrite Hp, Hq. split; [|split].
  - intros a0 l0 H. destruct (Z.eq_dec a0 a) as [->|Hne].
    + rewrite assoc_set_same in H; inversion H; subst. split; auto. rewrite Forall_forall in *. intros x Hx. apply Hf. apply I. auto.
    + rewrite assoc_set_other in H by auto. apply HP; auto.
  - intros a0 l0 H. apply HQ; auto.
  - intros a0 t u (lp & Hlp & Ht) (lq & Hlq & Hu). destruct (Z.eq_dec a0 a) as [->|Hne].
    + rewrite assoc_set_same in Hlp. inversion Hlp; subst. apply (HD a); [exists l; split; auto|exists lq; auto].
    + rewrite assoc_set_other in Hlp by auto. apply (HD a0); [exists lp; auto|exists lq; auto].
Qed.
Lemma un_qdel : forall p q a, unique_nonce p -> pending q = pending p -> queue q = assoc_del a (queue p) -> unique_nonce q.
Proof.
  intros p q a (HP & HQ & HD) Hp Hq. unfold unique_nonce, in_pending, in_queue. rewrite Hp, Hq. split; [|split].
  - intros a0 l0 H. apply HP; auto.
  - intros a0 l0 H. destruct (Z.eq_dec a0 a) as [->|Hne]; [rewrite assoc_del_same in H; discriminate|rewrite assoc_del_other in H by auto; apply HQ; auto].
  - intros a0 t u (lp & Hlp & Ht) (lq & Hlq & Hu). destruct (Z.eq_dec a0 a) as [->|Hne]; [rewrite assoc_del_same in Hlq; discriminate|].
    rewrite assoc_del_other in Hlq by auto. apply (HD a0); [exists lp; auto|exists lq; auto].
Qed.
Lemma un_pdel : forall p q a, unique_nonce p -> queue q = queue p -> pending q = assoc_del a (pending p) -> unique_nonce q.
Proof.
  intros p q a (HP & HQ & HD) Hq Hp. unfold unique_nonce, in_pending, in_queue. rewrite Hp, Hq. split; [|split].
  - intros a0 l0 H. destruct (Z.eq_dec a0 a) as [->|Hne]; [rewrite assoc_del_same in H; discriminate|rewrite assoc_del_other in H by auto; apply HP; auto].
  - intros a0 l0 H. apply HQ; auto.
  - intros a0 t u (lp & Hlp & Ht) (lq & Hlq & Hu). destruct (Z.eq_dec a0 a) as [->|Hne]; [rewrite assoc_del_same in Hlp; discriminate|].
    rewrite assoc_del_other in Hlp by auto. apply (HD a0); [exists lp; auto|exists lq; auto].
Qed.

Definition list_of (m : list (Z * txlist)) (a : Z) (s : bool) : txlist := match assoc a m with Some l => l | None => new_txlist s end.
Lemma list_of_ok : forall p a s, unique_nonce p ->
  (nonce_sorted (items (list_of (queue p) a s)) /\ Forall (fun t => tfrom t = a) (items (list_of (queue p) a s))) /\
  (nonce_sorted (items (list_of (pending p) a s)) /\ Forall (fun t => tfrom t = a) (items (list_of (pending p) a s))).
Proof.
  intros p a s (HP & HQ & _). unfold list_of. split.
  - destruct (assoc a (queue p)) eqn:E; [apply HQ; auto|cbn; split; constructor].
  - destruct (assoc a (pending p)) eqn:E; [apply HP; auto|cbn; split; constructor].
Qed.

(* insert t into queue[tfrom t] when its nonce is not pending *)
Lemma un_qadd : forall p q t s l', unique_nonce p -> (forall u, in_pending p (tfrom t) u -> tnonce u <> tnonce t) ->
  items l' = ins_tx t (items (list_of (queue p) (tfrom t) s)) ->
  pending q = pending p -> queue q = assoc_set (tfrom t) l' (queue p) -> unique_nonce q.
Proof.
  intros p q t s l' Hun Hnp Hit Hp Hq. destruct (list_of_ok p (tfrom t) s Hun) as [[Ls Lf] _]. destruct Hun as (HP & HQ & HD).
  unfold unique_nonce, in_pending, in_queue. rewrite Hp, Hq. split; [|split].
  - intros a l0 H. apply HP; auto.
  - intros a l0 H. destruct (Z.eq_dec a (tfrom t)) as [->|Hne]; [rewrite assoc_set_same in H; inversion H; subst|rewrite assoc_set_other in H by auto; apply HQ; auto].
    rewrite Hit. split; [apply ns_ins; auto|].
    rewrite Forall_forall in *. intros x Hx. apply ins_in in Hx; auto. destruct Hx as [->|[Hx _]]; auto.
  - intros a t0 u (lp & Hlp & Ht) (lq & Hlq & Hu). destruct (Z.eq_dec a (tfrom t)) as [->|Hne].
    + rewrite assoc_set_same in Hlq. inversion Hlq; subst. rewrite Hit in Hu. apply ins_in in Hu; auto. destruct Hu as [->|[Hu _]].
      * apply Hnp. exists lp; auto.
      * unfold list_of in Hu. destruct (assoc (tfrom t) (queue p)) as [l0|] eqn:E; [|destruct Hu].
        apply (HD (tfrom t)); [exists lp; auto|exists l0; auto].
    + rewrite assoc_set_other in Hlq by auto. apply (HD a); [exists lp; auto|exists lq; auto].
Qed.
Lemma un_padd : forall p q a t s l', unique_nonce p -> tfrom t = a -> (forall u, in_queue p a u -> tnonce u <> tnonce t) ->
  items l' = ins_tx t (items (list_of (pending p) a s)) ->
  queue q = queue p -> pending q = assoc_set a l' (pending p) -> unique_nonce q.
Proof.
  intros p q a t s l' Hun Hfrom Hnq Hit Hq Hp. destruct (list_of_ok p a s Hun) as [_ [Ls Lf]]. destruct Hun as (HP & HQ & HD).
  unfold unique_nonce, in_pending, in_queue. rewrite Hp, Hq. split; [|split].
  - intros a0 l0 H. destruct (Z.eq_dec a0 a) as [->|Hne]; [rewrite assoc_set_same in H; inversion H; subst|rewrite assoc_set_other in H by auto; apply HP; auto].
    rewrite Hit. split; [apply ns_ins; auto|].
    rewrite Forall_forall in *. intros x Hx. apply ins_in in Hx; auto. destruct Hx as [->|[Hx _]]; auto.
  - intros a0 l0 H. apply HQ; auto.
  - intros a0 t0 u (lp & Hlp & Ht) (lq & Hlq & Hu). destruct (Z.eq_dec a0 a) as [->|Hne].
    + rewrite assoc_set_same in Hlp. inversion Hlp; subst. rewrite Hit in Ht. apply ins_in in Ht; auto. destruct Ht as [->|[Ht _]].
      * intros E. apply (Hnq u); [exists lq; auto|auto].
      * unfold list_of in Ht. destruct (assoc (tfrom t) (pending p)) as [l0|] eqn:E; [|destruct Ht].
        apply (HD (tfrom t)); [exists l0; auto|exists lq; auto].
    + rewrite assoc_set_other in Hlp by auto. apply (HD a0); [exists lp; auto|exists lq; auto].
Qed.

Lemma tl_add_empty_accepts : forall s t bump x l', tl_add (new_txlist s) t bump = (false, x, l') -> False.
Proof. intros s t bump x l' H. unfold tl_add, tl_get, new_txlist in H. cbn in H. discriminate. Qed.

Lemma enqueue_un : forall p t, unique_nonce p -> (forall u, in_pending p (tfrom t) u -> tnonce u <> tnonce t) ->
  unique_nonce (snd (enqueue_tx p t)) /\ pending (snd (enqueue_tx p t)) = pending p.
Proof.
  intros p t Hun Hnp. unfold enqueue_tx.
  change (match assoc (tfrom t) (queue p) with Some l => l | None => new_txlist false end) with (list_of (queue p) (tfrom t) false).
  destruct (tl_add (list_of (queue p) (tfrom t) false) t (c_bump (conf p))) as [[ins old] l'] eqn:E. destruct ins.
  - apply tl_add_ok in E. destruct E as [Hit _]. cbn [snd]. split.
    + eapply un_qadd with (p := p); eauto; destruct old; reflexivity.
    + destruct old; reflexivity.
  - cbn [snd]. split; [|reflexivity]. pose proof (tl_add_reject _ _ _ _ _ E) as ->. unfold list_of in *.
    destruct (assoc (tfrom t) (queue p)) as [l|] eqn:Q.
    + eapply un_qshrink with (p := p) (ex := []); eauto; try reflexivity. apply split_ok_nil; auto. apply incl_refl.
    + exfalso. eapply tl_add_empty_accepts; eauto.
Qed.
Lemma enqueue_fold_un : forall invs p, unique_nonce p ->
  (forall x, In x invs -> forall u, in_pending p (tfrom x) u -> tnonce u <> tnonce x) ->
  unique_nonce (fold_left (fun q x => snd (enqueue_tx q x)) invs p) /\
  pending (fold_left (fun q x => snd (enqueue_tx q x)) invs p) = pending p.
Proof.
  induction invs as [|x invs IH]; intros p Hun Hpre; cbn [fold_left]; auto.
  destruct (enqueue_un p x Hun (Hpre x (or_introl eq_refl))) as [H1 H2].
  destruct (IH _ H1) as [H3 H4].
  - intros y Hy u Hu. unfold in_pending in Hu. rewrite H2 in Hu. apply (Hpre y); auto. right; auto.
  - split; auto. rewrite H4. auto.
Qed.

Lemma promote_un : forall p a t, unique_nonce p -> tfrom t = a -> (forall u, in_queue p a u -> tnonce u <> tnonce t) ->
  unique_nonce (promote_tx p a t) /\ queue (promote_tx p a t) = queue p.
Proof.
  intros p a t Hun Hfrom Hnq. unfold promote_tx.
  change (match assoc a (pending p) with Some l => l | None => new_txlist true end) with (list_of (pending p) a true).
  destruct (tl_add (list_of (pending p) a true) t (c_bump (conf p))) as [[ins old] l'] eqn:E. destruct ins.
  - apply tl_add_ok in E. destruct E as [Hit _]. split.
    + eapply un_padd with (p := p) (t := t); eauto.
      * destruct old; cbn; match goal with |- context [match ?X with _ => _ end] => destruct X end; reflexivity.
      * destruct old; cbn; match goal with |- context [match ?X with _ => _ end] => destruct X end; reflexivity.
    + destruct old; cbn; match goal with |- context [match ?X with _ => _ end] => destruct X end; reflexivity.
  - split; [|reflexivity]. pose proof (tl_add_reject _ _ _ _ _ E) as ->. unfold list_of in *.
    destruct (assoc a (pending p)) as [l|] eqn:Q.
    + eapply un_pshrink with (p := p) (ex := []); eauto; try reflexivity. apply split_ok_nil; auto. apply incl_refl.
    + exfalso. eapply tl_add_empty_accepts; eauto.
Qed.
Lemma promote_fold_un : forall a ready p, unique_nonce p -> Forall (fun t => tfrom t = a) ready ->
  (forall t u, In t ready -> in_queue p a u -> tnonce u <> tnonce t) ->
  unique_nonce (fold_left (fun q t => promote_tx q a t) ready p) /\ queue (fold_left (fun q t => promote_tx q a t) ready p) = queue p.
Proof.
  induction ready as [|t ready IH]; intros p Hun Hf Hpre; cbn [fold_left]; auto.
  inversion Hf; subst.
  destruct (promote_un p (tfrom t) t Hun eq_refl) as [G1 G2]. { intros u Hu. apply (Hpre t u); auto. left; auto. }
  destruct (IH _ G1) as [G3 G4]; auto.
  - intros t' u Ht' Hu. unfold in_queue in Hu. rewrite G2 in Hu. apply (Hpre t' u); auto. right; auto.
  - split; auto. rewrite G4; auto.
Qed.

Lemma remove_un : forall o p h, unique_nonce p -> unique_nonce (remove_tx o p h).
Proof.
  intros o p h Hun. unfold remove_tx. destruct (assoc h (all p)) as [t|]; auto.
  set (p1 := all_drop p h). assert (Hun1 : unique_nonce p1) by (apply (un_same p); auto).
  clearbody p1. clear Hun p.
  assert (HQ : unique_nonce (match assoc (tfrom t) (queue p1) with
      | None => p1
      | Some f => let '(_, _, f') := tl_remove o f t in
                  if tl_empty f' then set_queue p1 (assoc_del (tfrom t) (queue p1)) else set_queue p1 (assoc_set (tfrom t) f' (queue p1))
      end)).
  { destruct (assoc (tfrom t) (queue p1)) as [f|] eqn:Q; auto.
    destruct (tl_remove o f t) as [[b invs] f'] eqn:R. destruct (tl_empty f').
    - eapply un_qdel; eauto; reflexivity.
    - eapply un_qshrink with (p := p1); eauto; try reflexivity. eapply tl_remove_ok; eauto. }
  destruct (assoc (tfrom t) (pending p1)) as [pl|] eqn:P; auto.
  destruct (tl_remove o pl t) as [[b invs] pl'] eqn:R. destruct b; auto.
  pose proof (tl_remove_ok _ _ _ _ _ _ R) as Hsp.
  match goal with |- unique_nonce (if _ then pn_set ?X _ _ else _) => assert (H2 : unique_nonce X) end.
  { destruct Hun1 as (HP & HQ1 & HD1). destruct (HP _ _ P) as [Hs Hf]. destruct (Hsp Hs) as (_ & _ & I2 & D).
    assert (Hun1 : unique_nonce p1) by (split; [|split]; auto).
    rewrite Forall_forall in Hf.
    destruct (tl_empty pl').
    - apply enqueue_fold_un.
      + eapply un_pdel with (p := p1); eauto; reflexivity.
      + intros x Hx u (lp & Hlp & Hu). rewrite (Hf x (I2 x Hx)) in Hlp. cbn [pending set_pending set_beats] in Hlp.
        rewrite assoc_del_same in Hlp. discriminate.
    - apply enqueue_fold_un.
      + eapply un_pshrink with (p := p1); eauto; reflexivity.
      + intros x Hx u (lp & Hlp & Hu). rewrite (Hf x (I2 x Hx)) in Hlp. cbn [pending set_pending] in Hlp. rewrite assoc_set_same in Hlp.
        inversion Hlp; subst. intros E. apply (D x u); auto. }
  match goal with |- unique_nonce (if ?c then _ else _) => destruct c end; exact H2.
Qed.
Lemma remove_fold_un : forall o (l : list tx) p, unique_nonce p -> unique_nonce (fold_left (fun q t => remove_tx o q (thash t)) l p).
Proof. induction l; intros; cbn [fold_left]; auto. apply IHl. apply remove_un; auto. Qed.

Lemma bind_ok : forall A B (r : res A) (f : A -> res B) b, bind r f = Ok b -> exists a, r = Ok a /\ f a = Ok b.
Proof. intros A B r f b H. destruct r; cbn in H; try discriminate. eauto. Qed.
Lemma fold_res_inv : forall A B (P : A -> Prop) (f : A -> B -> res A) l a r,
  (forall a x a', P a -> f a x = Ok a' -> P a') -> P a -> fold_res f l a = Ok r -> P r.
Proof.
  induction l as [|x l IH]; intros a r Hf Ha H; cbn [fold_res] in H.
  - inversion H; subst; auto.
  - apply bind_ok in H. destruct H as (a' & H1 & H2). exact (IH a' r Hf (Hf _ _ _ Ha H1) H2).
Qed.

Lemma pe_account_un : forall o p a p', unique_nonce p -> pe_account o p a = Ok p' -> unique_nonce p'.
Proof.
  intros o p a p' Hun H. unfold pe_account in H. destruct (assoc a (queue p)) as [l|] eqn:Q; [|inversion H; subst; auto].
  destruct (tl_forward l (cur_nonce p a)) as [old l1] eqn:F.
  set (p1 := drop_all (set_queue p (assoc_set a l1 (queue p))) old) in *.
  destruct (drop_all_pq old (set_queue p (assoc_set a l1 (queue p)))) as [Pp1 Pq1]. fold p1 in Pp1, Pq1. cbn [pending queue set_queue] in Pp1, Pq1.
  assert (U1 : unique_nonce p1). { eapply un_qshrink with (p := p); eauto. apply (tl_forward_ok _ _ _ _ F). }
  assert (Q1 : assoc a (queue p1) = Some l1) by (rewrite Pq1; apply assoc_set_same).
  clearbody p1. destruct (tl_filter o l1 (cur_balance p1 a) (maxgas p1)) as [[drops invs] l2] eqn:Fi.
  set (p2 := drop_all (set_queue p1 (assoc_set a l2 (queue p1))) drops) in *.
  destruct (drop_all_pq drops (set_queue p1 (assoc_set a l2 (queue p1)))) as [Pp2 Pq2]. fold p2 in Pp2, Pq2. cbn [pending queue set_queue] in Pp2, Pq2.
  assert (U2 : unique_nonce p2). { eapply un_qshrink with (p := p1) (ex := []); eauto.
    pose proof (tl_filter_ok _ _ _ _ _ _ _ Fi) as S. intros Hs. destruct (S Hs) as (A1 & A2 & _ & _). repeat split; auto; try (intros x []); try (intros x y []). }
  assert (Q2 : assoc a (queue p2) = Some l2) by (rewrite Pq2; apply assoc_set_same).
  clearbody p2. destruct (tl_ready l2 (pn_get p2 a)) as [ready l3] eqn:R.
  pose proof (tl_ready_ok _ _ _ _ R) as Sr.
  set (pb := set_queue p2 (assoc_set a l3 (queue p2))) in *.
  assert (Ub : unique_nonce pb) by (eapply un_qshrink with (p := p2); eauto; reflexivity).
  assert (Qb : assoc a (queue pb) = Some l3) by (unfold pb; cbn [queue set_queue]; apply assoc_set_same).
  destruct U2 as (_ & HQ2 & _). destruct (HQ2 _ _ Q2) as [Hs2 Hf2]. destruct (Sr Hs2) as (_ & _ & Ir & Dr).
  destruct (promote_fold_un a ready pb Ub) as [U3 Q3].
  { rewrite Forall_forall in *. intros x Hx. apply Hf2. apply Ir. auto. }
  { intros t u Ht (lq & Hlq & Hu). rewrite Qb in Hlq. inversion Hlq; subst. intros E. apply (Dr t u); auto. }
  set (p3 := fold_left (fun q t => promote_tx q a t) ready pb) in *. clearbody p3. clearbody pb.
  assert (Q3' : assoc a (queue p3) = Some l3) by (rewrite Q3; auto).
  apply bind_ok in H. destruct H as ([p4 l4] & H1 & H2).
  assert (U4 : unique_nonce p4 /\ (tl_empty l4 = true -> True)).
  { split; auto. destruct (memZ a (locals p3)); [inversion H1; subst; auto|].
    destruct (tl_cap l3 (c_aqueue (conf p3))) as [[caps l4']|] eqn:C; [|discriminate]. inversion H1; subst.
    destruct (drop_all_pq caps (set_queue p3 (assoc_set a l4 (queue p3)))) as [Pp4 Pq4]. cbn [pending queue set_queue] in Pp4, Pq4.
    eapply un_qshrink with (p := p3); eauto. eapply tl_cap_ok; eauto. }
  destruct U4 as [U4 _]. inversion H2; subst. destruct (tl_empty l4); auto. eapply un_qdel; eauto; reflexivity.
Qed.

Lemma shrink_one_un : forall p a p', unique_nonce p -> shrink_one p a = Ok p' -> unique_nonce p'.
Proof.
  intros p a p' Hun H. unfold shrink_one in H. destruct (assoc a (pending p)) as [l|] eqn:P; [|discriminate].
  destruct (tl_cap l (tl_len l - 1)) as [[drops l']|] eqn:C; [|discriminate]. inversion H; subst; clear H.
  set (pb := set_pending p (assoc_set a l' (pending p))).
  assert (Ub : unique_nonce pb) by (eapply un_pshrink with (p := p); eauto; try reflexivity; eapply tl_cap_ok; eauto).
  clearbody pb. clear C. revert pb Ub. induction drops as [|t drops IH]; intros pb Ub; cbn [fold_left]; auto.
  apply IH. cbv zeta. match goal with |- unique_nonce (if ?c then _ else _) => destruct c end; exact Ub.
Qed.
Lemma shrink_fold_un : forall l (st r : pool * Z), unique_nonce (fst st) ->
  fold_res (fun (st : pool * Z) a => q <- shrink_one (fst st) a ;; Ok (q, (snd st - 1) mod two64)) l st = Ok r -> unique_nonce (fst r).
Proof.
  intros l st r Hun H. eapply (fold_res_inv _ _ (fun st => unique_nonce (fst st))); eauto.
  intros a x a' Ha Hf. apply bind_ok in Hf. destruct Hf as (q & H1 & H2). inversion H2; subst. cbn [fst]. eapply shrink_one_un; eauto.
Qed.
Lemma equalize_un : forall fuel p cnt offs th r, unique_nonce p -> equalize fuel p cnt offs th = Ok r -> unique_nonce (fst r).
Proof.
  induction fuel as [|f IH]; intros p cnt offs th r Hun H; cbn [equalize] in H; [discriminate|].
  apply bind_ok in H. destruct H as (n & _ & H).
  destruct ((c_gslots (conf p) <? cnt) && (th <? n)); [|inversion H; subst; auto].
  apply bind_ok in H. destruct H as (r1 & H1 & H2). eapply IH; [|exact H2]. eapply shrink_fold_un; [|exact H1]. auto.
Qed.
Lemma spam_loop_un : forall fuel o p cnt sp offs r, unique_nonce p -> spam_loop fuel o p cnt sp offs = Ok r -> unique_nonce (fst (fst r)).
Proof.
  induction fuel as [|f IH]; intros o p cnt sp offs r Hun H; cbn [spam_loop] in H; [discriminate|].
  destruct (c_gslots (conf p) <? cnt); [|inversion H; subst; auto].
  destruct (prque_pop o sp) as [[off rest]|]; [|inversion H; subst; auto].
  destruct (1 <? Z.of_nat (length (offs ++ [off]))).
  - apply bind_ok in H. destruct H as (th & _ & H). apply bind_ok in H. destruct H as (r1 & H1 & H2).
    eapply IH; [|exact H2]. eapply equalize_un; eauto.
  - eapply IH; eauto.
Qed.
Lemma minimum_loop_un : forall fuel p cnt offs r, unique_nonce p -> minimum_loop fuel p cnt offs = Ok r -> unique_nonce (fst r).
Proof.
  induction fuel as [|f IH]; intros p cnt offs r Hun H; cbn [minimum_loop] in H; [discriminate|].
  apply bind_ok in H. destruct H as (n & _ & H).
  destruct ((c_gslots (conf p) <? cnt) && (c_aslots (conf p) <? n)); [|inversion H; subst; auto].
  apply bind_ok in H. destruct H as (r1 & H1 & H2). eapply IH; [|exact H2]. eapply shrink_fold_un; [|exact H1]. auto.
Qed.
Lemma pe_pending_limit_un : forall o p p', unique_nonce p -> pe_pending_limit o p = Ok p' -> unique_nonce p'.
Proof.
  intros o p p' Hun H. unfold pe_pending_limit in H. destruct (c_gslots (conf p) <? pending_count p); [|inversion H; subst; auto].
  apply bind_ok in H. destruct H as ([[p1 cnt1] offs] & H1 & H2). apply spam_loop_un in H1; auto. cbn [fst] in H1.
  destruct ((c_gslots (conf p1) <? cnt1) && negb (match offs with [] => true | _ => false end)); [|inversion H2; subst; auto].
  apply bind_ok in H2. destruct H2 as (r2 & H3 & H4). inversion H4; subst. eapply minimum_loop_un; eauto.
Qed.
Lemma gq_loop_un : forall o addrs p drop p', unique_nonce p -> gq_loop o p addrs drop = Ok p' -> unique_nonce p'.
Proof.
  induction addrs as [|a rest IH]; intros p drop p' Hun H; cbn [gq_loop] in H; [inversion H; subst; auto|].
  destruct (0 <? drop); [|inversion H; subst; auto]. destruct (assoc a (queue p)) as [l|]; [|discriminate].
  destruct (tl_len l <=? drop); eapply IH; try exact H; apply remove_fold_un; auto.
Qed.
Lemma promote_executables_un : forall o p accs p', unique_nonce p -> promote_executables o p accs = Ok p' -> unique_nonce p'.
Proof.
  intros o p accs p' Hun H. unfold promote_executables in H.
  apply bind_ok in H. destruct H as (p1 & H1 & H). apply bind_ok in H. destruct H as (p2 & H2 & H3).
  assert (U1 : unique_nonce p1). { eapply (fold_res_inv _ _ unique_nonce); [|exact Hun|exact H1]. intros; eapply pe_account_un; eauto. }
  assert (U2 : unique_nonce p2) by (eapply pe_pending_limit_un; eauto).
  unfold pe_queue_limit in H3. destruct (c_gqueue (conf p2) <? queued_count p2); [|inversion H3; subst; auto]. eapply gq_loop_un; eauto.
Qed.

(* re-queue transactions that were just taken out of pending[a] *)
Lemma requeue_un : forall p a l' ex, unique_nonce p -> assoc a (pending p) = Some l' -> Forall (fun t => tfrom t = a) ex ->
  (forall x y, In x ex -> In y (items l') -> tnonce x <> tnonce y) ->
  unique_nonce (fold_left (fun q x => snd (enqueue_tx q x)) ex p) /\ pending (fold_left (fun q x => snd (enqueue_tx q x)) ex p) = pending p.
Proof.
  intros p a l' ex Hun P Hf D. apply enqueue_fold_un; auto.
  intros x Hx u (lp & Hlp & Hu). rewrite Forall_forall in Hf. rewrite (Hf x Hx) in Hlp. rewrite P in Hlp. inversion Hlp; subst.
  intros E. apply (D x u); auto.
Qed.

Lemma add_insert_un : forall p t local r p', unique_nonce p -> add_insert p t local = (r, p') -> unique_nonce p'.
Proof.
  intros p t local r p' Hun H. unfold add_insert in H.
  assert (Henq : (forall u, in_pending p (tfrom t) u -> tnonce u <> tnonce t) ->
     forall r p', match enqueue_tx p t with (inr e, p2) => (inr e, p2) | (inl rep, p2) => (inl rep, mark_local p2 (tfrom t) local) end = (r, p') -> unique_nonce p').
  { intros Hpre r0 p0 H0. destruct (enqueue_un p t Hun Hpre) as [U _]. destruct (enqueue_tx p t) as [[rep|e] p2]; cbn [snd] in U; inversion H0; subst; auto.
    unfold mark_local. destruct local; auto. }
  destruct (assoc (tfrom t) (pending p)) as [l|] eqn:P.
  - destruct (tl_overlaps l t) eqn:Ov.
    + destruct (tl_add l t (c_bump (conf p))) as [[ins old] l'] eqn:E. destruct ins; [|inversion H; subst; auto].
      inversion H; subst; clear H. apply tl_add_ok in E. destruct E as [Hit _].
      eapply un_padd with (p := p) (t := t) (a := tfrom t) (s := true) (l' := l'); [exact Hun|reflexivity| | | | ].
      * intros u Hu. unfold tl_overlaps, tl_get in Ov. destruct (find (fun x => tnonce x =? tnonce t) (items l)) as [x|] eqn:Fd; [|discriminate].
        apply find_some in Fd. destruct Fd as [Hin Hn]. destruct Hun as (_ & _ & HD).
        assert (Hxu : tnonce x <> tnonce u) by (apply (HD (tfrom t)); auto; exists l; auto). lia.
      * unfold list_of. rewrite P. exact Hit.
      * destruct old; reflexivity.
      * destruct old; reflexivity.
    + eapply Henq; eauto. intros u (lp & Hlp & Hu). rewrite P in Hlp. inversion Hlp; subst.
      unfold tl_overlaps, tl_get in Ov. destruct (find (fun x => tnonce x =? tnonce t) (items lp)) eqn:Fd; [discriminate|].
      pose proof (find_none _ _ Fd u Hu) as Hn. cbn in Hn. lia.
  - eapply Henq; eauto. intros u (lp & Hlp & Hu). rewrite P in Hlp. discriminate.
Qed.
Lemma add_un : forall o p t local r p', unique_nonce p -> add o p t local = (r, p') -> unique_nonce p'.
Proof.
  intros o p t local r p' Hun H. unfold add in H. destruct (assoc (thash t) (all p)); [inversion H; subst; auto|].
  destruct (validate_tx p t local); [inversion H; subst; auto|].
  match type of H with (if ?c then _ else _) = _ => destruct c end; [|eapply add_insert_un; eauto].
  destruct (priced_underpriced o (all p) (locals p) (pricedl p) t) as [u pr]. destruct u; [inversion H; subst; exact Hun|].
  match type of H with (let '(_, _) := ?d in _) = _ => destruct d as [drop pr1] end.
  eapply add_insert_un; [|exact H]. apply remove_fold_un. exact Hun.
Qed.
Lemma add_tx_un : forall o p t local e p', unique_nonce p -> add_tx o p t local = Ok (e, p') -> unique_nonce p'.
Proof.
  intros o p t local e p' Hun H. unfold add_tx in H. destruct (add o p t local) as [[rep|er] p1] eqn:A; pose proof (add_un _ _ _ _ _ _ Hun A) as U1.
  - destruct rep; [inversion H; subst; auto|]. apply bind_ok in H. destruct H as (p2 & H1 & H2). inversion H2; subst. eapply promote_executables_un; eauto.
  - inversion H; subst; auto.
Qed.
Lemma add_txs_locked_un : forall o p txs local r, unique_nonce p -> add_txs_locked o p txs local = Ok r -> unique_nonce (snd r).
Proof.
  intros o p txs local r Hun H. unfold add_txs_locked in H.
  assert (G : forall txs st, unique_nonce (snd st) -> unique_nonce (snd (fold_left (atl_step o local) txs st))).
  { induction txs0 as [|t txs0 IH]; intros st Hst; cbn [fold_left]; auto. apply IH.
    destruct st as [[errs dirty] q]. cbn [snd] in *. unfold atl_step. destruct (add o q t local) as [[rep|er] q1] eqn:A; cbn [snd]; eapply add_un; eauto. }
  specialize (G txs ([], [], p) Hun).
  destruct (fold_left (atl_step o local) txs ([], [], p)) as [[errs dirty] p1]. cbn [snd] in G.
  destruct dirty; [inversion H; subst; auto|]. apply bind_ok in H. destruct H as (p2 & H1 & H2). inversion H2; subst. cbn [snd].
  eapply promote_executables_un; eauto.
Qed.

Lemma demote_account_un : forall o p a p', unique_nonce p -> demote_account o p a = Ok p' -> unique_nonce p'.
Proof.
  intros o p a p' Hun H. unfold demote_account in H. destruct (assoc a (pending p)) as [l|] eqn:P; [|inversion H; subst; auto].
  destruct (tl_forward l (cur_nonce p a)) as [old l1] eqn:F.
  set (p1 := drop_all (set_pending p (assoc_set a l1 (pending p))) old) in *.
  destruct (drop_all_pq old (set_pending p (assoc_set a l1 (pending p)))) as [Pp1 Pq1]. fold p1 in Pp1, Pq1. cbn [pending queue set_pending] in Pp1, Pq1.
  assert (U1 : unique_nonce p1). { eapply un_pshrink with (p := p); eauto. apply (tl_forward_ok _ _ _ _ F). }
  assert (Q1 : assoc a (pending p1) = Some l1) by (rewrite Pp1; apply assoc_set_same).
  clearbody p1. destruct (tl_filter o l1 (cur_balance p1 a) (maxgas p1)) as [[drops invs] l2] eqn:Fi.
  pose proof (tl_filter_ok _ _ _ _ _ _ _ Fi) as Sf.
  set (p2 := drop_all (set_pending p1 (assoc_set a l2 (pending p1))) drops) in *.
  destruct (drop_all_pq drops (set_pending p1 (assoc_set a l2 (pending p1)))) as [Pp2 Pq2]. fold p2 in Pp2, Pq2. cbn [pending queue set_pending] in Pp2, Pq2.
  assert (U2 : unique_nonce p2) by (eapply un_pshrink with (p := p1); eauto).
  assert (Q2 : assoc a (pending p2) = Some l2) by (rewrite Pp2; apply assoc_set_same).
  destruct U1 as (HP1 & _ & _). destruct (HP1 _ _ Q1) as [Hs1 Hf1]. destruct (Sf Hs1) as (Hs2 & I2 & Iv & Dv).
  clearbody p2.
  destruct (requeue_un p2 a l2 invs U2 Q2) as [U3 P3]; auto.
  { rewrite Forall_forall in *. intros x Hx. apply Hf1. apply Iv. auto. }
  set (p3 := fold_left (fun q x => snd (enqueue_tx q x)) invs p2) in *. clearbody p3.
  assert (Q3 : assoc a (pending p3) = Some l2) by (rewrite P3; auto).
  apply bind_ok in H. destruct H as ([p4 l4] & H1 & H2).
  assert (U4 : unique_nonce p4).
  { destruct ((0 <? tl_len l2) && match tl_get l2 (cur_nonce p a) with None => true | Some _ => false end); [|inversion H1; subst; auto].
    destruct (tl_cap l2 0) as [[caps l3]|] eqn:C; [|discriminate]. inversion H1; subst; clear H1.
    pose proof (tl_cap_ok _ _ _ _ C) as Sc. destruct (Sc Hs2) as (_ & _ & Ic & Dc).
    set (pb := set_pending p3 (assoc_set a l4 (pending p3))).
    assert (Ub : unique_nonce pb) by (eapply un_pshrink with (p := p3); eauto; reflexivity).
    assert (Qb : assoc a (pending pb) = Some l4) by (unfold pb; cbn [pending set_pending]; apply assoc_set_same).
    apply (requeue_un pb a l4 caps Ub Qb); auto.
    rewrite Forall_forall in *. intros x Hx. apply Hf1. apply I2. apply Ic. auto. }
  inversion H2; subst. destruct (tl_empty l4); auto. eapply un_pdel with (p := p4); eauto; reflexivity.
Qed.
Lemma demote_unexecutables_un : forall o p p', unique_nonce p -> demote_unexecutables o p = Ok p' -> unique_nonce p'.
Proof.
  intros o p p' Hun H. unfold demote_unexecutables in H. eapply (fold_res_inv _ _ unique_nonce); [|exact Hun|exact H].
  intros; eapply demote_account_un; eauto.
Qed.
Lemma reset_un : forall o p c g ri p', unique_nonce p -> reset o p c g ri = Ok p' -> unique_nonce p'.
Proof.
  intros o p c g ri p' Hun H. unfold reset in H.
  assert (U0 : unique_nonce (set_head p c g)) by exact Hun.
  apply bind_ok in H. destruct H as (p1 & H1 & H). apply bind_ok in H. destruct H as (p2 & H2 & H). apply bind_ok in H. destruct H as (p3 & H3 & H4).
  assert (U1 : unique_nonce p1).
  { destruct ri; [inversion H1; subst; auto|]. apply bind_ok in H1. destruct H1 as (r & A & B). inversion B; subst. eapply add_txs_locked_un; eauto. }
  assert (U2 : unique_nonce p2) by (eapply demote_unexecutables_un; eauto).
  assert (U3 : unique_nonce p3).
  { eapply (fold_res_inv _ _ unique_nonce); [|exact U2|exact H3]. intros q a q' Hq Hf. cbv beta in Hf. destruct (assoc a (pending q)) as [tl|]; [|inversion Hf; subst; auto].
    destruct (rev (items tl)); [discriminate|]. inversion Hf; subst. exact Hq. }
  eapply promote_executables_un; eauto.
Qed.
Lemma set_gas_price_un : forall o p g, unique_nonce p -> unique_nonce (set_gas_price o p g).
Proof.
  intros o p g Hun. unfold set_gas_price. match goal with |- context [priced_cap ?a ?b ?c ?d ?e] => destruct (priced_cap a b c d e) as [drop pr] end.
  apply remove_fold_un. exact Hun.
Qed.
Lemma step_un : forall o p x p', unique_nonce p -> step o p x = Ok p' -> unique_nonce p'.
Proof.
  intros o p x p' Hun H. destruct x; cbn [step] in H.
  - apply bind_ok in H. destruct H as ([e q] & H1 & H2). inversion H2; subst. eapply add_tx_un; eauto.
  - apply bind_ok in H. destruct H as ([e q] & H1 & H2). inversion H2; subst. eapply add_tx_un; eauto.
  - inversion H; subst. apply set_gas_price_un; auto.
  - eapply reset_un; eauto.
Qed.
Lemma new_pool_un : forall c gp cur0 gas0, unique_nonce (new_pool c gp cur0 gas0).
Proof. intros. unfold unique_nonce, in_pending, in_queue, new_pool. cbn. repeat split; try discriminate. intros a t u (l & H & _). discriminate. Qed.
(* 2. unique_nonce after every history, under every oracle *)
Theorem unique_nonce_invariant : forall h p p', unique_nonce p -> run p h = Ok p' -> unique_nonce p'.
Proof.
  induction h as [|[o x] h IH]; intros p p' Hun H; cbn [run] in H; [inversion H; subst; auto|].
  apply bind_ok in H. destruct H as (p1 & H1 & H2). eapply IH; [|exact H2]. eapply step_un; eauto.
Qed.

(* ---------------------------------------------------------------- 3. replacement_needs_bump at the pool *)
Lemma enqueue_replace_bump : forall p t p', enqueue_tx p t = (inl true, p') ->
  exists old, in_queue p (tfrom t) old /\ tnonce old = tnonce t /\ bump_ok (c_bump (conf p)) old t.
Proof.
  intros p t p' H. unfold enqueue_tx in H.
  destruct (assoc (tfrom t) (queue p)) as [l|] eqn:Q.
  - destruct (tl_add l t (c_bump (conf p))) as [[ins old] l'] eqn:E. destruct ins; [|inversion H].
    destruct old as [o|]; [|inversion H]. apply tl_add_bump in E. destruct E as (E1 & E2 & E3).
    exists o. repeat split; auto; try apply E3. exists l; auto.
  - destruct (tl_add (new_txlist false) t (c_bump (conf p))) as [[ins old] l'] eqn:E. destruct ins; [|inversion H].
    destruct old as [o|]; [|inversion H]. apply tl_add_bump in E. destruct E as (_ & [] & _).
Qed.
Theorem replacement_needs_bump : forall p t local p', add_insert p t local = (inl true, p') ->
  exists old, (in_pending p (tfrom t) old \/ in_queue p (tfrom t) old) /\ tnonce old = tnonce t /\ bump_ok (c_bump (conf p)) old t.
Proof.
  intros p t local p' H. unfold add_insert in H.
  assert (Henq : match enqueue_tx p t with (inr e, p2) => (inr e, p2) | (inl rep, p2) => (inl rep, mark_local p2 (tfrom t) local) end = (inl true, p') ->
     exists old, (in_pending p (tfrom t) old \/ in_queue p (tfrom t) old) /\ tnonce old = tnonce t /\ bump_ok (c_bump (conf p)) old t).
  { intros H0. destruct (enqueue_tx p t) as [[rep|e] p2] eqn:E; inversion H0; subst.
    destruct (enqueue_replace_bump _ _ _ E) as (o & A & B & C). exists o. auto. }
  destruct (assoc (tfrom t) (pending p)) as [l|] eqn:P; auto.
  destruct (tl_overlaps l t); auto.
  destruct (tl_add l t (c_bump (conf p))) as [[ins old] l'] eqn:E. destruct ins; [|inversion H].
  destruct old as [o|]; [|inversion H]. apply tl_add_bump in E. destruct E as (E1 & E2 & E3).
  exists o. repeat split; auto; try apply E3. left. exists l; auto.
Qed.

(* ---------------------------------------------------------------- refutation witnesses (the code really does this) *)
Definition o0 : oracle := mkOracle [] [] [] [] [].
Definition cfg_tiny : cfg := mkCfg 2 4 2 4 10 false.
Definition mk (h from nonce price : Z) : tx := mkTx h from nonce price 21000 100 21000 110 true.

(* removeTx (directed history of the former finding removetx-leaks-all-index, fixed in /repo by
   "txpool removeTx re-queues invalidated successors also when the pending list becomes empty"):
   the price threshold is raised above the first pending transaction of an account; its successor is re-queued *)
Definition leak_history : list (oracle * op) :=
  [(o0, OpAddRemote (mk 1 0 0 5)); (o0, OpAddRemote (mk 2 0 1 100)); (o0, OpSetGasPrice 50)].
Lemma leak_history_requeues :
  exists p, run (new_pool cfg_tiny 1 [(0, (0, 100000000))] 1000000) leak_history = Ok p /\
            all_is_unionb p = true /\ pending p = [] /\
            map (fun kv => (fst kv, map thash (items (snd kv)))) (queue p) = [(0, [2])].
Proof. eexists. split; [vm_compute; reflexivity|]. vm_compute. repeat split; eauto. Qed.

(* reset: the account nonce goes back from 2 to 0 in a reorganisation; only the nonce-0 transaction is
   reinjected (the nonce-1 one is e.g. no longer affordable).  It is promoted into the old pending list
   [2,3] before demoteUnexecutables looks at it, and demote only checks for a gap in front: pending = [0,2,3] *)
Definition gap_history : list (oracle * op) :=
  [(o0, OpAddRemote (mk 1 0 2 50)); (o0, OpAddRemote (mk 2 0 3 60));
   (o0, OpReset [(0, (0, 100000000))] 1000000 [mk 3 0 0 70])].
Lemma pending_executable_refuted :
  exists p, run (new_pool cfg_tiny 1 [(0, (2, 100000000))] 1000000) gap_history = Ok p /\
            pending_executableb p = false /\
            exists l, assoc 0 (pending p) = Some l /\ map tnonce (items l) = [0; 2; 3] /\ cur_nonce p 0 = 0.
Proof. eexists. split; [vm_compute; reflexivity|]. vm_compute. repeat split; eauto. Qed.

(* non-vacuity: a history with a gap, a promotion, an accepted and a refused replacement runs to Ok and has content *)
Definition demo_history : list (oracle * op) :=
  [(o0, OpAddRemote (mk 1 0 0 50)); (o0, OpAddRemote (mk 2 0 2 60)); (o0, OpAddLocal (mk 3 1 0 70));
   (o0, OpAddRemote (mk 4 0 0 55)); (o0, OpAddRemote (mk 5 0 0 54)); (o0, OpAddRemote (mk 6 0 1 10));
   (o0, OpReset [(0, (1, 90000000)); (1, (0, 5))] 1000000 [])].
Lemma demo_runs :
  exists p, run (new_pool cfg_tiny 1 [(0, (0, 100000000)); (1, (0, 100000000))] 1000000) demo_history = Ok p /\
            map (fun kv => (fst kv, map thash (items (snd kv)))) (pending p) = [(0, [6; 2])] /\ pending_executableb p = true.
Proof. eexists. split; [vm_compute; reflexivity|]. vm_compute. auto. Qed.

(* ================================================================ all = pending ∪ queue as an invariant *)
Lemma all_exact_union : forall p, all_exact p -> all_is_union p.
Proof.
  intros p [[W1 W2] NO] h. split.
  - intros [t Ht]. exists t. split; [apply (NO _ _ Ht)|apply (W1 _ _ Ht)].
  - intros [t [Hl Hh]]. exists t. rewrite <- Hh. apply W2; auto.
Qed.

(* J p S: the structural invariant, all_wf, and every entry of pool.all is listed or one of the (in flight) S *)
Definition J (p : pool) (S : list tx) : Prop :=
  unique_nonce p /\ all_wf p /\ (forall t, assoc (thash t) (all p) = Some t -> listed p t \/ In t S).
Lemma J_exact : forall p, J p [] <-> unique_nonce p /\ all_exact p.
Proof.
  intros p. split.
  - intros (U & W & O). split; auto. split; auto. intros h t Ht. destruct W as [W1 W2]. pose proof (W1 _ _ Ht) as E. subst h.
    destruct (O _ Ht) as [L|[]]; auto.
  - intros (U & W & O). split; [|split]; auto. intros t Ht. left. eapply O; eauto.
Qed.
Lemma J_weaken : forall p S S', J p S -> incl S S' -> J p S'.
Proof. intros p S S' (U & W & O) I. split; [|split]; auto. intros t Ht. destruct (O t Ht); auto. Qed.
Lemma J_same : forall p q S, pending q = pending p -> queue q = queue p -> all q = all p -> J p S -> J q S.
Proof.
  intros p q S Hp Hq Ha (U & W & O). split; [eapply un_same; eauto|]. unfold all_wf, listed, in_pending, in_queue in *. rewrite Hp, Hq, Ha. auto.
Qed.

Lemma listed_keyed : forall p t, unique_nonce p -> listed p t ->
  (exists l, assoc (tfrom t) (pending p) = Some l /\ In t (items l)) \/ (exists l, assoc (tfrom t) (queue p) = Some l /\ In t (items l)).
Proof.
  intros p t (HP & HQ & _) [b [(l & Hl & Hin)|(l & Hl & Hin)]].
  - left. destruct (HP _ _ Hl) as [_ Hf]. rewrite Forall_forall in Hf. rewrite (Hf _ Hin). eauto.
  - right. destruct (HQ _ _ Hl) as [_ Hf]. rewrite Forall_forall in Hf. rewrite (Hf _ Hin). eauto.
Qed.

(* what leaves queue[a] / pending[a] is not listed any more *)
Lemma unlisted_after_qshrink : forall p q a l l' x, unique_nonce p -> assoc a (queue p) = Some l -> In x (items l) -> ~ In x (items l') ->
  pending q = pending p -> queue q = assoc_set a l' (queue p) -> unique_nonce q -> ~ listed q x.
Proof.
  intros p q a l l' x Hun Ha Hx Hnx Hp Hq Huq Hl. destruct Hun as (HP & HQ & HD).
  destruct (HQ _ _ Ha) as [_ Hf]. rewrite Forall_forall in Hf. pose proof (Hf _ Hx) as Hfrom.
  destruct (listed_keyed _ _ Huq Hl) as [(lp & Hlp & Hin)|(lq & Hlq & Hin)]; rewrite Hfrom in *.
  - rewrite Hp in Hlp. apply (HD a x x); [exists lp; auto|exists l; auto|reflexivity].
  - rewrite Hq, assoc_set_same in Hlq. inversion Hlq; subst. auto.
Qed.
Lemma unlisted_after_pshrink : forall p q a l l' x, unique_nonce p -> assoc a (pending p) = Some l -> In x (items l) -> ~ In x (items l') ->
  queue q = queue p -> pending q = assoc_set a l' (pending p) -> unique_nonce q -> ~ listed q x.
Proof.
  intros p q a l l' x Hun Ha Hx Hnx Hq Hp Huq Hl. destruct Hun as (HP & HQ & HD).
  destruct (HP _ _ Ha) as [_ Hf]. rewrite Forall_forall in Hf. pose proof (Hf _ Hx) as Hfrom.
  destruct (listed_keyed _ _ Huq Hl) as [(lp & Hlp & Hin)|(lq & Hlq & Hin)]; rewrite Hfrom in *.
  - rewrite Hp, assoc_set_same in Hlp. inversion Hlp; subst. auto.
  - rewrite Hq in Hlq. apply (HD a x x); [exists l; auto|exists lq; auto|reflexivity].
Qed.

(* shrink queue[a] / pending[a]: what is not kept (R) is in flight *)
Lemma J_qshrink : forall p q a l l' ex R S, J p S -> assoc a (queue p) = Some l -> split_ok (items l) (items l') ex ->
  (forall t, In t (items l) -> In t (items l') \/ In t R) ->
  pending q = pending p -> queue q = assoc_set a l' (queue p) -> all q = all p -> J q (S ++ R).
Proof.
  intros p q a l l' ex R S (U & [W1 W2] & O) Ha Hsp Hcov Hp Hq Hall.
  assert (Uq : unique_nonce q) by (eapply un_qshrink with (p := p); eauto).
  destruct U as (HP & HQ & HD). destruct (HQ _ _ Ha) as [Hs _]. destruct (Hsp Hs) as (_ & I & _ & _).
  assert (Lqp : forall t, listed q t -> listed p t).
  { intros t [b [(lp & Hlp & Hin)|(lq & Hlq & Hin)]].
    - exists b. left. exists lp. rewrite <- Hp. auto.
    - destruct (Z.eq_dec b a) as [->|Hne].
      + rewrite Hq, assoc_set_same in Hlq. inversion Hlq; subst. exists a. right. exists l. auto.
      + rewrite Hq, assoc_set_other in Hlq by auto. exists b. right. exists lq. auto. }
  split; [exact Uq|split; [split|]].
  - rewrite Hall. exact W1.
  - intros t Ht. rewrite Hall. apply W2. auto.
  - intros t Ht. rewrite Hall in Ht. destruct (O t Ht) as [[b [(lp & Hlp & Hin)|(lq & Hlq & Hin)]]|Hs']; [| |right; apply in_or_app; auto].
    + left. exists b. left. exists lp. rewrite Hp. auto.
    + destruct (Z.eq_dec b a) as [->|Hne].
      * rewrite Ha in Hlq. inversion Hlq; subst. destruct (Hcov _ Hin) as [H1|H1]; [|right; apply in_or_app; auto].
        left. exists a. right. exists l'. rewrite Hq, assoc_set_same. auto.
      * left. exists b. right. exists lq. rewrite Hq, assoc_set_other by auto. auto.
Qed.
Lemma J_pshrink : forall p q a l l' ex R S, J p S -> assoc a (pending p) = Some l -> split_ok (items l) (items l') ex ->
  (forall t, In t (items l) -> In t (items l') \/ In t R) ->
  queue q = queue p -> pending q = assoc_set a l' (pending p) -> all q = all p -> J q (S ++ R).
Proof.
  intros p q a l l' ex R S (U & [W1 W2] & O) Ha Hsp Hcov Hq Hp Hall.
  assert (Uq : unique_nonce q) by (eapply un_pshrink with (p := p); eauto).
  destruct U as (HP & HQ & HD). destruct (HP _ _ Ha) as [Hs _]. destruct (Hsp Hs) as (_ & I & _ & _).
  assert (Lqp : forall t, listed q t -> listed p t).
  { intros t [b [(lp & Hlp & Hin)|(lq & Hlq & Hin)]].
    - destruct (Z.eq_dec b a) as [->|Hne].
      + rewrite Hp, assoc_set_same in Hlp. inversion Hlp; subst. exists a. left. exists l. auto.
      + rewrite Hp, assoc_set_other in Hlp by auto. exists b. left. exists lp. auto.
    - exists b. right. exists lq. rewrite <- Hq. auto. }
  split; [exact Uq|split; [split|]].
  - rewrite Hall. exact W1.
  - intros t Ht. rewrite Hall. apply W2. auto.
  - intros t Ht. rewrite Hall in Ht. destruct (O t Ht) as [[b [(lp & Hlp & Hin)|(lq & Hlq & Hin)]]|Hs']; [| |right; apply in_or_app; auto].
    + destruct (Z.eq_dec b a) as [->|Hne].
      * rewrite Ha in Hlp. inversion Hlp; subst. destruct (Hcov _ Hin) as [H1|H1]; [|right; apply in_or_app; auto].
        left. exists a. left. exists l'. rewrite Hp, assoc_set_same. auto.
      * left. exists b. left. exists lp. rewrite Hp, assoc_set_other by auto. auto.
    + left. exists b. right. exists lq. rewrite Hq. auto.
Qed.
(* delete an empty list entry *)
Lemma J_qdel : forall p q a S, J p S -> (forall l, assoc a (queue p) = Some l -> items l = []) ->
  pending q = pending p -> queue q = assoc_del a (queue p) -> all q = all p -> J q S.
Proof.
  intros p q a S (U & [W1 W2] & O) He Hp Hq Hall.
  assert (Lpq : forall t, listed p t -> listed q t).
  { intros t [b [(lp & Hlp & Hin)|(lq & Hlq & Hin)]].
    - exists b. left. exists lp. rewrite Hp. auto.
    - destruct (Z.eq_dec b a) as [->|Hne]; [rewrite (He _ Hlq) in Hin; destruct Hin|].
      exists b. right. exists lq. rewrite Hq, assoc_del_other by auto. auto. }
  assert (Lqp : forall t, listed q t -> listed p t).
  { intros t [b [(lp & Hlp & Hin)|(lq & Hlq & Hin)]].
    - exists b. left. exists lp. rewrite <- Hp. auto.
    - destruct (Z.eq_dec b a) as [->|Hne]; [rewrite Hq, assoc_del_same in Hlq; discriminate|].
      rewrite Hq, assoc_del_other in Hlq by auto. exists b. right. exists lq. auto. }
  split; [eapply un_qdel; eauto|split; [split|]].
  - rewrite Hall. exact W1.
  - intros t Ht. rewrite Hall. auto.
  - intros t Ht. rewrite Hall in Ht. destruct (O t Ht); auto.
Qed.
Lemma J_pdel : forall p q a S, J p S -> (forall l, assoc a (pending p) = Some l -> items l = []) ->
  queue q = queue p -> pending q = assoc_del a (pending p) -> all q = all p -> J q S.
Proof.
  intros p q a S (U & [W1 W2] & O) He Hq Hp Hall.
  assert (Lpq : forall t, listed p t -> listed q t).
  { intros t [b [(lp & Hlp & Hin)|(lq & Hlq & Hin)]].
    - destruct (Z.eq_dec b a) as [->|Hne]; [rewrite (He _ Hlp) in Hin; destruct Hin|].
      exists b. left. exists lp. rewrite Hp, assoc_del_other by auto. auto.
    - exists b. right. exists lq. rewrite Hq. auto. }
  assert (Lqp : forall t, listed q t -> listed p t).
  { intros t [b [(lp & Hlp & Hin)|(lq & Hlq & Hin)]].
    - destruct (Z.eq_dec b a) as [->|Hne]; [rewrite Hp, assoc_del_same in Hlp; discriminate|].
      rewrite Hp, assoc_del_other in Hlp by auto. exists b. left. exists lp. auto.
    - exists b. right. exists lq. rewrite <- Hq. auto. }
  split; [eapply un_pdel; eauto|split; [split|]].
  - rewrite Hall. exact W1.
  - intros t Ht. rewrite Hall. auto.
  - intros t Ht. rewrite Hall in Ht. destruct (O t Ht); auto.
Qed.

(* delete(pool.all, hash) of in-flight transactions *)
Lemma drop_all_all : forall D p h, assoc h (all (drop_all p D)) = if existsb (fun d => thash d =? h) D then None else assoc h (all p).
Proof.
  unfold drop_all. induction D as [|d D IH]; intros p h; cbn [fold_left existsb]; auto.
  rewrite IH. cbn [all all_drop set_all set_priced]. destruct (existsb (fun d0 => thash d0 =? h) D); [rewrite orb_true_r; auto|].
  rewrite orb_false_r. destruct (thash d =? h) eqn:E.
  - assert (h = thash d) by lia. subst. apply assoc_del_same.
  - apply assoc_del_other. lia.
Qed.
Lemma J_dropall : forall p D S S', J p S ->
  (forall x, In x D -> assoc (thash x) (all p) = Some x /\ ~ listed p x) ->
  (forall t, In t S -> In t S' \/ In t D) -> J (drop_all p D) S'.
Proof.
  intros p D S S' (U & [W1 W2] & O) HD HS. destruct (drop_all_pq D p) as [Pp Pq].
  assert (Ll : forall t, listed (drop_all p D) t <-> listed p t).
  { intros t. unfold listed, in_pending, in_queue. rewrite Pp, Pq. tauto. }
  split; [eapply un_same; eauto|split; [split|]].
  - intros h t Ht. rewrite drop_all_all in Ht. destruct (existsb _ D); [discriminate|]. eauto.
  - intros t Ht. apply Ll in Ht. rewrite drop_all_all. destruct (existsb (fun d => thash d =? thash t) D) eqn:E; auto.
    apply existsb_exists in E. destruct E as (d & Hd & Hh). destruct (HD _ Hd) as [A B].
    assert (thash d = thash t) by lia. rewrite H in A. rewrite (W2 _ Ht) in A. inversion A; subst. contradiction.
  - intros t Ht. rewrite drop_all_all in Ht. destruct (existsb (fun d => thash d =? thash t) D) eqn:E; [discriminate|].
    destruct (O t Ht) as [L|Hs]; [left; apply Ll; auto|]. destruct (HS _ Hs) as [H1|H1]; auto.
    exfalso. assert (existsb (fun d => thash d =? thash t) D = true); [|congruence].
    apply existsb_exists. exists t. split; auto. lia.
Qed.

Lemma ins_in_conv : forall x l u, In u l -> tnonce u <> tnonce x -> In u (ins_tx x l).
Proof.
  induction l as [|w l IH]; intros u Hu Hn; [destruct Hu|]. cbn [ins_tx].
  destruct (tnonce x <? tnonce w); [right; auto|]. destruct (tnonce x =? tnonce w) eqn:E.
  - destruct Hu as [->|Hu]; [lia|right; auto].
  - destruct Hu as [->|Hu]; [left; auto|right; auto].
Qed.
Lemma ins_in_self : forall x l, In x (ins_tx x l).
Proof. induction l as [|w l IH]; cbn [ins_tx]; [left; auto|]. destruct (tnonce x <? tnonce w); [left; auto|]. destruct (tnonce x =? tnonce w); [left; auto|right; auto]. Qed.
Lemma tl_get_some : forall l n o, tl_get l n = Some o -> In o (items l) /\ tnonce o = n.
Proof. intros l n o H. unfold tl_get in H. apply find_some in H. destruct H. split; auto. lia. Qed.
Lemma tl_get_none : forall l n u, tl_get l n = None -> In u (items l) -> tnonce u <> n.
Proof. intros l n u H Hu. unfold tl_get in H. pose proof (find_none _ _ H u Hu) as E. cbn in E. lia. Qed.

(* insert x into queue[a] (tl_add accepted it): x becomes listed, the same-nonce entry it replaces (if any) leaves
   the list and pool.all.  x must be new to the lists and its hash must not be that of a listed transaction. *)
Lemma J_qins : forall p q x s l' S, J p S -> (forall u, in_pending p (tfrom x) u -> tnonce u <> tnonce x) ->
  (forall u, listed p u -> thash u <> thash x) ->
  items l' = ins_tx x (items (list_of (queue p) (tfrom x) s)) ->
  pending q = pending p -> queue q = assoc_set (tfrom x) l' (queue p) ->
  (forall h, assoc h (all q) = assoc h (assoc_set (thash x) x (match tl_get (list_of (queue p) (tfrom x) s) (tnonce x) with Some o => assoc_del (thash o) (all p) | None => all p end))) ->
  listed q x /\ J q S /\ (forall u, listed q u -> u = x \/ listed p u) /\
  (forall r, assoc (thash r) (all p) = Some r -> ~ listed p r -> thash r <> thash x -> assoc (thash r) (all q) = Some r).
Proof.
  intros p q x s l' S (U & [W1 W2] & O) Hnp Hfr Hit Hp Hq Hall.
  assert (Uq : unique_nonce q) by (eapply un_qadd with (p := p); eauto).
  set (a := tfrom x) in *. set (l0 := list_of (queue p) a s) in *.
  destruct (list_of_ok p a s U) as [[Ls0 Lf0] _]. fold l0 in Ls0, Lf0.
  assert (Hl0 : forall u, In u (items l0) -> in_queue p a u).
  { intros u Hu. unfold l0, list_of in Hu. destruct (assoc a (queue p)) as [lq|] eqn:E; [exists lq; auto|destruct Hu]. }
  assert (Hl0' : forall u, in_queue p a u -> In u (items l0)).
  { intros u (lq & Hlq & Hu). unfold l0, list_of. rewrite Hlq. auto. }
  (* listed in q *)
  assert (Lq1 : forall t, listed q t -> t = x \/ (listed p t /\ ~ (In t (items l0) /\ tnonce t = tnonce x))).
  { intros t [b [(lp & Hlp & Hin)|(lq & Hlq & Hin)]].
    - right. split; [exists b; left; exists lp; rewrite <- Hp; auto|]. intros [H1 H2].
      destruct U as (HP & HQ & HD). rewrite Hp in Hlp. destruct (HP _ _ Hlp) as [_ Hf]. rewrite Forall_forall in Hf.
      rewrite Forall_forall in Lf0. assert (b = a) by (rewrite <- (Hf _ Hin), (Lf0 _ H1); auto). subst b.
      apply (Hnp t); auto. exists lp; auto.
    - destruct (Z.eq_dec b a) as [->|Hne].
      + rewrite Hq, assoc_set_same in Hlq. inversion Hlq; subst. rewrite Hit in Hin. apply ins_in in Hin; auto.
        destruct Hin as [->|[H1 H2]]; auto. right. split; [exists a; right; apply Hl0; auto|]. intros [_ H3]. auto.
      + rewrite Hq, assoc_set_other in Hlq by auto. right. split; [exists b; right; exists lq; auto|]. intros [H1 H2].
        destruct U as (HP & HQ & HD). destruct (HQ _ _ Hlq) as [_ Hf]. rewrite Forall_forall in Hf, Lf0.
        apply Hne. rewrite <- (Hf _ Hin), (Lf0 _ H1); auto. }
  assert (Lq2 : forall t, listed p t -> ~ (In t (items l0) /\ tnonce t = tnonce x) -> listed q t).
  { intros t [b [(lp & Hlp & Hin)|(lq & Hlq & Hin)]] Hno.
    - exists b. left. exists lp. rewrite Hp. auto.
    - destruct (Z.eq_dec b a) as [->|Hne].
      + exists a. right. exists l'. rewrite Hq, assoc_set_same. split; auto. rewrite Hit. apply ins_in_conv.
        * apply Hl0'. exists lq; auto.
        * intros E. apply Hno. split; auto. apply Hl0'. exists lq; auto.
      + exists b. right. exists lq. rewrite Hq, assoc_set_other by auto. auto. }
  assert (Lqx : listed q x).
  { exists a. right. exists l'. rewrite Hq, assoc_set_same. split; auto. rewrite Hit. apply ins_in_self. }
  (* pool.all in q *)
  assert (Aq : forall h, h <> thash x -> assoc h (all q) =
                 match tl_get l0 (tnonce x) with Some o => if h =? thash o then None else assoc h (all p) | None => assoc h (all p) end).
  { intros h Hne. rewrite Hall, assoc_set_other by auto. destruct (tl_get l0 (tnonce x)) as [o|]; auto.
    destruct (h =? thash o) eqn:E; [assert (h = thash o) by lia; subst; apply assoc_del_same|apply assoc_del_other; lia]. }
  assert (Aqx : assoc (thash x) (all q) = Some x) by (rewrite Hall; apply assoc_set_same).
  split; [exact Lqx|]. split; [|split].
  2:{ intros u Hu. destruct (Lq1 _ Hu) as [->|[L _]]; auto. }
  2:{ intros r Hr Hnl Hne. rewrite Aq by auto. destruct (tl_get l0 (tnonce x)) as [o|] eqn:G; auto.
      destruct (thash r =? thash o) eqn:E; auto. exfalso. apply tl_get_some in G. destruct G as [Go Gn].
      assert (Lo : listed p o) by (exists a; right; apply Hl0; auto). pose proof (W2 _ Lo) as A2.
      assert (thash r = thash o) by lia. rewrite H in Hr. assert (r = o) by congruence. subst. auto. }
  split; [exact Uq|split; [split|]].
  - intros h t Ht. destruct (Z.eq_dec h (thash x)) as [->|Hne]; [rewrite Aqx in Ht; inversion Ht; auto|].
    rewrite Aq in Ht by auto. destruct (tl_get l0 (tnonce x)) as [o|]; [destruct (h =? thash o); [discriminate|]|]; eauto.
  - intros t Ht. destruct (Lq1 _ Ht) as [->|[Lp Hno]]; auto.
    rewrite Aq by (apply Hfr; auto). destruct (tl_get l0 (tnonce x)) as [o|] eqn:G; [|apply W2; auto].
    destruct (thash t =? thash o) eqn:E; [|apply W2; auto]. exfalso.
    apply tl_get_some in G. destruct G as [Go Gn]. assert (Lo : listed p o) by (exists a; right; apply Hl0; auto).
    assert (t = o). { pose proof (W2 _ Lp) as A1. pose proof (W2 _ Lo) as A2. assert (thash t = thash o) by lia. rewrite H in A1. congruence. }
    subst. apply Hno. auto.
  - intros t Ht. destruct (Z.eq_dec (thash t) (thash x)) as [E|Hne]; [rewrite E, Aqx in Ht; inversion Ht; subst; auto|].
    rewrite Aq in Ht by auto. destruct (tl_get l0 (tnonce x)) as [o|] eqn:G.
    + destruct (thash t =? thash o) eqn:E; [discriminate|]. destruct (O t Ht) as [Lp|Hs]; auto. left. apply Lq2; auto.
      intros [H1 H2]. apply tl_get_some in G. destruct G as [Go Gn].
      assert (t = o) by (eapply ns_unique; eauto; lia). subst. lia.
    + destruct (O t Ht) as [Lp|Hs]; auto. left. apply Lq2; auto. intros [H1 H2]. apply (tl_get_none _ _ _ G H1). auto.
Qed.

Lemma J_pins : forall p q x s l' S, J p S -> (forall u, in_queue p (tfrom x) u -> tnonce u <> tnonce x) ->
  (forall u, listed p u -> thash u <> thash x) ->
  items l' = ins_tx x (items (list_of (pending p) (tfrom x) s)) ->
  queue q = queue p -> pending q = assoc_set (tfrom x) l' (pending p) ->
  (forall h, assoc h (all q) = assoc h (assoc_set (thash x) x (match tl_get (list_of (pending p) (tfrom x) s) (tnonce x) with Some o => assoc_del (thash o) (all p) | None => all p end))) ->
  listed q x /\ J q S /\ (forall u, listed q u -> u = x \/ listed p u) /\
  (forall r, assoc (thash r) (all p) = Some r -> ~ listed p r -> thash r <> thash x -> assoc (thash r) (all q) = Some r).
Proof.
  intros p q x s l' S (U & [W1 W2] & O) Hnp Hfr Hit Hq Hp Hall.
  assert (Uq : unique_nonce q) by (eapply un_padd with (p := p) (t := x); eauto).
  set (a := tfrom x) in *. set (l0 := list_of (pending p) a s) in *.
  destruct (list_of_ok p a s U) as [_ [Ls0 Lf0]]. fold l0 in Ls0, Lf0.
  assert (Hl0 : forall u, In u (items l0) -> in_pending p a u).
  { intros u Hu. unfold l0, list_of in Hu. destruct (assoc a (pending p)) as [lq|] eqn:E; [exists lq; auto|destruct Hu]. }
  assert (Hl0' : forall u, in_pending p a u -> In u (items l0)).
  { intros u (lq & Hlq & Hu). unfold l0, list_of. rewrite Hlq. auto. }
  assert (Lq1 : forall t, listed q t -> t = x \/ (listed p t /\ ~ (In t (items l0) /\ tnonce t = tnonce x))).
  { intros t [b [(lp & Hlp & Hin)|(lq & Hlq & Hin)]].
    - destruct (Z.eq_dec b a) as [->|Hne].
      + rewrite Hp, assoc_set_same in Hlp. inversion Hlp; subst. rewrite Hit in Hin. apply ins_in in Hin; auto.
        destruct Hin as [->|[H1 H2]]; auto. right. split; [exists a; left; apply Hl0; auto|]. intros [_ H3]. auto.
      + rewrite Hp, assoc_set_other in Hlp by auto. right. split; [exists b; left; exists lp; auto|]. intros [H1 H2].
        destruct U as (HP & HQ & HD). destruct (HP _ _ Hlp) as [_ Hf]. rewrite Forall_forall in Hf, Lf0.
        apply Hne. rewrite <- (Hf _ Hin), (Lf0 _ H1); auto.
    - right. split; [exists b; right; exists lq; rewrite <- Hq; auto|]. intros [H1 H2].
      destruct U as (HP & HQ & HD). rewrite Hq in Hlq. destruct (HQ _ _ Hlq) as [_ Hf]. rewrite Forall_forall in Hf.
      rewrite Forall_forall in Lf0. assert (b = a) by (rewrite <- (Hf _ Hin), (Lf0 _ H1); auto). subst b.
      apply (Hnp t); auto. exists lq; auto. }
  assert (Lq2 : forall t, listed p t -> ~ (In t (items l0) /\ tnonce t = tnonce x) -> listed q t).
  { intros t [b [(lp & Hlp & Hin)|(lq & Hlq & Hin)]] Hno.
    - destruct (Z.eq_dec b a) as [->|Hne].
      + exists a. left. exists l'. rewrite Hp, assoc_set_same. split; auto. rewrite Hit. apply ins_in_conv.
        * apply Hl0'. exists lp; auto.
        * intros E. apply Hno. split; auto. apply Hl0'. exists lp; auto.
      + exists b. left. exists lp. rewrite Hp, assoc_set_other by auto. auto.
    - exists b. right. exists lq. rewrite Hq. auto. }
  assert (Lqx : listed q x).
  { exists a. left. exists l'. rewrite Hp, assoc_set_same. split; auto. rewrite Hit. apply ins_in_self. }
  assert (Aq : forall h, h <> thash x -> assoc h (all q) =
                 match tl_get l0 (tnonce x) with Some o => if h =? thash o then None else assoc h (all p) | None => assoc h (all p) end).
  { intros h Hne. rewrite Hall, assoc_set_other by auto. destruct (tl_get l0 (tnonce x)) as [o|]; auto.
    destruct (h =? thash o) eqn:E; [assert (h = thash o) by lia; subst; apply assoc_del_same|apply assoc_del_other; lia]. }
  assert (Aqx : assoc (thash x) (all q) = Some x) by (rewrite Hall; apply assoc_set_same).
  split; [exact Lqx|]. split; [|split].
  2:{ intros u Hu. destruct (Lq1 _ Hu) as [->|[L _]]; auto. }
  2:{ intros r Hr Hnl Hne. rewrite Aq by auto. destruct (tl_get l0 (tnonce x)) as [o|] eqn:G; auto.
      destruct (thash r =? thash o) eqn:E; auto. exfalso. apply tl_get_some in G. destruct G as [Go Gn].
      assert (Lo : listed p o) by (exists a; left; apply Hl0; auto). pose proof (W2 _ Lo) as A2.
      assert (thash r = thash o) by lia. rewrite H in Hr. assert (r = o) by congruence. subst. auto. }
  split; [exact Uq|split; [split|]].
  - intros h t Ht. destruct (Z.eq_dec h (thash x)) as [->|Hne]; [rewrite Aqx in Ht; inversion Ht; auto|].
    rewrite Aq in Ht by auto. destruct (tl_get l0 (tnonce x)) as [o|]; [destruct (h =? thash o); [discriminate|]|]; eauto.
  - intros t Ht. destruct (Lq1 _ Ht) as [->|[Lp Hno]]; auto.
    rewrite Aq by (apply Hfr; auto). destruct (tl_get l0 (tnonce x)) as [o|] eqn:G; [|apply W2; auto].
    destruct (thash t =? thash o) eqn:E; [|apply W2; auto]. exfalso.
    apply tl_get_some in G. destruct G as [Go Gn]. assert (Lo : listed p o) by (exists a; left; apply Hl0; auto).
    assert (t = o). { pose proof (W2 _ Lp) as A1. pose proof (W2 _ Lo) as A2. assert (thash t = thash o) by lia. rewrite H in A1. congruence. }
    subst. apply Hno. auto.
  - intros t Ht. destruct (Z.eq_dec (thash t) (thash x)) as [E|Hne]; [rewrite E, Aqx in Ht; inversion Ht; subst; auto|].
    rewrite Aq in Ht by auto. destruct (tl_get l0 (tnonce x)) as [o|] eqn:G.
    + destruct (thash t =? thash o) eqn:E; [discriminate|]. destruct (O t Ht) as [Lp|Hs]; auto. left. apply Lq2; auto.
      intros [H1 H2]. apply tl_get_some in G. destruct G as [Go Gn].
      assert (t = o) by (eapply ns_unique; eauto; lia). subst. lia.
    + destruct (O t Ht) as [Lp|Hs]; auto. left. apply Lq2; auto. intros [H1 H2]. apply (tl_get_none _ _ _ G H1). auto.
Qed.

Lemma assoc_set_id : forall A k (v : A) m h, assoc k m = Some v -> assoc h (assoc_set k v m) = assoc h m.
Proof. intros A k v m h H. destruct (Z.eq_dec h k) as [->|Hne]; [rewrite assoc_set_same; auto|apply assoc_set_other; auto]. Qed.
Lemma J_prune : forall p S S', J p S -> (forall t, In t S -> In t S' \/ listed p t) -> J p S'.
Proof. intros p S S' (U & W & O) H. split; [|split]; auto. intros t Ht. destruct (O t Ht) as [L|Hs]; auto. destruct (H _ Hs); auto. Qed.
Lemma fresh_from_none : forall p x, all_wf p -> assoc (thash x) (all p) = None -> forall u, listed p u -> thash u <> thash x.
Proof. intros p x [W1 W2] Hn u Hu E. pose proof (W2 _ Hu) as A. rewrite E, Hn in A. discriminate. Qed.
Lemma fresh_from_inflight : forall p x, all_wf p -> assoc (thash x) (all p) = Some x -> ~ listed p x -> forall u, listed p u -> thash u <> thash x.
Proof. intros p x [W1 W2] Hx Hnl u Hu E. pose proof (W2 _ Hu) as A. rewrite E, Hx in A. inversion A; subst. auto. Qed.

Lemma enqueue_J : forall p x S, J p S -> (forall u, in_pending p (tfrom x) u -> tnonce u <> tnonce x) ->
  (forall u, listed p u -> thash u <> thash x) ->
  J (snd (enqueue_tx p x)) S /\ pending (snd (enqueue_tx p x)) = pending p /\
  (forall u, listed (snd (enqueue_tx p x)) u -> u = x \/ listed p u) /\
  (forall r, assoc (thash r) (all p) = Some r -> ~ listed p r -> thash r <> thash x -> assoc (thash r) (all (snd (enqueue_tx p x))) = Some r) /\
  ((forall u, in_queue p (tfrom x) u -> tnonce u <> tnonce x) -> listed (snd (enqueue_tx p x)) x) /\
  (forall b, fst (enqueue_tx p x) = inl b -> listed (snd (enqueue_tx p x)) x).
Proof.
  intros p x S HJ Hnp Hfr. unfold enqueue_tx.
  change (match assoc (tfrom x) (queue p) with Some l => l | None => new_txlist false end) with (list_of (queue p) (tfrom x) false).
  destruct (tl_add (list_of (queue p) (tfrom x) false) x (c_bump (conf p))) as [[ins old] l'] eqn:E. destruct ins.
  - pose proof (tl_add_ok _ _ _ _ _ E) as [Hit Hold]. cbn [snd fst].
    match goal with |- J ?Q _ /\ _ => set (q := Q) end.
    destruct (J_qins p q x false l' S HJ Hnp Hfr Hit) as (Lx & Jq & F1 & F2).
    + subst q. destruct old; reflexivity.
    + subst q. destruct old; reflexivity.
    + intros h. subst q. subst old. destruct (tl_get (list_of (queue p) (tfrom x) false) (tnonce x)); reflexivity.
    + split; [exact Jq|]. split; [subst q; destruct old; reflexivity|]. split; [exact F1|]. split; [exact F2|]. split; intros; exact Lx.
  - pose proof (tl_add_reject _ _ _ _ _ E) as ->. cbn [snd fst]. unfold list_of in *.
    destruct (assoc (tfrom x) (queue p)) as [l|] eqn:Q; [|exfalso; eapply tl_add_empty_accepts; eauto].
    set (q := set_queue p (assoc_set (tfrom x) l (queue p))).
    assert (Lq : forall u, listed q u <-> listed p u).
    { intros u. unfold listed, in_pending, in_queue, q. cbn [pending queue set_queue].
      split; intros [b H]; exists b; destruct H as [H|(lq & Hlq & Hin)]; auto; right; exists lq; split; auto;
        [rewrite assoc_set_id in Hlq; auto|rewrite assoc_set_id; auto]. }
    split; [|split; [reflexivity|split; [|split; [|split]]]].
    + apply J_weaken with (S := S ++ []); [|rewrite app_nil_r; apply incl_refl].
      eapply J_qshrink with (p := p) (ex := []) (R := []); eauto; try reflexivity. apply split_ok_nil; auto. apply incl_refl.
    + intros u Hu. right. apply Lq; auto.
    + intros r Hr _ _. exact Hr.
    + intros Hnq. exfalso. unfold tl_add in E. destruct (tl_get l (tnonce x)) as [o|] eqn:G; [|discriminate].
      apply tl_get_some in G. destruct G as [Go Gn]. apply (Hnq o); auto. exists l; auto.
    + intros b Hb. discriminate.
Qed.

From Coq Require Import Permutation.
Lemma ins_by_perm : forall A (key : A -> Z) x l, Permutation (ins_by key x l) (x :: l).
Proof.
  induction l as [|y l IH]; cbn [ins_by]; auto. destruct (key y <=? key x); auto.
  eapply perm_trans; [apply perm_skip; exact IH|apply perm_swap].
Qed.
Lemma sort_by_perm : forall A (key : A -> Z) l, Permutation (sort_by key l) l.
Proof.
  intros A key l. unfold sort_by.
  assert (G : forall l acc, Permutation (fold_left (fun acc x => ins_by key x acc) l acc) (l ++ acc)).
  { induction l0 as [|y l0 IH]; intros acc; cbn [fold_left app]; auto.
    eapply perm_trans; [apply IH|]. eapply perm_trans; [apply Permutation_app_head; apply ins_by_perm|]. apply Permutation_sym, Permutation_middle. }
  specialize (G l []). rewrite app_nil_r in G. exact G.
Qed.
Lemma ns_nodup : forall l, nonce_sorted l -> NoDup (map tnonce l).
Proof.
  unfold nonce_sorted. induction l as [|x l IH]; intros Hs; cbn [map]; constructor; inversion Hs as [|? ? Hs' Hall]; subst; auto.
  intros Hin. apply in_map_iff in Hin. destruct Hin as (y & Hy & Hin). rewrite Forall_forall in Hall. specialize (Hall _ Hin). lia.
Qed.
Lemma nodup_order : forall o l, NoDup (map tnonce l) -> NoDup (map tnonce (order_txs o l)).
Proof. intros o l H. eapply Permutation_NoDup; [|exact H]. apply Permutation_map, Permutation_sym, sort_by_perm. Qed.

(* re-queue transactions in flight (taken out of pending[a]); afterwards they are listed again *)
Lemma requeue_J : forall ex p a S0, J p (S0 ++ ex) -> Forall (fun t => tfrom t = a) ex -> NoDup (map tnonce ex) ->
  (forall x, In x ex -> assoc (thash x) (all p) = Some x /\ ~ listed p x) ->
  (forall x u, In x ex -> in_pending p a u -> tnonce u <> tnonce x) ->
  (forall x u, In x ex -> in_queue p a u -> tnonce u <> tnonce x) ->
  J (fold_left (fun q x => snd (enqueue_tx q x)) ex p) S0 /\ pending (fold_left (fun q x => snd (enqueue_tx q x)) ex p) = pending p /\
  (forall u, listed (fold_left (fun q x => snd (enqueue_tx q x)) ex p) u -> In u ex \/ listed p u).
Proof.
  induction ex as [|x ex IH]; intros p a S0 HJ Hf Hnd Hin Hnp Hnq; cbn [fold_left].
  - rewrite app_nil_r in HJ. auto.
  - inversion Hf as [|? ? Hfx Hf']; subst. cbn [map] in Hnd. inversion Hnd as [|? ? Hnx Hnd']; subst.
    destruct (Hin x (or_introl eq_refl)) as [Ax Lx]. pose proof HJ as (U & W & _).
    destruct (enqueue_J p x (S0 ++ x :: ex) HJ) as (Jq & Pq & F1 & F2 & F3 & _).
    { intros u Hu. apply (Hnp x u); auto. left; auto. }
    { apply fresh_from_inflight; auto. }
    set (q := snd (enqueue_tx p x)) in *.
    assert (Lqx : listed q x) by (apply F3; intros u Hu; apply (Hnq x u); auto; left; auto).
    assert (Dxy : forall y, In y ex -> tnonce y <> tnonce x).
    { intros y Hy E. apply Hnx. rewrite <- E. apply in_map. auto. }
    destruct (IH q (tfrom x) S0) as (J2 & P2 & M2); auto.
    + eapply J_prune; [exact Jq|]. intros t Ht. apply in_app_or in Ht. destruct Ht as [Ht|[->|Ht]]; auto; left; apply in_or_app; auto.
    + intros y Hy. destruct (Hin y (or_intror Hy)) as [Ay Ly]. split.
      * apply F2; auto. intros E. rewrite E in Ay. assert (y = x) by congruence. subst. apply (Dxy x); auto.
      * intros L. destruct (F1 _ L) as [->|L']; auto. apply (Dxy x); auto.
    + intros y u Hy (lp & Hlp & Hu). rewrite Pq in Hlp. apply (Hnp y u); [right; auto|exists lp; auto].
    + intros y u Hy Hu. assert (Lu : listed q u) by (exists (tfrom x); right; auto).
      destruct (F1 _ Lu) as [->|Lp]; [intros E; apply (Dxy y); auto|].
      destruct Jq as (Uq & _ & _). destruct Hu as (lq & Hlq & Hu).
      destruct (listed_keyed _ _ U Lp) as [(l1 & Hl1 & Hi1)|(l1 & Hl1 & Hi1)].
      * destruct Uq as (_ & HQq & HDq). destruct (HQq _ _ Hlq) as [_ Hfq]. rewrite Forall_forall in Hfq. rewrite (Hfq _ Hu) in Hl1.
        exfalso. apply (HDq (tfrom x) u u); [exists l1; rewrite Pq; auto|exists lq; auto|reflexivity].
      * destruct Uq as (_ & HQq & _). destruct (HQq _ _ Hlq) as [_ Hfq]. rewrite Forall_forall in Hfq. rewrite (Hfq _ Hu) in Hl1.
        apply (Hnq y u); [right; auto|exists l1; auto].
    + split; [auto|split; [rewrite P2; auto|]]. intros u Hu. destruct (M2 _ Hu) as [H1|H1]; [left; right; auto|].
      destruct (F1 _ H1) as [->|H2]; [left; left; auto|right; auto].
Qed.

Lemma promote_J : forall p a t S S', J p S -> tfrom t = a -> assoc (thash t) (all p) = Some t -> ~ listed p t ->
  (forall u, in_queue p a u -> tnonce u <> tnonce t) -> (forall s, In s S -> In s S' \/ s = t) ->
  J (promote_tx p a t) S' /\ queue (promote_tx p a t) = queue p /\
  (forall u, listed (promote_tx p a t) u -> u = t \/ listed p u) /\
  (forall r, assoc (thash r) (all p) = Some r -> ~ listed p r -> thash r <> thash t -> assoc (thash r) (all (promote_tx p a t)) = Some r).
Proof.
  intros p a t S S' HJ Hfrom At Lt Hnq HS. subst a. pose proof HJ as (U & W & _).
  pose proof (fresh_from_inflight p t W At Lt) as Hfr. unfold promote_tx.
  change (match assoc (tfrom t) (pending p) with Some l => l | None => new_txlist true end) with (list_of (pending p) (tfrom t) true).
  destruct (tl_add (list_of (pending p) (tfrom t) true) t (c_bump (conf p))) as [[ins old] l'] eqn:E. destruct ins.
  - pose proof (tl_add_ok _ _ _ _ _ E) as [Hit Hold].
    match goal with |- J ?Q _ /\ _ => set (q := Q) end.
    assert (Hpq : pending q = assoc_set (tfrom t) l' (pending p) /\ queue q = queue p).
    { subst q. destruct old; cbn; match goal with |- context [match ?X with _ => _ end] => destruct X end; split; reflexivity. }
    destruct Hpq as [Hp Hq].
    destruct (J_pins p q t true l' S HJ Hnq Hfr Hit Hq Hp) as (Lx & Jq & F1 & F2).
    { intros h. subst old.
      assert (A2 : assoc (thash t) (match tl_get (list_of (pending p) (tfrom t) true) (tnonce t) with Some o => assoc_del (thash o) (all p) | None => all p end) = Some t).
      { destruct (tl_get (list_of (pending p) (tfrom t) true) (tnonce t)) as [o|] eqn:G; auto. rewrite assoc_del_other; auto.
        apply tl_get_some in G. destruct G as [Go _]. intros E2. apply (Hfr o); auto.
        exists (tfrom t). left. unfold list_of in Go. destruct (assoc (tfrom t) (pending p)) as [l0|] eqn:P0; [exists l0; auto|destruct Go]. }
      subst q. destruct (tl_get (list_of (pending p) (tfrom t) true) (tnonce t)) as [o|]; cbn [all all_drop all_put set_all set_priced set_pending pn_set set_pnonce set_beats] in *.
      - match goal with |- context [match ?X with _ => _ end] => destruct X eqn:EX end; cbn [all all_drop all_put set_all set_priced set_pending pn_set set_pnonce set_beats]; auto.
        cbn [all all_drop all_put set_all set_priced set_pending] in EX. rewrite assoc_set_id; [reflexivity|rewrite EX; exact A2].
      - match goal with |- context [match ?X with _ => _ end] => destruct X eqn:EX end; cbn [all all_drop all_put set_all set_priced set_pending pn_set set_pnonce set_beats]; auto.
        cbn [all all_drop all_put set_all set_priced set_pending] in EX. rewrite assoc_set_id; [reflexivity|rewrite EX; exact A2]. }
    split; [|split; [exact Hq|split; [exact F1|exact F2]]].
    eapply J_prune; [exact Jq|]. intros s Hs. destruct (HS _ Hs) as [H1| ->]; auto.
  - pose proof (tl_add_reject _ _ _ _ _ E) as ->. unfold list_of in *.
    destruct (assoc (tfrom t) (pending p)) as [l|] eqn:P; [|exfalso; eapply tl_add_empty_accepts; eauto].
    set (p1 := set_pending p (assoc_set (tfrom t) l (pending p))).
    assert (Lq : forall u, listed p1 u <-> listed p u).
    { intros u. unfold listed, in_pending, in_queue, p1. cbn [pending queue set_pending].
      split; intros [b H]; exists b; destruct H as [(lq & Hlq & Hin)|H]; auto; left; exists lq; split; auto;
        [rewrite assoc_set_id in Hlq; auto|rewrite assoc_set_id; auto]. }
    assert (J1 : J p1 S).
    { apply J_weaken with (S := S ++ []); [|rewrite app_nil_r; apply incl_refl].
      eapply J_pshrink with (p := p) (ex := []) (R := []); eauto; try reflexivity. apply split_ok_nil; auto. apply incl_refl. }
    change (all_drop p1 (thash t)) with (drop_all p1 [t]).
    split; [|split; [reflexivity|split]].
    + eapply J_dropall; [exact J1| |].
      * intros x [<-|[]]. split; [exact At|]. intros L. apply Lt. apply Lq. auto.
      * intros s Hs. destruct (HS _ Hs) as [H1| ->]; auto. right. left. auto.
    + intros u Hu. right. apply Lq. destruct (drop_all_pq [t] p1) as [A B]. unfold listed, in_pending, in_queue in *. rewrite A, B in Hu. exact Hu.
    + intros r Hr _ Hne. rewrite drop_all_all. cbn [existsb]. destruct (thash t =? thash r) eqn:E2; [lia|]. exact Hr.
Qed.

(* ---------------------------------------------------------------- what leaves a list: cover facts *)
Definition parts (l l' D : list tx) : Prop :=
  (forall t, In t l -> In t l' \/ In t D) /\ incl D l /\ incl l' l /\ (nonce_sorted l -> forall x, In x D -> ~ In x l').
Lemma parts_filter : forall f l, parts l (filter (fun t => negb (f t)) l) (filter f l).
Proof.
  intros f l. repeat split.
  - intros t Ht. destruct (f t) eqn:E; [right|left]; apply filter_In; rewrite ?E; auto.
  - intros t Ht. apply filter_In in Ht. tauto.
  - intros t Ht. apply filter_In in Ht. tauto.
  - intros _ x Hx Hx'. apply filter_In in Hx. apply filter_In in Hx'. destruct Hx as [_ A], Hx' as [_ B]. rewrite A in B. discriminate.
Qed.
Lemma parts_app : forall a b, parts (a ++ b) a b /\ parts (a ++ b) b a.
Proof.
  intros a b. split; repeat split; try (intros t Ht; apply in_or_app; auto).
  - intros t Ht. apply in_app_or in Ht. tauto.
  - intros Hs x Hx Hx'. destruct (ns_app_inv _ _ Hs) as (_ & _ & D). specialize (D _ _ Hx' Hx). lia.
  - intros t Ht. apply in_app_or in Ht. tauto.
  - intros Hs x Hx Hx'. destruct (ns_app_inv _ _ Hs) as (_ & _ & D). specialize (D _ _ Hx Hx'). lia.
Qed.
Lemma parts_refl : forall l, parts l l [].
Proof. intros l. repeat split; auto; try apply incl_refl; try (intros t []); try (intros _ x []). Qed.
Lemma parts_trans : forall l l1 l2 D1 D2, (nonce_sorted l -> nonce_sorted l1) -> parts l l1 D1 -> parts l1 l2 D2 -> parts l l2 (D1 ++ D2).
Proof.
  intros l l1 l2 D1 D2 Hs1 (C1 & I1 & K1 & N1) (C2 & I2 & K2 & N2). repeat split.
  - intros t Ht. destruct (C1 _ Ht) as [H|H]; [destruct (C2 _ H); auto|]; right; apply in_or_app; auto.
  - intros t Ht. apply in_app_or in Ht. destruct Ht; auto.
  - intros t Ht. auto.
  - intros Hs x Hx Hx'. apply in_app_or in Hx. destruct Hx as [Hx|Hx]; [apply (N1 Hs x Hx); auto|apply (N2 (Hs1 Hs) x Hx); auto].
Qed.
Lemma parts_mem : forall l l' D D', parts l l' D -> (forall t, In t D' <-> In t D) -> parts l l' D'.
Proof.
  intros l l' D D' (C & I & K & N) E. repeat split; auto.
  - intros t Ht. destruct (C _ Ht); auto. right. apply E. auto.
  - intros t Ht. apply I. apply E. auto.
  - intros Hs x Hx. apply N; auto. apply E. auto.
Qed.

Lemma tl_forward_parts : forall l th rm l', tl_forward l th = (rm, l') -> parts (items l) (items l') rm.
Proof. intros l th rm l' H. unfold tl_forward in H. inversion H; subst. cbn [items]. apply (parts_filter (fun t => tnonce t <? th)). Qed.
Lemma tl_filter_parts : forall o l c g drops invs l', tl_filter o l c g = (drops, invs, l') ->
  parts (items l) (items l') (drops ++ invs) /\ (strict l = false -> invs = []) /\ strict l' = strict l /\
  (nonce_sorted (items l) -> NoDup (map tnonce invs)).
Proof.
  intros o l c g drops invs l' H. unfold tl_filter in H.
  destruct ((costcap l <=? c) && (gascap l <=? g)).
  { inversion H; subst. split; [apply parts_refl|split; [auto|split; [auto|intros; constructor]]]. }
  set (bad := fun t => (c <? tcost t) || (g <? tgas t)) in *.
  pose proof (parts_filter bad (items l)) as P0.
  destruct (strict l) eqn:St; [destruct (filter bad (items l)) as [|b0 br] eqn:Erem|].
  - inversion H; subst. cbn [items strict app]. split; [exact P0|split; [auto|split; [auto|intros; constructor]]].
  - inversion H; subst; clear H. cbn [items strict]. split; [|split; [discriminate|split; [auto|]]].
    + eapply parts_mem with (D := (b0 :: br) ++ filter (fun t0 => _ <? tnonce t0) (filter (fun t => negb (bad t)) (items l))).
      * eapply parts_trans; [apply ns_filter|exact P0|apply (parts_filter (fun t0 => _ <? tnonce t0))].
      * intros t. rewrite !in_app_iff, !order_txs_in. tauto.
    + intros Hs. apply nodup_order. apply ns_nodup. apply ns_filter. apply ns_filter. auto.
  - inversion H; subst. cbn [items strict]. split; [|split; [auto|split; [auto|intros; constructor]]]. rewrite app_nil_r.
    eapply parts_mem; [exact P0|]. intros t. apply order_txs_in.
Qed.
Lemma tl_cap_parts : forall l k drops l', tl_cap l k = Some (drops, l') ->
  parts (items l) (items l') drops /\ strict l' = strict l /\ (nonce_sorted (items l) -> NoDup (map tnonce drops)).
Proof.
  intros l k drops l' H. unfold tl_cap in H.
  destruct (Z.of_nat (length (items l)) <=? k). { inversion H; subst. split; [apply parts_refl|split; [auto|intros; constructor]]. }
  destruct (k <? 0); [discriminate|]. inversion H; subst; clear H. cbn [items strict]. split; [|split; [auto|]].
  - pose proof (proj1 (parts_app (firstn (Z.to_nat k) (items l)) (skipn (Z.to_nat k) (items l)))) as P. rewrite firstn_skipn in P.
    eapply parts_mem; [exact P|]. intros t. rewrite <- in_rev. tauto.
  - intros Hs. rewrite <- (firstn_skipn (Z.to_nat k) (items l)) in Hs. destruct (ns_app_inv _ _ Hs) as (_ & Sb & _).
    eapply Permutation_NoDup; [|apply ns_nodup; exact Sb]. apply Permutation_map, Permutation_rev.
Qed.
Lemma tl_ready_parts : forall l s ready l', tl_ready l s = (ready, l') ->
  parts (items l) (items l') ready /\ strict l' = strict l /\ (nonce_sorted (items l) -> NoDup (map tnonce ready)).
Proof.
  intros l s ready l' H. unfold tl_ready in H.
  destruct (items l) as [|x r] eqn:E. { inversion H; subst. rewrite E. split; [apply parts_refl|split; [auto|intros; constructor]]. }
  destruct (s <? tnonce x). { inversion H; subst. rewrite E. split; [apply parts_refl|split; [auto|intros; constructor]]. }
  destruct (take_run (tnonce x) (x :: r)) as [a b] eqn:Er. inversion H; subst; clear H. cbn [items strict].
  rewrite (take_run_app _ _ _ _ Er). split; [apply parts_app|split; [auto|]].
  intros Hs. destruct (ns_app_inv _ _ Hs) as (Sa & _ & _). apply ns_nodup; auto.
Qed.
Lemma tl_remove_parts : forall o l t invs l', tl_remove o l t = (true, invs, l') ->
  parts (items l) (items l') (filter (fun x => tnonce x =? tnonce t) (items l) ++ invs) /\ strict l' = strict l /\
  (nonce_sorted (items l) -> NoDup (map tnonce invs)).
Proof.
  intros o l t invs l' H. unfold tl_remove in H. destruct (tl_get l (tnonce t)); [|discriminate].
  pose proof (parts_filter (fun x => tnonce x =? tnonce t) (items l)) as P0.
  destruct (strict l) eqn:St; inversion H; subst; clear H; cbn [items strict]; (split; [|split; [auto|]]).
  - eapply parts_mem with (D := filter (fun x => tnonce x =? tnonce t) (items l) ++ filter (fun x => tnonce t <? tnonce x) (filter (fun x => negb (tnonce x =? tnonce t)) (items l))).
    + eapply parts_trans; [apply ns_filter|exact P0|apply (parts_filter (fun x => tnonce t <? tnonce x))].
    + intros u. rewrite !in_app_iff, order_txs_in. tauto.
  - intros Hs. apply nodup_order. apply ns_nodup. apply ns_filter. apply ns_filter. auto.
  - rewrite app_nil_r. exact P0.
  - intros; constructor.
Qed.

(* ---------------------------------------------------------------- queue lists are non-strict *)
Definition QS (p : pool) : Prop := forall a l, assoc a (queue p) = Some l -> strict l = false.
Lemma QS_set : forall p q a l', QS p -> strict l' = false -> queue q = assoc_set a l' (queue p) -> QS q.
Proof.
  intros p q a l' H Hs Hq b l Hl. rewrite Hq in Hl. destruct (Z.eq_dec b a) as [->|Hne];
    [rewrite assoc_set_same in Hl; inversion Hl; subst; auto|rewrite assoc_set_other in Hl by auto; eapply H; eauto].
Qed.
Lemma QS_del : forall p q a, QS p -> queue q = assoc_del a (queue p) -> QS q.
Proof.
  intros p q a H Hq b l Hl. rewrite Hq in Hl. destruct (Z.eq_dec b a) as [->|Hne];
    [rewrite assoc_del_same in Hl; discriminate|rewrite assoc_del_other in Hl by auto; eapply H; eauto].
Qed.
Lemma QS_same : forall p q, QS p -> queue q = queue p -> QS q.
Proof. intros p q H Hq b l Hl. rewrite Hq in Hl. eapply H; eauto. Qed.
Lemma tl_add_strict : forall l t bump b old l', tl_add l t bump = (b, old, l') -> strict l' = strict l.
Proof. intros l t bump b old l' H. unfold tl_add in H. destruct (match tl_get l (tnonce t) with Some o => _ | None => false end); inversion H; subst; auto. Qed.
Lemma enqueue_QS : forall p t, QS p -> QS (snd (enqueue_tx p t)).
Proof.
  intros p t H. unfold enqueue_tx.
  destruct (tl_add (match assoc (tfrom t) (queue p) with Some l => l | None => new_txlist false end) t (c_bump (conf p))) as [[ins old] l'] eqn:E.
  pose proof (tl_add_strict _ _ _ _ _ _ E) as Hs.
  assert (Hs0 : strict (match assoc (tfrom t) (queue p) with Some l => l | None => new_txlist false end) = false).
  { destruct (assoc (tfrom t) (queue p)) eqn:Q; [eapply H; eauto|reflexivity]. }
  destruct ins; cbn [snd].
  - apply (QS_set p _ (tfrom t) l' H); [congruence|destruct old; reflexivity].
  - apply (QS_set p _ (tfrom t) _ H Hs0). reflexivity.
Qed.
Lemma enqueue_fold_QS : forall ex p, QS p -> QS (fold_left (fun q x => snd (enqueue_tx q x)) ex p).
Proof. induction ex; intros; cbn [fold_left]; auto. apply IHex. apply enqueue_QS; auto. Qed.

Lemma J_ext : forall p q S, pending q = pending p -> queue q = queue p -> (forall h, assoc h (all q) = assoc h (all p)) -> J p S -> J q S.
Proof.
  intros p q S Hp Hq Ha (U & [W1 W2] & O).
  assert (L : forall t, listed q t <-> listed p t) by (intros t; unfold listed, in_pending, in_queue; rewrite Hp, Hq; tauto).
  split; [eapply un_same; eauto|split; [split|]].
  - intros h t Ht. rewrite Ha in Ht. eauto.
  - intros t Ht. rewrite Ha. apply W2. apply L. auto.
  - intros t Ht. rewrite Ha in Ht. destruct (O t Ht); auto. left. apply L. auto.
Qed.

(* shrink queue[a] / pending[a]; delete D from pool.all; E stays in flight *)
Lemma qshrink_drop_J : forall p a l l' ex D E, J p [] -> assoc a (queue p) = Some l ->
  split_ok (items l) (items l') ex -> parts (items l) (items l') (D ++ E) -> (forall x, In x D -> In x E -> False) ->
  J (drop_all (set_queue p (assoc_set a l' (queue p))) D) E /\
  (forall x, In x E -> assoc (thash x) (all (drop_all (set_queue p (assoc_set a l' (queue p))) D)) = Some x /\
                       ~ listed (drop_all (set_queue p (assoc_set a l' (queue p))) D) x).
Proof.
  intros p a l l' ex D E HJ Ha Hsp (C1 & C2 & C3 & C4) Hdis. set (pa := set_queue p (assoc_set a l' (queue p))).
  pose proof HJ as (U & [W1 W2] & _). destruct (U) as (_ & HQ & _). destruct (HQ _ _ Ha) as [Hs _].
  assert (Ja : J pa ([] ++ (D ++ E))) by (eapply J_qshrink with (p := p); eauto; reflexivity).
  destruct Ja as (Ua & Wa & Oa). assert (Ja : J pa (D ++ E)) by (split; [|split]; auto).
  assert (Hx : forall x, In x (D ++ E) -> assoc (thash x) (all pa) = Some x /\ ~ listed pa x).
  { intros x Hx. split.
    - apply W2. exists a. right. exists l. auto.
    - eapply unlisted_after_qshrink with (p := p) (l := l) (l' := l'); eauto; try reflexivity. }
  destruct (drop_all_pq D pa) as [Pp Pq].
  split.
  - eapply J_dropall; [exact Ja| |].
    + intros x Hd. apply Hx. apply in_or_app. auto.
    + intros t Ht. apply in_app_or in Ht. tauto.
  - intros x He. destruct (Hx x (in_or_app _ _ _ (or_intror He))) as [A B]. split.
    + rewrite drop_all_all. destruct (existsb (fun d => thash d =? thash x) D) eqn:Ex; auto. exfalso.
      apply existsb_exists in Ex. destruct Ex as (d & Hd & Hh). destruct (Hx d (in_or_app _ _ _ (or_introl Hd))) as [Ad _].
      assert (thash d = thash x) by lia. rewrite H in Ad. assert (d = x) by congruence. subst. eauto.
    + unfold listed, in_pending, in_queue in *. rewrite Pp, Pq. exact B.
Qed.
Lemma pshrink_drop_J : forall p a l l' ex D E, J p [] -> assoc a (pending p) = Some l ->
  split_ok (items l) (items l') ex -> parts (items l) (items l') (D ++ E) -> (forall x, In x D -> In x E -> False) ->
  J (drop_all (set_pending p (assoc_set a l' (pending p))) D) E /\
  (forall x, In x E -> assoc (thash x) (all (drop_all (set_pending p (assoc_set a l' (pending p))) D)) = Some x /\
                       ~ listed (drop_all (set_pending p (assoc_set a l' (pending p))) D) x).
Proof.
  intros p a l l' ex D E HJ Ha Hsp (C1 & C2 & C3 & C4) Hdis. set (pa := set_pending p (assoc_set a l' (pending p))).
  pose proof HJ as (U & [W1 W2] & _). destruct (U) as (HP & _ & _). destruct (HP _ _ Ha) as [Hs _].
  assert (Ja : J pa ([] ++ (D ++ E))) by (eapply J_pshrink with (p := p); eauto; reflexivity).
  destruct Ja as (Ua & Wa & Oa). assert (Ja : J pa (D ++ E)) by (split; [|split]; auto).
  assert (Hx : forall x, In x (D ++ E) -> assoc (thash x) (all pa) = Some x /\ ~ listed pa x).
  { intros x Hx. split.
    - apply W2. exists a. left. exists l. auto.
    - eapply unlisted_after_pshrink with (p := p) (l := l) (l' := l'); eauto; try reflexivity. }
  destruct (drop_all_pq D pa) as [Pp Pq].
  split.
  - eapply J_dropall; [exact Ja| |].
    + intros x Hd. apply Hx. apply in_or_app. auto.
    + intros t Ht. apply in_app_or in Ht. tauto.
  - intros x He. destruct (Hx x (in_or_app _ _ _ (or_intror He))) as [A B]. split.
    + rewrite drop_all_all. destruct (existsb (fun d => thash d =? thash x) D) eqn:Ex; auto. exfalso.
      apply existsb_exists in Ex. destruct Ex as (d & Hd & Hh). destruct (Hx d (in_or_app _ _ _ (or_introl Hd))) as [Ad _].
      assert (thash d = thash x) by lia. rewrite H in Ad. assert (d = x) by congruence. subst. eauto.
    + unfold listed, in_pending, in_queue in *. rewrite Pp, Pq. exact B.
Qed.

Lemma promote_fold_J : forall a ready p S0, J p (S0 ++ ready) -> Forall (fun t => tfrom t = a) ready -> NoDup (map tnonce ready) ->
  (forall x, In x ready -> assoc (thash x) (all p) = Some x /\ ~ listed p x) ->
  (forall x u, In x ready -> in_queue p a u -> tnonce u <> tnonce x) ->
  J (fold_left (fun q t => promote_tx q a t) ready p) S0 /\ queue (fold_left (fun q t => promote_tx q a t) ready p) = queue p.
Proof.
  induction ready as [|t ready IH]; intros p S0 HJ Hf Hnd Hin Hnq; cbn [fold_left].
  - rewrite app_nil_r in HJ. auto.
  - inversion Hf as [|? ? Hft Hf']; subst. cbn [map] in Hnd. inversion Hnd as [|? ? Hnx Hnd']; subst.
    destruct (Hin t (or_introl eq_refl)) as [At Lt].
    destruct (promote_J p (tfrom t) t (S0 ++ t :: ready) (S0 ++ ready) HJ eq_refl At Lt) as (Jq & Qq & F1 & F2).
    { intros u Hu. apply (Hnq t u); auto. left; auto. }
    { intros s Hs. apply in_app_or in Hs. destruct Hs as [Hs|[->|Hs]]; auto; left; apply in_or_app; auto. }
    assert (Dxy : forall y, In y ready -> tnonce y <> tnonce t).
    { intros y Hy E. apply Hnx. rewrite <- E. apply in_map. auto. }
    destruct (IH _ S0 Jq) as [J2 Q2]; auto.
    + intros y Hy. destruct (Hin y (or_intror Hy)) as [Ay Ly]. split.
      * apply F2; auto. intros E. rewrite E in Ay. assert (y = t) by congruence. subst. apply (Dxy t); auto.
      * intros L. destruct (F1 _ L) as [->|L']; auto. apply (Dxy t); auto.
    + intros y u Hy Hu. unfold in_queue in Hu. rewrite Qq in Hu. apply (Hnq y u); auto. right; auto.
    + split; auto. rewrite Q2. auto.
Qed.

(* K: the invariant carried through every operation for all = pending ∪ queue *)
Definition K (p : pool) : Prop := J p [] /\ QS p.
Lemma tl_empty_items : forall l, tl_empty l = true -> items l = [].
Proof. intros l H. unfold tl_empty in H. destruct (items l); auto. discriminate. Qed.
Lemma promote_fold_QS : forall a ready p, QS p -> QS (fold_left (fun q t => promote_tx q a t) ready p).
Proof.
  induction ready as [|t ready IH]; intros p H; cbn [fold_left]; auto. apply IH. eapply QS_same; [exact H|].
  unfold promote_tx. destruct (tl_add _ t (c_bump (conf p))) as [[ins old] l']. destruct ins; [|reflexivity].
  destruct old; cbn; match goal with |- context [match ?X with _ => _ end] => destruct X end; reflexivity.
Qed.

Lemma pe_account_K : forall o p a p', K p -> pe_account o p a = Ok p' -> K p'.
Proof.
  intros o p a p' [HJ HS] H. unfold pe_account in H. destruct (assoc a (queue p)) as [l|] eqn:Q; [|inversion H; subst; split; auto].
  pose proof (HS _ _ Q) as St0.
  (* Forward *)
  destruct (tl_forward l (cur_nonce p a)) as [old l1] eqn:F.
  destruct (tl_forward_ok _ _ _ _ F) as [Sp1 St1]. pose proof (tl_forward_parts _ _ _ _ F) as Pa1.
  set (p1 := drop_all (set_queue p (assoc_set a l1 (queue p))) old) in *.
  destruct (drop_all_pq old (set_queue p (assoc_set a l1 (queue p)))) as [Pp1 Pq1]. fold p1 in Pp1, Pq1. cbn [pending queue set_queue] in Pp1, Pq1.
  assert (J1 : J p1 []). { eapply (qshrink_drop_J p a l l1 [] old []); eauto. rewrite app_nil_r. exact Pa1. }
  assert (S1 : QS p1) by (apply (QS_set p p1 a l1 HS); [congruence|exact Pq1]).
  assert (Q1 : assoc a (queue p1) = Some l1) by (rewrite Pq1; apply assoc_set_same).
  clearbody p1. clear Pp1 Pq1 HJ HS Q.
  (* Filter *)
  destruct (tl_filter o l1 (cur_balance p1 a) (maxgas p1)) as [[drops invs] l2] eqn:Fi.
  pose proof (tl_filter_ok _ _ _ _ _ _ _ Fi) as Sp2. destruct (tl_filter_parts _ _ _ _ _ _ _ Fi) as (Pa2 & Inv0 & St2 & _).
  assert (invs = []) by (apply Inv0; congruence). subst invs.
  set (p2 := drop_all (set_queue p1 (assoc_set a l2 (queue p1))) drops) in *.
  destruct (drop_all_pq drops (set_queue p1 (assoc_set a l2 (queue p1)))) as [Pp2 Pq2]. fold p2 in Pp2, Pq2. cbn [pending queue set_queue] in Pp2, Pq2.
  assert (J2 : J p2 []). { eapply (qshrink_drop_J p1 a l1 l2 [] drops []); eauto. }
  assert (S2 : QS p2) by (apply (QS_set p1 p2 a l2 S1); [congruence|exact Pq2]).
  assert (Q2 : assoc a (queue p2) = Some l2) by (rewrite Pq2; apply assoc_set_same).
  clearbody p2. clear Pp2 Pq2 J1 S1 Q1.
  (* Ready + promote *)
  destruct (tl_ready l2 (pn_get p2 a)) as [ready l3] eqn:R.
  pose proof (tl_ready_ok _ _ _ _ R) as Sp3. destruct (tl_ready_parts _ _ _ _ R) as (Pa3 & St3 & Nd3).
  set (pb := set_queue p2 (assoc_set a l3 (queue p2))) in *.
  pose proof J2 as (U2 & _ & _). destruct U2 as (_ & HQ2 & _). destruct (HQ2 _ _ Q2) as [Hs2 Hf2]. destruct (Sp3 Hs2) as (_ & _ & Ir & Dr).
  destruct (qshrink_drop_J p2 a l2 l3 ready [] ready J2 Q2 Sp3 Pa3) as [Jb Fb]. { intros x []. }
  change (drop_all (set_queue p2 (assoc_set a l3 (queue p2))) []) with pb in Jb, Fb.
  assert (Qb : assoc a (queue pb) = Some l3) by (unfold pb; cbn [queue set_queue]; apply assoc_set_same).
  destruct (promote_fold_J a ready pb [] Jb) as [J3 Q3]; auto.
  { rewrite Forall_forall in *. intros x Hx. apply Hf2. apply Ir. auto. }
  { intros x u Hx (lq & Hlq & Hu). rewrite Qb in Hlq. inversion Hlq; subst. intros E. apply (Dr x u); auto. }
  assert (Sb : QS pb) by (apply (QS_set p2 pb a l3 S2); [congruence|reflexivity]).
  pose proof (promote_fold_QS a ready pb Sb) as S3.
  set (p3 := fold_left (fun q t => promote_tx q a t) ready pb) in *. clearbody p3. clearbody pb.
  assert (Q3' : assoc a (queue p3) = Some l3) by (rewrite Q3; auto).
  (* Cap *)
  apply bind_ok in H. destruct H as ([p4 l4] & H1 & H2).
  assert (K4 : J p4 [] /\ QS p4 /\ assoc a (queue p4) = Some l4).
  { destruct (memZ a (locals p3)); [inversion H1; subst; auto|].
    destruct (tl_cap l3 (c_aqueue (conf p3))) as [[caps l4']|] eqn:C; [|discriminate]. inversion H1; subst; clear H1.
    destruct (tl_cap_parts _ _ _ _ C) as (Pa4 & St4 & _). pose proof (tl_cap_ok _ _ _ _ C) as Sp4.
    destruct (drop_all_pq caps (set_queue p3 (assoc_set a l4 (queue p3)))) as [Pp4 Pq4]. cbn [pending queue set_queue] in Pp4, Pq4.
    split; [|split].
    - eapply (qshrink_drop_J p3 a l3 l4 caps caps []); eauto. rewrite app_nil_r. exact Pa4.
    - apply (QS_set p3 _ a l4 S3); [|exact Pq4]. rewrite St4. eapply S3; eauto.
    - rewrite Pq4. apply assoc_set_same. }
  destruct K4 as (J4 & S4 & Q4). inversion H2; subst. destruct (tl_empty l4) eqn:Em; [|split; auto]. split.
  - eapply J_qdel with (p := p4); eauto; try reflexivity. intros l0 Hl0. rewrite Q4 in Hl0. inversion Hl0; subst. apply tl_empty_items; auto.
  - eapply QS_del; eauto. reflexivity.
Qed.

Lemma tl_filter_disj : forall o l c g drops invs l', tl_filter o l c g = (drops, invs, l') -> forall x, In x drops -> In x invs -> False.
Proof.
  intros o l c g drops invs l' H x Hd Hi. unfold tl_filter in H.
  destruct ((costcap l <=? c) && (gascap l <=? g)); [inversion H; subst; destruct Hd|].
  destruct (strict l); [destruct (filter _ (items l)) eqn:Erem|]; inversion H; subst; clear H; try (destruct Hi; fail).
  apply order_txs_in in Hd. apply order_txs_in in Hi. rewrite <- Erem in Hd. apply filter_In in Hd. apply filter_In in Hi.
  destruct Hi as [Hi _]. apply filter_In in Hi. destruct Hd as [_ A], Hi as [_ B]. rewrite A in B. discriminate.
Qed.
Lemma assoc_del_set : forall A a (v : A) m, assoc_del a (assoc_set a v m) = assoc_del a m.
Proof.
  induction m as [|[k w] m IH]; cbn [assoc_set assoc_del]; [rewrite Z.eqb_refl; auto|].
  destruct (a =? k) eqn:E; cbn [assoc_del]; rewrite ?Z.eqb_refl, ?E; auto. rewrite IH. auto.
Qed.
Lemma filter_nonce_singleton : forall l t, nonce_sorted l -> In t l -> filter (fun x => tnonce x =? tnonce t) l = [t].
Proof.
  unfold nonce_sorted. induction l as [|z l IH]; intros t Hs Hin; [destruct Hin|]. inversion Hs as [|? ? Hs' Hall]; subst. rewrite Forall_forall in Hall.
  cbn [filter]. destruct Hin as [->|Hin].
  - rewrite Z.eqb_refl. f_equal. apply (proj2 (forallb_filter_nil _ _)) || idtac.
    assert (G : forall l0, (forall y, In y l0 -> tnonce t < tnonce y) -> filter (fun x => tnonce x =? tnonce t) l0 = []).
    { induction l0 as [|y l0 IH0]; intros Hy; cbn [filter]; auto. pose proof (Hy y (or_introl eq_refl)). destruct (tnonce y =? tnonce t) eqn:E; [lia|]. apply IH0. intros; apply Hy; right; auto. }
    apply G. auto.
  - specialize (Hall _ Hin). destruct (tnonce z =? tnonce t) eqn:E; [lia|]. apply IH; auto.
Qed.

Lemma drop_all_all_eq : forall D q1 q2, all q1 = all q2 -> all (drop_all q1 D) = all (drop_all q2 D).
Proof. unfold drop_all. induction D as [|d D IH]; intros q1 q2 H; cbn [fold_left]; auto. apply IH. cbn [all all_drop set_all set_priced]. rewrite H. auto. Qed.

Lemma shrink_one_K : forall p a p', K p -> shrink_one p a = Ok p' -> K p'.
Proof.
  intros p a p' [HJ HS] H. unfold shrink_one in H. destruct (assoc a (pending p)) as [l|] eqn:P; [|discriminate].
  destruct (tl_cap l (tl_len l - 1)) as [[drops l']|] eqn:C; [|discriminate]. inversion H; subst; clear H.
  destruct (tl_cap_parts _ _ _ _ C) as (Pa & _ & _). pose proof (tl_cap_ok _ _ _ _ C) as Sp.
  set (pb := set_pending p (assoc_set a l' (pending p))).
  destruct (pshrink_drop_J p a l l' drops drops [] HJ P Sp) as [Jd _]; [rewrite app_nil_r; exact Pa|intros x _ []|]. fold pb in Jd.
  match goal with |- K (fold_left ?f drops pb) => set (F := f) end.
  assert (G : forall D q, pending (fold_left F D q) = pending q /\ queue (fold_left F D q) = queue q /\ all (fold_left F D q) = all (drop_all q D)).
  { induction D as [|d D IH]; intros q; cbn [fold_left]; [auto|]. destruct (IH (F q d)) as (A & B & E).
    assert (Hq : pending (F q d) = pending q /\ queue (F q d) = queue q /\ all (F q d) = all (all_drop q (thash d))).
    { unfold F. cbv zeta. match goal with |- context [if ?c then _ else _] => destruct c end; repeat split; reflexivity. }
    destruct Hq as (A1 & B1 & E1). rewrite A, B, E, A1, B1. repeat split; auto. apply (drop_all_all_eq D _ _ E1). }
  destruct (G drops pb) as (A & B & E). destruct (drop_all_pq drops pb) as [A' B']. split.
  - eapply J_same with (p := drop_all pb drops); eauto; congruence.
  - eapply QS_same; [exact HS|]. rewrite B. reflexivity.
Qed.

Lemma demote_account_K : forall o p a p', K p -> demote_account o p a = Ok p' -> K p'.
Proof.
  intros o p a p' [HJ HS] H. unfold demote_account in H. destruct (assoc a (pending p)) as [l|] eqn:P; [|inversion H; subst; split; auto].
  destruct (tl_forward l (cur_nonce p a)) as [old l1] eqn:F.
  destruct (tl_forward_ok _ _ _ _ F) as [Sp1 _]. pose proof (tl_forward_parts _ _ _ _ F) as Pa1.
  set (p1 := drop_all (set_pending p (assoc_set a l1 (pending p))) old) in *.
  destruct (drop_all_pq old (set_pending p (assoc_set a l1 (pending p)))) as [Pp1 Pq1]. fold p1 in Pp1, Pq1. cbn [pending queue set_pending] in Pp1, Pq1.
  assert (J1 : J p1 []). { eapply (pshrink_drop_J p a l l1 [] old []); eauto. rewrite app_nil_r. exact Pa1. }
  assert (S1 : QS p1) by (eapply QS_same; eauto).
  assert (Q1 : assoc a (pending p1) = Some l1) by (rewrite Pp1; apply assoc_set_same).
  (* queue[a] of p is disjoint from what was pending *)
  assert (Dq : forall x u, In x (items l) -> in_queue p1 a u -> tnonce u <> tnonce x).
  { intros x u Hx Hu. unfold in_queue in Hu. rewrite Pq1 in Hu. destruct HJ as ((_ & _ & HD) & _ & _). intros E. apply (HD a x u); auto. exists l; auto. }
  pose proof HJ as ((HP0 & _ & _) & _ & _). destruct (HP0 _ _ P) as [Hs0 Hf0]. destruct (Sp1 Hs0) as (Hs1 & I1 & _ & _).
  clearbody p1. clear Pp1 Pq1 HS.
  destruct (tl_filter o l1 (cur_balance p1 a) (maxgas p1)) as [[drops invs] l2] eqn:Fi.
  pose proof (tl_filter_ok _ _ _ _ _ _ _ Fi) as Sp2. destruct (tl_filter_parts _ _ _ _ _ _ _ Fi) as (Pa2 & _ & _ & Nd2).
  destruct (Sp2 Hs1) as (Hs2 & I2 & Iv & Dv).
  set (p2 := drop_all (set_pending p1 (assoc_set a l2 (pending p1))) drops) in *.
  destruct (drop_all_pq drops (set_pending p1 (assoc_set a l2 (pending p1)))) as [Pp2 Pq2]. fold p2 in Pp2, Pq2. cbn [pending queue set_pending] in Pp2, Pq2.
  destruct (pshrink_drop_J p1 a l1 l2 invs drops invs J1 Q1 Sp2 Pa2 (tl_filter_disj _ _ _ _ _ _ _ Fi)) as [J2 F2]. fold p2 in J2, F2.
  assert (S2 : QS p2) by (eapply QS_same; eauto).
  assert (Q2 : assoc a (pending p2) = Some l2) by (rewrite Pp2; apply assoc_set_same).
  destruct (requeue_J invs p2 a [] J2) as (J3 & P3 & _); auto.
  { rewrite Forall_forall in *. intros x Hx. apply Hf0. apply I1. apply Iv. auto. }
  { intros x u Hx (lp & Hlp & Hu). rewrite Q2 in Hlp. inversion Hlp; subst. intros E. apply (Dv x u); auto. }
  { intros x u Hx Hu. apply (Dq x u); auto. unfold in_queue in *. rewrite <- Pq2. auto. }
  pose proof (enqueue_fold_QS invs p2 S2) as S3.
  set (p3 := fold_left (fun q x => snd (enqueue_tx q x)) invs p2) in *.
  assert (Q3 : assoc a (pending p3) = Some l2) by (rewrite P3; auto).
  assert (Dq3 : forall x u, In x (items l2) -> in_queue p3 a u -> tnonce u <> tnonce x).
  { intros x u Hx Hu. destruct J3 as ((_ & _ & HD3) & _ & _). intros E. apply (HD3 a x u); auto. exists l2; auto. }
  clearbody p3. clearbody p2.
  apply bind_ok in H. destruct H as ([p4 l4] & H1 & H2).
  assert (K4 : J p4 [] /\ QS p4 /\ assoc a (pending p4) = Some l4).
  { destruct ((0 <? tl_len l2) && match tl_get l2 (cur_nonce p a) with None => true | Some _ => false end); [|inversion H1; subst; auto].
    destruct (tl_cap l2 0) as [[caps l3]|] eqn:C; [|discriminate]. inversion H1; subst; clear H1.
    destruct (tl_cap_parts _ _ _ _ C) as (Pa4 & _ & Nd4). pose proof (tl_cap_ok _ _ _ _ C) as Sp4. destruct (Sp4 Hs2) as (_ & _ & Ic & Dc).
    set (pb := set_pending p3 (assoc_set a l4 (pending p3))).
    destruct (pshrink_drop_J p3 a l2 l4 caps [] caps J3 Q3 Sp4 Pa4) as [Jb Fb]. { intros x []. }
    change (drop_all (set_pending p3 (assoc_set a l4 (pending p3))) []) with pb in Jb, Fb.
    assert (Qb : assoc a (pending pb) = Some l4) by (unfold pb; cbn [pending set_pending]; apply assoc_set_same).
    destruct (requeue_J caps pb a [] Jb) as (J4 & P4 & _); auto.
    { rewrite Forall_forall in *. intros x Hx. apply Hf0. apply I1. apply I2. apply Ic. auto. }
    { intros x u Hx (lp & Hlp & Hu). rewrite Qb in Hlp. inversion Hlp; subst. intros E. apply (Dc x u); auto. }
    split; [exact J4|split; [apply enqueue_fold_QS; eapply QS_same; [exact S3|reflexivity]|rewrite P4; exact Qb]]. }
  destruct K4 as (J4 & S4 & Q4). inversion H2; subst. destruct (tl_empty l4) eqn:Em; [|split; auto]. split.
  - eapply J_pdel with (p := p4); eauto; try reflexivity. intros l0 Hl0. rewrite Q4 in Hl0. inversion Hl0; subst. apply tl_empty_items; auto.
  - eapply QS_same; eauto; reflexivity.
Qed.

Lemma add_insert_K : forall p t local r p', K p -> (forall u, listed p u -> thash u <> thash t) -> add_insert p t local = (r, p') -> K p'.
Proof.
  intros p t local r p' [HJ HS] Hfr H. unfold add_insert in H.
  assert (Henq : (forall u, in_pending p (tfrom t) u -> tnonce u <> tnonce t) ->
     forall r p', match enqueue_tx p t with (inr e, p2) => (inr e, p2) | (inl rep, p2) => (inl rep, mark_local p2 (tfrom t) local) end = (r, p') -> K p').
  { intros Hpre r0 p0 H0. destruct (enqueue_J p t [] HJ Hpre Hfr) as (Jq & _). pose proof (enqueue_QS p t HS) as Sq.
    destruct (enqueue_tx p t) as [[rep|e] p2]; cbn [snd] in *; inversion H0; subst; [|split; [exact Jq|exact Sq]].
    unfold mark_local. destruct local; split; try exact Jq; exact Sq. }
  destruct (assoc (tfrom t) (pending p)) as [l|] eqn:P.
  - destruct (tl_overlaps l t) eqn:Ov.
    + destruct (tl_add l t (c_bump (conf p))) as [[ins old] l'] eqn:E. destruct ins; [|inversion H; subst; split; auto].
      inversion H; subst; clear H. pose proof (tl_add_ok _ _ _ _ _ E) as [Hit Hold].
      match goal with |- K ?Q => set (q := Q) end.
      assert (Hl : list_of (pending p) (tfrom t) true = l) by (unfold list_of; rewrite P; auto).
      destruct (J_pins p q t true l' [] HJ) as (_ & Jq & _); auto.
      * intros u Hu. unfold tl_overlaps, tl_get in Ov. destruct (find (fun x => tnonce x =? tnonce t) (items l)) as [x|] eqn:Fd; [|discriminate].
        apply find_some in Fd. destruct Fd as [Hin Hn]. destruct HJ as ((_ & _ & HD) & _ & _).
        assert (Hxu : tnonce x <> tnonce u) by (apply (HD (tfrom t)); auto; exists l; auto). lia.
      * rewrite Hl. exact Hit.
      * subst q. destruct old; reflexivity.
      * subst q. destruct old; reflexivity.
      * intros h. rewrite Hl. subst q old. destruct (tl_get l (tnonce t)); reflexivity.
      * split; [exact Jq|]. eapply QS_same; [exact HS|]. subst q. destruct old; reflexivity.
    + eapply Henq; eauto. intros u (lp & Hlp & Hu). rewrite P in Hlp. inversion Hlp; subst.
      unfold tl_overlaps in Ov. destruct (tl_get lp (tnonce t)) eqn:G; [discriminate|]. eapply tl_get_none; eauto.
  - eapply Henq; eauto. intros u (lp & Hlp & Hu). rewrite P in Hlp. discriminate.
Qed.

Lemma tl_remove_facts : forall o l t b invs l', tl_remove o l t = (b, invs, l') ->
  (b = true <-> exists x, In x (items l) /\ tnonce x = tnonce t) /\ (forall x, In x invs -> tnonce t < tnonce x) /\ (strict l = false -> invs = []).
Proof.
  intros o l t b invs l' H. unfold tl_remove in H. destruct (tl_get l (tnonce t)) as [x|] eqn:G.
  - apply tl_get_some in G. destruct (strict l); inversion H; subst; clear H; (split; [split; eauto|split]); try discriminate; auto.
    + intros y Hy. apply order_txs_in in Hy. apply filter_In in Hy. destruct Hy as [_ Hy]. lia.
    + intros y [].
  - inversion H; subst. split; [split; [discriminate|]|split; auto].
    + intros (x & Hx & Hn). exfalso. eapply tl_get_none; eauto.
    + intros y [].
Qed.

Lemma remove_K : forall o p h, K p -> K (remove_tx o p h) /\ (forall u, listed (remove_tx o p h) u -> listed p u).
Proof.
  intros o p h [HJ HS]. unfold remove_tx. destruct (assoc h (all p)) as [t|] eqn:A; [|split; [split; auto|auto]].
  pose proof HJ as (U & [W1 W2] & O). pose proof (W1 _ _ A) as Eh. subst h.
  assert (Lt : listed p t) by (destruct (O t A) as [L|[]]; auto).
  pose proof U as (HP & HQ & HD).
  set (a := tfrom t) in *. set (p1 := all_drop p (thash t)).
  (* the queue branch, when t is queued *)
  assert (HQb : forall f, assoc a (queue p) = Some f -> In t (items f) ->
     let r := match assoc a (queue p1) with
              | None => p1
              | Some f => let '(_, _, f') := tl_remove o f t in
                          if tl_empty f' then set_queue p1 (assoc_del a (queue p1)) else set_queue p1 (assoc_set a f' (queue p1))
              end in K r /\ (forall u, listed r u -> listed p u)).
  { intros f Hf Hin. change (queue p1) with (queue p). rewrite Hf.
    destruct (tl_remove o f t) as [[b invs] f'] eqn:R. destruct (tl_remove_facts _ _ _ _ _ _ R) as (Hb & _ & Hns).
    assert (b = true) by (apply Hb; exists t; auto). subst b. assert (invs = []) by (apply Hns; eapply HS; eauto). subst invs.
    destruct (tl_remove_parts _ _ _ _ _ R) as (Pa & St & _). pose proof (tl_remove_ok _ _ _ _ _ _ R) as Sp.
    destruct (HQ _ _ Hf) as [Hsf Hff]. rewrite (filter_nonce_singleton _ _ Hsf Hin) in Pa.
    destruct (qshrink_drop_J p a f f' [] [t] [] HJ Hf Sp Pa) as [Jv _]. { intros x _ []. }
    set (pv := drop_all (set_queue p (assoc_set a f' (queue p))) [t]) in *.
    assert (Lv : forall u, listed pv u -> listed p u).
    { intros u [b [(lp & Hlp & Hu)|(lq & Hlq & Hu)]]; cbn in Hlp || cbn in Hlq.
      - exists b. left. exists lp. auto.
      - destruct (Z.eq_dec b a) as [->|Hne]; [rewrite assoc_set_same in Hlq; inversion Hlq; subst; exists a; right; exists f; split; auto; destruct (Sp Hsf) as (_ & I & _); auto|].
        rewrite assoc_set_other in Hlq by auto. exists b. right. exists lq. auto. }
    destruct (tl_empty f') eqn:Em.
    - split; [split|].
      + eapply J_qdel with (p := pv) (a := a); [exact Jv| |reflexivity| |reflexivity].
        * intros l0 Hl0. cbn in Hl0. rewrite assoc_set_same in Hl0. inversion Hl0; subst. apply tl_empty_items; auto.
        * cbn. rewrite assoc_del_set. reflexivity.
      + eapply QS_del; [exact HS|reflexivity].
      + intros u [b [(lp & Hlp & Hu)|(lq & Hlq & Hu)]]; cbn in Hlp || cbn in Hlq.
        * exists b. left. exists lp. auto.
        * destruct (Z.eq_dec b a) as [->|Hne]; [rewrite assoc_del_same in Hlq; discriminate|]. rewrite assoc_del_other in Hlq by auto. exists b. right. exists lq. auto.
    - split; [split|].
      + eapply J_same with (p := pv); [reflexivity|reflexivity|reflexivity|exact Jv].
      + apply (QS_set p _ a f' HS); [rewrite St; eapply HS; eauto|reflexivity].
      + intros u Hu. apply Lv. exact Hu. }
  destruct (listed_keyed p t U Lt) as [(pl & Hpl & Hin)|(f & Hf & Hin)]; fold a in Hpl || fold a in Hf.
  - (* t is pending *)
    change (pending p1) with (pending p). rewrite Hpl.
    destruct (tl_remove o pl t) as [[b invs] pl'] eqn:R. destruct (tl_remove_facts _ _ _ _ _ _ R) as (Hb & Hgt & _).
    assert (b = true) by (apply Hb; exists t; auto). subst b.
    destruct (tl_remove_parts _ _ _ _ _ R) as (Pa & _ & Nd). pose proof (tl_remove_ok _ _ _ _ _ _ R) as Sp.
    destruct (HP _ _ Hpl) as [Hsp Hfp]. rewrite (filter_nonce_singleton _ _ Hsp Hin) in Pa. destruct (Sp Hsp) as (_ & Ip & Iv & Dv).
    destruct (pshrink_drop_J p a pl pl' invs [t] invs HJ Hpl Sp Pa) as [Jv Fv]. { intros x [<-|[]] Hx. specialize (Hgt _ Hx). lia. }
    set (pv := drop_all (set_pending p (assoc_set a pl' (pending p))) [t]) in *.
    assert (Lv : forall u, listed pv u -> listed p u).
    { intros u [b [(lp & Hlp & Hu)|(lq & Hlq & Hu)]]; cbn in Hlp || cbn in Hlq.
      - destruct (Z.eq_dec b a) as [->|Hne]; [rewrite assoc_set_same in Hlp; inversion Hlp; subst; exists a; left; exists pl; split; auto|].
        rewrite assoc_set_other in Hlp by auto. exists b. left. exists lp. auto.
      - exists b. right. exists lq. auto. }
    match goal with |- K (if _ then pn_set ?XX _ _ else _) /\ _ => set (X := XX) end.
    assert (HX : K X /\ (forall u, listed X u -> listed p u)).
    { subst X. match goal with |- K (fold_left _ invs ?PB) /\ _ => set (pb := PB) end.
      assert (Hpb : J pb invs /\ QS pb /\ (forall u, listed pb u -> listed pv u) /\ all pb = all pv /\ queue pb = queue p /\
                    (forall x u, In x invs -> in_pending pb a u -> tnonce u <> tnonce x)).
      { subst pb. destruct (tl_empty pl') eqn:Em.
        - split; [|split; [|split; [|split; [|split]]]]; try reflexivity.
          + eapply J_pdel with (p := pv) (a := a); [exact Jv| |reflexivity| |reflexivity].
            * intros l0 Hl0. cbn in Hl0. rewrite assoc_set_same in Hl0. inversion Hl0; subst. apply tl_empty_items; auto.
            * cbn. rewrite assoc_del_set. reflexivity.
          + eapply QS_same; [exact HS|reflexivity].
          + intros u [b [(lp & Hlp & Hu)|(lq & Hlq & Hu)]]; cbn in Hlp || cbn in Hlq.
            * destruct (Z.eq_dec b a) as [->|Hne]; [rewrite assoc_del_same in Hlp; discriminate|]. rewrite assoc_del_other in Hlp by auto.
              exists b. left. exists lp. cbn. rewrite assoc_set_other by auto. auto.
            * exists b. right. exists lq. auto.
          + intros x u Hx (lp & Hlp & Hu). cbn in Hlp. rewrite assoc_del_same in Hlp. discriminate.
        - split; [|split; [|split; [|split; [|split]]]]; try reflexivity.
          + eapply J_same with (p := pv); [reflexivity|reflexivity|reflexivity|exact Jv].
          + eapply QS_same; [exact HS|reflexivity].
          + intros u Hu. exact Hu.
          + intros x u Hx (lp & Hlp & Hu). cbn in Hlp. rewrite assoc_set_same in Hlp. inversion Hlp; subst. intros E. apply (Dv x u); auto. }
      destruct Hpb as (Jb & Sb & Lb & Ab & Qb & Npb).
      destruct (requeue_J invs pb a [] Jb) as (JX & PX & MX); auto.
      + rewrite Forall_forall in *. intros x Hx. apply Hfp. apply Iv. auto.
      + intros x Hx. destruct (Fv x Hx) as [A1 A2]. split; [rewrite Ab; exact A1|]. intros L. apply A2. apply Lb. auto.
      + intros x u Hx Hu. unfold in_queue in Hu. rewrite Qb in Hu. intros E. apply (HD a x u); auto. exists pl; auto.
      + split; [split; [exact JX|apply enqueue_fold_QS; exact Sb]|].
        intros u Hu. destruct (MX _ Hu) as [H1|H1]; [exists a; left; exists pl; auto|apply Lv; apply Lb; auto]. }
    destruct HX as [KX MX]. match goal with |- K (if ?c then _ else _) /\ _ => destruct c end; split; try exact KX; exact MX.
  - (* t is queued *)
    change (pending p1) with (pending p).
    destruct (assoc a (pending p)) as [pl|] eqn:P; [|apply (HQb f); auto].
    destruct (tl_remove o pl t) as [[b invs] pl'] eqn:R. destruct (tl_remove_facts _ _ _ _ _ _ R) as (Hb & _ & _).
    destruct b; [|apply (HQb f); auto]. exfalso. destruct (proj1 Hb eq_refl) as (x & Hx & Hn).
    apply (HD a x t); auto; [exists pl; auto|exists f; auto].
Qed.

(* ---------------------------------------------------------------- K through the loops and the operations (same shape as the _un lemmas) *)
Lemma remove_fold_K : forall o (l : list tx) p, K p ->
  K (fold_left (fun q t => remove_tx o q (thash t)) l p) /\ (forall u, listed (fold_left (fun q t => remove_tx o q (thash t)) l p) u -> listed p u).
Proof.
  induction l as [|x l IH]; intros p HK; cbn [fold_left]; auto.
  destruct (remove_K o p (thash x) HK) as [K1 M1]. destruct (IH _ K1) as [K2 M2]. split; auto.
Qed.
Lemma shrink_fold_K : forall l (st r : pool * Z), K (fst st) ->
  fold_res (fun (st : pool * Z) a => q <- shrink_one (fst st) a ;; Ok (q, (snd st - 1) mod two64)) l st = Ok r -> K (fst r).
Proof.
  intros l st r Hun H. eapply (fold_res_inv _ _ (fun st => K (fst st))); eauto.
  intros a x a' Ha Hf. apply bind_ok in Hf. destruct Hf as (q & H1 & H2). inversion H2; subst. cbn [fst]. eapply shrink_one_K; eauto.
Qed.
Lemma equalize_K : forall fuel p cnt offs th r, K p -> equalize fuel p cnt offs th = Ok r -> K (fst r).
Proof.
  induction fuel as [|f IH]; intros p cnt offs th r Hun H; cbn [equalize] in H; [discriminate|].
  apply bind_ok in H. destruct H as (n & _ & H).
  destruct ((c_gslots (conf p) <? cnt) && (th <? n)); [|inversion H; subst; auto].
  apply bind_ok in H. destruct H as (r1 & H1 & H2). eapply IH; [|exact H2]. eapply shrink_fold_K; [|exact H1]. auto.
Qed.
Lemma spam_loop_K : forall fuel o p cnt sp offs r, K p -> spam_loop fuel o p cnt sp offs = Ok r -> K (fst (fst r)).
Proof.
  induction fuel as [|f IH]; intros o p cnt sp offs r Hun H; cbn [spam_loop] in H; [discriminate|].
  destruct (c_gslots (conf p) <? cnt); [|inversion H; subst; auto].
  destruct (prque_pop o sp) as [[off rest]|]; [|inversion H; subst; auto].
  destruct (1 <? Z.of_nat (length (offs ++ [off]))).
  - apply bind_ok in H. destruct H as (th & _ & H). apply bind_ok in H. destruct H as (r1 & H1 & H2).
    eapply IH; [|exact H2]. eapply equalize_K; eauto.
  - eapply IH; eauto.
Qed.
Lemma minimum_loop_K : forall fuel p cnt offs r, K p -> minimum_loop fuel p cnt offs = Ok r -> K (fst r).
Proof.
  induction fuel as [|f IH]; intros p cnt offs r Hun H; cbn [minimum_loop] in H; [discriminate|].
  apply bind_ok in H. destruct H as (n & _ & H).
  destruct ((c_gslots (conf p) <? cnt) && (c_aslots (conf p) <? n)); [|inversion H; subst; auto].
  apply bind_ok in H. destruct H as (r1 & H1 & H2). eapply IH; [|exact H2]. eapply shrink_fold_K; [|exact H1]. auto.
Qed.
Lemma pe_pending_limit_K : forall o p p', K p -> pe_pending_limit o p = Ok p' -> K p'.
Proof.
  intros o p p' Hun H. unfold pe_pending_limit in H. destruct (c_gslots (conf p) <? pending_count p); [|inversion H; subst; auto].
  apply bind_ok in H. destruct H as ([[p1 cnt1] offs] & H1 & H2). apply spam_loop_K in H1; auto. cbn [fst] in H1.
  destruct ((c_gslots (conf p1) <? cnt1) && negb (match offs with [] => true | _ => false end)); [|inversion H2; subst; auto].
  apply bind_ok in H2. destruct H2 as (r2 & H3 & H4). inversion H4; subst. eapply minimum_loop_K; eauto.
Qed.
Lemma gq_loop_K : forall o addrs p drop p', K p -> gq_loop o p addrs drop = Ok p' -> K p'.
Proof.
  induction addrs as [|a rest IH]; intros p drop p' Hun H; cbn [gq_loop] in H; [inversion H; subst; auto|].
  destruct (0 <? drop); [|inversion H; subst; auto]. destruct (assoc a (queue p)) as [l|]; [|discriminate].
  destruct (tl_len l <=? drop); eapply IH; try exact H; apply remove_fold_K; auto.
Qed.
Lemma promote_executables_K : forall o p accs p', K p -> promote_executables o p accs = Ok p' -> K p'.
Proof.
  intros o p accs p' Hun H. unfold promote_executables in H.
  apply bind_ok in H. destruct H as (p1 & H1 & H). apply bind_ok in H. destruct H as (p2 & H2 & H3).
  assert (U1 : K p1). { eapply (fold_res_inv _ _ K); [|exact Hun|exact H1]. intros; eapply pe_account_K; eauto. }
  assert (U2 : K p2) by (eapply pe_pending_limit_K; eauto).
  unfold pe_queue_limit in H3. destruct (c_gqueue (conf p2) <? queued_count p2); [|inversion H3; subst; auto]. eapply gq_loop_K; eauto.
Qed.
Lemma add_K : forall o p t local r p', K p -> add o p t local = (r, p') -> K p'.
Proof.
  intros o p t local r p' HK H. unfold add in H. destruct (assoc (thash t) (all p)) eqn:A; [inversion H; subst; auto|].
  assert (Hfr : forall u, listed p u -> thash u <> thash t) by (apply fresh_from_none; [apply HK|exact A]).
  destruct (validate_tx p t local); [inversion H; subst; auto|].
  match type of H with (if ?c then _ else _) = _ => destruct c end; [|eapply add_insert_K; eauto].
  destruct (priced_underpriced o (all p) (locals p) (pricedl p) t) as [u pr]. destruct u; [inversion H; subst; exact HK|].
  match type of H with (let '(_, _) := ?d in _) = _ => destruct d as [drop pr1] end.
  match type of H with add_insert (fold_left ?f drop ?p0) _ _ = _ => destruct (remove_fold_K o drop p0) as [K1 M1]; [exact HK|] end.
  eapply add_insert_K; [exact K1| |exact H]. intros u Hu. apply Hfr. apply M1 in Hu. exact Hu.
Qed.
Lemma add_tx_K : forall o p t local e p', K p -> add_tx o p t local = Ok (e, p') -> K p'.
Proof.
  intros o p t local e p' Hun H. unfold add_tx in H. destruct (add o p t local) as [[rep|er] p1] eqn:A; pose proof (add_K _ _ _ _ _ _ Hun A) as U1.
  - destruct rep; [inversion H; subst; auto|]. apply bind_ok in H. destruct H as (p2 & H1 & H2). inversion H2; subst. eapply promote_executables_K; eauto.
  - inversion H; subst; auto.
Qed.
Lemma add_txs_locked_K : forall o p txs local r, K p -> add_txs_locked o p txs local = Ok r -> K (snd r).
Proof.
  intros o p txs local r Hun H. unfold add_txs_locked in H.
  assert (G : forall txs st, K (snd st) -> K (snd (fold_left (atl_step o local) txs st))).
  { induction txs0 as [|t txs0 IH]; intros st Hst; cbn [fold_left]; auto. apply IH.
    destruct st as [[errs dirty] q]. cbn [snd] in *. unfold atl_step. destruct (add o q t local) as [[rep|er] q1] eqn:A; cbn [snd]; eapply add_K; eauto. }
  specialize (G txs ([], [], p) Hun).
  destruct (fold_left (atl_step o local) txs ([], [], p)) as [[errs dirty] p1]. cbn [snd] in G.
  destruct dirty; [inversion H; subst; auto|]. apply bind_ok in H. destruct H as (p2 & H1 & H2). inversion H2; subst. cbn [snd].
  eapply promote_executables_K; eauto.
Qed.
Lemma demote_unexecutables_K : forall o p p', K p -> demote_unexecutables o p = Ok p' -> K p'.
Proof.
  intros o p p' Hun H. unfold demote_unexecutables in H. eapply (fold_res_inv _ _ K); [|exact Hun|exact H].
  intros; eapply demote_account_K; eauto.
Qed.
Lemma reset_K : forall o p c g ri p', K p -> reset o p c g ri = Ok p' -> K p'.
Proof.
  intros o p c g ri p' Hun H. unfold reset in H.
  assert (U0 : K (set_head p c g)) by exact Hun.
  apply bind_ok in H. destruct H as (p1 & H1 & H). apply bind_ok in H. destruct H as (p2 & H2 & H). apply bind_ok in H. destruct H as (p3 & H3 & H4).
  assert (U1 : K p1).
  { destruct ri; [inversion H1; subst; auto|]. apply bind_ok in H1. destruct H1 as (r & A & B). inversion B; subst. eapply add_txs_locked_K; eauto. }
  assert (U2 : K p2) by (eapply demote_unexecutables_K; eauto).
  assert (U3 : K p3).
  { eapply (fold_res_inv _ _ K); [|exact U2|exact H3]. intros q a q' Hq Hf. cbv beta in Hf. destruct (assoc a (pending q)) as [tl|]; [|inversion Hf; subst; auto].
    destruct (rev (items tl)); [discriminate|]. inversion Hf; subst. exact Hq. }
  eapply promote_executables_K; eauto.
Qed.
Lemma set_gas_price_K : forall o p g, K p -> K (set_gas_price o p g).
Proof.
  intros o p g Hun. unfold set_gas_price. match goal with |- context [priced_cap ?a ?b ?c ?d ?e] => destruct (priced_cap a b c d e) as [drop pr] end.
  apply remove_fold_K. exact Hun.
Qed.
Lemma step_K : forall o p x p', K p -> step o p x = Ok p' -> K p'.
Proof.
  intros o p x p' Hun H. destruct x; cbn [step] in H.
  - apply bind_ok in H. destruct H as ([e q] & H1 & H2). inversion H2; subst. eapply add_tx_K; eauto.
  - apply bind_ok in H. destruct H as ([e q] & H1 & H2). inversion H2; subst. eapply add_tx_K; eauto.
  - inversion H; subst. apply set_gas_price_K; auto.
  - eapply reset_K; eauto.
Qed.
Lemma new_pool_K : forall c gp cur0 gas0, K (new_pool c gp cur0 gas0).
Proof.
  intros. split; [split; [apply new_pool_un|split; [split|]]|]; cbn.
  - intros h t H. discriminate.
  - intros t [b [(l & H & _)|(l & H & _)]]; discriminate.
  - intros t H. discriminate.
  - intros a l H. discriminate.
Qed.
Theorem K_invariant : forall h p p', K p -> run p h = Ok p' -> K p'.
Proof.
  induction h as [|[o x] h IH]; intros p p' Hun H; cbn [run] in H; [inversion H; subst; auto|].
  apply bind_ok in H. destruct H as (p1 & H1 & H2). eapply IH; [|exact H2]. eapply step_K; eauto.
Qed.
(* 2b. all = pending ∪ queue after every history, under every oracle *)
Theorem all_is_union_invariant : forall h c gp cur0 gas0 p', run (new_pool c gp cur0 gas0) h = Ok p' -> all_is_union p'.
Proof.
  intros h c gp cur0 gas0 p' H. apply all_exact_union. pose proof (K_invariant h _ _ (new_pool_K c gp cur0 gas0) H) as [HJ _].
  apply J_exact in HJ. apply HJ.
Qed.

(* ================================================================ caps_sound: costcap / gascap bound the list *)
Lemma caps_sub : forall l l', caps_ok l -> incl (items l') (items l) -> costcap l' = costcap l -> gascap l' = gascap l -> caps_ok l'.
Proof. unfold caps_ok. intros l l' H I C G. rewrite Forall_forall in *. intros x Hx. rewrite C, G. apply H. apply I. auto. Qed.
Lemma tl_forward_caps : forall l th rm l', tl_forward l th = (rm, l') -> caps_ok l -> caps_ok l'.
Proof. intros l th rm l' H C. unfold tl_forward in H. inversion H; subst. eapply caps_sub; eauto. cbn. intros x Hx. apply filter_In in Hx. tauto. Qed.
Lemma tl_filter_caps : forall o l c g drops invs l', tl_filter o l c g = (drops, invs, l') -> caps_ok l ->
  caps_ok l' /\ Forall (fun t => tcost t <= c /\ tgas t <= g) (items l').
Proof.
  intros o l c g drops invs l' H C. unfold tl_filter in H. destruct ((costcap l <=? c) && (gascap l <=? g)) eqn:Sc.
  - inversion H; subst. split; auto. unfold caps_ok in C. rewrite Forall_forall in *. intros x Hx. specialize (C _ Hx). lia.
  - set (bad := fun t => (c <? tcost t) || (g <? tgas t)) in *.
    assert (G : forall x, In x (filter (fun t => negb (bad t)) (items l)) -> tcost x <= c /\ tgas x <= g).
    { intros x Hx. apply filter_In in Hx. destruct Hx as [_ Hb]. unfold bad in Hb. lia. }
    destruct (strict l); [destruct (filter bad (items l))|]; inversion H; subst; clear H; unfold caps_ok; cbn [items costcap gascap];
      split; rewrite Forall_forall; intros x Hx; first [apply G; exact Hx | apply filter_In in Hx; destruct Hx as [Hx _]; apply G; exact Hx].
Qed.
Lemma tl_cap_caps : forall l k drops l', tl_cap l k = Some (drops, l') -> caps_ok l -> caps_ok l'.
Proof.
  intros l k drops l' H C. unfold tl_cap in H. destruct (Z.of_nat (length (items l)) <=? k); [inversion H; subst; auto|].
  destruct (k <? 0); [discriminate|]. inversion H; subst. eapply caps_sub; eauto. cbn. intros x Hx. rewrite <- (firstn_skipn (Z.to_nat k) (items l)). apply in_or_app. auto.
Qed.
Lemma tl_remove_caps : forall o l t b invs l', tl_remove o l t = (b, invs, l') -> caps_ok l -> caps_ok l'.
Proof.
  intros o l t b invs l' H C. unfold tl_remove in H. destruct (tl_get l (tnonce t)); [|inversion H; subst; auto].
  destruct (strict l); inversion H; subst; eapply caps_sub; eauto; cbn; intros x Hx; repeat (apply filter_In in Hx; destruct Hx as [Hx _]); auto.
Qed.
Lemma tl_ready_caps : forall l s ready l', tl_ready l s = (ready, l') -> caps_ok l -> caps_ok l' /\ incl ready (items l).
Proof.
  intros l s ready l' H C. unfold tl_ready in H. destruct (items l) as [|x r] eqn:E; [inversion H; subst; split; auto; intros y []|].
  destruct (s <? tnonce x); [inversion H; subst; split; auto; intros y []|].
  destruct (take_run (tnonce x) (x :: r)) as [a b] eqn:Er. inversion H; subst; clear H. pose proof (take_run_app _ _ _ _ Er) as Ha.
  split; [eapply caps_sub; eauto; cbn; rewrite E, Ha; intros y Hy; apply in_or_app; auto|rewrite Ha; intros y Hy; apply in_or_app; auto].
Qed.
Lemma ins_in_weak : forall t l x, In x (ins_tx t l) -> x = t \/ In x l.
Proof.
  induction l as [|w l IH]; intros x Hx; cbn [ins_tx] in Hx; [destruct Hx as [->|[]]; auto|].
  destruct (tnonce t <? tnonce w); [destruct Hx as [->|Hx]; auto|]. destruct (tnonce t =? tnonce w).
  - destruct Hx as [->|Hx]; auto. right. right. auto.
  - destruct Hx as [->|Hx]; [right; left; auto|]. destruct (IH _ Hx); auto. right. right. auto.
Qed.
Lemma tl_add_caps : forall l t bump b old l', tl_add l t bump = (b, old, l') -> caps_ok l -> caps_ok l'.
Proof.
  intros l t bump b old l' H C. unfold tl_add in H. destruct (match tl_get l (tnonce t) with Some o => _ | None => false end); inversion H; subst; auto.
  unfold caps_ok in *. cbn [items costcap gascap]. rewrite Forall_forall in *. intros x Hx. apply ins_in_weak in Hx.
  destruct Hx as [->|Hx]; [|specialize (C _ Hx)]; destruct (costcap l <? tcost t) eqn:E1; destruct (gascap l <? tgas t) eqn:E2; lia.
Qed.
Lemma caps_new : forall s, caps_ok (new_txlist s).
Proof. intros s. unfold caps_ok. cbn. constructor. Qed.

Lemma CS_same : forall p q, pending q = pending p -> queue q = queue p -> caps_sound p -> caps_sound q.
Proof. intros p q Hp Hq H. unfold caps_sound in *. rewrite Hp, Hq. exact H. Qed.
Lemma CS_qset : forall p q a l', caps_sound p -> caps_ok l' -> pending q = pending p -> queue q = assoc_set a l' (queue p) -> caps_sound q.
Proof.
  intros p q a l' [HP HQ] C Hp Hq. unfold caps_sound. rewrite Hp, Hq. split; auto. intros b l Hl.
  destruct (Z.eq_dec b a) as [->|Hne]; [rewrite assoc_set_same in Hl; inversion Hl; subst; auto|rewrite assoc_set_other in Hl by auto; eauto].
Qed.
Lemma CS_pset : forall p q a l', caps_sound p -> caps_ok l' -> queue q = queue p -> pending q = assoc_set a l' (pending p) -> caps_sound q.
Proof.
  intros p q a l' [HP HQ] C Hq Hp. unfold caps_sound. rewrite Hp, Hq. split; auto. intros b l Hl.
  destruct (Z.eq_dec b a) as [->|Hne]; [rewrite assoc_set_same in Hl; inversion Hl; subst; auto|rewrite assoc_set_other in Hl by auto; eauto].
Qed.
Lemma CS_qdel : forall p q a, caps_sound p -> pending q = pending p -> queue q = assoc_del a (queue p) -> caps_sound q.
Proof.
  intros p q a [HP HQ] Hp Hq. unfold caps_sound. rewrite Hp, Hq. split; auto. intros b l Hl.
  destruct (Z.eq_dec b a) as [->|Hne]; [rewrite assoc_del_same in Hl; discriminate|rewrite assoc_del_other in Hl by auto; eauto].
Qed.
Lemma CS_pdel : forall p q a, caps_sound p -> queue q = queue p -> pending q = assoc_del a (pending p) -> caps_sound q.
Proof.
  intros p q a [HP HQ] Hq Hp. unfold caps_sound. rewrite Hp, Hq. split; auto. intros b l Hl.
  destruct (Z.eq_dec b a) as [->|Hne]; [rewrite assoc_del_same in Hl; discriminate|rewrite assoc_del_other in Hl by auto; eauto].
Qed.
Lemma CS_list_of : forall p a s, caps_sound p -> caps_ok (list_of (queue p) a s) /\ caps_ok (list_of (pending p) a s).
Proof.
  intros p a s [HP HQ]. unfold list_of. split.
  - destruct (assoc a (queue p)) eqn:E; [eauto|apply caps_new].
  - destruct (assoc a (pending p)) eqn:E; [eauto|apply caps_new].
Qed.

Lemma enqueue_CS : forall p t, caps_sound p -> caps_sound (snd (enqueue_tx p t)) /\ pending (snd (enqueue_tx p t)) = pending p.
Proof.
  intros p t H. unfold enqueue_tx.
  change (match assoc (tfrom t) (queue p) with Some l => l | None => new_txlist false end) with (list_of (queue p) (tfrom t) false).
  destruct (CS_list_of p (tfrom t) false H) as [C0 _].
  destruct (tl_add (list_of (queue p) (tfrom t) false) t (c_bump (conf p))) as [[ins old] l'] eqn:E.
  pose proof (tl_add_caps _ _ _ _ _ _ E C0) as C1. destruct ins; cbn [snd].
  - split; [|destruct old; reflexivity]. eapply CS_qset with (p := p) (l' := l'); auto; destruct old; reflexivity.
  - split; [|reflexivity]. eapply CS_qset with (p := p) (l' := list_of (queue p) (tfrom t) false); auto; reflexivity.
Qed.
Lemma enqueue_fold_CS : forall ex p, caps_sound p ->
  caps_sound (fold_left (fun q x => snd (enqueue_tx q x)) ex p) /\ pending (fold_left (fun q x => snd (enqueue_tx q x)) ex p) = pending p.
Proof.
  induction ex as [|x ex IH]; intros p H; cbn [fold_left]; auto. destruct (enqueue_CS p x H) as [H1 H2]. destruct (IH _ H1) as [H3 H4].
  split; auto. congruence.
Qed.
Lemma promote_CS : forall p a t, caps_sound p -> caps_sound (promote_tx p a t) /\ queue (promote_tx p a t) = queue p.
Proof.
  intros p a t H. unfold promote_tx.
  change (match assoc a (pending p) with Some l => l | None => new_txlist true end) with (list_of (pending p) a true).
  destruct (CS_list_of p a true H) as [_ C0].
  destruct (tl_add (list_of (pending p) a true) t (c_bump (conf p))) as [[ins old] l'] eqn:E.
  pose proof (tl_add_caps _ _ _ _ _ _ E C0) as C1. destruct ins.
  - match goal with |- caps_sound ?Q /\ _ => assert (Hq : pending Q = assoc_set a l' (pending p) /\ queue Q = queue p)
      by (destruct old; cbn; match goal with |- context [match ?X with _ => _ end] => destruct X end; split; reflexivity) end.
    destruct Hq as [Hp Hq]. split; auto. eapply CS_pset with (p := p); eauto.
  - split; [|reflexivity]. eapply CS_pset with (p := p) (l' := list_of (pending p) a true); auto; reflexivity.
Qed.
Lemma promote_fold_CS : forall a ready p, caps_sound p ->
  caps_sound (fold_left (fun q t => promote_tx q a t) ready p) /\ queue (fold_left (fun q t => promote_tx q a t) ready p) = queue p.
Proof.
  induction ready as [|t ready IH]; intros p H; cbn [fold_left]; auto. destruct (promote_CS p a t H) as [H1 H2]. destruct (IH _ H1) as [H3 H4].
  split; auto. congruence.
Qed.

Lemma remove_CS : forall o p h, caps_sound p -> caps_sound (remove_tx o p h).
Proof.
  intros o p h H. unfold remove_tx. destruct (assoc h (all p)) as [t|]; auto.
  set (p1 := all_drop p h). assert (H1 : caps_sound p1) by exact H. clearbody p1. clear H p.
  assert (HQ : caps_sound (match assoc (tfrom t) (queue p1) with
      | None => p1
      | Some f => let '(_, _, f') := tl_remove o f t in
                  if tl_empty f' then set_queue p1 (assoc_del (tfrom t) (queue p1)) else set_queue p1 (assoc_set (tfrom t) f' (queue p1))
      end)).
  { destruct (assoc (tfrom t) (queue p1)) as [f|] eqn:Q; auto. destruct (tl_remove o f t) as [[b invs] f'] eqn:R.
    pose proof (tl_remove_caps _ _ _ _ _ _ R (proj2 H1 _ _ Q)) as C. destruct (tl_empty f'); [apply (CS_qdel p1 _ (tfrom t) H1); reflexivity|apply (CS_qset p1 _ (tfrom t) f' H1 C); reflexivity]. }
  destruct (assoc (tfrom t) (pending p1)) as [pl|] eqn:P; auto.
  destruct (tl_remove o pl t) as [[b invs] pl'] eqn:R. destruct b; auto.
  pose proof (tl_remove_caps _ _ _ _ _ _ R (proj1 H1 _ _ P)) as C.
  match goal with |- caps_sound (if _ then pn_set ?XX _ _ else _) => assert (H2 : caps_sound XX) end.
  { apply enqueue_fold_CS. destruct (tl_empty pl'); [apply (CS_pdel p1 _ (tfrom t) H1); reflexivity|apply (CS_pset p1 _ (tfrom t) pl' H1 C); reflexivity]. }
  match goal with |- caps_sound (if ?c then _ else _) => destruct c end; exact H2.
Qed.
Lemma remove_fold_CS : forall o (l : list tx) p, caps_sound p -> caps_sound (fold_left (fun q t => remove_tx o q (thash t)) l p).
Proof. induction l; intros; cbn [fold_left]; auto. apply IHl. apply remove_CS; auto. Qed.

Lemma pe_account_CS : forall o p a p', caps_sound p -> pe_account o p a = Ok p' -> caps_sound p'.
Proof.
  intros o p a p' H0 H. unfold pe_account in H. destruct (assoc a (queue p)) as [l|] eqn:Q; [|inversion H; subst; auto].
  pose proof (proj2 H0 _ _ Q) as C0.
  destruct (tl_forward l (cur_nonce p a)) as [old l1] eqn:F. pose proof (tl_forward_caps _ _ _ _ F C0) as C1.
  set (p1 := drop_all (set_queue p (assoc_set a l1 (queue p))) old) in *.
  destruct (drop_all_pq old (set_queue p (assoc_set a l1 (queue p)))) as [Pp1 Pq1]. fold p1 in Pp1, Pq1. cbn [pending queue set_queue] in Pp1, Pq1.
  assert (H1 : caps_sound p1) by (eapply CS_qset with (p := p); eauto). clearbody p1.
  destruct (tl_filter o l1 (cur_balance p1 a) (maxgas p1)) as [[drops invs] l2] eqn:Fi. destruct (tl_filter_caps _ _ _ _ _ _ _ Fi C1) as [C2 _].
  set (p2 := drop_all (set_queue p1 (assoc_set a l2 (queue p1))) drops) in *.
  destruct (drop_all_pq drops (set_queue p1 (assoc_set a l2 (queue p1)))) as [Pp2 Pq2]. fold p2 in Pp2, Pq2. cbn [pending queue set_queue] in Pp2, Pq2.
  assert (H2 : caps_sound p2) by (eapply CS_qset with (p := p1); eauto). clearbody p2.
  destruct (tl_ready l2 (pn_get p2 a)) as [ready l3] eqn:R. destruct (tl_ready_caps _ _ _ _ R C2) as [C3 _].
  set (pb := set_queue p2 (assoc_set a l3 (queue p2))) in *.
  assert (Hb : caps_sound pb) by (eapply CS_qset with (p := p2); eauto; reflexivity).
  destruct (promote_fold_CS a ready pb Hb) as [H3 Q3].
  set (p3 := fold_left (fun q t => promote_tx q a t) ready pb) in *. clearbody p3.
  apply bind_ok in H. destruct H as ([p4 l4] & E1 & E2).
  assert (H4 : caps_sound p4).
  { destruct (memZ a (locals p3)); [inversion E1; subst; auto|].
    destruct (tl_cap l3 (c_aqueue (conf p3))) as [[caps l4']|] eqn:C; [|discriminate]. inversion E1; subst; clear E1.
    destruct (drop_all_pq caps (set_queue p3 (assoc_set a l4 (queue p3)))) as [Pp4 Pq4]. cbn [pending queue set_queue] in Pp4, Pq4.
    apply (CS_qset p3 _ a l4 H3 (tl_cap_caps _ _ _ _ C C3) Pp4 Pq4). }
  inversion E2; subst. destruct (tl_empty l4); auto. eapply CS_qdel; eauto; reflexivity.
Qed.
Lemma shrink_one_CS : forall p a p', caps_sound p -> shrink_one p a = Ok p' -> caps_sound p'.
Proof.
  intros p a p' H0 H. unfold shrink_one in H. destruct (assoc a (pending p)) as [l|] eqn:P; [|discriminate].
  destruct (tl_cap l (tl_len l - 1)) as [[drops l']|] eqn:C; [|discriminate]. inversion H; subst; clear H.
  set (pb := set_pending p (assoc_set a l' (pending p))).
  assert (Ub : caps_sound pb) by (eapply CS_pset with (p := p); eauto; try reflexivity; eapply tl_cap_caps; eauto; apply (proj1 H0 _ _ P)).
  clearbody pb. clear C. revert pb Ub. induction drops as [|t drops IH]; intros pb Ub; cbn [fold_left]; auto.
  apply IH. cbv zeta. match goal with |- caps_sound (if ?c then _ else _) => destruct c end; exact Ub.
Qed.
Lemma demote_account_CS : forall o p a p', caps_sound p -> demote_account o p a = Ok p' -> caps_sound p'.
Proof.
  intros o p a p' H0 H. unfold demote_account in H. destruct (assoc a (pending p)) as [l|] eqn:P; [|inversion H; subst; auto].
  pose proof (proj1 H0 _ _ P) as C0.
  destruct (tl_forward l (cur_nonce p a)) as [old l1] eqn:F. pose proof (tl_forward_caps _ _ _ _ F C0) as C1.
  set (p1 := drop_all (set_pending p (assoc_set a l1 (pending p))) old) in *.
  destruct (drop_all_pq old (set_pending p (assoc_set a l1 (pending p)))) as [Pp1 Pq1]. fold p1 in Pp1, Pq1. cbn [pending queue set_pending] in Pp1, Pq1.
  assert (H1 : caps_sound p1) by (eapply CS_pset with (p := p); eauto). clearbody p1.
  destruct (tl_filter o l1 (cur_balance p1 a) (maxgas p1)) as [[drops invs] l2] eqn:Fi. destruct (tl_filter_caps _ _ _ _ _ _ _ Fi C1) as [C2 _].
  set (p2 := drop_all (set_pending p1 (assoc_set a l2 (pending p1))) drops) in *.
  destruct (drop_all_pq drops (set_pending p1 (assoc_set a l2 (pending p1)))) as [Pp2 Pq2]. fold p2 in Pp2, Pq2. cbn [pending queue set_pending] in Pp2, Pq2.
  assert (H2 : caps_sound p2) by (eapply CS_pset with (p := p1); eauto). clearbody p2.
  destruct (enqueue_fold_CS invs p2 H2) as [H3 P3].
  set (p3 := fold_left (fun q x => snd (enqueue_tx q x)) invs p2) in *. clearbody p3.
  apply bind_ok in H. destruct H as ([p4 l4] & E1 & E2).
  assert (H4 : caps_sound p4).
  { destruct ((0 <? tl_len l2) && match tl_get l2 (cur_nonce p a) with None => true | Some _ => false end); [|inversion E1; subst; auto].
    destruct (tl_cap l2 0) as [[caps l3]|] eqn:C; [|discriminate]. inversion E1; subst; clear E1.
    apply enqueue_fold_CS. apply (CS_pset p3 _ a l4 H3 (tl_cap_caps _ _ _ _ C C2)); reflexivity. }
  inversion E2; subst. destruct (tl_empty l4); auto. eapply CS_pdel with (p := p4); eauto; reflexivity.
Qed.
Lemma add_insert_CS : forall p t local r p', caps_sound p -> add_insert p t local = (r, p') -> caps_sound p'.
Proof.
  intros p t local r p' H0 H. unfold add_insert in H.
  assert (Henq : forall r p', match enqueue_tx p t with (inr e, p2) => (inr e, p2) | (inl rep, p2) => (inl rep, mark_local p2 (tfrom t) local) end = (r, p') -> caps_sound p').
  { intros r0 p0 E. destruct (enqueue_CS p t H0) as [U _]. destruct (enqueue_tx p t) as [[rep|e] p2]; cbn [snd] in U; inversion E; subst; auto.
    unfold mark_local. destruct local; exact U. }
  destruct (assoc (tfrom t) (pending p)) as [l|] eqn:P; [|eapply Henq; eauto].
  destruct (tl_overlaps l t); [|eapply Henq; eauto].
  destruct (tl_add l t (c_bump (conf p))) as [[ins old] l'] eqn:E. destruct ins; [|inversion H; subst; auto].
  inversion H; subst; clear H. pose proof (tl_add_caps _ _ _ _ _ _ E (proj1 H0 _ _ P)) as C.
  eapply CS_pset with (p := p) (l' := l'); auto; destruct old; reflexivity.
Qed.

(* caps_sound through the loops and the operations (same shape as the _un lemmas) *)
Lemma shrink_fold_CS : forall l (st r : pool * Z), caps_sound (fst st) ->
  fold_res (fun (st : pool * Z) a => q <- shrink_one (fst st) a ;; Ok (q, (snd st - 1) mod two64)) l st = Ok r -> caps_sound (fst r).
Proof.
  intros l st r Hun H. eapply (fold_res_inv _ _ (fun st => caps_sound (fst st))); eauto.
  intros a x a' Ha Hf. apply bind_ok in Hf. destruct Hf as (q & H1 & H2). inversion H2; subst. cbn [fst]. eapply shrink_one_CS; eauto.
Qed.
Lemma equalize_CS : forall fuel p cnt offs th r, caps_sound p -> equalize fuel p cnt offs th = Ok r -> caps_sound (fst r).
Proof.
  induction fuel as [|f IH]; intros p cnt offs th r Hun H; cbn [equalize] in H; [discriminate|].
  apply bind_ok in H. destruct H as (n & _ & H).
  destruct ((c_gslots (conf p) <? cnt) && (th <? n)); [|inversion H; subst; auto].
  apply bind_ok in H. destruct H as (r1 & H1 & H2). eapply IH; [|exact H2]. eapply shrink_fold_CS; [|exact H1]. auto.
Qed.
Lemma spam_loop_CS : forall fuel o p cnt sp offs r, caps_sound p -> spam_loop fuel o p cnt sp offs = Ok r -> caps_sound (fst (fst r)).
Proof.
  induction fuel as [|f IH]; intros o p cnt sp offs r Hun H; cbn [spam_loop] in H; [discriminate|].
  destruct (c_gslots (conf p) <? cnt); [|inversion H; subst; auto].
  destruct (prque_pop o sp) as [[off rest]|]; [|inversion H; subst; auto].
  destruct (1 <? Z.of_nat (length (offs ++ [off]))).
  - apply bind_ok in H. destruct H as (th & _ & H). apply bind_ok in H. destruct H as (r1 & H1 & H2).
    eapply IH; [|exact H2]. eapply equalize_CS; eauto.
  - eapply IH; eauto.
Qed.
Lemma minimum_loop_CS : forall fuel p cnt offs r, caps_sound p -> minimum_loop fuel p cnt offs = Ok r -> caps_sound (fst r).
Proof.
  induction fuel as [|f IH]; intros p cnt offs r Hun H; cbn [minimum_loop] in H; [discriminate|].
  apply bind_ok in H. destruct H as (n & _ & H).
  destruct ((c_gslots (conf p) <? cnt) && (c_aslots (conf p) <? n)); [|inversion H; subst; auto].
  apply bind_ok in H. destruct H as (r1 & H1 & H2). eapply IH; [|exact H2]. eapply shrink_fold_CS; [|exact H1]. auto.
Qed.
Lemma pe_pending_limit_CS : forall o p p', caps_sound p -> pe_pending_limit o p = Ok p' -> caps_sound p'.
Proof.
  intros o p p' Hun H. unfold pe_pending_limit in H. destruct (c_gslots (conf p) <? pending_count p); [|inversion H; subst; auto].
  apply bind_ok in H. destruct H as ([[p1 cnt1] offs] & H1 & H2). apply spam_loop_CS in H1; auto. cbn [fst] in H1.
  destruct ((c_gslots (conf p1) <? cnt1) && negb (match offs with [] => true | _ => false end)); [|inversion H2; subst; auto].
  apply bind_ok in H2. destruct H2 as (r2 & H3 & H4). inversion H4; subst. eapply minimum_loop_CS; eauto.
Qed.
Lemma gq_loop_CS : forall o addrs p drop p', caps_sound p -> gq_loop o p addrs drop = Ok p' -> caps_sound p'.
Proof.
  induction addrs as [|a rest IH]; intros p drop p' Hun H; cbn [gq_loop] in H; [inversion H; subst; auto|].
  destruct (0 <? drop); [|inversion H; subst; auto]. destruct (assoc a (queue p)) as [l|]; [|discriminate].
  destruct (tl_len l <=? drop); eapply IH; try exact H; apply remove_fold_CS; auto.
Qed.
Lemma promote_executables_CS : forall o p accs p', caps_sound p -> promote_executables o p accs = Ok p' -> caps_sound p'.
Proof.
  intros o p accs p' Hun H. unfold promote_executables in H.
  apply bind_ok in H. destruct H as (p1 & H1 & H). apply bind_ok in H. destruct H as (p2 & H2 & H3).
  assert (U1 : caps_sound p1). { eapply (fold_res_inv _ _ caps_sound); [|exact Hun|exact H1]. intros; eapply pe_account_CS; eauto. }
  assert (U2 : caps_sound p2) by (eapply pe_pending_limit_CS; eauto).
  unfold pe_queue_limit in H3. destruct (c_gqueue (conf p2) <? queued_count p2); [|inversion H3; subst; auto]. eapply gq_loop_CS; eauto.
Qed.
Lemma add_CS : forall o p t local r p', caps_sound p -> add o p t local = (r, p') -> caps_sound p'.
Proof.
  intros o p t local r p' Hun H. unfold add in H. destruct (assoc (thash t) (all p)); [inversion H; subst; auto|].
  destruct (validate_tx p t local); [inversion H; subst; auto|].
  match type of H with (if ?c then _ else _) = _ => destruct c end; [|eapply add_insert_CS; eauto].
  destruct (priced_underpriced o (all p) (locals p) (pricedl p) t) as [u pr]. destruct u; [inversion H; subst; exact Hun|].
  match type of H with (let '(_, _) := ?d in _) = _ => destruct d as [drop pr1] end.
  eapply add_insert_CS; [|exact H]. apply remove_fold_CS. exact Hun.
Qed.
Lemma add_tx_CS : forall o p t local e p', caps_sound p -> add_tx o p t local = Ok (e, p') -> caps_sound p'.
Proof.
  intros o p t local e p' Hun H. unfold add_tx in H. destruct (add o p t local) as [[rep|er] p1] eqn:A; pose proof (add_CS _ _ _ _ _ _ Hun A) as U1.
  - destruct rep; [inversion H; subst; auto|]. apply bind_ok in H. destruct H as (p2 & H1 & H2). inversion H2; subst. eapply promote_executables_CS; eauto.
  - inversion H; subst; auto.
Qed.
Lemma add_txs_locked_CS : forall o p txs local r, caps_sound p -> add_txs_locked o p txs local = Ok r -> caps_sound (snd r).
Proof.
  intros o p txs local r Hun H. unfold add_txs_locked in H.
  assert (G : forall txs st, caps_sound (snd st) -> caps_sound (snd (fold_left (atl_step o local) txs st))).
  { induction txs0 as [|t txs0 IH]; intros st Hst; cbn [fold_left]; auto. apply IH.
    destruct st as [[errs dirty] q]. cbn [snd] in *. unfold atl_step. destruct (add o q t local) as [[rep|er] q1] eqn:A; cbn [snd]; eapply add_CS; eauto. }
  specialize (G txs ([], [], p) Hun).
  destruct (fold_left (atl_step o local) txs ([], [], p)) as [[errs dirty] p1]. cbn [snd] in G.
  destruct dirty; [inversion H; subst; auto|]. apply bind_ok in H. destruct H as (p2 & H1 & H2). inversion H2; subst. cbn [snd].
  eapply promote_executables_CS; eauto.
Qed.
Lemma demote_unexecutables_CS : forall o p p', caps_sound p -> demote_unexecutables o p = Ok p' -> caps_sound p'.
Proof.
  intros o p p' Hun H. unfold demote_unexecutables in H. eapply (fold_res_inv _ _ caps_sound); [|exact Hun|exact H].
  intros; eapply demote_account_CS; eauto.
Qed.
Lemma reset_CS : forall o p c g ri p', caps_sound p -> reset o p c g ri = Ok p' -> caps_sound p'.
Proof.
  intros o p c g ri p' Hun H. unfold reset in H.
  assert (U0 : caps_sound (set_head p c g)) by exact Hun.
  apply bind_ok in H. destruct H as (p1 & H1 & H). apply bind_ok in H. destruct H as (p2 & H2 & H). apply bind_ok in H. destruct H as (p3 & H3 & H4).
  assert (U1 : caps_sound p1).
  { destruct ri; [inversion H1; subst; auto|]. apply bind_ok in H1. destruct H1 as (r & A & B). inversion B; subst. eapply add_txs_locked_CS; eauto. }
  assert (U2 : caps_sound p2) by (eapply demote_unexecutables_CS; eauto).
  assert (U3 : caps_sound p3).
  { eapply (fold_res_inv _ _ caps_sound); [|exact U2|exact H3]. intros q a q' Hq Hf. cbv beta in Hf. destruct (assoc a (pending q)) as [tl|]; [|inversion Hf; subst; auto].
    destruct (rev (items tl)); [discriminate|]. inversion Hf; subst. exact Hq. }
  eapply promote_executables_CS; eauto.
Qed.
Lemma set_gas_price_CS : forall o p g, caps_sound p -> caps_sound (set_gas_price o p g).
Proof.
  intros o p g Hun. unfold set_gas_price. match goal with |- context [priced_cap ?a ?b ?c ?d ?e] => destruct (priced_cap a b c d e) as [drop pr] end.
  apply remove_fold_CS. exact Hun.
Qed.
Lemma step_CS : forall o p x p', caps_sound p -> step o p x = Ok p' -> caps_sound p'.
Proof.
  intros o p x p' Hun H. destruct x; cbn [step] in H.
  - apply bind_ok in H. destruct H as ([e q] & H1 & H2). inversion H2; subst. eapply add_tx_CS; eauto.
  - apply bind_ok in H. destruct H as ([e q] & H1 & H2). inversion H2; subst. eapply add_tx_CS; eauto.
  - inversion H; subst. apply set_gas_price_CS; auto.
  - eapply reset_CS; eauto.
Qed.
Lemma new_pool_CS : forall c gp cur0 gas0, caps_sound (new_pool c gp cur0 gas0).
Proof. intros. split; cbn; intros a l H; discriminate. Qed.
Theorem caps_sound_invariant : forall h p p', caps_sound p -> run p h = Ok p' -> caps_sound p'.
Proof.
  induction h as [|[o x] h IH]; intros p p' Hun H; cbn [run] in H; [inversion H; subst; auto|].
  apply bind_ok in H. destruct H as (p1 & H1 & H2). eapply IH; [|exact H2]. eapply step_CS; eauto.
Qed.

(* ================================================================ affordability half of pending_executable *)
Definition fr (p q : pool) : Prop := cur q = cur p /\ maxgas q = maxgas p.
Lemma fr_refl : forall p, fr p p. Proof. split; reflexivity. Qed.
Lemma fr_trans : forall p q r, fr p q -> fr q r -> fr p r. Proof. intros p q r [A B] [C D]. split; congruence. Qed.
Definition aff (p : pool) (a : Z) (l : list tx) : Prop := Forall (fun t => tcost t <= cur_balance p a /\ tgas t <= maxgas p) l.
Lemma aff_fr : forall p q a l, fr p q -> aff p a l -> aff q a l.
Proof. intros p q a l [A B] H. unfold aff, cur_balance in *. rewrite A, B. exact H. Qed.
Lemma AF_same : forall p q, pending q = pending p -> fr p q -> pending_affordable p -> pending_affordable q.
Proof. intros p q Hp F H a l Hl. rewrite Hp in Hl. apply (aff_fr p q a _ F). apply H. auto. Qed.
Lemma AF_pset : forall p q a l', pending_affordable p -> aff p a (items l') -> pending q = assoc_set a l' (pending p) -> fr p q -> pending_affordable q.
Proof.
  intros p q a l' H A Hp F b l Hl. rewrite Hp in Hl. apply (aff_fr p q b _ F).
  destruct (Z.eq_dec b a) as [->|Hne]; [rewrite assoc_set_same in Hl; inversion Hl; subst; auto|rewrite assoc_set_other in Hl by auto; apply H; auto].
Qed.
Lemma AF_pdel : forall p q a, pending_affordable p -> pending q = assoc_del a (pending p) -> fr p q -> pending_affordable q.
Proof.
  intros p q a H Hp F b l Hl. rewrite Hp in Hl. apply (aff_fr p q b _ F).
  destruct (Z.eq_dec b a) as [->|Hne]; [rewrite assoc_del_same in Hl; discriminate|rewrite assoc_del_other in Hl by auto; apply H; auto].
Qed.
Lemma aff_incl : forall p a l l', aff p a l -> incl l' l -> aff p a l'.
Proof. unfold aff. intros p a l l' H I. rewrite Forall_forall in *. auto. Qed.

Lemma fr_drop_all : forall D p, fr p (drop_all p D).
Proof. unfold drop_all. induction D as [|d D IH]; intros p; cbn [fold_left]; [apply fr_refl|]. eapply fr_trans; [|apply IH]. split; reflexivity. Qed.
Lemma fr_enqueue : forall p t, fr p (snd (enqueue_tx p t)).
Proof.
  intros p t. unfold enqueue_tx. destruct (tl_add _ t (c_bump (conf p))) as [[ins old] l']. destruct ins; [destruct old|]; split; reflexivity.
Qed.
Lemma fr_enqueue_fold : forall ex p, fr p (fold_left (fun q x => snd (enqueue_tx q x)) ex p).
Proof. induction ex as [|x ex IH]; intros p; cbn [fold_left]; [apply fr_refl|]. eapply fr_trans; [apply fr_enqueue|apply IH]. Qed.
Lemma fr_promote : forall p a t, fr p (promote_tx p a t).
Proof.
  intros p a t. unfold promote_tx. destruct (tl_add _ t (c_bump (conf p))) as [[ins old] l']. destruct ins; [|split; reflexivity].
  destruct old; cbn; match goal with |- context [match ?X with _ => _ end] => destruct X end; split; reflexivity.
Qed.

Lemma tl_add_items : forall l t bump b old l' x, tl_add l t bump = (b, old, l') -> In x (items l') -> x = t \/ In x (items l).
Proof.
  intros l t bump b old l' x H Hx. unfold tl_add in H. destruct (match tl_get l (tnonce t) with Some o => _ | None => false end); inversion H; subst; auto.
  cbn [items] in Hx. apply ins_in_weak in Hx. auto.
Qed.
Lemma promote_AF : forall p a t, pending_affordable p -> tcost t <= cur_balance p a /\ tgas t <= maxgas p -> pending_affordable (promote_tx p a t).
Proof.
  intros p a t H Ht. pose proof (fr_promote p a t) as F. unfold promote_tx in *.
  change (match assoc a (pending p) with Some l => l | None => new_txlist true end) with (list_of (pending p) a true) in *.
  assert (A0 : aff p a (items (list_of (pending p) a true))).
  { unfold list_of. destruct (assoc a (pending p)) eqn:E; [apply H; auto|constructor]. }
  destruct (tl_add (list_of (pending p) a true) t (c_bump (conf p))) as [[ins old] l'] eqn:E.
  assert (A1 : aff p a (items l')).
  { unfold aff in *. rewrite Forall_forall in *. intros x Hx. destruct (tl_add_items _ _ _ _ _ _ _ E Hx) as [->|Hx']; auto. }
  destruct ins.
  - eapply AF_pset with (p := p) (l' := l'); eauto.
    destruct old; cbn; match goal with |- context [match ?X with _ => _ end] => destruct X end; reflexivity.
  - pose proof (tl_add_reject _ _ _ _ _ E) as ->. eapply AF_pset with (p := p) (l' := list_of (pending p) a true); eauto; try reflexivity.
Qed.
Lemma promote_fold_AF : forall a ready p, pending_affordable p -> aff p a ready ->
  pending_affordable (fold_left (fun q t => promote_tx q a t) ready p) /\ fr p (fold_left (fun q t => promote_tx q a t) ready p).
Proof.
  induction ready as [|t ready IH]; intros p H A; cbn [fold_left]; [split; [auto|apply fr_refl]|].
  inversion A as [|? ? At A']; subst. pose proof (fr_promote p a t) as F.
  destruct (IH (promote_tx p a t)) as [H2 F2]; [apply promote_AF; auto|apply (aff_fr p); auto|].
  split; auto. eapply fr_trans; eauto.
Qed.

Lemma enqueue_pending : forall p t, pending (snd (enqueue_tx p t)) = pending p.
Proof. intros p t. unfold enqueue_tx. destruct (tl_add _ t (c_bump (conf p))) as [[ins old] l']. destruct ins; [destruct old|]; reflexivity. Qed.
Lemma enqueue_fold_pending : forall ex p, pending (fold_left (fun q x => snd (enqueue_tx q x)) ex p) = pending p.
Proof. induction ex as [|x ex IH]; intros p; cbn [fold_left]; auto. rewrite IH. apply enqueue_pending. Qed.

Lemma remove_AF : forall o p h, pending_affordable p -> pending_affordable (remove_tx o p h) /\ fr p (remove_tx o p h).
Proof.
  intros o p h H. unfold remove_tx. destruct (assoc h (all p)) as [t|]; [|split; [auto|apply fr_refl]].
  set (p1 := all_drop p h). assert (F1 : fr p p1) by (split; reflexivity). assert (H1 : pending_affordable p1) by (eapply AF_same; eauto; reflexivity).
  clearbody p1.
  assert (HQ : let r := match assoc (tfrom t) (queue p1) with
      | None => p1
      | Some f => let '(_, _, f') := tl_remove o f t in
                  if tl_empty f' then set_queue p1 (assoc_del (tfrom t) (queue p1)) else set_queue p1 (assoc_set (tfrom t) f' (queue p1))
      end in pending_affordable r /\ fr p r).
  { destruct (assoc (tfrom t) (queue p1)) as [f|]; [|split; auto]. destruct (tl_remove o f t) as [[b invs] f'].
    destruct (tl_empty f'); (split; [eapply AF_same; [| |exact H1]; [reflexivity|split; reflexivity]|eapply fr_trans; [exact F1|split; reflexivity]]). }
  destruct (assoc (tfrom t) (pending p1)) as [pl|] eqn:P; [|exact HQ].
  destruct (tl_remove o pl t) as [[b invs] pl'] eqn:R. destruct b; [|exact HQ].
  assert (Ipl : incl (items pl') (items pl)).
  { unfold tl_remove in R. destruct (tl_get pl (tnonce t)); [|inversion R].
    destruct (strict pl); inversion R; subst; cbn; intros x Hx; repeat (apply filter_In in Hx; destruct Hx as [Hx _]); auto. }
  match goal with |- pending_affordable (if _ then pn_set ?XX _ _ else _) /\ _ => assert (H2 : pending_affordable XX /\ fr p XX) end.
  { match goal with |- pending_affordable (fold_left _ invs ?PB) /\ _ => set (pb := PB) end.
    assert (Hb : pending_affordable pb /\ fr p1 pb).
    { subst pb. destruct (tl_empty pl'); (split; [|split; reflexivity]).
      - eapply AF_pdel with (p := p1); eauto; [reflexivity|split; reflexivity].
      - eapply AF_pset with (p := p1) (l' := pl'); eauto; [eapply aff_incl; [apply (H1 _ _ P)|exact Ipl]|reflexivity|split; reflexivity]. }
    destruct Hb as [Hb Fb]. pose proof (fr_enqueue_fold invs pb) as Fe. pose proof (enqueue_fold_pending invs pb) as Pe.
    split; [eapply AF_same; eauto|eapply fr_trans; [exact F1|eapply fr_trans; eauto]]. }
  destruct H2 as [H2 F2]. match goal with |- pending_affordable (if ?c then _ else _) /\ _ => destruct c end; split; try exact H2; exact F2.
Qed.

Definition M (p : pool) : Prop := caps_sound p /\ pending_affordable p.

Lemma remove_fold_AF : forall o (l : list tx) p, pending_affordable p ->
  pending_affordable (fold_left (fun q t => remove_tx o q (thash t)) l p) /\ fr p (fold_left (fun q t => remove_tx o q (thash t)) l p).
Proof.
  induction l as [|x l IH]; intros p H; cbn [fold_left]; [split; [auto|apply fr_refl]|].
  destruct (remove_AF o p (thash x) H) as [H1 F1]. destruct (IH _ H1) as [H2 F2]. split; auto. eapply fr_trans; eauto.
Qed.
Lemma remove_fold_M : forall o (l : list tx) p, M p -> M (fold_left (fun q t => remove_tx o q (thash t)) l p).
Proof. intros o l p [C A]. split; [apply remove_fold_CS; auto|apply remove_fold_AF; auto]. Qed.

Lemma pe_account_M : forall o p a p', M p -> pe_account o p a = Ok p' -> M p'.
Proof.
  intros o p a p' [HC HA] H. split; [eapply pe_account_CS; eauto|].
  unfold pe_account in H. destruct (assoc a (queue p)) as [l|] eqn:Q; [|inversion H; subst; auto].
  pose proof (proj2 HC _ _ Q) as C0.
  destruct (tl_forward l (cur_nonce p a)) as [old l1] eqn:F. pose proof (tl_forward_caps _ _ _ _ F C0) as C1.
  set (p1 := drop_all (set_queue p (assoc_set a l1 (queue p))) old) in *.
  destruct (drop_all_pq old (set_queue p (assoc_set a l1 (queue p)))) as [Pp1 _]. fold p1 in Pp1. cbn [pending set_queue] in Pp1.
  assert (F1 : fr p p1) by (eapply fr_trans; [|apply fr_drop_all]; split; reflexivity).
  assert (A1 : pending_affordable p1) by (eapply AF_same; eauto). clearbody p1.
  destruct (tl_filter o l1 (cur_balance p1 a) (maxgas p1)) as [[drops invs] l2] eqn:Fi. destruct (tl_filter_caps _ _ _ _ _ _ _ Fi C1) as [C2 Af2].
  set (p2 := drop_all (set_queue p1 (assoc_set a l2 (queue p1))) drops) in *.
  destruct (drop_all_pq drops (set_queue p1 (assoc_set a l2 (queue p1)))) as [Pp2 _]. fold p2 in Pp2. cbn [pending set_queue] in Pp2.
  assert (F2 : fr p1 p2) by (eapply fr_trans; [|apply fr_drop_all]; split; reflexivity).
  assert (A2 : pending_affordable p2) by (eapply AF_same; eauto). clearbody p2.
  destruct (tl_ready l2 (pn_get p2 a)) as [ready l3] eqn:R. destruct (tl_ready_caps _ _ _ _ R C2) as [_ Ir].
  set (pb := set_queue p2 (assoc_set a l3 (queue p2))) in *.
  assert (Fb : fr p2 pb) by (split; reflexivity).
  assert (Ab : pending_affordable pb) by (eapply AF_same; eauto; reflexivity).
  destruct (promote_fold_AF a ready pb Ab) as [A3 F3].
  { apply (aff_fr p2 pb a _ Fb). apply (aff_fr p1 p2 a _ F2). eapply aff_incl; [exact Af2|exact Ir]. }
  set (p3 := fold_left (fun q t => promote_tx q a t) ready pb) in *. clearbody p3.
  apply bind_ok in H. destruct H as ([p4 l4] & E1 & E2).
  assert (A4 : pending_affordable p4).
  { destruct (memZ a (locals p3)); [inversion E1; subst; auto|].
    destruct (tl_cap l3 (c_aqueue (conf p3))) as [[caps l4']|] eqn:C; [|discriminate]. inversion E1; subst; clear E1.
    destruct (drop_all_pq caps (set_queue p3 (assoc_set a l4 (queue p3)))) as [Pp4 _]. cbn [pending set_queue] in Pp4.
    eapply AF_same; [exact Pp4| |exact A3]. eapply fr_trans; [|apply fr_drop_all]. split; reflexivity. }
  inversion E2; subst. destruct (tl_empty l4); exact A4.
Qed.
Lemma shrink_one_M : forall p a p', M p -> shrink_one p a = Ok p' -> M p'.
Proof.
  intros p a p' [HC HA] H. split; [eapply shrink_one_CS; eauto|].
  unfold shrink_one in H. destruct (assoc a (pending p)) as [l|] eqn:P; [|discriminate].
  destruct (tl_cap l (tl_len l - 1)) as [[drops l']|] eqn:C; [|discriminate]. inversion H; subst; clear H.
  set (pb := set_pending p (assoc_set a l' (pending p))).
  assert (Ab : pending_affordable pb).
  { eapply AF_pset with (p := p) (l' := l'); eauto; [|reflexivity|split; reflexivity]. eapply aff_incl; [apply (HA _ _ P)|].
    unfold tl_cap in C. destruct (Z.of_nat (length (items l)) <=? tl_len l - 1); [inversion C; subst; apply incl_refl|].
    destruct (tl_len l - 1 <? 0); [discriminate|]. inversion C; subst. cbn. intros x Hx. rewrite <- (firstn_skipn (Z.to_nat (tl_len l - 1)) (items l)). apply in_or_app. auto. }
  clearbody pb. clear C. revert pb Ab. induction drops as [|t drops IH]; intros pb Ab; cbn [fold_left]; auto.
  apply IH. cbv zeta. match goal with |- pending_affordable (if ?c then _ else _) => destruct c end; (eapply AF_same; [| |exact Ab]; [reflexivity|split; reflexivity]).
Qed.

Lemma validate_none : forall p t local, validate_tx p t local = None -> tcost t <= cur_balance p (tfrom t) /\ tgas t <= maxgas p.
Proof.
  intros p t local H. unfold validate_tx in H.
  repeat match type of H with (if ?c then _ else _) = None => destruct c eqn:?; [discriminate|] end. lia.
Qed.
Lemma add_insert_AF : forall p t local r p', pending_affordable p -> tcost t <= cur_balance p (tfrom t) /\ tgas t <= maxgas p ->
  add_insert p t local = (r, p') -> pending_affordable p'.
Proof.
  intros p t local r p' HA Ht H. unfold add_insert in H.
  assert (Henq : forall r p', match enqueue_tx p t with (inr e, p2) => (inr e, p2) | (inl rep, p2) => (inl rep, mark_local p2 (tfrom t) local) end = (r, p') -> pending_affordable p').
  { intros r0 p0 E. pose proof (enqueue_pending p t) as Pe. pose proof (fr_enqueue p t) as Fe.
    destruct (enqueue_tx p t) as [[rep|e] p2]; cbn [snd] in *; inversion E; subst.
    - unfold mark_local. destruct local; (eapply AF_same; [| |exact HA]; auto).
    - eapply AF_same; [| |exact HA]; auto. }
  destruct (assoc (tfrom t) (pending p)) as [l|] eqn:P; [|eapply Henq; eauto].
  destruct (tl_overlaps l t); [|eapply Henq; eauto].
  destruct (tl_add l t (c_bump (conf p))) as [[ins old] l'] eqn:E. destruct ins; [|inversion H; subst; auto].
  inversion H; subst; clear H.
  eapply AF_pset with (p := p) (l' := l'); eauto; [|destruct old; reflexivity|destruct old; split; reflexivity].
  unfold aff. rewrite Forall_forall. intros x Hx. destruct (tl_add_items _ _ _ _ _ _ _ E Hx) as [->|Hx']; auto.
  pose proof (HA _ _ P) as A. unfold aff in A. rewrite Forall_forall in A. auto.
Qed.
Lemma add_M : forall o p t local r p', M p -> add o p t local = (r, p') -> M p'.
Proof.
  intros o p t local r p' [HC HA] H. split; [eapply add_CS; eauto|].
  unfold add in H. destruct (assoc (thash t) (all p)); [inversion H; subst; auto|].
  destruct (validate_tx p t local) eqn:V; [inversion H; subst; auto|]. apply validate_none in V.
  match type of H with (if ?c then _ else _) = _ => destruct c end; [|eapply add_insert_AF; eauto].
  destruct (priced_underpriced o (all p) (locals p) (pricedl p) t) as [u pr].
  destruct u; [inversion H; subst; eapply AF_same; [| |exact HA]; [reflexivity|split; reflexivity]|].
  match type of H with (let '(_, _) := ?d in _) = _ => destruct d as [drop pr1] end.
  match type of H with add_insert (fold_left ?f drop ?p0) _ _ = _ => destruct (remove_fold_AF o drop p0) as [A1 F1] end.
  { eapply AF_same; [| |exact HA]; [reflexivity|split; reflexivity]. }
  eapply add_insert_AF; [exact A1| |exact H]. destruct F1 as [Fc Fg]. unfold cur_balance. rewrite Fc, Fg. exact V.
Qed.

(* demoteUnexecutables re-establishes affordability of every pending list from caps_sound alone *)
Lemma demote_account_aff : forall o p a p', caps_sound p -> demote_account o p a = Ok p' ->
  fr p p' /\ (forall b, b <> a -> assoc b (pending p') = assoc b (pending p)) /\ (forall l, assoc a (pending p') = Some l -> aff p' a (items l)).
Proof.
  intros o p a p' HC H. unfold demote_account in H. destruct (assoc a (pending p)) as [l|] eqn:P.
  2:{ inversion H; subst. split; [apply fr_refl|split; auto]. intros l Hl. rewrite P in Hl. discriminate. }
  pose proof (proj1 HC _ _ P) as C0.
  destruct (tl_forward l (cur_nonce p a)) as [old l1] eqn:F. pose proof (tl_forward_caps _ _ _ _ F C0) as C1.
  set (p1 := drop_all (set_pending p (assoc_set a l1 (pending p))) old) in *.
  destruct (drop_all_pq old (set_pending p (assoc_set a l1 (pending p)))) as [Pp1 _]. fold p1 in Pp1. cbn [pending set_pending] in Pp1.
  assert (F1 : fr p p1) by (eapply fr_trans; [|apply fr_drop_all]; split; reflexivity). clearbody p1.
  destruct (tl_filter o l1 (cur_balance p1 a) (maxgas p1)) as [[drops invs] l2] eqn:Fi. destruct (tl_filter_caps _ _ _ _ _ _ _ Fi C1) as [_ Af2].
  change (aff p1 a (items l2)) in Af2.
  set (p2 := drop_all (set_pending p1 (assoc_set a l2 (pending p1))) drops) in *.
  destruct (drop_all_pq drops (set_pending p1 (assoc_set a l2 (pending p1)))) as [Pp2 _]. fold p2 in Pp2. cbn [pending set_pending] in Pp2.
  assert (F2 : fr p1 p2) by (eapply fr_trans; [|apply fr_drop_all]; split; reflexivity). clearbody p2.
  pose proof (enqueue_fold_pending invs p2) as P3. pose proof (fr_enqueue_fold invs p2) as F3.
  set (p3 := fold_left (fun q x => snd (enqueue_tx q x)) invs p2) in *. clearbody p3.
  apply bind_ok in H. destruct H as ([p4 l4] & E1 & E2).
  assert (K4 : fr p3 p4 /\ pending p4 = assoc_set a l4 (pending p3) /\ incl (items l4) (items l2)).
  { destruct ((0 <? tl_len l2) && match tl_get l2 (cur_nonce p a) with None => true | Some _ => false end).
    - destruct (tl_cap l2 0) as [[caps l3]|] eqn:C; [|discriminate]. inversion E1; subst; clear E1.
      split; [|split].
      + eapply fr_trans; [|apply fr_enqueue_fold]. split; reflexivity.
      + rewrite enqueue_fold_pending. reflexivity.
      + unfold tl_cap in C. destruct (Z.of_nat (length (items l2)) <=? 0); [inversion C; subst; apply incl_refl|]. cbn in C. inversion C; subst. cbn. intros x [].
    - inversion E1; subst. split; [apply fr_refl|split; [|apply incl_refl]].
      rewrite P3, Pp2. clear. induction (pending p1) as [|[k v] m IH]; cbn [assoc_set]; [rewrite Z.eqb_refl; auto|].
      destruct (a =? k) eqn:E; cbn [assoc_set]; rewrite ?Z.eqb_refl, ?E; auto. rewrite IH at 1. auto. }
  destruct K4 as (F4 & Pp4 & I4).
  assert (Fall : fr p p4) by (eapply fr_trans; [exact F1|eapply fr_trans; [exact F2|eapply fr_trans; [exact F3|exact F4]]]).
  assert (Fp14 : fr p1 p4) by (eapply fr_trans; [exact F2|eapply fr_trans; [exact F3|exact F4]]).
  assert (Oth : forall b, b <> a -> assoc b (pending p4) = assoc b (pending p)).
  { intros b Hb. rewrite Pp4, assoc_set_other, P3, Pp2, assoc_set_other, Pp1, assoc_set_other by auto. auto. }
  assert (Afa : forall l0, assoc a (pending p4) = Some l0 -> aff p4 a (items l0)).
  { intros l0 Hl0. rewrite Pp4, assoc_set_same in Hl0. inversion Hl0; subst. apply (aff_fr p1 p4 a _ Fp14). eapply aff_incl; eauto. }
  inversion E2; subst. destruct (tl_empty l4).
  - split; [eapply fr_trans; [exact Fall|split; reflexivity]|split].
    + intros b Hb. cbn [pending set_beats set_pending]. rewrite assoc_del_other by auto. auto.
    + intros l0 Hl0. cbn [pending set_beats set_pending] in Hl0. rewrite assoc_del_same in Hl0. discriminate.
  - split; [exact Fall|split; auto].
Qed.
Lemma demote_fold_aff : forall o keys p p' D, caps_sound p ->
  (forall a l, In a D -> assoc a (pending p) = Some l -> aff p a (items l)) ->
  fold_res (demote_account o) keys p = Ok p' ->
  caps_sound p' /\ fr p p' /\ (forall b, ~ In b keys -> assoc b (pending p') = assoc b (pending p)) /\
  (forall a l, In a D \/ In a keys -> assoc a (pending p') = Some l -> aff p' a (items l)).
Proof.
  induction keys as [|a keys IH]; intros p p' D HC HD H; cbn [fold_res] in H.
  - inversion H; subst. split; [auto|split; [apply fr_refl|split; [auto|]]]. intros a l [Ha|[]]; auto.
  - apply bind_ok in H. destruct H as (p1 & H1 & H2).
    pose proof (demote_account_CS _ _ _ _ HC H1) as C1. destruct (demote_account_aff _ _ _ _ HC H1) as (F1 & O1 & A1).
    destruct (IH p1 p' (a :: D) C1) as (C' & F' & O' & A'); auto.
    + intros b l [<-|Hb] Hl; [apply A1; auto|]. destruct (Z.eq_dec b a) as [->|Hne]; [apply A1; auto|].
      rewrite O1 in Hl by auto. apply (aff_fr p p1 b _ F1). eapply HD; eauto.
    + split; [auto|split; [eapply fr_trans; eauto|split]].
      * intros b Hb. rewrite O' by (intros Hk; apply Hb; right; auto). apply O1. intros ->. apply Hb. left; auto.
      * intros b l Hb Hl. apply (A' b l); [cbn [In] in *; tauto|exact Hl].
Qed.
Lemma memZ_in : forall k l, memZ k l = true <-> In k l.
Proof.
  intros k l. unfold memZ. rewrite existsb_exists. split; [intros (x & Hx & E); assert (k = x) by lia; subst; auto|intros H; exists k; split; auto; lia].
Qed.
Lemma order_keys_in : forall perm keys a, In a keys -> In a (order_keys perm keys).
Proof.
  intros perm keys a Ha. unfold order_keys. apply in_or_app. destruct (memZ a perm) eqn:E.
  - left. apply filter_In. split; [apply memZ_in; auto|apply memZ_in; auto].
  - right. apply filter_In. split; auto. rewrite E. auto.
Qed.
Lemma assoc_in_keys : forall A a (m : list (Z * A)) v, assoc a m = Some v -> In a (map fst m).
Proof.
  induction m as [|[k w] m IH]; intros v H; cbn [assoc] in H; [discriminate|]. cbn [map fst In].
  destruct (a =? k) eqn:E; [left; lia|right; eauto].
Qed.
Lemma demote_unexecutables_M : forall o p p', caps_sound p -> demote_unexecutables o p = Ok p' -> M p'.
Proof.
  intros o p p' HC H. unfold demote_unexecutables in H.
  destruct (demote_fold_aff o (order_keys (operm4 o) (map fst (pending p))) p p' [] HC) as (C' & F' & O' & A'); [intros a l []|exact H|].
  split; auto. intros a l Hl.
  destruct (in_dec Z.eq_dec a (order_keys (operm4 o) (map fst (pending p)))) as [Hin|Hnin]; [eapply A'; eauto|].
  exfalso. apply Hnin. rewrite O' in Hl by auto. apply order_keys_in. eapply assoc_in_keys; eauto.
Qed.

(* M = caps_sound /\ pending_affordable through the loops and the operations *)
Lemma shrink_fold_M : forall l (st r : pool * Z), M (fst st) ->
  fold_res (fun (st : pool * Z) a => q <- shrink_one (fst st) a ;; Ok (q, (snd st - 1) mod two64)) l st = Ok r -> M (fst r).
Proof.
  intros l st r Hun H. eapply (fold_res_inv _ _ (fun st => M (fst st))); eauto.
  intros a x a' Ha Hf. apply bind_ok in Hf. destruct Hf as (q & H1 & H2). inversion H2; subst. cbn [fst]. eapply shrink_one_M; eauto.
Qed.
Lemma equalize_M : forall fuel p cnt offs th r, M p -> equalize fuel p cnt offs th = Ok r -> M (fst r).
Proof.
  induction fuel as [|f IH]; intros p cnt offs th r Hun H; cbn [equalize] in H; [discriminate|].
  apply bind_ok in H. destruct H as (n & _ & H).
  destruct ((c_gslots (conf p) <? cnt) && (th <? n)); [|inversion H; subst; auto].
  apply bind_ok in H. destruct H as (r1 & H1 & H2). eapply IH; [|exact H2]. eapply shrink_fold_M; [|exact H1]. auto.
Qed.
Lemma spam_loop_M : forall fuel o p cnt sp offs r, M p -> spam_loop fuel o p cnt sp offs = Ok r -> M (fst (fst r)).
Proof.
  induction fuel as [|f IH]; intros o p cnt sp offs r Hun H; cbn [spam_loop] in H; [discriminate|].
  destruct (c_gslots (conf p) <? cnt); [|inversion H; subst; auto].
  destruct (prque_pop o sp) as [[off rest]|]; [|inversion H; subst; auto].
  destruct (1 <? Z.of_nat (length (offs ++ [off]))).
  - apply bind_ok in H. destruct H as (th & _ & H). apply bind_ok in H. destruct H as (r1 & H1 & H2).
    eapply IH; [|exact H2]. eapply equalize_M; eauto.
  - eapply IH; eauto.
Qed.
Lemma minimum_loop_M : forall fuel p cnt offs r, M p -> minimum_loop fuel p cnt offs = Ok r -> M (fst r).
Proof.
  induction fuel as [|f IH]; intros p cnt offs r Hun H; cbn [minimum_loop] in H; [discriminate|].
  apply bind_ok in H. destruct H as (n & _ & H).
  destruct ((c_gslots (conf p) <? cnt) && (c_aslots (conf p) <? n)); [|inversion H; subst; auto].
  apply bind_ok in H. destruct H as (r1 & H1 & H2). eapply IH; [|exact H2]. eapply shrink_fold_M; [|exact H1]. auto.
Qed.
Lemma pe_pending_limit_M : forall o p p', M p -> pe_pending_limit o p = Ok p' -> M p'.
Proof.
  intros o p p' Hun H. unfold pe_pending_limit in H. destruct (c_gslots (conf p) <? pending_count p); [|inversion H; subst; auto].
  apply bind_ok in H. destruct H as ([[p1 cnt1] offs] & H1 & H2). apply spam_loop_M in H1; auto. cbn [fst] in H1.
  destruct ((c_gslots (conf p1) <? cnt1) && negb (match offs with [] => true | _ => false end)); [|inversion H2; subst; auto].
  apply bind_ok in H2. destruct H2 as (r2 & H3 & H4). inversion H4; subst. eapply minimum_loop_M; eauto.
Qed.
Lemma gq_loop_M : forall o addrs p drop p', M p -> gq_loop o p addrs drop = Ok p' -> M p'.
Proof.
  induction addrs as [|a rest IH]; intros p drop p' Hun H; cbn [gq_loop] in H; [inversion H; subst; auto|].
  destruct (0 <? drop); [|inversion H; subst; auto]. destruct (assoc a (queue p)) as [l|]; [|discriminate].
  destruct (tl_len l <=? drop); eapply IH; try exact H; apply remove_fold_M; auto.
Qed.
Lemma promote_executables_M : forall o p accs p', M p -> promote_executables o p accs = Ok p' -> M p'.
Proof.
  intros o p accs p' Hun H. unfold promote_executables in H.
  apply bind_ok in H. destruct H as (p1 & H1 & H). apply bind_ok in H. destruct H as (p2 & H2 & H3).
  assert (U1 : M p1). { eapply (fold_res_inv _ _ M); [|exact Hun|exact H1]. intros; eapply pe_account_M; eauto. }
  assert (U2 : M p2) by (eapply pe_pending_limit_M; eauto).
  unfold pe_queue_limit in H3. destruct (c_gqueue (conf p2) <? queued_count p2); [|inversion H3; subst; auto]. eapply gq_loop_M; eauto.
Qed.
Lemma add_tx_M : forall o p t local e p', M p -> add_tx o p t local = Ok (e, p') -> M p'.
Proof.
  intros o p t local e p' Hun H. unfold add_tx in H. destruct (add o p t local) as [[rep|er] p1] eqn:A; pose proof (add_M _ _ _ _ _ _ Hun A) as U1.
  - destruct rep; [inversion H; subst; auto|]. apply bind_ok in H. destruct H as (p2 & H1 & H2). inversion H2; subst. eapply promote_executables_M; eauto.
  - inversion H; subst; auto.
Qed.
Lemma add_txs_locked_M : forall o p txs local r, M p -> add_txs_locked o p txs local = Ok r -> M (snd r).
Proof.
  intros o p txs local r Hun H. unfold add_txs_locked in H.
  assert (G : forall txs st, M (snd st) -> M (snd (fold_left (atl_step o local) txs st))).
  { induction txs0 as [|t txs0 IH]; intros st Hst; cbn [fold_left]; auto. apply IH.
    destruct st as [[errs dirty] q]. cbn [snd] in *. unfold atl_step. destruct (add o q t local) as [[rep|er] q1] eqn:A; cbn [snd]; eapply add_M; eauto. }
  specialize (G txs ([], [], p) Hun).
  destruct (fold_left (atl_step o local) txs ([], [], p)) as [[errs dirty] p1]. cbn [snd] in G.
  destruct dirty; [inversion H; subst; auto|]. apply bind_ok in H. destruct H as (p2 & H1 & H2). inversion H2; subst. cbn [snd].
  eapply promote_executables_M; eauto.
Qed.
Lemma set_gas_price_M : forall o p g, M p -> M (set_gas_price o p g).
Proof.
  intros o p g Hun. unfold set_gas_price. match goal with |- context [priced_cap ?a ?b ?c ?d ?e] => destruct (priced_cap a b c d e) as [drop pr] end.
  apply remove_fold_M. exact Hun.
Qed.
(* reset needs only caps_sound of the old state: the head change invalidates affordability, demoteUnexecutables restores it *)
Lemma reset_M : forall o p c g ri p', caps_sound p -> reset o p c g ri = Ok p' -> M p'.
Proof.
  intros o p c g ri p' HC H. unfold reset in H.
  assert (C0 : caps_sound (set_head p c g)) by exact HC.
  apply bind_ok in H. destruct H as (p1 & H1 & H). apply bind_ok in H. destruct H as (p2 & H2 & H). apply bind_ok in H. destruct H as (p3 & H3 & H4).
  assert (C1 : caps_sound p1).
  { destruct ri; [inversion H1; subst; auto|]. apply bind_ok in H1. destruct H1 as (r & A & B). inversion B; subst. eapply add_txs_locked_CS; eauto. }
  assert (M2 : M p2) by (eapply demote_unexecutables_M; eauto).
  assert (M3 : M p3).
  { eapply (fold_res_inv _ _ M); [|exact M2|exact H3]. intros q a q' Hq Hf. cbv beta in Hf. destruct (assoc a (pending q)) as [tl|]; [|inversion Hf; subst; auto].
    destruct (rev (items tl)); [discriminate|]. inversion Hf; subst. exact Hq. }
  eapply promote_executables_M; eauto.
Qed.
Lemma step_M : forall o p x p', M p -> step o p x = Ok p' -> M p'.
Proof.
  intros o p x p' HM H. destruct x; cbn [step] in H.
  - apply bind_ok in H. destruct H as ([e q] & H1 & H2). inversion H2; subst. eapply add_tx_M; eauto.
  - apply bind_ok in H. destruct H as ([e q] & H1 & H2). inversion H2; subst. eapply add_tx_M; eauto.
  - inversion H; subst. apply set_gas_price_M; auto.
  - eapply reset_M; [apply HM|eauto].
Qed.
Theorem M_invariant : forall h p p', M p -> run p h = Ok p' -> M p'.
Proof.
  induction h as [|[o x] h IH]; intros p p' HM H; cbn [run] in H; [inversion H; subst; auto|].
  apply bind_ok in H. destruct H as (p1 & H1 & H2). eapply IH; [|exact H2]. eapply step_M; eauto.
Qed.
(* the affordability half of pending_executable, and soundness of the cached ceilings, after every history *)
Theorem affordable_invariant : forall h c gp cur0 gas0 p', run (new_pool c gp cur0 gas0) h = Ok p' -> caps_sound p' /\ pending_affordable p'.
Proof.
  intros h c gp cur0 gas0 p' H. apply (M_invariant h (new_pool c gp cur0 gas0)); auto.
  split; [apply new_pool_CS|]. intros a l Hl. cbn in Hl. discriminate.
Qed.

(* ================================================================ the pending-limit loops keep pending gap-free and the virtual nonce in step *)
Lemma run_from_app : forall a b c, run_from c (a ++ b) <-> run_from c a /\ run_from (c + Z.of_nat (length a)) b.
Proof.
  induction a as [|x a IH]; intros b c; cbn [app run_from length].
  - rewrite Z.add_0_r. tauto.
  - rewrite IH. replace (c + 1 + Z.of_nat (length a)) with (c + Z.of_nat (S (length a))) by lia. tauto.
Qed.
Lemma pn_get_set : forall p a n b, pn_get (pn_set p a n) b = if b =? a then n else pn_get p b.
Proof.
  intros p a n b. unfold pn_get, pn_set. cbn [pnonce set_pnonce cur_nonce cur]. destruct (b =? a) eqn:E.
  - assert (b = a) by lia. subst. rewrite assoc_set_same. auto.
  - rewrite assoc_set_other by lia. reflexivity.
Qed.
Lemma shrink_one_pn : forall p a p', pn_ok p -> shrink_one p a = Ok p' -> pn_ok p'.
Proof.
  intros p a p' H0 H. unfold shrink_one in H. destruct (assoc a (pending p)) as [l|] eqn:P; [|discriminate].
  pose proof (H0 a) as Ha. rewrite P in Ha. destruct Ha as [Hr Hn].
  unfold tl_cap in H. unfold tl_len in *. destruct (Z.of_nat (length (items l)) <=? Z.of_nat (length (items l)) - 1) eqn:E1; [lia|].
  destruct (Z.of_nat (length (items l)) - 1 <? 0) eqn:E2; [discriminate|]. inversion H; subst; clear H.
  set (k := Z.to_nat (Z.of_nat (length (items l)) - 1)) in *.
  assert (Hk : (k = length (items l) - 1)%nat /\ (1 <= length (items l))%nat) by (unfold k; lia). destruct Hk as [Hk Hlen].
  pose proof (firstn_skipn k (items l)) as Hsplit. rewrite <- Hsplit in Hr. apply run_from_app in Hr. destruct Hr as [Hr1 Hr2].
  assert (Lf : length (firstn k (items l)) = k) by (apply firstn_length_le; lia). rewrite Lf in Hr2.
  assert (Ls : length (skipn k (items l)) = 1%nat) by (rewrite skipn_length; lia).
  destruct (skipn k (items l)) as [|t [|u r]] eqn:Sk; cbn [length] in Ls; try lia. cbn [run_from] in Hr2. destruct Hr2 as [Ht _].
  cbn [rev app fold_left].
  set (l' := mkTL (strict l) (firstn k (items l)) (costcap l) (gascap l)) in *.
  set (pb := set_pending p (assoc_set a l' (pending p))).
  assert (Hpn : pn_get (all_drop pb (thash t)) a = pn_get p a) by reflexivity.
  rewrite Hpn. destruct (tnonce t <? pn_get p a) eqn:E3; [|lia].
  intros b. cbn [pending pn_set set_pnonce all_drop set_all set_priced]. fold pb.
  change (pending pb) with (assoc_set a l' (pending p)).
  rewrite pn_get_set. change (cur_nonce (pn_set (all_drop pb (thash t)) a (tnonce t)) b) with (cur_nonce p b).
  destruct (Z.eq_dec b a) as [->|Hne].
  - rewrite assoc_set_same, Z.eqb_refl. split; [exact Hr1|]. unfold l', tl_len. cbn [items]. rewrite Lf. lia.
  - rewrite assoc_set_other by auto. destruct (b =? a) eqn:E; [lia|]. change (pn_get (all_drop pb (thash t)) b) with (pn_get p b). apply (H0 b).
Qed.

Lemma shrink_fold_pn : forall l (st r : pool * Z), pn_ok (fst st) ->
  fold_res (fun (st : pool * Z) a => q <- shrink_one (fst st) a ;; Ok (q, (snd st - 1) mod two64)) l st = Ok r -> pn_ok (fst r).
Proof.
  intros l st r Hun H. eapply (fold_res_inv _ _ (fun st => pn_ok (fst st))); eauto.
  intros a x a' Ha Hf. apply bind_ok in Hf. destruct Hf as (q & H1 & H2). inversion H2; subst. cbn [fst]. eapply shrink_one_pn; eauto.
Qed.
Lemma equalize_pn : forall fuel p cnt offs th r, pn_ok p -> equalize fuel p cnt offs th = Ok r -> pn_ok (fst r).
Proof.
  induction fuel as [|f IH]; intros p cnt offs th r Hun H; cbn [equalize] in H; [discriminate|].
  apply bind_ok in H. destruct H as (n & _ & H).
  destruct ((c_gslots (conf p) <? cnt) && (th <? n)); [|inversion H; subst; auto].
  apply bind_ok in H. destruct H as (r1 & H1 & H2). eapply IH; [|exact H2]. eapply shrink_fold_pn; [|exact H1]. auto.
Qed.
Lemma spam_loop_pn : forall fuel o p cnt sp offs r, pn_ok p -> spam_loop fuel o p cnt sp offs = Ok r -> pn_ok (fst (fst r)).
Proof.
  induction fuel as [|f IH]; intros o p cnt sp offs r Hun H; cbn [spam_loop] in H; [discriminate|].
  destruct (c_gslots (conf p) <? cnt); [|inversion H; subst; auto].
  destruct (prque_pop o sp) as [[off rest]|]; [|inversion H; subst; auto].
  destruct (1 <? Z.of_nat (length (offs ++ [off]))).
  - apply bind_ok in H. destruct H as (th & _ & H). apply bind_ok in H. destruct H as (r1 & H1 & H2).
    eapply IH; [|exact H2]. eapply equalize_pn; eauto.
  - eapply IH; eauto.
Qed.
Lemma minimum_loop_pn : forall fuel p cnt offs r, pn_ok p -> minimum_loop fuel p cnt offs = Ok r -> pn_ok (fst r).
Proof.
  induction fuel as [|f IH]; intros p cnt offs r Hun H; cbn [minimum_loop] in H; [discriminate|].
  apply bind_ok in H. destruct H as (n & _ & H).
  destruct ((c_gslots (conf p) <? cnt) && (c_aslots (conf p) <? n)); [|inversion H; subst; auto].
  apply bind_ok in H. destruct H as (r1 & H1 & H2). eapply IH; [|exact H2]. eapply shrink_fold_pn; [|exact H1]. auto.
Qed.
Lemma pe_pending_limit_pn : forall o p p', pn_ok p -> pe_pending_limit o p = Ok p' -> pn_ok p'.
Proof.
  intros o p p' Hun H. unfold pe_pending_limit in H. destruct (c_gslots (conf p) <? pending_count p); [|inversion H; subst; auto].
  apply bind_ok in H. destruct H as ([[p1 cnt1] offs] & H1 & H2). apply spam_loop_pn in H1; auto. cbn [fst] in H1.
  destruct ((c_gslots (conf p1) <? cnt1) && negb (match offs with [] => true | _ => false end)); [|inversion H2; subst; auto].
  apply bind_ok in H2. destruct H2 as (r2 & H3 & H4). inversion H4; subst. eapply minimum_loop_pn; eauto.
Qed.

(* non-vacuity for the pending-limit theorem: AccountSlots=1, GlobalSlots=4; A has pending [0] and queued [2,3], B has
   pending [0,1]; A submits nonce 1, four of A's transactions are pending, the total overflows and A (4) and B (2) are
   equalised: A keeps nonces 0,1 and its virtual nonce is lowered to 2 *)
Definition cfg_slots : cfg := mkCfg 1 4 3 6 10 false.
Definition slots_history : list (oracle * op) :=
  [(o0, OpAddRemote (mk 1 0 0 3000)); (o0, OpAddRemote (mk 2 0 2 3100)); (o0, OpAddRemote (mk 3 0 3 3200));
   (o0, OpAddRemote (mk 4 1 0 10)); (o0, OpAddRemote (mk 5 1 1 11)); (o0, OpAddRemote (mk 6 0 1 3300))].
Lemma slots_history_runs :
  exists p, run (new_pool cfg_slots 1 [(0, (0, 1000000000)); (1, (0, 1000000000))] 1000000) slots_history = Ok p /\
            map (fun kv => (fst kv, map tnonce (items (snd kv)))) (pending p) = [(0, [0; 1]); (1, [0; 1])] /\
            pn_get p 0 = 2 /\ pn_okb p [0; 1] = true.
Proof. eexists. split; [vm_compute; reflexivity|]. vm_compute. auto. Qed.

(* promoting the transaction whose nonce is the virtual nonce extends the run by one and advances the virtual nonce *)
Lemma run_from_bounds : forall l c x, run_from c l -> In x l -> c <= tnonce x < c + Z.of_nat (length l).
Proof.
  induction l as [|y l IH]; intros c x Hr Hx; [destruct Hx|]. cbn [run_from length] in *. destruct Hr as [Hy Hr].
  destruct Hx as [->|Hx]; [lia|]. specialize (IH _ _ Hr Hx). lia.
Qed.
Lemma ins_end : forall t l, (forall x, In x l -> tnonce x < tnonce t) -> ins_tx t l = l ++ [t].
Proof.
  induction l as [|y l IH]; intros H; cbn [ins_tx app]; auto. pose proof (H y (or_introl eq_refl)).
  destruct (tnonce t <? tnonce y) eqn:E1; [lia|]. destruct (tnonce t =? tnonce y) eqn:E2; [lia|]. rewrite IH; auto. intros x Hx. apply H. right; auto.
Qed.
Lemma promote_tx_pn : forall p a t, pn_ok p -> tnonce t = pn_get p a -> 0 <= tnonce t < two64 - 1 -> pn_ok (promote_tx p a t).
Proof.
  intros p a t H0 Hn Hb. pose proof (H0 a) as Ha. unfold promote_tx.
  change (match assoc a (pending p) with Some l => l | None => new_txlist true end) with (list_of (pending p) a true).
  assert (Hl0 : run_from (cur_nonce p a) (items (list_of (pending p) a true)) /\ pn_get p a = cur_nonce p a + tl_len (list_of (pending p) a true)).
  { unfold list_of. destruct (assoc a (pending p)); [exact Ha|]. cbn. split; auto. lia. }
  destruct Hl0 as [Hr Hp]. set (l0 := list_of (pending p) a true) in *. unfold tl_len in Hp.
  assert (Hlt : forall x, In x (items l0) -> tnonce x < tnonce t).
  { intros x Hx. pose proof (run_from_bounds _ _ _ Hr Hx). lia. }
  assert (G : tl_get l0 (tnonce t) = None).
  { unfold tl_get. destruct (find (fun x => tnonce x =? tnonce t) (items l0)) as [x|] eqn:F; auto. apply find_some in F. destruct F as [Hx E]. specialize (Hlt _ Hx). lia. }
  unfold tl_add. rewrite G. cbn iota. rewrite (ins_end _ _ Hlt).
  set (l' := mkTL (strict l0) (items l0 ++ [t]) (if costcap l0 <? tcost t then tcost t else costcap l0) (if gascap l0 <? tgas t then tgas t else gascap l0)).
  set (p1 := set_pending p (assoc_set a l' (pending p))).
  assert (Hmod : (tnonce t + 1) mod two64 = tnonce t + 1) by (apply Z.mod_small; unfold two64 in *; lia). rewrite Hmod.
  intros b. rewrite pn_get_set.
  match goal with |- match assoc b (pending (pn_set ?Q _ _)) with _ => _ end => set (q := Q) end.
  assert (Hq : pending q = assoc_set a l' (pending p) /\ (forall c, pn_get q c = pn_get p c) /\ (forall c, cur_nonce q c = cur_nonce p c)).
  { subst q. match goal with |- context [match ?X with _ => _ end] => destruct X end; repeat split; reflexivity. }
  destruct Hq as (Hpq & Hpn & Hcu).
  change (pending (pn_set q a (tnonce t + 1))) with (pending q). change (cur_nonce (pn_set q a (tnonce t + 1)) b) with (cur_nonce q b).
  rewrite Hpq, Hcu. destruct (Z.eq_dec b a) as [->|Hne].
  - rewrite assoc_set_same, Z.eqb_refl. unfold l', tl_len. cbn [items]. split.
    + apply run_from_app. split; auto. cbn [run_from]. split; auto. lia.
    + rewrite app_length. cbn [length]. lia.
  - rewrite assoc_set_other by auto. destruct (b =? a) eqn:E; [lia|]. rewrite Hpn. apply (H0 b).
Qed.

(* ================================================================ lists_wf: pending lists strict, nonces in range *)
Definition lwf (s : bool) (l : txlist) : Prop := (s = true -> strict l = true) /\ Forall nonce_ok (items l).
Lemma lwf_sub : forall s l l', lwf s l -> incl (items l') (items l) -> strict l' = strict l -> lwf s l'.
Proof. intros s l l' [A B] I S. split; [rewrite S; auto|]. rewrite Forall_forall in *. auto. Qed.
Lemma tl_forward_sub : forall l th rm l', tl_forward l th = (rm, l') -> incl (items l') (items l) /\ strict l' = strict l.
Proof. intros l th rm l' H. unfold tl_forward in H. inversion H; subst. cbn. split; auto. intros x Hx. apply filter_In in Hx. tauto. Qed.
Lemma tl_filter_sub : forall o l c g drops invs l', tl_filter o l c g = (drops, invs, l') ->
  incl (items l') (items l) /\ incl invs (items l) /\ strict l' = strict l.
Proof.
  intros o l c g drops invs l' H. unfold tl_filter in H. destruct ((costcap l <=? c) && (gascap l <=? g)).
  { inversion H; subst. repeat split; auto; try apply incl_refl. intros x []. }
  destruct (strict l); [destruct (filter _ (items l))|]; inversion H; subst; clear H; cbn [items strict]; repeat split; auto;
    intros x Hx; try (apply order_txs_in in Hx); repeat (apply filter_In in Hx; destruct Hx as [Hx _]); auto; destruct Hx.
Qed.
Lemma tl_cap_sub : forall l k drops l', tl_cap l k = Some (drops, l') -> incl (items l') (items l) /\ incl drops (items l) /\ strict l' = strict l.
Proof.
  intros l k drops l' H. unfold tl_cap in H. destruct (Z.of_nat (length (items l)) <=? k). { inversion H; subst. repeat split; auto; try apply incl_refl. intros x []. }
  destruct (k <? 0); [discriminate|]. inversion H; subst. cbn [items strict]. repeat split; auto; intros x Hx;
    rewrite <- (firstn_skipn (Z.to_nat k) (items l)); apply in_or_app; [left; auto|right; apply in_rev; auto].
Qed.
Lemma tl_remove_sub : forall o l t b invs l', tl_remove o l t = (b, invs, l') -> incl (items l') (items l) /\ incl invs (items l) /\ strict l' = strict l.
Proof.
  intros o l t b invs l' H. unfold tl_remove in H. destruct (tl_get l (tnonce t)). 2:{ inversion H; subst. repeat split; auto; try apply incl_refl. intros x []. }
  destruct (strict l); inversion H; subst; clear H; cbn [items strict]; repeat split; auto;
    intros x Hx; try (apply order_txs_in in Hx); repeat (apply filter_In in Hx; destruct Hx as [Hx _]); auto; destruct Hx.
Qed.
Lemma tl_ready_sub : forall l s ready l', tl_ready l s = (ready, l') -> incl (items l') (items l) /\ incl ready (items l) /\ strict l' = strict l.
Proof.
  intros l s ready l' H. unfold tl_ready in H. destruct (items l) as [|x r] eqn:E. { inversion H; subst. rewrite E. repeat split; auto; intros y []. }
  destruct (s <? tnonce x). { inversion H; subst. rewrite E. repeat split; auto; try apply incl_refl. intros y []. }
  destruct (take_run (tnonce x) (x :: r)) as [a b] eqn:Er. inversion H; subst; clear H. pose proof (take_run_app _ _ _ _ Er) as Ha.
  cbn [items strict]. rewrite Ha. repeat split; auto; intros y Hy; apply in_or_app; auto.
Qed.
Lemma tl_add_lwf : forall s l t bump b old l', tl_add l t bump = (b, old, l') -> lwf s l -> nonce_ok t -> lwf s l'.
Proof.
  intros s l t bump b old l' H [A B] Ht. pose proof (tl_add_strict _ _ _ _ _ _ H) as S. split; [rewrite S; auto|].
  rewrite Forall_forall in *. intros x Hx. destruct (tl_add_items _ _ _ _ _ _ _ H Hx) as [->|Hx']; auto.
Qed.

Lemma LW_same : forall p q, pending q = pending p -> queue q = queue p -> lists_wf p -> lists_wf q.
Proof. intros p q Hp Hq H. unfold lists_wf in *. rewrite Hp, Hq. exact H. Qed.
Lemma LW_qset : forall p q a l', lists_wf p -> lwf false l' -> pending q = pending p -> queue q = assoc_set a l' (queue p) -> lists_wf q.
Proof.
  intros p q a l' [HP HQ] C Hp Hq. unfold lists_wf. rewrite Hp, Hq. split; auto. intros b l Hl.
  destruct (Z.eq_dec b a) as [->|Hne]; [rewrite assoc_set_same in Hl; inversion Hl; subst; apply C|rewrite assoc_set_other in Hl by auto; eauto].
Qed.
Lemma LW_pset : forall p q a l', lists_wf p -> lwf true l' -> queue q = queue p -> pending q = assoc_set a l' (pending p) -> lists_wf q.
Proof.
  intros p q a l' [HP HQ] [C1 C2] Hq Hp. unfold lists_wf. rewrite Hp, Hq. split; auto. intros b l Hl.
  destruct (Z.eq_dec b a) as [->|Hne]; [rewrite assoc_set_same in Hl; inversion Hl; subst; auto|rewrite assoc_set_other in Hl by auto; eauto].
Qed.
Lemma LW_qdel : forall p q a, lists_wf p -> pending q = pending p -> queue q = assoc_del a (queue p) -> lists_wf q.
Proof.
  intros p q a [HP HQ] Hp Hq. unfold lists_wf. rewrite Hp, Hq. split; auto. intros b l Hl.
  destruct (Z.eq_dec b a) as [->|Hne]; [rewrite assoc_del_same in Hl; discriminate|rewrite assoc_del_other in Hl by auto; eauto].
Qed.
Lemma LW_pdel : forall p q a, lists_wf p -> queue q = queue p -> pending q = assoc_del a (pending p) -> lists_wf q.
Proof.
  intros p q a [HP HQ] Hq Hp. unfold lists_wf. rewrite Hp, Hq. split; auto. intros b l Hl.
  destruct (Z.eq_dec b a) as [->|Hne]; [rewrite assoc_del_same in Hl; discriminate|rewrite assoc_del_other in Hl by auto; eauto].
Qed.
Lemma LW_plist : forall p a l, lists_wf p -> assoc a (pending p) = Some l -> lwf true l.
Proof. intros p a l [HP _] H. destruct (HP _ _ H). split; auto. Qed.
Lemma LW_qlist : forall p a l, lists_wf p -> assoc a (queue p) = Some l -> lwf false l.
Proof. intros p a l [_ HQ] H. split; [discriminate|eauto]. Qed.
Lemma LW_list_of : forall p a, lists_wf p -> lwf false (list_of (queue p) a false) /\ lwf true (list_of (pending p) a true).
Proof.
  intros p a H. unfold list_of. split.
  - destruct (assoc a (queue p)) eqn:E; [eapply LW_qlist; eauto|split; [discriminate|constructor]].
  - destruct (assoc a (pending p)) eqn:E; [eapply LW_plist; eauto|split; [reflexivity|constructor]].
Qed.

Lemma enqueue_LW : forall p t, lists_wf p -> nonce_ok t -> lists_wf (snd (enqueue_tx p t)).
Proof.
  intros p t H Ht. unfold enqueue_tx.
  change (match assoc (tfrom t) (queue p) with Some l => l | None => new_txlist false end) with (list_of (queue p) (tfrom t) false).
  destruct (LW_list_of p (tfrom t) H) as [C0 _].
  destruct (tl_add (list_of (queue p) (tfrom t) false) t (c_bump (conf p))) as [[ins old] l'] eqn:E.
  pose proof (tl_add_lwf _ _ _ _ _ _ _ E C0 Ht) as C1. destruct ins; cbn [snd].
  - apply (LW_qset p _ (tfrom t) l' H C1); destruct old; reflexivity.
  - apply (LW_qset p _ (tfrom t) _ H C0); reflexivity.
Qed.
Lemma enqueue_fold_LW : forall ex p, lists_wf p -> Forall nonce_ok ex -> lists_wf (fold_left (fun q x => snd (enqueue_tx q x)) ex p).
Proof. induction ex as [|x ex IH]; intros p H F; cbn [fold_left]; auto. inversion F; subst. apply IH; auto. apply enqueue_LW; auto. Qed.
Lemma promote_LW : forall p a t, lists_wf p -> nonce_ok t -> lists_wf (promote_tx p a t).
Proof.
  intros p a t H Ht. unfold promote_tx.
  change (match assoc a (pending p) with Some l => l | None => new_txlist true end) with (list_of (pending p) a true).
  destruct (LW_list_of p a H) as [_ C0].
  destruct (tl_add (list_of (pending p) a true) t (c_bump (conf p))) as [[ins old] l'] eqn:E.
  pose proof (tl_add_lwf _ _ _ _ _ _ _ E C0 Ht) as C1. destruct ins.
  - match goal with |- lists_wf ?Q => assert (Hq : pending Q = assoc_set a l' (pending p) /\ queue Q = queue p)
      by (destruct old; cbn; match goal with |- context [match ?X with _ => _ end] => destruct X end; split; reflexivity) end.
    destruct Hq as [Hp Hq]. apply (LW_pset p _ a l' H C1 Hq Hp).
  - apply (LW_pset p _ a _ H C0); reflexivity.
Qed.
Lemma promote_fold_LW : forall a ready p, lists_wf p -> Forall nonce_ok ready -> lists_wf (fold_left (fun q t => promote_tx q a t) ready p).
Proof. induction ready as [|t ready IH]; intros p H F; cbn [fold_left]; auto. inversion F; subst. apply IH; auto. apply promote_LW; auto. Qed.
Lemma Forall_incl : forall A (P : A -> Prop) l l', Forall P l -> incl l' l -> Forall P l'.
Proof. intros A P l l' H I. rewrite Forall_forall in *. auto. Qed.

Lemma remove_LW : forall o p h, lists_wf p -> lists_wf (remove_tx o p h).
Proof.
  intros o p h H. unfold remove_tx. destruct (assoc h (all p)) as [t|]; auto.
  set (p1 := all_drop p h). assert (H1 : lists_wf p1) by exact H. clearbody p1. clear H p.
  assert (HQ : lists_wf (match assoc (tfrom t) (queue p1) with
      | None => p1
      | Some f => let '(_, _, f') := tl_remove o f t in
                  if tl_empty f' then set_queue p1 (assoc_del (tfrom t) (queue p1)) else set_queue p1 (assoc_set (tfrom t) f' (queue p1))
      end)).
  { destruct (assoc (tfrom t) (queue p1)) as [f|] eqn:Q; auto. destruct (tl_remove o f t) as [[b invs] f'] eqn:R.
    destruct (tl_remove_sub _ _ _ _ _ _ R) as (I1 & _ & S1). pose proof (lwf_sub _ _ _ (LW_qlist _ _ _ H1 Q) I1 S1) as C.
    destruct (tl_empty f'); [apply (LW_qdel p1 _ (tfrom t) H1); reflexivity|apply (LW_qset p1 _ (tfrom t) f' H1 C); reflexivity]. }
  destruct (assoc (tfrom t) (pending p1)) as [pl|] eqn:P; auto.
  destruct (tl_remove o pl t) as [[b invs] pl'] eqn:R. destruct b; auto.
  destruct (tl_remove_sub _ _ _ _ _ _ R) as (I1 & I2 & S1). pose proof (LW_plist _ _ _ H1 P) as C0. pose proof (lwf_sub _ _ _ C0 I1 S1) as C.
  match goal with |- lists_wf (if _ then pn_set ?XX _ _ else _) => assert (H2 : lists_wf XX) end.
  { apply enqueue_fold_LW; [|eapply Forall_incl; [apply C0|exact I2]].
    destruct (tl_empty pl'); [apply (LW_pdel p1 _ (tfrom t) H1); reflexivity|apply (LW_pset p1 _ (tfrom t) pl' H1 C); reflexivity]. }
  match goal with |- lists_wf (if ?c then _ else _) => destruct c end; exact H2.
Qed.
Lemma remove_fold_LW : forall o (l : list tx) p, lists_wf p -> lists_wf (fold_left (fun q t => remove_tx o q (thash t)) l p).
Proof. induction l; intros; cbn [fold_left]; auto. apply IHl. apply remove_LW; auto. Qed.

Lemma pe_account_LW : forall o p a p', lists_wf p -> pe_account o p a = Ok p' -> lists_wf p'.
Proof.
  intros o p a p' H0 H. unfold pe_account in H. destruct (assoc a (queue p)) as [l|] eqn:Q; [|inversion H; subst; auto].
  pose proof (LW_qlist _ _ _ H0 Q) as C0.
  destruct (tl_forward l (cur_nonce p a)) as [old l1] eqn:F. destruct (tl_forward_sub _ _ _ _ F) as [I1 S1]. pose proof (lwf_sub _ _ _ C0 I1 S1) as C1.
  set (p1 := drop_all (set_queue p (assoc_set a l1 (queue p))) old) in *.
  destruct (drop_all_pq old (set_queue p (assoc_set a l1 (queue p)))) as [Pp1 Pq1]. fold p1 in Pp1, Pq1. cbn [pending queue set_queue] in Pp1, Pq1.
  assert (H1 : lists_wf p1) by (apply (LW_qset p p1 a l1 H0 C1 Pp1 Pq1)). clearbody p1.
  destruct (tl_filter o l1 (cur_balance p1 a) (maxgas p1)) as [[drops invs] l2] eqn:Fi. destruct (tl_filter_sub _ _ _ _ _ _ _ Fi) as (I2 & _ & S2).
  pose proof (lwf_sub _ _ _ C1 I2 S2) as C2.
  set (p2 := drop_all (set_queue p1 (assoc_set a l2 (queue p1))) drops) in *.
  destruct (drop_all_pq drops (set_queue p1 (assoc_set a l2 (queue p1)))) as [Pp2 Pq2]. fold p2 in Pp2, Pq2. cbn [pending queue set_queue] in Pp2, Pq2.
  assert (H2 : lists_wf p2) by (apply (LW_qset p1 p2 a l2 H1 C2 Pp2 Pq2)). clearbody p2.
  destruct (tl_ready l2 (pn_get p2 a)) as [ready l3] eqn:R. destruct (tl_ready_sub _ _ _ _ R) as (I3 & Ir & S3). pose proof (lwf_sub _ _ _ C2 I3 S3) as C3.
  set (pb := set_queue p2 (assoc_set a l3 (queue p2))) in *.
  assert (Hb : lists_wf pb) by (apply (LW_qset p2 pb a l3 H2 C3); reflexivity).
  assert (H3 : lists_wf (fold_left (fun q t => promote_tx q a t) ready pb)) by (apply promote_fold_LW; auto; eapply Forall_incl; [apply C2|exact Ir]).
  set (p3 := fold_left (fun q t => promote_tx q a t) ready pb) in *. clearbody p3.
  apply bind_ok in H. destruct H as ([p4 l4] & E1 & E2).
  assert (H4 : lists_wf p4).
  { destruct (memZ a (locals p3)); [inversion E1; subst; auto|].
    destruct (tl_cap l3 (c_aqueue (conf p3))) as [[caps l4']|] eqn:C; [|discriminate]. inversion E1; subst; clear E1.
    destruct (drop_all_pq caps (set_queue p3 (assoc_set a l4 (queue p3)))) as [Pp4 Pq4]. cbn [pending queue set_queue] in Pp4, Pq4.
    destruct (tl_cap_sub _ _ _ _ C) as (I4 & _ & S4). apply (LW_qset p3 _ a l4 H3 (lwf_sub _ _ _ C3 I4 S4) Pp4 Pq4). }
  inversion E2; subst. destruct (tl_empty l4); auto. eapply LW_qdel; eauto; reflexivity.
Qed.
Lemma shrink_one_LW : forall p a p', lists_wf p -> shrink_one p a = Ok p' -> lists_wf p'.
Proof.
  intros p a p' H0 H. unfold shrink_one in H. destruct (assoc a (pending p)) as [l|] eqn:P; [|discriminate].
  destruct (tl_cap l (tl_len l - 1)) as [[drops l']|] eqn:C; [|discriminate]. inversion H; subst; clear H.
  destruct (tl_cap_sub _ _ _ _ C) as (I1 & _ & S1).
  set (pb := set_pending p (assoc_set a l' (pending p))).
  assert (Ub : lists_wf pb) by (apply (LW_pset p pb a l' H0 (lwf_sub _ _ _ (LW_plist _ _ _ H0 P) I1 S1)); reflexivity).
  clearbody pb. clear C. revert pb Ub. induction drops as [|t drops IH]; intros pb Ub; cbn [fold_left]; auto.
  apply IH. cbv zeta. match goal with |- lists_wf (if ?c then _ else _) => destruct c end; exact Ub.
Qed.
Lemma demote_account_LW : forall o p a p', lists_wf p -> demote_account o p a = Ok p' -> lists_wf p'.
Proof.
  intros o p a p' H0 H. unfold demote_account in H. destruct (assoc a (pending p)) as [l|] eqn:P; [|inversion H; subst; auto].
  pose proof (LW_plist _ _ _ H0 P) as C0.
  destruct (tl_forward l (cur_nonce p a)) as [old l1] eqn:F. destruct (tl_forward_sub _ _ _ _ F) as [I1 S1]. pose proof (lwf_sub _ _ _ C0 I1 S1) as C1.
  set (p1 := drop_all (set_pending p (assoc_set a l1 (pending p))) old) in *.
  destruct (drop_all_pq old (set_pending p (assoc_set a l1 (pending p)))) as [Pp1 Pq1]. fold p1 in Pp1, Pq1. cbn [pending queue set_pending] in Pp1, Pq1.
  assert (H1 : lists_wf p1) by (apply (LW_pset p p1 a l1 H0 C1 Pq1 Pp1)). clearbody p1.
  destruct (tl_filter o l1 (cur_balance p1 a) (maxgas p1)) as [[drops invs] l2] eqn:Fi. destruct (tl_filter_sub _ _ _ _ _ _ _ Fi) as (I2 & Iv & S2).
  pose proof (lwf_sub _ _ _ C1 I2 S2) as C2.
  set (p2 := drop_all (set_pending p1 (assoc_set a l2 (pending p1))) drops) in *.
  destruct (drop_all_pq drops (set_pending p1 (assoc_set a l2 (pending p1)))) as [Pp2 Pq2]. fold p2 in Pp2, Pq2. cbn [pending queue set_pending] in Pp2, Pq2.
  assert (H2 : lists_wf p2) by (apply (LW_pset p1 p2 a l2 H1 C2 Pq2 Pp2)). clearbody p2.
  assert (H3 : lists_wf (fold_left (fun q x => snd (enqueue_tx q x)) invs p2)) by (apply enqueue_fold_LW; auto; eapply Forall_incl; [apply C1|exact Iv]).
  set (p3 := fold_left (fun q x => snd (enqueue_tx q x)) invs p2) in *. clearbody p3.
  apply bind_ok in H. destruct H as ([p4 l4] & E1 & E2).
  assert (H4 : lists_wf p4).
  { destruct ((0 <? tl_len l2) && match tl_get l2 (cur_nonce p a) with None => true | Some _ => false end); [|inversion E1; subst; auto].
    destruct (tl_cap l2 0) as [[caps l3]|] eqn:C; [|discriminate]. inversion E1; subst; clear E1.
    destruct (tl_cap_sub _ _ _ _ C) as (I4 & Ic & S4).
    apply enqueue_fold_LW; [apply (LW_pset p3 _ a l4 H3 (lwf_sub _ _ _ C2 I4 S4)); reflexivity|eapply Forall_incl; [apply C2|exact Ic]]. }
  inversion E2; subst. destruct (tl_empty l4); auto. eapply LW_pdel with (p := p4); eauto; reflexivity.
Qed.
Lemma add_insert_LW : forall p t local r p', lists_wf p -> nonce_ok t -> add_insert p t local = (r, p') -> lists_wf p'.
Proof.
  intros p t local r p' H0 Ht H. unfold add_insert in H.
  assert (Henq : forall r p', match enqueue_tx p t with (inr e, p2) => (inr e, p2) | (inl rep, p2) => (inl rep, mark_local p2 (tfrom t) local) end = (r, p') -> lists_wf p').
  { intros r0 p0 E. pose proof (enqueue_LW p t H0 Ht) as U. destruct (enqueue_tx p t) as [[rep|e] p2]; cbn [snd] in U; inversion E; subst; auto.
    unfold mark_local. destruct local; exact U. }
  destruct (assoc (tfrom t) (pending p)) as [l|] eqn:P; [|eapply Henq; eauto].
  destruct (tl_overlaps l t); [|eapply Henq; eauto].
  destruct (tl_add l t (c_bump (conf p))) as [[ins old] l'] eqn:E. destruct ins; [|inversion H; subst; auto].
  inversion H; subst; clear H. pose proof (tl_add_lwf _ _ _ _ _ _ _ E (LW_plist _ _ _ H0 P) Ht) as C.
  apply (LW_pset p _ (tfrom t) l' H0 C); destruct old; reflexivity.
Qed.
Lemma add_LW : forall o p t local r p', lists_wf p -> nonce_ok t -> add o p t local = (r, p') -> lists_wf p'.
Proof.
  intros o p t local r p' Hun Ht H. unfold add in H. destruct (assoc (thash t) (all p)); [inversion H; subst; auto|].
  destruct (validate_tx p t local); [inversion H; subst; auto|].
  match type of H with (if ?c then _ else _) = _ => destruct c end; [|eapply add_insert_LW; eauto].
  destruct (priced_underpriced o (all p) (locals p) (pricedl p) t) as [u pr]. destruct u; [inversion H; subst; exact Hun|].
  match type of H with (let '(_, _) := ?d in _) = _ => destruct d as [drop pr1] end.
  eapply add_insert_LW; [|exact Ht|exact H]. apply remove_fold_LW. exact Hun.
Qed.

Lemma shrink_fold_LW : forall l (st r : pool * Z), lists_wf (fst st) ->
  fold_res (fun (st : pool * Z) a => q <- shrink_one (fst st) a ;; Ok (q, (snd st - 1) mod two64)) l st = Ok r -> lists_wf (fst r).
Proof.
  intros l st r Hun H. eapply (fold_res_inv _ _ (fun st => lists_wf (fst st))); eauto.
  intros a x a' Ha Hf. apply bind_ok in Hf. destruct Hf as (q & H1 & H2). inversion H2; subst. cbn [fst]. eapply shrink_one_LW; eauto.
Qed.
Lemma equalize_LW : forall fuel p cnt offs th r, lists_wf p -> equalize fuel p cnt offs th = Ok r -> lists_wf (fst r).
Proof.
  induction fuel as [|f IH]; intros p cnt offs th r Hun H; cbn [equalize] in H; [discriminate|].
  apply bind_ok in H. destruct H as (n & _ & H).
  destruct ((c_gslots (conf p) <? cnt) && (th <? n)); [|inversion H; subst; auto].
  apply bind_ok in H. destruct H as (r1 & H1 & H2). eapply IH; [|exact H2]. eapply shrink_fold_LW; [|exact H1]. auto.
Qed.
Lemma spam_loop_LW : forall fuel o p cnt sp offs r, lists_wf p -> spam_loop fuel o p cnt sp offs = Ok r -> lists_wf (fst (fst r)).
Proof.
  induction fuel as [|f IH]; intros o p cnt sp offs r Hun H; cbn [spam_loop] in H; [discriminate|].
  destruct (c_gslots (conf p) <? cnt); [|inversion H; subst; auto].
  destruct (prque_pop o sp) as [[off rest]|]; [|inversion H; subst; auto].
  destruct (1 <? Z.of_nat (length (offs ++ [off]))).
  - apply bind_ok in H. destruct H as (th & _ & H). apply bind_ok in H. destruct H as (r1 & H1 & H2).
    eapply IH; [|exact H2]. eapply equalize_LW; eauto.
  - eapply IH; eauto.
Qed.
Lemma minimum_loop_LW : forall fuel p cnt offs r, lists_wf p -> minimum_loop fuel p cnt offs = Ok r -> lists_wf (fst r).
Proof.
  induction fuel as [|f IH]; intros p cnt offs r Hun H; cbn [minimum_loop] in H; [discriminate|].
  apply bind_ok in H. destruct H as (n & _ & H).
  destruct ((c_gslots (conf p) <? cnt) && (c_aslots (conf p) <? n)); [|inversion H; subst; auto].
  apply bind_ok in H. destruct H as (r1 & H1 & H2). eapply IH; [|exact H2]. eapply shrink_fold_LW; [|exact H1]. auto.
Qed.
Lemma pe_pending_limit_LW : forall o p p', lists_wf p -> pe_pending_limit o p = Ok p' -> lists_wf p'.
Proof.
  intros o p p' Hun H. unfold pe_pending_limit in H. destruct (c_gslots (conf p) <? pending_count p); [|inversion H; subst; auto].
  apply bind_ok in H. destruct H as ([[p1 cnt1] offs] & H1 & H2). apply spam_loop_LW in H1; auto. cbn [fst] in H1.
  destruct ((c_gslots (conf p1) <? cnt1) && negb (match offs with [] => true | _ => false end)); [|inversion H2; subst; auto].
  apply bind_ok in H2. destruct H2 as (r2 & H3 & H4). inversion H4; subst. eapply minimum_loop_LW; eauto.
Qed.
Lemma gq_loop_LW : forall o addrs p drop p', lists_wf p -> gq_loop o p addrs drop = Ok p' -> lists_wf p'.
Proof.
  induction addrs as [|a rest IH]; intros p drop p' Hun H; cbn [gq_loop] in H; [inversion H; subst; auto|].
  destruct (0 <? drop); [|inversion H; subst; auto]. destruct (assoc a (queue p)) as [l|]; [|discriminate].
  destruct (tl_len l <=? drop); eapply IH; try exact H; apply remove_fold_LW; auto.
Qed.
Lemma promote_executables_LW : forall o p accs p', lists_wf p -> promote_executables o p accs = Ok p' -> lists_wf p'.
Proof.
  intros o p accs p' Hun H. unfold promote_executables in H.
  apply bind_ok in H. destruct H as (p1 & H1 & H). apply bind_ok in H. destruct H as (p2 & H2 & H3).
  assert (U1 : lists_wf p1). { eapply (fold_res_inv _ _ lists_wf); [|exact Hun|exact H1]. intros; eapply pe_account_LW; eauto. }
  assert (U2 : lists_wf p2) by (eapply pe_pending_limit_LW; eauto).
  unfold pe_queue_limit in H3. destruct (c_gqueue (conf p2) <? queued_count p2); [|inversion H3; subst; auto]. eapply gq_loop_LW; eauto.
Qed.
Lemma demote_unexecutables_LW : forall o p p', lists_wf p -> demote_unexecutables o p = Ok p' -> lists_wf p'.
Proof.
  intros o p p' Hun H. unfold demote_unexecutables in H. eapply (fold_res_inv _ _ lists_wf); [|exact Hun|exact H].
  intros; eapply demote_account_LW; eauto.
Qed.
Lemma set_gas_price_LW : forall o p g, lists_wf p -> lists_wf (set_gas_price o p g).
Proof.
  intros o p g Hun. unfold set_gas_price. match goal with |- context [priced_cap ?a ?b ?c ?d ?e] => destruct (priced_cap a b c d e) as [drop pr] end.
  apply remove_fold_LW. exact Hun.
Qed.
Lemma add_tx_LW : forall o p t local e p', lists_wf p -> nonce_ok t -> add_tx o p t local = Ok (e, p') -> lists_wf p'.
Proof.
  intros o p t local e p' Hun Ht H. unfold add_tx in H. destruct (add o p t local) as [[rep|er] p1] eqn:A; pose proof (add_LW _ _ _ _ _ _ Hun Ht A) as U1.
  - destruct rep; [inversion H; subst; auto|]. apply bind_ok in H. destruct H as (p2 & H1 & H2). inversion H2; subst. eapply promote_executables_LW; eauto.
  - inversion H; subst; auto.
Qed.

(* ================================================================ pn_ok through every operation *)
Lemma pn_frame : forall p q, pending q = pending p -> pnonce q = pnonce p -> cur q = cur p -> pn_ok p -> pn_ok q.
Proof. intros p q A B C H a. specialize (H a). unfold pn_get, cur_nonce in *. rewrite A, B, C. exact H. Qed.
Lemma enqueue_frame3 : forall p t, pending (snd (enqueue_tx p t)) = pending p /\ pnonce (snd (enqueue_tx p t)) = pnonce p /\ cur (snd (enqueue_tx p t)) = cur p.
Proof. intros p t. unfold enqueue_tx. destruct (tl_add _ t (c_bump (conf p))) as [[ins old] l']. destruct ins; [destruct old|]; repeat split; reflexivity. Qed.
Lemma enqueue_fold_frame3 : forall ex p, let q := fold_left (fun q x => snd (enqueue_tx q x)) ex p in
  pending q = pending p /\ pnonce q = pnonce p /\ cur q = cur p.
Proof.
  induction ex as [|x ex IH]; intros p; cbn [fold_left]; [repeat split; reflexivity|].
  destruct (enqueue_frame3 p x) as (A & B & C). destruct (IH (snd (enqueue_tx p x))) as (A' & B' & C'). cbv zeta. repeat split; congruence.
Qed.
Lemma drop_all_frame3 : forall D p, pnonce (drop_all p D) = pnonce p /\ cur (drop_all p D) = cur p.
Proof. unfold drop_all. induction D as [|d D IH]; intros p; cbn [fold_left]; [split; reflexivity|]. destruct (IH (all_drop p (thash d))) as [A B]. rewrite A, B. split; reflexivity. Qed.

Lemma run_from_cover : forall l c k, run_from c l -> c <= k < c + Z.of_nat (length l) -> exists y, In y l /\ tnonce y = k.
Proof.
  induction l as [|x l IH]; intros c k Hr Hk; cbn [length run_from] in *; [lia|]. destruct Hr as [Hx Hr].
  destruct (Z.eq_dec k c) as [->|Hne]; [exists x; split; [left; auto|auto]|]. destruct (IH (c + 1) k Hr) as (y & Hy & E); [lia|]. exists y. split; [right; auto|auto].
Qed.
Lemma filter_none : forall A (f : A -> bool) l, (forall y, In y l -> f y = false) -> filter f l = [].
Proof. induction l as [|z l IH]; intros H; cbn [filter]; auto. rewrite (H z (or_introl eq_refl)). apply IH. intros y Hy. apply H. right; auto. Qed.
Lemma run_prefix : forall l c n, run_from c l -> run_from c (filter (fun x => tnonce x <? n) l) /\
  (c <= n <= c + Z.of_nat (length l) -> Z.of_nat (length (filter (fun x => tnonce x <? n) l)) = n - c).
Proof.
  induction l as [|x l IH]; intros c n Hr; cbn [filter length run_from] in *; [split; [auto|lia]|]. destruct Hr as [Hx Hr].
  destruct (IH (c + 1) n Hr) as [A B]. destruct (tnonce x <? n) eqn:E.
  - cbn [run_from length]. split; [split; auto|]. intros Hn. rewrite Nat2Z.inj_succ. rewrite B; lia.
  - assert (G : filter (fun y => tnonce y <? n) l = []).
    { apply filter_none. intros y Hy. pose proof (run_from_bounds _ _ _ Hr Hy). lia. }
    rewrite G. cbn. split; [auto|lia].
Qed.

Lemma filter_filter : forall A (f g : A -> bool) l, filter f (filter g l) = filter (fun x => g x && f x) l.
Proof. induction l as [|x l IH]; cbn [filter]; auto. destruct (g x); cbn [filter andb]; [destruct (f x)|]; rewrite IH; auto. Qed.
Lemma tl_remove_strict : forall o l t invs l', strict l = true -> tl_remove o l t = (true, invs, l') ->
  items l' = filter (fun x => tnonce x <? tnonce t) (items l) /\ (exists y, In y (items l) /\ tnonce y = tnonce t).
Proof.
  intros o l t invs l' St H. unfold tl_remove in H. destruct (tl_get l (tnonce t)) as [y|] eqn:G; [|discriminate].
  apply tl_get_some in G. rewrite St in H. inversion H; subst; clear H. cbn [items]. split; [|exists y; auto].
  rewrite filter_filter. apply filter_ext. intros x. lia.
Qed.
Lemma pn_get_frame : forall p q b, pnonce q = pnonce p -> cur q = cur p -> pn_get q b = pn_get p b.
Proof. intros p q b A B. unfold pn_get, cur_nonce. rewrite A, B. auto. Qed.

Lemma remove_pn : forall o p h, lists_wf p -> pn_ok p -> pn_ok (remove_tx o p h).
Proof.
  intros o p h HL H. unfold remove_tx. destruct (assoc h (all p)) as [t|]; auto.
  set (p1 := all_drop p h). assert (H1 : pn_ok p1) by exact H. assert (L1 : lists_wf p1) by exact HL.
  assert (HQ : pn_ok (match assoc (tfrom t) (queue p1) with
      | None => p1
      | Some f => let '(_, _, f') := tl_remove o f t in
                  if tl_empty f' then set_queue p1 (assoc_del (tfrom t) (queue p1)) else set_queue p1 (assoc_set (tfrom t) f' (queue p1))
      end)).
  { destruct (assoc (tfrom t) (queue p1)) as [f|]; auto. destruct (tl_remove o f t) as [[b invs] f']. destruct (tl_empty f'); exact H1. }
  destruct (assoc (tfrom t) (pending p1)) as [pl|] eqn:P; [|exact HQ].
  destruct (tl_remove o pl t) as [[b invs] pl'] eqn:R. destruct b; [|exact HQ].
  set (a := tfrom t) in *. destruct (LW_plist _ _ _ L1 P) as [St _].
  destruct (tl_remove_strict _ _ _ _ _ (St eq_refl) R) as [Hit (y & Hy & Hn)].
  pose proof (H1 a) as Ha. rewrite P in Ha. destruct Ha as [Hr Hpn]. unfold tl_len in Hpn.
  pose proof (run_from_bounds _ _ _ Hr Hy) as Hb. rewrite Hn in Hb.
  destruct (run_prefix _ _ (tnonce t) Hr) as [Hr' Hlen]. rewrite <- Hit in Hr', Hlen. specialize (Hlen ltac:(lia)).
  match goal with |- pn_ok (if _ then pn_set ?XX _ _ else _) => set (X := XX) end.
  assert (HX : exists pb, pending X = pending pb /\ pnonce X = pnonce p1 /\ cur X = cur p1 /\
              pending pb = (if tl_empty pl' then assoc_del a (pending p1) else assoc_set a pl' (pending p1))).
  { subst X. match goal with |- context [fold_left _ invs ?PB] => exists PB; destruct (enqueue_fold_frame3 invs PB) as (A & B & C) end.
    rewrite A, B, C. destruct (tl_empty pl'); repeat split; reflexivity. }
  destruct HX as (pb & XA & XB & XC & PB).
  assert (Hg : pn_get X a = pn_get p1 a) by (apply pn_get_frame; auto). rewrite Hg.
  destruct (tnonce t <? pn_get p1 a) eqn:E; [|lia].
  intros b. rewrite pn_get_set. change (pending (pn_set X a (tnonce t))) with (pending X). change (cur_nonce (pn_set X a (tnonce t)) b) with (cur_nonce X b).
  assert (Hc : cur_nonce X b = cur_nonce p1 b) by (unfold cur_nonce; rewrite XC; auto). rewrite Hc, XA, PB.
  destruct (Z.eq_dec b a) as [->|Hne].
  - rewrite Z.eqb_refl. destruct (tl_empty pl') eqn:Em.
    + rewrite assoc_del_same. apply tl_empty_items in Em. rewrite Em in Hlen. cbn in Hlen. lia.
    + rewrite assoc_set_same. split; [exact Hr'|unfold tl_len; lia].
  - destruct (b =? a) eqn:E2; [lia|]. rewrite (pn_get_frame p1 X b XB XC).
    destruct (tl_empty pl'); [rewrite assoc_del_other by auto|rewrite assoc_set_other by auto]; apply (H1 b).
Qed.
Lemma remove_fold_W3 : forall o (l : list tx) p, lists_wf p -> pn_ok p -> pn_ok (fold_left (fun q t => remove_tx o q (thash t)) l p).
Proof. induction l as [|x l IH]; intros p HL H; cbn [fold_left]; auto. apply IH; [apply remove_LW; auto|apply remove_pn; auto]. Qed.

Lemma pn_get_promote : forall p a t, pn_get (promote_tx p a t) a = (tnonce t + 1) mod two64 \/ pn_get (promote_tx p a t) a = pn_get p a.
Proof.
  intros p a t. unfold promote_tx. destruct (tl_add _ t (c_bump (conf p))) as [[ins old] l']. destruct ins; [left|right; reflexivity].
  rewrite pn_get_set, Z.eqb_refl. reflexivity.
Qed.
Lemma promote_fold_pn : forall a ready p, pn_ok p -> run_from (pn_get p a) ready -> Forall nonce_ok ready ->
  pn_ok (fold_left (fun q t => promote_tx q a t) ready p).
Proof.
  induction ready as [|t ready IH]; intros p H Hr Hb; cbn [fold_left]; auto. cbn [run_from] in Hr. destruct Hr as [Ht Hr]. inversion Hb as [|? ? Bt Bb]; subst.
  assert (Hp : pn_ok (promote_tx p a t)) by (apply promote_tx_pn; auto).
  apply IH; auto.
  assert (G : pn_get (promote_tx p a t) a = pn_get p a + 1).
  { pose proof (Hp a) as Ha. pose proof (H a) as Ha0.
    (* the virtual nonce after promoting at the virtual nonce: computed as in promote_tx_pn *)
    unfold promote_tx in *. change (match assoc a (pending p) with Some l => l | None => new_txlist true end) with (list_of (pending p) a true) in *.
    assert (Hl0 : run_from (cur_nonce p a) (items (list_of (pending p) a true)) /\ pn_get p a = cur_nonce p a + tl_len (list_of (pending p) a true)).
    { unfold list_of. destruct (assoc a (pending p)); [exact Ha0|]. cbn. split; auto. lia. }
    destruct Hl0 as [Hr0 Hp0]. unfold tl_len in Hp0.
    assert (Gt : tl_get (list_of (pending p) a true) (tnonce t) = None).
    { unfold tl_get. destruct (find (fun x => tnonce x =? tnonce t) (items (list_of (pending p) a true))) as [x|] eqn:F; auto.
      apply find_some in F. destruct F as [Hx E]. pose proof (run_from_bounds _ _ _ Hr0 Hx). lia. }
    unfold tl_add. rewrite Gt. cbn iota. rewrite pn_get_set, Z.eqb_refl. unfold nonce_ok in Bt. rewrite Z.mod_small by (unfold two64 in *; lia). lia. }
  rewrite G. exact Hr.
Qed.
Lemma take_run_run : forall l m a b, Forall nonce_ok l -> take_run m l = (a, b) -> run_from m a.
Proof.
  induction l as [|x l IH]; intros m a b Hb H; cbn [take_run] in H; [inversion H; subst; exact I|]. inversion Hb as [|? ? Bx Bl]; subst.
  destruct (tnonce x =? m) eqn:E; [|inversion H; subst; exact I].
  destruct (take_run ((m + 1) mod two64) l) as [a' b'] eqn:T. inversion H; subst. cbn [run_from]. split; [lia|].
  unfold nonce_ok in Bx. rewrite Z.mod_small in T by (unfold two64 in *; lia). eapply IH; eauto.
Qed.

Lemma pe_account_pn : forall o p a p', unique_nonce p -> lists_wf p -> pn_ok p -> pe_account o p a = Ok p' -> pn_ok p'.
Proof.
  intros o p a p' HU HL H0 H. unfold pe_account in H. destruct (assoc a (queue p)) as [l|] eqn:Q; [|inversion H; subst; auto].
  pose proof (LW_qlist _ _ _ HL Q) as [_ B0].
  destruct (tl_forward l (cur_nonce p a)) as [old l1] eqn:F. destruct (tl_forward_sub _ _ _ _ F) as [I1 _].
  assert (Hge : forall x, In x (items l1) -> cur_nonce p a <= tnonce x).
  { unfold tl_forward in F. inversion F; subst. cbn. intros x Hx. apply filter_In in Hx. lia. }
  set (p1 := drop_all (set_queue p (assoc_set a l1 (queue p))) old) in *.
  destruct (drop_all_pq old (set_queue p (assoc_set a l1 (queue p)))) as [Pp1 _]. destruct (drop_all_frame3 old (set_queue p (assoc_set a l1 (queue p)))) as [Pn1 Pc1].
  fold p1 in Pp1, Pn1, Pc1. cbn [pending pnonce cur set_queue] in Pp1, Pn1, Pc1.
  assert (H1 : pn_ok p1) by (eapply pn_frame; eauto).
  assert (M1 : maxgas p1 = maxgas p) by (apply (fr_drop_all old (set_queue p (assoc_set a l1 (queue p))))). clearbody p1.
  destruct (tl_filter o l1 (cur_balance p1 a) (maxgas p1)) as [[drops invs] l2] eqn:Fi. destruct (tl_filter_sub _ _ _ _ _ _ _ Fi) as (I2 & _ & _).
  set (p2 := drop_all (set_queue p1 (assoc_set a l2 (queue p1))) drops) in *.
  destruct (drop_all_pq drops (set_queue p1 (assoc_set a l2 (queue p1)))) as [Pp2 _]. destruct (drop_all_frame3 drops (set_queue p1 (assoc_set a l2 (queue p1)))) as [Pn2 Pc2].
  fold p2 in Pp2, Pn2, Pc2. cbn [pending pnonce cur set_queue] in Pp2, Pn2, Pc2.
  assert (H2 : pn_ok p2) by (eapply pn_frame; eauto). clearbody p2.
  destruct (tl_ready l2 (pn_get p2 a)) as [ready l3] eqn:R. destruct (tl_ready_sub _ _ _ _ R) as (_ & Ir & _).
  set (pb := set_queue p2 (assoc_set a l3 (queue p2))) in *.
  assert (Hb : pn_ok pb) by exact H2.
  assert (Bl2 : Forall nonce_ok (items l2)) by (eapply Forall_incl; [exact B0|]; intros x Hx; apply I1; apply I2; auto).
  assert (Hrun : run_from (pn_get pb a) ready).
  { change (pn_get pb a) with (pn_get p2 a). unfold tl_ready in R. destruct (items l2) as [|x r] eqn:E2; [inversion R; subst; exact I|].
    destruct (pn_get p2 a <? tnonce x) eqn:E3; [inversion R; subst; exact I|].
    destruct (take_run (tnonce x) (x :: r)) as [ra rb] eqn:T. inversion R; subst; clear R.
    pose proof (take_run_run _ _ _ _ Bl2 T) as Hra.
    (* the first queued nonce is the virtual nonce: below it everything from the chain nonce is pending *)
    assert (Hx : tnonce x = pn_get p2 a).
    { assert (Hxl : In x (items l)) by (apply I1; apply I2; left; auto).
      assert (Hxg : cur_nonce p a <= tnonce x) by (apply Hge; apply I2; left; auto).
      assert (Hpn2 : pn_get p2 a = pn_get p a) by (rewrite (pn_get_frame p1 p2 a Pn2 Pc2); apply pn_get_frame; auto).
      destruct (Z.eq_dec (tnonce x) (pn_get p2 a)) as [|Hne]; auto. exfalso.
      pose proof (H0 a) as Ha. destruct (assoc a (pending p)) as [pl|] eqn:P; [|lia]. destruct Ha as [Hr Hp].
      destruct (run_from_cover _ _ (tnonce x) Hr) as (y & Hy & Ey); [unfold tl_len in Hp; lia|].
      destruct HU as (_ & _ & HD). apply (HD a y x); [exists pl; auto|exists l; auto|auto]. }
    rewrite <- Hx. exact Hra. }
  assert (H3 : pn_ok (fold_left (fun q t => promote_tx q a t) ready pb)) by (apply promote_fold_pn; auto; eapply Forall_incl; [exact Bl2|exact Ir]).
  set (p3 := fold_left (fun q t => promote_tx q a t) ready pb) in *. clearbody p3.
  apply bind_ok in H. destruct H as ([p4 l4] & E1 & E2).
  assert (H4 : pn_ok p4).
  { destruct (memZ a (locals p3)); [inversion E1; subst; auto|].
    destruct (tl_cap l3 (c_aqueue (conf p3))) as [[caps l4']|] eqn:C; [|discriminate]. inversion E1; subst; clear E1.
    destruct (drop_all_pq caps (set_queue p3 (assoc_set a l4 (queue p3)))) as [Pp4 _]. destruct (drop_all_frame3 caps (set_queue p3 (assoc_set a l4 (queue p3)))) as [Pn4 Pc4].
    eapply pn_frame; [exact Pp4|exact Pn4|exact Pc4|exact H3]. }
  inversion E2; subst. destruct (tl_empty l4); exact H4.
Qed.

Lemma ins_replace_run : forall t l c y, run_from c l -> In y l -> tnonce y = tnonce t ->
  run_from c (ins_tx t l) /\ length (ins_tx t l) = length l.
Proof.
  induction l as [|x l IH]; intros c y Hr Hy Hn; [destruct Hy|]. cbn [run_from] in Hr. destruct Hr as [Hx Hr]. cbn [ins_tx].
  pose proof (run_from_bounds (x :: l) c y (conj Hx Hr) Hy) as Hb.
  destruct (tnonce t <? tnonce x) eqn:E1; [lia|]. destruct (tnonce t =? tnonce x) eqn:E2.
  - cbn [run_from length]. split; auto. split; [lia|auto].
  - destruct Hy as [->|Hy]; [lia|]. destruct (IH (c + 1) y Hr Hy Hn) as [A B]. cbn [run_from length]. split; [split; auto|lia].
Qed.
Lemma add_insert_pn : forall p t local r p', unique_nonce p -> pn_ok p -> add_insert p t local = (r, p') -> pn_ok p'.
Proof.
  intros p t local r p' HU H0 H. unfold add_insert in H.
  assert (Henq : forall r p', match enqueue_tx p t with (inr e, p2) => (inr e, p2) | (inl rep, p2) => (inl rep, mark_local p2 (tfrom t) local) end = (r, p') -> pn_ok p').
  { intros r0 p0 E. destruct (enqueue_frame3 p t) as (A & B & C). destruct (enqueue_tx p t) as [[rep|e] p2]; cbn [snd] in *; inversion E; subst.
    - unfold mark_local. destruct local; (eapply pn_frame; [| | |exact H0]; auto).
    - eapply pn_frame; [| | |exact H0]; auto. }
  destruct (assoc (tfrom t) (pending p)) as [l|] eqn:P; [|eapply Henq; eauto].
  destruct (tl_overlaps l t) eqn:Ov; [|eapply Henq; eauto].
  destruct (tl_add l t (c_bump (conf p))) as [[ins old] l'] eqn:E. destruct ins; [|inversion H; subst; auto].
  inversion H; subst; clear H. pose proof (tl_add_ok _ _ _ _ _ E) as [Hit _].
  unfold tl_overlaps in Ov. destruct (tl_get l (tnonce t)) as [y|] eqn:G; [|discriminate]. apply tl_get_some in G. destruct G as [Hy Hn].
  pose proof (H0 (tfrom t)) as Ha. rewrite P in Ha. destruct Ha as [Hr Hp].
  destruct (ins_replace_run t _ _ y Hr Hy Hn) as [Hr' Hlen]. rewrite <- Hit in Hr', Hlen.
  intros b. match goal with |- match assoc b (pending ?Q) with _ => _ end => assert (Hq : pending Q = assoc_set (tfrom t) l' (pending p) /\ pnonce Q = pnonce p /\ cur Q = cur p) by (destruct old; repeat split; reflexivity) end.
  destruct Hq as (A & B & C). rewrite A. unfold pn_get, cur_nonce. rewrite B, C. fold (cur_nonce p b). fold (pn_get p b).
  destruct (Z.eq_dec b (tfrom t)) as [->|Hne].
  - rewrite assoc_set_same. split; auto. unfold tl_len in *. rewrite Hlen. exact Hp.
  - rewrite assoc_set_other by auto. apply (H0 b).
Qed.

(* W: the invariant for the ordering half of pending_executable *)
Definition W (p : pool) : Prop := unique_nonce p /\ lists_wf p /\ pn_ok p.
Lemma shrink_one_W : forall p a p', W p -> shrink_one p a = Ok p' -> W p'.
Proof. intros p a p' (U & L & N) H. split; [eapply shrink_one_un; eauto|split; [eapply shrink_one_LW; eauto|eapply shrink_one_pn; eauto]]. Qed.
Lemma remove_fold_W : forall o (l : list tx) p, W p -> W (fold_left (fun q t => remove_tx o q (thash t)) l p).
Proof. intros o l p (U & L & N). split; [apply remove_fold_un; auto|split; [apply remove_fold_LW; auto|apply remove_fold_W3; auto]]. Qed.
Lemma pe_account_W : forall o p a p', W p -> pe_account o p a = Ok p' -> W p'.
Proof. intros o p a p' (U & L & N) H. split; [eapply pe_account_un; eauto|split; [eapply pe_account_LW; eauto|eapply pe_account_pn; eauto]]. Qed.

Lemma shrink_fold_W : forall l (st r : pool * Z), W (fst st) ->
  fold_res (fun (st : pool * Z) a => q <- shrink_one (fst st) a ;; Ok (q, (snd st - 1) mod two64)) l st = Ok r -> W (fst r).
Proof.
  intros l st r Hun H. eapply (fold_res_inv _ _ (fun st => W (fst st))); eauto.
  intros a x a' Ha Hf. apply bind_ok in Hf. destruct Hf as (q & H1 & H2). inversion H2; subst. cbn [fst]. eapply shrink_one_W; eauto.
Qed.
Lemma equalize_W : forall fuel p cnt offs th r, W p -> equalize fuel p cnt offs th = Ok r -> W (fst r).
Proof.
  induction fuel as [|f IH]; intros p cnt offs th r Hun H; cbn [equalize] in H; [discriminate|].
  apply bind_ok in H. destruct H as (n & _ & H).
  destruct ((c_gslots (conf p) <? cnt) && (th <? n)); [|inversion H; subst; auto].
  apply bind_ok in H. destruct H as (r1 & H1 & H2). eapply IH; [|exact H2]. eapply shrink_fold_W; [|exact H1]. auto.
Qed.
Lemma spam_loop_W : forall fuel o p cnt sp offs r, W p -> spam_loop fuel o p cnt sp offs = Ok r -> W (fst (fst r)).
Proof.
  induction fuel as [|f IH]; intros o p cnt sp offs r Hun H; cbn [spam_loop] in H; [discriminate|].
  destruct (c_gslots (conf p) <? cnt); [|inversion H; subst; auto].
  destruct (prque_pop o sp) as [[off rest]|]; [|inversion H; subst; auto].
  destruct (1 <? Z.of_nat (length (offs ++ [off]))).
  - apply bind_ok in H. destruct H as (th & _ & H). apply bind_ok in H. destruct H as (r1 & H1 & H2).
    eapply IH; [|exact H2]. eapply equalize_W; eauto.
  - eapply IH; eauto.
Qed.
Lemma minimum_loop_W : forall fuel p cnt offs r, W p -> minimum_loop fuel p cnt offs = Ok r -> W (fst r).
Proof.
  induction fuel as [|f IH]; intros p cnt offs r Hun H; cbn [minimum_loop] in H; [discriminate|].
  apply bind_ok in H. destruct H as (n & _ & H).
  destruct ((c_gslots (conf p) <? cnt) && (c_aslots (conf p) <? n)); [|inversion H; subst; auto].
  apply bind_ok in H. destruct H as (r1 & H1 & H2). eapply IH; [|exact H2]. eapply shrink_fold_W; [|exact H1]. auto.
Qed.
Lemma pe_pending_limit_W : forall o p p', W p -> pe_pending_limit o p = Ok p' -> W p'.
Proof.
  intros o p p' Hun H. unfold pe_pending_limit in H. destruct (c_gslots (conf p) <? pending_count p); [|inversion H; subst; auto].
  apply bind_ok in H. destruct H as ([[p1 cnt1] offs] & H1 & H2). apply spam_loop_W in H1; auto. cbn [fst] in H1.
  destruct ((c_gslots (conf p1) <? cnt1) && negb (match offs with [] => true | _ => false end)); [|inversion H2; subst; auto].
  apply bind_ok in H2. destruct H2 as (r2 & H3 & H4). inversion H4; subst. eapply minimum_loop_W; eauto.
Qed.
Lemma gq_loop_W : forall o addrs p drop p', W p -> gq_loop o p addrs drop = Ok p' -> W p'.
Proof.
  induction addrs as [|a rest IH]; intros p drop p' Hun H; cbn [gq_loop] in H; [inversion H; subst; auto|].
  destruct (0 <? drop); [|inversion H; subst; auto]. destruct (assoc a (queue p)) as [l|]; [|discriminate].
  destruct (tl_len l <=? drop); eapply IH; try exact H; apply remove_fold_W; auto.
Qed.
Lemma promote_executables_W : forall o p accs p', W p -> promote_executables o p accs = Ok p' -> W p'.
Proof.
  intros o p accs p' Hun H. unfold promote_executables in H.
  apply bind_ok in H. destruct H as (p1 & H1 & H). apply bind_ok in H. destruct H as (p2 & H2 & H3).
  assert (U1 : W p1). { eapply (fold_res_inv _ _ W); [|exact Hun|exact H1]. intros; eapply pe_account_W; eauto. }
  assert (U2 : W p2) by (eapply pe_pending_limit_W; eauto).
  unfold pe_queue_limit in H3. destruct (c_gqueue (conf p2) <? queued_count p2); [|inversion H3; subst; auto]. eapply gq_loop_W; eauto.
Qed.
Lemma set_gas_price_W : forall o p g, W p -> W (set_gas_price o p g).
Proof.
  intros o p g Hun. unfold set_gas_price. match goal with |- context [priced_cap ?a ?b ?c ?d ?e] => destruct (priced_cap a b c d e) as [drop pr] end.
  apply remove_fold_W. exact Hun.
Qed.
Lemma add_W : forall o p t local r p', W p -> nonce_ok t -> add o p t local = (r, p') -> W p'.
Proof.
  intros o p t local r p' (U & L & N) Ht H. split; [eapply add_un; eauto|split; [eapply add_LW; eauto|]].
  unfold add in H. destruct (assoc (thash t) (all p)); [inversion H; subst; auto|].
  destruct (validate_tx p t local); [inversion H; subst; auto|].
  match type of H with (if ?c then _ else _) = _ => destruct c end; [|eapply add_insert_pn; eauto].
  destruct (priced_underpriced o (all p) (locals p) (pricedl p) t) as [u pr]. destruct u; [inversion H; subst; exact N|].
  match type of H with (let '(_, _) := ?d in _) = _ => destruct d as [drop pr1] end.
  eapply add_insert_pn; [| |exact H]; [apply remove_fold_un; exact U|apply remove_fold_W3; [exact L|exact N]].
Qed.
Lemma add_tx_W : forall o p t local e p', W p -> nonce_ok t -> add_tx o p t local = Ok (e, p') -> W p'.
Proof.
  intros o p t local e p' HW Ht H. unfold add_tx in H. destruct (add o p t local) as [[rep|er] p1] eqn:A; pose proof (add_W _ _ _ _ _ _ HW Ht A) as U1.
  - destruct rep; [inversion H; subst; auto|]. apply bind_ok in H. destruct H as (p2 & H1 & H2). inversion H2; subst. eapply promote_executables_W; eauto.
  - inversion H; subst; auto.
Qed.
(* head-free histories: submissions and price-threshold changes only (no reset) *)
Definition head_free (x : op) : Prop := match x with OpReset _ _ _ => False | _ => True end.
Lemma step_W : forall o p x p', W p -> head_free x -> Forall nonce_ok (op_txs x) -> step o p x = Ok p' -> W p'.
Proof.
  intros o p x p' HW Hh Hb H. destruct x; cbn [step op_txs] in *.
  - inversion Hb as [|? ? Bt Bn]; subst. apply bind_ok in H. destruct H as ([e q] & G1 & G2). inversion G2; subst. eapply add_tx_W; eauto.
  - inversion Hb as [|? ? Bt Bn]; subst. apply bind_ok in H. destruct H as ([e q] & G1 & G2). inversion G2; subst. eapply add_tx_W; eauto.
  - inversion H; subst. apply set_gas_price_W; auto.
  - destruct Hh.
Qed.
Theorem W_invariant : forall h p p', W p -> Forall (fun ox => head_free (snd ox) /\ Forall nonce_ok (op_txs (snd ox))) h -> run p h = Ok p' -> W p'.
Proof.
  induction h as [|[o x] h IH]; intros p p' HW Hh H; cbn [run] in H; [inversion H; subst; auto|].
  inversion Hh as [|? ? [A B] Hh']; subst. apply bind_ok in H. destruct H as (p1 & H1 & H2). eapply IH; [|exact Hh'|exact H2]. eapply step_W; eauto.
Qed.
Lemma new_pool_W : forall c gp cur0 gas0, W (new_pool c gp cur0 gas0).
Proof.
  intros. split; [apply new_pool_un|split].
  - split; cbn; intros a l H; discriminate.
  - intros a. cbn. reflexivity.
Qed.
Theorem pn_ok_head_free : forall h c gp cur0 gas0 p',
  Forall (fun ox => head_free (snd ox) /\ Forall nonce_ok (op_txs (snd ox))) h ->
  run (new_pool c gp cur0 gas0) h = Ok p' -> pn_ok p'.
Proof. intros h c gp cur0 gas0 p' Hh H. apply (W_invariant h _ _ (new_pool_W c gp cur0 gas0) Hh H). Qed.
