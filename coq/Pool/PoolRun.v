(* Pool/PoolRun.v — pn_ok (pending nonces = the run from the chain nonce, State().GetNonce = chain nonce + run length)
   across reset WITHOUT reinjection: demoteUnexecutables turns a run from the old chain nonce into a run from the new one
   or removes the list; the virtual-nonce loop of reset then re-establishes pn_get; promoteExecutables keeps W. *)
From Coq Require Import List ZArith Bool Sorted Lia.
From Coq Require Import ZifyBool.
From AQ Require Import Pool.PoolModel Pool.PoolSpec Pool.PoolProofs.
Import ListNotations.
Local Open Scope Z_scope.
Set Default Timeout 60.

(* ---------------------------------------------------------------- list level *)
Lemma filter_all : forall A (f : A -> bool) l, (forall y, In y l -> f y = true) -> filter f l = l.
Proof. induction l as [|z l IH]; intros H; cbn [filter]; auto. rewrite (H z (or_introl eq_refl)). f_equal. apply IH. intros y Hy. apply H. right; auto. Qed.

(* txList.Forward keeps a run (from max(c, n), or nothing) *)
Lemma run_forward : forall l c n, run_from c l -> exists c', run_from c' (filter (fun t => negb (tnonce t <? n)) l).
Proof.
  induction l as [|x l IH]; intros c n Hr; cbn [filter run_from] in *; [exists c; auto|]. destruct Hr as [Hx Hr].
  destruct (tnonce x <? n) eqn:E; cbn [negb].
  - eapply IH; eauto.
  - exists c. rewrite filter_all; [cbn [run_from]; auto|]. intros y Hy. pose proof (run_from_bounds _ _ _ Hr Hy). lia.
Qed.
(* a filter that is downward closed on a run keeps a prefix of it *)
Lemma run_down_closed : forall (g : tx -> bool) l c, run_from c l ->
  (forall x y, In x l -> In y l -> tnonce x < tnonce y -> g y = true -> g x = true) -> run_from c (filter g l).
Proof.
  induction l as [|x l IH]; intros c Hr Hd; cbn [filter run_from] in *; auto. destruct Hr as [Hx Hr].
  destruct (g x) eqn:E.
  - cbn [run_from]. split; auto. apply IH; auto. intros u v Hu Hv. apply Hd; right; auto.
  - rewrite filter_none; [cbn; auto|]. intros y Hy. destruct (g y) eqn:Ey; auto.
    rewrite (Hd x y) in E; [discriminate|left; auto|right; auto| |auto]. pose proof (run_from_bounds _ _ _ Hr Hy). lia.
Qed.
Lemma fold_min_le : forall l init, let m := fold_left (fun lo t => if tnonce t <? lo then tnonce t else lo) l init in
  m <= init /\ forall x, In x l -> m <= tnonce x.
Proof.
  induction l as [|y l IH]; intros init; cbn [fold_left]; [split; [lia|intros x []]|].
  destruct (IH (if tnonce y <? init then tnonce y else init)) as [A B]. cbv zeta. split.
  - destruct (tnonce y <? init) eqn:E; lia.
  - intros x [<-|Hx]; [|apply B; auto]. destruct (tnonce y <? init) eqn:E; lia.
Qed.
(* strict txList.Filter keeps a prefix of a run *)
Lemma run_filter : forall o l c cl gl drops invs l', strict l = true -> run_from c (items l) ->
  tl_filter o l cl gl = (drops, invs, l') -> run_from c (items l').
Proof.
  intros o l c cl gl drops invs l' Hs Hr H. unfold tl_filter in H.
  destruct ((costcap l <=? cl) && (gascap l <=? gl)); [inversion H; subst; auto|].
  set (bad := fun t => (cl <? tcost t) || (gl <? tgas t)) in *. rewrite Hs in H.
  destruct (filter bad (items l)) as [|r0 rs] eqn:R.
  - inversion H; subst. cbn [items]. apply run_down_closed; auto. intros x y Hx Hy _ _. change (negb (bad x) = true).
    destruct (bad x) eqn:E; auto. assert (In x (filter bad (items l))) by (apply filter_In; auto). rewrite R in H0. destruct H0.
  - inversion H; subst; clear H. cbn [items].
    match goal with |- context [negb (?m <? tnonce _)] => set (lowest := m) end.
    assert (Hmin : forall x, In x (r0 :: rs) -> lowest <= tnonce x) by (exact (proj2 (fold_min_le (r0 :: rs) (two64 - 1)))).
    rewrite <- R in Hmin. clearbody lowest. rewrite filter_filter.
    apply run_down_closed; auto. intros x y Hx Hy Hlt Hg.
    apply andb_true_iff in Hg. destruct Hg as [G1 G2]. apply andb_true_iff. split; [|lia]. change (negb (bad x) = true).
    destruct (bad x) eqn:E; auto. exfalso.
    assert (In x (filter bad (items l))) by (apply filter_In; auto).
    pose proof (Hmin x H). lia.
Qed.
(* the list-level core of demoteUnexecutables on a strict (pending) list: Forward(new chain nonce) followed by
   Filter(balance, gas limit) turns a run into a run (a suffix of the old run cut to a prefix), possibly empty *)
Lemma demote_lists_run : forall o l c n cl gl old l1 drops invs l2, strict l = true -> run_from c (items l) ->
  tl_forward l n = (old, l1) -> tl_filter o l1 cl gl = (drops, invs, l2) -> exists c', run_from c' (items l2).
Proof.
  intros o l c n cl gl old l1 drops invs l2 Hs Hr F H. unfold tl_forward in F. inversion F; subst; clear F.
  destruct (run_forward (items l) c n Hr) as [c' Hc]. exists c'. eapply run_filter; [| |exact H]; cbn [strict items]; auto.
Qed.
