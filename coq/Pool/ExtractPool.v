(* Extraction of the pool model for ocaml/pool/driver.ml.  ExtrOcamlBasic only. *)
From AQ Require Import Lib.Bytes Lib.ExtractBase Pool.PoolModel.
Require Extraction.
Require Import ExtrOcamlBasic.
Extraction "../ocaml/pool/model.ml" base_anchor
  new_pool add_local add_remote set_gas_price reset reset_heads reorg_txs
  pn_get cur_nonce cur_balance pending_count queued_count beat_of is_live
  (* the nonce-sorted list, compared on its own with core.txList by the data-structure sweep *)
  new_txlist tl_add tl_forward tl_filter tl_cap tl_remove tl_ready.
