(* Pool/PoolLimits.v — limits_hold: what promoteExecutables re-establishes, and the counter-example in between. *)
From Coq Require Import List ZArith Bool Sorted Lia.
From Coq Require Import ZifyBool.
From AQ Require Import Pool.PoolModel Pool.PoolSpec Pool.PoolProofs.
Import ListNotations.
Local Open Scope Z_scope.

(* the per-account queue cap for one account *)
Definition queue_capped (p : pool) (a : Z) : Prop := forall l, assoc a (queue p) = Some l -> tl_len l <= c_aqueue (conf p).

Lemma promote_frames : forall p a t, conf (promote_tx p a t) = conf p /\ locals (promote_tx p a t) = locals p /\ queue (promote_tx p a t) = queue p.
Proof.
  intros p a t. unfold promote_tx. destruct (tl_add _ t (c_bump (conf p))) as [[ins old] l']. destruct ins; [|repeat split; reflexivity].
  destruct old; cbn; match goal with |- context [match ?X with _ => _ end] => destruct X end; repeat split; reflexivity.
Qed.
Lemma promote_fold_frames : forall a ready p, let q := fold_left (fun q t => promote_tx q a t) ready p in
  conf q = conf p /\ locals q = locals p /\ queue q = queue p.
Proof.
  induction ready as [|t ready IH]; intros p; cbn [fold_left]; [repeat split; reflexivity|].
  destruct (promote_frames p a t) as (A & B & C). destruct (IH (promote_tx p a t)) as (A' & B' & C'). cbv zeta. repeat split; congruence.
Qed.
Lemma drop_all_frames : forall D p, conf (drop_all p D) = conf p /\ locals (drop_all p D) = locals p.
Proof. unfold drop_all. induction D as [|d D IH]; intros p; cbn [fold_left]; [split; reflexivity|]. destruct (IH (all_drop p (thash d))) as [A B]. rewrite A, B. split; reflexivity. Qed.
Lemma tl_cap_len : forall l k d l', tl_cap l k = Some (d, l') -> 0 <= k -> tl_len l' <= k.
Proof.
  intros l k d l' H Hk. unfold tl_cap, tl_len in *. destruct (Z.of_nat (length (items l)) <=? k) eqn:E; [inversion H; subst; lia|].
  destruct (k <? 0); [discriminate|]. inversion H; subst. cbn [items]. rewrite firstn_length. lia.
Qed.

(* promoteExecutables, per-account step: afterwards a non-local account has at most AccountQueue queued transactions;
   nothing but that account's queue entry, pool.pending, pool.all and the virtual nonces is touched *)
Lemma pe_account_caps : forall o p a p', pe_account o p a = Ok p' ->
  conf p' = conf p /\ locals p' = locals p /\ (forall b, b <> a -> assoc b (queue p') = assoc b (queue p)) /\
  (0 <= c_aqueue (conf p) -> memZ a (locals p) = false -> queue_capped p' a).
Proof.
  intros o p a p' H. unfold pe_account in H. destruct (assoc a (queue p)) as [l|] eqn:Q.
  2:{ inversion H; subst. repeat split; auto. intros _ _ l Hl. rewrite Q in Hl. discriminate. }
  destruct (tl_forward l (cur_nonce p a)) as [old l1].
  set (p1 := drop_all (set_queue p (assoc_set a l1 (queue p))) old) in *.
  destruct (drop_all_pq old (set_queue p (assoc_set a l1 (queue p)))) as [_ Pq1]. destruct (drop_all_frames old (set_queue p (assoc_set a l1 (queue p)))) as [Pc1 Pl1].
  fold p1 in Pq1, Pc1, Pl1. cbn [queue conf locals set_queue] in Pq1, Pc1, Pl1. clearbody p1.
  destruct (tl_filter o l1 (cur_balance p1 a) (maxgas p1)) as [[drops invs] l2].
  set (p2 := drop_all (set_queue p1 (assoc_set a l2 (queue p1))) drops) in *.
  destruct (drop_all_pq drops (set_queue p1 (assoc_set a l2 (queue p1)))) as [_ Pq2]. destruct (drop_all_frames drops (set_queue p1 (assoc_set a l2 (queue p1)))) as [Pc2 Pl2].
  fold p2 in Pq2, Pc2, Pl2. cbn [queue conf locals set_queue] in Pq2, Pc2, Pl2. clearbody p2.
  destruct (tl_ready l2 (pn_get p2 a)) as [ready l3].
  set (pb := set_queue p2 (assoc_set a l3 (queue p2))) in *.
  destruct (promote_fold_frames a ready pb) as (Pc3 & Pl3 & Pq3).
  set (p3 := fold_left (fun q t => promote_tx q a t) ready pb) in *. cbn [conf locals queue set_queue pb] in Pc3, Pl3, Pq3. unfold pb in Pc3, Pl3, Pq3. cbn [conf locals queue set_queue] in Pc3, Pl3, Pq3. clearbody p3.
  assert (Ec : conf p3 = conf p) by congruence. assert (El : locals p3 = locals p) by congruence.
  assert (Eo : forall b, b <> a -> assoc b (queue p3) = assoc b (queue p)).
  { intros b Hb. rewrite Pq3, assoc_set_other, Pq2, assoc_set_other, Pq1, assoc_set_other by auto. auto. }
  apply bind_ok in H. destruct H as ([p4 l4] & E1 & E2).
  assert (K4 : conf p4 = conf p /\ locals p4 = locals p /\ (forall b, b <> a -> assoc b (queue p4) = assoc b (queue p)) /\
               assoc a (queue p4) = Some l4 /\ (0 <= c_aqueue (conf p) -> memZ a (locals p) = false -> tl_len l4 <= c_aqueue (conf p))).
  { destruct (memZ a (locals p3)) eqn:Lc.
    - inversion E1; subst. repeat split; auto. { rewrite Pq3. apply assoc_set_same. } intros _ Hn. rewrite El in Lc. congruence.
    - destruct (tl_cap l3 (c_aqueue (conf p3))) as [[caps l4']|] eqn:C; [|discriminate]. inversion E1; subst; clear E1.
      destruct (drop_all_pq caps (set_queue p3 (assoc_set a l4 (queue p3)))) as [_ Pq4]. destruct (drop_all_frames caps (set_queue p3 (assoc_set a l4 (queue p3)))) as [Pc4 Pl4].
      cbn [queue conf locals set_queue] in Pq4, Pc4, Pl4. repeat split; try congruence.
      + intros b Hb. rewrite Pq4, assoc_set_other by auto. auto.
      + rewrite Pq4. apply assoc_set_same.
      + intros Hk _. rewrite <- Ec. eapply tl_cap_len; eauto. rewrite Ec. auto. }
  destruct K4 as (Kc & Kl & Ko & Ka & Kcap). inversion E2; subst. destruct (tl_empty l4).
  - cbn [conf locals queue set_queue]. repeat split; auto.
    + intros b Hb. rewrite assoc_del_other by auto. auto.
    + intros _ _ l0 Hl0. cbn [queue set_queue] in Hl0. rewrite assoc_del_same in Hl0. discriminate.
  - repeat split; auto. intros Hk Hn l0 Hl0. rewrite Ka in Hl0. inversion Hl0; subst. rewrite Kc. auto.
Qed.
Lemma pe_fold_keeps_cap : forall o accs p p' a, 0 <= c_aqueue (conf p) -> memZ a (locals p) = false ->
  fold_res (pe_account o) accs p = Ok p' -> queue_capped p a \/ In a accs ->
  conf p' = conf p /\ locals p' = locals p /\ queue_capped p' a.
Proof.
  induction accs as [|x accs IH]; intros p p' a Hk Hn H Hc; cbn [fold_res] in H.
  - inversion H; subst. destruct Hc as [Hc|[]]. auto.
  - apply bind_ok in H. destruct H as (p1 & H1 & H2). destruct (pe_account_caps _ _ _ _ H1) as (Ec & El & Eo & Ecap).
    assert (C1 : queue_capped p1 a \/ In a accs).
    { destruct (Z.eq_dec a x) as [->|Hne]; [left; apply Ecap; auto|].
      destruct Hc as [Hc|[E|Hin]]; [|congruence|right; auto]. left. intros l Hl. rewrite Eo in Hl by auto. rewrite Ec. auto. }
    destruct (IH p1 p' a) as (A & B & C); auto; try (rewrite Ec; auto); try (rewrite El; auto).
    split; [congruence|split; [congruence|exact C]].
Qed.

(* the GlobalSlots phase does not touch the queue or the configuration *)
Section QC.
  Variable Q0 : list (Z * txlist).
  Variable C0 : cfg.
  Variable L0 : list Z.
  Definition qc_inv (p : pool) : Prop := queue p = Q0 /\ conf p = C0 /\ locals p = L0.
  Lemma shrink_one_qc : forall p a p', qc_inv p -> shrink_one p a = Ok p' -> qc_inv p'.
  Proof.
    intros p a p' H0 H. unfold shrink_one in H. destruct (assoc a (pending p)) as [l|]; [|discriminate].
    destruct (tl_cap l (tl_len l - 1)) as [[drops l']|]; [|discriminate]. inversion H; subst; clear H.
    set (pb := set_pending p (assoc_set a l' (pending p))). assert (Ub : qc_inv pb) by exact H0. clearbody pb.
    revert pb Ub. induction drops as [|t drops IH]; intros pb Ub; cbn [fold_left]; auto.
    apply IH. cbv zeta. match goal with |- qc_inv (if ?c then _ else _) => destruct c end; exact Ub.
  Qed.
  Lemma shrink_fold_qc : forall l (st r : pool * Z), qc_inv (fst st) ->
    fold_res (fun (st : pool * Z) a => q <- shrink_one (fst st) a ;; Ok (q, (snd st - 1) mod two64)) l st = Ok r -> qc_inv (fst r).
  Proof.
    intros l st r Hun H. eapply (fold_res_inv _ _ (fun st => qc_inv (fst st))); eauto.
    intros a x a' Ha Hf. apply bind_ok in Hf. destruct Hf as (q & H1 & H2). inversion H2; subst. cbn [fst]. eapply shrink_one_qc; eauto.
  Qed.
  Lemma equalize_qc : forall fuel p cnt offs th r, qc_inv p -> equalize fuel p cnt offs th = Ok r -> qc_inv (fst r).
  Proof.
    induction fuel as [|f IH]; intros p cnt offs th r Hun H; cbn [equalize] in H; [discriminate|].
    apply bind_ok in H. destruct H as (n & _ & H).
    destruct ((c_gslots (conf p) <? cnt) && (th <? n)); [|inversion H; subst; auto].
    apply bind_ok in H. destruct H as (r1 & H1 & H2). eapply IH; [|exact H2]. eapply shrink_fold_qc; [|exact H1]. auto.
  Qed.
  Lemma spam_loop_qc : forall fuel o p cnt sp offs r, qc_inv p -> spam_loop fuel o p cnt sp offs = Ok r -> qc_inv (fst (fst r)).
  Proof.
    induction fuel as [|f IH]; intros o p cnt sp offs r Hun H; cbn [spam_loop] in H; [discriminate|].
    destruct (c_gslots (conf p) <? cnt); [|inversion H; subst; auto].
    destruct (prque_pop o sp) as [[off rest]|]; [|inversion H; subst; auto].
    destruct (1 <? Z.of_nat (length (offs ++ [off]))).
    - apply bind_ok in H. destruct H as (th & _ & H). apply bind_ok in H. destruct H as (r1 & H1 & H2).
      eapply IH; [|exact H2]. eapply equalize_qc; eauto.
    - eapply IH; eauto.
  Qed.
  Lemma minimum_loop_qc : forall fuel p cnt offs r, qc_inv p -> minimum_loop fuel p cnt offs = Ok r -> qc_inv (fst r).
  Proof.
    induction fuel as [|f IH]; intros p cnt offs r Hun H; cbn [minimum_loop] in H; [discriminate|].
    apply bind_ok in H. destruct H as (n & _ & H).
    destruct ((c_gslots (conf p) <? cnt) && (c_aslots (conf p) <? n)); [|inversion H; subst; auto].
    apply bind_ok in H. destruct H as (r1 & H1 & H2). eapply IH; [|exact H2]. eapply shrink_fold_qc; [|exact H1]. auto.
  Qed.
  Lemma pe_pending_limit_qc : forall o p p', qc_inv p -> pe_pending_limit o p = Ok p' -> qc_inv p'.
  Proof.
    intros o p p' Hun H. unfold pe_pending_limit in H. destruct (c_gslots (conf p) <? pending_count p); [|inversion H; subst; auto].
    apply bind_ok in H. destruct H as ([[p1 cnt1] offs] & H1 & H2). apply spam_loop_qc in H1; auto. cbn [fst] in H1.
    destruct ((c_gslots (conf p1) <? cnt1) && negb (match offs with [] => true | _ => false end)); [|inversion H2; subst; auto].
    apply bind_ok in H2. destruct H2 as (r2 & H3 & H4). inversion H4; subst. eapply minimum_loop_qc; eauto.
  Qed.
End QC.

(* limits_hold, per-account queue cap, PARTIAL: after the per-account phase and the GlobalSlots phase of
   promoteExecutables every processed non-local account has at most AccountQueue queued transactions *)
Theorem account_queue_cap_after_promote : forall o accs p p1 p2 a,
  0 <= c_aqueue (conf p) -> fold_res (pe_account o) accs p = Ok p1 -> pe_pending_limit o p1 = Ok p2 ->
  In a accs -> memZ a (locals p) = false -> queue_capped p2 a.
Proof.
  intros o accs p p1 p2 a Hk H1 H2 Hin Hn.
  destruct (pe_fold_keeps_cap o accs p p1 a Hk Hn H1 (or_intror Hin)) as (Ec & El & Cap).
  destruct (pe_pending_limit_qc (queue p1) (conf p1) (locals p1) o p1 p2) as (Q & C & _); [repeat split|exact H2|].
  intros l Hl. rewrite Q in Hl. rewrite C. apply Cap. exact Hl.
Qed.

(* the counter-example: between a removeTx re-queue and the next promoteExecutables the cap does not hold.
   AccountQueue = 2; A has nonces 0..3 pending, nonce 0 is cheap; SetGasPrice(50) drops it and re-queues 1,2,3 *)
Definition requeue_history : list (oracle * op) :=
  [(o0, OpAddRemote (mk 1 0 0 5)); (o0, OpAddRemote (mk 2 0 1 100)); (o0, OpAddRemote (mk 3 0 2 101));
   (o0, OpAddRemote (mk 4 0 3 102)); (o0, OpSetGasPrice 50)].
Lemma limits_hold_refuted :
  exists p l, run (new_pool cfg_tiny 1 [(0, (0, 100000000))] 1000000) requeue_history = Ok p /\
              assoc 0 (queue p) = Some l /\ memZ 0 (locals p) = false /\ c_aqueue (conf p) = 2 /\ tl_len l = 3.
Proof. eexists. eexists. split; [vm_compute; reflexivity|]. vm_compute. repeat split; reflexivity. Qed.
Lemma limits_hold_refuted' : exists p, run (new_pool cfg_tiny 1 [(0, (0, 100000000))] 1000000) requeue_history = Ok p /\ ~ limits_hold p.
Proof.
  destruct limits_hold_refuted as (p & l & R & A & N & C & T). exists p. split; auto. intros [H _]. specialize (H 0 l A N). lia.
Qed.
