(* Extraction of the block-import model for ocaml/import/driver.ml.  ExtrOcamlBasic only.
   The hash parameter is instantiated with the Gallina Keccak-256; the execution
   layer stays a parameter (the driver supplies an oracle table recorded from the
   real StateProcessor). *)
From AQ Require Import Lib.Bytes Lib.ExtractBase Lib.Keccak Rlp.RlpSpec Trie.MptSpec Trie.TrieModel
  Bloom.BloomModel Import.ImportModel Import.DeriveShaCode Import.ImportTx Import.UncleModel.
Require Extraction.
Require Import ExtrOcamlBasic.
Local Open Scope N_scope.

Definition k_derive_sha (items : list bytes) : bytes := derive_sha keccak256 items.
Definition k_calc_uncle_hash (us : list header) : bytes := calc_uncle_hash keccak256 us.
Definition k_receipt_rlp (r : receipt) : bytes := receipt_rlp keccak256 r.
Definition k_receipts_bloom (rs : list receipt) : N := receipts_bloom keccak256 rs.
Definition k_receipts_root (rs : list receipt) : bytes := receipts_root keccak256 rs.
Definition k_validate_body (b : block) : option reject := validate_body keccak256 b.
Definition k_validate_state (h : header) (rs : list receipt) (used : N) (root : bytes) : option reject :=
  validate_state keccak256 h rs used root.
Definition k_import_block := import_block keccak256.
Definition k_build_block := build_block keccak256.

(* DeriveSha as the code does it (Import/DeriveShaCode.v: trie.Update(rlp(i), item_i) on an empty
   trie without database, then trie.Hash, over the code-shaped trie of Trie/TrieModel.v).
   Proved equal to k_derive_sha (C01_derive_sha_code_is_spec); the driver still compares the two
   on every request. *)
Definition k_derive_sha_code (items : list bytes) : option bytes :=
  match derive_sha_code keccak256 [] items with
  | TrieModel.Ok h => Some h
  | _ => None
  end.

Extraction "../ocaml/import/model.ml" base_anchor keccak256 encode decode_exact
  header_item header_of_item log_item
  k_derive_sha k_derive_sha_code k_calc_uncle_hash k_receipt_rlp k_receipts_bloom k_receipts_root
  k_validate_body k_validate_state k_import_block k_build_block
  tx_state_root account_rlp addr_bytes select_uncles verify_uncles_struct.
