(* Import/ImportProofs.v — proofs about the block-import model (property C01). *)
From Coq Require Import ZifyBool ZifyN ZifyNat.
From AQ Require Import Lib.Bytes Rlp.RlpSpec Trie.MptSpec Bloom.BloomModel Import.ImportModel.
Import ListNotations.
Local Open Scope N_scope.

Section Commitments.
Variable H : bytes -> bytes.

(* ---------------------------------------------------------------- the two validators as decision rules *)

Lemma validate_body_none b :
  validate_body H b = None <->
  h_uncle_hash (b_header b) = calc_uncle_hash H (b_uncles b) /\
  h_tx_hash (b_header b) = derive_sha H (b_txs b).
Proof.
  unfold validate_body.
  destruct (bytes_eqb_spec (calc_uncle_hash H (b_uncles b)) (h_uncle_hash (b_header b))) as [E1|E1]; cbn [negb].
  - destruct (bytes_eqb_spec (derive_sha H (b_txs b)) (h_tx_hash (b_header b))) as [E2|E2]; cbn [negb].
    + split; [intros _; split; congruence|reflexivity].
    + split; [discriminate|]. intros [_ E]. congruence.
  - split; [discriminate|]. intros [E _]. congruence.
Qed.

Lemma validate_state_none h rs used root :
  validate_state H h rs used root = None <->
  h_gas_used h = used /\ h_bloom h = receipts_bloom H rs /\
  h_receipt_hash h = receipts_root H rs /\ h_root h = root.
Proof.
  unfold validate_state.
  destruct (N.eqb_spec (h_gas_used h) used) as [E1|E1]; cbn [negb].
  2:{ split; [discriminate|]. intros (E & _). congruence. }
  destruct (N.eqb_spec (receipts_bloom H rs) (h_bloom h)) as [E2|E2]; cbn [negb].
  2:{ split; [discriminate|]. intros (_ & E & _). congruence. }
  destruct (bytes_eqb_spec (receipts_root H rs) (h_receipt_hash h)) as [E3|E3]; cbn [negb].
  2:{ split; [discriminate|]. intros (_ & _ & E & _). congruence. }
  destruct (bytes_eqb_spec (h_root h) root) as [E4|E4]; cbn [negb].
  2:{ split; [discriminate|]. intros (_ & _ & _ & E). congruence. }
  split; [intros _; repeat split; congruence|reflexivity].
Qed.

(* which check rejects: the first one, in the code's order, whose commitment differs *)
Lemma validate_body_some b why :
  validate_body H b = Some why ->
  (why = RejUncleHash /\ h_uncle_hash (b_header b) <> calc_uncle_hash H (b_uncles b)) \/
  (why = RejTxRoot /\ h_uncle_hash (b_header b) = calc_uncle_hash H (b_uncles b) /\
   h_tx_hash (b_header b) <> derive_sha H (b_txs b)).
Proof.
  unfold validate_body.
  destruct (bytes_eqb_spec (calc_uncle_hash H (b_uncles b)) (h_uncle_hash (b_header b))) as [E1|E1]; cbn [negb].
  - destruct (bytes_eqb_spec (derive_sha H (b_txs b)) (h_tx_hash (b_header b))) as [E2|E2]; cbn [negb].
    + discriminate.
    + intros [= <-]. right. repeat split; congruence.
  - intros [= <-]. left. split; congruence.
Qed.

Section WithState.
Variables R O : Type.
Variable apply_msg : O -> exec_env -> N -> R -> N -> bytes -> option (msg_result R).
Variable block_start : O -> exec_env -> R -> R.
Variable finalize : O -> exec_env -> list header -> R -> R.
Variable root_of : O -> R -> bytes.

Notation process := (process R O apply_msg block_start finalize).
Notation process_txs := (process_txs R O apply_msg).
Notation apply_one := (apply_one R O apply_msg).
Notation import_block := (import_block H R O apply_msg block_start finalize root_of).
Notation build_block := (build_block H R O apply_msg block_start finalize root_of).
Notation commit_txs := (commit_txs R O apply_msg).

(* ---------------------------------------------------------------- 1. accept iff every commitment is the recomputed one *)

Theorem accept_iff_commitments : forall o s b r,
  import_block o s b = Accepted R r <->
  exists p, process o s b = Some p /\
    h_uncle_hash (b_header b) = calc_uncle_hash H (b_uncles b) /\
    h_tx_hash (b_header b) = derive_sha H (b_txs b) /\
    h_gas_used (b_header b) = p_used R p /\
    h_bloom (b_header b) = receipts_bloom H (p_receipts R p) /\
    h_receipt_hash (b_header b) = receipts_root H (p_receipts R p) /\
    h_root (b_header b) = root_of o (p_state R p) /\
    r = mkRes R (p_state R p) (p_receipts R p) (p_used R p) (root_of o (p_state R p)).
Proof.
  intros o s b r. unfold ImportModel.import_block. split.
  - destruct (validate_body H b) eqn:Eb; [discriminate|].
    apply validate_body_none in Eb. destruct Eb as [Eu Et].
    destruct (process o s b) as [p|] eqn:Ep; [|discriminate].
    destruct (validate_state H (b_header b) (p_receipts R p) (p_used R p) (root_of o (p_state R p))) eqn:Es; [discriminate|].
    apply validate_state_none in Es. destruct Es as (Eg & Ebl & Er & Ero).
    intros [= <-]. exists p. repeat split; assumption.
  - intros (p & Ep & Eu & Et & Eg & Ebl & Er & Ero & ->).
    assert (Eb : validate_body H b = None) by (apply validate_body_none; split; assumption).
    rewrite Eb, Ep.
    assert (Es : validate_state H (b_header b) (p_receipts R p) (p_used R p) (root_of o (p_state R p)) = None)
      by (apply validate_state_none; repeat split; assumption).
    rewrite Es. reflexivity.
Qed.

(* the reason of a rejection names the first commitment (in the code's order) that differs *)
Theorem reject_names_first_mismatch : forall o s b why,
  import_block o s b = Rejected R why ->
  match why with
  | RejUncleHash => h_uncle_hash (b_header b) <> calc_uncle_hash H (b_uncles b)
  | RejTxRoot => h_tx_hash (b_header b) <> derive_sha H (b_txs b)
  | RejProcess => process o s b = None
  | RejGasUsed => exists p, process o s b = Some p /\ h_gas_used (b_header b) <> p_used R p
  | RejBloom => exists p, process o s b = Some p /\ h_bloom (b_header b) <> receipts_bloom H (p_receipts R p)
  | RejReceiptRoot => exists p, process o s b = Some p /\ h_receipt_hash (b_header b) <> receipts_root H (p_receipts R p)
  | RejStateRoot => exists p, process o s b = Some p /\ h_root (b_header b) <> root_of o (p_state R p)
  | _ => False
  end.
Proof.
  intros o s b why. unfold ImportModel.import_block.
  destruct (validate_body H b) as [w|] eqn:Eb.
  - intros [= <-]. apply validate_body_some in Eb. destruct Eb as [[-> E]|[-> [_ E]]]; exact E.
  - destruct (process o s b) as [p|] eqn:Ep.
    2:{ intros [= <-]. reflexivity. }
    unfold validate_state.
    destruct (N.eqb_spec (h_gas_used (b_header b)) (p_used R p)) as [E1|E1]; cbn [negb].
    2:{ intros [= <-]. exists p. split; [reflexivity|exact E1]. }
    destruct (N.eqb_spec (receipts_bloom H (p_receipts R p)) (h_bloom (b_header b))) as [E2|E2]; cbn [negb].
    2:{ intros [= <-]. exists p. split; [reflexivity|congruence]. }
    destruct (bytes_eqb_spec (receipts_root H (p_receipts R p)) (h_receipt_hash (b_header b))) as [E3|E3]; cbn [negb].
    2:{ intros [= <-]. exists p. split; [reflexivity|congruence]. }
    destruct (bytes_eqb_spec (h_root (b_header b)) (root_of o (p_state R p))) as [E4|E4]; cbn [negb].
    2:{ intros [= <-]. exists p. split; [reflexivity|exact E4]. }
    discriminate.
Qed.

(* ---------------------------------------------------------------- 2. a rejected block leaves the store as it was *)

Section Store.
Variable hash_of : header -> bytes.
Variable verify_header : store R -> header -> bool.
Variable verify_uncles : store R -> block -> bool.
Variable fork_choice : store R -> block -> bool.

Notation insert_block := (insert_block H R O apply_msg block_start finalize root_of hash_of verify_header verify_uncles fork_choice).
Notation insert_chain := (insert_chain H R O apply_msg block_start finalize root_of hash_of verify_header verify_uncles fork_choice).

Theorem reject_leaves_store : forall o st b st' why,
  insert_block o st b = (st', Failed R why) -> st' = st.
Proof.
  intros o st b st' why. unfold ImportModel.insert_block.
  destruct (verify_header st (b_header b)); cbn [negb]; [|intros [= <- _]; reflexivity].
  destruct (lookup_block R (hash_of (b_header b)) (st_blocks R st)); [intros [= <-]; reflexivity|].
  destruct (lookup_block R (h_parent (b_header b)) (st_blocks R st)) as [parent|]; [|intros [= <- _]; reflexivity].
  destruct (verify_uncles st b); cbn [negb]; [|intros [= <- _]; reflexivity].
  destruct (import_block o (sb_state R parent) b); [discriminate|].
  intros [= <- _]. reflexivity.
Qed.

Theorem known_block_leaves_store : forall o st b st',
  insert_block o st b = (st', Ignored R) -> st' = st.
Proof.
  intros o st b st'. unfold ImportModel.insert_block.
  destruct (verify_header st (b_header b)); cbn [negb]; [|discriminate].
  destruct (lookup_block R (hash_of (b_header b)) (st_blocks R st)); [intros [= <-]; reflexivity|].
  destruct (lookup_block R (h_parent (b_header b)) (st_blocks R st)) as [parent|]; [|discriminate].
  destruct (verify_uncles st b); cbn [negb]; [|discriminate].
  destruct (import_block o (sb_state R parent) b); discriminate.
Qed.

(* a block is written only after import_block accepted it on the stored parent state,
   and writing adds exactly that block with the recomputed receipts and state *)
Theorem inserted_only_if_accepted : forall o st b st' r,
  insert_block o st b = (st', Inserted R r) ->
  exists parent, lookup_block R (h_parent (b_header b)) (st_blocks R st) = Some parent /\
    import_block o (sb_state R parent) b = Accepted R r /\
    st_blocks R st' = (hash_of (b_header b), mkStored R b (res_receipts R r) (res_state R r)) :: st_blocks R st /\
    (st_head R st' = st_head R st \/ st_head R st' = hash_of (b_header b)).
Proof.
  intros o st b st' r. unfold ImportModel.insert_block.
  destruct (verify_header st (b_header b)); cbn [negb]; [|discriminate].
  destruct (lookup_block R (hash_of (b_header b)) (st_blocks R st)); [discriminate|].
  destruct (lookup_block R (h_parent (b_header b)) (st_blocks R st)) as [parent|]; [|discriminate].
  destruct (verify_uncles st b); cbn [negb]; [|discriminate].
  destruct (import_block o (sb_state R parent) b) as [r0|] eqn:Ei; [|discriminate].
  intros [= <- <-]. exists parent. split; [reflexivity|]. split; [exact Ei|].
  cbn [st_blocks st_head]. split; [reflexivity|].
  destruct (fork_choice st b); [right|left]; reflexivity.
Qed.

(* insertChain: when block number i of the batch is rejected, the store is exactly the
   store after the i good blocks before it; the bad block and everything after it
   left no trace *)
Theorem failed_batch_is_good_prefix : forall chain o st i0 st' i why,
  insert_chain o st i0 chain = (st', Some (i, why)) ->
  exists good bad rest, chain = good ++ bad :: rest /\ i = i0 + lenN good /\
    insert_chain o st i0 good = (st', None) /\
    insert_block o st' bad = (st', Failed R why).
Proof.
  induction chain as [|b chain IH]; intros o st i0 st' i why; cbn [ImportModel.insert_chain].
  - discriminate.
  - destruct (insert_block o st b) as [st1 res] eqn:Eb.
    destruct res as [r| |w].
    + intros Hc. apply IH in Hc. destruct Hc as (good & bad & rest & -> & -> & Hg & Hb).
      exists (b :: good), bad, rest. split; [reflexivity|]. split; [unfold lenN; cbn [length]; lia|].
      cbn [ImportModel.insert_chain]. rewrite Eb. split; assumption.
    + intros Hc. apply IH in Hc. destruct Hc as (good & bad & rest & -> & -> & Hg & Hb).
      exists (b :: good), bad, rest. split; [reflexivity|]. split; [unfold lenN; cbn [length]; lia|].
      cbn [ImportModel.insert_chain]. rewrite Eb. split; assumption.
    + intros [= <- <- <-]. pose proof (reject_leaves_store _ _ _ _ _ Eb) as ->.
      exists [], b, chain. split; [reflexivity|]. split; [unfold lenN; cbn [length]; lia|].
      split; [reflexivity|exact Eb].
Qed.

End Store.

(* ---------------------------------------------------------------- 4. the result depends on the parent state's content only *)

Section Content.
Variable S : Type.
Variable content : R -> S.
(* which implementation choices can occur at all (e.g. an iteration order is a duplicate-free
   permutation of the dirty set); the trivial predicate gives the unrestricted statements *)
Variable okO : O -> Prop.

(* premises: what C06/C07/C09 (execution reads the state through its getters only)
   and C09.4/C10.3 (the root is a function of the content) provide *)
Definition msg_equiv (m1 m2 : option (msg_result R)) : Prop :=
  match m1, m2 with
  | Some a, Some b => content (mr_state R a) = content (mr_state R b) /\ mr_pool R a = mr_pool R b /\
                      mr_gas R a = mr_gas R b /\ mr_post R a = mr_post R b /\ mr_logs R a = mr_logs R b
  | None, None => True
  | _, _ => False
  end.
Hypothesis apply_msg_content : forall o1 o2 env idx s1 s2 pool tx,
  okO o1 -> okO o2 -> content s1 = content s2 -> msg_equiv (apply_msg o1 env idx s1 pool tx) (apply_msg o2 env idx s2 pool tx).
Hypothesis block_start_content : forall o1 o2 env s1 s2,
  okO o1 -> okO o2 -> content s1 = content s2 -> content (block_start o1 env s1) = content (block_start o2 env s2).
Hypothesis finalize_content : forall o1 o2 env us s1 s2,
  okO o1 -> okO o2 -> content s1 = content s2 -> content (finalize o1 env us s1) = content (finalize o2 env us s2).
Hypothesis root_content : forall o1 o2 s1 s2, okO o1 -> okO o2 -> content s1 = content s2 -> root_of o1 s1 = root_of o2 s2.

Definition res_equiv (r1 r2 : results R) : Prop :=
  content (res_state R r1) = content (res_state R r2) /\ res_receipts R r1 = res_receipts R r2 /\
  res_used R r1 = res_used R r2 /\ res_root R r1 = res_root R r2.
Definition import_equiv (a b : import_result R) : Prop :=
  match a, b with
  | Accepted _ r1, Accepted _ r2 => res_equiv r1 r2
  | Rejected _ w1, Rejected _ w2 => w1 = w2
  | _, _ => False
  end.
Definition proc_equiv (a b : option (proc_ok R)) : Prop :=
  match a, b with
  | Some p1, Some p2 => content (p_state R p1) = content (p_state R p2) /\
                        p_receipts R p1 = p_receipts R p2 /\ p_used R p1 = p_used R p2
  | None, None => True
  | _, _ => False
  end.

Lemma process_txs_content : forall txs o1 o2 env idx s1 s2 pool cum acc,
  okO o1 -> okO o2 -> content s1 = content s2 ->
  proc_equiv (process_txs o1 env idx s1 pool cum txs acc) (process_txs o2 env idx s2 pool cum txs acc).
Proof.
  induction txs as [|tx txs IH]; intros o1 o2 env idx s1 s2 pool cum acc K1 K2 Hc; cbn [ImportModel.process_txs].
  - cbn. auto.
  - unfold ImportModel.apply_one.
    pose proof (apply_msg_content o1 o2 env idx s1 s2 pool tx K1 K2 Hc) as Hm. unfold msg_equiv in Hm.
    destruct (apply_msg o1 env idx s1 pool tx) as [m1|], (apply_msg o2 env idx s2 pool tx) as [m2|];
      try contradiction; [|cbn; exact I].
    destruct Hm as (Hs & Hp & Hg & Hpo & Hl). cbn [ts_state ts_pool ts_cum ts_receipt].
    rewrite Hp, Hg, Hpo, Hl. apply IH; assumption.
Qed.

Lemma process_content : forall o1 o2 s1 s2 b,
  okO o1 -> okO o2 -> content s1 = content s2 -> proc_equiv (process o1 s1 b) (process o2 s2 b).
Proof.
  intros o1 o2 s1 s2 b K1 K2 Hc. unfold ImportModel.process.
  pose proof (process_txs_content (b_txs b) o1 o2 (env_of (b_header b)) 0
                (block_start o1 (env_of (b_header b)) s1) (block_start o2 (env_of (b_header b)) s2)
                (h_gas_limit (b_header b)) 0 [] K1 K2 (block_start_content _ _ _ _ _ K1 K2 Hc)) as Hp.
  unfold proc_equiv in Hp.
  destruct (process_txs o1 _ 0 _ _ 0 (b_txs b) []) as [p1|], (process_txs o2 _ 0 _ _ 0 (b_txs b) []) as [p2|];
    try contradiction; [|exact I].
  destruct Hp as (Hs & Hr & Hu). cbn [proc_equiv p_state p_receipts p_used].
  split; [apply finalize_content; assumption|]. split; assumption.
Qed.

Theorem import_depends_on_content_only : forall o1 o2 s1 s2 b,
  okO o1 -> okO o2 -> content s1 = content s2 -> import_equiv (import_block o1 s1 b) (import_block o2 s2 b).
Proof.
  intros o1 o2 s1 s2 b K1 K2 Hc. unfold ImportModel.import_block.
  destruct (validate_body H b); [reflexivity|].
  pose proof (process_content o1 o2 s1 s2 b K1 K2 Hc) as Hp. unfold proc_equiv in Hp.
  destruct (process o1 s1 b) as [p1|], (process o2 s2 b) as [p2|]; try contradiction; [|reflexivity].
  destruct Hp as (Hs & Hr & Hu). rewrite <- Hr, <- Hu, <- (root_content o1 o2 _ _ K1 K2 Hs).
  destruct (validate_state H (b_header b) (p_receipts R p1) (p_used R p1) (root_of o1 (p_state R p1)));
    [reflexivity|].
  cbn [import_equiv]. unfold res_equiv. cbn [res_state res_receipts res_used res_root].
  repeat split; assumption.
Qed.

(* ---------------------------------------------------------------- 3. what the node builds, the node imports *)

(* the transactions the builder kept re-execute, in order, with the builder's receipts *)
Lemma commit_txs_replays : forall cands tx_gas o env idx s pool cum txs0 acc0 s' used txs rs,
  commit_txs tx_gas o env idx s pool cum cands txs0 acc0 = (s', used, txs, rs) ->
  exists txs1 rs1, txs = rev txs0 ++ txs1 /\ rs = rev acc0 ++ rs1 /\ length txs1 = length rs1 /\
    forall acc, process_txs o env idx s pool cum txs1 acc = Some (mkProc R s' (rev acc ++ rs1) used).
Proof.
  induction cands as [|tx cands IH]; intros tx_gas o env idx s pool cum txs0 acc0 s' used txs rs;
    cbn [ImportModel.commit_txs].
  - intros [= <- <- <- <-]. exists [], []. rewrite !app_nil_r. repeat split.
    intros acc. cbn [ImportModel.process_txs]. now rewrite app_nil_r.
  - destruct (pool <? tx_gas).
    + intros [= <- <- <- <-]. exists [], []. rewrite !app_nil_r. repeat split.
      intros acc. cbn [ImportModel.process_txs]. now rewrite app_nil_r.
    + destruct (apply_one o env idx s pool cum tx) as [st|] eqn:Ea.
      * intros Hc. apply IH in Hc. destruct Hc as (txs1 & rs1 & -> & -> & Hl & Hp).
        exists (tx :: txs1), (ts_receipt R st :: rs1). cbn [rev]. rewrite <- !app_assoc. cbn [app].
        split; [reflexivity|]. split; [reflexivity|]. split; [cbn [length]; congruence|].
        intros acc. cbn [ImportModel.process_txs]. rewrite Ea. rewrite Hp. cbn [rev]. now rewrite <- app_assoc.
      * intros Hc. apply IH in Hc. exact Hc.
Qed.

Lemma env_of_new_block h txs us rs : env_of (b_header (new_block H h txs us rs)) = env_of h.
Proof. reflexivity. Qed.

Lemma receipts_bloom_nil : receipts_bloom H [] = 0.
Proof. reflexivity. Qed.

(* same orders, same representation *)
Lemma built_block_imports_same : forall tx_gas o s tmpl cands uncles b r,
  h_bloom tmpl = 0 ->
  build_block tx_gas o s tmpl cands uncles = (b, r) ->
  import_block o s b = Accepted R r.
Proof.
  intros tx_gas o s tmpl cands uncles b r Hbl. unfold ImportModel.build_block.
  destruct (commit_txs tx_gas o (env_of tmpl) 0 (block_start o (env_of tmpl) s) (h_gas_limit tmpl) 0 cands [] [])
    as [[[s1 used] txs] rs] eqn:Ec.
  intros [= <- <-].
  apply commit_txs_replays in Ec. destruct Ec as (txs1 & rs1 & E1 & E2 & Hlen & Hp).
  cbn [rev app] in E1, E2. subst txs1 rs1. specialize (Hp []). cbn [rev app] in Hp.
  apply accept_iff_commitments.
  exists (mkProc R (finalize o (env_of tmpl) uncles s1) rs used).
  split.
  { unfold ImportModel.process. cbn [new_block b_header b_txs b_uncles h_gas_limit].
    change (env_of _) with (env_of tmpl). rewrite Hp. reflexivity. }
  cbn [new_block b_header b_txs b_uncles h_uncle_hash h_tx_hash h_gas_used h_bloom h_receipt_hash h_root
       p_state p_receipts p_used].
  split; [destruct uncles; reflexivity|].
  split; [destruct txs; reflexivity|].
  split; [reflexivity|].
  split; [destruct rs; [exact Hbl|reflexivity]|].
  split; [destruct rs; reflexivity|].
  split; reflexivity.
Qed.

(* the full statement: the importing node may hold the parent state in another
   representation and take other iteration orders / cache generations *)
Theorem built_block_imports : forall tx_gas o1 o2 s1 s2 tmpl cands uncles b r,
  okO o1 -> okO o2 -> content s1 = content s2 -> h_bloom tmpl = 0 ->
  build_block tx_gas o1 s1 tmpl cands uncles = (b, r) ->
  exists r', import_block o2 s2 b = Accepted R r' /\ res_equiv r r'.
Proof.
  intros tx_gas o1 o2 s1 s2 tmpl cands uncles b r K1 K2 Hc Hbl Hb.
  pose proof (built_block_imports_same _ _ _ _ _ _ _ _ Hbl Hb) as Hi.
  pose proof (import_depends_on_content_only o1 o2 s1 s2 b K1 K2 Hc) as He.
  rewrite Hi in He. unfold import_equiv in He.
  destruct (import_block o2 s2 b) as [r'|]; [|contradiction].
  exists r'. split; [reflexivity|exact He].
Qed.

End Content.
End WithState.

(* ---------------------------------------------------------------- receipts commit to log order and to the status *)

(* the encoding of a receipt determines its consensus fields, for every H: two receipt
   lists that differ in a status, a cumulative gas value, the order of two logs or any
   log field are different lists of trie values *)
Lemma map_Str_inj : forall a b : list bytes, map Str a = map Str b -> a = b.
Proof.
  induction a as [|x a IH]; intros [|y b]; cbn; try discriminate; [reflexivity|].
  intros [= -> E]. f_equal. now apply IH.
Qed.

Lemma log_item_inj l1 l2 : log_item l1 = log_item l2 ->
  l_addr l1 = l_addr l2 /\ l_topics l1 = l_topics l2 /\ l_data l1 = l_data l2.
Proof. unfold log_item. intros [= Ea Et Ed]. apply map_Str_inj in Et. auto. Qed.

Theorem receipt_item_commits r1 r2 : receipt_item H r1 = receipt_item H r2 ->
  r_post r1 = r_post r2 /\ r_cumulative r1 = r_cumulative r2 /\ map log_item (r_logs r1) = map log_item (r_logs r2).
Proof.
  unfold receipt_item.
  generalize (bloom_bytes (logs_bloom H (r_logs r1))), (bloom_bytes (logs_bloom H (r_logs r2))).
  intros bl1 bl2 [= Ep Ec _ El]. split; [exact Ep|]. split; [|exact El].
  rewrite <- (N_of_be_of_N (r_cumulative r1)), <- (N_of_be_of_N (r_cumulative r2)). now rewrite Ec.
Qed.

End Commitments.

(* ---------------------------------------------------------------- a concrete instance (non-vacuity) *)

(* a toy execution layer: the state is one counter; a transaction is its payload
   bytes; a payload starting with 0xff is not applicable; every other one burns
   21000 + its length gas, adds its length to the counter and emits one log *)
Definition ex_apply (_ : unit) (env : exec_env) (idx : N) (s : N) (pool : N) (tx : bytes) : option (msg_result N) :=
  match tx with
  | xff :: _ => None
  | _ => let g := 21000 + lenN tx in
         if pool <? g then None
         else Some (mkMR N (s + lenN tx + e_number env) (pool - g) g [x01]
                         [mkLog (be_fixed 20 (idx + 7)) [be_fixed 32 (lenN tx)] tx 0])
  end.
Definition ex_start (_ : unit) (_ : exec_env) (s : N) : N := s.
Definition ex_finalize (_ : unit) (env : exec_env) (us : list header) (s : N) : N := s + 1000 + 31 * lenN us.
Definition ex_root (_ : unit) (s : N) : bytes := be_fixed 32 s.
Definition ex_uncle : header :=
  mkHeader (be_fixed 32 5) (be_fixed 32 6) (be_fixed 20 9) (be_fixed 32 1) (be_fixed 32 2) (be_fixed 32 3) 0 1 2 8000000 0 700 [] (be_fixed 32 0) (be_fixed 8 0).
Definition ex_template : header := template (be_fixed 32 77) (be_fixed 20 9) 131072 3 8000000 720 [x41].
Definition ex_cands : list bytes := [[x01; x02; x03]; [xff; x00]; [x04]].
Definition with_header (b : block) (h : header) : block := mkBlock h (b_txs b) (b_uncles b).
Definition set_gas_used (h : header) (g : N) : header :=
  mkHeader (h_parent h) (h_uncle_hash h) (h_coinbase h) (h_root h) (h_tx_hash h) (h_receipt_hash h)
           (h_bloom h) (h_difficulty h) (h_number h) (h_gas_limit h) g (h_time h) (h_extra h) (h_mix h) (h_nonce h).
Definition set_bloom (h : header) (bl : N) : header :=
  mkHeader (h_parent h) (h_uncle_hash h) (h_coinbase h) (h_root h) (h_tx_hash h) (h_receipt_hash h)
           bl (h_difficulty h) (h_number h) (h_gas_limit h) (h_gas_used h) (h_time h) (h_extra h) (h_mix h) (h_nonce h).

(* ---------------------------------------------------------------- the premises about the execution layer, bundled *)

(* "execution and the state root see the parent state through its content only":
   for any two representations with the same content and any two sets of
   implementation choices, one transaction gives the same gas, status/root bytes,
   logs and gas pool and states of equal content; so do the hard-fork mutations and
   the reward step; and the root is the same.  (C06/C07 on C09's getters; C09.4; C10.3.) *)
Definition exec_respects_content (R O S : Type) (content : R -> S) (okO : O -> Prop)
    (apply_msg : O -> exec_env -> N -> R -> N -> bytes -> option (msg_result R))
    (block_start : O -> exec_env -> R -> R)
    (finalize : O -> exec_env -> list header -> R -> R)
    (root_of : O -> R -> bytes) : Prop :=
  (forall o1 o2 env idx s1 s2 pool tx, okO o1 -> okO o2 -> content s1 = content s2 ->
     msg_equiv R S content (apply_msg o1 env idx s1 pool tx) (apply_msg o2 env idx s2 pool tx)) /\
  (forall o1 o2 env s1 s2, okO o1 -> okO o2 -> content s1 = content s2 ->
     content (block_start o1 env s1) = content (block_start o2 env s2)) /\
  (forall o1 o2 env us s1 s2, okO o1 -> okO o2 -> content s1 = content s2 ->
     content (finalize o1 env us s1) = content (finalize o2 env us s2)) /\
  (forall o1 o2 s1 s2, okO o1 -> okO o2 -> content s1 = content s2 -> root_of o1 s1 = root_of o2 s2).

Theorem import_content_only : forall (H : bytes -> bytes) (R O S : Type) (content : R -> S) (okO : O -> Prop)
    apply_msg block_start finalize root_of,
  exec_respects_content R O S content okO apply_msg block_start finalize root_of ->
  forall o1 o2 s1 s2 b, okO o1 -> okO o2 -> content s1 = content s2 ->
  import_equiv R S content (import_block H R O apply_msg block_start finalize root_of o1 s1 b)
                           (import_block H R O apply_msg block_start finalize root_of o2 s2 b).
Proof.
  intros H R O S content okO am bs fin ro (H1 & H2 & H3 & H4).
  exact (import_depends_on_content_only H R O am bs fin ro S content okO H1 H2 H3 H4).
Qed.

Theorem built_imports : forall (H : bytes -> bytes) (R O S : Type) (content : R -> S) (okO : O -> Prop)
    apply_msg block_start finalize root_of,
  exec_respects_content R O S content okO apply_msg block_start finalize root_of ->
  forall tx_gas o1 o2 s1 s2 tmpl cands uncles b r,
  okO o1 -> okO o2 -> content s1 = content s2 -> h_bloom tmpl = 0 ->
  build_block H R O apply_msg block_start finalize root_of tx_gas o1 s1 tmpl cands uncles = (b, r) ->
  exists r', import_block H R O apply_msg block_start finalize root_of o2 s2 b = Accepted R r' /\
             res_equiv R S content r r'.
Proof.
  intros H R O S content okO am bs fin ro (H1 & H2 & H3 & H4).
  exact (built_block_imports H R O am bs fin ro S content okO H1 H2 H3 H4).
Qed.

Lemma ex_respects : exec_respects_content N unit N (fun s => s) (fun _ => True) ex_apply ex_start ex_finalize ex_root.
Proof.
  unfold exec_respects_content. repeat split.
  - intros [] [] env idx s1 s2 pool tx _ _ E. cbv beta in E. subst s2.
    unfold msg_equiv. destruct (ex_apply tt env idx s1 pool tx); auto.
  - intros [] [] env s1 s2 _ _ E. cbv beta in *. now subst.
  - intros [] [] env us s1 s2 _ _ E. cbv beta in *. now subst.
  - intros [] [] s1 s2 _ _ E. cbv beta in *. now subst.
Qed.
