(* Import/UncleProofs.v — what the worker selects, the engine's structural uncle checks accept. *)
From Coq Require Import ZifyBool ZifyN ZifyNat.
From AQ Require Import Lib.Bytes Import.UncleModel.
Import ListNotations.
Local Open Scope N_scope.

Lemma bmem_in x l : bmem x l = true <-> In x l.
Proof.
  unfold bmem. rewrite existsb_exists. split.
  - intros (y & Hin & E). destruct (bytes_eqb_spec x y); [now subst|discriminate].
  - intros Hin. exists x. split; [exact Hin|]. destruct (bytes_eqb_spec x x); congruence.
Qed.

Lemma in_family_anc ancs h : In h (ancestors ancs) -> In h (family ancs).
Proof.
  unfold ancestors, family. intros Hin. apply in_map_iff in Hin. destruct Hin as (a & <- & Ha).
  apply in_flat_map. exists a. split; [exact Ha|]. apply in_or_app. right. now left.
Qed.
Lemma in_family_uncle ancs h : In h (flat_map a_uncles ancs) -> In h (family ancs).
Proof.
  unfold family. intros Hin. apply in_flat_map in Hin. destruct Hin as (a & Ha & Hu).
  apply in_flat_map. exists a. split; [exact Ha|]. apply in_or_app. now left.
Qed.

(* the loop takes nothing, or exactly one candidate that commitUncle accepted on an empty set *)
Lemma select_spec ancs : forall cands bad picked bad',
  select_uncles ancs cands [] [] bad = (picked, bad') ->
  picked = [] \/ exists c, picked = [c] /\ In c cands /\ commit_uncle ancs [] c = None.
Proof.
  induction cands as [|c r IH]; intros bad picked bad'; cbn [select_uncles].
  - intros [= <- _]. now left.
  - change (lenN (@nil cand) =? 1) with false. cbv iota.
    destruct (commit_uncle ancs [] c) eqn:Ec.
    + intros E. apply IH in E. destruct E as [->|(c' & -> & Hin & Hc)]; [now left|].
      right. exists c'. repeat split; auto. now right.
    + intros E. right. exists c. split; [|split; [now left|exact Ec]].
      destruct r as [|c2 r]; cbn [select_uncles] in E.
      * now injection E as <- _.
      * change (lenN [c] =? 1) with true in E. cbv iota in E. now injection E as <- _.
Qed.

(* the uncles commitNewWork takes pass the structural checks of VerifyUncles on the block that
   carries them, provided no possible uncle is a child of the head (such a block would have become
   the head, not a side block) and the new block's hash is none of the hashes involved *)
Theorem selected_uncles_verify : forall hf5 ancs head rest cands picked bad block_hash,
  ancs = head :: rest ->
  (forall c, In c cands -> c_parent c <> a_hash head) ->
  (forall c, In c cands -> c_hash c <> block_hash) ->
  select_uncles ancs cands [] [] [] = (picked, bad) ->
  verify_uncles_struct hf5 ancs block_hash (a_hash head) picked = None.
Proof.
  intros hf5 ancs head rest cands picked bad bh Ea Hpar Hfresh Hs.
  apply select_spec in Hs. destruct Hs as [->|(c & -> & Hin & Hc)].
  - reflexivity.
  - unfold verify_uncles_struct. change (2 <? lenN [c]) with false. change (1 <? lenN [c]) with false. cbv iota.
    cbn [andb verify_loop].
    unfold commit_uncle in Hc. change (0 <? lenN (@nil bytes)) with false in Hc. cbv iota in Hc.
    cbn [bmem existsb] in Hc.
    destruct (bmem (c_parent c) (ancestors ancs)) eqn:Ep; cbn [negb] in Hc; [|discriminate].
    destruct (bmem (c_hash c) (family ancs)) eqn:Ef; [discriminate|].
    assert (Hnf : ~ In (c_hash c) (family ancs)) by (rewrite <- bmem_in; congruence).
    (* duplicate *)
    assert (E1 : bmem (c_hash c) (bh :: flat_map a_uncles ancs) = false).
    { apply Bool.not_true_is_false. rewrite bmem_in. intros [E|Hu]; [symmetry in E; exact (Hfresh c Hin E)|].
      apply Hnf. now apply in_family_uncle. }
    rewrite E1.
    (* ancestor *)
    assert (E2 : bmem (c_hash c) (bh :: ancestors ancs) = false).
    { apply Bool.not_true_is_false. rewrite bmem_in. intros [E|Hu]; [symmetry in E; exact (Hfresh c Hin E)|].
      apply Hnf. now apply in_family_anc. }
    rewrite E2.
    (* dangling *)
    assert (E3 : bmem (c_parent c) (bh :: ancestors ancs) = true).
    { rewrite bmem_in. right. now rewrite <- bmem_in. }
    rewrite E3. cbn [negb orb].
    destruct (bytes_eqb_spec (c_parent c) (a_hash head)) as [E|_]; [exfalso; exact (Hpar c Hin E)|].
    reflexivity.
Qed.

(* ... and an uncle an ancestor already included is never taken again *)
Theorem included_uncle_not_reselected : forall ancs cands picked bad c,
  select_uncles ancs cands [] [] [] = (picked, bad) -> In c picked ->
  ~ In (c_hash c) (flat_map a_uncles ancs) /\ ~ In (c_hash c) (ancestors ancs).
Proof.
  intros ancs cands picked bad c Hs Hin. apply select_spec in Hs.
  destruct Hs as [->|(c' & -> & _ & Hc)]; [contradiction|]. destruct Hin as [<-|[]].
  unfold commit_uncle in Hc. change (0 <? lenN (@nil bytes)) with false in Hc. cbv iota in Hc. cbn [bmem existsb] in Hc.
  destruct (negb (bmem (c_parent c') (ancestors ancs))); [discriminate|].
  destruct (bmem (c_hash c') (family ancs)) eqn:Ef; [discriminate|].
  assert (Hnf : ~ In (c_hash c') (family ancs)) by (rewrite <- bmem_in; congruence).
  split; intros Hx; apply Hnf; [now apply in_family_uncle|now apply in_family_anc].
Qed.
