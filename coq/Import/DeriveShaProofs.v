(* Import/DeriveShaProofs.v — DeriveSha as the code computes it (insertions into the
   code-shaped trie, then Hash) is the specification root of {rlp(i) -> item_i}:
   the `derive_sha` the import model uses.  Built on C10's theorems (history_spec,
   trie_hash_spec, hexmap, mpt_root_hex_ext). *)
From Coq Require Import ZifyBool ZifyN ZifyNat Permutation.
From AQ Require Import Lib.Bytes Rlp.RlpSpec Rlp.RlpProofs Trie.MptSpec Trie.TrieModel Trie.TrieInv
  Trie.MptSpecProofs Trie.TrieContentProofs Trie.TrieTheorems Import.DeriveShaCode.
Require AQ.Import.ImportModel.
Import ListNotations.
Local Open Scope N_scope.

Notation indexed := ImportModel.indexed.

(* ---------------------------------------------------------------- the keys rlp(0), rlp(1), ... are distinct *)

Lemma encode_uint_inj a b : a < two64 -> b < two64 -> encode_uint a = encode_uint b -> a = b.
Proof.
  intros Ha Hb E. pose proof (uint_roundtrip a Ha) as Ra. pose proof (uint_roundtrip b Hb) as Rb.
  rewrite E in Ra. rewrite Ra in Rb. now injection Rb.
Qed.

Lemma indexed_keys : forall l i k, In k (map fst (indexed i l)) ->
  exists m, i <= m /\ m < i + lenN l /\ k = encode_uint m.
Proof.
  induction l as [|x l IH]; intros i k; cbn [ImportModel.indexed map fst]; [contradiction|].
  intros [<-|Hin].
  - exists i. unfold lenN. cbn [length]. repeat split; lia.
  - destruct (IH _ _ Hin) as (m & H1 & H2 & ->). exists m. unfold lenN in *. cbn [length]. repeat split; lia.
Qed.

Lemma indexed_nodup : forall l i, i + lenN l <= two64 -> NoDup (map fst (indexed i l)).
Proof.
  induction l as [|x l IH]; intros i Hb; cbn [ImportModel.indexed map fst]; [constructor|].
  assert (Hl : lenN (x :: l) = 1 + lenN l) by (unfold lenN; cbn [length]; lia).
  constructor.
  - intros Hin. destruct (indexed_keys _ _ _ Hin) as (m & H1 & H2 & E).
    apply encode_uint_inj in E; lia.
  - apply IH. lia.
Qed.

Lemma indexed_values : forall l i kv, In kv (indexed i l) -> In (snd kv) l.
Proof.
  induction l as [|x l IH]; intros i kv; cbn [ImportModel.indexed]; [contradiction|].
  intros [<-|Hin]; [now left|right; eauto].
Qed.

(* ---------------------------------------------------------------- a listing with distinct keys, as a map *)

Lemma lookup_notin : forall (c : content) k, ~ In k (map fst c) -> lookup c k = None.
Proof.
  induction c as [|[k0 v0] c IH]; intros k Hn; cbn [lookup fst snd]; [reflexivity|].
  destruct (bytes_eqb_spec k0 k) as [->|_]; [exfalso; apply Hn; now left|].
  apply IH. intros Hin. apply Hn. now right.
Qed.

(* replaying the listing as updates gives the listing's lookup *)
Lemma map_ops_listing : forall (c : content) m k,
  NoDup (map fst c) -> Forall (fun kv => snd kv <> []) c ->
  map_ops m c k = match lookup c k with Some v => Some v | None => m k end.
Proof.
  induction c as [|[k0 v0] c IH]; intros m k Hnd Hv; cbn [map_ops lookup fst snd]; [reflexivity|].
  inversion Hnd as [|? ? Hni Hnd']; subst. inversion Hv as [|? ? Hv0 Hv']; subst. cbn [snd] in Hv0.
  rewrite (IH _ k Hnd' Hv').
  destruct (bytes_eqb_spec k0 k) as [->|Hne].
  - rewrite (lookup_notin c k Hni). destruct (bytes_eqb_spec k k); [|congruence].
    destruct v0; [contradiction|reflexivity].
  - destruct (lookup c k); [reflexivity|].
    destruct (bytes_eqb_spec k0 k); [congruence|reflexivity].
Qed.

Lemma lookup_hexed : forall (c : content) kb, lookup (hexed c) (key_nibbles kb) = lookup c kb.
Proof.
  induction c as [|[k0 v0] c IH]; intros kb; cbn [hexed map lookup fst snd]; [reflexivity|].
  fold (hexed c). rewrite IH.
  destruct (bytes_eqb_spec k0 kb) as [->|Hne].
  - destruct (bytes_eqb_spec (key_nibbles kb) (key_nibbles kb)); congruence.
  - destruct (bytes_eqb_spec (key_nibbles k0) (key_nibbles kb)) as [E|_]; [|reflexivity].
    apply key_nibbles_inj in E. congruence.
Qed.

Lemma lookup_hexed_some : forall (c : content) k v, lookup (hexed c) k = Some v -> exists kb, k = key_nibbles kb.
Proof.
  intros c k v E. apply lookup_some_in in E. unfold hexed in E. apply in_map_iff in E.
  destruct E as ([kb v'] & E & _). cbn [fst snd] in E. injection E as <- _. eauto.
Qed.

(* ---------------------------------------------------------------- the theorem *)

Lemma ds_insert_apply_ops : forall l t d i, ds_insert t d i l = apply_ops t d (indexed i l).
Proof.
  induction l as [|x l IH]; intros t d i; cbn [ds_insert ImportModel.indexed apply_ops]; [reflexivity|].
  destruct (trie_update t d (encode_uint i) x); cbn [bind]; auto.
Qed.

Section Root.
Variable H : bytes -> bytes.
Hypothesis Hlen : forall x, length (H x) = 32%nat.

(* any history of updates from the empty trie that lists distinct keys with non-empty
   values hashes to the specification root of that listing *)
Theorem listing_root : forall (c : content) d,
  NoDup (map fst c) -> Forall (fun kv => snd kv <> []) c ->
  exists t t', apply_ops empty_trie d c = Ok t /\ trie_hash H t = Ok (mpt_root H c, t').
Proof.
  intros c d Hnd Hv.
  destruct (history_spec c d) as (t & E & Hf & Hm).
  destruct (trie_hash_spec H Hlen t Hf) as (t' & Eh & _).
  exists t, t'. split; [exact E|]. rewrite Eh. f_equal. f_equal.
  unfold mpt_root. change (map (fun kv => (key_nibbles (fst kv), snd kv)) c) with (hexed c).
  pose proof (apply_ops_hexmap _ _ _ _ fresh_empty hexmap_empty E) as Hx.
  apply mpt_root_hex_ext.
  - apply canon_root_wf_content. apply Hf.
  - now apply wf_hexed.
  - intros k.
    assert (Hb : forall kb, lookup (tcontent t) (key_nibbles kb) = lookup (hexed c) (key_nibbles kb)).
    { intros kb. rewrite lookup_hexed. rewrite <- keybytes_to_hex_nibbles.
      change (lookup (tcontent t) (keybytes_to_hex kb)) with (tmap t kb).
      rewrite Hm, (map_ops_listing c _ kb Hnd Hv). now destruct (lookup c kb). }
    destruct (lookup (tcontent t) k) as [v|] eqn:E1.
    + destruct (Hx _ _ E1) as (kb & ->). rewrite keybytes_to_hex_nibbles in *. now rewrite <- Hb, E1.
    + destruct (lookup (hexed c) k) as [v|] eqn:E2; [|reflexivity].
      destruct (lookup_hexed_some _ _ _ E2) as (kb & ->). now rewrite <- E1, <- E2, Hb.
Qed.

(* DeriveSha: for every list shorter than 2^64 of non-empty encodings and every node database *)
Theorem derive_sha_code_is_spec : forall (items : list bytes) d,
  lenN items <= two64 -> Forall (fun x => x <> []) items ->
  derive_sha_code H d items = Ok (ImportModel.derive_sha H items).
Proof.
  intros items d Hb Hv. unfold derive_sha_code, ImportModel.derive_sha.
  rewrite ds_insert_apply_ops.
  destruct (listing_root (indexed 0 items) d) as (t & t' & E & Eh).
  - apply indexed_nodup. lia.
  - rewrite Forall_forall. intros kv Hin. rewrite Forall_forall in Hv. apply Hv. eapply indexed_values; eauto.
  - rewrite E. cbn [bind]. rewrite Eh. reflexivity.
Qed.
End Root.

(* every RLP encoding is non-empty: transactions and receipts as DeriveSha sees them meet
   the premise above *)
Lemma enc_hdr_nonempty off n : enc_hdr off n <> [].
Proof. unfold enc_hdr. destruct (n <? 56); discriminate. Qed.

Lemma encode_nonempty : forall x, encode x <> [].
Proof.
  intros [s|l]; cbn [encode]; unfold enc.
  - destruct (is_single_low s) eqn:E.
    + destruct s; [discriminate|discriminate].
    + intros E'. apply app_eq_nil in E'. destruct E' as [E' _]. exact (enc_hdr_nonempty _ _ E').
  - intros E'. apply app_eq_nil in E'. destruct E' as [E' _]. exact (enc_hdr_nonempty _ _ E').
Qed.

Theorem receipts_root_code_is_spec : forall (H : bytes -> bytes), (forall x, length (H x) = 32%nat) ->
  forall (rs : list ImportModel.receipt) d, lenN rs <= two64 ->
  derive_sha_code H d (map (ImportModel.receipt_rlp H) rs) = Ok (ImportModel.receipts_root H rs).
Proof.
  intros H Hlen rs d Hb. unfold ImportModel.receipts_root. apply derive_sha_code_is_spec; [exact Hlen| |].
  - unfold lenN in *. now rewrite map_length.
  - rewrite Forall_forall. intros x Hin. apply in_map_iff in Hin. destruct Hin as (r & <- & _).
    unfold ImportModel.receipt_rlp. apply encode_nonempty.
Qed.
