(* Import/ImportRel.v — theorems 3 and 4 of C01 for an arbitrary relation between state
   representations instead of equality of a content function (so that "the same finite map,
   listed in another order" can be used without function extensionality).  The content
   versions of ImportProofs.v are the instance eqv a b := content a = content b. *)
From AQ Require Import Lib.Bytes Rlp.RlpSpec Trie.MptSpec Bloom.BloomModel Import.ImportModel Import.ImportProofs.
Import ListNotations.
Local Open Scope N_scope.

Section Rel.
Variable H : bytes -> bytes.
Variables R O : Type.
Variable apply_msg : O -> exec_env -> N -> R -> N -> bytes -> option (msg_result R).
Variable block_start : O -> exec_env -> R -> R.
Variable finalize : O -> exec_env -> list header -> R -> R.
Variable root_of : O -> R -> bytes.
Variable eqv : R -> R -> Prop.
Variable okO : O -> Prop.

Notation process := (process R O apply_msg block_start finalize).
Notation process_txs := (process_txs R O apply_msg).
Notation import_block := (import_block H R O apply_msg block_start finalize root_of).
Notation build_block := (build_block H R O apply_msg block_start finalize root_of).

Definition msg_rel (m1 m2 : option (msg_result R)) : Prop :=
  match m1, m2 with
  | Some a, Some b => eqv (mr_state R a) (mr_state R b) /\ mr_pool R a = mr_pool R b /\
                      mr_gas R a = mr_gas R b /\ mr_post R a = mr_post R b /\ mr_logs R a = mr_logs R b
  | None, None => True
  | _, _ => False
  end.

(* the premise, relational form *)
Definition exec_respects_rel : Prop :=
  (forall o1 o2 env idx s1 s2 pool tx, okO o1 -> okO o2 -> eqv s1 s2 ->
     msg_rel (apply_msg o1 env idx s1 pool tx) (apply_msg o2 env idx s2 pool tx)) /\
  (forall o1 o2 env s1 s2, okO o1 -> okO o2 -> eqv s1 s2 -> eqv (block_start o1 env s1) (block_start o2 env s2)) /\
  (forall o1 o2 env us s1 s2, okO o1 -> okO o2 -> eqv s1 s2 -> eqv (finalize o1 env us s1) (finalize o2 env us s2)) /\
  (forall o1 o2 s1 s2, okO o1 -> okO o2 -> eqv s1 s2 -> root_of o1 s1 = root_of o2 s2).

Definition res_rel (r1 r2 : results R) : Prop :=
  eqv (res_state R r1) (res_state R r2) /\ res_receipts R r1 = res_receipts R r2 /\
  res_used R r1 = res_used R r2 /\ res_root R r1 = res_root R r2.
Definition import_rel (a b : import_result R) : Prop :=
  match a, b with
  | Accepted _ r1, Accepted _ r2 => res_rel r1 r2
  | Rejected _ w1, Rejected _ w2 => w1 = w2
  | _, _ => False
  end.
Definition proc_rel (a b : option (proc_ok R)) : Prop :=
  match a, b with
  | Some p1, Some p2 => eqv (p_state R p1) (p_state R p2) /\
                        p_receipts R p1 = p_receipts R p2 /\ p_used R p1 = p_used R p2
  | None, None => True
  | _, _ => False
  end.

Hypothesis Hex : exec_respects_rel.

Lemma process_txs_rel : forall txs o1 o2 env idx s1 s2 pool cum acc,
  okO o1 -> okO o2 -> eqv s1 s2 ->
  proc_rel (process_txs o1 env idx s1 pool cum txs acc) (process_txs o2 env idx s2 pool cum txs acc).
Proof.
  destruct Hex as (Ha & _).
  induction txs as [|tx txs IH]; intros o1 o2 env idx s1 s2 pool cum acc K1 K2 Hc; cbn [ImportModel.process_txs].
  - cbn. auto.
  - unfold ImportModel.apply_one.
    pose proof (Ha o1 o2 env idx s1 s2 pool tx K1 K2 Hc) as Hm. unfold msg_rel in Hm.
    destruct (apply_msg o1 env idx s1 pool tx) as [m1|], (apply_msg o2 env idx s2 pool tx) as [m2|];
      try contradiction; [|cbn; exact I].
    destruct Hm as (Hs & Hp & Hg & Hpo & Hl). cbn [ts_state ts_pool ts_cum ts_receipt].
    rewrite Hp, Hg, Hpo, Hl. apply IH; assumption.
Qed.

Lemma process_rel : forall o1 o2 s1 s2 b,
  okO o1 -> okO o2 -> eqv s1 s2 -> proc_rel (process o1 s1 b) (process o2 s2 b).
Proof.
  intros o1 o2 s1 s2 b K1 K2 Hc. unfold ImportModel.process.
  destruct Hex as (_ & Hb & Hf & _).
  pose proof (process_txs_rel (b_txs b) o1 o2 (env_of (b_header b)) 0
                (block_start o1 (env_of (b_header b)) s1) (block_start o2 (env_of (b_header b)) s2)
                (h_gas_limit (b_header b)) 0 [] K1 K2 (Hb _ _ _ _ _ K1 K2 Hc)) as Hp.
  unfold proc_rel in Hp.
  destruct (process_txs o1 _ 0 _ _ 0 (b_txs b) []) as [p1|], (process_txs o2 _ 0 _ _ 0 (b_txs b) []) as [p2|];
    try contradiction; [|exact I].
  destruct Hp as (Hs & Hr & Hu). cbn [proc_rel p_state p_receipts p_used].
  split; [apply Hf; assumption|]. split; assumption.
Qed.

Theorem import_respects_rel : forall o1 o2 s1 s2 b,
  okO o1 -> okO o2 -> eqv s1 s2 -> import_rel (import_block o1 s1 b) (import_block o2 s2 b).
Proof.
  intros o1 o2 s1 s2 b K1 K2 Hc. unfold ImportModel.import_block.
  destruct (validate_body H b); [reflexivity|].
  pose proof (process_rel o1 o2 s1 s2 b K1 K2 Hc) as Hp. unfold proc_rel in Hp.
  destruct Hex as (_ & _ & _ & Hroot).
  destruct (process o1 s1 b) as [p1|], (process o2 s2 b) as [p2|]; try contradiction; [|reflexivity].
  destruct Hp as (Hs & Hr & Hu). rewrite <- Hr, <- Hu, <- (Hroot o1 o2 _ _ K1 K2 Hs).
  destruct (validate_state H (b_header b) (p_receipts R p1) (p_used R p1) (root_of o1 (p_state R p1)));
    [reflexivity|].
  cbn [import_rel]. unfold res_rel. cbn [res_state res_receipts res_used res_root].
  repeat split; assumption.
Qed.

Theorem built_imports_rel : forall tx_gas o1 o2 s1 s2 tmpl cands uncles b r,
  okO o1 -> okO o2 -> eqv s1 s2 -> h_bloom tmpl = 0 ->
  build_block tx_gas o1 s1 tmpl cands uncles = (b, r) ->
  exists r', import_block o2 s2 b = Accepted R r' /\ res_rel r r'.
Proof.
  intros tx_gas o1 o2 s1 s2 tmpl cands uncles b r K1 K2 Hc Hbl Hb.
  pose proof (built_block_imports_same H R O apply_msg block_start finalize root_of _ _ _ _ _ _ _ _ Hbl Hb) as Hi.
  pose proof (import_respects_rel o1 o2 s1 s2 b K1 K2 Hc) as He.
  rewrite Hi in He. unfold import_rel in He.
  destruct (import_block o2 s2 b) as [r'|]; [|contradiction].
  exists r'. split; [reflexivity|exact He].
Qed.

End Rel.
