(* Import/ImportTx.v — the block-import model composed with its neighbours: the execution
   layer is no longer a parameter but C06's state transition (Tx/Transition.v: preCheck,
   buyGas, intrinsic gas, the depth-0 Call/Create shells, refund, fee, Finalise; block_start,
   accumulate_rewards), and the state root is the C10 specification root of the account
   listing (core/state/statedb.go IntermediateRoot/Commit: one leaf
   keccak(address) -> rlp([nonce, balance, storage root, code hash]) per existing account).
   Definitions only (extracted).

   What is still a parameter of the composed model (the primitives):
     H            Keccak-256
     run          the EVM interpreter below the depth-0 shell (C07/C08), as in Tx/Transition.v
     decode_tx    RLP decoding of a transaction + sender recovery (the signature oracle, C12)
     logs_of      the logs a successful execution emitted (Transition keeps their number only)
     o : state -> state   the order in which Commit's map iteration feeds accounts to the trie
   Not composed: account existence before EIP-158 (Transition's `_e` layer) — an account
   "exists" here iff it is listed; the per-account storage trie (C09) is folded into the
   account's `stor` digest, read as the 32-byte storage root. *)
From AQ Require Import Lib.Bytes Lib.Keccak Rlp.RlpSpec Trie.MptSpec Bloom.BloomModel Import.ImportModel.
From AQ Require Tx.Transition.
Import ListNotations.
Local Open Scope N_scope.


(* ------------------------------------------------------------------ the account listing as a finite map *)

(* existence-aware lookup (Transition.get returns the empty account for a missing one) *)
Fixpoint find (a : Transition.addr) (s : Transition.state) : option Transition.account :=
  match s with
  | [] => None
  | (k, v) :: t => if k =? a then Some v else find a t
  end.

(* first occurrence wins, as in `find` *)
Fixpoint norm (s : Transition.state) : Transition.state :=
  match s with
  | [] => []
  | (k, v) :: t => (k, v) :: filter (fun kv => negb (fst kv =? k)) (norm t)
  end.

(* two listings of the same finite map *)
Definition same_map (s1 s2 : Transition.state) : Prop := forall a, find a s1 = find a s2.

(* ------------------------------------------------------------------ the state root *)

Definition two160 : N := 1461501637330902918203684832716283019655932542976.
(* the 20 address bytes (anything above 2^160 is appended, so that the encoding is injective
   on all of N; real addresses are below 2^160 and get exactly their 20 bytes) *)
Definition addr_bytes (a : Transition.addr) : bytes := be_fixed 20 a ++ be_of_N (a / two160).
Definition addr_of_bytes (b : bytes) : Transition.addr := N_of_be b mod two160.

(* state_object.go Account{Nonce, Balance, Root, CodeHash}, rlp-encoded *)
Definition account_rlp (c : Transition.account) : bytes :=
  encode (Lst [Str (be_of_N (Transition.nonce c)); Str (be_of_N (Z.to_N (Transition.bal c)));
               Str (be_fixed 32 (Transition.stor c)); Str (be_fixed 32 (Transition.code c))]).

Section WithHash.
Variable H : bytes -> bytes.

Definition acct_key (a : Transition.addr) : bytes := H (addr_bytes a).
Definition leaf (kv : Transition.addr * Transition.account) : bytes * bytes := (acct_key (fst kv), account_rlp (snd kv)).

(* IntermediateRoot: the accounts are fed to the secure trie in the order `o` puts them *)
Definition tx_state_root (o : Transition.state -> Transition.state) (s : Transition.state) : bytes :=
  mpt_root H (map leaf (o (norm s))).

(* ------------------------------------------------------------------ the execution layer *)

Section WithExec.
Variable cfg : Transition.chain_cfg.
Variable dealloc : list Transition.addr.
Variable run : Transition.runner.
Variable decode_tx : bytes -> option Transition.message.
Variable logs_of : exec_env -> N -> Transition.state -> Transition.message -> list log.

Definition O : Type := Transition.state -> Transition.state.

Definition hdr_of_env (env : exec_env) : Transition.header :=
  Transition.mkHeader (e_number env) (addr_of_bytes (e_coinbase env)) (e_gas_limit env) 0.
Definition uncle_of (u : header) : Transition.uncle := Transition.mkUncle (h_number u) (addr_of_bytes (h_coinbase u)).

(* types/receipt.go statusEncoding for the receipt C06 builds *)
Definition post_bytes (o : O) (p : Transition.post_field) (s : Transition.state) : bytes :=
  match p with
  | Transition.PostStatus true => [x01]
  | Transition.PostStatus false => []
  | Transition.PostRoot => tx_state_root o s
  end.

(* ApplyTransaction = AsMessage (decode_tx) + C06's apply_transaction; a panic of the
   transition (unreachable with the generated protocol constants: C06) is not a result *)
Definition tx_apply_msg (o : O) (env : exec_env) (idx : N) (s : Transition.state) (pool : N) (tx : bytes)
  : option (msg_result Transition.state) :=
  match decode_tx tx with
  | None => None
  | Some m =>
    match Transition.apply_transaction cfg (e_number env) (addr_of_bytes (e_coinbase env)) run idx s pool 0 m with
    | Transition.TxOk r =>
        Some (mkMR Transition.state (Transition.x_state r) (Transition.x_pool r) (Transition.t_used (Transition.x_tdb r))
                   (post_bytes o (Transition.r_post (Transition.x_receipt r)) (Transition.x_state r))
                   (if Transition.t_failed (Transition.x_tdb r) then [] else logs_of env idx s m))
    | _ => None
    end
  end.

Definition tx_block_start (o : O) (env : exec_env) (s : Transition.state) : Transition.state :=
  Transition.block_start cfg dealloc (hdr_of_env env) s.
Definition tx_finalize (o : O) (env : exec_env) (uncles : list header) (s : Transition.state) : Transition.state :=
  Transition.accumulate_rewards (hdr_of_env env) (map uncle_of uncles) s.

(* the composed import and builder *)
Definition import_block_tx : O -> Transition.state -> block -> import_result Transition.state :=
  import_block H Transition.state O tx_apply_msg tx_block_start tx_finalize tx_state_root.
Definition process_tx : O -> Transition.state -> block -> option (proc_ok Transition.state) :=
  process Transition.state O tx_apply_msg tx_block_start tx_finalize.
Definition build_block_tx (tx_gas : N) : O -> Transition.state -> header -> list bytes -> list header -> block * results Transition.state :=
  build_block H Transition.state O tx_apply_msg tx_block_start tx_finalize tx_state_root tx_gas.

End WithExec.
End WithHash.
