(* Import/ImportC09.v — the part of the premise `exec_respects_content` that the C09
   theorems discharge: the root conjunct, for the map-iteration orders a Go run can take.

   Instantiation.  A state representation is a C09 state whose content-level maps are in
   canonical form (kept by every C09 operation: C09_invariants_step); its content is the
   state itself (C09 has no coarser notion: representations that differ in caches only are
   C10's business).  An implementation choice is a *scheduler* — for every state, the order
   in which Finalise ranges over the dirty-object map.  A scheduler is admissible (`ok_sched`)
   when every order it produces is a permutation of the reference order (the dirty set,
   duplicate free).  IntermediateRoot = Finalise with that order, then the account map;
   `enc` stands for its Merkle root (C10: a function of that map).

   Then the fourth conjunct of the premise holds: admissible schedulers give the same root.
   NOT discharged here: the three execution conjuncts (EVM execution reads the state through
   the getters only: C06/C07 over C09_revert_observable / C09_copy_obs), and representations
   that differ in caches (C10_history_commit_reopen / C10_lazy_history). *)
From Coq Require Import Permutation.
From AQ Require Import Lib.Bytes State.StateSpec State.StateModel State.StatePerm.

Section C09Root.
Variable H : bytes -> bytes.
Variable del_empty : bool.
Variable enc : res (list (N * acct)) -> bytes.

Definition wf_state : Type := { s : state | sorted (st_live s) /\ sorted (st_trie s) }.
Definition state_of (r : wf_state) : state := proj1_sig r.

Definition sched : Type := state -> list N.
Variable reference : sched.          (* e.g. the dirty set in ascending order *)
Definition ok_sched (o : sched) : Prop :=
  forall s, Permutation (reference s) (o s) /\ NoDup (reference s).

(* statedb.go IntermediateRoot under scheduler o *)
Definition c09_root (o : sched) (r : wf_state) : bytes :=
  enc (rmap (fun s' => st_trie s') (finalise_with H (o (state_of r)) del_empty (state_of r))).

Theorem c09_root_content : forall (o1 o2 : sched) (r1 r2 : wf_state),
  ok_sched o1 -> ok_sched o2 -> state_of r1 = state_of r2 -> c09_root o1 r1 = c09_root o2 r2.
Proof.
  intros o1 o2 [s1 [Hl1 Ht1]] [s2 W2] K1 K2 E. unfold c09_root, state_of in *. cbn [proj1_sig] in *. subst s2.
  destruct (K1 s1) as [P1 Hnd]. destruct (K2 s1) as [P2 _].
  rewrite (finalise_perm H del_empty s1 (o1 s1) (o2 s1)); [reflexivity| | |exact Hl1|exact Ht1].
  - apply Permutation_trans with (reference s1); [now apply Permutation_sym|exact P2].
  - apply (Permutation_NoDup P1 Hnd).
Qed.

End C09Root.
