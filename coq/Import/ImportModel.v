(* Import/ImportModel.v — executable, code-shaped model of block import and of the
   node's own block-building path.  Definitions only (extracted); proofs are in
   ImportProofs.v.

   Code modelled (branch for branch):
     core/types/derive_sha.go   DeriveSha                 -> derive_sha
     core/types/block.go        CalcUncleHash, NewBlock   -> calc_uncle_hash, new_block
     core/types/receipt.go      NewReceipt, statusEncoding, EncodeRLP -> mk_receipt, receipt_item
     core/types/log.go          rlpLog                    -> log_item
     core/types/bloom9.go       CreateBloom               -> Bloom.BloomModel.create_bloom (C16)
     core/block_validator.go    ValidateBody, ValidateState -> validate_body, validate_state
     core/state_processor.go    Process, ApplyTransaction (receipt assembly) -> process, apply_one
     core/blockchain.go         insertChain2 (order of checks, nothing written on failure) -> insert_block, insert_chain
     core/chain_makers.go       GenerateChain/AddTx, opt/miner/worker.go commitNewWork /
                                commitTransactions / commitTransaction, Engine.Finalize -> build_block

   What is a parameter (Section variable) rather than a definition:
     H          crypto.Keccak256 (executable model: Lib.Keccak.keccak256)
     R          a state as the node holds it (StateDB over cached tries: representation)
     O          the choices the implementation makes that are not inputs: Go map iteration
                orders over dirty accounts / storage, trie cache generations, which nodes
                are resident.  Every function that touches the state takes an `o : O`.
     apply_msg  ApplyMessage + Finalise/IntermediateRoot of one transaction (C06/C07/C09)
     block_start the hard-fork state mutations at the start of Process (ApplyHardFork4/5)
     finalize   Engine.Finalize's accumulateRewards (C05)
     root_of    StateDB.IntermediateRoot (C09 on C10)
     hash_of    Header.Hash (keccak for version 1, argon2id afterwards)
     verify_header, verify_uncles  the consensus engine's checks (C13)
     fork_choice the total-difficulty comparison of WriteBlockWithState (C02)
   The theorems quantify over all of them; the premises they need are explicit.

   The tries of DeriveSha are throw-away tries built by inserting rlp(i) -> rlp(item_i)
   into an empty trie; its root is taken from the C10 specification
   (Trie.MptSpec.mpt_root: the root as a function of the content), which C10 proves
   and checks to be what trie.Update/Hash compute.  ocaml/import/driver.ml in addition
   runs the code-shaped trie (Trie.TrieModel) on every DeriveSha request and refuses
   to answer if the two differ. *)
From AQ Require Import Lib.Bytes Rlp.RlpSpec Trie.MptSpec Bloom.BloomModel.
Import ListNotations.
Local Open Scope N_scope.

(* ------------------------------------------------------------------ consensus data *)

(* core/types/block.go Header (Version is `rlp:"-"` and is a function of the number) *)
Record header := mkHeader {
  h_parent : bytes; h_uncle_hash : bytes; h_coinbase : bytes; h_root : bytes;
  h_tx_hash : bytes; h_receipt_hash : bytes; h_bloom : N; h_difficulty : N;
  h_number : N; h_gas_limit : N; h_gas_used : N; h_time : N; h_extra : bytes;
  h_mix : bytes; h_nonce : bytes }.

(* a transaction is carried as its RLP encoding (Transactions.GetRlp) *)
Record block := mkBlock { b_header : header; b_txs : list bytes; b_uncles : list header }.

(* the consensus part of a receipt: PostStateOrStatus, CumulativeGasUsed, Logs
   (Bloom is a function of Logs: ApplyTransaction sets it to CreateBloom of itself) *)
Record receipt := mkReceipt { r_post : bytes; r_cumulative : N; r_logs : list log }.

(* rlp encoding of the header struct: field order of types.Header *)
Definition header_item (h : header) : item :=
  Lst [Str (h_parent h); Str (h_uncle_hash h); Str (h_coinbase h); Str (h_root h);
       Str (h_tx_hash h); Str (h_receipt_hash h); Str (bloom_bytes (h_bloom h));
       Str (be_of_N (h_difficulty h)); Str (be_of_N (h_number h)); Str (be_of_N (h_gas_limit h));
       Str (be_of_N (h_gas_used h)); Str (be_of_N (h_time h)); Str (h_extra h);
       Str (h_mix h); Str (h_nonce h)].

(* core/types/log.go rlpLog{Address, Topics, Data} *)
Definition log_item (l : log) : item :=
  Lst [Str (l_addr l); Lst (map Str (l_topics l)); Str (l_data l)].

Definition two64 : N := 18446744073709551616.
Definition add64 (a b : N) : N := (a + b) mod two64.

Section WithHash.
Variable H : bytes -> bytes.

(* core/types/receipt.go EncodeRLP: receiptRLP{statusEncoding(), CumulativeGasUsed, Bloom, Logs} *)
Definition receipt_item (r : receipt) : item :=
  Lst [Str (r_post r); Str (be_of_N (r_cumulative r));
       Str (bloom_bytes (logs_bloom H (r_logs r))); Lst (map log_item (r_logs r))].
Definition receipt_rlp (r : receipt) : bytes := encode (receipt_item r).

(* core/types/derive_sha.go DeriveSha: for i := 0..Len-1: trie.Update(rlp(uint(i)), list.GetRlp(i)) *)
Fixpoint indexed (i : N) (l : list bytes) : list (bytes * bytes) :=
  match l with
  | [] => []
  | x :: t => (encode_uint i, x) :: indexed (i + 1) t
  end.
Definition derive_sha (items : list bytes) : bytes := mpt_root H (indexed 0 items).

(* core/types/block.go CalcUncleHash = rlpHash(1, uncles): always Keccak *)
Definition calc_uncle_hash (uncles : list header) : bytes :=
  H (encode (Lst (map header_item uncles))).

(* var EmptyRootHash = DeriveSha(Transactions{}); EmptyUncleHash = CalcUncleHash(nil) *)
Definition empty_root_hash : bytes := derive_sha [].
Definition empty_uncle_hash : bytes := calc_uncle_hash [].

Definition receipts_bloom (rs : list receipt) : N := create_bloom H (map r_logs rs).
Definition receipts_root (rs : list receipt) : bytes := derive_sha (map receipt_rlp rs).

(* ------------------------------------------------------------------ ValidateBody / ValidateState *)

Inductive reject :=
| RejHeader            (* engine.VerifyHeaders *)
| RejUnknownAncestor   (* consensus.ErrUnknownAncestor: parent block or its state not held *)
| RejUncles            (* engine.VerifyUncles *)
| RejUncleHash         (* "uncle root hash mismatch" *)
| RejTxRoot            (* "transaction root hash mismatch" *)
| RejProcess           (* Process returned an error (a transaction is not applicable) *)
| RejGasUsed           (* "invalid gas used" *)
| RejBloom             (* "invalid bloom" *)
| RejReceiptRoot       (* "invalid receipt root hash" *)
| RejStateRoot.        (* "invalid merkle root" *)

(* core/block_validator.go ValidateBody, the two commitment checks, in the code's order *)
Definition validate_body (b : block) : option reject :=
  let h := b_header b in
  if negb (bytes_eqb (calc_uncle_hash (b_uncles b)) (h_uncle_hash h)) then Some RejUncleHash
  else if negb (bytes_eqb (derive_sha (b_txs b)) (h_tx_hash h)) then Some RejTxRoot
  else None.

(* core/block_validator.go ValidateState, in the code's order *)
Definition validate_state (h : header) (rs : list receipt) (used : N) (root : bytes) : option reject :=
  if negb (h_gas_used h =? used) then Some RejGasUsed
  else if negb (receipts_bloom rs =? h_bloom h) then Some RejBloom
  else if negb (bytes_eqb (receipts_root rs) (h_receipt_hash h)) then Some RejReceiptRoot
  else if negb (bytes_eqb (h_root h) root) then Some RejStateRoot
  else None.

(* ------------------------------------------------------------------ execution as a parameter *)

(* what the EVM context reads from the header (core/evm.go NewEVMContext) — none of
   the commitments, which the builder fills in afterwards *)
Record exec_env := mkEnv {
  e_parent : bytes; e_coinbase : bytes; e_difficulty : N; e_number : N; e_gas_limit : N; e_time : N }.
Definition env_of (h : header) : exec_env :=
  mkEnv (h_parent h) (h_coinbase h) (h_difficulty h) (h_number h) (h_gas_limit h) (h_time h).

Section WithState.
Variables R O : Type.

(* ApplyMessage + Finalise(true) / IntermediateRoot of one transaction:
   state after, gas pool after, gas used, PostStateOrStatus bytes, logs; None = error *)
Record msg_result := mkMR { mr_state : R; mr_pool : N; mr_gas : N; mr_post : bytes; mr_logs : list log }.
Variable apply_msg : O -> exec_env -> N (* index in block *) -> R -> N (* gas pool *) -> bytes (* tx *) -> option msg_result.
Variable block_start : O -> exec_env -> R -> R.
Variable finalize : O -> exec_env -> list header -> R -> R.
Variable root_of : O -> R -> bytes.

(* core/state_processor.go ApplyTransaction: *usedGas += gas; NewReceipt(root, failed, *usedGas);
   receipt.Logs = statedb.GetLogs(tx.Hash()) *)
Record tx_step := mkStep { ts_state : R; ts_pool : N; ts_cum : N; ts_receipt : receipt }.
Definition apply_one (o : O) (env : exec_env) (idx : N) (s : R) (pool cum : N) (tx : bytes) : option tx_step :=
  match apply_msg o env idx s pool tx with
  | None => None
  | Some m =>
      let cum' := add64 cum (mr_gas m) in
      Some (mkStep (mr_state m) (mr_pool m) cum' (mkReceipt (mr_post m) cum' (mr_logs m)))
  end.

Record proc_ok := mkProc { p_state : R; p_receipts : list receipt; p_used : N }.

(* Process, the loop over block.Transactions(): the first error aborts the block *)
Fixpoint process_txs (o : O) (env : exec_env) (idx : N) (s : R) (pool cum : N) (txs : list bytes)
         (acc : list receipt) : option proc_ok :=
  match txs with
  | [] => Some (mkProc s (rev acc) cum)
  | tx :: rest =>
      match apply_one o env idx s pool cum tx with
      | None => None
      | Some st => process_txs o env (idx + 1) (ts_state st) (ts_pool st) (ts_cum st) rest (ts_receipt st :: acc)
      end
  end.

(* core/state_processor.go Process: gp = new(GasPool).AddGas(block.GasLimit()); hard-fork
   mutations; transactions; engine.Finalize *)
Definition process (o : O) (s : R) (b : block) : option proc_ok :=
  let env := env_of (b_header b) in
  match process_txs o env 0 (block_start o env s) (h_gas_limit (b_header b)) 0 (b_txs b) [] with
  | None => None
  | Some p => Some (mkProc (finalize o env (b_uncles b) (p_state p)) (p_receipts p) (p_used p))
  end.

(* ------------------------------------------------------------------ import of one block onto a parent state *)

Record results := mkRes { res_state : R; res_receipts : list receipt; res_used : N; res_root : bytes }.
Inductive import_result := Accepted (r : results) | Rejected (why : reject).

(* insertChain2, the part that depends on the block and the parent state only:
   ValidateBody (commitments) -> state.New(parent.Root) + Process -> ValidateState *)
Definition import_block (o : O) (parent_state : R) (b : block) : import_result :=
  match validate_body b with
  | Some why => Rejected why
  | None =>
    match process o parent_state b with
    | None => Rejected RejProcess
    | Some p =>
      let root := root_of o (p_state p) in
      match validate_state (b_header b) (p_receipts p) (p_used p) root with
      | Some why => Rejected why
      | None => Accepted (mkRes (p_state p) (p_receipts p) (p_used p) root)
      end
    end
  end.

(* ------------------------------------------------------------------ the node's own builder *)

(* core/types/block.go NewBlock(header, txs, uncles, receipts) *)
Definition new_block (h : header) (txs : list bytes) (uncles : list header) (rs : list receipt) : block :=
  let txh := match txs with [] => empty_root_hash | _ => derive_sha txs end in
  let rh := match rs with [] => empty_root_hash | _ => receipts_root rs end in
  let bl := match rs with [] => h_bloom h | _ => receipts_bloom rs end in
  let uh := match uncles with [] => empty_uncle_hash | _ => calc_uncle_hash uncles end in
  mkBlock (mkHeader (h_parent h) uh (h_coinbase h) (h_root h) txh rh bl (h_difficulty h)
                    (h_number h) (h_gas_limit h) (h_gas_used h) (h_time h) (h_extra h) (h_mix h) (h_nonce h))
          txs uncles.

(* opt/miner/worker.go commitTransactions / commitTransaction (and BlockGen.AddTx, which
   panics instead of skipping): a candidate whose ApplyTransaction errs is reverted and
   skipped; the others are appended with their receipts; header.GasUsed is the
   running *usedGas.  `tx_gas` = params.TxGas: the loop stops when the pool is below it. *)
Fixpoint commit_txs (tx_gas : N) (o : O) (env : exec_env) (idx : N) (s : R) (pool cum : N) (cands : list bytes)
         (txs : list bytes) (acc : list receipt) : R * N * list bytes * list receipt :=
  match cands with
  | [] => (s, cum, rev txs, rev acc)
  | tx :: rest =>
      if pool <? tx_gas then (s, cum, rev txs, rev acc)
      else match apply_one o env idx s pool cum tx with
           | None => commit_txs tx_gas o env idx s pool cum rest txs acc         (* RevertToSnapshot; skip *)
           | Some st => commit_txs tx_gas o env (idx + 1) (ts_state st) (ts_pool st) (ts_cum st) rest
                                   (tx :: txs) (ts_receipt st :: acc)
           end
  end.

(* the header the builder starts from (worker.commitNewWork after engine.Prepare /
   chain_makers.makeHeader): no commitment is filled in yet *)
Definition template (parent coinbase : bytes) (difficulty number gas_limit time : N) (extra : bytes) : header :=
  mkHeader parent [] coinbase [] [] [] 0 difficulty number gas_limit 0 time extra [] [].

(* commitNewWork: hard-fork mutations, commitTransactions, engine.Finalize
   (accumulateRewards; header.Root = IntermediateRoot; types.NewBlock) *)
Definition build_block (tx_gas : N) (o : O) (s : R) (tmpl : header) (cands : list bytes) (uncles : list header)
  : block * results :=
  let env := env_of tmpl in
  let '(s1, used, txs, rs) :=
      commit_txs tx_gas o env 0 (block_start o env s) (h_gas_limit tmpl) 0 cands [] [] in
  let s2 := finalize o env uncles s1 in
  let root := root_of o s2 in
  let h := mkHeader (h_parent tmpl) (h_uncle_hash tmpl) (h_coinbase tmpl) root (h_tx_hash tmpl)
                    (h_receipt_hash tmpl) (h_bloom tmpl) (h_difficulty tmpl) (h_number tmpl)
                    (h_gas_limit tmpl) used (h_time tmpl) (h_extra tmpl) (h_mix tmpl) (h_nonce tmpl) in
  (new_block h txs uncles rs, mkRes s2 rs used root).

(* ------------------------------------------------------------------ the store and insertChain *)

(* what block import reads and writes: stored blocks (by hash) with their receipts, the
   states held (by block hash: state.New(parent.Root) succeeds exactly for these), the head *)
Record stored := mkStored { sb_block : block; sb_receipts : list receipt; sb_state : R }.
Record store := mkStore { st_head : bytes; st_blocks : list (bytes * stored) }.

Variable hash_of : header -> bytes.
Variable verify_header : store -> header -> bool.
Variable verify_uncles : store -> block -> bool.
Variable fork_choice : store -> block -> bool.       (* true: the new block becomes the head *)

Fixpoint lookup_block (k : bytes) (l : list (bytes * stored)) : option stored :=
  match l with
  | [] => None
  | (k', v) :: t => if bytes_eqb k k' then Some v else lookup_block k t
  end.

Inductive insert_result := Inserted (r : results) | Ignored (* ErrKnownBlock *) | Failed (why : reject).

(* one iteration of the loop of insertChain2 *)
Definition insert_block (o : O) (st : store) (b : block) : store * insert_result :=
  let h := b_header b in
  if negb (verify_header st h) then (st, Failed RejHeader)
  else match lookup_block (hash_of h) (st_blocks st) with
  | Some _ => (st, Ignored)                                   (* HasBlockAndState: ErrKnownBlock *)
  | None =>
    match lookup_block (h_parent h) (st_blocks st) with
    | None => (st, Failed RejUnknownAncestor)
    | Some parent =>
      if negb (verify_uncles st b) then (st, Failed RejUncles)
      else match import_block o (sb_state parent) b with
      | Rejected why => (st, Failed why)                      (* reportBlock; nothing written *)
      | Accepted r =>
          (* WriteBlockWithState *)
          let blocks := (hash_of h, mkStored b (res_receipts r) (res_state r)) :: st_blocks st in
          (mkStore (if fork_choice st b then hash_of h else st_head st) blocks, Inserted r)
      end
    end
  end.

(* insertChain2: blocks in order; the first failure aborts and returns its index *)
Fixpoint insert_chain (o : O) (st : store) (i : N) (chain : list block) : store * option (N * reject) :=
  match chain with
  | [] => (st, None)
  | b :: rest =>
      match insert_block o st b with
      | (st', Failed why) => (st', Some (i, why))
      | (st', _) => insert_chain o st' (i + 1) rest
      end
  end.

End WithState.
End WithHash.

(* ------------------------------------------------------------------ parsing for the driver *)

(* a header from its decoded RLP item (15 fields) *)
Definition header_of_item (x : item) : option header :=
  match x with
  | Lst [Str a; Str b; Str c; Str d; Str e; Str f; Str g; Str h; Str i; Str j; Str k; Str l; Str m; Str n; Str o] =>
      Some (mkHeader a b c d e f (N_of_be g) (N_of_be h) (N_of_be i) (N_of_be j) (N_of_be k) (N_of_be l) m n o)
  | _ => None
  end.
