(* Import/ImportTxProofs.v — proofs about the composed model (Import/ImportTx.v):
   A. listings as finite maps (find / upd / norm), B. the state root is a function of the
   finite map (any feeding order), C. C06's transition respects the finite map (given that
   the interpreter `run` does), D. the premise exec_respects_rel for the composed model,
   E. the adapter to Tx.Transition.process. *)
From Coq Require Import ZifyBool ZifyN ZifyNat Permutation.
From AQ Require Import Lib.Bytes Lib.Keccak Rlp.RlpSpec Trie.MptSpec Trie.MptSpecProofs Bloom.BloomModel
  Import.ImportModel Import.ImportProofs Import.ImportRel Import.ImportTx.
Import ListNotations.
Local Open Scope N_scope.

(* ---------------------------------------------------------------- A. finite maps *)

Lemma get_find a s : Transition.get a s = match find a s with Some v => v | None => Transition.empty_acc end.
Proof.
  induction s as [|[k v] t IH]; cbn [Transition.get find]; [reflexivity|].
  destruct (k =? a); [reflexivity|exact IH].
Qed.

Lemma find_upd a f a' : forall s,
  find a' (Transition.upd a f s) = if a =? a' then Some (f (Transition.get a s)) else find a' s.
Proof.
  induction s as [|[k v] t IH]; cbn [Transition.upd find Transition.get].
  - reflexivity.
  - destruct (N.eqb_spec k a) as [->|Hka]; cbn [find].
    + destruct (N.eqb_spec a a'); reflexivity.
    + rewrite IH. destruct (N.eqb_spec k a') as [->|Hka'].
      * destruct (N.eqb_spec a a'); [congruence|reflexivity].
      * reflexivity.
Qed.

Lemma same_map_refl s : same_map s s. Proof. intros a. reflexivity. Qed.
Lemma same_map_sym s1 s2 : same_map s1 s2 -> same_map s2 s1. Proof. intros E a. symmetry. apply E. Qed.
Lemma same_map_trans s1 s2 s3 : same_map s1 s2 -> same_map s2 s3 -> same_map s1 s3.
Proof. intros E1 E2 a. now rewrite E1. Qed.

Lemma same_get s1 s2 a : same_map s1 s2 -> Transition.get a s1 = Transition.get a s2.
Proof. intros E. now rewrite !get_find, E. Qed.

Lemma same_upd s1 s2 a f : same_map s1 s2 -> same_map (Transition.upd a f s1) (Transition.upd a f s2).
Proof. intros E a'. rewrite !find_upd, (same_get s1 s2 a E), E. reflexivity. Qed.

(* an update whose function depends on the state read *)
Lemma same_upd2 s1 s2 a f1 f2 : same_map s1 s2 -> (forall c, f1 c = f2 c) -> same_map (Transition.upd a f1 s1) (Transition.upd a f2 s2).
Proof. intros E Hf a'. rewrite !find_upd, (same_get s1 s2 a E), E, Hf. reflexivity. Qed.

(* ---------------------------------------------------------------- norm *)

Lemma find_filter_ne k a s : a <> k -> find a (filter (fun kv => negb (fst kv =? k)) s) = find a s.
Proof.
  intros Hne. induction s as [|[k0 v0] t IH]; cbn [filter find fst]; [reflexivity|].
  destruct (N.eqb_spec k0 k) as [->|Hk]; cbn [negb find].
  - destruct (N.eqb_spec k a); [congruence|exact IH].
  - destruct (k0 =? a); [reflexivity|exact IH].
Qed.

Lemma find_norm a : forall s, find a (norm s) = find a s.
Proof.
  induction s as [|[k v] t IH]; cbn [norm find]; [reflexivity|].
  destruct (N.eqb_spec k a) as [->|Hk]; [reflexivity|].
  rewrite find_filter_ne by congruence. exact IH.
Qed.

Lemma in_filter_keys k (s : Transition.state) x : In x (map fst (filter (fun kv => negb (fst kv =? k)) s)) -> x <> k /\ In x (map fst s).
Proof.
  intros Hin. apply in_map_iff in Hin. destruct Hin as ([k0 v0] & <- & Hf). apply filter_In in Hf.
  destruct Hf as [Hin Hb]. cbn [fst] in *. split.
  - destruct (N.eqb_spec k0 k); [discriminate|assumption].
  - apply in_map_iff. exists (k0, v0). auto.
Qed.

Lemma nodup_filter {A} (f : A -> bool) (g : A -> N) : forall l, NoDup (map g l) -> NoDup (map g (filter f l)).
Proof.
  induction l as [|x l IH]; cbn [map filter]; [constructor|].
  intros Hnd. inversion Hnd as [|? ? Hni Hnd']; subst. destruct (f x); cbn [map]; [|auto].
  constructor; [|auto]. intros Hin. apply Hni. apply in_map_iff in Hin. destruct Hin as (y & E & Hy).
  apply filter_In in Hy. apply in_map_iff. exists y. tauto.
Qed.

Lemma nodup_norm : forall s, NoDup (map fst (norm s)).
Proof.
  induction s as [|[k v] t IH]; cbn [norm map fst]; [constructor|].
  constructor.
  - intros Hin. apply in_filter_keys in Hin. tauto.
  - now apply nodup_filter.
Qed.

Lemma find_in_nodup : forall (s : Transition.state) a v, NoDup (map fst s) -> (In (a, v) s <-> find a s = Some v).
Proof.
  induction s as [|[k v0] t IH]; intros a v Hnd; cbn [In find].
  - split; [tauto|discriminate].
  - cbn [map fst] in Hnd. inversion Hnd as [|? ? Hni Hnd']; subst.
    destruct (N.eqb_spec k a) as [->|Hk].
    + split.
      * intros [E|Hin]; [congruence|]. exfalso. apply Hni. apply in_map_iff. exists (a, v). auto.
      * intros E. left. congruence.
    + rewrite <- (IH a v Hnd'). split; [|tauto]. intros [E|Hin]; [congruence|exact Hin].
Qed.

Lemma nodup_pairs (s : Transition.state) : NoDup (map fst s) -> NoDup s.
Proof. intros Hnd. now apply NoDup_map_inv in Hnd. Qed.

Lemma same_map_perm s1 s2 : same_map s1 s2 -> Permutation (norm s1) (norm s2).
Proof.
  intros E. apply NoDup_Permutation; try (apply nodup_pairs; apply nodup_norm).
  intros [a v]. rewrite !find_in_nodup by apply nodup_norm. rewrite !find_norm, E. reflexivity.
Qed.

(* ---------------------------------------------------------------- B. the root is a function of the finite map *)

Definition ok_order (o : Transition.state -> Transition.state) : Prop := forall s, Permutation s (o s).

Section Root.
Variable H : bytes -> bytes.
(* the primitive: the account-key hash does not collide on addresses *)
Hypothesis key_inj : forall a b : Transition.addr, acct_key H a = acct_key H b -> a = b.

Lemma nodup_keys (l : Transition.state) : NoDup (map fst l) -> NoDup (map fst (map (leaf H) l)).
Proof.
  rewrite map_map. cbn [leaf fst].
  induction l as [|[a c] l IH]; cbn [map fst]; [constructor|].
  intros Hnd. inversion Hnd as [|? ? Hni Hnd']; subst. constructor; [|auto].
  intros Hin. apply Hni. apply in_map_iff in Hin. destruct Hin as ([b c'] & E & Hb). cbn [fst] in E.
  apply key_inj in E. subst b. apply in_map_iff. exists (a, c'). auto.
Qed.

Theorem tx_state_root_same : forall o1 o2 s1 s2, ok_order o1 -> ok_order o2 -> same_map s1 s2 ->
  tx_state_root H o1 s1 = tx_state_root H o2 s2.
Proof.
  intros o1 o2 s1 s2 K1 K2 E. unfold tx_state_root. apply mpt_root_perm.
  - apply nodup_keys. apply (Permutation_NoDup (Permutation_map fst (K1 (norm s1)))). apply nodup_norm.
  - apply Permutation_map.
    apply Permutation_trans with (norm s1); [apply Permutation_sym, K1|].
    apply Permutation_trans with (norm s2); [now apply same_map_perm|apply K2].
Qed.
End Root.

(* ---------------------------------------------------------------- C. C06's transition respects the finite map *)

(* the interpreter premise: `run` sees the state as a finite map (C07/C08 over C09's getters) *)
Definition run_respects (run : Transition.runner) : Prop :=
  forall ri s1 s2, same_map s1 s2 ->
    Transition.ro_status (run ri s1) = Transition.ro_status (run ri s2) /\ Transition.ro_gas_left (run ri s1) = Transition.ro_gas_left (run ri s2) /\
    Transition.ro_refund (run ri s1) = Transition.ro_refund (run ri s2) /\ Transition.ro_logs (run ri s1) = Transition.ro_logs (run ri s2) /\
    Transition.ro_suicided (run ri s1) = Transition.ro_suicided (run ri s2) /\ same_map (Transition.ro_state (run ri s1)) (Transition.ro_state (run ri s2)).

Ltac smap := repeat (first [ assumption | apply same_map_refl
  | apply same_upd | unfold Transition.transfer, Transition.add_balance, Transition.sub_balance, Transition.set_balance, Transition.set_nonce, Transition.create_account, Transition.delete_account ]).

Lemma same_transfer s1 s2 a b v : same_map s1 s2 -> same_map (Transition.transfer s1 a b v) (Transition.transfer s2 a b v).
Proof. intros E. unfold Transition.transfer, Transition.add_balance, Transition.sub_balance. now repeat apply same_upd. Qed.

Definition eo_rel (a b : Transition.exec_outcome) : Prop :=
  match a, b with
  | Transition.ExecInsufficient, Transition.ExecInsufficient => True
  | Transition.ExecDone r1, Transition.ExecDone r2 =>
      same_map (Transition.er_state r1) (Transition.er_state r2) /\ Transition.er_gas_left r1 = Transition.er_gas_left r2 /\
      Transition.er_failed r1 = Transition.er_failed r2 /\ Transition.er_refund r1 = Transition.er_refund r2 /\ Transition.er_logs r1 = Transition.er_logs r2 /\
      Transition.er_suicided r1 = Transition.er_suicided r2 /\ Transition.er_created r1 = Transition.er_created r2
  | _, _ => False
  end.

Section Exec.
Variable cfg : Transition.chain_cfg.
Variable run : Transition.runner.
Hypothesis Hrun : run_respects run.

Lemma evm_call_same num idx s1 s2 caller to ex input gas value : same_map s1 s2 ->
  eo_rel (Transition.evm_call cfg num run idx s1 caller to ex input gas value)
         (Transition.evm_call cfg num run idx s2 caller to ex input gas value).
Proof.
  intros E. unfold Transition.evm_call, Transition.can_transfer. rewrite <- (same_get s1 s2 caller E).
  destruct (negb _); [exact I|].
  destruct (negb ex && negb (Transition.is_precompile cfg num to) && Transition.is_forked (Transition.c_eip158 cfg) num && (value =? 0)).
  - cbn. repeat split; auto.
  - pose proof (Hrun (Transition.mkRI idx caller to false input gas value) _ _ (same_transfer s1 s2 caller to value E))
      as (Hs & Hg & Hr & Hl & Hsu & Hst).
    rewrite <- Hs. destruct (Transition.ro_status _); cbn; repeat split; auto.
Qed.

Lemma evm_create_same num idx s1 s2 caller codeb gas value : same_map s1 s2 ->
  eo_rel (Transition.evm_create cfg num run idx s1 caller codeb gas value)
         (Transition.evm_create cfg num run idx s2 caller codeb gas value).
Proof.
  intros E. unfold Transition.evm_create, Transition.can_transfer. rewrite <- (same_get s1 s2 caller E).
  destruct (negb _); [exact I|].
  set (n := Transition.nonce (Transition.get caller s1)).
  assert (E0 : same_map (Transition.set_nonce caller (Transition.add64 n 1) s1) (Transition.set_nonce caller (Transition.add64 n 1) s2))
    by (unfold Transition.set_nonce; now apply same_upd).
  set (s01 := Transition.set_nonce caller (Transition.add64 n 1) s1) in *. set (s02 := Transition.set_nonce caller (Transition.add64 n 1) s2) in *.
  set (ca := Transition.create_address caller n).
  clearbody ca s01 s02 n.
  rewrite <- (same_get s01 s02 ca E0).
  destruct (negb (Transition.nonce (Transition.get ca s01) =? 0) || negb (Transition.code (Transition.get ca s01) =? 0)).
  - cbn. repeat split; auto.
  - assert (E3 : same_map
        (Transition.transfer (if Transition.is_forked (Transition.c_eip158 cfg) num then Transition.set_nonce ca 1 (Transition.create_account ca s01) else Transition.create_account ca s01) caller ca value)
        (Transition.transfer (if Transition.is_forked (Transition.c_eip158 cfg) num then Transition.set_nonce ca 1 (Transition.create_account ca s02) else Transition.create_account ca s02) caller ca value)).
    { apply same_transfer. destruct (Transition.is_forked (Transition.c_eip158 cfg) num); unfold Transition.set_nonce, Transition.create_account; now repeat apply same_upd. }
    pose proof (Hrun (Transition.mkRI idx caller ca true codeb gas value) _ _ E3) as (Hs & Hg & Hr & Hl & Hsu & Hst).
    rewrite <- Hs. destruct (Transition.ro_status _); cbn; repeat split; auto.
    destruct (Transition.is_forked (Transition.c_homestead cfg) num); cbn; repeat split; auto.
Qed.

Lemma exec_phase_same num idx s1 s2 m gas1 : same_map s1 s2 ->
  eo_rel (Transition.exec_phase cfg num run idx s1 m gas1) (Transition.exec_phase cfg num run idx s2 m gas1).
Proof.
  intros E. unfold Transition.exec_phase. destruct (Transition.m_to m) as [to|].
  - rewrite <- (same_get s1 s2 (Transition.m_from m) E). apply evm_call_same. unfold Transition.set_nonce. now apply same_upd.
  - now apply evm_create_same.
Qed.

Definition tdb_rel (a b : Transition.tdb_result) : Prop :=
  match a, b with
  | Transition.TdbOk r1, Transition.TdbOk r2 =>
      same_map (Transition.t_state r1) (Transition.t_state r2) /\ Transition.t_used r1 = Transition.t_used r2 /\ Transition.t_failed r1 = Transition.t_failed r2 /\
      Transition.t_pool r1 = Transition.t_pool r2 /\ Transition.t_logs r1 = Transition.t_logs r2 /\ Transition.t_suicided r1 = Transition.t_suicided r2 /\
      Transition.t_created r1 = Transition.t_created r2
  | Transition.TdbErr e1, Transition.TdbErr e2 => e1 = e2
  | Transition.TdbPanic, Transition.TdbPanic => True
  | _, _ => False
  end.

Lemma transition_db_same num coinbase idx s1 s2 pool m : same_map s1 s2 ->
  tdb_rel (Transition.transition_db cfg num coinbase run idx s1 pool m) (Transition.transition_db cfg num coinbase run idx s2 pool m).
Proof.
  intros E. unfold Transition.transition_db. rewrite <- (same_get s1 s2 (Transition.m_from m) E).
  destruct (Transition.m_check_nonce m && _); [reflexivity|].
  destruct (Transition.m_check_nonce m && _); [reflexivity|].
  destruct (_ <? _)%Z; [reflexivity|].
  destruct (Transition.pool_sub_gas pool (Transition.m_gas m)) as [pool1|]; [|reflexivity].
  destruct (Transition.intrinsic_gas _ _ _) as [ig| |]; [|reflexivity|exact I].
  destruct (Transition.m_gas m <? ig); [reflexivity|].
  pose proof (exec_phase_same num idx
     (Transition.sub_balance (Transition.m_from m) (Z.of_N (Transition.m_gas m * Transition.m_price m)) s1)
     (Transition.sub_balance (Transition.m_from m) (Z.of_N (Transition.m_gas m * Transition.m_price m)) s2) m (Transition.m_gas m - ig)
     ltac:(unfold Transition.sub_balance; now apply same_upd)) as He.
  unfold eo_rel in He.
  destruct (Transition.exec_phase cfg num run idx (Transition.sub_balance _ _ s1) m _) as [|r1],
           (Transition.exec_phase cfg num run idx (Transition.sub_balance _ _ s2) m _) as [|r2]; try contradiction; [reflexivity|].
  destruct He as (Hs & Hg & Hf & Hr & Hl & Hsu & Hc). rewrite <- Hg, <- Hr.
  destruct (Transition.pool_add_gas pool1 _); [|exact I].
  cbn. rewrite <- Hf, <- Hl, <- Hsu, <- Hc. repeat split; auto.
  unfold Transition.add_balance. now repeat apply same_upd.
Qed.

Lemma finalise_same : forall l s1 s2, same_map s1 s2 -> same_map (Transition.finalise l s1) (Transition.finalise l s2).
Proof.
  induction l as [|a l IH]; intros s1 s2 E; cbn [Transition.finalise]; [exact E|].
  apply IH. unfold Transition.delete_account. now apply same_upd.
Qed.

Definition tx_rel (a b : Transition.tx_result) : Prop :=
  match a, b with
  | Transition.TxOk r1, Transition.TxOk r2 =>
      same_map (Transition.x_state r1) (Transition.x_state r2) /\ Transition.x_receipt r1 = Transition.x_receipt r2 /\ Transition.x_pool r1 = Transition.x_pool r2 /\
      Transition.x_cumulative r1 = Transition.x_cumulative r2 /\ Transition.t_used (Transition.x_tdb r1) = Transition.t_used (Transition.x_tdb r2) /\
      Transition.t_failed (Transition.x_tdb r1) = Transition.t_failed (Transition.x_tdb r2)
  | Transition.TxErr e1, Transition.TxErr e2 => e1 = e2
  | Transition.TxPanic, Transition.TxPanic => True
  | _, _ => False
  end.

Lemma apply_transaction_same num coinbase idx s1 s2 pool cum m : same_map s1 s2 ->
  tx_rel (Transition.apply_transaction cfg num coinbase run idx s1 pool cum m)
         (Transition.apply_transaction cfg num coinbase run idx s2 pool cum m).
Proof.
  intros E. unfold Transition.apply_transaction.
  pose proof (transition_db_same num coinbase idx s1 s2 pool m E) as Ht. unfold tdb_rel in Ht.
  destruct (Transition.transition_db cfg num coinbase run idx s1 pool m) as [t1|e1|],
           (Transition.transition_db cfg num coinbase run idx s2 pool m) as [t2|e2|]; try contradiction; auto.
  destruct Ht as (Hs & Hu & Hf & Hp & Hl & Hsu & Hc). cbn.
  rewrite <- Hu, <- Hf, <- Hp, <- Hl, <- Hsu, <- Hc. repeat split; auto.
  now apply finalise_same.
Qed.

Lemma apply_hf4_same : forall l s1 s2, same_map s1 s2 -> same_map (Transition.apply_hf4 l s1) (Transition.apply_hf4 l s2).
Proof.
  induction l as [|a l IH]; intros s1 s2 E; cbn [Transition.apply_hf4]; [exact E|].
  apply IH. unfold Transition.set_balance. now apply same_upd.
Qed.

Lemma block_start_same dealloc h s1 s2 : same_map s1 s2 ->
  same_map (Transition.block_start cfg dealloc h s1) (Transition.block_start cfg dealloc h s2).
Proof.
  intros E. unfold Transition.block_start, Transition.apply_hf5.
  destruct (Transition.at_fork (Transition.c_hf4 cfg) (Transition.h_number h)), (Transition.at_fork (Transition.c_hf5 cfg) (Transition.h_number h)); auto using apply_hf4_same.
Qed.

Lemma uncle_rewards_same num : forall us s1 s2 r, same_map s1 s2 ->
  same_map (fst (Transition.uncle_rewards num us s1 r)) (fst (Transition.uncle_rewards num us s2 r)) /\
  snd (Transition.uncle_rewards num us s1 r) = snd (Transition.uncle_rewards num us s2 r).
Proof.
  induction us as [|u us IH]; intros s1 s2 r E; cbn [Transition.uncle_rewards]; [split; [exact E|reflexivity]|].
  apply IH. unfold Transition.add_balance. now apply same_upd.
Qed.

Lemma accumulate_rewards_same h us s1 s2 : same_map s1 s2 ->
  same_map (Transition.accumulate_rewards h us s1) (Transition.accumulate_rewards h us s2).
Proof.
  intros E. unfold Transition.accumulate_rewards. destruct (Transition.h_number h <? _); [|exact E].
  pose proof (uncle_rewards_same (Transition.h_number h) us s1 s2 GenParamsTx.block_reward E) as [Hs Hr].
  destruct (Transition.uncle_rewards (Transition.h_number h) us s1 _) as [a1 r1], (Transition.uncle_rewards (Transition.h_number h) us s2 _) as [a2 r2].
  cbn [fst snd] in *. subst r2. unfold Transition.add_balance. now apply same_upd.
Qed.

End Exec.

(* ---------------------------------------------------------------- D. the premise of theorems 3-4, discharged for the composed model *)

Definition logs_respect (logs_of : exec_env -> N -> Transition.state -> Transition.message -> list log) : Prop :=
  forall env idx s1 s2 m, same_map s1 s2 -> logs_of env idx s1 m = logs_of env idx s2 m.

Section Composed.
Variable H : bytes -> bytes.
Variable cfg : Transition.chain_cfg.
Variable dealloc : list Transition.addr.
Variable run : Transition.runner.
Variable decode_tx : bytes -> option Transition.message.
Variable logs_of : exec_env -> N -> Transition.state -> Transition.message -> list log.
Hypothesis key_inj : forall a b : Transition.addr, acct_key H a = acct_key H b -> a = b.
Hypothesis Hrun : run_respects run.
Hypothesis Hlogs : logs_respect logs_of.

Theorem composed_respects :
  exec_respects_rel Transition.state O (tx_apply_msg H cfg run decode_tx logs_of) (tx_block_start cfg dealloc)
                    (tx_finalize) (tx_state_root H) same_map ok_order.
Proof.
  unfold exec_respects_rel. repeat split.
  - intros o1 o2 env idx s1 s2 pool tx K1 K2 E. unfold tx_apply_msg.
    destruct (decode_tx tx) as [m|]; [|exact I].
    pose proof (apply_transaction_same cfg run Hrun (e_number env) (addr_of_bytes (e_coinbase env)) idx s1 s2 pool 0 m E) as Ht.
    unfold tx_rel in Ht.
    destruct (Transition.apply_transaction cfg _ _ run idx s1 pool 0 m) as [r1|e1|],
             (Transition.apply_transaction cfg _ _ run idx s2 pool 0 m) as [r2|e2|]; try contradiction; try exact I.
    destruct Ht as (Hs & Hr & Hp & Hc & Hu & Hf). cbn [msg_rel mr_state mr_pool mr_gas mr_post mr_logs].
    rewrite <- Hr, <- Hf, (Hlogs env idx s1 s2 m E). repeat split; auto.
    unfold post_bytes. destruct (Transition.r_post (Transition.x_receipt r1)) as [|[|]]; try reflexivity.
    now apply tx_state_root_same.
  - intros o1 o2 env s1 s2 _ _ E. unfold tx_block_start. now apply block_start_same.
  - intros o1 o2 env us s1 s2 _ _ E. unfold tx_finalize. now apply accumulate_rewards_same.
  - intros o1 o2 s1 s2 K1 K2 E. now apply tx_state_root_same.
Qed.

(* 2. determinism of the composed import: any two listings of the same finite map, any two
   orders in which Commit feeds the accounts to the trie *)
Theorem composed_import_deterministic : forall o1 o2 s1 s2 b,
  ok_order o1 -> ok_order o2 -> same_map s1 s2 ->
  import_rel Transition.state same_map
    (import_block_tx H cfg dealloc run decode_tx logs_of o1 s1 b)
    (import_block_tx H cfg dealloc run decode_tx logs_of o2 s2 b).
Proof.
  intros o1 o2 s1 s2 b K1 K2 E. unfold import_block_tx.
  exact (import_respects_rel H Transition.state O _ _ _ _ same_map ok_order composed_respects o1 o2 s1 s2 b K1 K2 E).
Qed.

(* 3. what the composed builder (commitNewWork over C06's transition) assembles, the composed
   import accepts, whatever the candidate list and the two nodes' listings / orders *)
Theorem composed_mined_block_is_valid : forall tx_gas o1 o2 s1 s2 tmpl cands uncles b r,
  ok_order o1 -> ok_order o2 -> same_map s1 s2 -> h_bloom tmpl = 0 ->
  build_block_tx H cfg dealloc run decode_tx logs_of tx_gas o1 s1 tmpl cands uncles = (b, r) ->
  exists r', import_block_tx H cfg dealloc run decode_tx logs_of o2 s2 b = Accepted Transition.state r' /\
             res_rel Transition.state same_map r r'.
Proof.
  intros tx_gas o1 o2 s1 s2 tmpl cands uncles b r K1 K2 E Hbl Hb. unfold import_block_tx, build_block_tx in *.
  exact (built_imports_rel H Transition.state O _ _ _ _ same_map ok_order composed_respects
           tx_gas o1 o2 s1 s2 tmpl cands uncles b r K1 K2 E Hbl Hb).
Qed.

End Composed.

(* ---------------------------------------------------------------- E. adapter: the composed Process is Tx.Transition.process *)

Section Adapter.
Variable H : bytes -> bytes.
Variable cfg : Transition.chain_cfg.
Variable dealloc : list Transition.addr.
Variable run : Transition.runner.
Variable decode_tx : bytes -> option Transition.message.
Variable logs_of : exec_env -> N -> Transition.state -> Transition.message -> list log.

(* a receipt of the import model against the receipt C06 builds for the same transaction *)
Definition rcpt_rel (o : O) (r : receipt) (tr : Transition.receipt) : Prop :=
  r_cumulative r = Transition.r_cumulative tr /\
  match Transition.r_post tr with
  | Transition.PostStatus ok => r_post r = (if ok then [x01] else [])
  | Transition.PostRoot => exists s, r_post r = tx_state_root H o s
  end.

Lemma Forall2_app_one {A B} (P : A -> B -> Prop) l1 l2 a b :
  Forall2 P l1 l2 -> P a b -> Forall2 P (l1 ++ [a]) (l2 ++ [b]).
Proof. intros Hf Hp. apply Forall2_app; [exact Hf|]. constructor; [exact Hp|constructor]. Qed.
Lemma Forall2_rev' {A B} (P : A -> B -> Prop) : forall l1 l2, Forall2 P l1 l2 -> Forall2 P (rev l1) (rev l2).
Proof. induction 1; cbn [rev]; [constructor|]. now apply Forall2_app_one. Qed.

Notation my_process_txs := (ImportModel.process_txs Transition.state O (tx_apply_msg H cfg run decode_tx logs_of)).

Lemma process_txs_adapter : forall txs msgs o env idx s pool cum acc tacc,
  Forall2 (fun tx m => decode_tx tx = Some m) txs msgs ->
  Forall2 (rcpt_rel o) acc tacc ->
  match my_process_txs o env idx s pool cum txs acc,
        Transition.process_txs cfg (e_number env) (addr_of_bytes (e_coinbase env)) run idx s pool cum msgs tacc with
  | Some p, Transition.BlockOk s' rs used =>
      p_state Transition.state p = s' /\ p_used Transition.state p = used /\ Forall2 (rcpt_rel o) (p_receipts Transition.state p) rs
  | None, Transition.BlockErr _ _ => True
  | None, Transition.BlockPanic => True
  | _, _ => False
  end.
Proof.
  induction txs as [|tx txs IH]; intros msgs o env idx s pool cum acc tacc Hd Hacc; inversion Hd as [|? m ? msgs' Hm Hd']; subst.
  - cbn [ImportModel.process_txs Transition.process_txs p_state p_used p_receipts]. repeat split.
    apply Forall2_rev'. exact Hacc.
  - cbn [ImportModel.process_txs Transition.process_txs]. unfold ImportModel.apply_one, tx_apply_msg. rewrite Hm.
    unfold Transition.apply_transaction.
    destruct (Transition.transition_db cfg (e_number env) (addr_of_bytes (e_coinbase env)) run idx s pool m) as [t|e|]; try exact I.
    cbn [Transition.x_state Transition.x_pool Transition.x_tdb Transition.x_receipt Transition.x_cumulative Transition.r_post mr_state mr_pool mr_gas mr_post mr_logs
         ts_state ts_pool ts_cum ts_receipt].
    change (ImportModel.add64 cum (Transition.t_used t)) with (Transition.add64 cum (Transition.t_used t)).
    apply IH; [exact Hd'|]. constructor; [|exact Hacc].
    unfold rcpt_rel. cbn [r_cumulative r_post Transition.r_cumulative Transition.r_post]. split; [reflexivity|].
    unfold post_bytes. destruct (Transition.is_forked (Transition.c_byzantium cfg) (e_number env)).
    + destruct (negb (Transition.t_failed t)); reflexivity.
    + eexists. reflexivity.
Qed.

(* Process of the import model = Tx.Transition.process on the decoded messages (gas limits are uint64) *)
Theorem process_adapter : forall o s b msgs,
  Forall2 (fun tx m => decode_tx tx = Some m) (b_txs b) msgs ->
  h_gas_limit (b_header b) <= Transition.max_u64 ->
  match process_tx H cfg dealloc run decode_tx logs_of o s b,
        Transition.process cfg dealloc run s (hdr_of_env (env_of (b_header b))) msgs (map uncle_of (b_uncles b)) with
  | Some p, Transition.BlockOk s' rs used =>
      p_state Transition.state p = s' /\ p_used Transition.state p = used /\ Forall2 (rcpt_rel o) (p_receipts Transition.state p) rs
  | None, Transition.BlockErr _ _ => True
  | None, Transition.BlockPanic => True
  | _, _ => False
  end.
Proof.
  intros o s b msgs Hd Hgl. unfold process_tx, ImportModel.process, Transition.process, Transition.pool_add_gas, hdr_of_env, tx_block_start.
  cbn [Transition.h_gas_limit Transition.h_number Transition.h_coinbase e_gas_limit e_number e_coinbase env_of].
  replace (Transition.max_u64 - h_gas_limit (b_header b) <? 0) with false by (symmetry; apply N.ltb_ge; lia).
  rewrite N.add_0_l.
  pose proof (process_txs_adapter (b_txs b) msgs o (env_of (b_header b)) 0
     (Transition.block_start cfg dealloc (hdr_of_env (env_of (b_header b))) s) (h_gas_limit (b_header b)) 0 [] [] Hd (Forall2_nil _)) as Ha.
  unfold hdr_of_env in Ha. cbn [e_gas_limit e_number e_coinbase env_of] in Ha.
  destruct (ImportModel.process_txs _ _ _ _ _ _ _ _ _ _ _) as [p|];
    destruct (Transition.process_txs _ _ _ _ _ _ _ _ _ _) as [s' rs used| |]; try contradiction; try exact I.
  destruct Ha as (<- & <- & Hr). cbn [p_state p_used p_receipts]. repeat split; exact Hr.
Qed.

End Adapter.

(* accept iff commitments, over the composed model: an instance of the generic theorem *)
Theorem composed_accept_iff :
  forall (H : bytes -> bytes) (cfg : Transition.chain_cfg) (dealloc : list Transition.addr) (run : Transition.runner)
         (decode_tx : bytes -> option Transition.message) (logs_of : exec_env -> N -> Transition.state -> Transition.message -> list log)
         (o : O) (s : Transition.state) (b : block) (r : results Transition.state),
  import_block_tx H cfg dealloc run decode_tx logs_of o s b = Accepted Transition.state r <->
  exists p, process_tx H cfg dealloc run decode_tx logs_of o s b = Some p /\
    h_uncle_hash (b_header b) = calc_uncle_hash H (b_uncles b) /\
    h_tx_hash (b_header b) = derive_sha H (b_txs b) /\
    h_gas_used (b_header b) = p_used Transition.state p /\
    h_bloom (b_header b) = receipts_bloom H (p_receipts Transition.state p) /\
    h_receipt_hash (b_header b) = receipts_root H (p_receipts Transition.state p) /\
    h_root (b_header b) = tx_state_root H o (p_state Transition.state p) /\
    r = mkRes Transition.state (p_state Transition.state p) (p_receipts Transition.state p) (p_used Transition.state p) (tx_state_root H o (p_state Transition.state p)).
Proof.
  intros H cfg dealloc run decode_tx logs_of.
  exact (accept_iff_commitments H Transition.state O (tx_apply_msg H cfg run decode_tx logs_of)
           (tx_block_start cfg dealloc) tx_finalize (tx_state_root H)).
Qed.

(* ---------------------------------------------------------------- a concrete instance (non-vacuity) *)

(* an interpreter that burns 1000 gas, emits nothing and leaves the state alone *)
Definition ex_run : Transition.runner := fun ri s => Transition.mkRO Transition.RunOk (Transition.ri_gas ri - 1000) 0 s 0 [].
Lemma ex_run_respects : run_respects ex_run.
Proof. intros ri s1 s2 E. unfold ex_run. cbn. repeat split; auto. Qed.
Definition ex_logs : exec_env -> N -> Transition.state -> Transition.message -> list log := fun _ _ _ _ => [].
Lemma ex_logs_respect : logs_respect ex_logs.
Proof. intros env idx s1 s2 m E. reflexivity. Qed.
(* a "transaction" is the big-endian sender, one byte of recipient and one byte of value *)
Definition ex_decode (tx : bytes) : option Transition.message :=
  match tx with
  | [f; t; v] => Some (Transition.mkMsg (b2n f) (Some (b2n t)) (Transition.nonce Transition.empty_acc) 1 30000 (b2n v) [] false)
  | _ => None
  end.
Definition ex_cfg : Transition.chain_cfg := Transition.mkCfg (Some 0) (Some 0) (Some 0) None None.
Definition ex_state1 : Transition.state := [(1, Transition.mkAcc 1000000%Z 0 0 0); (2, Transition.mkAcc 5%Z 0 0 0)].
Definition ex_state2 : Transition.state := [(2, Transition.mkAcc 5%Z 0 0 0); (1, Transition.mkAcc 1000000%Z 0 0 0); (2, Transition.mkAcc 77%Z 9 9 9)].
Lemma ex_same : same_map ex_state1 ex_state2.
Proof.
  intros a. cbn [find ex_state1 ex_state2].
  destruct (N.eqb_spec 1 a) as [<-|H1]; [reflexivity|].
  destruct (N.eqb_spec 2 a); reflexivity.
Qed.
Lemma ok_order_id : ok_order (fun s => s). Proof. intros s. apply Permutation_refl. Qed.
Lemma ok_order_rev : ok_order (@rev _). Proof. intros s. apply Permutation_rev. Qed.
