(* Import/DeriveShaCode.v — core/types/derive_sha.go DeriveSha as the code computes it:
     trie := new(trie.Trie); for i: trie.Update(rlp(uint(i)), list.GetRlp(i)); return trie.Hash()
   over the code-shaped trie of Trie/TrieModel.v (TryUpdate = insert / delete on the node
   tree, Hash = the hasher).  Definitions only (extracted; the driver compares it with the
   specification root on every request; DeriveShaProofs.v proves them equal). *)
From AQ Require Import Lib.Bytes Rlp.RlpSpec Trie.TrieModel.
Local Open Scope N_scope.

(* the loop; `d` is the node database (none is attached to this throw-away trie: the
   theorem holds for every d) *)
Fixpoint ds_insert (t : trie) (d : db) (i : N) (l : list bytes) : res trie :=
  match l with
  | [] => Ok t
  | x :: r => bind (trie_update t d (encode_uint i) x) (fun t' => ds_insert t' d (i + 1) r)
  end.

Definition derive_sha_code (H : bytes -> bytes) (d : db) (items : list bytes) : res bytes :=
  bind (ds_insert empty_trie d 0 items) (fun t =>
  bind (trie_hash H t) (fun '(h, _) => Ok h)).
