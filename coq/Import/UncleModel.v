(* Import/UncleModel.v — the miner's uncle selection and the structural part of the engine's
   uncle verification, over block / uncle hashes.  Definitions only (extracted).

   Code modelled:
     opt/miner/worker.go makeCurrent   the `ancestors` and `family` sets gathered from the 7 blocks
                                       GetBlocksFromHash(parent, 7): every ancestor's hash, and the hash of
                                       every uncle it included (taken under the version of the UNCLE's own
                                       height: uncle.SetVersion(GetBlockVersion(uncle.Number)))
     opt/miner/worker.go commitUncle   too many / not unique / parent unknown / already in family
     opt/miner/worker.go commitNewWork the loop over possibleUncles (a Go map: the order is an argument),
                                       `if len(uncles) == 1 { break }`
     consensus/aquahash VerifyUncles   count limits, duplicate, uncle-is-ancestor, dangling
   Not modelled here: the validity of the uncle's own header (verifyHeader: C13), the five
   hash-specific legacy exceptions of VerifyUncles below height 15000, and how a hash is computed
   (header-hash versions: the hashes are inputs). *)
From AQ Require Import Lib.Bytes.
Import ListNotations.
Local Open Scope N_scope.

(* an ancestor as the two loops see it: its hash and the hashes of the uncles it included *)
Record anc := mkAnc { a_hash : bytes; a_uncles : list bytes }.
(* a possible uncle: its hash and its parent hash *)
Record cand := mkCand { c_hash : bytes; c_parent : bytes }.

Definition bmem (x : bytes) (l : list bytes) : bool := existsb (bytes_eqb x) l.

(* makeCurrent: for every ancestor: family += its uncles; family += its hash; ancestors += its hash *)
Definition family (ancs : list anc) : list bytes := flat_map (fun a => a_uncles a ++ [a_hash a]) ancs.
Definition ancestors (ancs : list anc) : list bytes := map a_hash ancs.

Inductive uncle_err := UTooMany | UNotUnique | UParentUnknown | UInFamily.

(* commitUncle(work, uncle); `chosen` = work.uncles *)
Definition commit_uncle (ancs : list anc) (chosen : list bytes) (c : cand) : option uncle_err :=
  if 0 <? lenN chosen then Some UTooMany
  else if bmem (c_hash c) chosen then Some UNotUnique
  else if negb (bmem (c_parent c) (ancestors ancs)) then Some UParentUnknown
  else if bmem (c_hash c) (family ancs) then Some UInFamily
  else None.

(* commitNewWork: `for hash, uncle := range w.possibleUncles` in the order given; returns the uncles
   taken and the ones found bad (deleted from possibleUncles afterwards) *)
Fixpoint select_uncles (ancs : list anc) (cands : list cand) (chosen : list bytes)
         (picked bad : list cand) : list cand * list cand :=
  match cands with
  | [] => (rev picked, rev bad)
  | c :: r =>
      if lenN picked =? 1 then (rev picked, rev bad)
      else match commit_uncle ancs chosen c with
           | None => select_uncles ancs r (c_hash c :: chosen) (c :: picked) bad
           | Some _ => select_uncles ancs r chosen picked (c :: bad)
           end
  end.

Inductive verify_err := VTooMany | VDuplicate | VIsAncestor | VDangling.

(* the loop of VerifyUncles; `unc` = uncles seen so far (past uncles, the block itself, earlier
   uncles of this block), `ancset` = the 7 ancestors and the block itself *)
Fixpoint verify_loop (block_parent : bytes) (ancset : list bytes) (unc : list bytes) (uncles : list cand)
  : option verify_err :=
  match uncles with
  | [] => None
  | u :: r =>
      if bmem (c_hash u) unc then Some VDuplicate
      else if bmem (c_hash u) ancset then Some VIsAncestor
      else if negb (bmem (c_parent u) ancset) || bytes_eqb (c_parent u) block_parent then Some VDangling
      else verify_loop block_parent ancset (c_hash u :: unc) r
  end.

(* VerifyUncles, structural part; max_uncles = 2, max_uncles_hf5 = 1 (consensus.go constants) *)
Definition verify_uncles_struct (hf5 : bool) (ancs : list anc) (block_hash block_parent : bytes)
           (uncles : list cand) : option verify_err :=
  if 2 <? lenN uncles then Some VTooMany
  else if (1 <? lenN uncles) && hf5 then Some VTooMany
  else verify_loop block_parent (block_hash :: ancestors ancs)
                   (block_hash :: flat_map a_uncles ancs) uncles.
