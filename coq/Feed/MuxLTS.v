(* Feed/MuxLTS.v — labelled transition system of aqua/event/event.go (TypeMux).
   Definitions only (extracted by ExtractFeed.v); proofs are in MuxProofs.v.

   Go slices are modelled as (array id, length) over a heap of arrays, so that the
   copy-on-write discipline the code relies on is visible: Subscribe and posdelete
   build a NEW array (fresh id) and publish it in subm; Post takes a snapshot
   (array id, length) under RLock and then reads that array WITHOUT the lock.
   One label per verifMuxPoint of the instrumented build (or call record of the harness).
   The per-type iterations of Subscribe / del are separate labels (an
   over-approximation of the single critical section they sit in). *)
From Coq Require Import List Arith Bool.
Import ListNotations.

Definition sub := nat.
Definition typ := nat.
Definition post := nat.
Definition aid := nat.

Inductive sst := UNone | UCreated | UClosing (* close(s.closing) done *) | UClosed (* close(s.postC) done *).
Inductive ppc := PNew | PCalled | PIter (a : aid) (len i : nat) | PDone | PErr.

Record mstate := {
  heap : aid -> list sub;            (* backing arrays *)
  nexta : aid;                       (* next fresh array id *)
  subm : typ -> option (aid * nat);  (* mux.subm: slice = (array, len) *)
  stopped : bool;                    (* mux.stopped *)
  wlock : bool;                      (* mux.mutex write-held by Stop *)
  sstat : sub -> sst;
  created : sub -> nat;              (* s.created (logical clock) *)
  ppcs : post -> ppc;
  ptyp : post -> typ;
  ptime : post -> nat;               (* event.Time (logical clock) *)
  snap : post -> list sub;           (* ghost: the snapshot taken by Post *)
  tick : nat;
  mlog : list (post * sub);          (* ghost: deliveries, newest first *)
  mpanic : bool;
  mtypes : list typ                  (* ghost: the keys ever put into mux.subm *)
}.

Inductive mlabel :=
| MSubNew (s : sub)                 (* newsub *)
| MSubStopped (s : sub)             (* Subscribe on a stopped mux: closed = true; close(postC) *)
| MSubAdd (s : sub) (t : typ)       (* Subscribe: subs := make(len+1); copy; mux.subm[rtyp] = subs *)
| MPostCall (p : post) (t : typ)    (* event.Time = now *)
| MPostStopped (p : post)           (* RLock; stopped: return ErrMuxClosed *)
| MPostSnap (p : post)              (* RLock; subs := mux.subm[rtyp]; RUnlock *)
| MDeliverSent (p : post) (s : sub)    (* deliver: case s.postC <- event *)
| MDeliverClosed (p : post) (s : sub)  (* deliver: case <-s.closing *)
| MDeliverStale (p : post) (s : sub)   (* deliver: s.created.After(event.Time) *)
| MPostRet (p : post)
| MDel (s : sub) (t : typ)          (* del: mux.subm[typ] = posdelete(subs, pos)  (or delete(mux.subm, typ)) *)
| MClosing (s : sub)                (* closewait: close(s.closing) *)
| MPostcClose (s : sub)             (* closewait: close(s.postC); s.postC = nil *)
| MStopBegin
| MStopEnd.

Definition mupd {A} (f : nat -> A) (k : nat) (v : A) : nat -> A := fun x => if Nat.eqb x k then v else f x.

Fixpoint mfind (s : sub) (l : list sub) : option nat :=
  match l with [] => None | x :: t => if Nat.eqb x s then Some 0 else option_map S (mfind s t) end.

(* posdelete: news := make(len-1); copy(news[:pos], slice[:pos]); copy(news[pos:], slice[pos+1:]) *)
Definition posdelete (l : list sub) (pos : nat) : list sub := firstn pos l ++ skipn (S pos) l.

Definition slice_of (st : mstate) (o : option (aid * nat)) : list sub :=
  match o with Some (a, len) => firstn len (heap st a) | None => [] end.

Definition minit : mstate :=
  {| heap := fun _ => []; nexta := 0; subm := fun _ => None; stopped := false; wlock := false;
     sstat := fun _ => UNone; created := fun _ => 0; ppcs := fun _ => PNew; ptyp := fun _ => 0; ptime := fun _ => 0;
     snap := fun _ => []; tick := 0; mlog := []; mpanic := false; mtypes := [] |}.

Definition set_sstat st s v := {| heap := heap st; nexta := nexta st; subm := subm st; stopped := stopped st; wlock := wlock st;
  sstat := mupd (sstat st) s v; created := created st; ppcs := ppcs st; ptyp := ptyp st; ptime := ptime st; snap := snap st;
  tick := tick st; mlog := mlog st; mpanic := mpanic st; mtypes := mtypes st |}.
Definition set_ppc st p v := {| heap := heap st; nexta := nexta st; subm := subm st; stopped := stopped st; wlock := wlock st;
  sstat := sstat st; created := created st; ppcs := mupd (ppcs st) p v; ptyp := ptyp st; ptime := ptime st; snap := snap st;
  tick := tick st; mlog := mlog st; mpanic := mpanic st; mtypes := mtypes st |}.
(* publish a freshly allocated array as the slice of type t *)
Definition publish st t (l : list sub) := {| heap := mupd (heap st) (nexta st) l; nexta := S (nexta st);
  subm := mupd (subm st) t (Some (nexta st, length l)); stopped := stopped st; wlock := wlock st;
  sstat := sstat st; created := created st; ppcs := ppcs st; ptyp := ptyp st; ptime := ptime st; snap := snap st;
  tick := tick st; mlog := mlog st; mpanic := mpanic st; mtypes := t :: mtypes st |}.
Definition set_subm st f := {| heap := heap st; nexta := nexta st; subm := f; stopped := stopped st; wlock := wlock st;
  sstat := sstat st; created := created st; ppcs := ppcs st; ptyp := ptyp st; ptime := ptime st; snap := snap st;
  tick := tick st; mlog := mlog st; mpanic := mpanic st; mtypes := mtypes st |}.
Definition set_flags st stp wl := {| heap := heap st; nexta := nexta st; subm := subm st; stopped := stp; wlock := wl;
  sstat := sstat st; created := created st; ppcs := ppcs st; ptyp := ptyp st; ptime := ptime st; snap := snap st;
  tick := tick st; mlog := mlog st; mpanic := mpanic st; mtypes := mtypes st |}.
Definition set_mpanic st := {| heap := heap st; nexta := nexta st; subm := subm st; stopped := stopped st; wlock := wlock st;
  sstat := sstat st; created := created st; ppcs := ppcs st; ptyp := ptyp st; ptime := ptime st; snap := snap st;
  tick := tick st; mlog := mlog st; mpanic := true; mtypes := mtypes st |}.

Definition sst_eqb (a b : sst) : bool :=
  match a, b with UNone, UNone | UCreated, UCreated | UClosing, UClosing | UClosed, UClosed => true | _, _ => false end.

(* the subscription Post is about to deliver to: subs[i] of its snapshot slice *)
Definition cur (st : mstate) (p : post) : option (aid * nat * nat * sub) :=
  match ppcs st p with
  | PIter a len i => if Nat.ltb i len then match nth_error (heap st a) i with Some s => Some (a, len, i, s) | None => None end else None
  | _ => None
  end.

(* every subscription in every list of mux.subm has finished closewait *)
Definition all_closed (st : mstate) : bool :=
  forallb (fun t => forallb (fun s => sst_eqb (sstat st s) UClosed) (slice_of st (subm st t))) (mtypes st).

(* labels initiated by callers, as opposed to the synchronisation points of calls under way *)
Definition minternal (l : mlabel) : bool :=
  match l with MSubNew _ | MPostCall _ _ | MStopBegin => false | _ => true end.

Definition mstep (st : mstate) (l : mlabel) : option mstate :=
  if mpanic st then None else
  match l with
  | MSubNew s =>
      if sst_eqb (sstat st s) UNone then
        Some {| heap := heap st; nexta := nexta st; subm := subm st; stopped := stopped st; wlock := wlock st;
                sstat := mupd (sstat st) s UCreated; created := mupd (created st) s (tick st); ppcs := ppcs st; ptyp := ptyp st;
                ptime := ptime st; snap := snap st; tick := S (tick st); mlog := mlog st; mpanic := mpanic st; mtypes := mtypes st |}
      else None
  | MSubStopped s =>
      if sst_eqb (sstat st s) UCreated && stopped st && negb (wlock st) then Some (set_sstat st s UClosed) else None
  | MSubAdd s t =>
      if sst_eqb (sstat st s) UCreated && negb (stopped st) && negb (wlock st) then
        let old := slice_of st (subm st t) in
        match mfind s old with
        | Some _ => Some (set_mpanic st)            (* panic("event: duplicate type ... in Subscribe") *)
        | None => Some (publish st t (old ++ [s]))
        end
      else None
  | MPostCall p t =>
      match ppcs st p with
      | PNew => Some {| heap := heap st; nexta := nexta st; subm := subm st; stopped := stopped st; wlock := wlock st;
                        sstat := sstat st; created := created st; ppcs := mupd (ppcs st) p PCalled; ptyp := mupd (ptyp st) p t;
                        ptime := mupd (ptime st) p (tick st); snap := snap st; tick := S (tick st); mlog := mlog st; mpanic := mpanic st; mtypes := mtypes st |}
      | _ => None
      end
  | MPostStopped p =>
      match ppcs st p with
      | PCalled => if stopped st && negb (wlock st) then Some (set_ppc st p PErr) else None
      | _ => None
      end
  | MPostSnap p =>
      match ppcs st p with
      | PCalled =>
          if negb (stopped st) && negb (wlock st) then
            let o := subm st (ptyp st p) in
            let '(a, len) := match o with Some x => x | None => (0, 0) end in
            Some {| heap := heap st; nexta := nexta st; subm := subm st; stopped := stopped st; wlock := wlock st;
                    sstat := sstat st; created := created st; ppcs := mupd (ppcs st) p (PIter a len 0); ptyp := ptyp st;
                    ptime := ptime st; snap := mupd (snap st) p (slice_of st o); tick := tick st; mlog := mlog st; mpanic := mpanic st; mtypes := mtypes st |}
          else None
      | _ => None
      end
  | MDeliverSent p s =>
      match cur st p with
      | Some (a, len, i, s') =>
          if Nat.eqb s' s && (sst_eqb (sstat st s) UCreated || sst_eqb (sstat st s) UClosing) then
            Some {| heap := heap st; nexta := nexta st; subm := subm st; stopped := stopped st; wlock := wlock st;
                    sstat := sstat st; created := created st; ppcs := mupd (ppcs st) p (PIter a len (S i)); ptyp := ptyp st;
                    ptime := ptime st; snap := snap st; tick := tick st; mlog := (p, s) :: mlog st; mpanic := mpanic st; mtypes := mtypes st |}
          else None
      | None => None
      end
  | MDeliverClosed p s =>
      match cur st p with
      | Some (a, len, i, s') =>
          if Nat.eqb s' s && (sst_eqb (sstat st s) UClosing || sst_eqb (sstat st s) UClosed)
          then Some (set_ppc st p (PIter a len (S i))) else None
      | None => None
      end
  | MDeliverStale p s =>
      match cur st p with
      | Some (a, len, i, s') =>
          if Nat.eqb s' s && Nat.ltb (ptime st p) (created st s)
          then Some (set_ppc st p (PIter a len (S i))) else None
      | None => None
      end
  | MPostRet p =>
      match ppcs st p with
      | PIter a len i => if Nat.leb len i then Some (set_ppc st p PDone) else None
      | _ => None
      end
  | MDel s t =>
      if negb (wlock st) then
        match subm st t with
        | Some (a, len) =>
            let l := firstn len (heap st a) in
            match mfind s l with
            | Some pos => if Nat.eqb len 1 then Some (set_subm st (mupd (subm st) t None))
                          else Some (publish st t (posdelete l pos))
            | None => None
            end
        | None => None
        end
      else None
  | MClosing s => if sst_eqb (sstat st s) UCreated then Some (set_sstat st s UClosing) else None
  | MPostcClose s => if sst_eqb (sstat st s) UClosing then Some (set_sstat st s UClosed) else None
  | MStopBegin => if negb (wlock st) then Some (set_flags st (stopped st) true) else None
  (* Stop: for every sub of every list: sub.closewait() (returns only when postC is closed); subm = nil; stopped = true; Unlock *)
  | MStopEnd => if wlock st && all_closed st then Some (set_flags (set_subm st (fun _ => None)) true false) else None
  end.

Fixpoint mrun_from (st : mstate) (tr : list mlabel) (n : nat) : mstate + nat :=
  match tr with
  | [] => inl st
  | l :: t => match mstep st l with Some st' => mrun_from st' t (S n) | None => inr n end
  end.

Fixpoint mrun (st : mstate) (tr : list mlabel) : option mstate :=
  match tr with
  | [] => Some st
  | l :: t => match mstep st l with Some st' => mrun st' t | None => None end
  end.

Fixpoint mcount (p : post) (s : sub) (lg : list (post * sub)) : nat :=
  match lg with
  | [] => 0
  | (p', s') :: t => (if Nat.eqb p' p && Nat.eqb s' s then 1 else 0) + mcount p s t
  end.
