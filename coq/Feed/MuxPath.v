(* Feed/MuxPath.v — TypeMux exactly-once stated on paths: subscribed before the Post began and neither
   unsubscribed nor stopped before it returned  =>  exactly one delivery. *)
From Coq Require Import List Arith Bool Lia.
From AQ Require Import Feed.FeedLTS Feed.FeedProofs Feed.MuxLTS Feed.MuxProofs Feed.MuxExact.
Import ListNotations.

Lemma mfind_some_in : forall s l pos, mfind s l = Some pos -> In s l.
Proof.
  induction l as [|x t IH]; simpl; intros pos H; [discriminate|].
  destruct (Nat.eqb x s) eqn:E; mbools; auto. destruct (mfind s t) eqn:F; [|discriminate]. right. eapply IH; eauto.
Qed.

Lemma in_posdelete_other : forall s' l pos s, mfind s' l = Some pos -> s <> s' -> In s l -> In s (posdelete l pos).
Proof.
  induction l as [|x t IH]; simpl; intros pos s H N Hin; [discriminate|]. unfold posdelete.
  destruct (Nat.eqb x s') eqn:E; mbools.
  - inversion H; subst. simpl. destruct Hin as [A|A]; [congruence|auto].
  - destruct (mfind s' t) as [p'|] eqn:F; [|discriminate]. inversion H; subst. simpl.
    destruct Hin as [A|A]; [left; auto|right]. apply (IH p' s eq_refl N A).
Qed.

(* s is in the subscriber list of type t *)
Definition member (s : sub) (t : typ) (st : mstate) : Prop := In s (slice_of st (subm st t)).

Lemma slice_publish : forall st t0 l t, MI st ->
  slice_of (publish st t0 l) (subm (publish st t0 l) t) = if Nat.eqb t t0 then l else slice_of st (subm st t).
Proof.
  intros st t0 l t I. unfold publish, slice_of; cbn [subm heap]. unfold mupd.
  destruct (Nat.eqb t t0) eqn:E.
  - rewrite Nat.eqb_refl. apply firstn_all.
  - destruct (subm st t) as [[a len]|] eqn:Es; auto.
    destruct (m_subm _ I _ _ _ Es) as (A & _ & _).
    destruct (Nat.eqb a (nexta st)) eqn:Q; mbools; auto. lia.
Qed.

Lemma member_step : forall s t st l st', MI st -> member s t st -> l <> MDel s t -> l <> MStopEnd ->
  mstep st l = Some st' -> member s t st'.
Proof.
  intros s t st l st' I Mb N1 N2 H. unfold member in *.
  minv H; try (rewrite slice_publish by auto); unfold set_sstat, set_ppc, set_subm, set_flags, set_mpanic; simpl; auto; try congruence.
  - (* SubAdd *) destruct (Nat.eqb t t0) eqn:E; mbools; subst; auto. apply in_or_app; auto.
  - (* Del, last one *) unfold mupd. destruct (Nat.eqb t t0) eqn:E; mbools; subst; auto.
    exfalso. rewrite M in Mb. cbn [slice_of] in Mb. apply mfind_some_in in M1. rename M1 into M0.
    assert (F : length (firstn 1 (heap st a)) <= 1) by (rewrite firstn_length; lia).
    revert Mb M0 F. destruct (firstn 1 (heap st a)) as [|x [|y r]]; intros Mb M0 F.
    + destruct Mb.
    + destruct Mb as [<-|[]]. destruct M0 as [->|[]]. congruence.
    + simpl in F. lia.
  - (* Del *) destruct (Nat.eqb t t0) eqn:E; mbools; subst; auto.
    rewrite M in Mb. cbn [slice_of] in Mb. eapply in_posdelete_other; eauto; congruence.
Qed.

(* creation times are in the past *)
Definition MT (st : mstate) : Prop := forall s, sstat st s <> UNone -> created st s < tick st.
Lemma MT_step : forall st l st', MT st -> mstep st l = Some st' -> MT st'.
Proof.
  intros st l st' T H. unfold MT in *. minv H; unfold publish, set_sstat, set_ppc, set_subm, set_flags, set_mpanic; simpl; intros sx N; simpl in *; auto.
  all: try solve [unfold mupd in *; destruct (Nat.eqb sx s) eqn:E; mbools; subst; try lia; try (apply T; congruence); specialize (T sx N); lia].
  all: try solve [specialize (T sx N); lia].
Qed.
Lemma mreachable_MT : forall st, mreachable st -> MT st.
Proof. intros st [tr R]. eapply (mrun_inv MT); [apply MT_step| |exact R]. intros s N. simpl in N. congruence. Qed.

Lemma mreachable_step : forall st l st', mreachable st -> mstep st l = Some st' -> mreachable st'.
Proof. intros st l st' [tr R] H. exists (tr ++ [l]). apply mrun_app. exists st. split; auto. simpl. rewrite H. auto. Qed.

Lemma mrun_path : forall (P : mstate -> Prop) (ok : mlabel -> Prop),
  (forall st l st', mreachable st -> P st -> ok l -> mstep st l = Some st' -> P st') ->
  forall tr st st', mreachable st -> P st -> (forall l, In l tr -> ok l) -> mrun st tr = Some st' -> P st' /\ mreachable st'.
Proof.
  intros P ok HS. induction tr as [|l t IH]; intros st st' R p O H; simpl in H.
  - inversion H; subst; auto.
  - destruct (mstep st l) as [m|] eqn:E; [|discriminate].
    apply (IH m st'); auto.
    + eapply mreachable_step; eauto.
    + eapply HS; eauto. apply O. left; auto.
    + intros l' Hl. apply O. right; auto.
Qed.

Definition keeps (s : sub) (t : typ) (l : mlabel) : Prop :=
  l <> MDel s t /\ l <> MStopEnd /\ l <> MClosing s /\ l <> MSubStopped s.

(* s stays a subscribed, open member of type t *)
Definition Ja (s : sub) (t : typ) (st : mstate) : Prop := member s t st /\ sstat st s = UCreated.

Lemma Ja_step : forall s t st l st', mreachable st -> Ja s t st -> keeps s t l -> mstep st l = Some st' -> Ja s t st'.
Proof.
  intros s t st l st' R [Mb Sc] (K1 & K2 & K3 & K4) H. destruct (mreachable_inv _ R) as [I _].
  split; [eapply member_step; eauto|].
  minv H; unfold publish, set_sstat, set_ppc, set_subm, set_flags, set_mpanic; simpl; auto.
  all: unfold mupd; destruct (Nat.eqb s s0) eqn:E; mbools; subst; auto; congruence.
Qed.

Definition Jb (s : sub) (t : typ) (p : post) (st : mstate) : Prop :=
  Ja s t st /\ ptyp st p = t /\ created st s <= ptime st p /\
  match ppcs st p with PCalled => True | PIter _ _ _ | PDone => In s (snap st p) | _ => False end.

Lemma Jb_step : forall s t p st l st', mreachable st -> Jb s t p st -> keeps s t l -> mstep st l = Some st' -> Jb s t p st'.
Proof.
  intros s t p st l st' R (A & B & C & D) K H. split; [eapply Ja_step; eauto|].
  destruct A as [Mb Sc].
  minv H; unfold publish, set_sstat, set_ppc, set_subm, set_flags, set_mpanic; simpl; auto.
  all: try match goal with M : cur _ _ = Some _ |- _ => destruct (cur_some _ _ _ _ _ _ M) as (Cp & Ci & Cn) end.
  - (* SubNew *) repeat split; auto. unfold mupd. destruct (Nat.eqb s s0) eqn:E; mbools; subst; [congruence|auto].
  - (* PostCall *) unfold mupd. destruct (Nat.eqb p p0) eqn:E; mbools; subst; [rewrite M in D; destruct D|auto].
  - (* PostStopped *) unfold mupd. destruct (Nat.eqb p p0) eqn:E; mbools; subst; auto.
    exfalso. destruct (mreachable_inv _ R) as [I _]. unfold member in Mb. rewrite (m_stopped _ I H (ptyp st p0)) in Mb. destruct Mb.
  - (* PostSnap *) unfold mupd. destruct (Nat.eqb p p0) eqn:E; mbools; subst; auto.
  - unfold mupd. destruct (Nat.eqb p p0) eqn:E; mbools; subst; auto. rewrite Cp in D. auto.
  - unfold mupd. destruct (Nat.eqb p p0) eqn:E; mbools; subst; auto. rewrite Cp in D. auto.
  - unfold mupd. destruct (Nat.eqb p p0) eqn:E; mbools; subst; auto. rewrite Cp in D. auto.
  - (* PostRet *) unfold mupd. destruct (Nat.eqb p p0) eqn:E; mbools; subst; auto. rewrite M in D. auto.
Qed.

(* after the Post returned its deliveries never change *)
Definition Km (p : post) (s : sub) (n : nat) (st : mstate) : Prop := ppcs st p = PDone /\ mcount p s (mlog st) = n.
Lemma Km_step : forall p s n st l st', Km p s n st -> mstep st l = Some st' -> Km p s n st'.
Proof.
  intros p s n st l st' [P C] H. unfold Km.
  minv H; unfold publish, set_sstat, set_ppc, set_subm, set_flags, set_mpanic; simpl; auto.
  all: try match goal with M : cur _ _ = Some _ |- _ => destruct (cur_some _ _ _ _ _ _ M) as (Cp & Ci & Cn) end.
  all: unfold mupd; destruct (Nat.eqb p p0) eqn:E; mbools; subst; try congruence; auto.
  split; auto. destruct (Nat.eqb p0 p) eqn:E2; mbools; subst; [congruence|auto].
Qed.

Lemma run_nopanic : forall st l tr st', mrun st (l :: tr) = Some st' -> mpanic st = false.
Proof. intros st l tr st' H. simpl in H. unfold mstep in H. destruct (mpanic st); [discriminate|auto]. Qed.

Lemma subadd_member : forall m1 s t m2, MI m1 -> mstep m1 (MSubAdd s t) = Some m2 -> mpanic m2 = false -> Ja s t m2.
Proof.
  intros m1 s t m2 I1 E2 Np. unfold mstep in E2. destruct (mpanic m1) eqn:Pn; [discriminate|].
  destruct (sst_eqb (sstat m1 s) UCreated && negb (stopped m1) && negb (wlock m1)) eqn:G; [|discriminate].
  destruct (mfind s (slice_of m1 (subm m1 t))) eqn:F; inversion E2; subst.
  - simpl in Np. discriminate.
  - split.
    + unfold member. rewrite slice_publish by auto. rewrite Nat.eqb_refl. apply in_or_app. right. left. auto.
    + simpl. mbools. auto.
Qed.

(* exactly once, on paths: a subscription added to type t before Post p (of type t) was called, and neither
   deleted / closed by Unsubscribe nor by Stop before the Post returned, received the event exactly once *)
Theorem mux_exactly_once_path : forall t1 s t t2 p t3 t4 st,
  mrun minit (t1 ++ MSubAdd s t :: t2 ++ MPostCall p t :: t3 ++ MPostRet p :: t4) = Some st ->
  (forall l, In l (t2 ++ t3) -> keeps s t l) ->
  mcount p s (mlog st) = 1.
Proof.
  intros t1 s t t2 p t3 t4 st R NK.
  apply mrun_app in R. destruct R as (m1 & R1 & R). simpl in R.
  destruct (mstep m1 (MSubAdd s t)) as [m2|] eqn:E2; [|discriminate].
  assert (Np2 : mpanic m2 = false).
  { destruct t2; simpl in R; eapply run_nopanic; eauto. }
  apply mrun_app in R. destruct R as (m3 & R3 & R). simpl in R.
  destruct (mstep m3 (MPostCall p t)) as [m4|] eqn:E4; [|discriminate].
  apply mrun_app in R. destruct R as (m5 & R5 & R). simpl in R.
  destruct (mstep m5 (MPostRet p)) as [m6|] eqn:E6; [|discriminate].
  assert (Rm1 : mreachable m1) by (exists t1; auto).
  assert (Rm2 : mreachable m2) by (eapply mreachable_step; eauto).
  destruct (mreachable_inv _ Rm1) as [I1 _].
  pose proof (subadd_member _ _ _ _ I1 E2 Np2) as J2.
  (* up to the call *)
  destruct (mrun_path (Ja s t) (keeps s t) (fun a l b Ra Ja Ok Hs => Ja_step s t a l b Ra Ja Ok Hs) t2 m2 m3 Rm2 J2) as [J3 Rm3]; auto.
  { intros l Hl. apply NK. apply in_or_app. auto. }
  (* the call *)
  assert (J4 : Jb s t p m4).
  { pose proof (mreachable_MT _ Rm3 s) as Tm. destruct J3 as [Mb Sc]. rewrite Sc in Tm. specialize (Tm ltac:(discriminate)).
    clear - E4 Mb Sc Tm. unfold mstep in E4. destruct (mpanic m3); [discriminate|].
    destruct (ppcs m3 p) eqn:P; try discriminate. inversion E4; subst. unfold Jb, Ja, member; simpl.
    unfold mupd. rewrite Nat.eqb_refl. repeat split; auto. lia. }
  assert (Rm4 : mreachable m4) by (eapply mreachable_step; eauto).
  destruct (mrun_path (Jb s t p) (keeps s t) (fun a l b Ra Ja Ok Hs => Jb_step s t p a l b Ra Ja Ok Hs) t3 m4 m5 Rm4 J4) as [J5 Rm5]; auto.
  { intros l Hl. apply NK. apply in_or_app. auto. }
  assert (J6 : Jb s t p m6).
  { eapply Jb_step; eauto. repeat split; discriminate. }
  assert (Rm6 : mreachable m6) by (eapply mreachable_step; eauto).
  assert (P6 : ppcs m6 p = PDone).
  { clear - E6. unfold mstep in E6. destruct (mpanic m5); [discriminate|]. destruct (ppcs m5 p); try discriminate.
    destruct (Nat.leb len i); [|discriminate]. inversion E6; subst; simpl. unfold mupd. rewrite Nat.eqb_refl. auto. }
  destruct J6 as ((Mb6 & Sc6) & Ty6 & Cr6 & Sn6). rewrite P6 in Sn6.
  destruct (mux_exactly_once m6 p s Rm6 P6) as (_ & _ & X). specialize (X Sn6 Sc6 Cr6).
  assert (K7 : Km p s 1 st).
  { eapply (mrun_inv (Km p s 1)); [|split; [exact P6|exact X]|exact R]. intros; eapply Km_step; eauto. }
  apply K7.
Qed.
