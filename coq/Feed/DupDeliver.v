(* Feed/DupDeliver.v — delivery bounds for the Feed LTS with repeated channels. *)
From Coq Require Import List Arith Bool Lia Permutation.
From AQ Require Import Feed.FeedLTS Feed.FeedProofs Feed.DupLTS Feed.DupProofs.
Import ListNotations.

Lemma deliver_cnt : forall (l : list chan) k i c, i < k -> k <= length l -> nth_error l i = Some c -> forall y,
  cnt y (skipn (k - 1) (deactivate l k i)) = (if Nat.eqb c y then 1 else 0) + cnt y (skipn k l) /\
  cnt y (firstn k l) = (if Nat.eqb c y then 1 else 0) + cnt y (firstn (k - 1) (deactivate l k i)).
Proof.
  intros l k i c L1 L2 N y. destruct (deactivate_spec l k i L1 L2) as (x & Nx & S & P & _).
  assert (x = c) by congruence. subst x. rewrite S. rewrite (cnt_perm y _ _ P). simpl. auto.
Qed.

Lemma remove_cnt : forall (l : list chan) c idx, cfind c l = Some idx -> forall y k,
  cnt y (skipn (if Nat.ltb idx k then k - 1 else k) (delete idx l)) <= cnt y (skipn k l) /\
  cnt y (firstn (if Nat.ltb idx k then k - 1 else k) (delete idx l)) <= cnt y (firstn k l).
Proof.
  intros l c idx F y k. destruct (cfind_some _ _ _ F) as (l1 & l2 & -> & _ & <-). rewrite delete_app.
  destruct (Nat.ltb (length l1) k) eqn:C; bools.
  - destruct (delete_low l1 l2 c k) as (P & S); [lia|]. rewrite S, (cnt_perm y _ _ P). simpl. lia.
  - destruct (delete_high l1 l2 c k) as (Fq & P); [lia|]. rewrite Fq, (cnt_perm y _ _ P). simpl. lia.
Qed.

Lemma count_log_cons' : forall s c s0 c0 lg,
  count_log s0 c0 ((s, c) :: lg) = (if Nat.eqb s s0 && Nat.eqb c c0 then 1 else 0) + count_log s0 c0 lg.
Proof. reflexivity. Qed.

Lemma d_other_inactive : forall st s s0, DL st -> holding (s_pc (d_sndr st s)) = true -> s0 <> s ->
  active (s_pc (d_sndr st s0)) = true -> False.
Proof. intros st s s0 L A N B. apply dactive_holding in B. apply L in A. apply L in B. congruence. Qed.
Lemma d_none_inactive : forall st s0, DL st -> d_lock st = None -> active (s_pc (d_sndr st s0)) = true -> False.
Proof. intros st s0 L A B. apply dactive_holding in B. apply L in B. congruence. Qed.

(* facts of the two delivering cases / the deleting cases *)
Ltac dfacts I cx :=
  try match goal with M0 : match _ with 0 => _ | S _ => _ end = Some _ |- _ => destruct (hint_index _ _ _ _ _ M0) as (Hlt & Hnth) end;
  try match goal with
  | Hlt : ?i < s_k (d_sndr ?st ?s), Hnth : nth_error (d_arr ?st) ?i = Some ?c, Mpc : s_pc (d_sndr ?st ?s) = _ |- _ =>
      assert (Hkl : s_k (d_sndr st s) <= length (d_arr st)) by (apply (da_k _ I); rewrite Mpc; reflexivity);
      destruct (deliver_cnt _ _ _ _ Hlt Hkl Hnth cx) as (DC1 & DC2)
  end;
  try match goal with M : cfind ?c (d_arr ?st) = Some ?n, Ms : s_pc (d_sndr ?st ?s) = SSelect |- _ =>
      destruct (remove_cnt _ _ _ M cx (s_k (d_sndr st s))) as (RC1 & RC2) end.

Lemma step_db_lo : forall st l h st', DA st -> DB st -> dstep st l h = Some st' ->
  forall sx cx, active (s_pc (d_sndr st' sx)) = true -> cnt cx (skipn (s_k (d_sndr st' sx)) (d_arr st')) <= count_log sx cx (d_log st').
Proof.
  intros st l h st' I B H sx cx. pose proof (da_L _ I) as L. pose proof (db_lo _ B sx cx) as Z0.
  dinv H; dunf; simpl in *; intros A.
  all: try (subst; dfacts I cx).
  all: updc; simpl in *; try discriminate; auto.
  all: try congruence.
  all: try solve [exfalso; eapply d_other_inactive; eauto; match goal with M : s_pc _ = _ |- _ => rewrite M; reflexivity end].
  all: try solve [exfalso; eapply d_none_inactive; eauto; apply dlock_free_none; auto].
  all: try solve [rewrite skipn_all; simpl; lia].
  all: try match goal with M : s_pc (d_sndr ?st ?s) = _ |- _ => rewrite M in *; simpl in * end.
  all: try solve [apply Z0; auto].
  all: eqbs_all; try congruence.
  all: try solve [specialize (Z0 eq_refl); lia].
Qed.

Lemma step_db_hi : forall st l h st', DA st -> DB st -> dstep st l h = Some st' ->
  forall sx cx, active (s_pc (d_sndr st' sx)) = true ->
    count_log sx cx (d_log st') + cnt cx (firstn (s_k (d_sndr st' sx)) (d_arr st')) <= cnt cx (d_cases0 st' sx).
Proof.
  intros st l h st' I B H sx cx. pose proof (da_L _ I) as L. pose proof (db_hi _ B sx cx) as Z0.
  dinv H; dunf; simpl in *; intros A.
  all: try (subst; dfacts I cx).
  all: updc; simpl in *; try discriminate; auto.
  all: try congruence.
  all: try solve [exfalso; eapply d_other_inactive; eauto; match goal with M : s_pc _ = _ |- _ => rewrite M; reflexivity end].
  all: try solve [exfalso; eapply d_none_inactive; eauto; apply dlock_free_none; auto].
  all: try match goal with M : s_pc (d_sndr ?st ?s) = _ |- _ => rewrite M in *; simpl in * end.
  all: try solve [apply Z0; auto].
  all: eqbs_all; try congruence.
  all: try solve [specialize (Z0 eq_refl); lia].
  all: try solve [rewrite firstn_all; rewrite (db_quiet _ B) by (match goal with M : s_pc _ = _ |- _ => rewrite M; reflexivity end); lia].
Qed.

Lemma step_db_quiet : forall st l h st', DB st -> dstep st l h = Some st' ->
  forall sx cx, dquiet (s_pc (d_sndr st' sx)) = true -> count_log sx cx (d_log st') = 0.
Proof.
  intros st l h st' B H sx cx. pose proof (db_quiet _ B sx cx) as Q0.
  dinv H; dunf; simpl in *; intros Q.
  all: updc; simpl in *; try discriminate; auto.
  all: try match goal with M : s_pc (d_sndr ?st ?s) = _ |- _ => rewrite M in *; simpl in * end; auto.
  all: eqbs_all; try congruence; auto.
Qed.

Lemma step_db_done : forall st l h st', DB st -> dstep st l h = Some st' ->
  forall sx cx, (s_pc (d_sndr st' sx) = SUnlocked \/ s_pc (d_sndr st' sx) = SDone) -> count_log sx cx (d_log st') <= cnt cx (d_cases0 st' sx).
Proof.
  intros st l h st' B H sx cx. pose proof (db_done _ B sx cx) as Q0. pose proof (db_hi _ B sx cx) as Hi.
  dinv H; dunf; simpl in *; intros Q.
  all: updc; simpl in *; auto.
  all: try solve [destruct Q; discriminate].
  all: try match goal with M : s_pc (d_sndr ?st ?s) = _ |- _ => rewrite M in *; simpl in * end; auto.
  all: try solve [destruct Q; discriminate].
  all: eqbs_all; try congruence; auto.
  specialize (Hi eq_refl). lia.
Qed.

Lemma DB_step : forall st l h st', DA st -> DB st -> dstep st l h = Some st' -> DB st'.
Proof.
  intros st l h st' I B H. constructor.
  - eapply step_db_lo; eauto.
  - eapply step_db_hi; eauto.
  - eapply step_db_quiet; eauto.
  - eapply step_db_done; eauto.
Qed.

Lemma dreachable_DAB : forall st, dreachable st -> DA st /\ DB st.
Proof.
  intros st [tr R]. eapply (drun_inv (fun st => DA st /\ DB st)); [|split; [apply DA_init|apply DB_init]|exact R].
  intros a l h b [I B] H. split; [eapply DA_step|eapply DB_step]; eauto.
Qed.

(* upper bound: a Send never delivers to a channel more copies than the channel had cases in sendCases
   when the Send merged the inbox (= subscriptions made before and not removed by then) *)
Theorem dup_copies_upper : forall st s c, dreachable st ->
  (active (s_pc (d_sndr st s)) = true \/ s_pc (d_sndr st s) = SUnlocked \/ s_pc (d_sndr st s) = SDone) ->
  count_log s c (d_log st) <= cnt c (d_cases0 st s).
Proof.
  intros st s c R H. destruct (dreachable_DAB _ R) as [_ B]. destruct H as [H|H].
  - pose proof (db_hi _ B s c H). lia.
  - apply (db_done _ B); auto.
Qed.

(* the multiset form of sendcases_consistent *)
Theorem dup_sendcases_consistent : forall st, dreachable st ->
  d_panicked st = false /\
  (forall c, cnt c (d_inbox st ++ d_arr st) + gone st c = d_nsub st c) /\
  (forall c, r_total (d_rem st c) + locked_by st c <= d_nsub st c) /\
  (forall c, r_sel (d_rem st c) <= cnt c (d_arr st)) /\
  (forall s c, active (s_pc (d_sndr st s)) = true ->
     s_k (d_sndr st s) <= length (d_arr st) /\
     cnt c (skipn (s_k (d_sndr st s)) (d_arr st)) <= count_log s c (d_log st) /\
     count_log s c (d_log st) + cnt c (firstn (s_k (d_sndr st s)) (d_arr st)) <= cnt c (d_cases0 st s)).
Proof.
  intros st R. destruct (dreachable_DAB _ R) as [I B].
  split; [apply (da_np _ I)|]. split; [apply (da_cnt _ I)|]. split; [apply (da_tot _ I)|]. split; [apply (da_sel _ I)|].
  intros s c A. split; [apply (da_k _ I); auto|]. split; [apply (db_lo _ B); auto | apply (db_hi _ B); auto].
Qed.


(* ---------------------------------------------------------------- lower bound (potential argument) *)
Lemma remove_cnt_exact : forall (l : list chan) y idx, cfind y l = Some idx -> forall c k,
  cnt c (firstn (if Nat.ltb idx k then k - 1 else k) (delete idx l)) + (if Nat.ltb idx k then (if Nat.eqb y c then 1 else 0) else 0)
  = cnt c (firstn k l).
Proof.
  intros l y idx F c k. destruct (cfind_some _ _ _ F) as (l1 & l2 & -> & _ & <-). rewrite delete_app.
  destruct (Nat.ltb (length l1) k) eqn:C; bools.
  - destruct (delete_low l1 l2 y k) as (P & _); [lia|]. rewrite (cnt_perm c _ _ P). simpl. lia.
  - destruct (delete_high l1 l2 y k) as (Fq & _); [lia|]. rewrite Fq. lia.
Qed.

Definition inflight (st : dstate) (c : chan) : nat := r_called (d_rem st c) + r_sel (d_rem st c).

(* the copies of c this Send has delivered or can still deliver *)
Definition phi (s : sid) (c : chan) (st : dstate) : nat :=
  match s_pc (d_sndr st s) with
  | SCalled | SLocked => cnt c (d_inbox st ++ d_arr st)
  | STry _ | SSelect => cnt c (firstn (s_k (d_sndr st s)) (d_arr st)) + count_log s c (d_log st)
  | SUnlocked | SDone => count_log s c (d_log st)
  | SNew | SPanicked => 0
  end.

Definition pcok (s : sid) (st : dstate) : Prop := s_pc (d_sndr st s) <> SNew /\ s_pc (d_sndr st s) <> SPanicked.
Definition is_call (c : chan) (l : label) : nat := match l with LUnsubCall c' => if Nat.eqb c' c then 1 else 0 | _ => 0 end.

Lemma phi_step : forall s c st l h st', DA st -> DB st -> pcok s st -> l <> LSendBadType s ->
  dstep st l h = Some st' ->
  phi s c st + inflight st' c <= phi s c st' + inflight st c + is_call c l /\ pcok s st'.
Proof.
  intros s c st l h st' I B [P1 P2] NB H. pose proof (da_L _ I) as L. unfold pcok, phi, inflight, is_call.
  dinv H; dunf; simpl in *.
  all: try (subst; dfacts I c).
  all: try match goal with M : cfind ?y (d_arr ?st) = Some ?n |- _ => pose proof (remove_cnt_exact _ _ _ M c (s_k (d_sndr st s))) as RE; destruct (cnt_delete _ _ _ M) as (CD1 & CD2); pose proof (CD2 c) as CD3 end.
  all: try match goal with M : cfind ?y (d_inbox ?st) = Some ?n |- _ => destruct (cnt_delete _ _ _ M) as (CD1 & CD2); pose proof (CD2 c) as CD3 end.
  all: try match goal with Hlt : ?i < s_k (d_sndr ?st ?s0), Hkl : s_k (d_sndr ?st ?s0) <= length (d_arr ?st) |- _ =>
        pose proof (cnt_perm c _ _ (deactivate_perm _ _ _ Hlt Hkl)) as DP end.
  all: repeat match goal with M : dlock_free _ = true |- _ => apply dlock_free_none in M end.
  all: updc; simpl in *; try congruence.
  all: try match goal with M : s_pc (d_sndr ?st ?s) = _ |- _ => rewrite M in *; simpl in * end.
  all: try solve [split; [|split; congruence]; rewrite ?cnt_app in *; simpl in *; eqbs_all; try lia].
  all: try match goal with |- context [match s_pc (d_sndr ?st0 ?x) with _ => _ end] => destruct (s_pc (d_sndr st0 x)) eqn:Ps; simpl in *; try congruence end.
  all: try solve [exfalso; match goal with Ps : s_pc (d_sndr ?st0 ?x) = _, M : s_pc (d_sndr ?st0 ?y) = _ |- _ =>
        tryif constr_eq x y then fail else (eapply (d_other_inactive st0 y x); eauto; [rewrite M; reflexivity | rewrite Ps; reflexivity]) end].
  all: try solve [exfalso; match goal with Ps : s_pc (d_sndr ?st0 ?x) = _ |- _ => eapply (d_none_inactive st0 x); eauto; rewrite Ps; reflexivity end].
  all: try solve [split; [|split; congruence]; rewrite ?cnt_app in *; simpl in *; eqbs_all; try lia].
  - rewrite firstn_all, !cnt_app. repeat split; try congruence; lia.
  - split; [|split; congruence]. destruct (n <? s_k (d_sndr st s0)) eqn:E; eqbs_all; try lia; try congruence.
  - split; [|split; congruence]. destruct (n <? s_k (d_sndr st s0)) eqn:E; eqbs_all; try lia; try congruence.
  - split; [|split; congruence]. match goal with E : s_k _ = 0 |- _ => rewrite E end. simpl. lia.
Qed.


