(* Feed/FeedOrder.v — all channels see sends in sendLock acquisition order (rank invariant). *)
From Coq Require Import List Arith Bool Lia Permutation.
From AQ Require Import Feed.FeedLTS Feed.FeedProofs Feed.FeedInvA Feed.FeedInvB.
Import ListNotations.

Record InvC (st : state) : Prop := {
  c_le : forall s, rank st s <= nlock st;
  c_holder : forall s, holding (s_pc (sndr st s)) = true -> rank st s = nlock st;
  c_npos : forall s, holding (s_pc (sndr st s)) = true -> 0 < nlock st;
  c_inj : forall s1 s2, 0 < rank st s1 -> rank st s1 = rank st s2 -> s1 = s2;
  c_pos : forall s c, In (s, c) (log st) -> 0 < rank st s;
  c_sorted : forall l1 x l2 y l3, log st = l1 ++ x :: l2 ++ y :: l3 -> rank st (fst y) <= rank st (fst x)
}.

Lemma InvC_init : InvC init.
Proof.
  constructor; simpl; intros; auto; try discriminate; try lia; try tauto.
Qed.

Lemma count_log_in : forall s c lg, In (s, c) lg -> 0 < count_log s c lg.
Proof.
  induction lg as [|[a b] t IH]; simpl; intros H; [tauto|]. destruct H as [H|H].
  - inversion H; subst. rewrite !Nat.eqb_refl. simpl. lia.
  - apply IH in H. lia.
Qed.

Lemma step_c_le : forall st l st', InvC st -> step st l = Some st' -> forall sx, rank st' sx <= nlock st'.
Proof.
  intros st l st' C H. inv_step H; unfold deliver; intros sx; pose proof (c_le _ C sx); simpl; updc; auto.
Qed.

Lemma step_c_holder : forall st l st', InvA st -> InvC st -> step st l = Some st' ->
  forall sx, holding (s_pc (sndr st' sx)) = true -> rank st' sx = nlock st'.
Proof.
  intros st l st' I C H. pose proof (a_L _ I) as [Ls _].
  inv_step H; unfold deliver; intros sx A; pose proof (c_holder _ C sx) as Hx; simpl in *; updc; simpl in *; try discriminate; auto.
  all: try match goal with s : sid |- _ => tryif constr_eq s sx then fail else pose proof (c_holder _ C s) as Hs end.
  all: try match goal with M : s_pc (sndr ?st ?s) = _ |- _ => rewrite M in *; simpl in * end; auto.
  all: try congruence.
  all: try solve [apply Ls in A; congruence].
Qed.

Lemma step_c_inj : forall st l st', InvC st -> step st l = Some st' ->
  forall s1 s2, 0 < rank st' s1 -> rank st' s1 = rank st' s2 -> s1 = s2.
Proof.
  intros st l st' C H. inv_step H; unfold deliver; intros s1 s2; pose proof (c_inj _ C s1 s2) as X; simpl; auto.
  pose proof (c_le _ C s1). pose proof (c_le _ C s2). updc; simpl; intros; auto; try lia.
Qed.

Lemma step_c_pos : forall st l st', InvA st -> InvB st -> InvC st -> step st l = Some st' ->
  forall sx cx, In (sx, cx) (log st') -> 0 < rank st' sx.
Proof.
  intros st l st' I B C H. pose proof (a_L _ I) as [Ls _].
  inv_step H; unfold deliver; intros sx cx A; pose proof (c_pos _ C sx cx) as X; simpl in *; auto.
  all: try match goal with s : sid |- _ => tryif constr_eq s sx then fail else pose proof (c_holder _ C s) as Hs; pose proof (c_le _ C s) end.
  all: try solve [updc; auto; lia].
  all: deliver_facts I.
  all: destruct A as [A|A]; auto; inversion A; subst.
  all: rewrite Hs by (rewrite M; reflexivity); apply (c_npos _ C sx); rewrite M; reflexivity.
Qed.

Lemma step_c_npos : forall st l st', InvC st -> step st l = Some st' ->
  forall sx, holding (s_pc (sndr st' sx)) = true -> 0 < nlock st'.
Proof.
  intros st l st' C H. inv_step H; unfold deliver; intros sx A; pose proof (c_npos _ C sx) as X; simpl in *; try lia.
  all: updc; simpl in *; try discriminate; auto.
  all: try match goal with M : s_pc (sndr ?st ?s) = _ |- _ => rewrite M in *; simpl in * end; auto.
Qed.

Lemma step_c_sorted : forall st l st', InvA st -> InvB st -> InvC st -> step st l = Some st' ->
  forall l1 x l2 y l3, log st' = l1 ++ x :: l2 ++ y :: l3 -> rank st' (fst y) <= rank st' (fst x).
Proof.
  intros st l st' I B C H.
  inv_step H; unfold deliver; intros l1 x l2 y l3 E; pose proof (c_sorted _ C l1 x l2 y l3) as X; simpl in *; auto.
  - (* SendLock: the entries of the log do not belong to s *)
    specialize (X E).
    assert (Q : forall a b, In (a, b) (log st) -> a <> s).
    { intros a b Hin ->. apply count_log_in in Hin. rewrite (b_quiet _ B s b) in Hin; [lia|]. match goal with P : s_pc _ = SCalled |- _ => rewrite P end. reflexivity. }
    destruct x as [xa xb], y as [ya yb]. simpl in *.
    assert (xa <> s) by (apply (Q xa xb); rewrite E; apply in_or_app; right; left; auto).
    assert (ya <> s) by (apply (Q ya yb); rewrite E; apply in_or_app; right; right; apply in_or_app; right; left; auto).
    rewrite !upd_other by auto. exact X.
  - deliver_facts I. destruct l1 as [|e l1]; simpl in E; inversion E; subst; try solve [eapply (c_sorted _ C); eassumption].
    simpl. rewrite (c_holder _ C s) by (rewrite M; reflexivity). apply (c_le _ C).
  - deliver_facts I. destruct l1 as [|e l1]; simpl in E; inversion E; subst; try solve [eapply (c_sorted _ C); eassumption].
    simpl. rewrite (c_holder _ C s) by (rewrite M; reflexivity). apply (c_le _ C).
Qed.




Lemma InvC_step : forall st l st', InvA st -> InvB st -> InvC st -> step st l = Some st' -> InvC st'.
Proof.
  intros st l st' I B C H. constructor.
  - eapply step_c_le; eauto.
  - eapply step_c_holder; eauto.
  - eapply step_c_npos; eauto.
  - eapply step_c_inj; eauto.
  - eapply step_c_pos; eauto.
  - eapply step_c_sorted; eauto.
Qed.

Lemma reachable_InvC : forall st, reachable st -> InvC st.
Proof.
  intros st [tr R].
  assert (X : InvA st /\ InvB st /\ InvC st).
  { eapply (run_inv (fun st => InvA st /\ InvB st /\ InvC st)); [| |exact R].
    - intros a l b (I & B & C) H. split; [|split]; [eapply InvA_step|eapply InvB_step|eapply InvC_step]; eauto.
    - split; [|split]; [apply InvA_init|apply InvB_init|apply InvC_init]. }
  apply X.
Qed.

Lemma count_log_app : forall s c a b, count_log s c (a ++ b) = count_log s c a + count_log s c b.
Proof. induction a as [|[x y] a IH]; simpl; intros; auto. rewrite IH. lia. Qed.

(* common_order: if channel c received a before b, then Send a took the sendLock before Send b
   (rank = index of the sendLock acquisition) *)
Theorem common_order_rank : forall st a b c l1 l2 l3, reachable st ->
  log st = l1 ++ (b, c) :: l2 ++ (a, c) :: l3 -> rank st a < rank st b.
Proof.
  intros st a b c l1 l2 l3 R E. pose proof (reachable_InvC _ R) as C. destruct (reachable_InvAB _ R) as [_ B].
  pose proof (c_sorted _ C _ _ _ _ _ E) as S. simpl in S.
  assert (N : a <> b).
  { intros ->. pose proof (b_le1 _ B b c) as L. rewrite E in L.
    rewrite count_log_app in L. simpl in L. rewrite count_log_app in L. simpl in L.
    rewrite !Nat.eqb_refl in L. simpl in L. lia. }
  assert (P : 0 < rank st a).
  { apply (c_pos _ C a c). rewrite E. apply in_or_app. right. right. apply in_or_app. right. left. auto. }
  destruct (Nat.eq_dec (rank st a) (rank st b)) as [Q|Q]; [|lia].
  exfalso. apply N. apply (c_inj _ C); auto.
Qed.

(* ... hence no two channels see two sends in different orders *)
Theorem common_order : forall st a b c1 c2 l1 l2 l3 m1 m2 m3, reachable st ->
  log st = l1 ++ (b, c1) :: l2 ++ (a, c1) :: l3 ->
  log st = m1 ++ (a, c2) :: m2 ++ (b, c2) :: m3 -> False.
Proof.
  intros st a b c1 c2 l1 l2 l3 m1 m2 m3 R E1 E2.
  pose proof (common_order_rank _ _ _ _ _ _ _ R E1). pose proof (common_order_rank _ _ _ _ _ _ _ R E2). lia.
Qed.
