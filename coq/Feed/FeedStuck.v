(* Feed/FeedStuck.v — deadlock freedom under receiver fairness: no stuck state. *)
From Coq Require Import List Arith Bool Lia Permutation.
From AQ Require Import Feed.FeedLTS Feed.FeedProofs Feed.FeedInvA.
Import ListNotations.

(* some call (Send or Unsubscribe) is under way *)
Definition busy (st : state) : Prop :=
  (exists s, match s_pc (sndr st s) with SCalled | SLocked | STry _ | SSelect | SUnlocked => True | _ => False end) \/
  (exists c, match rem st c with RCalled | RSelecting | RLocked | RHanded | RDone => True | _ => False end).

Lemma holder_progress : forall st s, InvA st -> lock st = Some (OSend s) ->
  (forall c, In c (arr st) -> can_accept (chs st c) = true) ->
  exists l, internal l = true /\ enabled st l = true.
Proof.
  intros st s I Lk CA. pose proof (a_nopanic _ I) as Hnp. destruct (a_L _ I) as [Ls _].
  pose proof (proj2 (Ls s) Lk) as Hh.
  destruct (s_pc (sndr st s)) as [| | |i| | | |] eqn:P; simpl in Hh; try discriminate.
  - exists (LSendMerge s). split; auto. unfold enabled, step. rewrite Hnp, P. reflexivity.
  - assert (K : s_k (sndr st s) <= length (arr st)) by (apply (a_k _ I); rewrite P; reflexivity).
    destruct (i <? s_k (sndr st s)) eqn:E; bools.
    + destruct (nth_error (arr st) i) as [c'|] eqn:N; [|apply nth_error_None in N; lia].
      exists (LTryFail s c'). split; auto. unfold enabled, step. rewrite Hnp, P.
      rewrite (proj2 (Nat.ltb_lt _ _) E), N, Nat.eqb_refl. reflexivity.
    + destruct (s_k (sndr st s) =? 0) eqn:Z; bools.
      * exists (LSendUnlock s). split; auto. unfold enabled, step. rewrite Hnp, P.
        rewrite (proj2 (Nat.leb_le _ _) E), Z. reflexivity.
      * exists (LSelectEnter s). split; auto. unfold enabled, step. rewrite Hnp, P.
        rewrite (proj2 (Nat.leb_le _ _) E). assert (Q : 0 <? s_k (sndr st s) = true) by (apply Nat.ltb_lt; lia).
        rewrite Q. reflexivity.
  - assert (K : s_k (sndr st s) <= length (arr st)) by (apply (a_k _ I); rewrite P; reflexivity).
    pose proof (a_selk _ I s P) as K0.
    destruct (firstn (s_k (sndr st s)) (arr st)) as [|c' r] eqn:F.
    + apply (f_equal (@length chan)) in F. rewrite firstn_length in F. simpl in F. lia.
    + assert (Cin : In c' (arr st)).
      { rewrite <- (firstn_skipn (s_k (sndr st s)) (arr st)), F. left; auto. }
      exists (LSelSent s c'). split; auto. unfold enabled, step. rewrite Hnp, P, F. simpl.
      rewrite Nat.eqb_refl. rewrite (CA _ Cin). reflexivity.
Qed.

Theorem no_stuck_state : forall st, reachable st -> busy st ->
  (forall c, In c (arr st) -> can_accept (chs st c) = true) ->
  exists l, internal l = true /\ enabled st l = true.
Proof.
  intros st R Bz CA. pose proof (reachable_InvA _ R) as I. pose proof (a_nopanic _ I) as Hnp.
  destruct (a_L _ I) as [Ls Lr].
  destruct (lock st) as [[s|c]|] eqn:Lk.
  - eapply holder_progress; eauto.
  - pose proof (proj2 (Lr c) eq_refl) as Rc.
    exists (LRemoveUnlock c). split; auto. unfold enabled, step. rewrite Hnp, Rc. reflexivity.
  - destruct Bz as [[s Bs]|[c Bc]].
    + destruct (s_pc (sndr st s)) as [| | |i| | | |] eqn:P; try tauto.
      * exists (LSendLock s). split; auto. unfold enabled, step, lock_free. rewrite Hnp, P, Lk. reflexivity.
      * exfalso. assert (X : @None owner = Some (OSend s)) by (apply Ls; rewrite P; reflexivity). discriminate.
      * exfalso. assert (X : @None owner = Some (OSend s)) by (apply Ls; rewrite P; reflexivity). discriminate.
      * exfalso. assert (X : @None owner = Some (OSend s)) by (apply Ls; rewrite P; reflexivity). discriminate.
      * exists (LSendRet s (s_nsent (sndr st s))). split; auto. unfold enabled, step. rewrite Hnp, P, Nat.eqb_refl. reflexivity.
    + destruct (rem st c) eqn:P; try tauto.
      * destruct (cfind c (inbox st)) eqn:F.
        -- exists (LRemoveInbox c). split; auto. unfold enabled, step. rewrite Hnp, P, F. reflexivity.
        -- exists (LRemoveNotInbox c). split; auto. unfold enabled, step. rewrite Hnp, P, F. reflexivity.
      * exists (LRemoveLock c). split; auto. unfold enabled, step, lock_free. rewrite Hnp, P, Lk. simpl.
        destruct (cfind c (arr st)); reflexivity.
      * exfalso. assert (X : @None owner = Some (ORem c)) by (apply Lr; auto). discriminate.
      * exists (LRemoveHandoff c). split; auto. unfold enabled, step. rewrite Hnp, P. reflexivity.
      * exists (LUnsubRet c). split; auto. unfold enabled, step. rewrite Hnp, P. reflexivity.
Qed.
