(* Feed/MuxExact.v — a Post delivers exactly once to each member of its snapshot that is not
   unsubscribed (closing) meanwhile, at most once to the others, and to nobody else. *)
From Coq Require Import List Arith Bool Lia.
From AQ Require Import Feed.FeedLTS Feed.FeedProofs Feed.MuxLTS Feed.MuxProofs.
Import ListNotations.

Definition live_for (st : mstate) (p : post) (s : sub) : Prop := sstat st s = UCreated /\ created st s <= ptime st p.

Definition MLp (st : mstate) (p : post) (s : sub) : Prop :=
  mcount p s (mlog st) <= 1 /\
  match ppcs st p with
  | PNew | PCalled | PErr => mcount p s (mlog st) = 0
  | PIter a len i => (mcount p s (mlog st) = 1 -> In s (firstn i (snap st p))) /\
                     (In s (firstn i (snap st p)) -> live_for st p s -> mcount p s (mlog st) = 1)
  | PDone => (mcount p s (mlog st) = 1 -> In s (snap st p)) /\
             (In s (snap st p) -> live_for st p s -> mcount p s (mlog st) = 1)
  end.
Definition ML (st : mstate) : Prop := forall p s, MLp st p s.

Lemma ML_init : ML minit.
Proof. intros p s. unfold MLp. simpl. auto. Qed.

(* a status change of s away from UCreated, or the creation of s, cannot turn a non-obligation into an obligation *)
Lemma MLp_weaken : forall st st' p s,
  mlog st' = mlog st -> ppcs st' p = ppcs st p -> snap st' p = snap st p ->
  (live_for st' p s -> In s (snap st p) -> live_for st p s) ->
  MLp st p s -> MLp st' p s.
Proof.
  intros st st' p s El Ep Es W [A B]. unfold MLp. rewrite El, Ep, Es. split; auto.
  destruct (ppcs st p); auto; destruct B as [B1 B2]; split; auto; intros Hin Hl; apply B2; auto; apply W; auto.
  eapply In_firstn_in; eauto.
Qed.

Lemma firstn_ge_all : forall (l : list sub) n i, length l <= n -> n <= i -> firstn i l = l.
Proof. intros. apply firstn_all2. lia. Qed.

Ltac other_post Hne Lx :=
  eapply MLp_weaken; [ | | | | exact Lx]; simpl; auto; unfold live_for; simpl; unfold mupd; rewrite ?Hne; auto.

Lemma ML_step : forall st l st', MI st -> ML st -> mstep st l = Some st' -> ML st'.
Proof.
  intros st l st' I L H px sx. pose proof (L px sx) as Lx.
  minv H; unfold publish, set_sstat, set_ppc, set_subm, set_flags, set_mpanic.
  - (* SubNew *) apply (MLp_weaken st); auto. unfold live_for; simpl. intros [Hs Hc] Hin.
    unfold mupd in *. destruct (Nat.eqb sx s) eqn:E; mbools; [|split; auto].
    subst. exfalso. apply (m_snap _ I _ _ Hin). auto.
  - (* SubStopped *) apply (MLp_weaken st); auto. unfold live_for; simpl. intros [Hs Hc] Hin.
    unfold mupd in *. destruct (Nat.eqb sx s) eqn:E; [discriminate|split; auto].
  - (* SubAdd, duplicate: panic *) apply (MLp_weaken st); auto.
  - (* SubAdd *) apply (MLp_weaken st); auto.
  - (* PostCall *) destruct (Nat.eqb px p) eqn:E; [|other_post E Lx]. mbools; subst.
    destruct Lx as [A B]. rewrite M in B. unfold MLp; simpl. unfold mupd. rewrite Nat.eqb_refl. auto.
  - (* PostStopped *) destruct (Nat.eqb px p) eqn:E; [|other_post E Lx]. mbools; subst.
    destruct Lx as [A B]. rewrite M in B. unfold MLp; simpl. unfold mupd. rewrite Nat.eqb_refl. auto.
  - (* PostSnap *) destruct (Nat.eqb px p) eqn:E; [|other_post E Lx]. mbools; subst.
    destruct Lx as [A B]. rewrite M in B. unfold MLp; simpl. unfold mupd. rewrite Nat.eqb_refl. simpl.
    split; auto. split; [intros; lia | intros []].
  - (* DeliverSent *)
    destruct (cur_some _ _ _ _ _ _ M) as (Cp & Ci & Cn). subst s0.
    destruct (Nat.eqb px p) eqn:E.
    2:{ unfold MLp in *. simpl. rewrite Nat.eqb_sym, E. simpl. unfold mupd. rewrite E. exact Lx. }
    mbools; subst px. destruct (m_iter _ I _ _ _ _ Cp) as (_ & Fs & ND & _).
    assert (Ns : nth_error (snap st p) n = Some s) by (rewrite <- Fs, nth_error_firstn_lt; auto).
    pose proof (nodup_nth_not_in_firstn _ _ _ ND Ns) as Nin.
    destruct Lx as [A B]. rewrite Cp in B. destruct B as [B1 B2].
    unfold MLp. cbn -[firstn]. unfold mupd. rewrite !Nat.eqb_refl. cbn -[firstn]. rewrite (firstn_S_nth _ _ _ Ns).
    destruct (Nat.eqb s sx) eqn:Es; mbools.
    + subst sx. assert (Z : mcount p s (mlog st) = 0) by (destruct (mcount p s (mlog st)) as [|[|k]]; auto; [exfalso; auto | lia]).
      rewrite Z. simpl. repeat split; auto. intros _. apply in_or_app. right. left. auto.
    + simpl. repeat split; auto.
      * intros X. apply in_or_app. left. auto.
      * intros X Lv. apply B2; auto. apply in_app_or in X. destruct X as [X|[X|[]]]; auto. congruence.
  - (* DeliverClosed *)
    destruct (cur_some _ _ _ _ _ _ M) as (Cp & Ci & Cn). subst s0.
    destruct (Nat.eqb px p) eqn:E; [|other_post E Lx]. mbools; subst px.
    destruct (m_iter _ I _ _ _ _ Cp) as (_ & Fs & ND & _).
    assert (Ns : nth_error (snap st p) n = Some s) by (rewrite <- Fs, nth_error_firstn_lt; auto).
    destruct Lx as [A B]. rewrite Cp in B. destruct B as [B1 B2].
    unfold MLp. cbn -[firstn]. unfold mupd. rewrite !Nat.eqb_refl. cbn -[firstn]. rewrite (firstn_S_nth _ _ _ Ns).
    repeat split; auto.
    + intros X. apply in_or_app. left. auto.
    + intros X Lv. apply in_app_or in X. destruct X as [X|[X|[]]]; [apply B2; auto|].
      subst sx. destruct Lv as [Lv _]. simpl in Lv.
      match goal with Q : _ \/ _ |- _ => destruct Q as [Q|Q]; apply sst_eqb_eq in Q; congruence end.
  - (* DeliverStale *)
    destruct (cur_some _ _ _ _ _ _ M) as (Cp & Ci & Cn). subst s0.
    destruct (Nat.eqb px p) eqn:E; [|other_post E Lx]. mbools; subst px.
    destruct (m_iter _ I _ _ _ _ Cp) as (_ & Fs & ND & _).
    assert (Ns : nth_error (snap st p) n = Some s) by (rewrite <- Fs, nth_error_firstn_lt; auto).
    destruct Lx as [A B]. rewrite Cp in B. destruct B as [B1 B2].
    unfold MLp. cbn -[firstn]. unfold mupd. rewrite !Nat.eqb_refl. cbn -[firstn]. rewrite (firstn_S_nth _ _ _ Ns).
    repeat split; auto.
    + intros X. apply in_or_app. left. auto.
    + intros X Lv. apply in_app_or in X. destruct X as [X|[X|[]]]; [apply B2; auto|].
      subst sx. destruct Lv as [_ Lv]. simpl in Lv. lia.
  - (* PostRet *)
    destruct (Nat.eqb px p) eqn:E; [|other_post E Lx]. mbools; subst px.
    destruct (m_iter _ I _ _ _ _ M) as (_ & Fs & ND & Le).
    destruct Lx as [A B]. rewrite M in B.
    assert (Fa : firstn i (snap st p) = snap st p).
    { apply firstn_all2. rewrite <- Fs, firstn_length. lia. }
    rewrite Fa in B. unfold MLp. simpl. unfold mupd. rewrite Nat.eqb_refl. split; auto.
  - (* Del, last *) eapply MLp_weaken; [ | | | | exact Lx]; auto.
  - (* Del *) eapply MLp_weaken; [ | | | | exact Lx]; auto.
  - (* Closing *) eapply MLp_weaken; [ | | | | exact Lx]; auto. unfold live_for; simpl. intros [Hs Hc] Hin.
    unfold mupd in *. destruct (Nat.eqb sx s) eqn:E; [discriminate|split; auto].
  - (* PostcClose *) eapply MLp_weaken; [ | | | | exact Lx]; auto. unfold live_for; simpl. intros [Hs Hc] Hin.
    unfold mupd in *. destruct (Nat.eqb sx s) eqn:E; [discriminate|split; auto].
  - (* StopBegin *) eapply MLp_weaken; [ | | | | exact Lx]; auto.
  - (* StopEnd *) eapply MLp_weaken; [ | | | | exact Lx]; auto.
Qed.


(* ---------------------------------------------------------------- reachable states *)
Definition mreachable (st : mstate) : Prop := exists tr, mrun minit tr = Some st.

Lemma mrun_inv : forall (P : mstate -> Prop), (forall st l st', P st -> mstep st l = Some st' -> P st') ->
  forall tr st st', P st -> mrun st tr = Some st' -> P st'.
Proof.
  intros P HS. induction tr as [|l t IH]; intros st st' H R; simpl in R.
  - inversion R; subst; auto.
  - destruct (mstep st l) eqn:E; [|discriminate]. eapply IH; [|exact R]. eapply HS; eauto.
Qed.

Lemma mrun_app : forall a b st st', mrun st (a ++ b) = Some st' <-> exists m, mrun st a = Some m /\ mrun m b = Some st'.
Proof.
  induction a as [|l a IH]; intros b st st'; simpl.
  - split; [intros H; exists st; auto | intros (m & A & B); inversion A; subst; auto].
  - destruct (mstep st l); [apply IH|]. split; [discriminate | intros (m & A & _); discriminate].
Qed.

Lemma mreachable_inv : forall st, mreachable st -> MI st /\ ML st.
Proof.
  intros st [tr R]. eapply (mrun_inv (fun st => MI st /\ ML st)); [| split; [apply MI_init|apply ML_init] | exact R].
  intros a l b [I L] H. split; [eapply MI_step|eapply ML_step]; eauto.
Qed.

(* copy-on-write: the array a running Post iterates over (read without the lock) is still exactly the
   snapshot it took under RLock; published arrays are never written (heap_stable) *)
Theorem mux_snapshot_never_mutated : forall st p a len i, mreachable st -> ppcs st p = PIter a len i ->
  firstn len (heap st a) = snap st p /\ NoDup (snap st p).
Proof. intros st p a len i R E. destruct (mreachable_inv _ R) as [I _]. destruct (m_iter _ I _ _ _ _ E) as (_ & A & B & _). auto. Qed.

(* a completed Post delivered exactly once to each member of its snapshot that is still subscribed
   (neither Unsubscribe nor Stop reached its closewait) and was created before the Post began;
   at most once to the other members; and to nobody outside the snapshot *)
Theorem mux_exactly_once : forall st p s, mreachable st -> ppcs st p = PDone ->
  mcount p s (mlog st) <= 1 /\
  (mcount p s (mlog st) = 1 -> In s (snap st p)) /\
  (In s (snap st p) -> sstat st s = UCreated -> created st s <= ptime st p -> mcount p s (mlog st) = 1).
Proof.
  intros st p s R E. destruct (mreachable_inv _ R) as [_ L]. destruct (L p s) as [A B]. rewrite E in B.
  destruct B as [B1 B2]. repeat split; auto. intros. apply B2; auto. split; auto.
Qed.

(* ... for every Post, finished or not: never twice *)
Theorem mux_at_most_once : forall st p s, mreachable st -> mcount p s (mlog st) <= 1.
Proof. intros st p s R. destruct (mreachable_inv _ R) as [_ L]. apply (L p s). Qed.

(* the snapshot is the subscriber list of the type at the moment of the RLock section *)
Theorem mux_snapshot_is_subm : forall st p st', mstep st (MPostSnap p) = Some st' ->
  snap st' p = slice_of st (subm st (ptyp st p)).
Proof.
  intros st p st' H. unfold mstep in H. destruct (mpanic st); [discriminate|].
  destruct (ppcs st p); try discriminate. destruct (negb (stopped st) && negb (wlock st)); [|discriminate].
  destruct (match subm st (ptyp st p) with Some x => x | None => (0, 0) end) as [a len].
  inversion H; subst; simpl. unfold mupd. rewrite Nat.eqb_refl. reflexivity.
Qed.

(* no delivery after closewait finished (Unsubscribe / Stop returned) *)
Lemma closed_step : forall st l st' s, sstat st s = UClosed -> mstep st l = Some st' -> sstat st' s = UClosed.
Proof.
  intros st l st' s C H. minv H; unfold publish, set_sstat, set_ppc, set_subm, set_flags, set_mpanic; simpl; auto.
  all: unfold mupd; destruct (Nat.eqb s s0) eqn:E; mbools; subst; auto; congruence.
Qed.

Theorem mux_no_delivery_after_close : forall t1 s t2 st p,
  mrun minit (t1 ++ MPostcClose s :: t2) = Some st -> ~ In (MDeliverSent p s) t2.
Proof.
  intros t1 s t2 st p R Hin. apply mrun_app in R. destruct R as (m1 & R1 & R). simpl in R.
  destruct (mstep m1 (MPostcClose s)) as [m2|] eqn:E2; [|discriminate].
  assert (C2 : sstat m2 s = UClosed).
  { clear - E2. unfold mstep in E2. destruct (mpanic m1); [discriminate|].
    destruct (sst_eqb (sstat m1 s) UClosing); [|discriminate]. inversion E2; subst; simpl. unfold mupd. rewrite Nat.eqb_refl. auto. }
  apply in_split in Hin. destruct Hin as (ta & tb & ->).
  apply mrun_app in R. destruct R as (m3 & R3 & R). simpl in R.
  assert (C3 : sstat m3 s = UClosed).
  { eapply (mrun_inv (fun st => sstat st s = UClosed)); [|exact C2|exact R3]. intros; eapply closed_step; eauto. }
  unfold mstep in R. destruct (mpanic m3); [discriminate|].
  destruct (cur m3 p) as [[[[a len] i] s']|]; [|discriminate].
  rewrite C3 in R. simpl in R. rewrite andb_false_r in R. discriminate.
Qed.

(* ---------------------------------------------------------------- Stop *)
Lemma forallb_false_ex : forall A (f : A -> bool) l, forallb f l = false -> exists x, In x l /\ f x = false.
Proof.
  induction l as [|a l IH]; simpl; intros H; [discriminate|].
  destruct (f a) eqn:E; simpl in H; [destruct (IH H) as (x & A1 & A2); exists x; auto | exists a; auto].
Qed.

(* Stop closes every subscription that is in mux.subm and leaves the mux empty and stopped *)
Theorem mux_stop_closes_all : forall st st', mreachable st -> mstep st MStopEnd = Some st' ->
  stopped st' = true /\ (forall t, subm st' t = None) /\
  (forall t s, In s (slice_of st (subm st t)) -> sstat st' s = UClosed).
Proof.
  intros st st' R H. destruct (mreachable_inv _ R) as [I _].
  unfold mstep in H. destruct (mpanic st); [discriminate|].
  destruct (wlock st && all_closed st) eqn:G; [|discriminate]. inversion H; subst; simpl. mbools.
  repeat split; auto. intros t s Hin.
  destruct (subm st t) as [x|] eqn:E; [|destruct Hin].
  pose proof (m_types _ I _ _ E) as Ht. unfold all_closed in H1.
  rewrite forallb_forall in H1. specialize (H1 _ Ht). rewrite E in H1. rewrite forallb_forall in H1.
  apply sst_eqb_eq. apply H1. exact Hin.
Qed.

Theorem mux_stopped_no_subscribers : forall st, mreachable st -> stopped st = true -> forall t, subm st t = None.
Proof. intros st R S. destruct (mreachable_inv _ R) as [I _]. apply (m_stopped _ I S). Qed.

(* ---------------------------------------------------------------- progress *)
(* a Post or a Stop is under way *)
Definition mbusy (st : mstate) : Prop :=
  (exists p, match ppcs st p with PCalled | PIter _ _ _ => True | _ => False end) \/ wlock st = true.

(* no stuck state (readers are assumed willing: MDeliverSent has no reader-side guard): whenever a Post or
   a Stop is under way, one of their own next synchronisation points is enabled *)
Theorem mux_no_stuck_state : forall st, mreachable st -> mpanic st = false -> mbusy st ->
  exists l, minternal l = true /\ mstep st l <> None.
Proof.
  intros st R Hnp Bz. destruct (mreachable_inv _ R) as [I _].
  destruct (wlock st) eqn:W.
  - (* Stop holds the lock *)
    destruct (all_closed st) eqn:AC.
    + exists MStopEnd. split; auto. unfold mstep. rewrite Hnp, W, AC. simpl. discriminate.
    + unfold all_closed in AC. apply forallb_false_ex in AC. destruct AC as (t & Ht & AC).
      apply forallb_false_ex in AC. destruct AC as (s & Hs & AC).
      destruct (subm st t) as [[a len]|] eqn:E; simpl in Hs; [|destruct Hs].
      destruct (m_subm _ I _ _ _ E) as (A & _ & _).
      pose proof (m_members _ I a s A (In_firstn_in _ _ _ Hs)) as Nn.
      destruct (sstat st s) eqn:S; try congruence; try discriminate.
      * exists (MClosing s). split; auto. unfold mstep. rewrite Hnp, S. simpl. discriminate.
      * exists (MPostcClose s). split; auto. unfold mstep. rewrite Hnp, S. simpl. discriminate.
  - destruct Bz as [[p Bp]|Bw]; [|congruence].
    destruct (ppcs st p) as [| |a len i| |] eqn:P; try tauto.
    + destruct (stopped st) eqn:S.
      * exists (MPostStopped p). split; auto. unfold mstep. rewrite Hnp, P, S, W. simpl. discriminate.
      * exists (MPostSnap p). split; auto. unfold mstep. rewrite Hnp, P, S, W. simpl.
        destruct (match subm st (ptyp st p) with Some x => x | None => (0, 0) end). discriminate.
    + destruct (Nat.ltb i len) eqn:L; mbools.
      * pose proof (m_iterlen _ I _ _ _ _ P) as Ll.
        destruct (nth_error (heap st a) i) as [s|] eqn:N; [|apply nth_error_None in N; lia].
        assert (C : cur st p = Some (a, len, i, s)).
        { unfold cur. rewrite P, (proj2 (Nat.ltb_lt _ _) L), N. reflexivity. }
        destruct (m_iter _ I _ _ _ _ P) as (_ & Fs & _ & _).
        assert (Sn : In s (snap st p)).
        { rewrite <- Fs. eapply nth_error_In. rewrite nth_error_firstn_lt; eauto. }
        pose proof (m_snap _ I _ _ Sn) as Nn.
        destruct (sstat st s) eqn:S; try congruence.
        -- exists (MDeliverSent p s). split; auto. unfold mstep. rewrite Hnp, C, S, Nat.eqb_refl. discriminate.
        -- exists (MDeliverSent p s). split; auto. unfold mstep. rewrite Hnp, C, S, Nat.eqb_refl. discriminate.
        -- exists (MDeliverClosed p s). split; auto. unfold mstep. rewrite Hnp, C, S, Nat.eqb_refl. discriminate.
      * exists (MPostRet p). split; auto. unfold mstep. rewrite Hnp, P, (proj2 (Nat.leb_le _ _) L). discriminate.
Qed.
