(* Feed/DupPath.v — lower bound on the copies a completed Send delivered to a (possibly repeated) channel. *)
From Coq Require Import List Arith Bool Lia Permutation.
From AQ Require Import Feed.FeedLTS Feed.FeedProofs Feed.DupLTS Feed.DupProofs Feed.DupDeliver.
Import ListNotations.

Fixpoint ncalls (c : chan) (tr : list (label * nat)) : nat :=
  match tr with [] => 0 | x :: t => is_call c (fst x) + ncalls c t end.

Lemma dreachable_step : forall st l h st', dreachable st -> dstep st l h = Some st' -> dreachable st'.
Proof.
  intros st l h st' [tr R] H. exists (tr ++ [(l, h)]). revert R. generalize dinit.
  induction tr as [|[l0 h0] t IH]; simpl; intros d R.
  - inversion R; subst. rewrite H. reflexivity.
  - destruct (dstep d l0 h0); [apply IH; auto|discriminate].
Qed.

Lemma phi_path : forall s c tr st st', dreachable st -> pcok s st -> (forall x, In x tr -> fst x <> LSendBadType s) ->
  drun st tr = Some st' ->
  phi s c st + inflight st' c <= phi s c st' + inflight st c + ncalls c tr /\ pcok s st' /\ dreachable st'.
Proof.
  intros s c. induction tr as [|[l h] t IH]; intros st st' R P N H; simpl in H.
  - inversion H; subst. cbn [ncalls]. split; [lia|split; auto].
  - destruct (dstep st l h) as [m|] eqn:E; [|discriminate].
    destruct (dreachable_DAB _ R) as [I B].
    destruct (phi_step s c st l h m I B P (N (l, h) (or_introl eq_refl)) E) as (A1 & A2).
    destruct (IH m st' (dreachable_step _ _ _ _ R E) A2 (fun x Hx => N x (or_intror Hx)) H) as (B1 & B2 & B3).
    cbn [ncalls fst]. split; [lia|split; auto].
Qed.

(* once the token is back the deliveries of the Send never change *)
Lemma dcount_stable : forall s c st l h st',
  (s_pc (d_sndr st s) = SUnlocked \/ s_pc (d_sndr st s) = SDone) -> dstep st l h = Some st' ->
  (s_pc (d_sndr st' s) = SUnlocked \/ s_pc (d_sndr st' s) = SDone) /\ count_log s c (d_log st') = count_log s c (d_log st).
Proof.
  intros s c st l h st' P H. dinv H; dunf; simpl; updc; simpl; auto.
  all: try solve [destruct P; congruence].
  all: split; auto; eqbs_all; auto; destruct P; congruence.
Qed.

(* lower bound: a completed Send of a well-typed value delivered to channel c at least as many copies as c had
   cases (subscriptions) when Send was called, minus the removers of c already under way at that moment, minus
   the Unsubscribe calls on c made while the Send ran *)
Theorem dup_copies_lower : forall t1 m0 s h1 m t3 m5 h2 m6 t4 st c,
  drun dinit t1 = Some m0 -> dstep m0 (LSendCall s) h1 = Some m ->
  drun m t3 = Some m5 -> dstep m5 (LSendUnlock s) h2 = Some m6 -> drun m6 t4 = Some st ->
  (forall x, In x t3 -> fst x <> LSendBadType s) ->
  cnt c (d_inbox m ++ d_arr m) <= count_log s c (d_log st) + inflight m c + ncalls c t3.
Proof.
  intros t1 m0 s h1 m t3 m5 h2 m6 t4 st c R0 E1 R3 E6 R4 NB.
  assert (Rm : dreachable m) by (eapply dreachable_step; [exists t1; eauto|eauto]).
  assert (Pm : s_pc (d_sndr m s) = SCalled).
  { clear - E1. unfold dstep in E1. destruct (d_panicked m0); [discriminate|].
    destruct (pc_eqb (s_pc (d_sndr m0 s)) SNew); [|discriminate]. inversion E1; subst; simpl. rewrite upd_same. reflexivity. }
  assert (Okm : pcok s m) by (unfold pcok; rewrite Pm; split; discriminate).
  destruct (phi_path s c t3 m m5 Rm Okm NB R3) as (A1 & A2 & A3).
  destruct (dreachable_DAB _ A3) as [I5 B5].
  destruct (phi_step s c m5 (LSendUnlock s) h2 m6 I5 B5 A2 ltac:(discriminate) E6) as (C1 & C2).
  assert (P6 : s_pc (d_sndr m6 s) = SUnlocked).
  { clear - E6. unfold dstep in E6. destruct (d_panicked m5); [discriminate|]. destruct (s_pc (d_sndr m5 s)); try discriminate.
    destruct (_ && _); [|discriminate]. inversion E6; subst; simpl. rewrite upd_same. reflexivity. }
  assert (St : count_log s c (d_log st) = count_log s c (d_log m6)).
  { assert (X : (s_pc (d_sndr st s) = SUnlocked \/ s_pc (d_sndr st s) = SDone) /\ count_log s c (d_log st) = count_log s c (d_log m6)).
    { eapply (drun_inv (fun x => (s_pc (d_sndr x s) = SUnlocked \/ s_pc (d_sndr x s) = SDone) /\ count_log s c (d_log x) = count_log s c (d_log m6))); [| |exact R4].
      - intros a l h b [Pa Ca] Hs. destruct (dcount_stable s c a l h b Pa Hs) as (Pb & Cb). split; auto. congruence.
      - split; auto. }
    apply X. }
  unfold phi in A1, C1. rewrite Pm in A1. rewrite P6 in C1. simpl in C1. unfold is_call in C1. simpl in C1. rewrite St. lia.
Qed.
