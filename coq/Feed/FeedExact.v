(* Feed/FeedExact.v — exactly-once delivery, stated on traces. *)
From Coq Require Import List Arith Bool Lia Permutation.
From AQ Require Import Feed.FeedLTS Feed.FeedProofs Feed.FeedInvA Feed.FeedInvB.
Import ListNotations.

(* while Unsubscribe has not been called on c, c stays subscribed with no remover *)
Definition J0 (c : chan) (st : state) : Prop := c_subd (chs st c) = true /\ rem st c = RNone.

Lemma J0_step : forall c st l st', J0 c st -> l <> LUnsubCall c -> step st l = Some st' -> J0 c st'.
Proof.
  intros c st l st' [A B] N H. unfold J0.
  inv_step H; unfold deliver; simpl; updc; simpl; auto; try congruence.
Qed.

Definition J (s : sid) (c : chan) (st : state) : Prop :=
  J0 c st /\ s_pc (sndr st s) <> SNew /\
  (active (s_pc (sndr st s)) = true -> In c (arr st)) /\
  (s_pc (sndr st s) = SUnlocked \/ s_pc (sndr st s) = SDone -> count_log s c (log st) = 1).

Lemma J_step : forall s c st l st', InvA st -> InvB st -> J s c st -> l <> LUnsubCall c -> step st l = Some st' -> J s c st'.
Proof.
  intros s c st l st' I B (J0c & Nn & Ac & Dn) N H.
  split; [eapply J0_step; eauto|]. destruct J0c as [Sb Rm].
  assert (Cin : In c (inbox st ++ arr st)) by (apply (a_live _ I); rewrite Rm; auto).
  pose proof (a_nodup _ I) as ND. pose proof (a_k _ I) as K.
  inv_step H; unfold deliver; simpl in *.
  all: try match goal with M0 : cfind _ (firstn _ _) = Some _ |- _ => destruct (cfind_firstn _ _ _ _ M0) as (Hlt & _ & _) end.
  all: try match goal with Hlt : ?i < s_k (sndr ?st ?s) |- context [deactivate] =>
      assert (Hkl : s_k (sndr st s) <= length (arr st)) by (apply K; match goal with Mpc : s_pc _ = _ |- _ => rewrite Mpc end; reflexivity);
      pose proof (perm_in_iff _ _ c (deactivate_perm _ _ _ Hlt Hkl)) as DP end.
  all: try match goal with M : cfind ?c (arr ?st) = Some ?n |- _ =>
      destruct (delete_facts _ _ _ M (nodup_app_r _ _ ND)) as (DF & _) end.
  all: updc; simpl in *.
  all: repeat split; intros; try discriminate; try congruence; auto.
  all: try solve [match goal with H : _ = _ \/ _ = _ |- _ => destruct H; discriminate end].
  all: try solve [apply in_app_iff; apply in_app_iff in Cin; tauto].
  all: try match goal with M : s_pc (sndr ?st ?s) = _ |- _ => pose proof M as Mpc; rewrite M in Ac; simpl in Ac end.
  all: try solve [apply Ac; auto].
  all: try solve [apply DP; apply Ac; auto].
  all: try solve [apply DF; split; [apply Ac; auto | congruence]].
  all: try solve [eqbs; apply Dn; auto].
  all: try solve [apply (b_one _ B); [rewrite Mpc; reflexivity|];
                  match goal with E : s_k _ = 0 |- _ => rewrite E end; simpl; apply Ac; auto].
Qed.

(* once a Send has put the token back, its deliveries never change *)
Definition Kc (s : sid) (c : chan) (n : nat) (st : state) : Prop :=
  (s_pc (sndr st s) = SUnlocked \/ s_pc (sndr st s) = SDone) /\ count_log s c (log st) = n.

Lemma K_step : forall s c n st l st', Kc s c n st -> step st l = Some st' -> Kc s c n st'.
Proof.
  intros s c n st l st' [P C] H. unfold Kc.
  inv_step H; unfold deliver; simpl; updc; simpl; auto.
  all: try solve [destruct P; congruence].
  all: split; auto; eqbs; auto.
Qed.

Lemma step_subscribe : forall st c cp st', step st (LSubscribe c cp) = Some st' ->
  c_subd (chs st c) = false /\ c_subd (chs st' c) = true /\ rem st' = rem st.
Proof.
  intros st c cp st' H. unfold step in H. destruct (panicked st); [discriminate|].
  destruct (negb (c_subd (chs st c))) eqn:G; [|discriminate]. inversion H; subst; simpl. bools.
  rewrite upd_same. simpl. auto.
Qed.

Lemma step_sendcall : forall st s st', step st (LSendCall s) = Some st' ->
  s_pc (sndr st' s) = SCalled /\ chs st' = chs st /\ rem st' = rem st.
Proof.
  intros st s st' H. unfold step in H. destruct (panicked st); [discriminate|].
  destruct (pc_eqb (s_pc (sndr st s)) SNew); [|discriminate]. inversion H; subst; simpl.
  rewrite upd_same. auto.
Qed.

(* exactly_once: a Send that has completed (put the token back) delivered its value exactly once
   to every channel that was subscribed before Send was called and on which Unsubscribe had not
   been called before the Send completed *)
Theorem exactly_once : forall t1 c cp t2 s t3 t4 st,
  run init (t1 ++ LSubscribe c cp :: t2 ++ LSendCall s :: t3 ++ LSendUnlock s :: t4) = Some st ->
  ~ In (LUnsubCall c) (t2 ++ t3) ->
  count_log s c (log st) = 1.
Proof.
  intros t1 c cp t2 s t3 t4 st R NU.
  apply run_app in R. destruct R as (m1 & R1 & R). simpl in R.
  destruct (step m1 (LSubscribe c cp)) as [m2|] eqn:E2; [|discriminate].
  apply run_app in R. destruct R as (m3 & R3 & R). simpl in R.
  destruct (step m3 (LSendCall s)) as [m4|] eqn:E4; [|discriminate].
  apply run_app in R. destruct R as (m5 & R5 & R). simpl in R.
  destruct (step m5 (LSendUnlock s)) as [m6|] eqn:E6; [|discriminate].
  assert (Rm1 : reachable m1) by (exists t1; auto).
  assert (Rm2 : reachable m2) by (eapply reachable_step; eauto).
  assert (Rm3 : reachable m3) by (eapply reachable_run; eauto).
  assert (Rm4 : reachable m4) by (eapply reachable_step; eauto).
  assert (Rm5 : reachable m5) by (eapply reachable_run; eauto).
  (* subscribed, no remover *)
  destruct (step_subscribe _ _ _ _ E2) as (S1 & S2 & S3).
  assert (J2 : J0 c m2).
  { split; auto. rewrite S3. destruct (reachable_InvAB _ Rm1) as [I1 _].
    destruct (rem m1 c) eqn:X; auto; assert (T : c_subd (chs m1 c) = true) by (apply (a_rem_subd _ I1); congruence); congruence. }
  assert (J3 : J0 c m3).
  { eapply (run_path (J0 c) (fun l => l <> LUnsubCall c)); [| exact Rm2 | exact J2 | | exact R3].
    - intros a l b _ Ja Ok Hs. eapply J0_step; eauto.
    - intros l Hl ->. apply NU. apply in_or_app. auto. }
  destruct (step_sendcall _ _ _ E4) as (P4 & C4 & M4).
  assert (J4 : J s c m4).
  { destruct J3 as [A B]. repeat split.
    - rewrite C4; auto.
    - rewrite M4; auto.
    - rewrite P4; discriminate.
    - rewrite P4; discriminate.
    - rewrite P4; intros [X|X]; discriminate. }
  assert (J5 : J s c m5).
  { eapply (run_path (J s c) (fun l => l <> LUnsubCall c)); [| exact Rm4 | exact J4 | | exact R5].
    - intros a l b Ra Ja Ok Hs. destruct (reachable_InvAB _ Ra) as [Ia Ba]. eapply J_step; eauto.
    - intros l Hl ->. apply NU. apply in_or_app. auto. }
  assert (J6 : J s c m6).
  { destruct (reachable_InvAB _ Rm5) as [I5 B5]. eapply J_step; eauto. discriminate. }
  assert (P6 : s_pc (sndr m6 s) = SUnlocked).
  { clear - E6. unfold step in E6. destruct (panicked m5); [discriminate|].
    destruct (s_pc (sndr m5 s)); try discriminate.
    destruct (_ && _); [|discriminate]. inversion E6; subst; simpl. rewrite upd_same. reflexivity. }
  assert (K6 : Kc s c 1 m6).
  { destruct J6 as (_ & _ & _ & D). split; auto. }
  assert (K7 : Kc s c 1 st).
  { eapply (run_inv (Kc s c 1)); [|exact K6|exact R]. intros; eapply K_step; eauto. }
  apply K7.
Qed.

Theorem at_most_once : forall st s c, reachable st -> count_log s c (log st) <= 1.
Proof. intros st s c R. destruct (reachable_InvAB _ R) as [_ B]. apply (b_le1 _ B). Qed.

(* no delivery to c after Unsubscribe on c returned (indeed: after remove deleted the case) *)
Theorem no_delivery_after_unsubscribe_returned : forall t1 c t2 st s,
  run init (t1 ++ LUnsubRet c :: t2) = Some st ->
  ~ In (LTryOk s c) t2 /\ ~ In (LSelSent s c) t2.
Proof.
  intros t1 c t2 st s R.
  apply run_app in R. destruct R as (m1 & R1 & R). simpl in R.
  destruct (step m1 (LUnsubRet c)) as [m2|] eqn:E2; [|discriminate].
  assert (Rm2 : reachable m2) by (eapply reachable_step; [exists t1; eauto | eauto]).
  assert (X2 : removed (rem m2 c) = true).
  { clear - E2. unfold step in E2. destruct (panicked m1); [discriminate|].
    destruct (rpc_eqb (rem m1 c) RDone); [|discriminate]. inversion E2; subst; simpl. rewrite upd_same. reflexivity. }
  assert (G : forall l, In l t2 -> (l = LTryOk s c \/ l = LSelSent s c) -> False).
  { intros l Hin Hl. destruct (run_in _ _ _ _ R Hin) as (ta & tb & a & b & -> & Ra & Hs & _).
    assert (Rea : reachable a) by (eapply reachable_run; eauto).
    assert (Xa : removed (rem a c) = true).
    { eapply (run_inv (fun st => removed (rem st c) = true)); [|exact X2|exact Ra]. intros; eapply removed_step; eauto. }
    eapply (removed_no_delivery a s c b); eauto. destruct Hl; subst; auto. }
  split; intros Hin; eapply G; eauto.
Qed.
