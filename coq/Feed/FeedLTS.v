(* Feed/FeedLTS.v — labelled transition system of aqua/event/feed.go.
   Definitions only (extracted by ExtractFeed.v); proofs are in FeedProofs.v.

   One label per synchronisation point of the code (= one `verifPoint` record of
   the instrumented build, or one call/return/receive record of the harness).
   `step : state -> label -> option state` is executable: a recorded trace is a
   path of the LTS iff `run` accepts it.

   Scope: any number of Send calls (one `sid` per call; the value sent is the
   sid), subscriber channels (one `chan` id per Subscribe call; a channel value
   is subscribed at most once — `step` rejects a second Subscribe of the same
   id) and unsubscribers (Unsubscribe of a feedSub runs `remove` once because of
   errOnce, so removers are keyed by channel).  Channels and mutexes follow the
   language specification; the Go scheduler / memory model are not modelled. *)
From Coq Require Import List Arith Bool.
Import ListNotations.

Definition chan := nat.
Definition sid := nat.

(* program counter of one Send call (feed.go, Send) *)
Inductive spc :=
| SNew                (* not called yet *)
| SCalled             (* called, before `<-f.sendLock` returned *)
| SLocked             (* holds sendLock, before the f.mu section *)
| STry (i : nat)      (* in the TrySend loop, about to try cases[firstSubSendCase+i] *)
| SSelect             (* about to block in reflect.Select(cases) *)
| SUnlocked           (* put the token back, about to return nsent *)
| SDone               (* returned *)
| SPanicked.          (* typecheck failed: panic(feedTypeError) *)

(* program counter of remove(sub) for the subscription on one channel *)
Inductive rpc :=
| RNone | RCalled | RSelecting | RLocked | RHanded | RDone | RRet.

Inductive owner := OSend (s : sid) | ORem (c : chan).

Record sender := { s_pc : spc; s_k : nat (* len(cases)-firstSubSendCase *); s_nsent : nat }.

(* A subscriber channel.  c_buf = values delivered and not yet reported received
   (the channel buffer plus values already handed to a receiver that has not
   recorded recv_end yet); c_wait = receivers that announced they are receiving.
   A send can complete iff length c_buf < c_cap + c_wait. *)
Record chst := { c_subd : bool; c_cap : nat; c_buf : list sid; c_wait : nat; c_recvd : list sid (* ghost, newest first *) }.

Record state := {
  inbox : list chan;            (* f.inbox *)
  arr : list chan;              (* f.sendCases[firstSubSendCase:]; `cases` of the running Send is the
                                   slice arr[:s_k] of the SAME backing array *)
  lock : option owner;          (* None: the token is in f.sendLock; Some o: o took it *)
  sndr : sid -> sender;
  rem : chan -> rpc;
  chs : chan -> chst;
  log : list (sid * chan);      (* ghost: deliveries, newest first *)
  nlock : nat;                  (* ghost: number of sendLock acquisitions by Send so far *)
  rank : sid -> nat;            (* ghost: acquisition index of each Send (1-based) *)
  panicked : bool               (* a Go runtime panic (slice bounds) happened *)
}.

Inductive label :=
| LSubscribe (c : chan) (cap : nat)    (* Subscribe: f.mu section appending to inbox *)
| LSendCall (s : sid)
| LSendLock (s : sid)                  (* <-f.sendLock returned *)
| LSendMerge (s : sid)                 (* f.mu section: sendCases += inbox; then cases := sendCases *)
| LSendBadType (s : sid)               (* f.mu section, typecheck fails: token put back, f.mu released, panic *)
| LTryOk (s : sid) (c : chan)          (* cases[i].Chan.TrySend succeeded *)
| LTryFail (s : sid) (c : chan)        (* ... failed *)
| LSelectEnter (s : sid)
| LSelSent (s : sid) (c : chan)        (* reflect.Select chose the send case of c *)
| LSelRemove (s : sid) (c : chan)      (* reflect.Select received c from removeSub; find/delete/shrink *)
| LSendUnlock (s : sid)                (* f.sendLock <- struct{}{} at the end of Send *)
| LSendRet (s : sid) (n : nat)         (* Send returned n *)
| LUnsubCall (c : chan)                (* Unsubscribe -> remove *)
| LRemoveInbox (c : chan)              (* remove: found in inbox, deleted, returns *)
| LRemoveNotInbox (c : chan)           (* remove: not in inbox *)
| LRemoveLock (c : chan)               (* remove: `case <-f.sendLock`, deletes from sendCases *)
| LRemoveUnlock (c : chan)             (* remove: puts the token back, returns *)
| LRemoveHandoff (c : chan)            (* remove: `case f.removeSub <- ch` completed, returns *)
| LUnsubRet (c : chan)
| LRecvBegin (c : chan)                (* a receiver starts `<-ch` *)
| LRecvEnd (c : chan) (v : sid).       (* it got v *)

(* ---------------------------------------------------------------- maps *)
Definition upd {A} (f : nat -> A) (k : nat) (v : A) : nat -> A :=
  fun x => if Nat.eqb x k then v else f x.

(* ---------------------------------------------------------------- slices *)
(* caseList.find *)
Fixpoint cfind (c : chan) (l : list chan) : option nat :=
  match l with
  | [] => None
  | x :: t => if Nat.eqb x c then Some 0 else option_map S (cfind c t)
  end.

Definition memb (c : chan) (l : list chan) : bool :=
  match cfind c l with Some _ => true | None => false end.

(* caseList.delete: append(cs[:index], cs[index+1:]...) *)
Definition delete (idx : nat) (l : list chan) : list chan := firstn idx l ++ skipn (S idx) l.

Definition set_nth (i : nat) (v : chan) (l : list chan) : list chan := firstn i l ++ v :: skipn (S i) l.

(* caseList.deactivate on cases = arr[:k]:  cs[index], cs[last] = cs[last], cs[index]; return cs[:last].
   The write goes through to the shared backing array `arr`. *)
Definition deactivate (l : list chan) (k i : nat) : list chan :=
  match nth_error l i, nth_error l (k - 1) with
  | Some a, Some b => set_nth i b (set_nth (k - 1) a l)
  | _, _ => l
  end.

(* ---------------------------------------------------------------- state updates *)
Definition set_snd (st : state) (s : sid) (x : sender) : state :=
  {| inbox := inbox st; arr := arr st; lock := lock st; sndr := upd (sndr st) s x; rem := rem st;
     chs := chs st; log := log st; nlock := nlock st; rank := rank st; panicked := panicked st |}.
Definition set_rem (st : state) (c : chan) (x : rpc) : state :=
  {| inbox := inbox st; arr := arr st; lock := lock st; sndr := sndr st; rem := upd (rem st) c x;
     chs := chs st; log := log st; nlock := nlock st; rank := rank st; panicked := panicked st |}.
Definition set_ch (st : state) (c : chan) (x : chst) : state :=
  {| inbox := inbox st; arr := arr st; lock := lock st; sndr := sndr st; rem := rem st;
     chs := upd (chs st) c x; log := log st; nlock := nlock st; rank := rank st; panicked := panicked st |}.
Definition set_lock (st : state) (o : option owner) : state :=
  {| inbox := inbox st; arr := arr st; lock := o; sndr := sndr st; rem := rem st;
     chs := chs st; log := log st; nlock := nlock st; rank := rank st; panicked := panicked st |}.
Definition set_lists (st : state) (ib ar : list chan) : state :=
  {| inbox := ib; arr := ar; lock := lock st; sndr := sndr st; rem := rem st;
     chs := chs st; log := log st; nlock := nlock st; rank := rank st; panicked := panicked st |}.
Definition set_log (st : state) (lg : list (sid * chan)) : state :=
  {| inbox := inbox st; arr := arr st; lock := lock st; sndr := sndr st; rem := rem st;
     chs := chs st; log := lg; nlock := nlock st; rank := rank st; panicked := panicked st |}.
Definition set_rank (st : state) (s : sid) : state :=
  {| inbox := inbox st; arr := arr st; lock := lock st; sndr := sndr st; rem := rem st;
     chs := chs st; log := log st; nlock := S (nlock st); rank := upd (rank st) s (S (nlock st)); panicked := panicked st |}.
Definition set_panicked (st : state) : state :=
  {| inbox := inbox st; arr := arr st; lock := lock st; sndr := sndr st; rem := rem st;
     chs := chs st; log := log st; nlock := nlock st; rank := rank st; panicked := true |}.
Definition init : state :=
  {| inbox := []; arr := []; lock := None;
     sndr := fun _ => {| s_pc := SNew; s_k := 0; s_nsent := 0 |};
     rem := fun _ => RNone;
     chs := fun _ => {| c_subd := false; c_cap := 0; c_buf := []; c_wait := 0; c_recvd := [] |};
     log := []; nlock := 0; rank := fun _ => 0; panicked := false |}.

(* ---------------------------------------------------------------- channel semantics *)
Definition can_accept (ch : chst) : bool := Nat.ltb (length (c_buf ch)) (c_cap ch + c_wait ch).

Definition push (ch : chst) (v : sid) : chst :=
  {| c_subd := c_subd ch; c_cap := c_cap ch; c_buf := c_buf ch ++ [v]; c_wait := c_wait ch; c_recvd := c_recvd ch |}.

(* the send of value s on channel c completes (TrySend true / Select chose it):
   nsent++ ; cases = cases.deactivate(i) *)
Definition deliver (st : state) (s : sid) (c : chan) (i : nat) (next : spc) : state :=
  let sd := sndr st s in
  let st1 := set_ch st c (push (chs st c) s) in
  let st2 := set_log st1 ((s, c) :: log st) in
  let st3 := set_lists st2 (inbox st) (deactivate (arr st) (s_k sd) i) in
  set_snd st3 s {| s_pc := next; s_k := s_k sd - 1; s_nsent := S (s_nsent sd) |}.

Definition pc_eqb (a b : spc) : bool :=
  match a, b with
  | SNew, SNew | SCalled, SCalled | SLocked, SLocked | SSelect, SSelect
  | SUnlocked, SUnlocked | SDone, SDone | SPanicked, SPanicked => true
  | STry i, STry j => Nat.eqb i j
  | _, _ => false
  end.
Definition rpc_eqb (a b : rpc) : bool :=
  match a, b with
  | RNone, RNone | RCalled, RCalled | RSelecting, RSelecting | RLocked, RLocked
  | RHanded, RHanded | RDone, RDone | RRet, RRet => true
  | _, _ => false
  end.
Definition lock_free (st : state) : bool := match lock st with None => true | Some _ => false end.

(* ---------------------------------------------------------------- the step function *)
Definition step (st : state) (l : label) : option state :=
  if panicked st then None else
  match l with
  (* feed.go Subscribe: f.mu.Lock(); f.inbox = append(f.inbox, cas) *)
  | LSubscribe c cap =>
      if negb (c_subd (chs st c)) then
        Some (set_ch (set_lists st (inbox st ++ [c]) (arr st)) c
                {| c_subd := true; c_cap := cap; c_buf := c_buf (chs st c); c_wait := c_wait (chs st c); c_recvd := c_recvd (chs st c) |})
      else None
  | LSendCall s =>
      if pc_eqb (s_pc (sndr st s)) SNew
      then Some (set_snd st s {| s_pc := SCalled; s_k := 0; s_nsent := 0 |}) else None
  (* Send: <-f.sendLock *)
  | LSendLock s =>
      if pc_eqb (s_pc (sndr st s)) SCalled && lock_free st
      then Some (set_rank (set_lock (set_snd st s {| s_pc := SLocked; s_k := 0; s_nsent := 0 |}) (Some (OSend s))) s)
      else None
  (* Send: f.mu.Lock(); f.sendCases = append(f.sendCases, f.inbox...); f.inbox = nil; f.mu.Unlock();
           cases := f.sendCases; i := firstSubSendCase *)
  | LSendMerge s =>
      if pc_eqb (s_pc (sndr st s)) SLocked then
        let a := arr st ++ inbox st in
        Some (set_snd (set_lists st [] a) s {| s_pc := STry 0; s_k := length a; s_nsent := 0 |})
      else None
  (* Send: f.mu.Lock(); sendCases += inbox; if !f.typecheck(..) { f.sendLock <- struct{}{}; f.mu.Unlock(); panic(..) } *)
  | LSendBadType s =>
      if pc_eqb (s_pc (sndr st s)) SLocked then
        Some (set_lock (set_snd (set_lists st [] (arr st ++ inbox st)) s {| s_pc := SPanicked; s_k := 0; s_nsent := 0 |}) None)
      else None
  (* Send, fast path: if cases[i].Chan.TrySend(rvalue) { nsent++; cases = cases.deactivate(i); i-- } ; i++ *)
  | LTryOk s c =>
      match s_pc (sndr st s) with
      | STry i =>
          if Nat.ltb i (s_k (sndr st s)) then
            match nth_error (arr st) i with
            | Some c' => if Nat.eqb c' c && can_accept (chs st c) then Some (deliver st s c i (STry i)) else None
            | None => None
            end
          else None
      | _ => None
      end
  | LTryFail s c =>
      match s_pc (sndr st s) with
      | STry i =>
          if Nat.ltb i (s_k (sndr st s)) then
            match nth_error (arr st) i with
            | Some c' => if Nat.eqb c' c
                         then Some (set_snd st s {| s_pc := STry (S i); s_k := s_k (sndr st s); s_nsent := s_nsent (sndr st s) |})
                         else None
            | None => None
            end
          else None
      | _ => None
      end
  (* Send: loop over i finished, len(cases) != firstSubSendCase: go to reflect.Select(cases) *)
  | LSelectEnter s =>
      match s_pc (sndr st s) with
      | STry i =>
          if Nat.leb (s_k (sndr st s)) i && Nat.ltb 0 (s_k (sndr st s))
          then Some (set_snd st s {| s_pc := SSelect; s_k := s_k (sndr st s); s_nsent := s_nsent (sndr st s) |}) else None
      | _ => None
      end
  (* Send: chosen != 0: cases = cases.deactivate(chosen); nsent++ ; back to the fast path with i := firstSubSendCase *)
  | LSelSent s c =>
      match s_pc (sndr st s) with
      | SSelect =>
          match cfind c (firstn (s_k (sndr st s)) (arr st)) with
          | Some j => if can_accept (chs st c) then Some (deliver st s c j (STry 0)) else None
          | None => None
          end
      | _ => None
      end
  (* Send: chosen == 0: index := f.sendCases.find(recv); f.sendCases = f.sendCases.delete(index);
           if index >= 0 && index < len(cases) { cases = f.sendCases[:len(cases)-1] }
     (together with the rendez-vous on removeSub with the remover of c) *)
  | LSelRemove s c =>
      match s_pc (sndr st s) with
      | SSelect =>
          if rpc_eqb (rem st c) RSelecting then
            match cfind c (arr st) with
            | None => Some (set_panicked st)        (* delete(-1): slice bounds out of range *)
            | Some idx =>
                let k := s_k (sndr st s) in
                let st1 := set_lists st (inbox st) (delete idx (arr st)) in
                let st2 := set_rem st1 c RHanded in
                Some (set_snd st2 s {| s_pc := STry 0; s_k := if Nat.ltb idx k then k - 1 else k; s_nsent := s_nsent (sndr st s) |})
            end
          else None
      | _ => None
      end
  (* Send: loop finished with len(cases) == firstSubSendCase: break; f.sendLock <- struct{}{} *)
  | LSendUnlock s =>
      match s_pc (sndr st s) with
      | STry i =>
          if Nat.leb (s_k (sndr st s)) i && Nat.eqb (s_k (sndr st s)) 0
          then Some (set_lock (set_snd st s {| s_pc := SUnlocked; s_k := 0; s_nsent := s_nsent (sndr st s) |}) None) else None
      | _ => None
      end
  | LSendRet s n =>
      if pc_eqb (s_pc (sndr st s)) SUnlocked && Nat.eqb n (s_nsent (sndr st s))
      then Some (set_snd st s {| s_pc := SDone; s_k := 0; s_nsent := s_nsent (sndr st s) |}) else None
  (* feedSub.Unsubscribe -> errOnce.Do(remove) *)
  | LUnsubCall c =>
      if c_subd (chs st c) && rpc_eqb (rem st c) RNone then Some (set_rem st c RCalled) else None
  (* remove: f.mu.Lock(); index := f.inbox.find(ch); if index != -1 { f.inbox = f.inbox.delete(index); unlock; return } *)
  | LRemoveInbox c =>
      if rpc_eqb (rem st c) RCalled then
        match cfind c (inbox st) with
        | Some idx => Some (set_rem (set_lists st (delete idx (inbox st)) (arr st)) c RDone)
        | None => None
        end
      else None
  | LRemoveNotInbox c =>
      if rpc_eqb (rem st c) RCalled then
        match cfind c (inbox st) with
        | Some _ => None
        | None => Some (set_rem st c RSelecting)
        end
      else None
  (* remove: case <-f.sendLock: f.sendCases = f.sendCases.delete(f.sendCases.find(ch)) *)
  | LRemoveLock c =>
      if rpc_eqb (rem st c) RSelecting && lock_free st then
        match cfind c (arr st) with
        | None => Some (set_panicked st)            (* delete(-1) *)
        | Some idx => Some (set_rem (set_lock (set_lists st (inbox st) (delete idx (arr st))) (Some (ORem c))) c RLocked)
        end
      else None
  | LRemoveUnlock c =>
      if rpc_eqb (rem st c) RLocked then Some (set_rem (set_lock st None) c RDone) else None
  | LRemoveHandoff c =>
      if rpc_eqb (rem st c) RHanded then Some (set_rem st c RDone) else None
  | LUnsubRet c =>
      if rpc_eqb (rem st c) RDone then Some (set_rem st c RRet) else None
  | LRecvBegin c =>
      let ch := chs st c in
      Some (set_ch st c {| c_subd := c_subd ch; c_cap := c_cap ch; c_buf := c_buf ch; c_wait := S (c_wait ch); c_recvd := c_recvd ch |})
  | LRecvEnd c v =>
      let ch := chs st c in
      match c_buf ch, c_wait ch with
      | x :: r, S w => if Nat.eqb x v
                       then Some (set_ch st c {| c_subd := c_subd ch; c_cap := c_cap ch; c_buf := r; c_wait := w; c_recvd := v :: c_recvd ch |})
                       else None
      | _, _ => None
      end
  end.

Definition enabled (st : state) (l : label) : bool :=
  match step st l with Some _ => true | None => false end.

(* run a trace; on rejection report the index of the first label that is not a step *)
Fixpoint run_from (st : state) (tr : list label) (n : nat) : state + nat :=
  match tr with
  | [] => inl st
  | l :: t => match step st l with Some st' => run_from st' t (S n) | None => inr n end
  end.

Fixpoint run (st : state) (tr : list label) : option state :=
  match tr with
  | [] => Some st
  | l :: t => match step st l with Some st' => run st' t | None => None end
  end.

(* labels initiated by the environment (callers / receivers), as opposed to the
   internal synchronisation points of calls that are already under way *)
Definition internal (l : label) : bool :=
  match l with
  | LSubscribe _ _ | LSendCall _ | LUnsubCall _ | LRecvBegin _ | LRecvEnd _ _ | LSendBadType _ => false
  | _ => true
  end.

(* ---------------------------------------------------------------- observables for the driver *)
Fixpoint count_log (s : sid) (c : chan) (lg : list (sid * chan)) : nat :=
  match lg with
  | [] => 0
  | (s', c') :: t => (if Nat.eqb s' s && Nat.eqb c' c then 1 else 0) + count_log s c t
  end.
Fixpoint count_snd (s : sid) (lg : list (sid * chan)) : nat :=
  match lg with
  | [] => 0
  | (s', _) :: t => (if Nat.eqb s' s then 1 else 0) + count_snd s t
  end.
(* deliveries to c, oldest first *)
Definition chan_log (st : state) (c : chan) : list sid :=
  rev (map fst (filter (fun x => Nat.eqb (Datatypes.snd x) c) (log st))).
