(* Feed/DupProofs.v — invariants of the Feed LTS with repeated channels (DupLTS.v): multiset form. *)
From Coq Require Import List Arith Bool Lia Permutation.
From AQ Require Import Feed.FeedLTS Feed.FeedProofs Feed.DupLTS.
Import ListNotations.

(* ---------------------------------------------------------------- counting *)
Lemma cnt_app : forall c a b, cnt c (a ++ b) = cnt c a + cnt c b.
Proof. induction a; simpl; intros; auto. rewrite IHa. lia. Qed.

Lemma cnt_perm : forall c a b, Permutation a b -> cnt c a = cnt c b.
Proof. induction 1; simpl; auto; try lia. Qed.

Lemma cnt_cfind_none : forall c l, cfind c l = None -> cnt c l = 0.
Proof.
  induction l as [|x t IH]; simpl; intros H; auto. destruct (Nat.eqb x c); [discriminate|].
  destruct (cfind c t); [discriminate|]. simpl. auto.
Qed.

Lemma cnt_delete : forall c l idx, cfind c l = Some idx ->
  cnt c l = S (cnt c (delete idx l)) /\ forall y, y <> c -> cnt y (delete idx l) = cnt y l.
Proof.
  intros c l idx H. destruct (cfind_some _ _ _ H) as (l1 & l2 & -> & _ & <-). rewrite delete_app.
  split; [|intros y N]; rewrite !cnt_app; simpl.
  - rewrite Nat.eqb_refl. lia.
  - destruct (Nat.eqb c y) eqn:E; bools; [congruence|lia].
Qed.

Lemma cnt_firstn_skipn : forall c k l, cnt c (firstn k l) + cnt c (skipn k l) = cnt c l.
Proof. intros. rewrite <- cnt_app, firstn_skipn. reflexivity. Qed.

Lemma cnt_in : forall c l, In c l -> 0 < cnt c l.
Proof. induction l; simpl; intros H; [tauto|]. destruct H as [->|H]; [rewrite Nat.eqb_refl; lia|]. apply IHl in H. lia. Qed.

(* ---------------------------------------------------------------- step inversion *)
Ltac dinv H :=
  unfold dstep in H;
  match type of H with (if d_panicked ?st then _ else _) = _ => destruct (d_panicked st) eqn:Hpan; [discriminate|] end;
  match type of H with match ?l with _ => _ end = _ => destruct l end;
  repeat match type of H with
  | (if ?b then _ else _) = Some _ => let E := fresh "G" in destruct b eqn:E; [|discriminate]
  | match ?x with _ => _ end = Some _ => let E := fresh "M" in destruct x eqn:E; try discriminate
  | (let _ := _ in _) = Some _ => cbv zeta in H
  end;
  inversion H; subst; clear H; bools.

Lemma dlock_free_none : forall st, dlock_free st = true -> d_lock st = None.
Proof. unfold dlock_free. intros st. destruct (d_lock st); auto; discriminate. Qed.

Ltac dunf := unfold ddeliver, dset_snd, dset_rem, dset_ch, dset_lock, dset_lists, dset_log, dset_cases0, dset_nsub, dset_panicked in *.

(* ---------------------------------------------------------------- lock invariant *)
Definition DL (st : dstate) : Prop :=
  forall s, holding (s_pc (d_sndr st s)) = true <-> d_lock st = Some (OSend s).

Lemma DL_init : DL dinit.
Proof. intros s; simpl; split; discriminate. Qed.

Lemma DL_step : forall st l h st', DL st -> dstep st l h = Some st' -> DL st'.
Proof.
  intros st l h st' L H.
  dinv H; dunf; intros x; pose proof (L x) as Lx; simpl.
  all: try match goal with s : sid |- _ => tryif constr_eq s x then fail else pose proof (L s) as Lss end.
  all: clear L.
  all: repeat match goal with M : s_pc _ = _ |- _ => rewrite M in *; clear M end.
  all: repeat match goal with M : dlock_free _ = true |- _ => apply dlock_free_none in M end.
  all: repeat match goal with M : d_lock _ = _ |- _ => rewrite M in *; clear M end.
  all: simpl in *; updc; simpl in *.
  all: try solve [assumption | split; intros; try discriminate; try congruence; auto].
  all: try (timeout 3 (solve [intuition (try congruence; try discriminate)])).
Qed.

(* ---------------------------------------------------------------- structural invariant (multisets) *)
Definition gone (st : dstate) (c : chan) : nat :=
  r_hand (d_rem st c) + r_done (d_rem st c) + r_ret (d_rem st c) + locked_by st c.

Record DA (st : dstate) : Prop := {
  da_np : d_panicked st = false;
  (* every subscription is either a case in inbox ++ sendCases or has been removed by a remover *)
  da_cnt : forall c, cnt c (d_inbox st ++ d_arr st) + gone st c = d_nsub st c;
  (* removers belong to distinct subscriptions *)
  da_tot : forall c, r_total (d_rem st c) + locked_by st c <= d_nsub st c;
  (* a remover that found nothing in the inbox will find a case in sendCases *)
  da_sel : forall c, r_sel (d_rem st c) <= cnt c (d_arr st);
  da_L : DL st;
  da_k : forall s, active (s_pc (d_sndr st s)) = true -> s_k (d_sndr st s) <= length (d_arr st);
  da_selk : forall s, s_pc (d_sndr st s) = SSelect -> 0 < s_k (d_sndr st s)
}.

Lemma DA_init : DA dinit.
Proof. constructor; simpl; intros; auto; try discriminate; try lia. apply DL_init. Qed.

Lemma hint_index : forall (hint : nat) c k (l : list chan) j0,
  match hint with
  | 0 => cfind c (firstn k l)
  | S j => if Nat.ltb j k then match nth_error l j with Some c' => if Nat.eqb c' c then Some j else None | None => None end else None
  end = Some j0 -> j0 < k /\ nth_error l j0 = Some c.
Proof.
  intros hint c k l j0 H. destruct hint as [|j].
  - destruct (cfind_firstn _ _ _ _ H) as (A & _ & B). auto.
  - destruct (Nat.ltb j k) eqn:L; [|discriminate]. destruct (nth_error l j) as [c'|] eqn:N; [|discriminate].
    destruct (Nat.eqb c' c) eqn:E; [|discriminate]. inversion H; subst. bools. subst. auto.
Qed.

Ltac eqbs_all := repeat match goal with
  | |- context [Nat.eqb ?a ?b] => let E := fresh "E" in destruct (Nat.eqb a b) eqn:E; bools; subst
  | H : context [Nat.eqb ?a ?b] |- _ => let E := fresh "E" in destruct (Nat.eqb a b) eqn:E; bools; subst
  end.

(* the acting sender holds the lock *)
Ltac holder_lock I :=
  try match goal with M : s_pc (d_sndr ?st ?s) = ?p |- _ =>
    match p with
    | SLocked => idtac | STry _ => idtac | SSelect => idtac
    end;
    assert (Lk : d_lock st = Some (OSend s)) by (apply (da_L _ I); rewrite M; reflexivity) end.

(* facts about the list operation of the step, added to the context *)
Ltac list_facts I cx :=
  try match goal with M0 : match _ with 0 => _ | S _ => _ end = Some _ |- _ => destruct (hint_index _ _ _ _ _ M0) as (Hlt & Hnth) end;
  try match goal with Hlt : ?i < s_k (d_sndr ?st ?s) |- context [deactivate] =>
      assert (Hkl : s_k (d_sndr st s) <= length (d_arr st)) by (apply (da_k _ I); match goal with Mpc : s_pc _ = _ |- _ => rewrite Mpc end; reflexivity);
      pose proof (cnt_perm cx _ _ (deactivate_perm _ _ _ Hlt Hkl)) as DP end;
  try match goal with M : cfind ?c ?l = Some ?n |- context [delete ?n ?l] =>
      destruct (cnt_delete _ _ _ M) as (CD1 & CD2); pose proof (CD2 cx) as CD3 end.

Lemma step_da_cnt : forall st l h st', DA st -> dstep st l h = Some st' ->
  forall cx, cnt cx (d_inbox st' ++ d_arr st') + gone st' cx = d_nsub st' cx.
Proof.
  intros st l h st' I H cx. pose proof (da_cnt _ I cx) as C0.
  dinv H; dunf; unfold gone, locked_by in *; simpl in *.
  all: list_facts I cx.
  all: holder_lock I.
  all: repeat match goal with M : dlock_free _ = true |- _ => apply dlock_free_none in M end.
  all: repeat match goal with M : d_lock _ = _ |- _ => rewrite M in *; clear M end.
  all: rewrite ?cnt_app in *; simpl in *; updc; simpl in *; try rewrite Nat.eqb_refl in *; try lia.
  all: eqbs_all; try lia; try congruence.
  all: try (specialize (CD3 ltac:(congruence)); lia).
Qed.

Lemma step_da_tot : forall st l h st', DA st -> dstep st l h = Some st' ->
  forall cx, r_total (d_rem st' cx) + locked_by st' cx <= d_nsub st' cx.
Proof.
  intros st l h st' I H cx. pose proof (da_tot _ I cx) as C0.
  dinv H; dunf; unfold r_total, locked_by in *; simpl in *.
  all: holder_lock I.
  all: repeat match goal with M : dlock_free _ = true |- _ => apply dlock_free_none in M end.
  all: repeat match goal with M : d_lock _ = _ |- _ => rewrite M in *; clear M end.
  all: simpl in *; updc; simpl in *; try rewrite Nat.eqb_refl in *; try lia.
  all: eqbs_all; try lia; try congruence.
Qed.

Lemma step_da_sel : forall st l h st', DA st -> dstep st l h = Some st' ->
  forall cx, r_sel (d_rem st' cx) <= cnt cx (d_arr st').
Proof.
  intros st l h st' I H cx. pose proof (da_sel _ I cx) as C0. pose proof (da_cnt _ I cx) as C1. pose proof (da_tot _ I cx) as C2.
  dinv H; dunf; unfold gone, r_total, locked_by in *; simpl in *.
  all: list_facts I cx.
  all: rewrite ?cnt_app in *; simpl in *; updc; simpl in *; try rewrite Nat.eqb_refl in *; try lia.
  rewrite (cnt_cfind_none _ _ M) in C1. lia.
Qed.

Lemma step_da_np : forall st l h st', DA st -> dstep st l h = Some st' -> d_panicked st' = false.
Proof.
  intros st l h st' I H. pose proof (da_sel _ I) as S.
  dinv H; dunf; simpl; auto.
  all: exfalso; match goal with M : cfind ?c _ = None |- _ => specialize (S c); rewrite (cnt_cfind_none _ _ M) in S; lia end.
Qed.

Lemma dactive_holding : forall p, active p = true -> holding p = true.
Proof. destruct p; simpl; auto. Qed.

Lemma step_da_k : forall st l h st', DA st -> dstep st l h = Some st' ->
  forall s0, active (s_pc (d_sndr st' s0)) = true -> s_k (d_sndr st' s0) <= length (d_arr st').
Proof.
  intros st l h st' I H. pose proof (da_L _ I) as L.
  dinv H; dunf; intros s0 A; pose proof (da_k _ I s0) as K0; simpl in *.
  all: try match goal with M0 : match _ with 0 => _ | S _ => _ end = Some _ |- _ => destruct (hint_index _ _ _ _ _ M0) as (Hlt & Hnth) end.
  all: try match goal with s : sid |- _ => tryif constr_eq s s0 then fail else pose proof (da_k _ I s) as Ks end.
  all: try rewrite deactivate_length.
  all: try rewrite app_length.
  all: try match goal with M : cfind ?c (d_arr ?st) = Some ?n |- _ => pose proof (cfind_lt _ _ _ M);
        assert (DLn : length (d_arr st) = S (length (delete n (d_arr st)))) by
          (destruct (cfind_some _ _ _ M) as (l1 & l2 & E & _ & Ln); rewrite E, <- Ln, delete_app, !app_length; simpl; lia) end.
  all: updc; simpl in *; try discriminate; try (specialize (K0 A)); try lia.
  all: try match goal with M : s_pc (d_sndr ?st ?s) = _, K : active (s_pc (d_sndr ?st ?s)) = true -> _ |- _ => rewrite M in K; simpl in K; specialize (K eq_refl) end.
  all: try lia.
  all: try match goal with |- context [if ?b then _ else _] => destruct b eqn:?; bools; lia end.
  - exfalso. apply dactive_holding in A. apply L in A. assert (B : d_lock st = Some (OSend s)) by (apply L; rewrite M; reflexivity). congruence.
  - exfalso. apply dactive_holding in A. apply L in A. apply dlock_free_none in H0 || idtac. congruence.
Qed.





Lemma step_da_selk : forall st l h st', DA st -> dstep st l h = Some st' ->
  forall s0, s_pc (d_sndr st' s0) = SSelect -> 0 < s_k (d_sndr st' s0).
Proof.
  intros st l h st' I H.
  dinv H; dunf; intros s0 A; pose proof (da_selk _ I s0) as K0; simpl in *.
  all: updc; simpl in *; try discriminate; try congruence; auto.
Qed.

Lemma DA_step : forall st l h st', DA st -> dstep st l h = Some st' -> DA st'.
Proof.
  intros st l h st' I H. constructor.
  - eapply step_da_np; eauto.
  - eapply step_da_cnt; eauto.
  - eapply step_da_tot; eauto.
  - eapply step_da_sel; eauto.
  - eapply DL_step; eauto. apply (da_L _ I).
  - eapply step_da_k; eauto.
  - eapply step_da_selk; eauto.
Qed.

Definition dreachable (st : dstate) : Prop := exists tr, drun dinit tr = Some st.

Lemma drun_inv : forall (P : dstate -> Prop), (forall st l h st', P st -> dstep st l h = Some st' -> P st') ->
  forall tr st st', P st -> drun st tr = Some st' -> P st'.
Proof.
  intros P HS. induction tr as [|[l h] t IH]; intros st st' H R; simpl in R.
  - inversion R; subst; auto.
  - destruct (dstep st l h) eqn:E; [|discriminate]. eapply IH; [|exact R]. eapply HS; eauto.
Qed.

Lemma dreachable_DA : forall st, dreachable st -> DA st.
Proof. intros st [tr R]. eapply drun_inv; [apply DA_step|apply DA_init|exact R]. Qed.

(* ---------------------------------------------------------------- deliveries (multisets) *)
Definition dquiet (p : spc) : bool := match p with SNew | SCalled | SLocked => true | _ => false end.

Record DB (st : dstate) : Prop := {
  (* every served case of the running Send has been delivered to ... *)
  db_lo : forall s c, active (s_pc (d_sndr st s)) = true -> cnt c (skipn (s_k (d_sndr st s)) (d_arr st)) <= count_log s c (d_log st);
  (* ... and deliveries + still unserved cases never exceed the cases the Send started with *)
  db_hi : forall s c, active (s_pc (d_sndr st s)) = true ->
            count_log s c (d_log st) + cnt c (firstn (s_k (d_sndr st s)) (d_arr st)) <= cnt c (d_cases0 st s);
  db_quiet : forall s c, dquiet (s_pc (d_sndr st s)) = true -> count_log s c (d_log st) = 0;
  db_done : forall s c, (s_pc (d_sndr st s) = SUnlocked \/ s_pc (d_sndr st s) = SDone) -> count_log s c (d_log st) <= cnt c (d_cases0 st s)
}.

Lemma DB_init : DB dinit.
Proof. constructor; simpl; intros; auto; try discriminate; try lia. Qed.
