(* Feed/ScopeLTS.v — SubscriptionScope (aqua/event/subscription.go): Track / Close / scopeSub.Unsubscribe as
   interleavings of atomic steps, with sc.mu explicit.  One label per verifScopePoint of the instrumented build.
   Track and the map deletion of scopeSub.Unsubscribe are single critical sections (they need sc.mu free);
   Close holds sc.mu from `closed = true` until `subs = nil` while it calls Unsubscribe on every tracked
   subscription.  Definitions only; proofs in ScopeProofs.v. *)
From Coq Require Import List Arith Bool.
Import ListNotations.

Definition ssub := nat.
Definition closer := nat.

Inductive cpc := CNew | CLoop (todo : list ssub) | CDone.   (* CDone: the Close call has finished its critical section *)
Inductive wpc := WNew | WUnsubd | WDeleted.                 (* scopeSub.Unsubscribe of one wrapper *)

Record kstate := {
  k_mu : option closer;        (* sc.mu held across the loop of Close by this closer; None = free *)
  k_closed : bool;             (* sc.closed *)
  k_tracked : list ssub;       (* keys of sc.subs *)
  k_added : list ssub;         (* ghost: every subscription Track ever accepted *)
  k_unsubd : ssub -> bool;     (* the subscription's own Unsubscribe has returned at least once *)
  k_cpc : closer -> cpc;
  k_wpc : ssub -> wpc
}.

Inductive klabel :=
| KTrackNil (x : ssub)               (* Track: sc.closed, returns nil *)
| KTrackAdd (x : ssub)               (* Track: sc.subs[ss] = struct{}{} *)
| KCloseSkip (k : closer)            (* Close: already closed, returns *)
| KCloseBegin (k : closer)           (* Close: sc.closed = true (sc.mu stays held) *)
| KCloseUnsub (k : closer) (x : ssub)  (* Close: s.s.Unsubscribe() returned for one tracked subscription *)
| KCloseDone (k : closer)            (* Close: sc.subs = nil; unlock; return *)
| KWUnsub (x : ssub)                 (* scopeSub.Unsubscribe: s.s.Unsubscribe() returned (no lock held) *)
| KWDel (x : ssub).                  (* scopeSub.Unsubscribe: delete(s.sc.subs, s) under sc.mu *)

Definition kupd {A} (f : nat -> A) (k : nat) (v : A) : nat -> A := fun x => if Nat.eqb x k then v else f x.

Fixpoint kmem (x : ssub) (l : list ssub) : bool :=
  match l with [] => false | y :: t => Nat.eqb y x || kmem x t end.
Fixpoint kremove (x : ssub) (l : list ssub) : list ssub :=
  match l with [] => [] | y :: t => if Nat.eqb y x then kremove x t else y :: kremove x t end.

Definition kinit : kstate :=
  {| k_mu := None; k_closed := false; k_tracked := []; k_added := []; k_unsubd := fun _ => false;
     k_cpc := fun _ => CNew; k_wpc := fun _ => WNew |}.

Definition mu_free (st : kstate) : bool := match k_mu st with None => true | Some _ => false end.

Definition kstep (st : kstate) (l : klabel) : option kstate :=
  match l with
  | KTrackNil x => if mu_free st && k_closed st then Some st else None
  | KTrackAdd x =>
      if mu_free st && negb (k_closed st) && negb (kmem x (k_added st)) then
        Some {| k_mu := k_mu st; k_closed := k_closed st; k_tracked := x :: k_tracked st; k_added := x :: k_added st;
                k_unsubd := k_unsubd st; k_cpc := k_cpc st; k_wpc := k_wpc st |}
      else None
  | KCloseSkip k =>
      match k_cpc st k with
      | CNew => if mu_free st && k_closed st then
                  Some {| k_mu := k_mu st; k_closed := k_closed st; k_tracked := k_tracked st; k_added := k_added st;
                          k_unsubd := k_unsubd st; k_cpc := kupd (k_cpc st) k CDone; k_wpc := k_wpc st |}
                else None
      | _ => None
      end
  | KCloseBegin k =>
      match k_cpc st k with
      | CNew => if mu_free st && negb (k_closed st) then
                  Some {| k_mu := Some k; k_closed := true; k_tracked := k_tracked st; k_added := k_added st;
                          k_unsubd := k_unsubd st; k_cpc := kupd (k_cpc st) k (CLoop (k_tracked st)); k_wpc := k_wpc st |}
                else None
      | _ => None
      end
  | KCloseUnsub k x =>
      match k_cpc st k with
      | CLoop todo => if kmem x todo then
                        Some {| k_mu := k_mu st; k_closed := k_closed st; k_tracked := k_tracked st; k_added := k_added st;
                                k_unsubd := kupd (k_unsubd st) x true; k_cpc := kupd (k_cpc st) k (CLoop (kremove x todo)); k_wpc := k_wpc st |}
                      else None
      | _ => None
      end
  | KCloseDone k =>
      match k_cpc st k with
      | CLoop [] => Some {| k_mu := None; k_closed := k_closed st; k_tracked := []; k_added := k_added st;
                            k_unsubd := k_unsubd st; k_cpc := kupd (k_cpc st) k CDone; k_wpc := k_wpc st |}
      | _ => None
      end
  | KWUnsub x =>
      match k_wpc st x with
      | WNew => Some {| k_mu := k_mu st; k_closed := k_closed st; k_tracked := k_tracked st; k_added := k_added st;
                        k_unsubd := kupd (k_unsubd st) x true; k_cpc := k_cpc st; k_wpc := kupd (k_wpc st) x WUnsubd |}
      | _ => None
      end
  | KWDel x =>
      match k_wpc st x with
      | WUnsubd => if mu_free st then
                     Some {| k_mu := k_mu st; k_closed := k_closed st; k_tracked := kremove x (k_tracked st); k_added := k_added st;
                             k_unsubd := k_unsubd st; k_cpc := k_cpc st; k_wpc := kupd (k_wpc st) x WDeleted |}
                   else None
      | _ => None
      end
  end.

Fixpoint krun_from (st : kstate) (tr : list klabel) (n : nat) : kstate + nat :=
  match tr with
  | [] => inl st
  | l :: t => match kstep st l with Some st' => krun_from st' t (S n) | None => inr n end
  end.
Fixpoint krun (st : kstate) (tr : list klabel) : option kstate :=
  match tr with
  | [] => Some st
  | l :: t => match kstep st l with Some st' => krun st' t | None => None end
  end.
