(* Feed/MuxProofs.v — TypeMux: copy-on-write discipline and exactly-once delivery to the snapshot. *)
From Coq Require Import List Arith Bool Lia.
From AQ Require Import Feed.FeedLTS Feed.FeedProofs Feed.MuxLTS.
Import ListNotations.

Lemma sst_eqb_eq : forall a b, sst_eqb a b = true -> a = b.
Proof. destruct a, b; simpl; intros; try discriminate; auto. Qed.

Ltac mbools :=
  repeat match goal with
  | H : _ && _ = true |- _ => apply andb_true_iff in H; destruct H
  | H : _ || _ = true |- _ => apply orb_true_iff in H
  | H : negb _ = true |- _ => apply negb_true_iff in H
  | H : sst_eqb _ _ = true |- _ => apply sst_eqb_eq in H
  | H : Nat.eqb _ _ = true |- _ => apply Nat.eqb_eq in H
  | H : Nat.eqb _ _ = false |- _ => apply Nat.eqb_neq in H
  | H : Nat.ltb _ _ = true |- _ => apply Nat.ltb_lt in H
  | H : Nat.ltb _ _ = false |- _ => apply Nat.ltb_ge in H
  | H : Nat.leb _ _ = true |- _ => apply Nat.leb_le in H
  end.

Ltac minv H :=
  unfold mstep in H;
  match type of H with (if mpanic ?st then _ else _) = _ => destruct (mpanic st) eqn:Hpan; [discriminate|] end;
  match type of H with match ?l with _ => _ end = _ => destruct l end;
  repeat match type of H with
  | (if ?b then _ else _) = Some _ => let E := fresh "G" in destruct b eqn:E; [|discriminate]
  | match ?x with _ => _ end = Some _ => let E := fresh "M" in destruct x eqn:E; try discriminate
  | (let _ := _ in _) = Some _ => cbv zeta in H
  end;
  inversion H; subst; clear H; mbools.

Ltac mupdc :=
  repeat match goal with
  | |- context [mupd _ ?k _ ?x] => unfold mupd at 1; let E := fresh "U" in destruct (Nat.eqb x k) eqn:E; mbools; subst
  | H : context [mupd _ ?k _ ?x] |- _ => unfold mupd in H at 1; let E := fresh "U" in destruct (Nat.eqb x k) eqn:E; mbools; subst
  end.

(* ---------------------------------------------------------------- copy-on-write *)
(* published arrays are never written again: every step leaves heap a unchanged for a < nexta,
   and only ever allocates at nexta *)
Lemma heap_stable : forall st l st', mstep st l = Some st' ->
  nexta st <= nexta st' /\ forall a, a < nexta st -> heap st' a = heap st a.
Proof.
  intros st l st' H. minv H; unfold publish, set_sstat, set_ppc, set_subm, set_flags, set_mpanic; simpl; split; auto; intros a0 L.
  all: unfold mupd; destruct (Nat.eqb a0 (nexta st)) eqn:E; auto; mbools; lia.
Qed.

(* ---------------------------------------------------------------- list facts *)
Lemma mfind_none : forall s l, mfind s l = None -> ~ In s l.
Proof.
  induction l as [|x t IH]; simpl; intros H; [tauto|].
  destruct (Nat.eqb x s) eqn:E; [discriminate|]. mbools.
  destruct (mfind s t); [discriminate|]. intros [A|A]; auto. apply IH; auto.
Qed.

Lemma skipn_S_tl : forall (l : list sub) n, skipn (S n) l = tl (skipn n l).
Proof.
  induction l as [|a l IH]; intros n.
  - destruct n; reflexivity.
  - destruct n; [reflexivity|]. change (skipn (S (S n)) (a :: l)) with (skipn (S n) l).
    change (skipn (S n) (a :: l)) with (skipn n l). apply IH.
Qed.

Lemma nodup_posdelete : forall (l : list sub) pos, NoDup l -> NoDup (posdelete l pos).
Proof.
  intros l pos ND. unfold posdelete. rewrite <- (firstn_skipn pos l) in ND.
  destruct (skipn pos l) as [|x r] eqn:E.
  - assert (skipn (S pos) l = []).
    { apply (f_equal (@length sub)) in E. rewrite skipn_length in E. simpl in E.
      apply length_zero_iff_nil. rewrite skipn_length. lia. }
    rewrite H, app_nil_r. rewrite app_nil_r in ND. auto.
  - assert (skipn (S pos) l = r).
    { rewrite skipn_S_tl, E. reflexivity. }
    rewrite H. apply NoDup_remove_1 in ND. auto.
Qed.

Lemma in_posdelete : forall (l : list sub) pos x, In x (posdelete l pos) -> In x l.
Proof.
  intros l pos x H. unfold posdelete in H. apply in_app_or in H.
  rewrite <- (firstn_skipn pos l). apply in_or_app. destruct H as [H|H]; auto. right.
  rewrite skipn_S_tl in H.
  destruct (skipn pos l); simpl in H; [destruct H|]. right; auto.
Qed.

Lemma nodup_firstn : forall (l : list sub) n, NoDup l -> NoDup (firstn n l).
Proof. intros l n ND. rewrite <- (firstn_skipn n l) in ND. apply (nodup_app_l _ _ ND). Qed.

Lemma firstn_S_nth : forall (l : list sub) i s, nth_error l i = Some s -> firstn (S i) l = firstn i l ++ [s].
Proof.
  induction l as [|x t IH]; intros i s H; destruct i; simpl in *; try discriminate.
  - inversion H; auto.
  - f_equal. apply IH; auto.
Qed.

Lemma nth_error_firstn_lt : forall (l : list sub) n i, i < n -> nth_error (firstn n l) i = nth_error l i.
Proof.
  induction l as [|x t IH]; intros n i L; destruct n, i; simpl; auto; try lia. apply IH. lia.
Qed.

Lemma nodup_nth_not_in_firstn : forall (l : list sub) i s, NoDup l -> nth_error l i = Some s -> ~ In s (firstn i l).
Proof.
  intros l i s ND N A. pose proof (firstn_S_nth _ _ _ N) as E.
  pose proof (nodup_firstn l (S i) ND) as ND2. rewrite E in ND2.
  apply NoDup_remove_2 in ND2. rewrite app_nil_r in ND2. auto.
Qed.

Lemma In_firstn_in : forall (l : list sub) n x, In x (firstn n l) -> In x l.
Proof. intros l n x H. rewrite <- (firstn_skipn n l). apply in_or_app; auto. Qed.

Lemma mcount_cons : forall p s p0 s0 lg,
  mcount p0 s0 ((p, s) :: lg) = (if Nat.eqb p p0 && Nat.eqb s s0 then 1 else 0) + mcount p0 s0 lg.
Proof. reflexivity. Qed.

(* ---------------------------------------------------------------- invariant *)
Record MI (st : mstate) : Prop := {
  m_subm : forall t a len, subm st t = Some (a, len) -> a < nexta st /\ len = length (heap st a) /\ NoDup (heap st a);
  m_members : forall a s, a < nexta st -> In s (heap st a) -> sstat st s <> UNone;
  m_iter : forall p a len i, ppcs st p = PIter a len i ->
     (a < nexta st \/ len = 0) /\ firstn len (heap st a) = snap st p /\ NoDup (snap st p) /\ i <= len;
  m_snap : forall p s, In s (snap st p) -> sstat st s <> UNone;
  m_iterlen : forall p a len i, ppcs st p = PIter a len i -> len <= length (heap st a);
  m_types : forall t x, subm st t = Some x -> In t (mtypes st);
  m_stopped : stopped st = true -> forall t, subm st t = None
}.

Lemma MI_init : MI minit.
Proof. constructor; simpl; intros; try discriminate; try lia; tauto. Qed.

Lemma publish_ok : forall st t (l : list sub) tx ax lx,
  (forall t a len, subm st t = Some (a, len) -> a < nexta st /\ len = length (heap st a) /\ NoDup (heap st a)) ->
  NoDup l ->
  mupd (subm st) t (Some (nexta st, length l)) tx = Some (ax, lx) ->
  ax < Datatypes.S (nexta st) /\ lx = length (mupd (heap st) (nexta st) l ax) /\ NoDup (mupd (heap st) (nexta st) l ax).
Proof.
  intros st t l tx ax lx HS ND E. unfold mupd in *. destruct (Nat.eqb tx t) eqn:Et.
  - inversion E; subst. rewrite Nat.eqb_refl. auto.
  - destruct (HS _ _ _ E) as (A & B & C). destruct (Nat.eqb ax (nexta st)) eqn:Ea; mbools; [lia|]. auto.
Qed.

Lemma step_m_subm : forall st l st', MI st -> mstep st l = Some st' ->
  forall t a len, subm st' t = Some (a, len) -> a < nexta st' /\ len = length (heap st' a) /\ NoDup (heap st' a).
Proof.
  intros st l st' I H. pose proof (m_subm _ I) as HS.
  minv H; unfold publish, set_sstat, set_ppc, set_subm, set_flags, set_mpanic; simpl; intros tx ax lx E; auto.
  all: try solve [eapply HS; eauto].
  - (* SubAdd *) eapply publish_ok; eauto.
    apply mfind_none in M. destruct (subm st t) as [[a len]|] eqn:Es; simpl in *.
    + destruct (HS _ _ _ Es) as (_ & B & C). subst len. rewrite firstn_all in *.
      eapply Permutation.Permutation_NoDup; [apply Permutation.Permutation_cons_append|]. constructor; auto.
    + constructor; auto. constructor.
  - (* Del, len = 1 *) unfold mupd in E. destruct (Nat.eqb tx t); [discriminate|]. eapply HS; eauto.
  - (* Del *) eapply publish_ok; eauto. apply nodup_posdelete. apply nodup_firstn. destruct (HS _ _ _ M) as (_ & _ & C). auto.
  - discriminate.
Qed.

Lemma step_m_members : forall st l st', MI st -> mstep st l = Some st' ->
  forall a s, a < nexta st' -> In s (heap st' a) -> sstat st' s <> UNone.
Proof.
  intros st l st' I H. pose proof (m_members _ I) as HM. pose proof (m_subm _ I) as HS.
  minv H; unfold publish, set_sstat, set_ppc, set_subm, set_flags, set_mpanic; simpl; intros ax sx L Hin; auto.
  all: try solve [eapply HM; eauto].
  all: try solve [mupdc; try discriminate; try congruence; eapply HM; eauto].
  - unfold mupd in Hin. destruct (Nat.eqb ax (nexta st)) eqn:E; mbools; [|eapply HM; eauto; lia].
    apply in_app_or in Hin. destruct Hin as [Hin|[<-|[]]]; [|congruence].
    destruct (subm st t) as [[a len]|] eqn:Es; simpl in Hin; [|destruct Hin].
    destruct (HS _ _ _ Es) as (A & _ & _). eapply HM; eauto. eapply In_firstn_in; eauto.
  - unfold mupd in Hin. destruct (Nat.eqb ax (nexta st)) eqn:E; mbools; [|eapply HM; eauto; lia].
    apply in_posdelete in Hin. destruct (HS _ _ _ M) as (A & _ & _). eapply HM; eauto. eapply In_firstn_in; eauto.
Qed.

Lemma cur_some : forall st p a len i s, cur st p = Some (a, len, i, s) ->
  ppcs st p = PIter a len i /\ i < len /\ nth_error (heap st a) i = Some s.
Proof.
  intros st p a len i s H. unfold cur in H. destruct (ppcs st p); try discriminate.
  destruct (Nat.ltb i0 len0) eqn:L; [|discriminate]. destruct (nth_error (heap st a0) i0) eqn:N; [|discriminate].
  inversion H; subst. mbools. auto.
Qed.

Lemma firstn_mupd_heap : forall st (l : list sub) ax lx, (ax < nexta st \/ lx = 0) ->
  firstn lx (mupd (heap st) (nexta st) l ax) = firstn lx (heap st ax).
Proof.
  intros st l ax lx [A|A]; unfold mupd.
  - destruct (Nat.eqb ax (nexta st)) eqn:E; mbools; auto. lia.
  - subst. reflexivity.
Qed.

Lemma step_m_iter : forall st l st', MI st -> mstep st l = Some st' ->
  forall p a len i, ppcs st' p = PIter a len i ->
     (a < nexta st' \/ len = 0) /\ firstn len (heap st' a) = snap st' p /\ NoDup (snap st' p) /\ i <= len.
Proof.
  intros st l st' I H. pose proof (m_iter _ I) as HI. pose proof (m_subm _ I) as HS.
  minv H; unfold publish, set_sstat, set_ppc, set_subm, set_flags, set_mpanic; simpl; intros px ax lx ix E; auto.
  all: try solve [eapply HI; eauto].
  all: try match goal with M : cur _ _ = Some _ |- _ => destruct (cur_some _ _ _ _ _ _ M) as (Cp & Ci & Cn) end.
  all: try solve [destruct (HI _ _ _ _ E) as (A & B & C & D); rewrite firstn_mupd_heap by auto; repeat split; auto; destruct A; [left; lia | right; auto]].
  all: unfold mupd in E; destruct (Nat.eqb px p) eqn:Ep; mbools; subst; try discriminate; try solve [eapply HI; eauto].
  all: try solve [inversion E; subst; destruct (HI _ _ _ _ Cp) as (A & B & C & D); repeat split; auto].
  - inversion E; subst. rewrite (proj2 (Nat.eqb_eq p p) eq_refl) || unfold mupd; rewrite ?Nat.eqb_refl.
    destruct (subm st (ptyp st p)) as [[a' n']|] eqn:Es; inversion M0; subst; simpl.
    + destruct (HS _ _ _ Es) as (A & B & C). repeat split; auto; try lia; try (apply nodup_firstn; auto).
    + repeat split; auto; try lia; try constructor.
  - unfold mupd. apply Nat.eqb_neq in Ep. rewrite Ep. eapply HI; eauto.
Qed.

Lemma step_m_snap : forall st l st', MI st -> mstep st l = Some st' ->
  forall p s, In s (snap st' p) -> sstat st' s <> UNone.
Proof.
  intros st l st' I H. pose proof (m_snap _ I) as HP. pose proof (m_members _ I) as HM. pose proof (m_subm _ I) as HS.
  minv H; unfold publish, set_sstat, set_ppc, set_subm, set_flags, set_mpanic; simpl; intros px sx Hin; auto.
  all: try solve [eapply HP; eauto].
  all: try solve [mupdc; try discriminate; try congruence; eapply HP; eauto].
  (* PostSnap *)
  unfold mupd in Hin. destruct (Nat.eqb px p) eqn:E; [|eapply HP; eauto].
  destruct (subm st (ptyp st p)) as [[a' n']|] eqn:Es; simpl in Hin; [|destruct Hin].
  destruct (HS _ _ _ Es) as (A & _ & _). eapply HM; eauto. eapply In_firstn_in; eauto.
Qed.

Lemma step_m_iterlen : forall st l st', MI st -> mstep st l = Some st' ->
  forall p a len i, ppcs st' p = PIter a len i -> len <= length (heap st' a).
Proof.
  intros st l st' I H. pose proof (m_iterlen _ I) as HL. pose proof (m_iter _ I) as HI. pose proof (m_subm _ I) as HS.
  minv H; unfold publish, set_sstat, set_ppc, set_subm, set_flags, set_mpanic; simpl; intros px ax lx ix E; auto.
  all: try solve [eapply HL; eauto].
  all: try match goal with M : cur _ _ = Some _ |- _ => destruct (cur_some _ _ _ _ _ _ M) as (Cp & Ci & Cn) end.
  all: try solve [pose proof (HL _ _ _ _ E); destruct (HI _ _ _ _ E) as (A & _); unfold mupd; destruct (Nat.eqb ax (nexta st)) eqn:Q; mbools; auto; destruct A; lia].
  all: unfold mupd in E; destruct (Nat.eqb px p) eqn:Ep; mbools; subst; try discriminate; try solve [eapply HL; eauto].
  all: try solve [inversion E; subst; eapply HL; eauto].
  (* PostSnap *)
  inversion E; subst. destruct (subm st (ptyp st p)) as [[a' n']|] eqn:Es; inversion M0; subst; [|lia].
  destruct (HS _ _ _ Es) as (_ & B & _). lia.
Qed.

Lemma step_m_types : forall st l st', MI st -> mstep st l = Some st' ->
  forall t x, subm st' t = Some x -> In t (mtypes st').
Proof.
  intros st l st' I H. pose proof (m_types _ I) as HT.
  minv H; unfold publish, set_sstat, set_ppc, set_subm, set_flags, set_mpanic; simpl; intros tx x E; eauto.
  all: try solve [unfold mupd in E; destruct (Nat.eqb tx t) eqn:Q; mbools; subst; [try discriminate; left; auto | try right; eauto]].
  discriminate.
Qed.

Lemma step_m_stopped : forall st l st', MI st -> mstep st l = Some st' ->
  stopped st' = true -> forall t, subm st' t = None.
Proof.
  intros st l st' I H. pose proof (m_stopped _ I) as HP.
  minv H; unfold publish, set_sstat, set_ppc, set_subm, set_flags, set_mpanic; simpl; intros S tx; auto; try congruence.
  all: try solve [unfold mupd; destruct (Nat.eqb tx t); auto].
  all: try solve [rewrite (HP S t) in M; discriminate].
Qed.

Lemma MI_step : forall st l st', MI st -> mstep st l = Some st' -> MI st'.
Proof.
  intros st l st' I H. constructor.
  - eapply step_m_subm; eauto.
  - eapply step_m_members; eauto.
  - eapply step_m_iter; eauto.
  - eapply step_m_snap; eauto.
  - eapply step_m_iterlen; eauto.
  - eapply step_m_types; eauto.
  - eapply step_m_stopped; eauto.
Qed.


