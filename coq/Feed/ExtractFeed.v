(* Extraction of the feed and TypeMux LTSs for ocaml/feed/driver.ml.  ExtrOcamlBasic only. *)
From AQ Require Import Lib.Bytes Lib.ExtractBase Feed.FeedLTS Feed.MuxLTS Feed.DupLTS Feed.ScopeLTS Feed.PostMuLTS.
Require Extraction.
Require Import ExtrOcamlBasic.
Extraction "../ocaml/feed/model.ml" base_anchor init step enabled run_from internal count_log count_snd chan_log
  minit mstep mrun_from mcount dinit dstep drun_from cnt kinit kstep krun_from pinit pstep prun_from.
