(* Extraction of the feed LTS for ocaml/feed/driver.ml.  ExtrOcamlBasic only. *)
From AQ Require Import Lib.Bytes Lib.ExtractBase Feed.FeedLTS.
Require Extraction.
Require Import ExtrOcamlBasic.
Extraction "../ocaml/feed/model.ml" base_anchor init step enabled run_from internal count_log count_snd chan_log.
