(* Feed/PostMuProofs.v — no send on a closed channel; neither deliver nor closewait can block forever. *)
From Coq Require Import List Arith Bool Lia.
From AQ Require Import Feed.PostMuLTS.
Import ListNotations.

Definition preachable (st : pstate) : Prop := exists tr, prun pinit tr = Some st.

Definition PI (st : pstate) : Prop :=
  p_bad st = false /\ (0 < p_ro st -> p_closed st = false) /\ (p_closed st = true -> p_closing st = true) /\
  (0 < p_rn st -> p_closed st = true).

Lemma PI_init : PI pinit.
Proof. unfold PI; simpl. repeat split; auto; intros; try lia; discriminate. Qed.

Lemma PI_step : forall st l st', PI st -> pstep st l = Some st' -> PI st'.
Proof.
  intros st l st' (B & R & C & N) H. unfold PI. destruct l; simpl in H.
  - destruct (p_closed st) eqn:E; inversion H; subst; simpl; repeat split; auto; intros; try lia; try (apply R; lia); try (apply N; lia).
  - destruct (p_ro st) as [|n] eqn:Q; [discriminate|]. inversion H; subst; simpl.
    assert (X : p_closed st = false) by (apply R; lia).
    split; [rewrite B, X; reflexivity|]. split; [intros _; exact X|]. split; [exact C|exact N].
  - destruct (p_closing st) eqn:Cg; [|discriminate].
    destruct (p_rn st) as [|n] eqn:Qn; [destruct (p_ro st) as [|m] eqn:Qo; [discriminate|]|]; inversion H; subst; simpl; repeat split; auto; intros; try lia; try (apply R; lia); try (apply N; lia).
  - destruct (p_closing st) eqn:Cg; [discriminate|]. inversion H; subst; simpl. repeat split; auto.
  - destruct (p_closing st && negb (p_closed st) && Nat.eqb (p_ro st + p_rn st) 0) eqn:G; [|discriminate].
    inversion H; subst; simpl. repeat split; auto; intros; lia.
Qed.

Lemma preachable_PI : forall st, preachable st -> PI st.
Proof.
  intros st [tr R]. revert R. generalize PI_init. generalize pinit.
  induction tr as [|l t IH]; simpl; intros s0 I0 R.
  - inversion R; subst; auto.
  - destruct (pstep s0 l) eqn:E; [|discriminate]. eapply IH; [|exact R]. eapply PI_step; eauto.
Qed.

(* no interleaving of deliver and closewait sends on a closed channel: a send only ever completes while postC is open *)
Theorem postmu_no_send_on_closed : forall st, preachable st ->
  p_bad st = false /\ (forall st', pstep st PSent = Some st' -> p_closed st = false /\ p_bad st' = false).
Proof.
  intros st R. destruct (preachable_PI _ R) as (B & Ro & C & N). split; auto.
  intros st' H. simpl in H. destruct (p_ro st) as [|n] eqn:Q; [discriminate|].
  assert (X : p_closed st = false) by (apply Ro; lia). inversion H; subst; simpl. rewrite X, B. auto.
Qed.

(* nobody blocks forever because of a concurrent Unsubscribe / Stop: once closing is closed every deliver that holds
   the read lock can leave through `case <-s.closing`, and when none is left closewait's postMu.Lock() is granted *)
Theorem postmu_no_block : forall st, preachable st -> p_closing st = true ->
  (0 < p_ro st + p_rn st -> pstep st PClosedCase <> None) /\
  (p_ro st + p_rn st = 0 -> p_closed st = false -> pstep st PClose <> None).
Proof.
  intros st R Cg. split; intros H.
  - simpl. rewrite Cg. destruct (p_rn st); [destruct (p_ro st); [simpl in H; lia|]|]; discriminate.
  - intros Cl. simpl. rewrite Cg, Cl, H. simpl. discriminate.
Qed.
