(* Feed/DupLTS.v — the Feed LTS WITHOUT the restriction "a channel value is subscribed at most once".
   Same labels and same slice operations as Feed/FeedLTS.v (feed.go), but:
   - Subscribe of a channel that is already subscribed simply appends another case with the same
     channel to the inbox (feed.go does not look at the channel's identity);
   - `remove` works by CHANNEL identity: `find` returns the first case whose channel is the one of the
     feedSub being unsubscribed, whichever subscription that case was created by; several removers
     may therefore be under way for one channel, and they are indistinguishable: the state keeps, per
     channel, how many removers are at each program point (instead of one pc per channel);
   - a remover may only be started while there are more subscriptions than removers (every
     Unsubscribe that reaches `remove` belongs to a distinct feedSub because of errOnce).
   Definitions only; proofs in DupProofs.v. *)
From Coq Require Import List Arith Bool.
From AQ Require Import Feed.FeedLTS.
Import ListNotations.

(* removers of one channel, by program point of remove() *)
Record rcnt := { r_called : nat; r_sel : nat; r_hand : nat; r_done : nat; r_ret : nat }.

Record dstate := {
  d_inbox : list chan;
  d_arr : list chan;                 (* f.sendCases[1:], possibly with repeated channels *)
  d_lock : option owner;
  d_sndr : sid -> sender;
  d_cases0 : sid -> list chan;       (* ghost: sendCases right after this Send merged the inbox *)
  d_rem : chan -> rcnt;
  d_chs : chan -> chst;
  d_nsub : chan -> nat;              (* ghost: Subscribe calls on this channel so far *)
  d_log : list (sid * chan);         (* ghost: deliveries, newest first *)
  d_panicked : bool
}.

Definition dinit : dstate :=
  {| d_inbox := []; d_arr := []; d_lock := None;
     d_sndr := fun _ => {| s_pc := SNew; s_k := 0; s_nsent := 0 |};
     d_cases0 := fun _ => [];
     d_rem := fun _ => {| r_called := 0; r_sel := 0; r_hand := 0; r_done := 0; r_ret := 0 |};
     d_chs := fun _ => {| c_subd := false; c_cap := 0; c_buf := []; c_wait := 0; c_recvd := [] |};
     d_nsub := fun _ => 0; d_log := []; d_panicked := false |}.

Definition dset_snd st s x := {| d_inbox := d_inbox st; d_arr := d_arr st; d_lock := d_lock st; d_sndr := upd (d_sndr st) s x;
  d_cases0 := d_cases0 st; d_rem := d_rem st; d_chs := d_chs st; d_nsub := d_nsub st; d_log := d_log st; d_panicked := d_panicked st |}.
Definition dset_rem st c x := {| d_inbox := d_inbox st; d_arr := d_arr st; d_lock := d_lock st; d_sndr := d_sndr st;
  d_cases0 := d_cases0 st; d_rem := upd (d_rem st) c x; d_chs := d_chs st; d_nsub := d_nsub st; d_log := d_log st; d_panicked := d_panicked st |}.
Definition dset_ch st c x := {| d_inbox := d_inbox st; d_arr := d_arr st; d_lock := d_lock st; d_sndr := d_sndr st;
  d_cases0 := d_cases0 st; d_rem := d_rem st; d_chs := upd (d_chs st) c x; d_nsub := d_nsub st; d_log := d_log st; d_panicked := d_panicked st |}.
Definition dset_lock st o := {| d_inbox := d_inbox st; d_arr := d_arr st; d_lock := o; d_sndr := d_sndr st;
  d_cases0 := d_cases0 st; d_rem := d_rem st; d_chs := d_chs st; d_nsub := d_nsub st; d_log := d_log st; d_panicked := d_panicked st |}.
Definition dset_lists st ib ar := {| d_inbox := ib; d_arr := ar; d_lock := d_lock st; d_sndr := d_sndr st;
  d_cases0 := d_cases0 st; d_rem := d_rem st; d_chs := d_chs st; d_nsub := d_nsub st; d_log := d_log st; d_panicked := d_panicked st |}.
Definition dset_log st lg := {| d_inbox := d_inbox st; d_arr := d_arr st; d_lock := d_lock st; d_sndr := d_sndr st;
  d_cases0 := d_cases0 st; d_rem := d_rem st; d_chs := d_chs st; d_nsub := d_nsub st; d_log := lg; d_panicked := d_panicked st |}.
Definition dset_cases0 st s l := {| d_inbox := d_inbox st; d_arr := d_arr st; d_lock := d_lock st; d_sndr := d_sndr st;
  d_cases0 := upd (d_cases0 st) s l; d_rem := d_rem st; d_chs := d_chs st; d_nsub := d_nsub st; d_log := d_log st; d_panicked := d_panicked st |}.
Definition dset_nsub st c n := {| d_inbox := d_inbox st; d_arr := d_arr st; d_lock := d_lock st; d_sndr := d_sndr st;
  d_cases0 := d_cases0 st; d_rem := d_rem st; d_chs := d_chs st; d_nsub := upd (d_nsub st) c n; d_log := d_log st; d_panicked := d_panicked st |}.
Definition dset_panicked st := {| d_inbox := d_inbox st; d_arr := d_arr st; d_lock := d_lock st; d_sndr := d_sndr st;
  d_cases0 := d_cases0 st; d_rem := d_rem st; d_chs := d_chs st; d_nsub := d_nsub st; d_log := d_log st; d_panicked := true |}.

Definition ddeliver (st : dstate) (s : sid) (c : chan) (i : nat) (next : spc) : dstate :=
  let sd := d_sndr st s in
  let st1 := dset_ch st c (push (d_chs st c) s) in
  let st2 := dset_log st1 ((s, c) :: d_log st) in
  let st3 := dset_lists st2 (d_inbox st) (deactivate (d_arr st) (s_k sd) i) in
  dset_snd st3 s {| s_pc := next; s_k := s_k sd - 1; s_nsent := S (s_nsent sd) |}.

(* removers of c that have been started: each belongs to a distinct subscription *)
Definition r_total (r : rcnt) : nat := r_called r + r_sel r + r_hand r + r_done r + r_ret r.
Definition locked_by (st : dstate) (c : chan) : nat :=
  match d_lock st with Some (ORem c') => if Nat.eqb c' c then 1 else 0 | _ => 0 end.
Definition dlock_free (st : dstate) : bool := match d_lock st with None => true | Some _ => false end.

(* `hint` is only used by LSelSent: reflect.Select may choose ANY ready case; 0 = the first case of the
   channel, j+1 = the case at index j of `cases` (recorded by the select_index trace point) *)
Definition dstep (st : dstate) (l : label) (hint : nat) : option dstate :=
  if d_panicked st then None else
  match l with
  | LSubscribe c cap =>
      let ch := d_chs st c in
      Some (dset_nsub (dset_ch (dset_lists st (d_inbox st ++ [c]) (d_arr st)) c
              {| c_subd := true; c_cap := if c_subd ch then c_cap ch else cap; c_buf := c_buf ch; c_wait := c_wait ch; c_recvd := c_recvd ch |})
              c (S (d_nsub st c)))
  | LSendCall s =>
      if pc_eqb (s_pc (d_sndr st s)) SNew
      then Some (dset_snd st s {| s_pc := SCalled; s_k := 0; s_nsent := 0 |}) else None
  | LSendLock s =>
      if pc_eqb (s_pc (d_sndr st s)) SCalled && dlock_free st
      then Some (dset_lock (dset_snd st s {| s_pc := SLocked; s_k := 0; s_nsent := 0 |}) (Some (OSend s)))
      else None
  | LSendMerge s =>
      if pc_eqb (s_pc (d_sndr st s)) SLocked then
        let a := d_arr st ++ d_inbox st in
        Some (dset_cases0 (dset_snd (dset_lists st [] a) s {| s_pc := STry 0; s_k := length a; s_nsent := 0 |}) s a)
      else None
  | LSendBadType s =>
      if pc_eqb (s_pc (d_sndr st s)) SLocked then
        Some (dset_lock (dset_snd (dset_lists st [] (d_arr st ++ d_inbox st)) s {| s_pc := SPanicked; s_k := 0; s_nsent := 0 |}) None)
      else None
  | LTryOk s c =>
      match s_pc (d_sndr st s) with
      | STry i =>
          if Nat.ltb i (s_k (d_sndr st s)) then
            match nth_error (d_arr st) i with
            | Some c' => if Nat.eqb c' c && can_accept (d_chs st c) then Some (ddeliver st s c i (STry i)) else None
            | None => None
            end
          else None
      | _ => None
      end
  | LTryFail s c =>
      match s_pc (d_sndr st s) with
      | STry i =>
          if Nat.ltb i (s_k (d_sndr st s)) then
            match nth_error (d_arr st) i with
            | Some c' => if Nat.eqb c' c
                         then Some (dset_snd st s {| s_pc := STry (S i); s_k := s_k (d_sndr st s); s_nsent := s_nsent (d_sndr st s) |})
                         else None
            | None => None
            end
          else None
      | _ => None
      end
  | LSelectEnter s =>
      match s_pc (d_sndr st s) with
      | STry i =>
          if Nat.leb (s_k (d_sndr st s)) i && Nat.ltb 0 (s_k (d_sndr st s))
          then Some (dset_snd st s {| s_pc := SSelect; s_k := s_k (d_sndr st s); s_nsent := s_nsent (d_sndr st s) |}) else None
      | _ => None
      end
  | LSelSent s c =>
      match s_pc (d_sndr st s) with
      | SSelect =>
          let k := s_k (d_sndr st s) in
          let oj := match hint with
                    | 0 => cfind c (firstn k (d_arr st))
                    | S j => if Nat.ltb j k then match nth_error (d_arr st) j with
                                                 | Some c' => if Nat.eqb c' c then Some j else None
                                                 | None => None end
                             else None
                    end in
          match oj with
          | Some j => if can_accept (d_chs st c) then Some (ddeliver st s c j (STry 0)) else None
          | None => None
          end
      | _ => None
      end
  | LSelRemove s c =>
      match s_pc (d_sndr st s) with
      | SSelect =>
          if Nat.ltb 0 (r_sel (d_rem st c)) then
            match cfind c (d_arr st) with
            | None => Some (dset_panicked st)
            | Some idx =>
                let k := s_k (d_sndr st s) in
                let r := d_rem st c in
                let st1 := dset_lists st (d_inbox st) (delete idx (d_arr st)) in
                let st2 := dset_rem st1 c {| r_called := r_called r; r_sel := r_sel r - 1; r_hand := S (r_hand r); r_done := r_done r; r_ret := r_ret r |} in
                Some (dset_snd st2 s {| s_pc := STry 0; s_k := if Nat.ltb idx k then k - 1 else k; s_nsent := s_nsent (d_sndr st s) |})
            end
          else None
      | _ => None
      end
  | LSendUnlock s =>
      match s_pc (d_sndr st s) with
      | STry i =>
          if Nat.leb (s_k (d_sndr st s)) i && Nat.eqb (s_k (d_sndr st s)) 0
          then Some (dset_lock (dset_snd st s {| s_pc := SUnlocked; s_k := 0; s_nsent := s_nsent (d_sndr st s) |}) None) else None
      | _ => None
      end
  | LSendRet s n =>
      if pc_eqb (s_pc (d_sndr st s)) SUnlocked && Nat.eqb n (s_nsent (d_sndr st s))
      then Some (dset_snd st s {| s_pc := SDone; s_k := 0; s_nsent := s_nsent (d_sndr st s) |}) else None
  (* Unsubscribe of one more feedSub of channel c: only while there are more subscriptions than removers *)
  | LUnsubCall c =>
      let r := d_rem st c in
      if Nat.ltb (r_total r + locked_by st c) (d_nsub st c)
      then Some (dset_rem st c {| r_called := S (r_called r); r_sel := r_sel r; r_hand := r_hand r; r_done := r_done r; r_ret := r_ret r |})
      else None
  | LRemoveInbox c =>
      let r := d_rem st c in
      if Nat.ltb 0 (r_called r) then
        match cfind c (d_inbox st) with
        | Some idx => Some (dset_rem (dset_lists st (delete idx (d_inbox st)) (d_arr st)) c
                              {| r_called := r_called r - 1; r_sel := r_sel r; r_hand := r_hand r; r_done := S (r_done r); r_ret := r_ret r |})
        | None => None
        end
      else None
  | LRemoveNotInbox c =>
      let r := d_rem st c in
      if Nat.ltb 0 (r_called r) then
        match cfind c (d_inbox st) with
        | Some _ => None
        | None => Some (dset_rem st c {| r_called := r_called r - 1; r_sel := S (r_sel r); r_hand := r_hand r; r_done := r_done r; r_ret := r_ret r |})
        end
      else None
  | LRemoveLock c =>
      let r := d_rem st c in
      if Nat.ltb 0 (r_sel r) && dlock_free st then
        match cfind c (d_arr st) with
        | None => Some (dset_panicked st)
        | Some idx => Some (dset_rem (dset_lock (dset_lists st (d_inbox st) (delete idx (d_arr st))) (Some (ORem c))) c
                              {| r_called := r_called r; r_sel := r_sel r - 1; r_hand := r_hand r; r_done := r_done r; r_ret := r_ret r |})
        end
      else None
  | LRemoveUnlock c =>
      let r := d_rem st c in
      match d_lock st with
      | Some (ORem c') => if Nat.eqb c' c
                          then Some (dset_rem (dset_lock st None) c {| r_called := r_called r; r_sel := r_sel r; r_hand := r_hand r; r_done := S (r_done r); r_ret := r_ret r |})
                          else None
      | _ => None
      end
  | LRemoveHandoff c =>
      let r := d_rem st c in
      if Nat.ltb 0 (r_hand r)
      then Some (dset_rem st c {| r_called := r_called r; r_sel := r_sel r; r_hand := r_hand r - 1; r_done := S (r_done r); r_ret := r_ret r |}) else None
  | LUnsubRet c =>
      let r := d_rem st c in
      if Nat.ltb 0 (r_done r)
      then Some (dset_rem st c {| r_called := r_called r; r_sel := r_sel r; r_hand := r_hand r; r_done := r_done r - 1; r_ret := S (r_ret r) |}) else None
  | LRecvBegin c =>
      let ch := d_chs st c in
      Some (dset_ch st c {| c_subd := c_subd ch; c_cap := c_cap ch; c_buf := c_buf ch; c_wait := S (c_wait ch); c_recvd := c_recvd ch |})
  | LRecvEnd c v =>
      let ch := d_chs st c in
      match c_buf ch, c_wait ch with
      | x :: r, S w => if Nat.eqb x v
                       then Some (dset_ch st c {| c_subd := c_subd ch; c_cap := c_cap ch; c_buf := r; c_wait := w; c_recvd := v :: c_recvd ch |})
                       else None
      | _, _ => None
      end
  end.

Fixpoint drun_from (st : dstate) (tr : list (label * nat)) (n : nat) : dstate + nat :=
  match tr with
  | [] => inl st
  | (l, h) :: t => match dstep st l h with Some st' => drun_from st' t (S n) | None => inr n end
  end.

Fixpoint drun (st : dstate) (tr : list (label * nat)) : option dstate :=
  match tr with
  | [] => Some st
  | (l, h) :: t => match dstep st l h with Some st' => drun st' t | None => None end
  end.

Fixpoint cnt (c : chan) (l : list chan) : nat :=
  match l with [] => 0 | x :: t => (if Nat.eqb x c then 1 else 0) + cnt c t end.
