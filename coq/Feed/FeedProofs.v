(* Feed/FeedProofs.v — invariants of the feed LTS (FeedLTS.v), by induction on steps. *)
From Coq Require Import List Arith Bool Lia Permutation.
From AQ Require Import Feed.FeedLTS.
Import ListNotations.

(* ================================================================ lists *)

Lemma cfind_some : forall c l i, cfind c l = Some i ->
  exists l1 l2, l = l1 ++ c :: l2 /\ ~ In c l1 /\ length l1 = i.
Proof.
  induction l as [|x t IH]; intros i H; simpl in H; [discriminate|].
  destruct (Nat.eqb x c) eqn:E.
  - apply Nat.eqb_eq in E. inversion H; subst. exists [], t. simpl. auto.
  - destruct (cfind c t) as [j|] eqn:F; simpl in H; [|discriminate]. inversion H; subst.
    destruct (IH j eq_refl) as (l1 & l2 & -> & Hn & Hl).
    exists (x :: l1), l2. simpl. repeat split; auto.
    apply Nat.eqb_neq in E. intros [A|A]; auto.
Qed.

Lemma cfind_none : forall c l, cfind c l = None <-> ~ In c l.
Proof.
  induction l as [|x t IH]; simpl; [tauto|].
  destruct (Nat.eqb x c) eqn:E.
  - apply Nat.eqb_eq in E. split; [discriminate|]. intros H; exfalso; auto.
  - apply Nat.eqb_neq in E. destruct (cfind c t); simpl.
    + split; [discriminate|]. intros H. exfalso.
      assert (A : ~ In c t) by tauto. apply IH in A. discriminate.
    + split; auto. intros _ [A|A]; auto. apply IH in A; auto.
Qed.

Lemma cfind_in : forall c l, In c l -> exists i, cfind c l = Some i.
Proof.
  intros c l H. destruct (cfind c l) eqn:E; eauto. apply cfind_none in E. tauto.
Qed.

Lemma firstn_len_app : forall (l1 r : list chan), firstn (length l1) (l1 ++ r) = l1.
Proof. induction l1; simpl; intros; [destruct r; reflexivity | f_equal; auto]. Qed.
Lemma skipn_len_app : forall (l1 r : list chan), skipn (length l1) (l1 ++ r) = r.
Proof. induction l1; simpl; intros; auto. Qed.
Lemma skipn_S_len_app : forall (l1 r : list chan) x, skipn (S (length l1)) (l1 ++ x :: r) = r.
Proof. induction l1; simpl; intros; auto. apply IHl1. Qed.
Lemma firstn_S_len_app : forall (l1 r : list chan) x, firstn (S (length l1)) (l1 ++ x :: r) = l1 ++ [x].
Proof. induction l1; simpl; intros; [destruct r; reflexivity | f_equal; apply IHl1]. Qed.

Lemma delete_app : forall (l1 l2 : list chan) c, delete (length l1) (l1 ++ c :: l2) = l1 ++ l2.
Proof. intros. unfold delete. rewrite firstn_len_app, skipn_S_len_app. reflexivity. Qed.

(* the effect of sendCases.delete(sendCases.find(c)) *)
Lemma delete_find : forall c l i, cfind c l = Some i -> NoDup l ->
  exists l1 l2, l = l1 ++ c :: l2 /\ delete i l = l1 ++ l2 /\ length l1 = i /\ ~ In c (l1 ++ l2).
Proof.
  intros c l i H ND. destruct (cfind_some _ _ _ H) as (l1 & l2 & -> & Hn & Hl).
  exists l1, l2. subst i. rewrite delete_app. repeat split; auto.
  apply NoDup_remove_2 in ND. exact ND.
Qed.

Lemma nth_error_split' : forall (l : list chan) i x, nth_error l i = Some x ->
  exists l1 l2, l = l1 ++ x :: l2 /\ length l1 = i.
Proof. intros. apply nth_error_split; auto. Qed.

Lemma set_nth_app : forall (l1 l2 : list chan) x v, set_nth (length l1) v (l1 ++ x :: l2) = l1 ++ v :: l2.
Proof. intros. unfold set_nth. rewrite firstn_len_app, skipn_S_len_app. reflexivity. Qed.

(* cases.deactivate(i) on cases = l[:k]: afterwards l[:k-1] is the old l[:k] without
   x = l[i], and l[k-1:] = x :: old l[k:] *)
Lemma deactivate_spec : forall l k i, i < k -> k <= length l ->
  exists x, nth_error l i = Some x /\
    skipn (k - 1) (deactivate l k i) = x :: skipn k l /\
    Permutation (firstn k l) (x :: firstn (k - 1) (deactivate l k i)) /\
    length (deactivate l k i) = length l.
Proof.
  intros l k i Hik Hk.
  destruct (nth_error l i) as [a|] eqn:Ea; [|apply nth_error_None in Ea; lia].
  destruct (nth_error l (k - 1)) as [b|] eqn:Eb; [|apply nth_error_None in Eb; lia].
  exists a. split; auto. unfold deactivate. rewrite Ea, Eb.
  destruct (Nat.eq_dec i (k - 1)) as [E|E].
  - (* i is the last active index *)
    assert (a = b) by congruence. subst b.
    destruct (nth_error_split' _ _ _ Ea) as (l1 & l2 & -> & Hl).
    assert (Hk' : k = S (length l1)) by lia.
    rewrite <- E, <- Hl, set_nth_app, set_nth_app. rewrite Hk'.
    replace (S (length l1) - 1) with (length l1) by lia.
    rewrite skipn_len_app, skipn_S_len_app, firstn_len_app, firstn_S_len_app.
    repeat split. apply Permutation_sym, Permutation_cons_append.
  - (* i < k-1 : l = l1 ++ a :: l2 ++ b :: l3 *)
    destruct (nth_error_split' _ _ _ Ea) as (l1 & r & -> & Hl1).
    assert (Eb' : nth_error r (k - 1 - S i) = Some b).
    { rewrite nth_error_app2 in Eb by lia. rewrite Hl1 in Eb.
      replace (k - 1 - i) with (S (k - 1 - S i)) in Eb by lia. exact Eb. }
    destruct (nth_error_split' _ _ _ Eb') as (l2 & l3 & -> & Hl2).
    assert (Hk1 : k - 1 = length (l1 ++ a :: l2)) by (rewrite app_length; simpl; lia).
    assert (Hk2 : k - 1 = length (l1 ++ b :: l2)) by (rewrite app_length; simpl; lia).
    assert (X1 : l1 ++ a :: l2 ++ b :: l3 = (l1 ++ a :: l2) ++ b :: l3) by (rewrite <- app_assoc; reflexivity).
    assert (X2 : l1 ++ b :: l2 ++ a :: l3 = (l1 ++ b :: l2) ++ a :: l3) by (rewrite <- app_assoc; reflexivity).
    assert (R1 : set_nth (k - 1) a (l1 ++ a :: l2 ++ b :: l3) = l1 ++ a :: l2 ++ a :: l3).
    { rewrite X1, Hk1, set_nth_app, <- app_assoc. reflexivity. }
    rewrite R1. rewrite <- Hl1, set_nth_app.
    assert (Hk3 : k = S (length (l1 ++ a :: l2))) by lia.
    repeat split.
    + rewrite X2, Hk2, skipn_len_app. rewrite X1, Hk3, skipn_S_len_app. reflexivity.
    + rewrite X1. rewrite Hk3 at 1. rewrite firstn_S_len_app.
      rewrite X2, Hk2, firstn_len_app.
      rewrite <- app_assoc. simpl.
      apply Permutation_sym. apply Permutation_cons_app.
      apply Permutation_app_head. apply Permutation_cons_append.
    + rewrite !app_length. simpl. rewrite !app_length. simpl. lia.
Qed.

Lemma deactivate_perm : forall l k i, i < k -> k <= length l -> Permutation l (deactivate l k i).
Proof.
  intros l k i H1 H2. destruct (deactivate_spec l k i H1 H2) as (x & _ & Hs & Hp & _).
  rewrite <- (firstn_skipn k l) at 1.
  rewrite <- (firstn_skipn (k - 1) (deactivate l k i)). rewrite Hs.
  eapply Permutation_trans; [apply Permutation_app_tail, Hp|].
  simpl. apply Permutation_middle.
Qed.

(* delete at an index below / above the active length k *)
Lemma delete_low : forall (l1 l2 : list chan) c k, length l1 < k ->
  Permutation (firstn k (l1 ++ c :: l2)) (c :: firstn (k - 1) (l1 ++ l2)) /\
  skipn (k - 1) (l1 ++ l2) = skipn k (l1 ++ c :: l2).
Proof.
  induction l1 as [|a l1 IH]; intros l2 c k H; simpl in H.
  - destruct k; [lia|]. simpl. rewrite Nat.sub_0_r. split; auto.
  - destruct k; [lia|]. destruct (IH l2 c k) as (P & S); [lia|].
    destruct k; [lia|]. simpl in *. rewrite Nat.sub_0_r in *. split; [|exact S].
    eapply Permutation_trans; [apply perm_skip, P | apply perm_swap].
Qed.

Lemma delete_high : forall (l1 l2 : list chan) c k, k <= length l1 ->
  firstn k (l1 ++ l2) = firstn k (l1 ++ c :: l2) /\
  Permutation (skipn k (l1 ++ c :: l2)) (c :: skipn k (l1 ++ l2)).
Proof.
  induction l1 as [|a l1 IH]; intros l2 c k H; simpl in H.
  - replace k with 0 by lia. simpl. split; auto.
  - destruct k.
    + simpl. split; auto. apply Permutation_sym. apply (Permutation_middle (a :: l1) l2 c).
    + simpl. destruct (IH l2 c k) as (F & P); [lia|]. split; [f_equal; exact F | exact P].
Qed.

(* ================================================================ booleans, maps *)

Lemma pc_eqb_eq : forall a b, pc_eqb a b = true -> a = b.
Proof. destruct a, b; simpl; intros H; try discriminate; auto. apply Nat.eqb_eq in H. subst; auto. Qed.
Lemma rpc_eqb_eq : forall a b, rpc_eqb a b = true -> a = b.
Proof. destruct a, b; simpl; intros H; try discriminate; auto. Qed.
Lemma pc_eqb_refl : forall a, pc_eqb a a = true.
Proof. destruct a; simpl; auto. apply Nat.eqb_refl. Qed.
Lemma rpc_eqb_refl : forall a, rpc_eqb a a = true.
Proof. destruct a; simpl; auto. Qed.

Lemma upd_same : forall A (f : nat -> A) k v, upd f k v k = v.
Proof. intros. unfold upd. rewrite Nat.eqb_refl. reflexivity. Qed.
Lemma upd_other : forall A (f : nat -> A) k v x, x <> k -> upd f k v x = f x.
Proof. intros. unfold upd. apply Nat.eqb_neq in H. rewrite H. reflexivity. Qed.

Lemma lock_free_none : forall st, lock_free st = true -> lock st = None.
Proof. unfold lock_free. intros st. destruct (lock st); auto; discriminate. Qed.

(* turn the boolean guards of `step` into propositions *)
Ltac bools :=
  repeat match goal with
  | H : _ && _ = true |- _ => apply andb_true_iff in H; destruct H
  | H : negb _ = true |- _ => apply negb_true_iff in H
  | H : pc_eqb _ _ = true |- _ => apply pc_eqb_eq in H
  | H : rpc_eqb _ _ = true |- _ => apply rpc_eqb_eq in H
  | H : Nat.eqb _ _ = true |- _ => apply Nat.eqb_eq in H
  | H : Nat.eqb _ _ = false |- _ => apply Nat.eqb_neq in H
  | H : Nat.ltb _ _ = true |- _ => apply Nat.ltb_lt in H
  | H : Nat.ltb _ _ = false |- _ => apply Nat.ltb_ge in H
  | H : Nat.leb _ _ = true |- _ => apply Nat.leb_le in H
  | H : lock_free _ = true |- _ => apply lock_free_none in H
  end.

(* invert `step st l = Some st'` into one goal per label (and per branch) *)
Ltac inv_step H :=
  unfold step in H;
  match type of H with (if panicked ?st then _ else _) = _ => destruct (panicked st) eqn:Hpan; [discriminate|] end;
  match type of H with match ?l with _ => _ end = _ => destruct l end;
  repeat match type of H with
  | (if ?b then _ else _) = Some _ => let E := fresh "G" in destruct b eqn:E; [|discriminate]
  | match ?x with _ => _ end = Some _ => let E := fresh "M" in destruct x eqn:E; try discriminate
  | (let _ := _ in _) = Some _ => cbv zeta in H
  end;
  inversion H; subst; clear H; bools.

Ltac updc :=
  repeat match goal with
  | |- context [upd _ ?k _ ?x] => unfold upd at 1; let E := fresh "U" in destruct (Nat.eqb x k) eqn:E; bools; subst
  | H : context [upd _ ?k _ ?x] |- _ => unfold upd in H at 1; let E := fresh "U" in destruct (Nat.eqb x k) eqn:E; bools; subst
  end.

(* ================================================================ more list facts *)

Lemma cfind_lt : forall c l j, cfind c l = Some j -> j < length l.
Proof. intros c l j H. destruct (cfind_some _ _ _ H) as (l1 & l2 & -> & _ & <-). rewrite app_length. simpl. lia. Qed.

Lemma cfind_firstn : forall c l k j, cfind c (firstn k l) = Some j -> j < k /\ j < length l /\ nth_error l j = Some c.
Proof.
  intros c l k j H. pose proof (cfind_lt _ _ _ H) as L. rewrite firstn_length in L.
  destruct (cfind_some _ _ _ H) as (l1 & l2 & E & _ & Hl).
  repeat split; try lia.
  rewrite <- (firstn_skipn k l), E, <- app_assoc, <- Hl. rewrite nth_error_app2 by lia.
  rewrite Nat.sub_diag. reflexivity.
Qed.

Lemma nodup_app_r : forall (a b : list chan), NoDup (a ++ b) -> NoDup b.
Proof. induction a; simpl; intros; auto. inversion H; auto. Qed.
Lemma nodup_app_l : forall (a b : list chan), NoDup (a ++ b) -> NoDup a.
Proof. intros. apply (nodup_app_r b a). eapply Permutation_NoDup; [apply Permutation_app_comm|]; auto. Qed.

Lemma perm_in_iff : forall (a b : list chan) x, Permutation a b -> (In x a <-> In x b).
Proof. intros. split; apply Permutation_in; auto. apply Permutation_sym; auto. Qed.

Lemma delete_facts : forall c l n, cfind c l = Some n -> NoDup l ->
  (forall y, In y (delete n l) <-> In y l /\ y <> c) /\ length l = S (length (delete n l)).
Proof.
  intros c l n H ND. destruct (delete_find _ _ _ H ND) as (l1 & l2 & E & D & _ & Nin).
  rewrite D, E. split.
  - intros y. rewrite !in_app_iff in *. simpl. split.
    + intros A. split; [tauto|]. intros ->. tauto.
    + intros [[A|[A|A]] B]; auto. congruence.
  - rewrite !app_length. simpl. lia.
Qed.

Lemma set_nth_length : forall i v (l : list chan), i < length l -> length (set_nth i v l) = length l.
Proof.
  intros. unfold set_nth. rewrite app_length, firstn_length.
  change (length (v :: skipn (S i) l)) with (S (length (skipn (S i) l))). rewrite skipn_length. lia.
Qed.

Lemma deactivate_length : forall l k i, length (deactivate l k i) = length l.
Proof.
  intros. unfold deactivate. destruct (nth_error l i) eqn:A; auto. destruct (nth_error l (k - 1)) eqn:B; auto.
  assert (i < length l) by (apply nth_error_Some; congruence).
  assert (k - 1 < length l) by (apply nth_error_Some; congruence).
  rewrite set_nth_length; rewrite set_nth_length; auto.
Qed.

(* ================================================================ runs *)

Definition reachable (st : state) : Prop := exists tr, run init tr = Some st.

Lemma run_inv : forall (P : state -> Prop), (forall st l st', P st -> step st l = Some st' -> P st') ->
  forall tr st st', P st -> run st tr = Some st' -> P st'.
Proof.
  intros P HS. induction tr as [|l t IH]; intros st st' H R; simpl in R.
  - inversion R; subst; auto.
  - destruct (step st l) eqn:E; [|discriminate]. eapply IH; [|exact R]. eapply HS; eauto.
Qed.

Lemma run_app : forall a b st st', run st (a ++ b) = Some st' <-> exists m, run st a = Some m /\ run m b = Some st'.
Proof.
  induction a as [|l a IH]; intros b st st'; simpl.
  - split; [intros H; exists st; auto | intros (m & A & B); inversion A; subst; auto].
  - destruct (step st l); [apply IH|]. split; [discriminate | intros (m & A & _); discriminate].
Qed.

Lemma reachable_step : forall st l st', reachable st -> step st l = Some st' -> reachable st'.
Proof.
  intros st l st' [tr R] H. exists (tr ++ [l]). apply run_app. exists st. split; auto. simpl. rewrite H. reflexivity.
Qed.

Lemma reachable_run : forall tr st st', reachable st -> run st tr = Some st' -> reachable st'.
Proof. intros tr st st' R H. eapply (run_inv reachable); eauto. intros; eapply reachable_step; eauto. Qed.

(* ================================================================ invariant N: nsent counts deliveries *)
Definition pre_pc (p : spc) : bool := match p with SNew | SCalled | SLocked | SPanicked => true | _ => false end.
Definition InvN (st : state) : Prop :=
  forall s, count_snd s (log st) = s_nsent (sndr st s) /\ (pre_pc (s_pc (sndr st s)) = true -> s_nsent (sndr st s) = 0).

Lemma InvN_init : InvN init.
Proof. intros s. simpl. auto. Qed.

Lemma InvN_step : forall st l st', InvN st -> step st l = Some st' -> InvN st'.
Proof.
  intros st l st' I H. inv_step H; unfold deliver; intros s0; destruct (I s0) as [A B]; simpl.
  all: try match goal with s : sid |- _ => tryif constr_eq s s0 then fail else destruct (I s) as [As Bs] end.
  all: try match goal with M : s_pc _ = _ |- _ => rewrite M in * end.
  all: simpl in *; updc; simpl in *; try rewrite Nat.eqb_refl; split; intros; try discriminate; try lia; auto.
  all: try match goal with U : ?a <> ?b |- context [Nat.eqb ?b ?a] => let E := fresh in destruct (Nat.eqb b a) eqn:E; bools; [congruence|] end.
  all: simpl; try lia; auto.
Qed.

Lemma reachable_InvN : forall st, reachable st -> InvN st.
Proof. intros st [tr R]. eapply run_inv; [apply InvN_step|apply InvN_init|exact R]. Qed.

(* Send's return value is the number of deliveries it made *)
Lemma nsent_counts : forall st s n st', reachable st -> step st (LSendRet s n) = Some st' ->
  n = count_snd s (log st') /\ log st' = log st.
Proof.
  intros st s n st' R H. pose proof (reachable_InvN _ R s) as [A _].
  unfold step in H. destruct (panicked st); [discriminate|].
  destruct (pc_eqb (s_pc (sndr st s)) SUnlocked && Nat.eqb n (s_nsent (sndr st s))) eqn:G; [|discriminate].
  inversion H; subst; simpl. bools. split; congruence.
Qed.

(* ================================================================ invariant L: sendLock is a lock *)
Definition holding (p : spc) : bool := match p with SLocked | STry _ | SSelect => true | _ => false end.
Definition active (p : spc) : bool := match p with STry _ | SSelect => true | _ => false end.
Definition removed (r : rpc) : bool := match r with RLocked | RHanded | RDone | RRet => true | _ => false end.

Definition InvL (st : state) : Prop :=
  (forall s, holding (s_pc (sndr st s)) = true <-> lock st = Some (OSend s)) /\
  (forall c, rem st c = RLocked <-> lock st = Some (ORem c)).

Lemma InvL_init : InvL init.
Proof. split; intros; simpl; split; discriminate. Qed.

Lemma InvL_step : forall st l st', InvL st -> step st l = Some st' -> InvL st'.
Proof.
  intros st l st' [Ls Lr] H.
  inv_step H; unfold deliver; split; intros x; pose proof (Ls x) as Lx; pose proof (Lr x) as Rx; simpl.
  all: try match goal with s : sid |- _ => tryif constr_eq s x then fail else pose proof (Ls s) as Lss end.
  all: try match goal with c : chan |- _ => tryif constr_eq c x then fail else pose proof (Lr c) as Rcc end.
  all: clear Ls Lr.
  all: repeat match goal with M : s_pc _ = _ |- _ => rewrite M in *; clear M end.
  all: repeat match goal with M : rem _ _ = _ |- _ => rewrite M in *; clear M end.
  all: repeat match goal with M : lock _ = _ |- _ => rewrite M in *; clear M end.
  all: simpl in *; updc; simpl in *.
  all: try solve [assumption | split; intros; try discriminate; try congruence; auto].
  all: try (timeout 3 (solve [intuition (try congruence; try discriminate)])).
Qed.

Lemma reachable_InvL : forall st, reachable st -> InvL st.
Proof. intros st [tr R]. eapply run_inv; [apply InvL_step|apply InvL_init|exact R]. Qed.

(* at most one Send, or one remove, is between taking and putting back the sendLock token *)
Lemma sendlock_exclusive : forall st, reachable st ->
  (forall s1 s2, holding (s_pc (sndr st s1)) = true -> holding (s_pc (sndr st s2)) = true -> s1 = s2) /\
  (forall c1 c2, rem st c1 = RLocked -> rem st c2 = RLocked -> c1 = c2) /\
  (forall s c, holding (s_pc (sndr st s)) = true -> rem st c = RLocked -> False).
Proof.
  intros st R. destruct (reachable_InvL _ R) as [Ls Lr]. repeat split.
  - intros s1 s2 A B. apply Ls in A. apply Ls in B. congruence.
  - intros c1 c2 A B. apply Lr in A. apply Lr in B. congruence.
  - intros s c A B. apply Ls in A. apply Lr in B. congruence.
Qed.
