(* Feed/FeedInvA.v — structural invariant of the feed LTS and its preservation, one lemma per field. *)
From Coq Require Import List Arith Bool Lia Permutation.
From AQ Require Import Feed.FeedLTS Feed.FeedProofs.
Import ListNotations.

Record InvA (st : state) : Prop := {
  a_nopanic : panicked st = false;
  a_nodup : NoDup (inbox st ++ arr st);
  a_live : forall c, In c (inbox st ++ arr st) <-> (c_subd (chs st c) = true /\ removed (rem st c) = false);
  a_sel : forall c, rem st c = RSelecting -> In c (arr st);
  a_rem_subd : forall c, rem st c <> RNone -> c_subd (chs st c) = true;
  a_L : InvL st;
  a_k : forall s, active (s_pc (sndr st s)) = true -> s_k (sndr st s) <= length (arr st);
  a_selk : forall s, s_pc (sndr st s) = SSelect -> 0 < s_k (sndr st s)
}.

Lemma active_holding : forall p, active p = true -> holding p = true.
Proof. destruct p; simpl; auto. Qed.

(* no other sender is active while s holds the token *)
Lemma other_inactive : forall st s s0, InvL st -> holding (s_pc (sndr st s)) = true -> s0 <> s ->
  active (s_pc (sndr st s0)) = true -> False.
Proof.
  intros st s s0 [Ls _] A N B. apply active_holding in B. apply Ls in A. apply Ls in B. congruence.
Qed.
Lemma none_inactive : forall st s0, InvL st -> lock st = None -> active (s_pc (sndr st s0)) = true -> False.
Proof. intros st s0 [Ls _] A B. apply active_holding in B. apply Ls in B. congruence. Qed.

Lemma step_k : forall st l st', InvA st -> step st l = Some st' ->
  forall s0, active (s_pc (sndr st' s0)) = true -> s_k (sndr st' s0) <= length (arr st').
Proof.
  intros st l st' I H. pose proof (a_L _ I) as L. pose proof (a_nodup _ I) as ND.
  inv_step H; unfold deliver; intros s0 A; pose proof (a_k _ I s0) as K0; simpl in *.
  all: try match goal with s : sid |- _ => tryif constr_eq s s0 then fail else pose proof (a_k _ I s) as Ks end.
  all: try rewrite deactivate_length.
  all: try rewrite app_length.
  all: try match goal with M : cfind _ (arr _) = Some _ |- _ => destruct (delete_facts _ _ _ M (nodup_app_r _ _ ND)) as (_ & DL); pose proof (cfind_lt _ _ _ M) end.
  all: updc; simpl in *; try discriminate; try (specialize (K0 A)); try lia.
  all: try match goal with M : s_pc (sndr ?st ?s) = _, K : active (s_pc (sndr ?st ?s)) = true -> _ |- _ => rewrite M in K; simpl in K; specialize (K eq_refl) end.
  all: try lia.
  all: try match goal with |- context [if ?b then _ else _] => destruct b eqn:?; bools; lia end.
  all: try solve [exfalso; eapply other_inactive; eauto; match goal with M : s_pc _ = _ |- _ => rewrite M; reflexivity end].
  all: try solve [exfalso; eapply none_inactive; eauto].
Qed.

Lemma step_selk : forall st l st', InvA st -> step st l = Some st' ->
  forall s0, s_pc (sndr st' s0) = SSelect -> 0 < s_k (sndr st' s0).
Proof.
  intros st l st' I H.
  inv_step H; unfold deliver; intros s0 A; pose proof (a_selk _ I s0) as K0; simpl in *.
  all: updc; simpl in *; try discriminate; try congruence; auto.
Qed.

Lemma step_rem_subd : forall st l st', InvA st -> step st l = Some st' ->
  forall c0, rem st' c0 <> RNone -> c_subd (chs st' c0) = true.
Proof.
  intros st l st' I H.
  inv_step H; unfold deliver; intros cx A; pose proof (a_rem_subd _ I cx) as K0; simpl in *.
  all: try match goal with c : chan |- _ => tryif constr_eq c cx then fail else pose proof (a_rem_subd _ I c) as Kc end.
  all: updc; simpl in *; try discriminate; try congruence; auto.
  all: try (apply K0; congruence).
Qed.

Lemma step_nopanic : forall st l st', InvA st -> step st l = Some st' -> panicked st' = false.
Proof.
  intros st l st' I H. pose proof (a_sel _ I) as S.
  inv_step H; unfold deliver; simpl; auto.
  all: exfalso; match goal with M : cfind _ _ = None |- _ => apply cfind_none in M; apply M; auto end.
Qed.

Definition lists_rel (l : label) (st st' : state) : Prop :=
  match l with
  | LSubscribe c _ => Permutation (c :: inbox st ++ arr st) (inbox st' ++ arr st')
  | LSelRemove _ c | LRemoveLock c | LRemoveInbox c => Permutation (inbox st ++ arr st) (c :: inbox st' ++ arr st')
  | _ => Permutation (inbox st ++ arr st) (inbox st' ++ arr st')
  end.

Lemma lists_step : forall st l st', InvA st -> step st l = Some st' -> lists_rel l st st'.
Proof.
  intros st l st' I H. pose proof (a_nodup _ I) as ND. pose proof (a_sel _ I) as S. pose proof (a_k _ I) as K.
  inv_step H; unfold lists_rel, deliver; simpl; auto.
  all: try match goal with M: cfind ?c (arr _) = None, G: rem _ ?c = RSelecting |- _ => exfalso; apply cfind_none in M; apply M; auto end.
  - rewrite <- app_assoc. simpl. apply Permutation_middle.
  - apply Permutation_app_comm.
  - apply Permutation_app_comm.
  - apply Permutation_app_head, deactivate_perm; auto.
    apply K. rewrite M; reflexivity.
  - destruct (cfind_firstn _ _ _ _ M0) as (A & B & _).
    apply Permutation_app_head, deactivate_perm; auto.
    apply K. rewrite M; reflexivity.
  - destruct (delete_find _ _ _ M0 (nodup_app_r _ _ ND)) as (l1 & l2 & E & D & _ & _).
    rewrite D, E. rewrite !app_assoc. apply Permutation_sym, Permutation_middle.
  - destruct (delete_find _ _ _ M (nodup_app_l _ _ ND)) as (l1 & l2 & E & D & _ & _).
    rewrite D, E. rewrite <- !app_assoc. simpl. apply Permutation_sym, Permutation_middle.
  - destruct (delete_find _ _ _ M (nodup_app_r _ _ ND)) as (l1 & l2 & E & D & _ & _).
    rewrite D, E. rewrite !app_assoc. apply Permutation_sym, Permutation_middle.
Qed.

Lemma step_nodup : forall st l st', InvA st -> step st l = Some st' -> NoDup (inbox st' ++ arr st').
Proof.
  intros st l st' I H. pose proof (lists_step _ _ _ I H) as LR. pose proof (a_nodup _ I) as ND.
  pose proof (a_live _ I) as LV. pose proof (a_rem_subd _ I) as RS.
  destruct l; unfold lists_rel in LR;
    try (eapply Permutation_NoDup; [exact LR | exact ND]);
    try (pose proof (Permutation_NoDup LR ND) as X; inversion X; assumption).
  (* Subscribe *)
  eapply Permutation_NoDup; [exact LR|]. constructor; auto.
  intros A. apply LV in A. destruct A as [A _].
  unfold step in H. destruct (panicked st); [discriminate|].
  destruct (negb (c_subd (chs st c))) eqn:G; [|discriminate]. bools. congruence.
Qed.


Lemma step_live : forall st l st', InvA st -> step st l = Some st' ->
  forall x, In x (inbox st' ++ arr st') <-> (c_subd (chs st' x) = true /\ removed (rem st' x) = false).
Proof.
  intros st l st' I H x. pose proof (lists_step _ _ _ I H) as LR. pose proof (a_nodup _ I) as ND.
  pose proof (a_live _ I x) as Lx. pose proof (a_rem_subd _ I x) as Rx.
  inv_step H; unfold lists_rel, deliver in *; simpl in *.
  all: try match goal with M: cfind ?c (arr _) = None, G: rem _ ?c = RSelecting |- _ => exfalso; apply cfind_none in M; apply M; apply (a_sel _ I); auto end.
  all: pose proof (perm_in_iff _ _ x LR) as Mx.
  all: try match goal with LR : Permutation _ (?c :: _) |- _ => pose proof (Permutation_NoDup LR ND) as X; inversion X as [|? ? NC _]; clear X; subst end.
  all: clear I LR ND.
  all: updc; simpl in *.
  all: repeat match goal with M : rem _ _ = _ |- _ => rewrite M in *; clear M end.
  all: simpl in *.
  all: try solve [tauto].
  all: try (timeout 5 (solve [intuition (try congruence; try discriminate)])).
  destruct (rem st c) eqn:E; simpl;
    try (assert (T : c_subd (chs st c) = true) by (apply Rx; discriminate); congruence).
  intuition.
Qed.

Lemma step_sel : forall st l st', InvA st -> step st l = Some st' ->
  forall x, rem st' x = RSelecting -> In x (arr st').
Proof.
  intros st l st' I H x. pose proof (a_nodup _ I) as ND. pose proof (a_k _ I) as K.
  pose proof (a_sel _ I x) as Sx. pose proof (a_live _ I x) as Lx.
  inv_step H; unfold deliver in *; simpl in *; intros A.
  all: try match goal with M: cfind ?c (arr _) = None, G: rem _ ?c = RSelecting |- _ => exfalso; apply cfind_none in M; apply M; apply (a_sel _ I); auto end.
  all: try match goal with M0 : cfind _ (firstn _ _) = Some _ |- _ => destruct (cfind_firstn _ _ _ _ M0) as (Hlt & _ & _) end.
  all: try match goal with Hlt : ?i < s_k (sndr ?st ?s) |- context [deactivate] =>
      assert (Hkl : s_k (sndr st s) <= length (arr st)) by (apply K; match goal with Mpc : s_pc _ = _ |- _ => rewrite Mpc end; reflexivity);
      apply (perm_in_iff _ _ x (deactivate_perm _ _ _ Hlt Hkl)) end.
  all: try match goal with M : cfind ?c (arr ?st) = Some ?n |- _ =>
      destruct (delete_facts _ _ _ M (nodup_app_r _ _ ND)) as (DF & _); apply DF end.
  all: updc; simpl in *; try discriminate; try rewrite in_app_iff; auto.
  assert (T : In c (inbox st ++ arr st)).
  { apply Lx. split; [apply (a_rem_subd _ I); congruence | rewrite G; reflexivity]. }
  apply in_app_iff in T. destruct T as [T|T]; auto. apply cfind_none in M. tauto.
Qed.

Lemma InvA_init : InvA init.
Proof.
  constructor; simpl; intros; try discriminate; try congruence; auto.
  - constructor.
  - split; [tauto|]. intros [H _]; discriminate.
  - apply InvL_init.
Qed.

Lemma InvA_step : forall st l st', InvA st -> step st l = Some st' -> InvA st'.
Proof.
  intros st l st' I H. constructor.
  - eapply step_nopanic; eauto.
  - eapply step_nodup; eauto.
  - eapply step_live; eauto.
  - eapply step_sel; eauto.
  - eapply step_rem_subd; eauto.
  - eapply InvL_step; eauto. apply (a_L _ I).
  - eapply step_k; eauto.
  - eapply step_selk; eauto.
Qed.

Lemma reachable_InvA : forall st, reachable st -> InvA st.
Proof. intros st [tr R]. eapply run_inv; [apply InvA_step|apply InvA_init|exact R]. Qed.


