(* Feed/FeedRecv.v — what a subscriber receives is the delivery log of its channel, in order;
   and the summary statement about sendCases / cases. *)
From Coq Require Import List Arith Bool Lia Permutation.
From AQ Require Import Feed.FeedLTS Feed.FeedProofs Feed.FeedInvA Feed.FeedInvB.
Import ListNotations.

Definition InvQ (st : state) : Prop :=
  forall c, rev (c_recvd (chs st c)) ++ c_buf (chs st c) = chan_log st c.

Lemma InvQ_init : InvQ init.
Proof. intros c. reflexivity. Qed.

Lemma InvQ_step : forall st l st', InvQ st -> step st l = Some st' -> InvQ st'.
Proof.
  intros st l st' Q H. inv_step H; unfold deliver; intros cx; pose proof (Q cx) as Qx; unfold chan_log in *; simpl in *; auto.
  all: updc; simpl in *; auto.
  all: try rewrite Nat.eqb_refl; simpl.
  all: try solve [rewrite app_assoc, Qx; reflexivity].
  all: try solve [eqbs; auto].
  all: try congruence.
  all: try solve [rewrite <- app_assoc; simpl; rewrite <- M; exact Qx].
Qed.

(* what a subscriber has received so far, followed by what is still in its channel,
   is exactly the sequence of deliveries made to that channel *)
Theorem received_is_delivered : forall st c, reachable st ->
  rev (c_recvd (chs st c)) ++ c_buf (chs st c) = chan_log st c.
Proof. intros st c [tr R]. revert c. eapply (run_inv InvQ); [apply InvQ_step|apply InvQ_init|exact R]. Qed.

(* sendcases_consistent: f.inbox ++ f.sendCases has no duplicates and contains exactly the channels that
   are subscribed and whose removal has not happened yet; no slice operation panics; and for the Send that
   is running, `cases` (= sendCases[:k]) are exactly the not-yet-served channels, the rest the served ones *)
Theorem sendcases_consistent : forall st, reachable st ->
  panicked st = false /\
  NoDup (inbox st ++ arr st) /\
  (forall c, In c (inbox st ++ arr st) <-> (c_subd (chs st c) = true /\ removed (rem st c) = false)) /\
  (forall s, active (s_pc (sndr st s)) = true ->
     s_k (sndr st s) <= length (arr st) /\
     forall c, (In c (firstn (s_k (sndr st s)) (arr st)) -> count_log s c (log st) = 0) /\
               (In c (skipn (s_k (sndr st s)) (arr st)) -> count_log s c (log st) = 1)).
Proof.
  intros st R. destruct (reachable_InvAB _ R) as [I B].
  split; [apply (a_nopanic _ I)|]. split; [apply (a_nodup _ I)|]. split; [apply (a_live _ I)|].
  intros s A. split; [apply (a_k _ I); auto|]. intros c. split; intros H.
  - apply (b_zero _ B); auto.
  - apply (b_one _ B); auto.
Qed.

