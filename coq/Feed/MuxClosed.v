(* Feed/MuxClosed.v — TypeMux.Post racing Stop / Unsubscribe: ErrMuxClosed exactly when the mux was observed
   stopped; what each delivery step may do; Subscribe after Stop. *)
From Coq Require Import List Arith Bool Lia.
From AQ Require Import Feed.FeedLTS Feed.FeedProofs Feed.MuxLTS Feed.MuxProofs Feed.MuxExact Feed.MuxPath.
Import ListNotations.

(* mux.stopped is never reset *)
Lemma stopped_step : forall st l st', stopped st = true -> mstep st l = Some st' -> stopped st' = true.
Proof.
  intros st l st' S H. minv H; unfold publish, set_sstat, set_ppc, set_subm, set_flags, set_mpanic; simpl; auto.
Qed.

(* the read point of Post (its RLock section): it takes the error branch iff mux.stopped *)
Lemma post_read_point : forall st p, mpanic st = false -> ppcs st p = PCalled -> wlock st = false ->
  (stopped st = true  -> mstep st (MPostStopped p) <> None /\ mstep st (MPostSnap p) = None) /\
  (stopped st = false -> mstep st (MPostSnap p) <> None /\ mstep st (MPostStopped p) = None).
Proof.
  intros st p Np P W. unfold mstep. rewrite Np, P, W. split; intros S; rewrite S; simpl; split; try discriminate; auto.
  destruct (match subm st (ptyp st p) with Some x => x | None => (0, 0) end). discriminate.
Qed.

(* PErr (Post returned ErrMuxClosed) is only ever entered from a stopped mux, is final, and such a Post delivers nothing *)
Definition PE (st : mstate) : Prop := forall p, ppcs st p = PErr -> stopped st = true.
Lemma PE_step : forall st l st', PE st -> mstep st l = Some st' -> PE st'.
Proof.
  intros st l st' E H p. pose proof (E p) as Ep. pose proof (stopped_step st l st') as SS.
  minv H; unfold publish, set_sstat, set_ppc, set_subm, set_flags, set_mpanic in *; simpl in *; auto.
  all: try solve [unfold mupd; destruct (Nat.eqb p p0) eqn:Q; mbools; subst; intros; try discriminate; auto].
Qed.

Lemma mreachable_PE : forall st, mreachable st -> PE st.
Proof. intros st [tr R]. eapply (mrun_inv PE); [apply PE_step| |exact R]. intros p H. simpl in H. discriminate. Qed.

Lemma perr_final : forall st l st' p, ppcs st p = PErr -> mstep st l = Some st' -> ppcs st' p = PErr.
Proof.
  intros st l st' p P H. minv H; unfold publish, set_sstat, set_ppc, set_subm, set_flags, set_mpanic; simpl; auto.
  all: try match goal with M : cur _ _ = Some _ |- _ => destruct (cur_some _ _ _ _ _ _ M) as (Cp & _ & _) end.
  all: unfold mupd; destruct (Nat.eqb p p0) eqn:Q; mbools; subst; auto; congruence.
Qed.

(* Post returns ErrMuxClosed exactly when it observed the mux stopped, and then delivers to nobody, ever *)
Theorem mux_post_closed_iff_stopped : forall st p, mreachable st ->
  (* the error outcome comes from a stopped mux, is final, and carries no delivery *)
  (ppcs st p = PErr -> stopped st = true /\ (forall s, mcount p s (mlog st) = 0) /\
                      (forall l st', mstep st l = Some st' -> ppcs st' p = PErr)) /\
  (* at the read point the branch is decided by mux.stopped alone *)
  (mpanic st = false -> ppcs st p = PCalled -> wlock st = false ->
     (stopped st = true  -> mstep st (MPostStopped p) <> None /\ mstep st (MPostSnap p) = None) /\
     (stopped st = false -> mstep st (MPostSnap p) <> None /\ mstep st (MPostStopped p) = None)) /\
  (* a Post that took a snapshot (observed the mux running) never returns the error *)
  (forall a len i, ppcs st p = PIter a len i \/ ppcs st p = PDone -> ppcs st p <> PErr) /\
  (* mux.stopped is permanent *)
  (stopped st = true -> forall l st', mstep st l = Some st' -> stopped st' = true).
Proof.
  intros st p R. destruct (mreachable_inv _ R) as [_ L].
  split; [|split; [|split]].
  - intros H. split; [apply (mreachable_PE _ R p H)|]. split.
    + intros s. destruct (L p s) as [_ B]. rewrite H in B. exact B.
    + intros l st' Hs. eapply perr_final; eauto.
  - intros Np P W. apply (post_read_point st p Np P W).
  - intros a len i H. destruct H; congruence.
  - intros S l st' Hs. eapply stopped_step; eauto.
Qed.

(* what a delivery step may do is determined by the subscription's state: a subscription that is open
   (no closewait begun) and was created before the Post is delivered to; one whose postC has been closed is
   never sent to; no other subscription than the current element of the snapshot is touched *)
Theorem mux_delivery_step_determined : forall st p a len i s, mpanic st = false -> cur st p = Some (a, len, i, s) ->
  (sstat st s = UCreated -> created st s <= ptime st p ->
     mstep st (MDeliverSent p s) <> None /\ mstep st (MDeliverClosed p s) = None /\ mstep st (MDeliverStale p s) = None) /\
  (sstat st s = UClosed -> mstep st (MDeliverSent p s) = None /\ mstep st (MDeliverClosed p s) <> None) /\
  (forall s', s' <> s -> mstep st (MDeliverSent p s') = None /\ mstep st (MDeliverClosed p s') = None /\ mstep st (MDeliverStale p s') = None).
Proof.
  intros st p a len i s Np C. unfold mstep. rewrite Np, C. repeat split.
  - rewrite Nat.eqb_refl, H. simpl. discriminate.
  - rewrite Nat.eqb_refl, H. reflexivity.
  - rewrite Nat.eqb_refl. simpl. destruct (Nat.ltb (ptime st p) (created st s)) eqn:Q; auto. mbools. lia.
  - rewrite Nat.eqb_refl, H. reflexivity.
  - rewrite Nat.eqb_refl, H. simpl. discriminate.
  - apply Nat.eqb_neq in H. rewrite Nat.eqb_sym, H. reflexivity.
  - apply Nat.eqb_neq in H. rewrite Nat.eqb_sym, H. reflexivity.
  - apply Nat.eqb_neq in H. rewrite Nat.eqb_sym, H. reflexivity.
Qed.

(* Subscribe after Stop: nothing can be added to mux.subm any more and the subscription comes back closed *)
Theorem mux_subscribe_after_stop : forall st, mreachable st -> stopped st = true ->
  (forall s t, mstep st (MSubAdd s t) = None) /\
  (forall s st', mstep st (MSubStopped s) = Some st' -> sstat st' s = UClosed) /\
  (forall s, mpanic st = false -> wlock st = false -> sstat st s = UCreated -> mstep st (MSubStopped s) <> None).
Proof.
  intros st R S. repeat split.
  - intros s t. unfold mstep. rewrite S. destruct (mpanic st); auto. rewrite andb_false_r. simpl. reflexivity.
  - intros s st' H. unfold mstep in H. destruct (mpanic st); [discriminate|].
    destruct (sst_eqb (sstat st s) UCreated && stopped st && negb (wlock st)); [|discriminate].
    inversion H; subst; simpl. unfold mupd. rewrite Nat.eqb_refl. reflexivity.
  - intros s Np W C. unfold mstep. rewrite Np, C, S, W. simpl. discriminate.
Qed.

