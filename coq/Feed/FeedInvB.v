(* Feed/FeedInvB.v — the delivery-log invariant: at most once, exactly once per active case. *)
From Coq Require Import List Arith Bool Lia Permutation.
From AQ Require Import Feed.FeedLTS Feed.FeedProofs Feed.FeedInvA.
Import ListNotations.

Lemma nth_in_firstn : forall (l : list chan) i k c, nth_error l i = Some c -> i < k -> In c (firstn k l).
Proof.
  induction l as [|a l IH]; intros i k c H L; destruct i; simpl in H; try discriminate; destruct k; try lia; simpl.
  - inversion H; auto.
  - right. eapply IH; eauto. lia.
Qed.

Lemma deliver_lists : forall (l : list chan) k i c, NoDup l -> i < k -> k <= length l -> nth_error l i = Some c ->
  (forall y, In y (firstn (k - 1) (deactivate l k i)) -> In y (firstn k l) /\ y <> c) /\
  (forall y, In y (skipn (k - 1) (deactivate l k i)) -> y = c \/ (In y (skipn k l) /\ y <> c)) /\
  In c (firstn k l).
Proof.
  intros l k i c ND L1 L2 N. destruct (deactivate_spec l k i L1 L2) as (x & Nx & S & P & _).
  assert (x = c) by congruence. subst x.
  assert (ND2 : NoDup (firstn k l ++ skipn k l)) by (rewrite firstn_skipn; auto).
  pose proof (nodup_app_l _ _ ND2) as NDf.
  pose proof (Permutation_NoDup P NDf) as NDc. inversion NDc as [|? ? Nin _]; subst.
  assert (Cin : In c (firstn k l)) by (eapply nth_in_firstn; eauto).
  repeat split; auto.
  - apply (Permutation_in y (Permutation_sym P)). right; auto.
  - intros ->. tauto.
  - intros y Hy. rewrite S in Hy. destruct Hy as [<-|Hy]; auto. right. split; auto.
    intros ->. apply in_split in Cin. destruct Cin as (a & b & E). rewrite E in ND2.
    rewrite <- app_assoc in ND2. simpl in ND2. apply NoDup_remove_2 in ND2. apply ND2.
    rewrite app_assoc. apply in_or_app. right. exact Hy.
Qed.

Lemma remove_lists : forall (l : list chan) k c idx, NoDup l -> cfind c l = Some idx ->
  (forall y, In y (firstn (if idx <? k then k - 1 else k) (delete idx l)) -> In y (firstn k l)) /\
  (forall y, In y (skipn (if idx <? k then k - 1 else k) (delete idx l)) -> In y (skipn k l)).
Proof.
  intros l k c idx ND F. destruct (delete_find _ _ _ F ND) as (l1 & l2 & E & D & Ln & _).
  rewrite D, E. destruct (idx <? k) eqn:C; bools.
  - destruct (delete_low l1 l2 c k) as (P & S); [lia|]. split.
    + intros y Hy. apply (Permutation_in y (Permutation_sym P)). right; auto.
    + intros y Hy. rewrite <- S. auto.
  - destruct (delete_high l1 l2 c k) as (Fq & P); [lia|]. split.
    + intros y Hy. rewrite <- Fq. auto.
    + intros y Hy. apply (Permutation_in y (Permutation_sym P)). right; auto.
Qed.

Lemma count_log_cons : forall s c sx cx lg,
  count_log sx cx ((s, c) :: lg) = (if Nat.eqb s sx && Nat.eqb c cx then 1 else 0) + count_log sx cx lg.
Proof. reflexivity. Qed.

Definition quiet (p : spc) : bool := match p with SNew | SCalled | SLocked => true | _ => false end.

Record InvB (st : state) : Prop := {
  b_le1 : forall s c, count_log s c (log st) <= 1;
  b_zero : forall s c, active (s_pc (sndr st s)) = true -> In c (firstn (s_k (sndr st s)) (arr st)) -> count_log s c (log st) = 0;
  b_one : forall s c, active (s_pc (sndr st s)) = true -> In c (skipn (s_k (sndr st s)) (arr st)) -> count_log s c (log st) = 1;
  b_quiet : forall s c, quiet (s_pc (sndr st s)) = true -> count_log s c (log st) = 0
}.

Lemma InvB_init : InvB init.
Proof. constructor; simpl; intros; auto; discriminate. Qed.

Ltac eqbs := repeat match goal with |- context [Nat.eqb ?a ?b] => let E := fresh "E" in destruct (Nat.eqb a b) eqn:E; bools; subst; simpl; try congruence end.

(* facts available in the two delivering cases *)
Ltac deliver_facts I :=
  subst;
  try match goal with M0 : cfind _ (firstn _ _) = Some _ |- _ => destruct (cfind_firstn _ _ _ _ M0) as (Hlt & _ & Hnth) end;
  match goal with
  | Hlt : ?i < s_k (sndr ?st ?s), Hnth : nth_error (arr ?st) ?i = Some ?c, Mpc : s_pc (sndr ?st ?s) = _ |- _ =>
      assert (Hact : active (s_pc (sndr st s)) = true) by (rewrite Mpc; reflexivity);
      assert (Hkl : s_k (sndr st s) <= length (arr st)) by (apply (a_k _ I); exact Hact);
      destruct (deliver_lists _ _ _ _ (nodup_app_r _ _ (a_nodup _ I)) Hlt Hkl Hnth) as (DF & DS & DC)
  end.

Lemma step_b_quiet : forall st l st', InvA st -> InvB st -> step st l = Some st' ->
  forall sx cx, quiet (s_pc (sndr st' sx)) = true -> count_log sx cx (log st') = 0.
Proof.
  intros st l st' I B H.
  inv_step H; unfold deliver; intros sx cx Q; pose proof (b_quiet _ B sx cx) as Q0; simpl in *.
  all: try match goal with s : sid |- _ => tryif constr_eq s sx then fail else pose proof (b_quiet _ B s cx) as Qs end.
  all: updc; simpl in *; try discriminate; auto.
  all: try match goal with M : s_pc _ = _ |- _ => rewrite M in *; simpl in * end; auto.
  all: eqbs; auto.
Qed.

Lemma step_b_le1 : forall st l st', InvA st -> InvB st -> step st l = Some st' ->
  forall sx cx, count_log sx cx (log st') <= 1.
Proof.
  intros st l st' I B H.
  inv_step H; unfold deliver; intros sx cx; pose proof (b_le1 _ B sx cx) as Q0; simpl in *; auto.
  all: deliver_facts I.
  all: pose proof (b_zero _ B s c Hact DC).
  all: eqbs; lia.
Qed.

Lemma step_b_zero : forall st l st', InvA st -> InvB st -> step st l = Some st' ->
  forall sx cx, active (s_pc (sndr st' sx)) = true -> In cx (firstn (s_k (sndr st' sx)) (arr st')) -> count_log sx cx (log st') = 0.
Proof.
  intros st l st' I B H. pose proof (a_L _ I) as L.
  inv_step H; unfold deliver; intros sx cx A Hin; pose proof (b_zero _ B sx cx) as Z0; simpl in *.
  all: try deliver_facts I.
  all: try match goal with M : cfind ?c (arr ?st) = Some ?n, Ms : s_pc (sndr ?st ?s) = SSelect |- _ =>
      destruct (remove_lists _ (s_k (sndr st s)) _ _ (nodup_app_r _ _ (a_nodup _ I)) M) as (RF & RS) end.
  all: updc; simpl in *; try discriminate; auto.
  all: try congruence; try tauto.
  all: try solve [exfalso; eapply other_inactive; eauto; match goal with M : s_pc _ = _ |- _ => rewrite M; reflexivity end].
  all: try solve [exfalso; eapply none_inactive; eauto].
  all: try match goal with M : s_pc (sndr ?st ?s) = _ |- _ => rewrite M in *; simpl in * end.
  all: try solve [apply Z0; auto].
  all: try solve [apply (b_quiet _ B); match goal with M : s_pc _ = _ |- _ => rewrite M; reflexivity end].
  all: try solve [destruct (DF _ Hin) as (D1 & D2); eqbs; apply Z0; auto].
  all: try solve [apply Z0; auto; apply RF; auto].
Qed.

Lemma step_b_one : forall st l st', InvA st -> InvB st -> step st l = Some st' ->
  forall sx cx, active (s_pc (sndr st' sx)) = true -> In cx (skipn (s_k (sndr st' sx)) (arr st')) -> count_log sx cx (log st') = 1.
Proof.
  intros st l st' I B H. pose proof (a_L _ I) as L.
  inv_step H; unfold deliver; intros sx cx A Hin; pose proof (b_one _ B sx cx) as Z0; simpl in *.
  all: try deliver_facts I.
  all: try pose proof (b_zero _ B _ _ Hact DC) as ZC.
  all: try match goal with M : cfind ?c (arr ?st) = Some ?n, Ms : s_pc (sndr ?st ?s) = SSelect |- _ =>
      destruct (remove_lists _ (s_k (sndr st s)) _ _ (nodup_app_r _ _ (a_nodup _ I)) M) as (RF & RS) end.
  all: updc; simpl in *; try discriminate; auto.
  all: try congruence; try tauto.
  all: try solve [exfalso; eapply other_inactive; eauto; match goal with M : s_pc _ = _ |- _ => rewrite M; reflexivity end].
  all: try solve [exfalso; eapply none_inactive; eauto].
  all: try solve [rewrite skipn_all in Hin; destruct Hin].
  all: try match goal with M : s_pc (sndr ?st ?s) = _ |- _ => rewrite M in *; simpl in * end.
  all: try solve [apply Z0; auto].
  all: try solve [destruct (DS _ Hin) as [D1 | (D1 & D2)];
                  [subst; rewrite ?Nat.eqb_refl; simpl; lia | eqbs; apply Z0; auto]].
  all: try solve [apply Z0; auto; apply RS; auto].
Qed.

Lemma InvB_step : forall st l st', InvA st -> InvB st -> step st l = Some st' -> InvB st'.
Proof.
  intros st l st' I B H. constructor.
  - eapply step_b_le1; eauto.
  - eapply step_b_zero; eauto.
  - eapply step_b_one; eauto.
  - eapply step_b_quiet; eauto.
Qed.

Lemma reachable_InvAB : forall st, reachable st -> InvA st /\ InvB st.
Proof.
  intros st [tr R].
  eapply (run_inv (fun st => InvA st /\ InvB st)); [|split; [apply InvA_init|apply InvB_init]|exact R].
  intros a l b [I B] H. split; [eapply InvA_step|eapply InvB_step]; eauto.
Qed.

(* ---------------------------------------------------------------- paths *)
Lemma run_path : forall (P : state -> Prop) (ok : label -> Prop),
  (forall st l st', reachable st -> P st -> ok l -> step st l = Some st' -> P st') ->
  forall tr st st', reachable st -> P st -> (forall l, In l tr -> ok l) -> run st tr = Some st' -> P st'.
Proof.
  intros P ok HS. induction tr as [|l t IH]; intros st st' R p O H; simpl in H.
  - inversion H; subst; auto.
  - destruct (step st l) as [m|] eqn:E; [|discriminate].
    apply (IH m st'); auto.
    + eapply reachable_step; eauto.
    + eapply HS; eauto. apply O. left; auto.
    + intros l' Hl. apply O. right; auto.
Qed.

Lemma run_in : forall tr st st' l, run st tr = Some st' -> In l tr ->
  exists ta tb m1 m2, tr = ta ++ l :: tb /\ run st ta = Some m1 /\ step m1 l = Some m2 /\ run m2 tb = Some st'.
Proof.
  induction tr as [|x t IH]; intros st st' l H Hin; [destruct Hin|]. simpl in H.
  destruct (step st x) as [m|] eqn:E; [|discriminate]. destruct Hin as [->|Hin].
  - exists [], t, st, m. simpl. auto.
  - destruct (IH m st' l H Hin) as (ta & tb & m1 & m2 & -> & A & B & C).
    exists (x :: ta), tb, m1, m2. simpl. rewrite E. auto.
Qed.

(* ---------------------------------------------------------------- no delivery after unsubscription *)
Lemma removed_step : forall st l st' c, removed (rem st c) = true -> step st l = Some st' -> removed (rem st' c) = true.
Proof.
  intros st l st' c A H. inv_step H; unfold deliver; simpl; auto.
  all: updc; auto; try (rewrite G in A; discriminate A); try (match goal with G : rem _ _ = _ |- _ => rewrite G in A; discriminate A end).
Qed.

Lemma removed_no_delivery : forall st s c st', reachable st -> removed (rem st c) = true ->
  (step st (LTryOk s c) = Some st' \/ step st (LSelSent s c) = Some st') -> False.
Proof.
  intros st s c st' R A H. destruct (reachable_InvAB _ R) as [I _].
  assert (N : ~ In c (arr st)).
  { intros X. assert (Y : In c (inbox st ++ arr st)) by (apply in_or_app; auto).
    apply (a_live _ I) in Y. destruct Y as [_ Y]. congruence. }
  apply N. unfold step in H. destruct (panicked st); [destruct H; discriminate|].
  destruct H as [H|H]; destruct (s_pc (sndr st s)); try discriminate.
  - destruct (i <? s_k (sndr st s)); [|discriminate].
    destruct (nth_error (arr st) i) as [c'|] eqn:E; [|discriminate].
    destruct (Nat.eqb c' c) eqn:E2; simpl in H; [|discriminate]. bools. subst. eapply nth_error_In; eauto.
  - destruct (cfind c (firstn (s_k (sndr st s)) (arr st))) eqn:E; [|discriminate].
    destruct (cfind_firstn _ _ _ _ E) as (_ & _ & X). eapply nth_error_In; eauto.
Qed.
