(* Feed/ScopeProofs.v — when any Close call finishes, everything ever tracked is unsubscribed and Track fails. *)
From Coq Require Import List Arith Bool Lia.
From AQ Require Import Feed.ScopeLTS.
Import ListNotations.

Lemma kmem_in : forall x l, kmem x l = true <-> In x l.
Proof.
  induction l as [|y t IH]; simpl; [split; [discriminate|tauto]|].
  rewrite orb_true_iff, IH, Nat.eqb_eq. tauto.
Qed.
Lemma kremove_in : forall x y l, In y (kremove x l) <-> In y l /\ y <> x.
Proof.
  induction l as [|z t IH]; simpl; [tauto|]. destruct (Nat.eqb z x) eqn:E.
  - apply Nat.eqb_eq in E. subst. rewrite IH. intuition congruence.
  - apply Nat.eqb_neq in E. simpl. rewrite IH. intuition congruence.
Qed.
Lemma mu_free_none : forall st, mu_free st = true -> k_mu st = None.
Proof. unfold mu_free. intros st. destruct (k_mu st); auto; discriminate. Qed.

Record KI (st : kstate) : Prop := {
  ki_open : k_closed st = false -> k_mu st = None;
  ki_mu1 : forall k, k_mu st = Some k -> exists todo, k_cpc st k = CLoop todo;
  ki_mu2 : forall k todo, k_cpc st k = CLoop todo -> k_mu st = Some k /\ k_closed st = true;
  ki_added : forall x, In x (k_added st) -> In x (k_tracked st) \/ k_unsubd st x = true;
  ki_loop : forall k todo, k_cpc st k = CLoop todo -> forall x, In x (k_tracked st) -> In x todo \/ k_unsubd st x = true;
  ki_empty : k_closed st = true -> k_mu st = None -> k_tracked st = [];
  ki_done : forall k, k_cpc st k = CDone -> k_closed st = true /\ k_mu st = None;
  ki_w : forall x, k_wpc st x = WUnsubd -> k_unsubd st x = true
}.

Lemma KI_init : KI kinit.
Proof. constructor; simpl; intros; auto; try discriminate; try tauto. Qed.

Ltac kinv H :=
  unfold kstep in H;
  match type of H with match ?l with _ => _ end = _ => destruct l end;
  repeat match type of H with
  | (if ?b then _ else _) = Some _ => let E := fresh "G" in destruct b eqn:E; [|discriminate]
  | match ?x with _ => _ end = Some _ => let E := fresh "M" in destruct x eqn:E; try discriminate
  end;
  inversion H; subst; clear H;
  repeat match goal with
  | H : _ && _ = true |- _ => apply andb_true_iff in H; destruct H
  | H : negb _ = true |- _ => apply negb_true_iff in H
  | H : mu_free _ = true |- _ => apply mu_free_none in H
  | H : kmem _ _ = true |- _ => apply kmem_in in H
  end.

Ltac kupdc := repeat match goal with
  | |- context [kupd _ ?k _ ?x] => unfold kupd at 1; let E := fresh "U" in destruct (Nat.eqb x k) eqn:E; [apply Nat.eqb_eq in E; subst | apply Nat.eqb_neq in E]
  | H : context [kupd _ ?k _ ?x] |- _ => unfold kupd in H at 1; let E := fresh "U" in destruct (Nat.eqb x k) eqn:E; [apply Nat.eqb_eq in E; subst | apply Nat.eqb_neq in E]
  end.

Ltac kfin := constructor; simpl; intros; kupdc; simpl in *; eauto; try congruence; try discriminate.

Ltac kc I3 I4 I5 I7 :=
  try solve [match goal with A : CLoop _ = CLoop _ |- _ => inversion A; subst; auto end];
  try solve [exfalso; match goal with A : k_cpc _ _ = CLoop _, B : k_mu _ = None |- _ => destruct (I3 _ _ A); congruence end];
  try solve [exfalso; match goal with A : k_cpc _ _ = CDone, B : k_closed _ = false |- _ => destruct (I7 _ A); congruence end];
  try solve [match goal with A : _ = _ \/ In _ (k_added _) |- _ => destruct A as [<-|A]; auto; destruct (I4 _ A); auto end];
  try solve [match goal with A : In _ (k_added _) |- _ => destruct (I4 _ A); auto end];
  try solve [match goal with A : k_cpc _ _ = CLoop _ |- _ => destruct (I3 _ _ A); auto end];
  try solve [match goal with A : k_cpc _ _ = CDone |- _ => destruct (I7 _ A); auto end];
  try solve [match goal with A : k_cpc _ ?k = CLoop ?t, B : In ?x (k_tracked _) |- _ => destruct (I5 _ _ A _ B); auto end].

Lemma KI_step : forall st l st', KI st -> kstep st l = Some st' -> KI st'.
Proof.
  intros st l st' I H. destruct I as [I1 I2 I3 I4 I5 I6 I7 I8].
  kinv H.
  - (* TrackNil *) kfin.
  - (* TrackAdd *) kfin; kc I3 I4 I5 I7.
  - (* CloseSkip *) kfin; kc I3 I4 I5 I7.
  - (* CloseBegin *) kfin; kc I3 I4 I5 I7.
  - (* CloseUnsub *) kfin; kc I3 I4 I5 I7.
    inversion H; subst. destruct (I5 _ _ M _ H0); auto. left. apply kremove_in. auto.
  - (* CloseDone *) kfin; kc I3 I4 I5 I7.
    + exfalso. destruct (I3 _ _ M) as [A _]. destruct (I3 _ _ H) as [B _]. congruence.
    + right. destruct (I4 _ H) as [A|A]; auto. destruct (I5 _ _ M _ A) as [[]|B]; auto.
  - (* WUnsub *) kfin; kc I3 I4 I5 I7.
  - (* WDel *) kfin; kc I3 I4 I5 I7.
    + destruct (I4 _ H) as [A|A]; auto. destruct (Nat.eq_dec x0 x) as [->|N]; [right; apply I8; auto|].
      left. apply kremove_in. auto.
    + rewrite (I6 H G). reflexivity.
Qed.

Definition kreachable (st : kstate) : Prop := exists tr, krun kinit tr = Some st.

Lemma kreachable_KI : forall st, kreachable st -> KI st.
Proof.
  intros st [tr R]. revert R. generalize KI_init. generalize kinit.
  induction tr as [|l t IH]; simpl; intros s0 I0 R.
  - inversion R; subst; auto.
  - destruct (kstep s0 l) eqn:E; [|discriminate]. eapply IH; [|exact R]. eapply KI_step; eauto.
Qed.

(* When ANY Close call has finished (whether it did the work or found the scope already closed), the scope is
   closed, sc.mu is free, every subscription Track ever accepted has had its Unsubscribe return, nothing is
   tracked any more, and Track can only return nil from then on. *)
Theorem scope_close_complete : forall st k, kreachable st -> k_cpc st k = CDone ->
  k_closed st = true /\ k_mu st = None /\ k_tracked st = [] /\
  (forall x, In x (k_added st) -> k_unsubd st x = true) /\
  (forall x, kstep st (KTrackAdd x) = None).
Proof.
  intros st k R D. pose proof (kreachable_KI _ R) as I. destruct (ki_done _ I _ D) as [C M].
  pose proof (ki_empty _ I C M) as E.
  repeat split; auto.
  - intros x H. destruct (ki_added _ I _ H) as [A|A]; auto. rewrite E in A. destruct A.
  - intros x. unfold kstep. rewrite C. simpl. rewrite andb_false_r. reflexivity.
Qed.

(* sc.mu is a lock around the whole loop of Close: while a Close is unsubscribing, no Track, no map deletion and
   no second Close can pass *)
Theorem scope_mu_excludes : forall st k todo, kreachable st -> k_cpc st k = CLoop todo ->
  k_mu st = Some k /\ (forall x, kstep st (KTrackAdd x) = None) /\ (forall x, kstep st (KTrackNil x) = None) /\
  (forall k', kstep st (KCloseSkip k') = None) /\ (forall k', kstep st (KCloseBegin k') = None) /\ (forall x, kstep st (KWDel x) = None).
Proof.
  intros st k todo R L. pose proof (kreachable_KI _ R) as I. destruct (ki_mu2 _ I _ _ L) as [M C].
  unfold kstep, mu_free. rewrite M. repeat split; auto; intros.
  - destruct (k_cpc st k'); auto.
  - destruct (k_cpc st k'); auto.
  - destruct (k_wpc st x); auto.
Qed.
