(* Feed/PostMuLTS.v — the closewait / deliver protocol of ONE TypeMuxSubscription (event.go): s.postMu (RWMutex),
   s.closing, s.postC.  deliver: RLock; select { postC <- ev | <-closing }; RUnlock.  closewait: close(closing);
   postMu.Lock(); close(postC); postC = nil; Unlock.  Readers = delivers between RLock and RUnlock.
   Definitions only; proofs in PostMuProofs.v. *)
From Coq Require Import List Arith Bool.
Import ListNotations.

Record pstate := {
  p_closing : bool;      (* close(s.closing) done *)
  p_closed : bool;       (* close(s.postC) done (and postC = nil) *)
  p_ro : nat;            (* delivers holding postMu.RLock that read s.postC while it was open *)
  p_rn : nat;            (* delivers holding postMu.RLock that read s.postC = nil (they began after the close) *)
  p_bad : bool           (* a send was attempted on the closed / nil postC *)
}.

Inductive plabel :=
| PBegin        (* deliver: s.postMu.RLock() acquired *)
| PSent         (* deliver: case s.postC <- event *)
| PClosedCase   (* deliver: case <-s.closing *)
| PClosing      (* closewait: close(s.closing) *)
| PClose.       (* closewait: postMu.Lock(); close(s.postC); s.postC = nil; Unlock() *)

Definition pinit : pstate := {| p_closing := false; p_closed := false; p_ro := 0; p_rn := 0; p_bad := false |}.

Definition pstep (st : pstate) (l : plabel) : option pstate :=
  match l with
  | PBegin =>
      if p_closed st
      then Some {| p_closing := p_closing st; p_closed := p_closed st; p_ro := p_ro st; p_rn := S (p_rn st); p_bad := p_bad st |}
      else Some {| p_closing := p_closing st; p_closed := p_closed st; p_ro := S (p_ro st); p_rn := p_rn st; p_bad := p_bad st |}
  (* only a deliver that holds the real channel can complete a send (a send on nil never proceeds); if the channel
     had been closed meanwhile this is Go's "send on closed channel" panic: p_bad *)
  | PSent =>
      match p_ro st with
      | S n => Some {| p_closing := p_closing st; p_closed := p_closed st; p_ro := n; p_rn := p_rn st; p_bad := p_bad st || p_closed st |}
      | 0 => None
      end
  | PClosedCase =>
      if p_closing st then
        match p_rn st, p_ro st with
        | S n, _ => Some {| p_closing := true; p_closed := p_closed st; p_ro := p_ro st; p_rn := n; p_bad := p_bad st |}
        | 0, S n => Some {| p_closing := true; p_closed := p_closed st; p_ro := n; p_rn := 0; p_bad := p_bad st |}
        | 0, 0 => None
        end
      else None
  | PClosing => if p_closing st then None else Some {| p_closing := true; p_closed := p_closed st; p_ro := p_ro st; p_rn := p_rn st; p_bad := p_bad st |}
  (* postMu.Lock() is granted only when no deliver holds the read lock *)
  | PClose => if p_closing st && negb (p_closed st) && Nat.eqb (p_ro st + p_rn st) 0
              then Some {| p_closing := true; p_closed := true; p_ro := 0; p_rn := 0; p_bad := p_bad st |} else None
  end.

Fixpoint prun_from (st : pstate) (tr : list plabel) (n : nat) : pstate + nat :=
  match tr with
  | [] => inl st
  | l :: t => match pstep st l with Some st' => prun_from st' t (S n) | None => inr n end
  end.
Fixpoint prun (st : pstate) (tr : list plabel) : option pstate :=
  match tr with
  | [] => Some st
  | l :: t => match pstep st l with Some st' => prun st' t | None => None end
  end.
