(* Feed/FeedBlocked.v — a Send blocked in reflect.Select cannot block Subscribe / Unsubscribe. *)
From Coq Require Import List Arith Bool Lia Permutation.
From AQ Require Import Feed.FeedLTS Feed.FeedProofs Feed.FeedInvA.
Import ListNotations.

(* In every reachable state in which Send s sits in reflect.Select (the only place where Send waits for
   receivers): the sendLock token is held by exactly that Send, and every step of Subscribe and of an
   Unsubscribe that is under way is enabled — in particular a remover that found nothing in the inbox can
   hand its channel to this very Send (LSelRemove), so neither can deadlock against the blocked Send. *)
Theorem blocked_send_blocks_nobody : forall st s, reachable st -> s_pc (sndr st s) = SSelect ->
  lock st = Some (OSend s) /\
  (forall s', holding (s_pc (sndr st s')) = true -> s' = s) /\
  (forall c cap, c_subd (chs st c) = false -> enabled st (LSubscribe c cap) = true) /\
  (forall c, c_subd (chs st c) = true -> rem st c = RNone -> enabled st (LUnsubCall c) = true) /\
  (forall c, rem st c = RCalled -> enabled st (LRemoveInbox c) = true \/ enabled st (LRemoveNotInbox c) = true) /\
  (forall c, rem st c = RSelecting -> enabled st (LSelRemove s c) = true) /\
  (forall c, rem st c = RHanded -> enabled st (LRemoveHandoff c) = true) /\
  (forall c, rem st c = RDone -> enabled st (LUnsubRet c) = true) /\
  (forall c, rem st c <> RLocked).
Proof.
  intros st s R P. pose proof (reachable_InvA _ R) as I. pose proof (a_nopanic _ I) as Hnp.
  destruct (a_L _ I) as [Ls Lr].
  assert (Lk : lock st = Some (OSend s)) by (apply Ls; rewrite P; reflexivity).
  split; auto. split; [intros s' H; apply Ls in H; congruence|].
  split; [intros c cap H; unfold enabled, step; rewrite Hnp, H; reflexivity|].
  split; [intros c H1 H2; unfold enabled, step; rewrite Hnp, H1, H2; reflexivity|].
  split.
  { intros c H. unfold enabled, step. rewrite Hnp, H. simpl. destruct (cfind c (inbox st)); auto. }
  split.
  { intros c H. unfold enabled, step. rewrite Hnp, P, H. simpl.
    destruct (cfind c (arr st)); reflexivity. }
  split; [intros c H; unfold enabled, step; rewrite Hnp, H; reflexivity|].
  split; [intros c H; unfold enabled, step; rewrite Hnp, H; reflexivity|].
  intros c H. apply Lr in H. congruence.
Qed.
