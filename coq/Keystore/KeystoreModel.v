(* Keystore/KeystoreModel.v — executable, code-shaped model of the passphrase
   keystore (aqua/accounts/keystore/keystore_passphrase.go: EncryptKey,
   DecryptKey, decryptKeyV3, decryptKeyV1, getKDFKey, ensureInt, GetKey; key.go
   JSON shapes; presale.go aesCTRXOR / aesCBCDecrypt as primitives).
   Definitions only: extracted.

   Primitives are Section variables: kdf (scrypt.Key / pbkdf2.Key), aes_ctr
   (aesCTRXOR), aes_cbc_dec (aesCBCDecrypt), H (crypto.Keccak256), pub_addr
   (crypto.ToECDSAUnsafe + PubkeyToAddress).  In the extracted model they are
   oracle tables recorded by the harness from the real implementation (H is
   Lib.Keccak). *)
From AQ Require Import Lib.Bytes.
Local Open Scope N_scope.

(* A JSON object member as encoding/json presents it to the code.
   JNum isint z: isint = the literal is an integer literal that fits Go's int
   (what decoding into an `int` field requires); z = int(float64(literal))
   (what ensureInt computes from the map[string]interface{} value). *)
Inductive jv := JMissing | JNull | JStr (s : bytes) | JNum (isint : bool) (z : Z) | JObj | JOther.

(* The members DecryptKey looks at.  kf_version_exact is m["version"] of the
   generic map (exact key); the others are the members encoding/json binds to
   the struct fields (exact or case-folded name) resp. the exact keys of the
   kdfparams map. *)
Record keyfile := mkKeyfile {
  kf_version_exact : jv;
  kf_version : jv; kf_address : jv; kf_id : jv; kf_crypto : jv;
  kf_cipher : jv; kf_ciphertext : jv; kf_cipherparams : jv; kf_iv : jv;
  kf_kdf : jv; kf_kdfparams : jv; kf_mac : jv;
  kp_salt : jv; kp_dklen : jv; kp_n : jv; kp_r : jv; kp_p : jv; kp_c : jv; kp_prf : jv }.

Inductive res (A : Type) := Ok (a : A) | Err | Panic.
Arguments Ok {A} a. Arguments Err {A}. Arguments Panic {A}.

(* results of a primitive call *)
Inductive pres := POk (b : bytes) | PErr | PPanic.
Inductive kdf_alg := KScrypt (n r p : Z) | KPbkdf2 (c : Z).

(* ---- encoding/hex ---- *)
Definition hex_digit (n : N) : byte := if n <? 10 then n2b (48 + n) else n2b (87 + n).
Definition hexval (c : byte) : option N :=
  let n := b2n c in
  if (48 <=? n) && (n <=? 57) then Some (n - 48)
  else if (65 <=? n) && (n <=? 70) then Some (n - 55)
  else if (97 <=? n) && (n <=? 102) then Some (n - 87)
  else None.
(* hex.DecodeString: odd length or a non-hex character is an error *)
Fixpoint hex_decode (s : bytes) : option bytes :=
  match s with
  | [] => Some []
  | a :: t =>
    match t with
    | [] => None
    | b :: t' =>
      match hexval a, hexval b, hex_decode t' with
      | Some x, Some y, Some r => Some (n2b (16 * x + y) :: r)
      | _, _, _ => None
      end
    end
  end.
(* hex.EncodeToString *)
Definition hex_encode (b : bytes) : bytes :=
  flat_map (fun c => [hex_digit (b2n c / 16); hex_digit (b2n c mod 16)]) b.

(* ---- encoding/json into the struct fields of encryptedKeyJSONV3/V1, cryptoJSON ---- *)
(* string field: absent or null leaves ""; another JSON type is an UnmarshalTypeError *)
Definition as_string (v : jv) : option bytes :=
  match v with JMissing | JNull => Some [] | JStr s => Some s | _ => None end.
(* int field (Version of V3) *)
Definition as_int (v : jv) : option Z :=
  match v with JMissing | JNull => Some 0%Z | JNum true z => Some z | _ => None end.
(* struct- or map-valued member *)
Definition as_obj_ok (v : jv) : bool :=
  match v with JMissing | JNull | JObj => true | _ => false end.

(* x.(string) on a map[string]interface{} value: anything but a string panics *)
Definition assert_string (v : jv) : option bytes := match v with JStr s => Some s | _ => None end.
(* ensureInt: x.(int) never holds for decoded JSON; x.(float64) panics unless a number *)
Definition ensure_int (v : jv) : option Z := match v with JNum _ z => Some z | _ => None end.

Definition ascii_scrypt : bytes := [x73; x63; x72; x79; x70; x74].
Definition ascii_pbkdf2 : bytes := [x70; x62; x6b; x64; x66; x32].
Definition ascii_hmac_sha256 : bytes := [x68; x6d; x61; x63; x2d; x73; x68; x61; x32; x35; x36].
Definition ascii_aes_128_ctr : bytes := [x61; x65; x73; x2d; x31; x32; x38; x2d; x63; x74; x72].
Definition ascii_1 : bytes := [x31].

(* derivedKey[16:32] / derivedKey[:16] on the slice the KDF returned: legal up to
   its capacity (the primitive hands back dk[:cap(dk)]), a panic beyond *)
Definition slice (lo hi : nat) (b : bytes) : option bytes :=
  if Nat.leb hi (length b) then Some (firstn (hi - lo) (skipn lo b)) else None.

(* math.PaddedBigBytes(D, 32) *)
Definition padded_big_bytes (w : nat) (d : N) : bytes :=
  let b := be_of_N d in if Nat.leb w (length b) then b else be_fixed w d.

Section Prims.
  Variable kdf : kdf_alg -> bytes -> bytes -> Z -> pres.   (* alg, passphrase, salt, dkLen; POk carries dk[:cap(dk)] *)
  Variable aes_ctr : bytes -> bytes -> bytes -> pres.       (* key, iv, input *)
  Variable aes_cbc_dec : bytes -> bytes -> bytes -> pres.   (* key, iv, ciphertext -> unpadded plaintext *)
  Variable H : bytes -> bytes.
  Variable pub_addr : bytes -> bytes.

  (* getKDFKey *)
  Definition get_kdf_key (f : keyfile) (kdfname : bytes) (auth : bytes) : res bytes :=
    match assert_string (kp_salt f) with
    | None => Panic
    | Some salthex =>
      match hex_decode salthex with
      | None => Err
      | Some salt =>
        match ensure_int (kp_dklen f) with
        | None => Panic
        | Some dklen =>
          let run alg := match kdf alg auth salt dklen with POk d => Ok d | PErr => Err | PPanic => Panic end in
          if bytes_eqb kdfname ascii_scrypt then
            match ensure_int (kp_n f) with
            | None => Panic
            | Some n =>
              match ensure_int (kp_r f) with
              | None => Panic
              | Some r =>
                match ensure_int (kp_p f) with
                | None => Panic
                | Some p => run (KScrypt n r p)
                end
              end
            end
          else if bytes_eqb kdfname ascii_pbkdf2 then
            match ensure_int (kp_c f) with
            | None => Panic
            | Some c =>
              match assert_string (kp_prf f) with
              | None => Panic
              | Some prf => if bytes_eqb prf ascii_hmac_sha256 then run (KPbkdf2 c) else Err
              end
            end
          else Err
        end
      end
    end.

  (* the part decryptKeyV3 and decryptKeyV1 share: hex fields, KDF, MAC check *)
  Definition check_mac (f : keyfile) (machex ivhex cthex kdfname auth : bytes)
    : res (bytes * bytes * bytes) (* derived, iv, ciphertext *) :=
    match hex_decode machex with
    | None => Err
    | Some mac =>
      match hex_decode ivhex with
      | None => Err
      | Some iv =>
        match hex_decode cthex with
        | None => Err
        | Some ct =>
          match get_kdf_key f kdfname auth with
          | Err => Err
          | Panic => Panic
          | Ok d =>
            match slice 16 32 d with
            | None => Panic
            | Some mk => if bytes_eqb (H (mk ++ ct)) mac then Ok (d, iv, ct) else Err
            end
          end
        end
      end
    end.

  Definition of_pres (p : pres) : res bytes := match p with POk b => Ok b | PErr => Err | PPanic => Panic end.

  (* DecryptKey: returns the decrypted key bytes and the address derived from them *)
  Definition decrypt_key (f : keyfile) (auth : bytes) : res (bytes * bytes) :=
    let v1 := match kf_version_exact f with JStr s => bytes_eqb s ascii_1 | _ => false end in
    (* json.Unmarshal into the version-specific struct: every bound member must have the field's type *)
    let typed :=
      match as_string (kf_address f), as_string (kf_id f), as_string (kf_cipher f), as_string (kf_ciphertext f),
            as_string (kf_iv f), as_string (kf_kdf f), as_string (kf_mac f) with
      | Some _, Some _, Some cipher, Some cthex, Some ivhex, Some kdfname, Some machex =>
          if as_obj_ok (kf_crypto f) && as_obj_ok (kf_cipherparams f) && as_obj_ok (kf_kdfparams f)
          then Some (cipher, cthex, ivhex, kdfname, machex) else None
      | _, _, _, _, _, _, _ => None
      end in
    match typed with
    | None => Err
    | Some (cipher, cthex, ivhex, kdfname, machex) =>
      let plain : res bytes :=
        if v1 then
          match as_string (kf_version f) with
          | None => Err
          | Some _ =>
            (* decryptKeyV1 *)
            match check_mac f machex ivhex cthex kdfname auth with
            | Err => Err | Panic => Panic
            | Ok (d, iv, ct) =>
              match slice 0 16 d with
              | None => Panic
              | Some dk16 => of_pres (aes_cbc_dec (firstn 16 (H dk16)) iv ct)
              end
            end
          end
        else
          match as_int (kf_version f) with
          | None => Err
          | Some ver =>
            (* decryptKeyV3 *)
            if negb (Z.eqb ver 3) then Err
            else if negb (bytes_eqb cipher ascii_aes_128_ctr) then Err
            else
              match check_mac f machex ivhex cthex kdfname auth with
              | Err => Err | Panic => Panic
              | Ok (d, iv, ct) =>
                match slice 0 16 d with
                | None => Panic
                | Some ek => of_pres (aes_ctr ek iv ct)
                end
              end
          end in
      match plain with
      | Err => Err | Panic => Panic
      | Ok kb => Ok (kb, pub_addr kb)
      end
    end.

  (* keyStorePassphrase.GetKey: decrypt, then compare the address with the account's *)
  Definition get_key (addr : bytes) (f : keyfile) (auth : bytes) : res (bytes * bytes) :=
    match decrypt_key f auth with
    | Ok (kb, a) => if bytes_eqb a addr then Ok (kb, a) else Err
    | other => other
    end.

  (* EncryptKey(key, auth, scryptN, scryptP) with the two random draws (salt, iv)
     as arguments; d = key.PrivateKey.D, addr = key.Address, id = key.Id.String() *)
  Definition encrypt_key (d : N) (addr id : bytes) (auth salt iv : bytes) (n p : Z) : res keyfile :=
    match kdf (KScrypt n 8 p) auth salt 32 with
    | PErr => Err
    | PPanic => Panic
    | POk dk =>
      match slice 0 16 dk with
      | None => Panic
      | Some ek =>
        match aes_ctr ek iv (padded_big_bytes 32 d) with
        | PErr => Err
        | PPanic => Panic
        | POk ct =>
          match slice 16 32 dk with
          | None => Panic
          | Some mk =>
            Ok (mkKeyfile (JNum true 3) (JNum true 3) (JStr (hex_encode addr)) (JStr id) JObj
                  (JStr ascii_aes_128_ctr) (JStr (hex_encode ct)) JObj (JStr (hex_encode iv))
                  (JStr ascii_scrypt) JObj (JStr (hex_encode (H (mk ++ ct))))
                  (JStr (hex_encode salt)) (JNum true 32) (JNum true n) (JNum true 8) (JNum true p)
                  JMissing JMissing)
          end
        end
      end
    end.
End Prims.

(* ---------------------------------------------------------------------------
   KeyStore lock-state machine (aqua/accounts/keystore/keystore.go: NewAccount,
   ImportECDSA, Unlock, TimedUnlock, Lock, expire, Update, Export, Delete,
   SignHash*/SignTx, SignHashWithPassphrase, getDecryptedKey).  One KeyStore
   instance; account i is the i-th created.  What GetKey decides is abstracted
   to "the passphrase given is the one the stored file was last encrypted
   with" (tied to decrypt_key by the C20 theorems above); time is a logical
   clock advanced by OWait. *)
Inductive lock_state := Locked | Until (t : N) | Forever.
Record acct := mkAcct { a_exists : bool; a_pass : bytes; a_lock : lock_state }.
Record ks_state := mkKs { ks_now : N; ks_accts : list acct }.

Inductive ks_op :=
| OCreate (p : bytes)                            (* NewAccount / ImportECDSA (p): a new, locked account *)
| OTimedUnlock (i : nat) (p : bytes) (d : N)     (* TimedUnlock(a, p, d); d = 0 is Unlock *)
| OLock (i : nat)
| OUpdate (i : nat) (old new : bytes)
| OExport (i : nat) (p : bytes)
| ODelete (i : nat) (p : bytes)
| OSign (i : nat)                                (* SignHash / SignHashAllowed / SignTx *)
| OSignWithPass (i : nat) (p : bytes)
| OWait (d : N).

(* getDecryptedKey succeeds: the account is still in the cache / on disk and GetKey accepts p *)
(* The passphrase reaches scrypt / PBKDF2 only as an HMAC-SHA256 key, and crypto/hmac
   zero-pads a key of at most one block (64 bytes): trailing NUL bytes of such a
   passphrase do not matter (finding passphrase-trailing-nul-equivalent). *)
Fixpoint strip_trailing_nul (b : bytes) : bytes :=
  match b with
  | [] => []
  | c :: t =>
    let t' := strip_trailing_nul t in
    if (b2n c =? 0) && (match t' with [] => true | _ => false end) then [] else c :: t'
  end.
Definition kdf_pass_norm (p : bytes) : bytes := if Nat.leb (length p) 64 then strip_trailing_nul p else p.
Definition authenticates (a : acct) (p : bytes) : bool :=
  a_exists a && bytes_eqb (kdf_pass_norm p) (kdf_pass_norm (a_pass a)).
(* ks.unlocked[addr] present: the expire goroutine removes an `Until t` entry at time t *)
Definition is_unlocked (now : N) (a : acct) : bool :=
  match a_lock a with Locked => false | Until t => now <? t | Forever => true end.

Fixpoint upd_nth {A} (i : nat) (f : A -> A) (l : list A) : list A :=
  match l, i with
  | [], _ => []
  | x :: t, O => f x :: t
  | x :: t, S j => x :: upd_nth j f t
  end.

Definition set_lock (l : lock_state) (a : acct) : acct := mkAcct (a_exists a) (a_pass a) l.

(* one operation: new state and whether it returned nil (true) or an error (false) *)
Definition ks_step (s : ks_state) (op : ks_op) : ks_state * bool :=
  let now := ks_now s in
  let accts := ks_accts s in
  let with_acct (i : nat) (k : acct -> ks_state * bool) : ks_state * bool :=
    match nth_error accts i with Some a => k a | None => (s, false) end in
  match op with
  | OCreate p => (mkKs now (accts ++ [mkAcct true p Locked]), true)
  | OTimedUnlock i p d =>
      with_acct i (fun a =>
        if authenticates a p then
          (* already unlocked indefinitely: "the timeout is not altered" *)
          if (match a_lock a with Forever => true | _ => false end) then (s, true)
          else (mkKs now (upd_nth i (set_lock (if d =? 0 then Forever else Until (now + d))) accts), true)
        else (s, false))
  | OLock i => (mkKs now (upd_nth i (set_lock Locked) accts), true)
  | OUpdate i old new =>
      with_acct i (fun a =>
        if authenticates a old
        then (mkKs now (upd_nth i (fun a => mkAcct (a_exists a) new (a_lock a)) accts), true)
        else (s, false))
  | OExport i p => with_acct i (fun a => (s, authenticates a p))
  | ODelete i p =>
      with_acct i (fun a =>
        if authenticates a p
        (* the file and the cache entry go; ks.unlocked is not touched *)
        then (mkKs now (upd_nth i (fun a => mkAcct false (a_pass a) (a_lock a)) accts), true)
        else (s, false))
  | OSign i => with_acct i (fun a => (s, is_unlocked now a))
  | OSignWithPass i p => with_acct i (fun a => (s, authenticates a p))
  | OWait d => (mkKs (now + d) accts, true)
  end.

Fixpoint ks_run (s : ks_state) (ops : list ks_op) : ks_state * list bool :=
  match ops with
  | [] => (s, [])
  | op :: t => let '(s1, r) := ks_step s op in let '(s2, rs) := ks_run s1 t in (s2, r :: rs)
  end.

Definition ks_init : ks_state := mkKs 0 [].
