(* Keystore/StoreProofs.v — the KeyStore model of StoreModel.v: what a passphrase
   operation does is DERIVED from the file-level model (get_key on the file the
   account has), not assumed.  History theorems over cstep / crun. *)
From AQ Require Import Lib.Bytes Keystore.KeystoreModel Keystore.KeystoreProofs Keystore.StoreModel.
From Coq Require Import ZifyBool ZifyN ZifyNat.
Local Open Scope N_scope.

Lemma Forall_upd_nth {A} (P : A -> Prop) (g : A -> A) : forall l i,
  Forall P l -> (forall x, nth_error l i = Some x -> P x -> P (g x)) -> Forall P (upd_nth i g l).
Proof.
  induction l as [|x l IH]; intros i F G; [destruct i; constructor|].
  inversion F as [|? ? Px Fl]; subst. destruct i; cbn [upd_nth].
  - constructor; [apply (G x eq_refl Px)|assumption].
  - constructor; [assumption|]. apply IH; [assumption|]. intros y N. apply (G y). exact N.
Qed.

Lemma Forall_nth_error {A} (P : A -> Prop) l i x : Forall P l -> nth_error l i = Some x -> P x.
Proof. intros F N. rewrite Forall_forall in F. apply F. eapply nth_error_In; eassumption. Qed.

Section Store.
  Variable kdf : kdf_alg -> bytes -> bytes -> Z -> pres.
  Variable aes_ctr : bytes -> bytes -> bytes -> pres.
  Variable aes_cbc_dec : bytes -> bytes -> bytes -> pres.
  Variable H : bytes -> bytes.
  Variable pub_addr : bytes -> bytes.
  Variable scrypt_n scrypt_p : Z.

  Notation get_key := (get_key kdf aes_ctr aes_cbc_dec H pub_addr).
  Notation decrypt_key := (decrypt_key kdf aes_ctr aes_cbc_dec H pub_addr).
  Notation store_key := (store_key kdf aes_ctr H scrypt_n scrypt_p).
  Notation get_decrypted_key := (get_decrypted_key kdf aes_ctr aes_cbc_dec H pub_addr).
  Notation cstep := (cstep kdf aes_ctr aes_cbc_dec H pub_addr scrypt_n scrypt_p).
  Notation crun := (crun kdf aes_ctr aes_cbc_dec H pub_addr scrypt_n scrypt_p).

  (* ---------- 1. a passphrase that does not open the file: error, nothing changes ---------- *)
  (* the (account, passphrase) an operation runs getDecryptedKey with *)
  Definition cop_auth (op : cop) : option (nat * bytes) :=
    match op with
    | CTimedUnlock i p _ => Some (i, p)
    | CUpdate i old _ _ _ => Some (i, old)
    | CExport i p _ _ _ => Some (i, p)
    | CDelete i p => Some (i, p)
    | CSignWithPass i p => Some (i, p)
    | _ => None
    end.

  Theorem not_opened_no_change s op i p :
    cop_auth op = Some (i, p) ->
    (forall k a, get_decrypted_key s i p <> Ok (k, a)) ->
    exists r, cstep s op = (s, r, None) /\ r <> ROk.
  Proof.
    intros A NO.
    assert (F : forall (g : res (bytes * bytes)), g = get_decrypted_key s i p ->
              exists r, (s, match g with Panic => RPanic | _ => RErr end, @None keyfile) = (s, r, None) /\ r <> ROk).
    { intros g _. eexists. split; [reflexivity|]. destruct g; discriminate. }
    destruct op; cbn in A; try discriminate; injection A as <- <-; cbn [StoreModel.cstep];
      destruct (get_decrypted_key s _ _) as [[k a]| |] eqn:G;
      try (exfalso; eapply NO; reflexivity);
      try (eexists; split; [reflexivity|discriminate]).
  Qed.

  (* ---------- 2. the files a KeyStore holds were written by the KeyStore ---------- *)
  Definition written_with (a : cacct) : Prop :=
    match c_file a with
    | None => True
    | Some f => exists d p0 salt iv, d < 2 ^ 256 /\ store_key d (c_addr a) (c_id a) p0 salt iv = Ok f /\
                                     c_addr a = pub_addr (padded_big_bytes 32 d)
    end.

  (* operations of the KeyStore itself on keys it generated (no file replaced from outside, no import of a foreign file) *)
  Definition store_only (op : cop) : Prop :=
    match op with CPutFile _ _ => False | CImport _ _ _ _ _ _ => False | CCreate d _ _ _ _ => d < 2 ^ 256 | _ => True end.

  Lemma get_decrypted_key_inv s i p k a :
    get_decrypted_key s i p = Ok (k, a) ->
    exists ac f, nth_error (cs_accts s) i = Some ac /\ c_file ac = Some f /\ get_key (c_addr ac) f p = Ok (k, a).
  Proof.
    unfold StoreModel.get_decrypted_key. destruct (nth_error (cs_accts s) i) as [ac|]; [|discriminate].
    destruct (c_file ac) as [f|] eqn:F; [|discriminate]. intros G. eauto.
  Qed.

  Lemma written_set_clock_addr addr l accts :
    Forall written_with accts -> Forall written_with (set_clock_addr addr l accts).
  Proof.
    intros F. unfold set_clock_addr. rewrite Forall_forall in *. intros x Hin. apply in_map_iff in Hin.
    destruct Hin as (a & <- & Ha). specialize (F a Ha). destruct (bytes_eqb (c_addr a) addr); exact F.
  Qed.

  Hypothesis pub_addr_inj : forall k1 k2, pub_addr k1 = pub_addr k2 -> k1 = k2.

  Lemma step_written s op :
    store_only op -> Forall written_with (cs_accts s) -> Forall written_with (cs_accts (fst (fst (cstep s op)))).
  Proof.
    intros SO F. destruct op; cbn [store_only] in SO; try contradiction; cbn [StoreModel.cstep].
    - (* CCreate *)
      destruct (has_address _ _); [exact F|].
      destruct (store_key d (pub_addr (padded_big_bytes 32 d)) id pass salt iv) as [f| |] eqn:E; cbn [fst cs_accts]; try exact F.
      apply Forall_app. split; [exact F|]. constructor; [|constructor].
      unfold written_with. cbn [c_file c_addr c_id]. exists d, pass, salt, iv. repeat split; assumption.
    - (* CTimedUnlock *)
      destruct (get_decrypted_key s i p) as [[k a]| |]; cbn [fst]; try exact F; try (destruct (match _ with Panic => _ | _ => _ end); exact F).
      destruct (nth_error (cs_accts s) i) as [ac|]; cbn [fst]; [|exact F].
      destruct (c_lock ac); cbn [fst cs_accts]; try exact F; now apply written_set_clock_addr.
    - (* CLock *)
      destruct (nth_error (cs_accts s) i); cbn [fst cs_accts]; [now apply written_set_clock_addr|exact F].
    - (* CUpdate *)
      destruct (get_decrypted_key s i old) as [[k a]| |] eqn:G; cbn [fst]; try exact F.
      destruct (get_decrypted_key_inv _ _ _ _ _ G) as (ac & f & N & Ef & GK).
      rewrite N. destruct (store_key (N_of_be k) a (c_id ac) new salt iv) as [f'| |] eqn:E; cbn [fst cs_accts]; try exact F.
      apply Forall_upd_nth; [exact F|]. intros x Nx Wx. rewrite N in Nx. injection Nx as <-.
      destruct (getkey_address _ _ _ _ _ _ _ _ _ _ GK) as [-> Ea].
      unfold written_with in Wx |- *. rewrite Ef in Wx. destruct Wx as (d0 & p0 & salt0 & iv0 & Hd & _ & Ead).
      cbn [set_file c_file c_addr c_id].
      assert (Ek : k = padded_big_bytes 32 d0) by (apply pub_addr_inj; congruence).
      exists d0, new, salt, iv. repeat split; try assumption.
      rewrite <- E. f_equal. rewrite Ek. symmetry. now apply padded_big_bytes_value.
    - (* CExport *)
      destruct (get_decrypted_key s i p) as [[k a]| |]; cbn [fst]; try exact F.
      destruct (nth_error (cs_accts s) i) as [ac|]; cbn [fst]; [|exact F].
      destruct (store_key _ _ _ _ _ _); exact F.
    - (* CDelete *)
      destruct (get_decrypted_key s i p) as [[k a]| |]; cbn [fst cs_accts]; try exact F.
      apply Forall_upd_nth; [exact F|]. intros x _ _. unfold written_with. cbn. exact I.
    - (* CSign *) destruct (nth_error (cs_accts s) i); exact F.
    - (* CSignWithPass *) destruct (get_decrypted_key s i p) as [[k a]| |]; exact F.
    - (* CWait *) exact F.
  Qed.

  Theorem run_written : forall ops s,
    Forall store_only ops -> Forall written_with (cs_accts s) -> Forall written_with (cs_accts (crun s ops)).
  Proof.
    induction ops as [|op t IH]; intros s SO F; [exact F|].
    inversion SO as [|? ? So St]; subst. cbn [StoreModel.crun]. apply IH; [assumption|]. now apply step_written.
  Qed.

  (* ---------- 3. `authenticates`, derived: after any history of the KeyStore's own operations every
     account's file opens with the passphrase it was last written under (through GetKey, address check
     included) and with no passphrase the KDF separates from it ---------- *)
  Theorem written_file_authenticates a f :
    written_with a -> c_file a = Some f ->
    exists d p0 salt iv,
      store_key d (c_addr a) (c_id a) p0 salt iv = Ok f /\
      ((forall k i x y, aes_ctr k i x = POk y -> aes_ctr k i y = POk x) ->
         get_key (c_addr a) f p0 = Ok (padded_big_bytes 32 d, c_addr a)) /\
      (forall p' dk dk' mk mk',
         kdf (KScrypt scrypt_n 8 scrypt_p) p0 salt 32%Z = POk dk -> slice 16 32 dk = Some mk ->
         kdf (KScrypt scrypt_n 8 scrypt_p) p' salt 32%Z = POk dk' -> slice 16 32 dk' = Some mk' -> mk' <> mk ->
         get_key (c_addr a) f p' = Err \/ exists ct, KeystoreProofs.collision H (mk' ++ ct) (mk ++ ct)).
  Proof.
    intros W Ef. unfold written_with in W. rewrite Ef in W. destruct W as (d & p0 & salt & iv & Hd & E & Ea).
    exists d, p0, salt, iv. split; [exact E|]. split.
    - intros Inv. unfold KeystoreModel.get_key.
      rewrite (roundtrip kdf aes_ctr aes_cbc_dec H pub_addr _ _ _ _ _ _ _ _ _ Inv E).
      rewrite <- Ea, bytes_eqb_refl. reflexivity.
    - intros p' dk dk' mk mk' K S K' S' Ne.
      destruct (wrong_passphrase_fails kdf aes_ctr aes_cbc_dec H pub_addr _ _ _ _ _ _ _ _ _ _ _ _ _ _ E K S K' S' Ne) as [D|C].
      + left. unfold KeystoreModel.get_key. now rewrite D.
      + right. exact C.
  Qed.

  Theorem store_history_authenticates ops i a f :
    Forall store_only ops ->
    let s := crun cs_init ops in
    nth_error (cs_accts s) i = Some a -> c_file a = Some f ->
    exists d p0 salt iv,
      store_key d (c_addr a) (c_id a) p0 salt iv = Ok f /\
      ((forall k j x y, aes_ctr k j x = POk y -> aes_ctr k j y = POk x) ->
         get_decrypted_key s i p0 = Ok (padded_big_bytes 32 d, c_addr a)) /\
      (forall p' dk dk' mk mk',
         kdf (KScrypt scrypt_n 8 scrypt_p) p0 salt 32%Z = POk dk -> slice 16 32 dk = Some mk ->
         kdf (KScrypt scrypt_n 8 scrypt_p) p' salt 32%Z = POk dk' -> slice 16 32 dk' = Some mk' -> mk' <> mk ->
         get_decrypted_key s i p' = Err \/ exists ct, KeystoreProofs.collision H (mk' ++ ct) (mk ++ ct)).
  Proof.
    intros SO s N Ef.
    assert (W : written_with a).
    { apply (Forall_nth_error written_with (cs_accts s) i a); [|exact N]. apply run_written; [exact SO|constructor]. }
    destruct (written_file_authenticates a f W Ef) as (d & p0 & salt & iv & E & R & Wr).
    exists d, p0, salt, iv. split; [exact E|]. unfold StoreModel.get_decrypted_key. rewrite N, Ef. split; assumption.
  Qed.

  (* ---------- 4. an account only ever signs with its own key ---------- *)
  (* whatever files were put in place and whatever was imported: an unlocked entry holds a key whose
     derived address is the account's *)
  Definition lock_key (l : clock) : option bytes :=
    match l with CLocked => None | CUntil _ k => Some k | CForever k => Some k end.
  Definition unlocked_key_ok (a : cacct) : Prop :=
    forall k, lock_key (c_lock a) = Some k -> pub_addr k = c_addr a.
  Lemma unlocked_ok_set_clock_addr addr l accts :
    (forall k, lock_key l = Some k -> pub_addr k = addr) ->
    Forall unlocked_key_ok accts -> Forall unlocked_key_ok (set_clock_addr addr l accts).
  Proof.
    intros Hl F. unfold set_clock_addr. rewrite Forall_forall in *. intros x Hin. apply in_map_iff in Hin.
    destruct Hin as (a & <- & Ha). specialize (F a Ha).
    destruct (bytes_eqb_spec (c_addr a) addr) as [E|]; [|exact F].
    unfold unlocked_key_ok. cbn [set_clock c_lock c_addr]. intros k Hk. rewrite E. now apply Hl.
  Qed.

  Lemma lock_of_addr_ok addr accts :
    Forall unlocked_key_ok accts -> forall k, lock_key (lock_of_addr addr accts) = Some k -> pub_addr k = addr.
  Proof.
    intros F k. unfold lock_of_addr.
    destruct (find (fun a => bytes_eqb (c_addr a) addr) accts) as [a|] eqn:Fd; [|discriminate].
    apply find_some in Fd. destruct Fd as [Hin E].
    destruct (bytes_eqb_spec (c_addr a) addr) as [<-|]; [|discriminate].
    rewrite Forall_forall in F. exact (F a Hin k).
  Qed.

  (* for EVERY history - files replaced from outside and foreign imports included *)
  Lemma step_unlocked_ok s op :
    Forall unlocked_key_ok (cs_accts s) -> Forall unlocked_key_ok (cs_accts (fst (fst (cstep s op)))).
  Proof.
    intros F.
    assert (Keep : forall i (g : cacct -> cacct), (forall x, c_lock (g x) = c_lock x /\ c_addr (g x) = c_addr x) ->
              Forall unlocked_key_ok (upd_nth i g (cs_accts s))).
    { intros i g Hg. apply Forall_upd_nth; [exact F|]. intros x _ Px. unfold unlocked_key_ok in *.
      destruct (Hg x) as [-> ->]. exact Px. }
    destruct op; cbn [StoreModel.cstep].
    - destruct (has_address _ _); [exact F|].
      destruct (store_key _ _ _ _ _ _); cbn [fst cs_accts]; try exact F.
      apply Forall_app. split; [exact F|]. constructor; [|constructor].
      unfold unlocked_key_ok. cbn [c_lock c_addr]. now apply lock_of_addr_ok.
    - destruct (decrypt_key f pass) as [[k a]| |]; cbn [fst]; try exact F.
      destruct (store_key _ _ _ _ _ _); cbn [fst cs_accts]; try exact F.
      apply Forall_app. split; [exact F|]. constructor; [|constructor].
      unfold unlocked_key_ok. cbn [c_lock c_addr]. now apply lock_of_addr_ok.
    - destruct (get_decrypted_key s i p) as [[k a]| |] eqn:G; cbn [fst]; try exact F.
      destruct (get_decrypted_key_inv _ _ _ _ _ G) as (ac & f & N & Ef & GK). rewrite N.
      destruct (getkey_address _ _ _ _ _ _ _ _ _ _ GK) as [Ea Ek].
      destruct (c_lock ac); cbn [fst cs_accts]; try exact F;
        (apply unlocked_ok_set_clock_addr; [|exact F]; intros kk Hk; destruct (d =? 0); cbn in Hk; injection Hk as <-; congruence).
    - destruct (nth_error (cs_accts s) i); cbn [fst cs_accts]; [|exact F].
      apply unlocked_ok_set_clock_addr; [discriminate|exact F].
    - destruct (get_decrypted_key s i old) as [[k a]| |]; cbn [fst]; try exact F.
      destruct (nth_error (cs_accts s) i); cbn [fst]; [|exact F].
      destruct (store_key _ _ _ _ _ _); cbn [fst cs_accts]; try exact F. apply Keep. intros x. split; reflexivity.
    - destruct (get_decrypted_key s i p) as [[k a]| |]; cbn [fst]; try exact F.
      destruct (nth_error (cs_accts s) i); cbn [fst]; [|exact F]. destruct (store_key _ _ _ _ _ _); exact F.
    - destruct (get_decrypted_key s i p) as [[k a]| |]; cbn [fst cs_accts]; try exact F.
      apply Keep. intros x. split; reflexivity.
    - destruct (nth_error (cs_accts s) i); exact F.
    - destruct (get_decrypted_key s i p) as [[k a]| |]; exact F.
    - exact F.
    - cbn [fst cs_accts]. apply Keep. intros x. destruct (c_file x); split; reflexivity.
  Qed.

  Theorem unlocked_key_is_the_accounts : forall ops s,
    Forall unlocked_key_ok (cs_accts s) -> Forall unlocked_key_ok (cs_accts (crun s ops)).
  Proof.
    induction ops as [|op t IH]; intros s F; [exact F|]. cbn [StoreModel.crun]. apply IH. now apply step_unlocked_ok.
  Qed.
End Store.
