(* Keystore/StoreModel.v — the KeyStore on top of the file-level model
   (aqua/accounts/keystore/keystore.go: NewAccount / ImportECDSA / Import /
   Unlock / TimedUnlock / Lock / expire / Update / Export / Delete / SignHash*,
   SignTx / SignHashWithPassphrase / getDecryptedKey; keystore_passphrase.go
   keyStorePassphrase.{GetKey, StoreKey, UpdateKey}).  Unlike the abstract
   lock-state machine ks_step (KeystoreModel.v), nothing here is assumed about
   passphrases: every operation that takes one runs get_key (DecryptKey + the
   address comparison) on the key FILE the account currently has on disk, and
   every operation that writes one runs encrypt_key.  Definitions only: extracted. *)
From AQ Require Import Lib.Bytes Keystore.KeystoreModel.
Local Open Scope N_scope.

(* ks.unlocked[addr]: the decrypted key, with an abort channel (CUntil) or without (CForever) *)
Inductive clock := CLocked | CUntil (t : N) (k : bytes) | CForever (k : bytes).
(* one entry of the account cache: address, key id, the file at its URL (None: removed) *)
Record cacct := mkCacct { c_addr : bytes; c_id : bytes; c_file : option keyfile; c_lock : clock }.
Record cstate := mkCs { cs_now : N; cs_accts : list cacct }.

Inductive cres := ROk | RErr | RPanic.

Inductive cop :=
| CCreate (d : N) (id pass salt iv : bytes)                    (* NewAccount / ImportECDSA: key d, fresh uuid, random salt / iv *)
| CImport (f : keyfile) (pass newpass id salt iv : bytes)      (* Import(keyJSON, pass, newpass) *)
| CTimedUnlock (i : nat) (p : bytes) (d : N)                   (* d = 0: Unlock *)
| CLock (i : nat)
| CUpdate (i : nat) (old new salt iv : bytes)
| CExport (i : nat) (p newp salt iv : bytes)
| CDelete (i : nat) (p : bytes)
| CSign (i : nat)
| CSignWithPass (i : nat) (p : bytes)
| CWait (d : N)
| CPutFile (i : nat) (f : keyfile).                            (* the file at the account's URL is replaced from outside *)

Definition clock_unlocked (now : N) (l : clock) : bool :=
  match l with CLocked => false | CUntil t _ => now <? t | CForever _ => true end.

Section Store.
  Variable kdf : kdf_alg -> bytes -> bytes -> Z -> pres.
  Variable aes_ctr : bytes -> bytes -> bytes -> pres.
  Variable aes_cbc_dec : bytes -> bytes -> bytes -> pres.
  Variable H : bytes -> bytes.
  Variable pub_addr : bytes -> bytes.
  Variable scrypt_n scrypt_p : Z.                              (* keyStorePassphrase{scryptN, scryptP} *)

  (* keyStorePassphrase.StoreKey / UpdateKey: EncryptKey with the store's parameters *)
  Definition store_key (d : N) (addr id pass salt iv : bytes) : res keyfile :=
    encrypt_key kdf aes_ctr H d addr id pass salt iv scrypt_n scrypt_p.

  (* KeyStore.getDecryptedKey: Find the account, then storage.GetKey(a.Address, a.URL.Path, auth);
     a missing file is ReadFile's error *)
  Definition get_decrypted_key (s : cstate) (i : nat) (p : bytes) : res (bytes * bytes) :=
    match nth_error (cs_accts s) i with
    | None => Err
    | Some a =>
      match c_file a with
      | None => Err
      | Some f => get_key kdf aes_ctr aes_cbc_dec H pub_addr (c_addr a) f p
      end
    end.

  Definition set_clock (l : clock) (a : cacct) : cacct := mkCacct (c_addr a) (c_id a) (c_file a) l.
  Definition set_file (f : option keyfile) (a : cacct) : cacct := mkCacct (c_addr a) (c_id a) f (c_lock a).
  (* ks.unlocked is keyed by ADDRESS: two cache entries with one address (an exported key imported
     again) share their lock state *)
  Definition set_clock_addr (addr : bytes) (l : clock) (accts : list cacct) : list cacct :=
    map (fun a => if bytes_eqb (c_addr a) addr then set_clock l a else a) accts.

  (* a new cache entry for an address that is already unlocked is unlocked too (same map key) *)
  Definition lock_of_addr (addr : bytes) (accts : list cacct) : clock :=
    match find (fun a => bytes_eqb (c_addr a) addr) accts with Some a => c_lock a | None => CLocked end.
  (* accountCache.hasAddress: an entry with that address whose file has not been deleted *)
  Definition has_address (addr : bytes) (accts : list cacct) : bool :=
    existsb (fun a => bytes_eqb (c_addr a) addr && match c_file a with Some _ => true | None => false end) accts.

  (* result of one operation: new state, outcome, and the key file it wrote or returned (if any) *)
  Definition cstep (s : cstate) (op : cop) : cstate * cres * option keyfile :=
    let now := cs_now s in
    let accts := cs_accts s in
    let fail (r : res (bytes * bytes)) : cstate * cres * option keyfile :=
      (s, match r with Panic => RPanic | _ => RErr end, None) in
    match op with
    | CCreate d id pass salt iv =>
        (* newKeyFromECDSA: Address = PubkeyToAddress(priv.PubKey()); storeNewKey / importKey -> StoreKey *)
        let addr := pub_addr (padded_big_bytes 32 d) in
        if has_address addr accts then (s, RErr, None)          (* ImportECDSA: "account already exists" *)
        else
        match store_key d addr id pass salt iv with
        | Ok f => (mkCs now (accts ++ [mkCacct addr id (Some f) (lock_of_addr addr accts)]), ROk, Some f)
        | Err => (s, RErr, None)
        | Panic => (s, RPanic, None)
        end
    | CImport f pass newpass id salt iv =>
        (* Import: bare DecryptKey (no address comparison), then importKey under the DERIVED address *)
        match decrypt_key kdf aes_ctr aes_cbc_dec H pub_addr f pass with
        | Ok (k, a) =>
          match store_key (N_of_be k) a id newpass salt iv with
          | Ok f' => (mkCs now (accts ++ [mkCacct a id (Some f') (lock_of_addr a accts)]), ROk, Some f')
          | Err => (s, RErr, None)
          | Panic => (s, RPanic, None)
          end
        | other => fail other
        end
    | CTimedUnlock i p d =>
        match get_decrypted_key s i p with
        | Ok (k, _) =>
          match nth_error accts i with
          | Some a =>
            match c_lock a with
            | CForever _ => (s, ROk, None)           (* unlocked indefinitely: not altered *)
            | _ => (mkCs now (set_clock_addr (c_addr a) (if d =? 0 then CForever k else CUntil (now + d) k) accts), ROk, None)
            end
          | None => (s, RErr, None)
          end
        | other => fail other
        end
    | CLock i =>
        match nth_error accts i with
        | Some a => (mkCs now (set_clock_addr (c_addr a) CLocked accts), ROk, None)
        | None => (s, ROk, None)
        end
    | CUpdate i old new salt iv =>
        match get_decrypted_key s i old with
        | Ok (k, a) =>
          match nth_error accts i with
          | Some ac =>
            match store_key (N_of_be k) a (c_id ac) new salt iv with
            | Ok f' => (mkCs now (upd_nth i (set_file (Some f')) accts), ROk, Some f')
            | Err => (s, RErr, None)
            | Panic => (s, RPanic, None)
            end
          | None => (s, RErr, None)
          end
        | other => fail other
        end
    | CExport i p newp salt iv =>
        match get_decrypted_key s i p with
        | Ok (k, a) =>
          match nth_error accts i with
          | Some ac =>
            match store_key (N_of_be k) a (c_id ac) newp salt iv with
            | Ok f' => (s, ROk, Some f')
            | Err => (s, RErr, None)
            | Panic => (s, RPanic, None)
            end
          | None => (s, RErr, None)
          end
        | other => fail other
        end
    | CDelete i p =>
        match get_decrypted_key s i p with
        | Ok _ => (mkCs now (upd_nth i (set_file None) accts), ROk, None)   (* ks.unlocked is not touched *)
        | other => fail other
        end
    | CSign i =>
        match nth_error accts i with
        | Some a => (s, if clock_unlocked now (c_lock a) then ROk else RErr, None)
        | None => (s, RErr, None)
        end
    | CSignWithPass i p =>
        match get_decrypted_key s i p with
        | Ok _ => (s, ROk, None)
        | other => fail other
        end
    | CWait d => (mkCs (now + d) accts, ROk, None)
    | CPutFile i f =>
        (mkCs now (upd_nth i (fun a => match c_file a with Some _ => set_file (Some f) a | None => a end) accts), ROk, None)
    end.

  Fixpoint crun (s : cstate) (ops : list cop) : cstate :=
    match ops with [] => s | op :: t => crun (fst (fst (cstep s op))) t end.
End Store.

Definition cs_init : cstate := mkCs 0 [].
