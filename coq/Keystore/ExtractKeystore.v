(* Extraction of the keystore model for ocaml/keystore/driver.ml.  ExtrOcamlBasic only. *)
From AQ Require Import Lib.Bytes Lib.ExtractBase Lib.Keccak Keystore.KeystoreModel Keystore.StoreModel.
Require Extraction.
Require Import ExtrOcamlBasic.
Extraction "../ocaml/keystore/model.ml" base_anchor keccak256
  hex_encode hex_decode padded_big_bytes get_kdf_key decrypt_key get_key encrypt_key
  ks_step ks_run ks_init is_unlocked authenticates
  cstep cs_init clock_unlocked.
