(* Keystore/KeystorePanic.v — exactly when DecryptKey panics (property C20).
   decrypt_key is re-expressed as four stages (decrypt_staged); from that an
   iff: decrypt_key = Panic <-> panic_cond, for EVERY keyfile value, any
   passphrase and any primitives.  panic_cond names the four classes of the
   known findings: a kdfparams type assertion fails (malformed-kdfparams), the
   KDF primitive itself panics or hands back fewer than 32 bytes of capacity
   (dklen-out-of-range), the AES primitive panics (bad-iv-length). *)
From AQ Require Import Lib.Bytes Keystore.KeystoreModel Keystore.KeystoreProofs.
Set Default Timeout 60.

Definition is_str (v : jv) : bool := match v with JStr _ => true | _ => false end.
Definition is_num (v : jv) : bool := match v with JNum _ _ => true | _ => false end.

(* stage 1: everything DecryptKey checks before getKDFKey; None = it returns an error.
   Some (v1?, kdf name, mac, iv, ciphertext) *)
Definition parsed (f : keyfile) : option (bool * bytes * bytes * bytes * bytes) :=
  let v1 := match kf_version_exact f with JStr s => bytes_eqb s ascii_1 | _ => false end in
  match as_string (kf_address f), as_string (kf_id f), as_string (kf_cipher f), as_string (kf_ciphertext f),
        as_string (kf_iv f), as_string (kf_kdf f), as_string (kf_mac f) with
  | Some _, Some _, Some cipher, Some cthex, Some ivhex, Some kdfname, Some machex =>
      if as_obj_ok (kf_crypto f) && as_obj_ok (kf_cipherparams f) && as_obj_ok (kf_kdfparams f) then
        if (if v1 then match as_string (kf_version f) with Some _ => true | None => false end
            else match as_int (kf_version f) with
                 | Some ver => Z.eqb ver 3 && bytes_eqb cipher ascii_aes_128_ctr
                 | None => false end)
        then match hex_decode machex, hex_decode ivhex, hex_decode cthex with
             | Some mac, Some iv, Some ct => Some (v1, kdfname, mac, iv, ct)
             | _, _, _ => None
             end
        else None
      else None
  | _, _, _, _, _, _, _ => None
  end.

(* stage 2: the type assertions of getKDFKey and the KDF call they lead to *)
Definition kdf_call (f : keyfile) (kdfname : bytes) : res (kdf_alg * bytes * Z) :=
  match kp_salt f with
  | JStr salthex =>
    match hex_decode salthex with
    | None => Err
    | Some salt =>
      match kp_dklen f with
      | JNum _ dklen =>
        if bytes_eqb kdfname ascii_scrypt then
          match kp_n f, kp_r f, kp_p f with
          | JNum _ n, JNum _ r, JNum _ p => Ok (KScrypt n r p, salt, dklen)
          | _, _, _ => Panic
          end
        else if bytes_eqb kdfname ascii_pbkdf2 then
          match kp_c f, kp_prf f with
          | JNum _ c, JStr prf => if bytes_eqb prf ascii_hmac_sha256 then Ok (KPbkdf2 c, salt, dklen) else Err
          | _, _ => Panic
          end
        else Err
      | _ => Panic
      end
    end
  | _ => Panic
  end.

(* the carve-out of finding decryptkey-panics-malformed-kdfparams, declaratively *)
Definition malformed_kdfparams (f : keyfile) (kdfname : bytes) : Prop :=
  is_str (kp_salt f) = false \/
  (exists s salt, kp_salt f = JStr s /\ hex_decode s = Some salt /\
     (is_num (kp_dklen f) = false \/
      (is_num (kp_dklen f) = true /\ kdfname = ascii_scrypt /\
         (is_num (kp_n f) = false \/ is_num (kp_r f) = false \/ is_num (kp_p f) = false)) \/
      (is_num (kp_dklen f) = true /\ kdfname = ascii_pbkdf2 /\
         (is_num (kp_c f) = false \/ is_str (kp_prf f) = false)))).

Lemma kdf_call_panic_iff f kdfname : kdf_call f kdfname = Panic <-> malformed_kdfparams f kdfname.
Proof.
  unfold kdf_call, malformed_kdfparams. split.
  - destruct (kp_salt f) as [| |s| | |]; try (intros _; left; reflexivity).
    destruct (hex_decode s) as [salt|] eqn:Hs; [|discriminate].
    intros E. right. exists s, salt. split; [reflexivity|split; [exact Hs|]]. revert E.
    destruct (kp_dklen f) as [| | |b z| |]; try (left; reflexivity).
    destruct (bytes_eqb_spec kdfname ascii_scrypt) as [->|N1].
    + right; left. split; [reflexivity|split; [reflexivity|]].
      destruct (kp_n f); try (left; reflexivity).
      destruct (kp_r f); try (right; left; reflexivity).
      destruct (kp_p f); try (right; right; reflexivity). discriminate.
    + destruct (bytes_eqb_spec kdfname ascii_pbkdf2) as [->|N2]; [|discriminate].
      right; right. split; [reflexivity|split; [reflexivity|]].
      destruct (kp_c f); try (left; reflexivity).
      destruct (kp_prf f); try (right; reflexivity).
      destruct (bytes_eqb _ ascii_hmac_sha256); discriminate.
  - intros [S|(s & salt & Es & Hs & C)].
    + destruct (kp_salt f); try reflexivity. discriminate.
    + rewrite Es, Hs. destruct C as [D|[(D & -> & C)|(D & -> & C)]].
      * destruct (kp_dklen f); try reflexivity. discriminate.
      * destruct (kp_dklen f); try discriminate. rewrite bytes_eqb_refl.
        destruct (kp_n f), (kp_r f), (kp_p f); try reflexivity; cbn in C; intuition discriminate.
      * destruct (kp_dklen f); try discriminate.
        change (bytes_eqb ascii_pbkdf2 ascii_scrypt) with false. rewrite bytes_eqb_refl.
        destruct (kp_c f), (kp_prf f); try reflexivity; cbn in C; intuition discriminate.
Qed.

Section Panic.
  Variable kdf : kdf_alg -> bytes -> bytes -> Z -> pres.
  Variable aes_ctr : bytes -> bytes -> bytes -> pres.
  Variable aes_cbc_dec : bytes -> bytes -> bytes -> pres.
  Variable H : bytes -> bytes.
  Variable pub_addr : bytes -> bytes.

  Lemma get_kdf_key_staged f kdfname auth :
    get_kdf_key kdf f kdfname auth =
    match kdf_call f kdfname with
    | Ok (alg, salt, dklen) => of_pres (kdf alg auth salt dklen)
    | Err => Err
    | Panic => Panic
    end.
  Proof.
    unfold get_kdf_key, kdf_call.
    destruct (kp_salt f); try reflexivity. cbn [assert_string].
    destruct (hex_decode s); [|reflexivity].
    destruct (kp_dklen f); try reflexivity. cbn [ensure_int].
    destruct (bytes_eqb kdfname ascii_scrypt).
    - destruct (kp_n f); try reflexivity; cbn [ensure_int].
      destruct (kp_r f); try reflexivity; cbn [ensure_int].
      destruct (kp_p f); try reflexivity.
    - destruct (bytes_eqb kdfname ascii_pbkdf2); [|reflexivity].
      destruct (kp_c f); try reflexivity; cbn [ensure_int].
      destruct (kp_prf f); try reflexivity; cbn [assert_string].
      destruct (bytes_eqb s0 ascii_hmac_sha256); reflexivity.
  Qed.

  (* stages 3 and 4: KDF, derivedKey[16:32], MAC, derivedKey[:16], AES *)
  Definition after_kdf (v1 : bool) (mac iv ct : bytes) (r : pres) : res (bytes * bytes) :=
    match r with
    | PErr => Err
    | PPanic => Panic
    | POk d =>
      match slice 16 32 d with
      | None => Panic
      | Some mk =>
        if bytes_eqb (H (mk ++ ct)) mac then
          match slice 0 16 d with
          | None => Panic
          | Some ek =>
            match (if v1 then aes_cbc_dec (firstn 16 (H ek)) iv ct else aes_ctr ek iv ct) with
            | POk kb => Ok (kb, pub_addr kb)
            | PErr => Err
            | PPanic => Panic
            end
          end
        else Err
      end
    end.

  Definition decrypt_staged (f : keyfile) (auth : bytes) : res (bytes * bytes) :=
    match parsed f with
    | None => Err
    | Some (v1, kdfname, mac, iv, ct) =>
      match kdf_call f kdfname with
      | Err => Err
      | Panic => Panic
      | Ok (alg, salt, dklen) => after_kdf v1 mac iv ct (kdf alg auth salt dklen)
      end
    end.

  Lemma check_mac_staged f machex ivhex cthex kdfname auth :
    check_mac kdf H f machex ivhex cthex kdfname auth =
    match hex_decode machex, hex_decode ivhex, hex_decode cthex with
    | Some mac, Some iv, Some ct =>
      match kdf_call f kdfname with
      | Err => Err
      | Panic => Panic
      | Ok (alg, salt, dklen) =>
        match kdf alg auth salt dklen with
        | PErr => Err
        | PPanic => Panic
        | POk d => match slice 16 32 d with
                   | None => Panic
                   | Some mk => if bytes_eqb (H (mk ++ ct)) mac then Ok (d, iv, ct) else Err
                   end
        end
      end
    | _, _, _ => Err
    end.
  Proof.
    unfold check_mac. rewrite get_kdf_key_staged.
    destruct (hex_decode machex); [|reflexivity].
    destruct (hex_decode ivhex); [|reflexivity].
    destruct (hex_decode cthex); [|reflexivity].
    destruct (kdf_call f kdfname) as [[[alg salt] dklen]| |]; try reflexivity.
    destruct (kdf alg auth salt dklen); reflexivity.
  Qed.

  Theorem decrypt_key_staged f auth :
    decrypt_key kdf aes_ctr aes_cbc_dec H pub_addr f auth = decrypt_staged f auth.
  Proof.
    unfold decrypt_key, decrypt_staged, parsed.
    destruct (as_string (kf_address f)); [|reflexivity].
    destruct (as_string (kf_id f)); [|reflexivity].
    destruct (as_string (kf_cipher f)) as [cipher|]; [|reflexivity].
    destruct (as_string (kf_ciphertext f)) as [cthex|]; [|reflexivity].
    destruct (as_string (kf_iv f)) as [ivhex|]; [|reflexivity].
    destruct (as_string (kf_kdf f)) as [kdfname|]; [|reflexivity].
    destruct (as_string (kf_mac f)) as [machex|]; [|reflexivity].
    destruct (as_obj_ok (kf_crypto f) && as_obj_ok (kf_cipherparams f) && as_obj_ok (kf_kdfparams f)); [|reflexivity].
    rewrite check_mac_staged.
    destruct (match kf_version_exact f with JStr s => bytes_eqb s ascii_1 | _ => false end).
    - destruct (as_string (kf_version f)); [|reflexivity].
      destruct (hex_decode machex) as [mac|]; [|reflexivity].
      destruct (hex_decode ivhex) as [iv|]; [|reflexivity].
      destruct (hex_decode cthex) as [ct|]; [|reflexivity].
      destruct (kdf_call f kdfname) as [[[alg salt] dklen]| |]; try reflexivity.
      unfold after_kdf. destruct (kdf alg auth salt dklen) as [d| |]; try reflexivity.
      destruct (slice 16 32 d) as [mk|]; [|reflexivity].
      destruct (bytes_eqb (H (mk ++ ct)) mac); [|reflexivity].
      destruct (slice 0 16 d) as [ek|]; [|reflexivity].
      destruct (aes_cbc_dec (firstn 16 (H ek)) iv ct); reflexivity.
    - destruct (as_int (kf_version f)) as [ver|]; [|reflexivity].
      destruct (Z.eqb ver 3); [|reflexivity]. cbn [negb andb].
      destruct (bytes_eqb cipher ascii_aes_128_ctr); [|reflexivity]. cbn [negb].
      destruct (hex_decode machex) as [mac|]; [|reflexivity].
      destruct (hex_decode ivhex) as [iv|]; [|reflexivity].
      destruct (hex_decode cthex) as [ct|]; [|reflexivity].
      destruct (kdf_call f kdfname) as [[[alg salt] dklen]| |]; try reflexivity.
      unfold after_kdf. destruct (kdf alg auth salt dklen) as [d| |]; try reflexivity.
      destruct (slice 16 32 d) as [mk|]; [|reflexivity].
      destruct (bytes_eqb (H (mk ++ ct)) mac); [|reflexivity].
      destruct (slice 0 16 d) as [ek|]; [|reflexivity].
      destruct (aes_ctr ek iv ct); reflexivity.
  Qed.

  (* the panic classes after the type assertions *)
  Definition prim_panics (v1 : bool) (mac iv ct : bytes) (r : pres) : Prop :=
    r = PPanic \/
    exists d, r = POk d /\
      ((length d < 32)%nat \/
       ((32 <= length d)%nat /\ H (firstn 16 (skipn 16 d) ++ ct) = mac /\
        (if v1 then aes_cbc_dec (firstn 16 (H (firstn 16 d))) iv ct else aes_ctr (firstn 16 d) iv ct) = PPanic)).

  Lemma after_kdf_panic_iff v1 mac iv ct r :
    after_kdf v1 mac iv ct r = Panic <-> prim_panics v1 mac iv ct r.
  Proof.
    unfold after_kdf, prim_panics, slice. destruct r as [d| |].
    - destruct (Nat.leb_spec 32 (length d)) as [L|L].
      + assert (L16 : Nat.leb 16 (length d) = true) by (apply Nat.leb_le; lia). rewrite L16.
        change (32 - 16)%nat with 16%nat. change (16 - 0)%nat with 16%nat. change (skipn 0 d) with d.
        destruct (bytes_eqb_spec (H (firstn 16 (skipn 16 d) ++ ct)) mac) as [E|NE].
        * split.
          -- intros P. right. exists d. split; [reflexivity|]. right. split; [exact L|split; [exact E|]].
             destruct v1.
             ++ destruct (aes_cbc_dec (firstn 16 (H (firstn 16 d))) iv ct); try discriminate; reflexivity.
             ++ destruct (aes_ctr (firstn 16 d) iv ct); try discriminate; reflexivity.
          -- intros [P|(d' & Ed & [P|(_ & _ & P)])]; [discriminate|injection Ed as <-; lia|injection Ed as <-].
             rewrite P. reflexivity.
        * split; [discriminate|].
          intros [P|(d' & Ed & [P|(_ & E & _)])]; [discriminate|injection Ed as <-; lia|injection Ed as <-; contradiction].
      + split; [|reflexivity]. intros _. right. exists d. split; [reflexivity|left; exact L].
    - split; [discriminate|]. intros [P|(d & P & _)]; discriminate.
    - split; [intros _; left; reflexivity|reflexivity].
  Qed.

  (* EXACTLY the inputs on which DecryptKey panics *)
  Definition panic_cond (f : keyfile) (auth : bytes) : Prop :=
    exists v1 kdfname mac iv ct, parsed f = Some (v1, kdfname, mac, iv, ct) /\
      (malformed_kdfparams f kdfname \/
       exists alg salt dklen, kdf_call f kdfname = Ok (alg, salt, dklen) /\
         prim_panics v1 mac iv ct (kdf alg auth salt dklen)).

  Theorem decrypt_panic_iff f auth :
    decrypt_key kdf aes_ctr aes_cbc_dec H pub_addr f auth = Panic <-> panic_cond f auth.
  Proof.
    rewrite decrypt_key_staged. unfold decrypt_staged, panic_cond.
    destruct (parsed f) as [[[[[v1 kdfname] mac] iv] ct]|].
    - split.
      + intros P. exists v1, kdfname, mac, iv, ct. split; [reflexivity|].
        destruct (kdf_call f kdfname) as [[[alg salt] dklen]| |] eqn:K; [|discriminate|].
        * right. exists alg, salt, dklen. split; [reflexivity|]. now apply after_kdf_panic_iff.
        * left. now apply kdf_call_panic_iff.
      + intros (v1' & k' & mac' & iv' & ct' & E & C). injection E as <- <- <- <- <-.
        destruct C as [M|(alg & salt & dklen & K & P)].
        * apply kdf_call_panic_iff in M. rewrite M. reflexivity.
        * rewrite K. now apply after_kdf_panic_iff.
    - split; [discriminate|]. intros (? & ? & ? & ? & ? & E & _). discriminate.
  Qed.

  (* full no-panic statement: every key file outside the carve-out *)
  Theorem decrypt_no_panic_full f auth :
    ~ panic_cond f auth -> decrypt_key kdf aes_ctr aes_cbc_dec H pub_addr f auth <> Panic.
  Proof. intros N P. apply N. now apply decrypt_panic_iff. Qed.

  (* and a value or an error otherwise *)
  Corollary decrypt_value_or_error f auth :
    ~ panic_cond f auth ->
    decrypt_key kdf aes_ctr aes_cbc_dec H pub_addr f auth = Err \/
    exists kb, decrypt_key kdf aes_ctr aes_cbc_dec H pub_addr f auth = Ok (kb, pub_addr kb).
  Proof.
    intros N. pose proof (decrypt_no_panic_full f auth N) as NP.
    rewrite decrypt_key_staged in *. unfold decrypt_staged in *.
    destruct (parsed f) as [[[[[v1 kdfname] mac] iv] ct]|]; [|now left].
    destruct (kdf_call f kdfname) as [[[alg salt] dklen]| |]; [|now left|contradiction].
    unfold after_kdf in *. destruct (kdf alg auth salt dklen) as [d| |]; [|now left|contradiction].
    destruct (slice 16 32 d); [|contradiction].
    destruct (bytes_eqb _ mac); [|now left].
    destruct (slice 0 16 d); [|contradiction].
    destruct (if v1 then _ else _); [right; eauto|now left|contradiction].
  Qed.

  (* the earlier partial theorem's hypotheses lie outside the carve-out *)
  Lemma typed_total_not_panic_cond f auth :
    kdfparams_typed f -> prims_total kdf aes_ctr aes_cbc_dec -> ~ panic_cond f auth.
  Proof.
    intros T P C. apply decrypt_panic_iff in C. revert C. now apply decrypt_no_panic.
  Qed.
End Panic.

(* ---------- every carve-out class is a real panic: witnesses ---------- *)
(* a v3 scrypt document with chosen kdf name, iv, mac and kdfparams members *)
Definition wfile (kdfname ivhex machex : bytes) (salt dklen n r p c prf : jv) : keyfile :=
  mkKeyfile (JNum true 3) (JNum true 3) (JStr []) (JStr []) JObj
    (JStr ascii_aes_128_ctr) (JStr []) JObj (JStr ivhex)
    (JStr kdfname) JObj (JStr machex)
    salt dklen n r p c prf.
Definition num (z : Z) : jv := JNum true z.

(* class 1: each of the seven type assertions, whatever the primitives and the passphrase *)
Definition malformed_witnesses : list keyfile :=
  [ wfile ascii_scrypt [] [] JMissing (num 32) (num 2) (num 8) (num 1) JMissing JMissing;
    wfile ascii_scrypt [] [] (JStr []) (JStr [x33; x32]) (num 2) (num 8) (num 1) JMissing JMissing;
    wfile ascii_scrypt [] [] (JStr []) (num 32) JNull (num 8) (num 1) JMissing JMissing;
    wfile ascii_scrypt [] [] (JStr []) (num 32) (num 2) JObj (num 1) JMissing JMissing;
    wfile ascii_scrypt [] [] (JStr []) (num 32) (num 2) (num 8) JOther JMissing JMissing;
    wfile ascii_pbkdf2 [] [] (JStr []) (num 32) JMissing JMissing JMissing (JStr [x31]) (JStr ascii_hmac_sha256);
    wfile ascii_pbkdf2 [] [] (JStr []) (num 32) JMissing JMissing JMissing (num 1) (num 1) ].

Theorem malformed_witnesses_panic kdf aes_ctr aes_cbc_dec H pub_addr auth :
  Forall (fun f => decrypt_key kdf aes_ctr aes_cbc_dec H pub_addr f auth = Panic) malformed_witnesses.
Proof. repeat constructor. Qed.

(* class 2: the KDF primitive panics (negative dklen reaches make([]byte, ...) in pbkdf2) *)
Definition kdf_panic_witness : keyfile :=
  wfile ascii_scrypt [] [] (JStr []) (num (-1)) (num 2) (num 8) (num 1) JMissing JMissing.
Theorem kdf_panic_witness_panics kdf aes_ctr aes_cbc_dec H pub_addr auth :
  kdf (KScrypt 2 8 1) auth [] (-1)%Z = PPanic ->
  decrypt_key kdf aes_ctr aes_cbc_dec H pub_addr kdf_panic_witness auth = Panic.
Proof. intros K. cbv [decrypt_key kdf_panic_witness wfile num]. cbn. rewrite K. reflexivity. Qed.

(* class 3: fewer than 32 bytes of derived-key capacity (dklen = 0) *)
Definition short_key_witness : keyfile :=
  wfile ascii_scrypt [] [] (JStr []) (num 0) (num 2) (num 8) (num 1) JMissing JMissing.
Theorem short_key_witness_panics kdf aes_ctr aes_cbc_dec H pub_addr auth d :
  kdf (KScrypt 2 8 1) auth [] 0%Z = POk d -> (length d < 32)%nat ->
  decrypt_key kdf aes_ctr aes_cbc_dec H pub_addr short_key_witness auth = Panic.
Proof.
  intros K L. apply decrypt_panic_iff.
  exists false, ascii_scrypt, [], [], []. split; [reflexivity|]. right.
  exists (KScrypt 2 8 1), [], 0%Z. split; [reflexivity|]. right. exists d. split; [exact K|left; exact L].
Qed.

(* class 4: AES-CTR panics on the IV (empty IV; the IV is outside the MAC) on a file whose MAC is right *)
Definition bad_iv_witness (mac : bytes) : keyfile :=
  wfile ascii_scrypt [] (hex_encode mac) (JStr []) (num 32) (num 2) (num 8) (num 1) JMissing JMissing.
Theorem bad_iv_witness_panics kdf aes_ctr aes_cbc_dec H pub_addr auth d :
  kdf (KScrypt 2 8 1) auth [] 32%Z = POk d -> (32 <= length d)%nat ->
  aes_ctr (firstn 16 d) [] [] = PPanic ->
  decrypt_key kdf aes_ctr aes_cbc_dec H pub_addr (bad_iv_witness (H (firstn 16 (skipn 16 d) ++ []))) auth = Panic.
Proof.
  intros K L A. apply decrypt_panic_iff.
  exists false, ascii_scrypt, (H (firstn 16 (skipn 16 d) ++ [])), [], []. split.
  - unfold parsed, bad_iv_witness, wfile. cbn -[hex_decode hex_encode]. rewrite hex_decode_encode. reflexivity.
  - right. exists (KScrypt 2 8 1), [], 32%Z. split; [reflexivity|]. right. exists d. split; [exact K|].
    right. split; [exact L|split; [reflexivity|exact A]].
Qed.
