(* Keystore/KeystoreProofs.v — lemmas about Keystore/KeystoreModel.v (property C20).
   The primitives (kdf, aes_ctr, aes_cbc_dec, H, pub_addr) are Section variables.
   What is required of them appears as an explicit premise of the theorem that
   needs it (AES-CTR is an involution; the KDF separates two passphrases on the
   MAC half of its output); hash security appears as an exhibited collision. *)
From AQ Require Import Lib.Bytes Keystore.KeystoreModel.
From Coq Require Import ZifyBool ZifyN ZifyNat.
Local Open Scope N_scope.
Ltac Zify.zify_post_hook ::= Z.div_mod_to_equations.

(* ---------- encoding/hex round trip ---------- *)
Lemma hexval_hex_digit n : n < 16 -> hexval (hex_digit n) = Some n.
Proof.
  intros Hn.
  assert (C : n = 0 \/ n = 1 \/ n = 2 \/ n = 3 \/ n = 4 \/ n = 5 \/ n = 6 \/ n = 7 \/ n = 8 \/ n = 9 \/
              n = 10 \/ n = 11 \/ n = 12 \/ n = 13 \/ n = 14 \/ n = 15) by lia.
  repeat (destruct C as [->|C]; [reflexivity|]). subst. reflexivity.
Qed.

Lemma hex_decode_encode b : hex_decode (hex_encode b) = Some b.
Proof.
  induction b as [|c b IH]; [reflexivity|].
  unfold hex_encode in *. cbn [flat_map app hex_decode].
  pose proof (b2n_lt c) as L.
  rewrite !hexval_hex_digit by lia. rewrite IH.
  replace (16 * (b2n c / 16) + b2n c mod 16) with (b2n c) by lia.
  now rewrite n2b_b2n.
Qed.

Lemma slice_length lo hi b s : slice lo hi b = Some s -> (lo <= hi)%nat -> length s = (hi - lo)%nat.
Proof.
  unfold slice. destruct (Nat.leb_spec hi (length b)); [|discriminate].
  intros E Hle. injection E as <-. rewrite firstn_length, skipn_length. lia.
Qed.

Section Prims.
  Variable kdf : kdf_alg -> bytes -> bytes -> Z -> pres.
  Variable aes_ctr : bytes -> bytes -> bytes -> pres.
  Variable aes_cbc_dec : bytes -> bytes -> bytes -> pres.
  Variable H : bytes -> bytes.
  Variable pub_addr : bytes -> bytes.

  Notation decrypt_key := (decrypt_key kdf aes_ctr aes_cbc_dec H pub_addr).
  Notation get_key := (get_key kdf aes_ctr aes_cbc_dec H pub_addr).
  Notation encrypt_key := (encrypt_key kdf aes_ctr H).

  Definition collision (a b : bytes) : Prop := a <> b /\ H a = H b.

  (* the file EncryptKey writes, in terms of the ciphertext and the MAC *)
  Definition v3_scrypt_file (addr id ct iv mac salt : bytes) (n p : Z) : keyfile :=
    mkKeyfile (JNum true 3) (JNum true 3) (JStr (hex_encode addr)) (JStr id) JObj
      (JStr ascii_aes_128_ctr) (JStr (hex_encode ct)) JObj (JStr (hex_encode iv))
      (JStr ascii_scrypt) JObj (JStr (hex_encode mac))
      (JStr (hex_encode salt)) (JNum true 32) (JNum true n) (JNum true 8) (JNum true p) JMissing JMissing.

  Lemma encrypt_key_inv d addr id auth salt iv n p f :
    encrypt_key d addr id auth salt iv n p = Ok f ->
    exists dk ek mk ct,
      kdf (KScrypt n 8 p) auth salt 32 = POk dk /\ slice 0 16 dk = Some ek /\ slice 16 32 dk = Some mk /\
      aes_ctr ek iv (padded_big_bytes 32 d) = POk ct /\
      f = v3_scrypt_file addr id ct iv (H (mk ++ ct)) salt n p.
  Proof.
    unfold KeystoreModel.encrypt_key.
    destruct (kdf (KScrypt n 8 p) auth salt 32) as [dk| |] eqn:K; try discriminate.
    destruct (slice 0 16 dk) as [ek|] eqn:S1; try discriminate.
    destruct (aes_ctr ek iv (padded_big_bytes 32 d)) as [ct| |] eqn:A; try discriminate.
    destruct (slice 16 32 dk) as [mk|] eqn:S2; try discriminate.
    intros E. injection E as <-. exists dk, ek, mk, ct. repeat split; assumption.
  Qed.

  (* DecryptKey on such a file, with any passphrase *)
  Lemma decrypt_v3_scrypt_file addr id ct iv mac salt n p auth :
    decrypt_key (v3_scrypt_file addr id ct iv mac salt n p) auth =
    match kdf (KScrypt n 8 p) auth salt 32 with
    | PErr => Err
    | PPanic => Panic
    | POk dk =>
      match slice 16 32 dk with
      | None => Panic
      | Some mk =>
        if bytes_eqb (H (mk ++ ct)) mac then
          match slice 0 16 dk with
          | None => Panic
          | Some ek => match aes_ctr ek iv ct with
                       | POk kb => Ok (kb, pub_addr kb) | PErr => Err | PPanic => Panic end
          end
        else Err
      end
    end.
  Proof.
    unfold KeystoreModel.decrypt_key, v3_scrypt_file.
    cbn [kf_version_exact kf_version kf_address kf_id kf_crypto kf_cipher kf_ciphertext kf_cipherparams kf_iv
         kf_kdf kf_kdfparams kf_mac as_string as_int as_obj_ok andb Z.eqb Pos.eqb negb].
    rewrite (bytes_eqb_refl ascii_aes_128_ctr). cbn [negb].
    unfold check_mac, get_kdf_key.
    cbn [kp_salt kp_dklen kp_n kp_r kp_p kp_c kp_prf assert_string ensure_int].
    rewrite !hex_decode_encode. rewrite (bytes_eqb_refl ascii_scrypt).
    destruct (kdf (KScrypt n 8 p) auth salt 32) as [dk| |]; try reflexivity.
    destruct (slice 16 32 dk) as [mk|]; try reflexivity.
    destruct (bytes_eqb (H (mk ++ ct)) mac); try reflexivity.
    destruct (slice 0 16 dk) as [ek|]; try reflexivity.
    unfold of_pres. destruct (aes_ctr ek iv ct); reflexivity.
  Qed.

  (* ---------- round trip ---------- *)
  Theorem roundtrip d addr id auth salt iv n p f :
    (forall k i x y, aes_ctr k i x = POk y -> aes_ctr k i y = POk x) ->
    encrypt_key d addr id auth salt iv n p = Ok f ->
    decrypt_key f auth = Ok (padded_big_bytes 32 d, pub_addr (padded_big_bytes 32 d)).
  Proof.
    intros Inv E. apply encrypt_key_inv in E. destruct E as (dk & ek & mk & ct & K & S1 & S2 & A & ->).
    rewrite decrypt_v3_scrypt_file, K, S2, bytes_eqb_refl, S1, (Inv _ _ _ _ A). reflexivity.
  Qed.

  Lemma padded_big_bytes_32 d : d < 2 ^ 256 -> length (padded_big_bytes 32 d) = 32%nat.
  Proof.
    intros Hd. unfold padded_big_bytes.
    pose proof (be_of_N_len_le d 32) as L. change (256 ^ 32) with (2 ^ 256) in L. specialize (L Hd).
    unfold lenN in L.
    destruct (Nat.leb_spec 32 (length (be_of_N d))) as [G|G]; [lia|apply be_fixed_length].
  Qed.

  Lemma padded_big_bytes_value d : d < 2 ^ 256 -> N_of_be (padded_big_bytes 32 d) = d.
  Proof.
    intros Hd. unfold padded_big_bytes.
    destruct (Nat.leb_spec 32 (length (be_of_N d))); [apply N_of_be_of_N|].
    apply N_of_be_fixed. exact Hd.
  Qed.

  (* ---------- wrong passphrase ---------- *)
  (* If the KDF separates the two passphrases on the MAC half (bytes 16..32) of
     its output, unlocking with the other passphrase is an error — or the MAC
     comparison was passed by a Keccak collision, which is exhibited. *)
  Theorem wrong_passphrase_fails d addr id auth auth' salt iv n p f dk dk' mk mk' :
    encrypt_key d addr id auth salt iv n p = Ok f ->
    kdf (KScrypt n 8 p) auth salt 32 = POk dk -> slice 16 32 dk = Some mk ->
    kdf (KScrypt n 8 p) auth' salt 32 = POk dk' -> slice 16 32 dk' = Some mk' ->
    mk' <> mk ->
    decrypt_key f auth' = Err \/ exists ct, collision (mk' ++ ct) (mk ++ ct).
  Proof.
    intros E K S K' S' Hne. apply encrypt_key_inv in E.
    destruct E as (dk0 & ek & mk0 & ct & K0 & S1 & S2 & A & ->).
    rewrite K in K0. injection K0 as <-. rewrite S in S2. injection S2 as <-.
    rewrite decrypt_v3_scrypt_file, K', S'.
    destruct (bytes_eqb_spec (H (mk' ++ ct)) (H (mk ++ ct))) as [Eq|Ne]; [|now left].
    right. exists ct. split; [|exact Eq].
    intros Eapp. apply app_inv_tail in Eapp. contradiction.
  Qed.

  (* the KDF failing for the other passphrase is an error as well *)
  Theorem wrong_passphrase_kdf_error d addr id auth auth' salt iv n p f :
    encrypt_key d addr id auth salt iv n p = Ok f ->
    kdf (KScrypt n 8 p) auth' salt 32 = PErr -> decrypt_key f auth' = Err.
  Proof.
    intros E K'. apply encrypt_key_inv in E. destruct E as (dk0 & ek & mk0 & ct & _ & _ & _ & _ & ->).
    now rewrite decrypt_v3_scrypt_file, K'.
  Qed.

  (* ---------- tampering, through GetKey (unlocking) ---------- *)
  (* Whatever document f' is found in place of the stored one, and whatever
     passphrase is tried: GetKey for account addr returns an error (or panics) or
     a key whose address is addr. *)
  Theorem getkey_address addr f' auth' k' a' :
    get_key addr f' auth' = Ok (k', a') -> a' = addr /\ a' = pub_addr k'.
  Proof.
    unfold KeystoreModel.get_key.
    destruct (decrypt_key f' auth') as [[kb a]| |] eqn:D; try discriminate.
    destruct (bytes_eqb_spec a addr) as [->|]; [|discriminate].
    intros E. injection E as <- <-. split; [reflexivity|].
    unfold KeystoreModel.decrypt_key in D.
    repeat match type of D with
           | context [match ?x with _ => _ end] => destruct x; try discriminate
           end; injection D as <- <-; reflexivity.
  Qed.

  (* … hence never another key or address: the key returned is the original one,
     or two different keys with one address are exhibited. *)
  Theorem tamper_safe_getkey k f' auth' k' a' :
    get_key (pub_addr k) f' auth' = Ok (k', a') ->
    a' = pub_addr k /\ (k' = k \/ (k' <> k /\ pub_addr k' = pub_addr k)).
  Proof.
    intros G. apply getkey_address in G. destruct G as [-> E]. split; [reflexivity|].
    destruct (bytes_eqb_spec k' k) as [->|Ne]; [now left|right]. split; [assumption|now symmetry].
  Qed.

  (* ---------- tampering, bare DecryptKey: ciphertext or MAC edits ---------- *)
  (* Same passphrase, salt, KDF parameters and IV; ciphertext and/or MAC strings
     replaced by ones that decode to ct', mac'.  If the MAC is unchanged, a
     different ciphertext is rejected or collides. *)
  Theorem ciphertext_tamper_detected d addr id auth salt iv n p f dk mk ct ct' :
    encrypt_key d addr id auth salt iv n p = Ok f ->
    kdf (KScrypt n 8 p) auth salt 32 = POk dk -> slice 16 32 dk = Some mk ->
    f = v3_scrypt_file addr id ct iv (H (mk ++ ct)) salt n p ->
    ct' <> ct ->
    decrypt_key (v3_scrypt_file addr id ct' iv (H (mk ++ ct)) salt n p) auth = Err \/
    collision (mk ++ ct') (mk ++ ct).
  Proof.
    intros _ K S _ Hne. rewrite decrypt_v3_scrypt_file, K, S.
    destruct (bytes_eqb_spec (H (mk ++ ct')) (H (mk ++ ct))) as [Eq|Ne]; [|now left].
    right. split; [|exact Eq]. intros Eapp. apply app_inv_head in Eapp. contradiction.
  Qed.
  (* ---------- PBKDF2 (v3) and version-1 files ---------- *)
  (* EncryptKey only writes scrypt v3; the other two formats DecryptKey accepts are
     described by the document a conforming writer produces. *)
  Definition v3_pbkdf2_file (addr id ct iv mac salt : bytes) (c : Z) : keyfile :=
    mkKeyfile (JNum true 3) (JNum true 3) (JStr (hex_encode addr)) (JStr id) JObj
      (JStr ascii_aes_128_ctr) (JStr (hex_encode ct)) JObj (JStr (hex_encode iv))
      (JStr ascii_pbkdf2) JObj (JStr (hex_encode mac))
      (JStr (hex_encode salt)) (JNum true 32) JMissing JMissing JMissing (JNum true c) (JStr ascii_hmac_sha256).

  Definition v1_scrypt_file (addr id cipher ct iv mac salt : bytes) (n r p : Z) : keyfile :=
    mkKeyfile (JStr ascii_1) (JStr ascii_1) (JStr (hex_encode addr)) (JStr id) JObj
      (JStr cipher) (JStr (hex_encode ct)) JObj (JStr (hex_encode iv))
      (JStr ascii_scrypt) JObj (JStr (hex_encode mac))
      (JStr (hex_encode salt)) (JNum true 32) (JNum true n) (JNum true r) (JNum true p) JMissing JMissing.

  Lemma ascii_pbkdf2_not_scrypt : bytes_eqb ascii_pbkdf2 ascii_scrypt = false.
  Proof. reflexivity. Qed.

  Lemma decrypt_v3_pbkdf2_file addr id ct iv mac salt c auth :
    decrypt_key (v3_pbkdf2_file addr id ct iv mac salt c) auth =
    match kdf (KPbkdf2 c) auth salt 32 with
    | PErr => Err
    | PPanic => Panic
    | POk dk =>
      match slice 16 32 dk with
      | None => Panic
      | Some mk =>
        if bytes_eqb (H (mk ++ ct)) mac then
          match slice 0 16 dk with
          | None => Panic
          | Some ek => match aes_ctr ek iv ct with
                       | POk kb => Ok (kb, pub_addr kb) | PErr => Err | PPanic => Panic end
          end
        else Err
      end
    end.
  Proof.
    unfold KeystoreModel.decrypt_key, v3_pbkdf2_file.
    cbn [kf_version_exact kf_version kf_address kf_id kf_crypto kf_cipher kf_ciphertext kf_cipherparams kf_iv
         kf_kdf kf_kdfparams kf_mac as_string as_int as_obj_ok andb Z.eqb Pos.eqb negb].
    rewrite (bytes_eqb_refl ascii_aes_128_ctr). cbn [negb].
    unfold check_mac, get_kdf_key.
    cbn [kp_salt kp_dklen kp_n kp_r kp_p kp_c kp_prf assert_string ensure_int].
    rewrite !hex_decode_encode. rewrite ascii_pbkdf2_not_scrypt, (bytes_eqb_refl ascii_pbkdf2), (bytes_eqb_refl ascii_hmac_sha256).
    destruct (kdf (KPbkdf2 c) auth salt 32) as [dk| |]; try reflexivity.
    destruct (slice 16 32 dk) as [mk|]; try reflexivity.
    destruct (bytes_eqb (H (mk ++ ct)) mac); try reflexivity.
    destruct (slice 0 16 dk) as [ek|]; try reflexivity.
    unfold of_pres. destruct (aes_ctr ek iv ct); reflexivity.
  Qed.

  Lemma decrypt_v1_scrypt_file addr id cipher ct iv mac salt n r p auth :
    decrypt_key (v1_scrypt_file addr id cipher ct iv mac salt n r p) auth =
    match kdf (KScrypt n r p) auth salt 32 with
    | PErr => Err
    | PPanic => Panic
    | POk dk =>
      match slice 16 32 dk with
      | None => Panic
      | Some mk =>
        if bytes_eqb (H (mk ++ ct)) mac then
          match slice 0 16 dk with
          | None => Panic
          | Some dk16 => match aes_cbc_dec (firstn 16 (H dk16)) iv ct with
                         | POk kb => Ok (kb, pub_addr kb) | PErr => Err | PPanic => Panic end
          end
        else Err
      end
    end.
  Proof.
    unfold KeystoreModel.decrypt_key, v1_scrypt_file.
    cbn [kf_version_exact kf_version kf_address kf_id kf_crypto kf_cipher kf_ciphertext kf_cipherparams kf_iv
         kf_kdf kf_kdfparams kf_mac as_string as_int as_obj_ok andb].
    rewrite (bytes_eqb_refl ascii_1).
    unfold check_mac, get_kdf_key.
    cbn [kp_salt kp_dklen kp_n kp_r kp_p kp_c kp_prf assert_string ensure_int].
    rewrite !hex_decode_encode. rewrite (bytes_eqb_refl ascii_scrypt).
    destruct (kdf (KScrypt n r p) auth salt 32) as [dk| |]; try reflexivity.
    destruct (slice 16 32 dk) as [mk|]; try reflexivity.
    destruct (bytes_eqb (H (mk ++ ct)) mac); try reflexivity.
    destruct (slice 0 16 dk) as [dk16|]; try reflexivity.
    unfold of_pres. destruct (aes_cbc_dec (firstn 16 (H dk16)) iv ct); reflexivity.
  Qed.

  Theorem roundtrip_pbkdf2 kb addr id auth salt iv c dk ek mk ct :
    (forall k i x y, aes_ctr k i x = POk y -> aes_ctr k i y = POk x) ->
    kdf (KPbkdf2 c) auth salt 32 = POk dk -> slice 0 16 dk = Some ek -> slice 16 32 dk = Some mk ->
    aes_ctr ek iv kb = POk ct ->
    decrypt_key (v3_pbkdf2_file addr id ct iv (H (mk ++ ct)) salt c) auth = Ok (kb, pub_addr kb).
  Proof.
    intros Inv K S1 S2 A.
    rewrite decrypt_v3_pbkdf2_file, K, S2, bytes_eqb_refl, S1, (Inv _ _ _ _ A). reflexivity.
  Qed.

  (* version 1: the writer CBC-encrypted kb under Keccak(dk[:16])[:16]; the premise is
     that aesCBCDecrypt inverts that for this key, IV and ciphertext *)
  Theorem roundtrip_v1 kb addr id cipher auth salt iv n r p dk dk16 mk ct :
    kdf (KScrypt n r p) auth salt 32 = POk dk -> slice 0 16 dk = Some dk16 -> slice 16 32 dk = Some mk ->
    aes_cbc_dec (firstn 16 (H dk16)) iv ct = POk kb ->
    decrypt_key (v1_scrypt_file addr id cipher ct iv (H (mk ++ ct)) salt n r p) auth = Ok (kb, pub_addr kb).
  Proof.
    intros K S1 S2 A. rewrite decrypt_v1_scrypt_file, K, S2, bytes_eqb_refl, S1, A. reflexivity.
  Qed.

  Theorem wrong_passphrase_fails_pbkdf2 addr id auth' salt iv c ct mk dk' mk' :
    kdf (KPbkdf2 c) auth' salt 32 = POk dk' -> slice 16 32 dk' = Some mk' -> mk' <> mk ->
    decrypt_key (v3_pbkdf2_file addr id ct iv (H (mk ++ ct)) salt c) auth' = Err \/
    collision (mk' ++ ct) (mk ++ ct).
  Proof.
    intros K' S' Hne. rewrite decrypt_v3_pbkdf2_file, K', S'.
    destruct (bytes_eqb_spec (H (mk' ++ ct)) (H (mk ++ ct))) as [Eq|Ne]; [|now left].
    right. split; [|exact Eq]. intros Eapp. apply app_inv_tail in Eapp. contradiction.
  Qed.

  Theorem wrong_passphrase_fails_v1 addr id cipher auth' salt iv n r p ct mk dk' mk' :
    kdf (KScrypt n r p) auth' salt 32 = POk dk' -> slice 16 32 dk' = Some mk' -> mk' <> mk ->
    decrypt_key (v1_scrypt_file addr id cipher ct iv (H (mk ++ ct)) salt n r p) auth' = Err \/
    collision (mk' ++ ct) (mk ++ ct).
  Proof.
    intros K' S' Hne. rewrite decrypt_v1_scrypt_file, K', S'.
    destruct (bytes_eqb_spec (H (mk' ++ ct)) (H (mk ++ ct))) as [Eq|Ne]; [|now left].
    right. split; [|exact Eq]. intros Eapp. apply app_inv_tail in Eapp. contradiction.
  Qed.
End Prims.

(* ---------- DecryptKey does not panic on well-typed kdfparams (the positive half of the refuted clause) ---------- *)
Section NoPanic.
  Variable kdf : kdf_alg -> bytes -> bytes -> Z -> pres.
  Variable aes_ctr : bytes -> bytes -> bytes -> pres.
  Variable aes_cbc_dec : bytes -> bytes -> bytes -> pres.
  Variable H : bytes -> bytes.
  Variable pub_addr : bytes -> bytes.

  (* every kdfparams member the code type-asserts has the asserted JSON type *)
  Definition kdfparams_typed (f : keyfile) : Prop :=
    (exists s, kp_salt f = JStr s) /\ (exists b z, kp_dklen f = JNum b z) /\
    (exists b z, kp_n f = JNum b z) /\ (exists b z, kp_r f = JNum b z) /\ (exists b z, kp_p f = JNum b z) /\
    (exists b z, kp_c f = JNum b z) /\ (exists s, kp_prf f = JStr s).
  (* the primitives return or fail, and a returned key has at least 32 bytes of capacity *)
  Definition prims_total : Prop :=
    (forall a p s d, kdf a p s d <> PPanic) /\ (forall a p s d o, kdf a p s d = POk o -> (32 <= length o)%nat) /\
    (forall k i x, aes_ctr k i x <> PPanic) /\ (forall k i x, aes_cbc_dec k i x <> PPanic).

  Lemma get_kdf_key_no_panic f kdfname auth :
    kdfparams_typed f -> prims_total ->
    get_kdf_key kdf f kdfname auth <> Panic /\
    (forall d, get_kdf_key kdf f kdfname auth = Ok d -> (32 <= length d)%nat).
  Proof.
    intros ((s & Es) & (b1 & z1 & E1) & (b2 & z2 & E2) & (b3 & z3 & E3) & (b4 & z4 & E4) & (b5 & z5 & E5) & (s2 & E6))
           (KP & KL & _ & _).
    unfold get_kdf_key. rewrite Es, E1, E2, E3, E4, E5, E6. cbn [assert_string ensure_int].
    destruct (hex_decode s) as [salt|]; [|split; [discriminate|intros d Ed; discriminate]].
    destruct (bytes_eqb kdfname ascii_scrypt).
    - destruct (kdf (KScrypt z2 z3 z4) auth salt z1) eqn:K; split; try discriminate.
      + intros d Ed. injection Ed as <-. eapply KL; eassumption.
      + exfalso. eapply KP; eassumption.
    - destruct (bytes_eqb kdfname ascii_pbkdf2); [|split; [discriminate|intros d Ed; discriminate]].
      destruct (bytes_eqb s2 ascii_hmac_sha256); [|split; [discriminate|intros d Ed; discriminate]].
      destruct (kdf (KPbkdf2 z5) auth salt z1) eqn:K; split; try discriminate.
      + intros d Ed. injection Ed as <-. eapply KL; eassumption.
      + exfalso. eapply KP; eassumption.
  Qed.

  Lemma slice_some lo hi b : (hi <= length b)%nat -> exists x, slice lo hi b = Some x.
  Proof. intros L. unfold slice. destruct (Nat.leb_spec hi (length b)); [eauto|lia]. Qed.

  Lemma check_mac_no_panic f machex ivhex cthex kdfname auth :
    kdfparams_typed f -> prims_total ->
    check_mac kdf H f machex ivhex cthex kdfname auth <> Panic /\
    (forall d iv ct, check_mac kdf H f machex ivhex cthex kdfname auth = Ok (d, iv, ct) -> (32 <= length d)%nat).
  Proof.
    intros T P. destruct (get_kdf_key_no_panic f kdfname auth T P) as [NP Len].
    unfold check_mac.
    destruct (hex_decode machex); [|split; [discriminate|intros; discriminate]].
    destruct (hex_decode ivhex); [|split; [discriminate|intros; discriminate]].
    destruct (hex_decode cthex); [|split; [discriminate|intros; discriminate]].
    destruct (get_kdf_key kdf f kdfname auth) as [d| |] eqn:G; [|split; [discriminate|intros; discriminate]|contradiction].
    specialize (Len d eq_refl). destruct (slice_some 16 32 d Len) as (mk & ->).
    destruct (bytes_eqb (H (mk ++ b1)) b); split; try discriminate.
    intros d' iv ct E. injection E as <- _ _. exact Len.
  Qed.

  Theorem decrypt_no_panic f auth :
    kdfparams_typed f -> prims_total -> decrypt_key kdf aes_ctr aes_cbc_dec H pub_addr f auth <> Panic.
  Proof.
    intros T P. pose proof P as (_ & _ & CTR & CBC).
    unfold decrypt_key.
    destruct (match as_string (kf_address f), as_string (kf_id f), as_string (kf_cipher f), as_string (kf_ciphertext f),
                    as_string (kf_iv f), as_string (kf_kdf f), as_string (kf_mac f) with
              | Some _, Some _, Some cipher, Some cthex, Some ivhex, Some kdfname, Some machex =>
                  if as_obj_ok (kf_crypto f) && as_obj_ok (kf_cipherparams f) && as_obj_ok (kf_kdfparams f)
                  then Some (cipher, cthex, ivhex, kdfname, machex) else None
              | _, _, _, _, _, _, _ => None end) as [[[[[cipher cthex] ivhex] kdfname] machex]|]; [|discriminate].
    destruct (check_mac_no_panic f machex ivhex cthex kdfname auth T P) as [NP Len].
    assert (Tail : forall (k : bytes -> bytes -> bytes -> pres) (g : bytes -> bytes),
              (forall a b c, k a b c <> PPanic) ->
              match match check_mac kdf H f machex ivhex cthex kdfname auth with
                    | Ok (d, iv, ct) => match slice 0 16 d with Some x => of_pres (k (g x) iv ct) | None => Panic end
                    | Err => Err | Panic => Panic end with
              | Ok kb => Ok (kb, pub_addr kb) | Err => Err | Panic => Panic end <> Panic).
    { intros k g NPk. destruct (check_mac kdf H f machex ivhex cthex kdfname auth) as [[[d iv] ct]| |] eqn:C; try discriminate; [|contradiction].
      specialize (Len d iv ct eq_refl). destruct (slice_some 0 16 d ltac:(lia)) as (x & ->).
      specialize (NPk (g x) iv ct). destruct (k (g x) iv ct); cbn; try discriminate. contradiction. }
    destruct (match kf_version_exact f with JStr s => bytes_eqb s ascii_1 | _ => false end).
    - destruct (as_string (kf_version f)); [|discriminate].
      apply (Tail aes_cbc_dec (fun x => firstn 16 (H x)) CBC).
    - destruct (as_int (kf_version f)); [|discriminate].
      destruct (negb (Z.eqb z 3)); [discriminate|].
      destruct (negb (bytes_eqb cipher ascii_aes_128_ctr)); [discriminate|].
      apply (Tail aes_ctr (fun x => x) CTR).
  Qed.
End NoPanic.

(* ---------- whatever DecryptKey accepts passed the MAC check under a 16-byte MAC key ---------- *)
Section MacKey.
  Variable kdf : kdf_alg -> bytes -> bytes -> Z -> pres.
  Variable aes_ctr : bytes -> bytes -> bytes -> pres.
  Variable aes_cbc_dec : bytes -> bytes -> bytes -> pres.
  Variable H : bytes -> bytes.
  Variable pub_addr : bytes -> bytes.

  Lemma check_mac_ok_inv f machex ivhex cthex kdfname auth d iv ct :
    check_mac kdf H f machex ivhex cthex kdfname auth = Ok (d, iv, ct) ->
    exists mk mac, hex_decode machex = Some mac /\ hex_decode cthex = Some ct /\
      slice 16 32 d = Some mk /\ length mk = 16%nat /\ H (mk ++ ct) = mac /\
      get_kdf_key kdf f kdfname auth = Ok d.
  Proof.
    unfold check_mac.
    destruct (hex_decode machex) as [mac|]; [|discriminate].
    destruct (hex_decode ivhex) as [iv'|]; [|discriminate].
    destruct (hex_decode cthex) as [ct'|]; [|discriminate].
    destruct (get_kdf_key kdf f kdfname auth) as [d'| |]; try discriminate.
    destruct (slice 16 32 d') as [mk|] eqn:S; [|discriminate].
    destruct (bytes_eqb_spec (H (mk ++ ct')) mac) as [E|]; [|discriminate].
    intros X. injection X as <- <- <-. exists mk, mac. repeat split; try assumption; try reflexivity.
    apply (slice_length 16 32 d' mk S). lia.
  Qed.

  (* for every document and passphrase: acceptance implies the stored MAC is H(mk ++ ciphertext) for the
     16 bytes mk = derived[16:32] of the key derived from THIS passphrase.  A MAC recomputed for an empty,
     shorter or all-zero key (what can be done without the passphrase) is therefore accepted only through a
     Keccak collision or if derived[16:32] happens to be that key. *)
  Theorem accepted_mac_key f auth k a :
    decrypt_key kdf aes_ctr aes_cbc_dec H pub_addr f auth = Ok (k, a) ->
    exists machex cthex kdfname mac ct d mk,
      as_string (kf_mac f) = Some machex /\ as_string (kf_ciphertext f) = Some cthex /\
      as_string (kf_kdf f) = Some kdfname /\
      hex_decode machex = Some mac /\ hex_decode cthex = Some ct /\
      get_kdf_key kdf f kdfname auth = Ok d /\ slice 16 32 d = Some mk /\ length mk = 16%nat /\
      H (mk ++ ct) = mac.
  Proof.
    unfold decrypt_key.
    destruct (as_string (kf_address f)); [|discriminate].
    destruct (as_string (kf_id f)); [|discriminate].
    destruct (as_string (kf_cipher f)) as [cipher|]; [|discriminate].
    destruct (as_string (kf_ciphertext f)) as [cthex|]; [|discriminate].
    destruct (as_string (kf_iv f)) as [ivhex|]; [|discriminate].
    destruct (as_string (kf_kdf f)) as [kdfname|]; [|discriminate].
    destruct (as_string (kf_mac f)) as [machex|]; [|discriminate].
    destruct (as_obj_ok (kf_crypto f) && as_obj_ok (kf_cipherparams f) && as_obj_ok (kf_kdfparams f)); [|discriminate].
    intros D.
    assert (C : exists d iv ct, check_mac kdf H f machex ivhex cthex kdfname auth = Ok (d, iv, ct)).
    { destruct (match kf_version_exact f with JStr s => bytes_eqb s ascii_1 | _ => false end).
      - destruct (as_string (kf_version f)); [|discriminate].
        destruct (check_mac kdf H f machex ivhex cthex kdfname auth) as [[[d iv] ct]| |]; try discriminate. eauto.
      - destruct (as_int (kf_version f)); [|discriminate].
        destruct (negb (Z.eqb z 3)); [discriminate|].
        destruct (negb (bytes_eqb cipher ascii_aes_128_ctr)); [discriminate|].
        destruct (check_mac kdf H f machex ivhex cthex kdfname auth) as [[[d iv] ct]| |]; try discriminate. eauto. }
    destruct C as (d & iv & ct & C).
    destruct (check_mac_ok_inv _ _ _ _ _ _ _ _ _ C) as (mk & mac & E1 & E2 & E3 & E4 & E5 & E6).
    exists machex, cthex, kdfname, mac, ct, d, mk. repeat split; assumption || reflexivity.
  Qed.
End MacKey.

(* ---------- the KeyStore lock-state machine: statements over every history ---------- *)
(* the (account, passphrase) an operation authenticates with *)
Definition op_auth (op : ks_op) : option (nat * bytes) :=
  match op with
  | OTimedUnlock i p _ => Some (i, p)
  | OUpdate i old _ => Some (i, old)
  | OExport i p => Some (i, p)
  | ODelete i p => Some (i, p)
  | OSignWithPass i p => Some (i, p)
  | _ => None
  end.

(* op is given a passphrase that is not the one of its (existing) target account *)
Definition wrong_passphrase (s : ks_state) (op : ks_op) : Prop :=
  exists i p, op_auth op = Some (i, p) /\
    match nth_error (ks_accts s) i with Some a => authenticates a p = false | None => True end.
Definition right_passphrase (s : ks_state) (op : ks_op) : Prop :=
  exists i p a, op_auth op = Some (i, p) /\ nth_error (ks_accts s) i = Some a /\ authenticates a p = true.

Lemma wrong_passphrase_step s op : wrong_passphrase s op -> ks_step s op = (s, false).
Proof.
  intros (i & p & A & W). destruct op; cbn in A; try discriminate; injection A as <- <-;
    cbn [ks_step]; destruct (nth_error (ks_accts s) _) as [a|]; try reflexivity; now rewrite W.
Qed.

Lemma right_passphrase_step s op : right_passphrase s op -> snd (ks_step s op) = true.
Proof.
  intros (i & p & a & A & N & R). destruct op; cbn in A; try discriminate; injection A as <- <-;
    cbn [ks_step]; rewrite N, ?R; try reflexivity.
  destruct (a_lock a); reflexivity.
Qed.

(* for every history: a wrong passphrase is an error and changes nothing *)
Theorem wrong_passphrase_never_changes_state s0 ops op :
  let s := fst (ks_run s0 ops) in
  wrong_passphrase s op -> ks_step s op = (s, false).
Proof. intros s. apply wrong_passphrase_step. Qed.

Theorem right_passphrase_succeeds s0 ops op :
  right_passphrase (fst (ks_run s0 ops)) op -> snd (ks_step (fst (ks_run s0 ops)) op) = true.
Proof. apply right_passphrase_step. Qed.

Theorem sign_iff_unlocked s i a :
  nth_error (ks_accts s) i = Some a -> ks_step s (OSign i) = (s, is_unlocked (ks_now s) a).
Proof. intros N. cbn [ks_step]. now rewrite N. Qed.

(* an account can only come to be unlocked through an Unlock / TimedUnlock that was given its passphrase *)
Fixpoint granted (s : ks_state) (ops : list ks_op) (i : nat) : bool :=
  match ops with
  | [] => false
  | op :: t =>
    (match op with
     | OTimedUnlock j p _ =>
         Nat.eqb i j && match nth_error (ks_accts s) j with Some a => authenticates a p | None => false end
     | _ => false
     end) || granted (fst (ks_step s op)) t i
  end.

Lemma nth_error_upd_nth {A} (f : A -> A) : forall l i j,
  nth_error (upd_nth j f l) i = if Nat.eqb i j then option_map f (nth_error l i) else nth_error l i.
Proof.
  induction l as [|x l IH]; intros i j.
  - cbn. destruct i, j; cbn; try reflexivity. now destruct (Nat.eqb i j).
  - destruct j, i; cbn; try reflexivity. apply IH.
Qed.

Definition not_locked (s : ks_state) (i : nat) : Prop :=
  exists a, nth_error (ks_accts s) i = Some a /\ a_lock a <> Locked.

Lemma step_not_locked s op i :
  not_locked (fst (ks_step s op)) i -> not_locked s i \/ granted s [op] i = true.
Proof.
  intros (a & N & L). unfold not_locked.
  assert (Keep : forall g : acct -> acct, (forall x, a_lock (g x) = a_lock x) -> forall j,
            nth_error (upd_nth j g (ks_accts s)) i = Some a ->
            exists a0, nth_error (ks_accts s) i = Some a0 /\ a_lock a0 <> Locked).
  { intros g Hg j E. rewrite nth_error_upd_nth in E. destruct (Nat.eqb i j).
    - destruct (nth_error (ks_accts s) i) as [a0|]; [|discriminate]. cbn in E. injection E as <-.
      exists a0. split; [reflexivity|]. now rewrite <- Hg.
    - eauto. }
  destruct op; cbn [ks_step fst] in N.
  - (* OCreate *) cbn [ks_accts] in N.
    destruct (Nat.lt_ge_cases i (length (ks_accts s))) as [Lt|Ge].
    + rewrite nth_error_app1 in N by assumption. left. eauto.
    + rewrite nth_error_app2 in N by assumption.
      destruct (i - length (ks_accts s))%nat as [|k]; cbn in N.
      * injection N as <-. cbn in L. contradiction.
      * destruct k; discriminate.
  - (* OTimedUnlock *)
    cbn [granted]. destruct (nth_error (ks_accts s) i0) as [a0|] eqn:N0; cbn [fst] in N; [|left; eauto].
    destruct (authenticates a0 p) eqn:Au; cbn [fst] in N; [|left; eauto].
    destruct (match a_lock a0 with Forever => true | _ => false end); cbn [fst ks_accts] in N; [left; eauto|].
    rewrite nth_error_upd_nth in N. destruct (Nat.eqb_spec i i0) as [->|Ne]; [|left; eauto].
    right. rewrite ?Nat.eqb_refl, ?N0, ?Au; reflexivity.
  - (* OLock *) cbn [ks_accts] in N. rewrite nth_error_upd_nth in N. destruct (Nat.eqb i i0).
    + destruct (nth_error (ks_accts s) i); [|discriminate]. cbn in N. injection N as <-. cbn in L. contradiction.
    + left. eauto.
  - (* OUpdate *)
    destruct (nth_error (ks_accts s) i0) as [a0|]; cbn [fst] in N; [|left; eauto].
    destruct (authenticates a0 old); cbn [fst ks_accts] in N; [|left; eauto].
    left. eapply (Keep (fun a => mkAcct (a_exists a) new (a_lock a))); [reflexivity|exact N].
  - (* OExport *) destruct (nth_error (ks_accts s) i0); cbn [fst] in N; left; eauto.
  - (* ODelete *)
    destruct (nth_error (ks_accts s) i0) as [a0|]; cbn [fst] in N; [|left; eauto].
    destruct (authenticates a0 p); cbn [fst ks_accts] in N; [|left; eauto].
    left. eapply (Keep (fun a => mkAcct false (a_pass a) (a_lock a))); [reflexivity|exact N].
  - (* OSign *) destruct (nth_error (ks_accts s) i0); cbn [fst] in N; left; eauto.
  - (* OSignWithPass *) destruct (nth_error (ks_accts s) i0); cbn [fst] in N; left; eauto.
  - (* OWait *) left. eauto.
Qed.

Lemma ks_run_cons s op t : fst (ks_run s (op :: t)) = fst (ks_run (fst (ks_step s op)) t).
Proof. cbn [ks_run]. destruct (ks_step s op) as [s1 r]. cbn [fst]. destruct (ks_run s1 t). reflexivity. Qed.

Lemma run_not_locked : forall ops s i,
  not_locked (fst (ks_run s ops)) i -> not_locked s i \/ granted s ops i = true.
Proof.
  induction ops as [|op t IH]; intros s i NL; [left; exact NL|].
  rewrite ks_run_cons in NL. destruct (IH _ _ NL) as [NL1|G].
  - destruct (step_not_locked _ _ _ NL1) as [NL0|G0]; [now left|right].
    cbn [granted] in *. rewrite orb_false_r in G0. now rewrite G0.
  - right. cbn [granted]. rewrite G. apply orb_true_r.
Qed.

(* from a fresh KeyStore: whatever the history, an account that can sign was at some earlier point
   unlocked by an Unlock / TimedUnlock carrying the passphrase its file was then encrypted with *)
Theorem unlocked_only_by_right_passphrase ops i a :
  let s := fst (ks_run ks_init ops) in
  nth_error (ks_accts s) i = Some a -> is_unlocked (ks_now s) a = true -> granted ks_init ops i = true.
Proof.
  intros s N U.
  assert (NL : not_locked s i).
  { exists a. split; [exact N|]. intros E. unfold is_unlocked in U. rewrite E in U. discriminate. }
  destruct (run_not_locked _ _ _ NL) as [(a0 & N0 & _)|G]; [|exact G].
  cbn in N0. destruct i; discriminate.
Qed.

(* ---------- the MAC covers neither version nor cipher ---------- *)
(* all members the code looks at, except the two version members, are equal *)
Definition same_but_version (f g : keyfile) : Prop :=
  kf_address f = kf_address g /\ kf_id f = kf_id g /\ kf_crypto f = kf_crypto g /\ kf_cipher f = kf_cipher g /\
  kf_ciphertext f = kf_ciphertext g /\ kf_cipherparams f = kf_cipherparams g /\ kf_iv f = kf_iv g /\
  kf_kdf f = kf_kdf g /\ kf_kdfparams f = kf_kdfparams g /\ kf_mac f = kf_mac g /\ kp_salt f = kp_salt g /\
  kp_dklen f = kp_dklen g /\ kp_n f = kp_n g /\ kp_r f = kp_r g /\ kp_p f = kp_p g /\ kp_c f = kp_c g /\
  kp_prf f = kp_prf g.

(* A file written by EncryptKey whose version is changed to "1" passes the MAC
   check and is handed to AES-CBC: whenever aesCBCDecrypt accepts the CTR
   ciphertext (valid PKCS7 padding, about 1 in 256 files), bare DecryptKey
   returns those bytes as the key. *)
Lemma version_downgrade kdf aes_ctr aes_cbc_dec H pub_addr addr id auth salt iv n p dk dk16 mk ct kb' :
  kdf (KScrypt n 8 p) auth salt 32%Z = POk dk -> slice 0 16 dk = Some dk16 -> slice 16 32 dk = Some mk ->
  aes_cbc_dec (firstn 16 (H dk16)) iv ct = POk kb' ->
  let f := v3_scrypt_file addr id ct iv (H (mk ++ ct)) salt n p in
  let f' := v1_scrypt_file addr id ascii_aes_128_ctr ct iv (H (mk ++ ct)) salt n 8 p in
  same_but_version f f' /\
  decrypt_key kdf aes_ctr aes_cbc_dec H pub_addr f' auth = Ok (kb', pub_addr kb').
Proof.
  intros K S1 S2 A f f'. split.
  - unfold same_but_version, f, f'. cbn. repeat split.
  - unfold f'. now apply (roundtrip_v1 kdf aes_ctr aes_cbc_dec H pub_addr kb' addr id ascii_aes_128_ctr auth salt iv n 8 p dk dk16 mk ct).
Qed.

(* ---------- a document on which DecryptKey panics, whatever the primitives ---------- *)
Definition panic_file : keyfile :=
  mkKeyfile (JNum true 3) (JNum true 3) (JStr []) (JStr []) JObj
    (JStr ascii_aes_128_ctr) (JStr []) JObj (JStr [])
    (JStr ascii_scrypt) JObj (JStr [])
    JMissing (JNum true 32) (JNum true 2) (JNum true 8) (JNum true 1) JMissing JMissing.

Lemma decrypt_panics kdf aes_ctr aes_cbc_dec H pub_addr auth :
  decrypt_key kdf aes_ctr aes_cbc_dec H pub_addr panic_file auth = Panic.
Proof. reflexivity. Qed.

(* ---------- concrete witness: the MAC does not cover the IV ---------- *)
From AQ Require Import Lib.Keccak.

(* A key file written by EncryptKey (w_file), the same file with another IV (w_file_iv),
   and the answers the implementation's scrypt / AES-CTR / key->address gave for them. *)
Definition w_file : keyfile :=
  mkKeyfile (JNum true (3)%Z) (JNum true (3)%Z) (JStr [x30; x63; x34; x35; x65; x62; x39; x62; x62; x35; x65; x65; x32; x32; x30; x30; x61; x34; x32; x36; x35; x63; x63; x64; x30; x66; x66; x33; x35; x62; x61; x66; x35; x64; x34; x34; x61; x65; x61; x35]) (JStr [x33; x31; x39; x38; x62; x63; x39; x63; x2d; x36; x36; x37; x32; x2d; x34; x61; x62; x33; x2d; x39; x39; x39; x35; x2d; x34; x39; x34; x32; x33; x34; x33; x61; x65; x35; x62; x36]) JObj (JStr [x61; x65; x73; x2d; x31; x32; x38; x2d; x63; x74; x72]) (JStr [x31; x30; x65; x39; x65; x66; x65; x34; x36; x36; x31; x32; x35; x61; x34; x64; x39; x64; x62; x37; x33; x65; x64; x62; x30; x37; x62; x61; x65; x66; x37; x64; x66; x33; x65; x62; x65; x65; x65; x39; x66; x66; x37; x36; x64; x61; x31; x36; x64; x61; x30; x66; x62; x66; x31; x31; x38; x61; x37; x39; x66; x34; x37; x33]) JObj (JStr [x66; x62; x63; x32; x61; x35; x38; x66; x37; x30; x64; x65; x39; x65; x38; x33; x36; x30; x36; x62; x36; x33; x62; x32; x61; x38; x64; x31; x34; x38; x30; x37]) (JStr [x73; x63; x72; x79; x70; x74]) JObj (JStr [x33; x33; x32; x33; x30; x31; x65; x66; x34; x63; x38; x62; x39; x39; x38; x34; x61; x33; x63; x30; x38; x61; x36; x63; x38; x30; x63; x30; x31; x38; x61; x39; x66; x39; x34; x65; x39; x35; x65; x63; x33; x65; x62; x30; x63; x62; x62; x65; x64; x32; x33; x34; x33; x33; x39; x64; x63; x32; x35; x62; x30; x34; x64; x63]) (JStr [x33; x65; x31; x61; x61; x31; x63; x31; x65; x37; x62; x62; x31; x34; x66; x30; x34; x35; x37; x62; x39; x37; x36; x32; x32; x36; x66; x37; x34; x64; x36; x34; x62; x39; x38; x65; x62; x31; x63; x34; x64; x34; x66; x31; x66; x32; x37; x35; x32; x65; x64; x65; x30; x62; x38; x36; x30; x39; x34; x33; x32; x32; x31; x32]) (JNum true (32)%Z) (JNum true (2)%Z) (JNum true (8)%Z) (JNum true (1)%Z) JMissing JMissing.
Definition w_file_iv : keyfile :=
  mkKeyfile (JNum true (3)%Z) (JNum true (3)%Z) (JStr [x30; x63; x34; x35; x65; x62; x39; x62; x62; x35; x65; x65; x32; x32; x30; x30; x61; x34; x32; x36; x35; x63; x63; x64; x30; x66; x66; x33; x35; x62; x61; x66; x35; x64; x34; x34; x61; x65; x61; x35]) (JStr [x33; x31; x39; x38; x62; x63; x39; x63; x2d; x36; x36; x37; x32; x2d; x34; x61; x62; x33; x2d; x39; x39; x39; x35; x2d; x34; x39; x34; x32; x33; x34; x33; x61; x65; x35; x62; x36]) JObj (JStr [x61; x65; x73; x2d; x31; x32; x38; x2d; x63; x74; x72]) (JStr [x31; x30; x65; x39; x65; x66; x65; x34; x36; x36; x31; x32; x35; x61; x34; x64; x39; x64; x62; x37; x33; x65; x64; x62; x30; x37; x62; x61; x65; x66; x37; x64; x66; x33; x65; x62; x65; x65; x65; x39; x66; x66; x37; x36; x64; x61; x31; x36; x64; x61; x30; x66; x62; x66; x31; x31; x38; x61; x37; x39; x66; x34; x37; x33]) JObj (JStr [x66; x62; x65; x32; x61; x35; x38; x66; x37; x30; x64; x65; x39; x65; x38; x33; x36; x30; x36; x62; x36; x33; x62; x32; x61; x38; x64; x31; x34; x38; x30; x37]) (JStr [x73; x63; x72; x79; x70; x74]) JObj (JStr [x33; x33; x32; x33; x30; x31; x65; x66; x34; x63; x38; x62; x39; x39; x38; x34; x61; x33; x63; x30; x38; x61; x36; x63; x38; x30; x63; x30; x31; x38; x61; x39; x66; x39; x34; x65; x39; x35; x65; x63; x33; x65; x62; x30; x63; x62; x62; x65; x64; x32; x33; x34; x33; x33; x39; x64; x63; x32; x35; x62; x30; x34; x64; x63]) (JStr [x33; x65; x31; x61; x61; x31; x63; x31; x65; x37; x62; x62; x31; x34; x66; x30; x34; x35; x37; x62; x39; x37; x36; x32; x32; x36; x66; x37; x34; x64; x36; x34; x62; x39; x38; x65; x62; x31; x63; x34; x64; x34; x66; x31; x66; x32; x37; x35; x32; x65; x64; x65; x30; x62; x38; x36; x30; x39; x34; x33; x32; x32; x31; x32]) (JNum true (32)%Z) (JNum true (2)%Z) (JNum true (8)%Z) (JNum true (1)%Z) JMissing JMissing.
Definition w_pass : bytes := [].
Definition w_kdf_alg : kdf_alg := KScrypt (2)%Z (8)%Z (1)%Z.
Definition w_salt : bytes := [x3e; x1a; xa1; xc1; xe7; xbb; x14; xf0; x45; x7b; x97; x62; x26; xf7; x4d; x64; xb9; x8e; xb1; xc4; xd4; xf1; xf2; x75; x2e; xde; x0b; x86; x09; x43; x22; x12].
Definition w_dk : bytes := [x5e; x70; x5e; x08; x17; x7b; xc2; xa3; xa9; x5e; xb7; x3a; xde; x5b; xe5; x58; x12; x78; xa7; xf2; x88; xec; x94; x93; x2f; xeb; x3b; x51; xcd; x7c; x6c; x90].
Definition w_ctr_table : list (bytes * bytes * bytes * pres) :=
 [  ([x5e; x70; x5e; x08; x17; x7b; xc2; xa3; xa9; x5e; xb7; x3a; xde; x5b; xe5; x58],
   [xfb; xc2; xa5; x8f; x70; xde; x9e; x83; x60; x6b; x63; xb2; xa8; xd1; x48; x07],
   [x10; xe9; xef; xe4; x66; x12; x5a; x4d; x9d; xb7; x3e; xdb; x07; xba; xef; x7d; xf3; xeb; xee; xe9; xff; x76; xda; x16; xda; x0f; xbf; x11; x8a; x79; xf4; x73],
   (POk [x06; xc1; x4a; xe6; x96; x04; x56; xe1; x38; x62; x05; x8e; x93; xbc; xed; x3c; x9c; xd0; x23; xfd; xa9; x7a; xf0; x64; x33; x62; x41; x87; x40; x98; x52; xb8]));
  ([x5e; x70; x5e; x08; x17; x7b; xc2; xa3; xa9; x5e; xb7; x3a; xde; x5b; xe5; x58],
   [xfb; xe2; xa5; x8f; x70; xde; x9e; x83; x60; x6b; x63; xb2; xa8; xd1; x48; x07],
   [x10; xe9; xef; xe4; x66; x12; x5a; x4d; x9d; xb7; x3e; xdb; x07; xba; xef; x7d; xf3; xeb; xee; xe9; xff; x76; xda; x16; xda; x0f; xbf; x11; x8a; x79; xf4; x73],
   (POk [x88; xa9; x2f; x4a; x38; x20; x03; x7b; x84; xea; x79; xf2; x3e; x56; x38; xcf; x36; x11; x28; x71; x39; xd5; x82; xda; x91; x3f; x81; x87; x80; x3a; xed; x85]))].
Definition w_addr_table : list (bytes * bytes) :=
 [  ([x06; xc1; x4a; xe6; x96; x04; x56; xe1; x38; x62; x05; x8e; x93; xbc; xed; x3c; x9c; xd0; x23; xfd; xa9; x7a; xf0; x64; x33; x62; x41; x87; x40; x98; x52; xb8],
   [x0c; x45; xeb; x9b; xb5; xee; x22; x00; xa4; x26; x5c; xcd; x0f; xf3; x5b; xaf; x5d; x44; xae; xa5]);
  ([x88; xa9; x2f; x4a; x38; x20; x03; x7b; x84; xea; x79; xf2; x3e; x56; x38; xcf; x36; x11; x28; x71; x39; xd5; x82; xda; x91; x3f; x81; x87; x80; x3a; xed; x85],
   [x3f; x34; x74; x04; x81; x3b; x29; x65; x39; xfb; x32; x6b; x48; xb9; x3b; x7b; xc6; x86; x32; x4b])].

(* the primitives as the finite tables recorded from the implementation *)
Definition w_kdf (alg : kdf_alg) (pass salt : bytes) (dklen : Z) : pres :=
  match alg, w_kdf_alg with
  | KScrypt n r p, KScrypt n' r' p' =>
      if Z.eqb n n' && Z.eqb r r' && Z.eqb p p' && bytes_eqb pass w_pass && bytes_eqb salt w_salt && Z.eqb dklen 32
      then POk w_dk else PErr
  | _, _ => PErr
  end.
(* AES-CTR: each recorded answer is used in both directions (XOR with the key stream) *)
Definition w_ctr (key iv inp : bytes) : pres :=
  match find (fun e => match e with (k, i, x, _) => bytes_eqb k key && bytes_eqb i iv && bytes_eqb x inp end) w_ctr_table with
  | Some (_, _, _, r) => r
  | None =>
    match find (fun e => match e with
                         | (k, i, _, POk y) => bytes_eqb k key && bytes_eqb i iv && bytes_eqb y inp
                         | _ => false end) w_ctr_table with
    | Some (_, _, x, _) => POk x
    | None => PErr
    end
  end.
Definition w_cbc (key iv inp : bytes) : pres := PErr.
Definition w_addr (key : bytes) : bytes :=
  match find (fun e => bytes_eqb (fst e) key) w_addr_table with Some e => snd e | None => [] end.

Definition w_decrypt := decrypt_key w_kdf w_ctr w_cbc keccak256 w_addr.
Definition w_get_key := get_key w_kdf w_ctr w_cbc keccak256 w_addr.

(* the two documents differ in the IV member only *)
Definition same_but_iv (f g : keyfile) : Prop :=
  kf_version_exact f = kf_version_exact g /\ kf_version f = kf_version g /\ kf_address f = kf_address g /\
  kf_id f = kf_id g /\ kf_crypto f = kf_crypto g /\ kf_cipher f = kf_cipher g /\
  kf_ciphertext f = kf_ciphertext g /\ kf_cipherparams f = kf_cipherparams g /\ kf_kdf f = kf_kdf g /\
  kf_kdfparams f = kf_kdfparams g /\ kf_mac f = kf_mac g /\ kp_salt f = kp_salt g /\ kp_dklen f = kp_dklen g /\
  kp_n f = kp_n g /\ kp_r f = kp_r g /\ kp_p f = kp_p g /\ kp_c f = kp_c g /\ kp_prf f = kp_prf g.

Lemma decrypt_iv_witness :
  same_but_iv w_file w_file_iv /\
  exists k a k' a',
    w_decrypt w_file w_pass = Ok (k, a) /\ w_decrypt w_file_iv w_pass = Ok (k', a') /\
    bytes_eqb k k' = false /\ bytes_eqb a a' = false /\
    w_get_key a w_file w_pass = Ok (k, a) /\ w_get_key a w_file_iv w_pass = Err.
Proof.
  split; [unfold same_but_iv; cbn; repeat split|].
  do 4 eexists. vm_compute. repeat split.
Qed.
