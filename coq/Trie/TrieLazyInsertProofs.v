(* Trie/TrieLazyInsertProofs.v — trie.go insert on a trie held lazily (partly
   unloaded to hash nodes whose encodings are in the database, with cached
   hashes and dirty flags): it simulates insert on the fully loaded canonical
   node it represents, and re-establishes the invariant lzf. *)
From Coq Require Import ZifyBool ZifyN ZifyNat.
From AQ Require Import Lib.Bytes Rlp.RlpSpec Rlp.RlpProofs Trie.MptSpec Trie.TrieModel Trie.TrieInv
  Trie.TrieCodecDefs Trie.TrieCodecProofs Trie.TrieReopenProofs Trie.TrieLazyDefs
  Trie.TrieInsertProofs Trie.TrieProofs.
From AQ Require Trie.TrieDecodeProofs.
Local Open Scope nat_scope.

(* ------------------------------------------------------------------ lists *)

Lemma Forall2_set_nth2 (R : node -> node -> Prop) : forall cs xs i c x,
  Forall2 R cs xs -> R c x -> Forall2 R (set_nth cs i c) (set_nth xs i x).
Proof.
  intros cs xs i c x HF. revert i. induction HF as [|a b t1 t2 Hab HF IH]; intros [|i] Hx; cbn [set_nth].
  - constructor.
  - constructor.
  - constructor; assumption.
  - constructor; [assumption|]. apply IH. exact Hx.
Qed.

Lemma Forall2_repeat {A B} (R : A -> B -> Prop) a b n : R a b -> Forall2 R (repeat a n) (repeat b n).
Proof. intros HR. induction n as [|n IH]; cbn [repeat]; constructor; assumption. Qed.

Lemma prefix_len_diff : forall p a b r1 r2, a <> b ->
  prefix_len (p ++ b :: r2) (p ++ a :: r1) = length p.
Proof.
  induction p as [|x p IH]; intros a b r1 r2 Hab; cbn [app prefix_len length].
  - destruct (byte_eqb_spec b a) as [E|_]; [exfalso; apply Hab; symmetry; exact E|reflexivity].
  - rewrite byte_eqb_refl. f_equal. apply IH. exact Hab.
Qed.

Lemma prefix_len_refl : forall k, prefix_len k k = length k.
Proof. induction k as [|x k IH]; cbn [prefix_len length]; [reflexivity|]. rewrite byte_eqb_refl. now rewrite IH. Qed.

(* ------------------------------------------------------------------ one-step equations of insert *)

Definition ins_k (gen : N) (nk : bytes) (orig : node) : bool * node -> res (bool * node) :=
  fun '(dirty, nn) => if dirty then Ok (true, NShort nk nn (new_flag gen)) else Ok (false, orig).

Lemma insert_short_match fuel d gen nk nv f key value : key <> [] -> prefix_len key nk = length nk ->
  insert (S fuel) d gen (NShort nk nv f) key value =
  bind (insert fuel d gen nv (skipn (length nk) key) value) (ins_k gen nk (NShort nk nv f)).
Proof.
  intros Hne Hm. rewrite insert_S. destruct key as [|k0 krest]; [contradiction|].
  cbv zeta. rewrite Hm, Nat.eqb_refl. reflexivity.
Qed.

Lemma insert_val_nil fuel d gen v0 v :
  insert (S fuel) d gen (NVal v0) [] (NVal v) = Ok (negb (bytes_eqb v0 v), NVal v).
Proof. reflexivity. Qed.

Lemma insert_nil_key fuel d gen k0 krest value :
  insert (S fuel) d gen NNil (k0 :: krest) value = Ok (true, NShort (k0 :: krest) value (new_flag gen)).
Proof. reflexivity. Qed.

Lemma insert_leaf_same fuel d gen nk v0 f v : nk <> [] ->
  insert (S (S fuel)) d gen (NShort nk (NVal v0) f) nk (NVal v) =
  if bytes_eqb v0 v then Ok (false, NShort nk (NVal v0) f) else Ok (true, NShort nk (NVal v) (new_flag gen)).
Proof.
  intros Hne. rewrite insert_short_match by (auto using prefix_len_refl).
  rewrite skipn_all, insert_val_nil. cbn [bind ins_k]. destruct (bytes_eqb v0 v); reflexivity.
Qed.

Definition ins_f (gen : N) (cs : list node) (k0 : byte) (orig : node) : bool * node -> res (bool * node) :=
  fun '(dirty, nn) =>
    if dirty then bind (set_child cs k0 nn) (fun cs' => Ok (true, NFull cs' (new_flag gen))) else Ok (false, orig).

Lemma insert_full_step fuel d gen cs f k0 krest value :
  insert (S fuel) d gen (NFull cs f) (k0 :: krest) value =
  bind (get_child cs k0) (fun c => bind (insert fuel d gen c krest value) (ins_f gen cs k0 (NFull cs f))).
Proof. reflexivity. Qed.

Lemma insert_full_term fuel d gen cs f v : length cs = 17 ->
  (nth 16 cs NNil = NNil \/ exists v0, nth 16 cs NNil = NVal v0) ->
  insert (S (S fuel)) d gen (NFull cs f) [term] (NVal v) =
  if (match nth 16 cs NNil with NVal v0 => bytes_eqb v0 v | _ => false end)
  then Ok (false, NFull cs f) else Ok (true, NFull (set_nth cs 16 (NVal v)) (new_flag gen)).
Proof.
  intros Hl Hs. rewrite insert_full_step. rewrite get_child_ok by (rewrite Hl, nidx_term; lia).
  rewrite nidx_term. cbn [bind]. rewrite insert_S.
  assert (Esc : forall x, set_child cs term x = Ok (set_nth cs 16 x)).
  { intros x. rewrite set_child_ok by (rewrite Hl, nidx_term; lia). now rewrite nidx_term. }
  destruct Hs as [E|[v0 E]]; rewrite E.
  - cbn [bind ins_f]. rewrite Esc. reflexivity.
  - cbn [bind ins_f]. destruct (bytes_eqb v0 v); cbn [negb]; [reflexivity|]. rewrite Esc. reflexivity.
Qed.

Lemma insert_hash_step fuel d gen h key value : key <> [] ->
  insert (S fuel) d gen (NHash h) key value =
  bind (resolve_hash d h gen) (fun rn =>
  bind (insert fuel d gen rn key value) (fun '(dirty, nn) => if dirty then Ok (true, nn) else Ok (false, rn))).
Proof. intros Hne. rewrite insert_S. destruct key; [contradiction|reflexivity]. Qed.

(* the node the branch case builds *)
Definition branch_res (gen : N) (p : bytes) (a b : byte) (c1 c2 : node) : node :=
  let B := NFull (set_nth (set_nth empty_children (nidx a) c1) (nidx b) c2) (new_flag gen) in
  if Nat.eqb (length p) 0 then B else NShort p B (new_flag gen).

Lemma insert_short_branch fuel d gen p a b r1 r2 nv f value :
  a <> b -> nidx a < 17 -> nidx b < 17 ->
  insert (S (S fuel)) d gen (NShort (p ++ a :: r1) nv f) (p ++ b :: r2) value =
  Ok (true, branch_res gen p a b (hang gen r1 nv) (hang gen r2 value)).
Proof.
  intros Hab Ha Hb. rewrite insert_S.
  destruct (p ++ b :: r2) as [|k0 krest] eqn:Ekey; [destruct p; discriminate Ekey|].
  rewrite <- Ekey. cbv zeta. rewrite prefix_len_diff by exact Hab.
  destruct (Nat.eqb_spec (length p) (length (p ++ a :: r1))) as [E|_].
  { exfalso. rewrite app_length in E. cbn [length] in E. clear - E. lia. }
  rewrite !nth_error_app2 by lia. rewrite Nat.sub_diag. cbn [nth_error].
  replace (skipn (S (length p)) (p ++ a :: r1)) with r1
    by (rewrite skipn_app, skipn_all2 by lia; replace (S (length p) - length p)%nat with 1%nat by lia; reflexivity).
  replace (skipn (S (length p)) (p ++ b :: r2)) with r2
    by (rewrite skipn_app, skipn_all2 by lia; replace (S (length p) - length p)%nat with 1%nat by lia; reflexivity).
  replace (firstn (length p) (p ++ b :: r2)) with p
    by (rewrite firstn_app, Nat.sub_diag, firstn_all; cbn [firstn]; now rewrite app_nil_r).
  rewrite !insert_nil. cbn [bind].
  rewrite set_child_ok by (rewrite empty_children_length; exact Ha). cbn [bind].
  rewrite set_child_ok by (rewrite set_nth_length, empty_children_length; exact Hb). cbn [bind].
  unfold branch_res. cbv zeta. destruct (Nat.eqb (length p) 0); reflexivity.
Qed.

Section LazyInsert.
Variable H : bytes -> bytes.
Hypothesis Hlen : forall x, length (H x) = 32%nat.

(* ------------------------------------------------------------------ inversions of lzf *)

Lemma lzf_hash_inv d s m h : lzf H d s m (NHash h) -> avail H d m /\ h = H (spec_enc H m).
Proof. intros Hl. inversion Hl; subst. split; [assumption|reflexivity]. Qed.

Lemma lzf_nil_inv d s x : lzf H d s NNil x -> x = NNil.
Proof.
  intros Hl. inversion Hl as [s0 m0 Hav| | | |]; subst; [|reflexivity].
  destruct Hav as [Hc _]. discriminate Hc.
Qed.

Lemma lzf_val_inv d s v x : lzf H d s (NVal v) x -> x = NVal v.
Proof.
  intros Hl. inversion Hl as [s0 m0 Hav| | | |]; subst; [|reflexivity].
  destruct Hav as [Hc _]. discriminate Hc.
Qed.

Lemma flag_ok_new d s m gen : flag_ok H d s m (new_flag gen).
Proof. split; [intros h E; discriminate E|split; [intros E; discriminate E|intros _ E; discriminate E]]. Qed.

Lemma hash_big_nothash c x : is_hash x = false -> hash_big H c x.
Proof. intros Hn h E. subst x. discriminate Hn. Qed.

Lemma lzf_new_short d s gen k c x : lzf H d true c x -> hash_big H c x ->
  lzf H d s (NShort k c (new_flag gen)) (NShort k x (new_flag gen)).
Proof. intros Hl Hb. apply lzf_short; [exact Hl|exact Hb|apply flag_ok_new]. Qed.

Lemma lzf_hang d gen r c x : lzf H d true c x -> hash_big H c x ->
  lzf H d true (hang gen r c) (hang gen r x) /\ hash_big H (hang gen r c) (hang gen r x).
Proof.
  intros Hl Hb. destruct r as [|y r]; cbn [hang].
  - split; assumption.
  - split; [apply lzf_new_short; assumption|apply hash_big_nothash; reflexivity].
Qed.

Lemma lzf_branch d s gen p a b c1 x1 c2 x2 :
  lzf H d true c1 x1 -> hash_big H c1 x1 -> lzf H d true c2 x2 -> hash_big H c2 x2 ->
  lzf H d s (branch_res gen p a b c1 c2) (branch_res gen p a b x1 x2).
Proof.
  intros L1 B1 L2 B2.
  assert (HB : forall s', lzf H d s'
            (NFull (set_nth (set_nth empty_children (nidx a) c1) (nidx b) c2) (new_flag gen))
            (NFull (set_nth (set_nth empty_children (nidx a) x1) (nidx b) x2) (new_flag gen))).
  { intros s'. apply lzf_full; [| |apply flag_ok_new].
    - apply Forall2_set_nth2; [apply Forall2_set_nth2|]; try assumption.
      apply Forall2_repeat. apply lzf_nil.
    - apply Forall2_set_nth2; [apply Forall2_set_nth2|]; try assumption.
      apply Forall2_repeat. apply hash_big_nil. }
  unfold branch_res. cbv zeta. destruct (Nat.eqb (length p) 0); [apply HB|].
  apply lzf_new_short; [apply HB|apply hash_big_nothash; reflexivity].
Qed.

Lemma branch_res_nothash gen p a b c1 c2 : is_hash (branch_res gen p a b c1 c2) = false.
Proof. unfold branch_res. cbv zeta. destruct (Nat.eqb (length p) 0); reflexivity. Qed.

(* ------------------------------------------------------------------ a decoded node is in the invariant *)

Lemma dec_child_lzf d gen c : child_shape c -> all_fits H c -> cov1 H (stored H d) c ->
  (canon c = true -> big H c = false -> lzf H d true c (dec_node H gen None c)) ->
  lzf H d true c (dec_child H gen c) /\ hash_big H c (dec_child H gen c).
Proof.
  intros [->|[[v ->]|Hc]] Hfit [Hst Hcov] IH.
  - split; [apply lzf_nil|intros h E; discriminate E].
  - split; [apply lzf_val|intros h E; discriminate E].
  - rewrite (dec_child_canon H gen c Hc). destruct (big H c) eqn:Eb.
    + split; [|intros h _; exact Eb]. apply lzf_hash. split; [exact Hc|]. split; [exact Hfit|].
      split; [apply Hst; [exact Hc|reflexivity]|exact Hcov].
    + split; [apply IH; [exact Hc|reflexivity]|]. intros h E. exfalso. exact (dec_node_neq_hash H gen None c h Hc E).
Qed.

Lemma dec_lzf_gen d gen : forall m sized hash, canon m = true -> all_fits H m -> covers H d m ->
  (forall h, hash = Some h -> h = H (spec_enc H m) /\ (sized = true -> big H m = true) /\ stored H d m) ->
  (hash = None -> sized = true /\ big H m = false) ->
  lzf H d sized m (dec_node H gen hash m).
Proof.
  induction m as [|k c f IH|cs f IH|h|v] using node_ind'; intros sized hash Hc Hfit Hcov Hh Hn; try discriminate Hc.
  - rewrite dec_node_short.
    assert (Hs : child_shape c).
    { destruct (canon_short_inv _ _ _ Hc) as [_ [(v & -> & _)|(cs & f' & -> & _ & Hcc)]].
      - right. left. eauto.
      - right. right. exact Hcc. }
    pose proof Hfit as Hfit0. pose proof Hcov as Hcov0.
    destruct Hfit as [_ Hfitc]. unfold covers in Hcov. change (cov1 H (stored H d) c) in Hcov.
    destruct (dec_child_lzf d gen c Hs Hfitc Hcov) as [L B].
    { intros Hcc Hsm. apply IH; [exact Hcc|exact Hfitc|exact (proj2 Hcov)| |].
      - intros h E; discriminate E.
      - intros _. split; [reflexivity|exact Hsm]. }
    apply lzf_short; [exact L|exact B|]. split.
    + intros h Eh. cbn [fhash] in Eh. destruct (Hh h Eh) as (A1 & A2 & _). split; assumption.
    + split.
      * intros _. split; [exact Hc|]. split; [exact Hfit0|]. split; [exact Hcov0|].
        intros h Eh. cbn [fhash] in Eh. apply (Hh h Eh).
      * intros En _. cbn [fhash] in En. exact (Hn En).
  - rewrite dec_node_full. pose proof (canon_full_children _ _ Hc) as Hs.
    pose proof Hfit as Hfit0. pose proof Hcov as Hcov0.
    apply (all_fits_full H cs f) in Hfit. destruct Hfit as [_ Hfit].
    unfold covers in Hcov. apply (covers_p_full H (stored H d) cs f) in Hcov.
    assert (HF : Forall (fun c => lzf H d true c (dec_child H gen c) /\ hash_big H c (dec_child H gen c)) cs).
    { rewrite Forall_forall in *. intros x Hin. apply dec_child_lzf; [apply Hs; exact Hin|apply Hfit; exact Hin|apply Hcov; exact Hin|].
      intros Hcc Hsm. apply (IH x Hin); [exact Hcc|apply Hfit; exact Hin|exact (proj2 (Hcov x Hin))| |].
      - intros h E; discriminate E.
      - intros _. split; [reflexivity|exact Hsm]. }
    apply lzf_full.
    + apply Forall2_map_r. eapply Forall_impl; [|exact HF]. cbv beta. tauto.
    + apply Forall2_map_r. eapply Forall_impl; [|exact HF]. cbv beta. tauto.
    + split.
      * intros h Eh. cbn [fhash] in Eh. destruct (Hh h Eh) as (A1 & A2 & _). split; assumption.
      * split.
        -- intros _. split; [exact Hc|]. split; [exact Hfit0|]. split; [exact Hcov0|].
           intros h Eh. cbn [fhash] in Eh. apply (Hh h Eh).
        -- intros En _. cbn [fhash] in En. exact (Hn En).
Qed.

(* the node resolveHash returns for a stored node *)
Lemma dec_lzf d gen sized m : avail H d m -> (sized = true -> big H m = true) ->
  lzf H d sized m (dec_node H gen (Some (H (spec_enc H m))) m).
Proof.
  intros (Hc & Hfit & Hst & Hcov) Hb. apply dec_lzf_gen; try assumption.
  - intros h E. injection E as <-. split; [reflexivity|]. split; assumption.
  - intros E; discriminate E.
Qed.

(* an embedded (small) child, decoded in place *)
Lemma dec_lzf_embedded d gen c : canon c = true -> all_fits H c -> covers H d c -> big H c = false ->
  lzf H d true c (dec_node H gen None c).
Proof.
  intros Hc Hfit Hcov Hsm. apply dec_lzf_gen; try assumption.
  - intros h E; discriminate E.
  - intros _. split; [reflexivity|exact Hsm].
Qed.

(* ------------------------------------------------------------------ the simulation, for a node in any position *)

Lemma insert_lazy_gen : forall fuel d gen sized m x key v,
  canon_root m = true -> lzf H d sized m x -> (sized = true -> hash_big H m x) ->
  tkeyb key = true -> nonempty v = true ->
  2 * length key + (if is_hash x then 2 else 1) <= fuel ->
  exists dirty x' m',
    (forall fm, length key < fm -> insert fm d gen m key (NVal v) = Ok (dirty, m')) /\
    insert fuel d gen x key (NVal v) = Ok (dirty, x') /\
    lzf H d sized m' x' /\ is_hash x' = false /\ (dirty = false -> m' = m).
Proof.
  induction fuel as [|fuel IH]; intros d gen sized m x key v Hm Hl Hsz Hk Hv Hfuel;
    [clear - Hfuel; destruct (is_hash x); lia|].
  pose proof (tkeyb_nonempty _ Hk) as Hkne.
  inversion Hl as [s0 m0 Hav | s0 | s0 v0 | s0 k c cx f f' Hlc Hbc Hfl | s0 cs xs f f' Hls Hbs Hfl]; subst.
  - (* a hash node: resolve through the database, continue on the decoded node *)
    cbn [is_hash] in Hfuel. destruct Hav as (Hc & Hfit & Hst & Hcov).
    rewrite insert_hash_step by exact Hkne.
    rewrite (resolve_stored H Hlen d m gen Hc (all_fits_top H m Hc Hfit) Hst). cbn [bind].
    assert (Hbig : sized = true -> big H m = true) by (intros E; exact (Hsz E _ eq_refl)).
    assert (Hld : lzf H d sized m (dec_node H gen (Some (H (spec_enc H m))) m)).
    { apply dec_lzf; [repeat split; assumption|exact Hbig]. }
    destruct (IH d gen sized m _ key v Hm Hld) as (dirty & x' & m' & Em & Ex & Hl' & Hnh & Hd).
    + intros _. apply hash_big_nothash. apply dec_node_not_hash. exact Hc.
    + exact Hk.
    + exact Hv.
    + rewrite (dec_node_not_hash H gen _ m Hc). clear - Hfuel. lia.
    + rewrite Ex. cbn [bind]. destruct dirty.
      * exists true, x', m'. split; [exact Em|]. split; [reflexivity|]. split; [exact Hl'|]. split; assumption.
      * exists false, (dec_node H gen (Some (H (spec_enc H m))) m), m'.
        split; [exact Em|]. split; [reflexivity|]. split; [rewrite (Hd eq_refl); exact Hld|].
        split; [apply dec_node_not_hash; exact Hc|exact Hd].
  - (* nil *)
    destruct key as [|k0 krest]; [contradiction Hkne; reflexivity|].
    exists true, (NShort (k0 :: krest) (NVal v) (new_flag gen)), (NShort (k0 :: krest) (NVal v) (new_flag gen)).
    split; [intros fm Hfm; destruct fm as [|fm]; [clear - Hfm; lia|apply insert_nil_key]|].
    split; [apply insert_nil_key|].
    split; [apply lzf_new_short; [apply lzf_val|apply hash_big_nothash; reflexivity]|].
    split; [reflexivity|discriminate].
  - (* a value is not a root *)
    discriminate Hm.
  - (* short node *)
    cbn [canon_root is_nil orb] in Hm. cbn [is_hash] in Hfuel.
    pose proof (canon_short_okkey _ _ _ Hm) as Hok.
    destruct (canon_short_inv _ _ _ Hm) as [Hnk Hshape].
    assert (Hlk : 1 <= length k) by (clear - Hnk; destruct k; [contradiction|cbn [length]; lia]).
    destruct (Nat.eq_dec (prefix_len key k) (length k)) as [Hpl|Hpl].
    + pose proof (TrieProofs.prefix_len_full _ _ Hpl) as Hp.
      destruct Hshape as [(v0 & -> & Htk & Hv0)|(cs & f0 & -> & Hpk & Hc)].
      * (* leaf with the same key *)
        pose proof (tkeyb_prefix_eq _ _ Hk Htk Hp) as E. subst key.
        apply lzf_val_inv in Hlc. subst cx.
        destruct fuel as [|fuel]; [clear - Hfuel Hlk; lia|].
        assert (Em : forall fm, length k < fm -> insert fm d gen (NShort k (NVal v0) f) k (NVal v) =
                  if bytes_eqb v0 v then Ok (false, NShort k (NVal v0) f) else Ok (true, NShort k (NVal v) (new_flag gen))).
        { intros fm Hfm. destruct fm as [|[|fm]]; [clear - Hfm; lia|clear - Hfm Hlk; lia|].
          apply insert_leaf_same. exact Hnk. }
        pose proof (insert_leaf_same fuel d gen k v0 f' v Hnk) as Ex.
        destruct (bytes_eqb v0 v).
        -- exists false, (NShort k (NVal v0) f'), (NShort k (NVal v0) f).
           split; [exact Em|]. split; [exact Ex|]. split; [exact Hl|]. split; reflexivity.
        -- exists true, (NShort k (NVal v) (new_flag gen)), (NShort k (NVal v) (new_flag gen)).
           split; [exact Em|]. split; [exact Ex|].
           split; [apply lzf_new_short; [apply lzf_val|apply hash_big_nothash; reflexivity]|].
           split; [reflexivity|discriminate].
      * (* extension: descend *)
        pose proof (tkeyb_skip_path _ _ Hk Hpk Hp) as Hk'.
        assert (Hlr : length (skipn (length k) key) + length k = length key).
        { rewrite skipn_length. pose proof (prefix_len_le key k) as Hle. clear - Hle Hpl. lia. }
        assert (Hcr : canon_root (NFull cs f0) = true) by (unfold canon_root; rewrite Hc; apply orb_true_r).
        destruct (IH d gen true (NFull cs f0) cx (skipn (length k) key) v Hcr Hlc (fun _ => Hbc) Hk' Hv)
          as (dirty & x' & m' & Em & Ex & Hl' & Hnh & Hd).
        { clear - Hfuel Hlr Hlk. destruct (is_hash cx); lia. }
        assert (Emm : forall fm, length key < fm ->
                  insert fm d gen (NShort k (NFull cs f0) f) key (NVal v) =
                  if dirty then Ok (true, NShort k m' (new_flag gen)) else Ok (false, NShort k (NFull cs f0) f)).
        { intros fm Hfm. destruct fm as [|fm]; [clear - Hfm; lia|].
          rewrite insert_short_match by assumption. rewrite Em by (clear - Hfm Hlr Hlk; lia). reflexivity. }
        assert (Exx : insert (S fuel) d gen (NShort k cx f') key (NVal v) =
                  if dirty then Ok (true, NShort k x' (new_flag gen)) else Ok (false, NShort k cx f')).
        { rewrite insert_short_match by assumption. rewrite Ex. reflexivity. }
        destruct dirty.
        -- exists true, (NShort k x' (new_flag gen)), (NShort k m' (new_flag gen)).
           split; [exact Emm|]. split; [exact Exx|].
           split; [apply lzf_new_short; [exact Hl'|apply hash_big_nothash; exact Hnh]|].
           split; [reflexivity|discriminate].
        -- exists false, (NShort k cx f'), (NShort k (NFull cs f0) f).
           split; [exact Emm|]. split; [exact Exx|]. split; [exact Hl|]. split; reflexivity.
    + (* branch out *)
      assert (Hlt : prefix_len key k < length k) by (pose proof (prefix_len_le key k) as Hle; clear - Hle Hpl; lia).
      destruct (split_at_diff _ _ Hk Hok Hlt) as (p & a & b & r1 & r2 & Enk & Ekey & Hab & Hlp & Hpp).
      subst k key.
      assert (Ha17 : nidx a < 17).
      { destruct Hshape as [(v0 & _ & Htk & _)|(cs & f0 & _ & Hpk & _)].
        - apply tkeyb_app_inv in Htk as [_ Hta]; [|discriminate]. apply (nidx_le16 a r1).
          apply tkeyb_cons in Hta as [[? ?]|(? & ? & ?)]; auto.
        - rewrite pathb_app in Hpk. apply andb_true_iff in Hpk as [_ Hpa].
          cbn [pathb forallb] in Hpa. apply andb_true_iff in Hpa as [Ha _]. apply nibb_nidx in Ha. clear - Ha. lia. }
      assert (Hb17 : nidx b < 17).
      { apply tkeyb_app_inv in Hk as [_ Hkb]; [|discriminate]. apply (nidx_le16 b r2).
        apply tkeyb_cons in Hkb as [[? ?]|(? & ? & ?)]; auto. }
      rewrite app_length in Hfuel. cbn [length] in Hfuel.
      destruct fuel as [|fuel]; [clear - Hfuel; lia|].
      destruct (lzf_hang d gen r1 c cx Hlc Hbc) as [Lh Bh].
      destruct (lzf_hang d gen r2 (NVal v) (NVal v) (lzf_val H d true v) (hash_big_nothash (NVal v) (NVal v) eq_refl)) as [Lv Bv].
      exists true, (branch_res gen p a b (hang gen r1 cx) (hang gen r2 (NVal v))),
                   (branch_res gen p a b (hang gen r1 c) (hang gen r2 (NVal v))).
      split.
      { intros fm Hfm. rewrite app_length in Hfm. cbn [length] in Hfm.
        destruct fm as [|[|fm]]; [clear - Hfm; lia|clear - Hfm; lia|]. apply insert_short_branch; assumption. }
      split; [apply insert_short_branch; assumption|].
      split; [apply lzf_branch; assumption|].
      split; [apply branch_res_nothash|discriminate].
  - (* full node *)
    cbn [canon_root is_nil orb] in Hm. cbn [is_hash] in Hfuel.
    pose proof Hm as Hm0. apply canon_full_iff in Hm as (Hl17 & Hs & _).
    pose proof (Forall2_len _ _ _ Hls) as Hlx.
    assert (Hlx17 : length xs = 17) by (rewrite <- Hlx; exact Hl17).
    destruct key as [|k0 krest]; [contradiction Hkne; reflexivity|].
    apply tkeyb_cons in Hk as [[-> ->]|(Hkr & Hk0 & Hkt)].
    + (* the terminator: the value slot *)
      pose proof (Hs 16 ltac:(lia)) as H16. unfold TrieProofs.slot_ok in H16. cbn [Nat.ltb Nat.leb] in H16.
      pose proof (Forall2_nth_d (lzf H d true) NNil NNil (lzf_nil H d true) _ _ Hls 16) as L16.
      assert (Hsh : nth 16 cs NNil = NNil \/ exists v0, nth 16 cs NNil = NVal v0).
      { destruct (nth 16 cs NNil); try discriminate H16; eauto. }
      assert (E16 : nth 16 xs NNil = nth 16 cs NNil).
      { destruct Hsh as [E|[v0 E]]; rewrite E in L16 |- *;
          [apply lzf_nil_inv in L16|apply lzf_val_inv in L16]; exact L16. }
      cbn [length] in Hfuel. destruct fuel as [|fuel]; [clear - Hfuel; lia|].
      assert (Hshx : nth 16 xs NNil = NNil \/ exists v0, nth 16 xs NNil = NVal v0) by (rewrite E16; exact Hsh).
      pose proof (insert_full_term fuel d gen xs f' v Hlx17 Hshx) as Ex. rewrite E16 in Ex.
      assert (Em : forall fm, length [term] < fm -> insert fm d gen (NFull cs f) [term] (NVal v) =
                if (match nth 16 cs NNil with NVal v0 => bytes_eqb v0 v | _ => false end)
                then Ok (false, NFull cs f) else Ok (true, NFull (set_nth cs 16 (NVal v)) (new_flag gen))).
      { intros fm Hfm. cbn [length] in Hfm. destruct fm as [|[|fm]]; [clear - Hfm; lia|clear - Hfm; lia|].
        apply insert_full_term; assumption. }
      remember (match nth 16 cs NNil with NVal v0 => bytes_eqb v0 v | _ => false end) as cond eqn:Ec in *.
      clear Ec. destruct cond.
      * exists false, (NFull xs f'), (NFull cs f).
        split; [exact Em|]. split; [exact Ex|]. split; [exact Hl|]. split; reflexivity.
      * exists true, (NFull (set_nth xs 16 (NVal v)) (new_flag gen)), (NFull (set_nth cs 16 (NVal v)) (new_flag gen)).
        split; [exact Em|]. split; [exact Ex|]. split.
        { apply lzf_full; [| |apply flag_ok_new].
          - apply Forall2_set_nth2; [exact Hls|apply lzf_val].
          - apply Forall2_set_nth2; [exact Hbs|apply hash_big_nothash; reflexivity]. }
        split; [reflexivity|discriminate].
    + (* a nibble: descend into the child *)
      pose proof (proj1 (nibb_nidx k0) Hk0) as Hi.
      pose proof (Hs (nidx k0) ltac:(clear - Hi; lia)) as Hsi.
      pose proof (slot_ok_canon_root _ _ Hi Hsi) as Hcr.
      assert (Hic : nidx k0 < length cs) by (clear - Hi Hl17; lia).
      assert (Hix : nidx k0 < length xs) by (clear - Hi Hlx17; lia).
      pose proof (Forall2_nth_d (lzf H d true) NNil NNil (lzf_nil H d true) _ _ Hls (nidx k0)) as L1.
      pose proof (Forall2_nth_d (hash_big H) NNil NNil (hash_big_nil H) _ _ Hbs (nidx k0)) as B1.
      cbn [length] in Hfuel.
      destruct (IH d gen true (nth (nidx k0) cs NNil) (nth (nidx k0) xs NNil) krest v Hcr L1 (fun _ => B1) Hkt Hv)
        as (dirty & x' & m' & Em & Ex & Hl' & Hnh & Hd).
      { clear - Hfuel. destruct (is_hash (nth (nidx k0) xs NNil)); lia. }
      assert (Emm : forall fm, length (k0 :: krest) < fm ->
                insert fm d gen (NFull cs f) (k0 :: krest) (NVal v) =
                if dirty then Ok (true, NFull (set_nth cs (nidx k0) m') (new_flag gen)) else Ok (false, NFull cs f)).
      { intros fm Hfm. cbn [length] in Hfm. destruct fm as [|fm]; [clear - Hfm; lia|].
        rewrite insert_full_step, get_child_ok by exact Hic. cbn [bind].
        rewrite Em by (clear - Hfm; lia). cbn [bind ins_f].
        destruct dirty; [rewrite set_child_ok by exact Hic|]; reflexivity. }
      assert (Exx : insert (S fuel) d gen (NFull xs f') (k0 :: krest) (NVal v) =
                if dirty then Ok (true, NFull (set_nth xs (nidx k0) x') (new_flag gen)) else Ok (false, NFull xs f')).
      { rewrite insert_full_step, get_child_ok by exact Hix. cbn [bind].
        rewrite Ex. cbn [bind ins_f].
        destruct dirty; [rewrite set_child_ok by exact Hix|]; reflexivity. }
      destruct dirty.
      * exists true, (NFull (set_nth xs (nidx k0) x') (new_flag gen)), (NFull (set_nth cs (nidx k0) m') (new_flag gen)).
        split; [exact Emm|]. split; [exact Exx|]. split.
        { apply lzf_full; [| |apply flag_ok_new].
          - apply Forall2_set_nth2; [exact Hls|exact Hl'].
          - apply Forall2_set_nth2; [exact Hbs|apply hash_big_nothash; exact Hnh]. }
        split; [reflexivity|discriminate].
      * exists false, (NFull xs f'), (NFull cs f).
        split; [exact Emm|]. split; [exact Exx|]. split; [exact Hl|]. split; reflexivity.
Qed.

(* insert on the lazily held root x simulates insert on the loaded root m *)
Theorem insert_lazy_strong : forall d gen m x key v fuel,
  canon_root m = true -> lzf H d false m x -> tkeyb key = true -> nonempty v = true ->
  2 * length key + 3 <= fuel ->
  exists dirty x' m',
    (forall fm, length key < fm -> insert fm d gen m key (NVal v) = Ok (dirty, m')) /\
    insert fuel d gen x key (NVal v) = Ok (dirty, x') /\
    lzf H d false m' x' /\ is_hash x' = false /\ (dirty = false -> m' = m).
Proof.
  intros d gen m x key v fuel Hm Hl Hk Hv Hfuel.
  apply insert_lazy_gen; try assumption.
  - intros E; discriminate E.
  - clear - Hfuel. destruct (is_hash x); lia.
Qed.

Theorem insert_lazy : forall d gen m x key v fuel,
  canon_root m = true -> lzf H d false m x -> tkeyb key = true -> nonempty v = true ->
  2 * length key + 3 <= fuel ->
  exists dirty x' dm m',
    insert (S (length key)) d gen m key (NVal v) = Ok (dm, m') /\
    insert fuel d gen x key (NVal v) = Ok (dirty, x') /\
    lzf H d false m' x'.
Proof.
  intros d gen m x key v fuel Hm Hl Hk Hv Hfuel.
  destruct (insert_lazy_strong d gen m x key v fuel Hm Hl Hk Hv Hfuel) as (dirty & x' & m' & Em & Ex & Hl' & _ & _).
  exists dirty, x', dirty, m'. split; [apply Em; apply Nat.lt_succ_diag_r|]. split; assumption.
Qed.

(* Trie.TryUpdate with a non-empty value on a lazily held trie: it succeeds, the
   new trie is again in the invariant, for a canonical loaded root whose content
   is the finite-map update *)
Theorem trie_update_lazy : forall d m t key value,
  lazy_trie H d m t -> nonempty value = true ->
  exists t' m', trie_update t d key value = Ok t' /\ lazy_trie H d m' t' /\
    (forall k', lookup (content_of m') k' =
                if bytes_eqb (keybytes_to_hex key) k' then Some value else lookup (content_of m) k').
Proof.
  intros d m t key value (Hm & Hl & Hg & Hlim) Hv.
  pose proof (TrieDecodeProofs.tkeyb_keybytes_to_hex key) as Hk.
  destruct (insert_lazy_strong d (tgen t) m (troot t) (keybytes_to_hex key) value (key_fuel (keybytes_to_hex key))
              Hm Hl Hk Hv) as (dirty & x' & m' & Em & Ex & Hl' & _ & _).
  { unfold key_fuel. generalize (length (keybytes_to_hex key)). clear. intros n. lia. }
  destruct (insert_canon (S (length (keybytes_to_hex key))) d (tgen t) m (keybytes_to_hex key) value Hm Hk Hv
              (Nat.lt_succ_diag_r _)) as (dirty2 & n' & E2 & Hc' & _ & _ & Hlk & _).
  rewrite (Em _ (Nat.lt_succ_diag_r _)) in E2. injection E2 as _ <-.
  exists (mkTrie x' (tgen t) (tlimit t)), m'. split.
  - unfold trie_update. destruct value as [|b0 value]; [discriminate Hv|]. rewrite Ex. reflexivity.
  - split; [|exact Hlk]. unfold lazy_trie. cbn [troot tgen tlimit].
    split; [unfold canon_root; rewrite Hc'; apply orb_true_r|]. split; [exact Hl'|]. split; assumption.
Qed.

End LazyInsert.
