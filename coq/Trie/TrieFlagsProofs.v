(* Trie/TrieFlagsProofs.v — tries WITH cached hashes.  The hasher (hasher.go)
   stores in a node's flag the hash it computed and a later Hash() reuses it.
   This file gives an invariant on the flags (every cached hash is the hash of
   the node's specification encoding; below the root a hash is only cached for
   encodings of at least 32 bytes) under which Trie.Hash still returns the
   specification root, and shows that insert / delete / Hash (without database)
   preserve it.  So the root theorems cover histories with intermediate Hash()
   calls. *)
From AQ Require Import Lib.Bytes Rlp.RlpSpec Trie.MptSpec Trie.TrieModel Trie.TrieInv Trie.TrieProofs
  Trie.TrieInsertProofs Trie.TrieDeleteProofs Trie.TrieRootProofs.
From AQ Require Trie.MptSpecProofs Trie.TrieContentProofs.
From Coq Require Import ZifyBool ZifyN ZifyNat.
Local Open Scope N_scope.

(* ------------------------------------------------------------------ erasure *)

Lemma content_of_erase n : content_of (erase n) = content_of n.
Proof.
  induction n as [|k ch f IH|cs f IH|h|v] using node_ind'; try reflexivity.
  - cbn [erase content_of]. now rewrite IH.
  - cbn [erase content_of]. f_equal. rewrite map_map. apply map_ext_in. intros x Hx.
    rewrite Forall_forall in IH. now apply IH.
Qed.

Lemma erase_content a b : erase a = erase b -> content_of a = content_of b.
Proof. intros E. rewrite <- (content_of_erase a), <- (content_of_erase b). now rewrite E. Qed.

(* canonicity depends only on the erased node *)
Lemma forallb_map_erase (P : node -> bool) l :
  (forall x, In x l -> P (erase x) = P x) -> forallb P (map erase l) = forallb P l.
Proof.
  induction l as [|a l IH]; cbn [map forallb]; intros Hx; [reflexivity|].
  rewrite Hx by (left; reflexivity). rewrite IH; [reflexivity|].
  intros x Hin. apply Hx. right. exact Hin.
Qed.
Lemma is_nil_erase x : is_nil (erase x) = is_nil x.
Proof. destruct x; reflexivity. Qed.
Lemma is_val_erase x : is_val (erase x) = is_val x.
Proof. destruct x; reflexivity. Qed.
Lemma val_ok_erase x : val_ok (erase x) = val_ok x.
Proof. destruct x; reflexivity. Qed.
Lemma count_nonnil_erase l : count_nonnil (map erase l) = count_nonnil l.
Proof.
  unfold count_nonnil. induction l as [|a l IH]; cbn [map filter]; [reflexivity|].
  rewrite is_nil_erase. destruct (negb (is_nil a)); cbn [length]; now rewrite IH.
Qed.

Lemma canon_erase n : canon (erase n) = canon n.
Proof.
  induction n as [|k ch f IH|cs f IH|h|v] using node_ind'; try reflexivity.
  - cbn [erase]. rewrite !canon_short.
    destruct ch as [| |cs0 f0| |v]; try reflexivity.
    cbn [erase] in IH |- *. now rewrite IH.
  - cbn [erase]. rewrite !canon_full, map_length, firstn_map, count_nonnil_erase.
    change (nth 16 (map erase cs) NNil) with (nth 16 (map erase cs) (erase NNil)). rewrite map_nth.
    rewrite Forall_forall in IH.
    assert (E1 : forallb (fun c => is_nil c || is_val c || canon c) (map erase cs)
                 = forallb (fun c => is_nil c || is_val c || canon c) cs).
    { apply forallb_map_erase. intros x Hx. now rewrite is_nil_erase, is_val_erase, (IH x Hx). }
    assert (E2 : forallb (fun c => negb (is_val c)) (map erase (firstn 16 cs))
                 = forallb (fun c => negb (is_val c)) (firstn 16 cs)).
    { apply forallb_map_erase. intros x _. now rewrite is_val_erase. }
    assert (E3 : forallb val_ok (map erase cs) = forallb val_ok cs).
    { apply forallb_map_erase. intros x _. apply val_ok_erase. }
    rewrite E1, E2, E3. destruct (nth 16 cs NNil); reflexivity.
Qed.

Lemma erase_canon a b : erase a = erase b -> canon a = canon b.
Proof. intros E. rewrite <- (canon_erase a), <- (canon_erase b). now rewrite E. Qed.

Lemma erase_canon_root a b : erase a = erase b -> canon_root a = canon_root b.
Proof.
  intros E. unfold canon_root. rewrite (erase_canon a b E).
  rewrite <- (is_nil_erase a), <- (is_nil_erase b). now rewrite E.
Qed.

(* ------------------------------------------------------------------ loaded tries (no hash nodes) *)

Fixpoint loaded (n : node) : bool :=
  match n with
  | NShort _ c _ => loaded c
  | NFull cs _ => forallb loaded cs
  | NHash _ => false
  | _ => true
  end.

Lemma canon_loaded n : canon n = true -> loaded n = true.
Proof.
  induction n as [|k ch f IH|cs f IH|h|v] using node_ind'; intros Hc; try discriminate Hc.
  - rewrite canon_short in Hc. apply andb_prop in Hc as [_ Hc]. cbn [loaded].
    destruct ch; try discriminate Hc; [|reflexivity].
    apply andb_prop in Hc as [_ Hc]. exact (IH Hc).
  - destruct (canon_full_inv _ _ Hc) as (_ & Hb & _). cbn [loaded].
    apply forallb_forall. intros x Hx. rewrite forallb_forall in Hb. rewrite Forall_forall in IH.
    specialize (Hb x Hx). specialize (IH x Hx).
    destruct x; try reflexivity; try discriminate Hb; cbn [is_nil is_val orb] in Hb; exact (IH Hb).
Qed.

Lemma canon_root_loaded n : canon_root n = true -> loaded n = true.
Proof.
  unfold canon_root. intros Hc. apply orb_prop in Hc as [Hc|Hc].
  - destruct n; try discriminate Hc. reflexivity.
  - now apply canon_loaded.
Qed.

Lemma Forall_set_nth (P : node -> Prop) l : forall i x, Forall P l -> P x -> Forall P (set_nth l i x).
Proof.
  induction l as [|a l IH]; intros [|i] x HF Hx; cbn [set_nth]; auto;
    inversion HF; subst; constructor; auto.
Qed.

Lemma Forall_nth_d (P : node -> Prop) l d : Forall P l -> P d -> forall i, P (nth i l d).
Proof.
  intros HF Hd. induction HF as [|a l Ha HF IH]; intros [|i]; cbn [nth]; auto.
Qed.

Lemma forallb_nth_d (f : node -> bool) l d : forallb f l = true -> f d = true -> forall i, f (nth i l d) = true.
Proof.
  induction l as [|a l IH]; intros Hl Hd [|i]; cbn [nth]; auto;
    cbn [forallb] in Hl; apply andb_prop in Hl as [Ha Hl]; auto.
Qed.

Section Flags.
Variable H : bytes -> bytes.

(* the specification item of the content below a node *)
Definition spec_item (n : node) : item := mpt_c H (S (max_key_len (content_of n))) (content_of n).

(* the cached hash of a node, if any, is the hash of its specification encoding;
   in child position it is only cached for encodings of at least 32 bytes *)
Definition cache_ok (sized : bool) (n : node) : Prop :=
  match n with
  | NShort _ _ f | NFull _ f =>
      forall h, fhash f = Some h ->
        h = H (encode (spec_item n)) /\ (sized = true -> 32 <= lenN (encode (spec_item n)))
  | _ => True
  end.

(* all PROPER descendants are fine in child position *)
Fixpoint sub_ok (n : node) : Prop :=
  match n with
  | NShort _ c _ => cache_ok true c /\ sub_ok c
  | NFull cs _ =>
    (fix go (l : list node) : Prop :=
       match l with [] => True | x :: t => (cache_ok true x /\ sub_ok x) /\ go t end) cs
  | _ => True
  end.

Definition child_ok (n : node) : Prop := cache_ok true n /\ sub_ok n.
Definition root_ok (n : node) : Prop := cache_ok false n /\ sub_ok n.
Definition node_ok (sized : bool) (n : node) : Prop := cache_ok sized n /\ sub_ok n.

Lemma sub_ok_short k c f : sub_ok (NShort k c f) = child_ok c.
Proof. reflexivity. Qed.

Lemma sub_ok_cons x t f : sub_ok (NFull (x :: t) f) = (child_ok x /\ sub_ok (NFull t f)).
Proof. reflexivity. Qed.

Lemma sub_ok_full cs f : sub_ok (NFull cs f) <-> Forall child_ok cs.
Proof.
  induction cs as [|x t IH].
  - split; [constructor|intros _; exact I].
  - rewrite sub_ok_cons. split.
    + intros [Hx Ht]. constructor; [exact Hx|apply IH; exact Ht].
    + intros HF. inversion HF as [|? ? Hx Ht]; subst. split; [exact Hx|apply IH; exact Ht].
Qed.

Lemma cache_ok_weaken n : cache_ok true n -> cache_ok false n.
Proof.
  destruct n as [|k ch f|cs f|h|v]; cbn [cache_ok]; auto;
    intros Hc h0 Eh; destruct (Hc h0 Eh) as [E _]; (split; [exact E|discriminate]).
Qed.

Lemma child_root_ok n : child_ok n -> root_ok n.
Proof. intros [Hc Hs]. split; [apply cache_ok_weaken; exact Hc|exact Hs]. Qed.

Lemma child_ok_nil : child_ok NNil.
Proof. split; exact I. Qed.
Lemma child_ok_val v : child_ok (NVal v).
Proof. split; exact I. Qed.

(* a fresh flag makes the cache clause vacuous *)
Lemma child_ok_short_new k c gen : child_ok c -> child_ok (NShort k c (new_flag gen)).
Proof. intros Hc. split; [intros h Eh; discriminate Eh|exact Hc]. Qed.
Lemma child_ok_full_new cs gen : Forall child_ok cs -> child_ok (NFull cs (new_flag gen)).
Proof. intros Hc. split; [intros h Eh; discriminate Eh|apply sub_ok_full; exact Hc]. Qed.

(* tries without cached hashes satisfy the invariant *)
Lemma nohash_ok n : nohash n = true -> forall b, node_ok b n.
Proof.
  induction n as [|k ch f IH|cs f IH|h|v] using node_ind'; intros Hn b; try (split; exact I).
  - cbn [nohash] in Hn. apply andb_prop in Hn as [Hf Hc]. unfold fnohash in Hf. split.
    + intros h Eh. rewrite Eh in Hf. discriminate Hf.
    + exact (IH Hc true).
  - cbn [nohash] in Hn. apply andb_prop in Hn as [Hf Hc]. unfold fnohash in Hf. split.
    + intros h Eh. rewrite Eh in Hf. discriminate Hf.
    + apply sub_ok_full. rewrite Forall_forall in IH |- *. intros x Hx.
      rewrite forallb_forall in Hc. exact (IH x Hx (Hc x Hx) true).
Qed.

(* ------------------------------------------------------------------ the specification item does not depend on the fuel *)

Definition fuel_indep (n : node) : Prop :=
  canon n = true -> forall f1 f2,
  (max_key_len (content_of n) < f1)%nat -> (max_key_len (content_of n) < f2)%nat ->
  mpt_c H f1 (content_of n) = mpt_c H f2 (content_of n).

Lemma items_fuel a b : forall l i, Forall fuel_indep l -> slots_ok i l ->
  (forall x, In x l -> canon x = true -> (max_key_len (content_of x) < a)%nat) ->
  (forall x, In x l -> canon x = true -> (max_key_len (content_of x) < b)%nat) ->
  items H a i l = items H b i l.
Proof.
  induction l as [|x t IH]; intros i HF Hs Ha Hb; [reflexivity|].
  inversion HF as [|? ? Hx HF']; subst. destruct Hs as [Hxok Hs].
  cbn [items]. f_equal.
  - unfold item_at. unfold TrieRootProofs.child_ok in Hxok. destruct (Nat.ltb i 16); [|reflexivity].
    destruct Hxok as [->|Hcx]; [reflexivity|].
    rewrite !n_ref_ne by (apply canon_content_ne; exact Hcx).
    rewrite (Hx Hcx a b) by (first [apply Ha|apply Hb]; [left; reflexivity|exact Hcx]).
    reflexivity.
  - apply IH; [exact HF'|exact Hs| |]; intros y Hy Hcy; [apply Ha|apply Hb]; auto; right; exact Hy.
Qed.

Lemma mpt_c_fuel_canon n : fuel_indep n.
Proof.
  induction n as [|k ch f IH|cs f IH|h|v] using node_ind';
    unfold fuel_indep; intros Hc f1 f2 Hf1 Hf2; try discriminate Hc.
  - rewrite canon_short in Hc. apply andb_prop in Hc as [Hk Hc].
    assert (Hkne : k <> []) by (destruct k; [discriminate Hk|discriminate]).
    destruct f1 as [|a]; [apply Nat.nlt_0_r in Hf1; destruct Hf1|].
    destruct f2 as [|b]; [apply Nat.nlt_0_r in Hf2; destruct Hf2|].
    destruct ch as [| | cs0 f0 | |v]; try discriminate Hc.
    + apply andb_prop in Hc as [Hp Hcc].
      pose proof (canon_full_two_heads _ _ Hcc) as T.
      pose proof (canon_content_ne _ Hcc) as Hne.
      change (content_of (NShort k (NFull cs0 f0) f))
        with (map (pre_key k) (content_of (NFull cs0 f0))) in *.
      pose proof (max_key_len_pre k _ Hne Hkne) as Hlt.
      rewrite !mpt_c_ext by assumption. rewrite !n_ref_ne by exact Hne.
      rewrite (IH Hcc a b) by (clear - Hlt Hf1 Hf2; lia). reflexivity.
    + change (content_of (NShort k (NVal v) f)) with [(k ++ [], v)].
      rewrite !mpt_c_S. reflexivity.
  - destruct (canon_full_inv _ _ Hc) as (Hl & Hb & Hv & H16 & Hcnt).
    destruct f1 as [|a]; [apply Nat.nlt_0_r in Hf1; destruct Hf1|].
    destruct f2 as [|b]; [apply Nat.nlt_0_r in Hf2; destruct Hf2|].
    pose proof (canon_full_two_heads _ _ Hc) as T.
    change (content_of (NFull cs f)) with (join 0 (map content_of cs)) in *.
    rewrite !mpt_c_branch by exact T.
    rewrite <- (items_full H a cs _ Hl (fun j Hj => full_sub cs j Hl Hj)).
    rewrite <- (items_full H b cs _ Hl (fun j Hj => full_sub cs j Hl Hj)).
    f_equal.
    apply items_fuel; [exact IH|exact (canon_slots_ok _ _ Hc)| |];
      intros x Hin Hcx; pose proof (child_max cs x Hl Hin Hcx) as Hlt; clear - Hlt Hf1 Hf2; lia.
Qed.

Lemma spec_item_fuel n fuel : canon n = true -> (max_key_len (content_of n) < fuel)%nat ->
  mpt_c H fuel (content_of n) = spec_item n.
Proof.
  intros Hc Hf. unfold spec_item. apply mpt_c_fuel_canon; [exact Hc|exact Hf|apply Nat.lt_succ_diag_r].
Qed.

Lemma spec_item_erase a b : erase a = erase b -> spec_item a = spec_item b.
Proof. intros E. unfold spec_item. now rewrite (erase_content a b E). Qed.

(* ------------------------------------------------------------------ (A) Hash with valid caches *)

Lemma hash_node_cached c n force f h :
  node_flag n = Some f -> fhash f = Some h -> hdb c = false ->
  hash_node H c n force = Ok (RHash h, n, []).
Proof.
  intros En Ef Hdb. destruct c as [db g l]. cbn [hdb] in Hdb. subst db.
  destruct n as [|k ch f'|cs f'|h'|v]; try discriminate En; injection En as ->;
    destruct f as [fh fg fd]; cbn [fhash] in Ef; subst fh; reflexivity.
Qed.

Lemma spec_item_set_hash c m r : spec_item (set_hash_flag c m r) = spec_item m.
Proof. destruct m; reflexivity. Qed.

Lemma sub_ok_set_hash c m r : sub_ok (set_hash_flag c m r) = sub_ok m.
Proof. destruct m; reflexivity. Qed.

Lemma fhash_set_hash c m r f' :
  node_flag (set_hash_flag c m r) = Some f' ->
  fhash f' = match r with RHash h => Some h | RInline _ => None end.
Proof.
  destruct m as [|k ch f|cs f|h|v]; cbn [set_hash_flag node_flag]; intros E; try discriminate E;
    injection E as <-; reflexivity.
Qed.

Lemma cache_ok_flag b n :
  (forall f h, node_flag n = Some f -> fhash f = Some h ->
     h = H (encode (spec_item n)) /\ (b = true -> 32 <= lenN (encode (spec_item n)))) ->
  cache_ok b n.
Proof.
  destruct n as [|k ch f|cs f|h|v]; intros Hx; try exact I; intros h0 Eh; exact (Hx f h0 eq_refl Eh).
Qed.

(* the node the hasher returns after computing the hash of a node *)
Lemma set_hash_ok c m it force :
  it = spec_item m -> sub_ok m ->
  node_ok (negb force)
    (set_hash_flag c m (if (lenN (encode it) <? 32) && negb force then RInline it else RHash (H (encode it)))).
Proof.
  intros Eit Hs. split; [|rewrite sub_ok_set_hash; exact Hs].
  apply cache_ok_flag. intros f h En Eh. rewrite spec_item_set_hash, <- Eit.
  rewrite (fhash_set_hash _ _ _ _ En) in Eh.
  destruct ((lenN (encode it) <? 32) && negb force) eqn:E; [discriminate Eh|].
  injection Eh as <-. split; [reflexivity|].
  intros Ef. rewrite Ef, andb_true_r in E. apply N.ltb_ge in E. exact E.
Qed.

Definition hash_ok' (n : node) : Prop :=
  canon n = true ->
  forall c force fuel, hdb c = false -> node_ok (negb force) n ->
  (max_key_len (content_of n) < fuel)%nat ->
  exists n', hash_node H c n force =
       Ok (if (lenN (encode (mpt_c H fuel (content_of n))) <? 32) && negb force
           then RInline (mpt_c H fuel (content_of n))
           else RHash (H (encode (mpt_c H fuel (content_of n)))), n', [])
     /\ erase n' = erase n /\ node_ok (negb force) n'.

(* a cached hash is what the hasher would compute *)
Lemma hash_cached_ok n f h c force fuel :
  canon n = true -> node_flag n = Some f -> fhash f = Some h -> hdb c = false ->
  node_ok (negb force) n -> (max_key_len (content_of n) < fuel)%nat ->
  hash_node H c n force =
       Ok (if (lenN (encode (mpt_c H fuel (content_of n))) <? 32) && negb force
           then RInline (mpt_c H fuel (content_of n))
           else RHash (H (encode (mpt_c H fuel (content_of n)))), n, []).
Proof.
  intros Hc En Ef Hdb [Hco _] Hfuel.
  rewrite (hash_node_cached c n force f h En Ef Hdb).
  rewrite (spec_item_fuel n fuel Hc Hfuel).
  assert (Hh : h = H (encode (spec_item n)) /\ (negb force = true -> 32 <= lenN (encode (spec_item n)))).
  { destruct n as [|k ch f'|cs f'|h'|v]; try discriminate En; injection En as ->; exact (Hco h Ef). }
  destruct Hh as [-> Hsz]. destruct force; cbn [negb] in *.
  - rewrite andb_false_r. reflexivity.
  - apply N.ltb_ge in Hsz; [|reflexivity]. rewrite Hsz. reflexivity.
Qed.

Lemma slot_spec' c f i x : hdb c = false -> hash_ok' x -> TrieRootProofs.child_ok i x -> child_ok x ->
  (canon x = true -> (max_key_len (content_of x) < f)%nat) ->
  exists x', hc_slot (fun y => hash_node H c y false) i x = Ok (item_at H f i x, x', [])
             /\ erase x' = erase x /\ child_ok x'.
Proof.
  intros Hdb Hx Hok Hfx Hm. unfold hc_slot, TrieRootProofs.child_ok, item_at in *.
  destruct (Nat.ltb i 16).
  - destruct Hok as [->|Hcx].
    + exists NNil. split; [reflexivity|]. split; [reflexivity|exact child_ok_nil].
    + destruct (Hx Hcx c false f Hdb Hfx (Hm Hcx)) as (x' & E & Ee & Hfx').
      exists x'. split; [|split; [exact Ee|exact Hfx']].
      pose proof (canon_content_ne x Hcx) as Hne.
      assert (Enn : forall (A : Type) (a b : A),
                 match x with NNil => a | _ => b end = b)
        by (intros; destruct x; [discriminate Hcx|reflexivity..]).
      rewrite Enn, E. cbn [bind]. rewrite href_item_if, n_ref_ne by exact Hne. reflexivity.
  - destruct Hok as [->|[v ->]]; eexists; (split; [reflexivity|]); (split; [reflexivity|assumption]).
Qed.

Lemma go_spec' c f : hdb c = false -> forall l i,
  Forall hash_ok' l -> slots_ok i l -> Forall child_ok l ->
  (forall x, In x l -> canon x = true -> (max_key_len (content_of x) < f)%nat) ->
  exists l', hc_go (fun x => hash_node H c x false) i l = Ok (items H f i l, l', [])
             /\ map erase l' = map erase l /\ Forall child_ok l'.
Proof.
  intros Hdb. induction l as [|x t IH]; intros i HF Hs Hn Hm.
  - exists []. split; [reflexivity|]. split; [reflexivity|constructor].
  - rewrite hc_go_cons. inversion HF as [|? ? Hx HF']; subst.
    destruct Hs as [Hxok Hs]. inversion Hn as [|? ? Hnx Hnt]; subst.
    destruct (IH (S i) HF' Hs Hnt (fun y Hy => Hm y (or_intror Hy))) as (t' & Et & Ee & Ht').
    destruct (slot_spec' c f i x Hdb Hx Hxok Hnx (Hm x (or_introl eq_refl))) as (x' & Ex & Eex & Hx').
    rewrite Ex. cbn [bind]. rewrite Et. cbn [bind].
    exists (x' :: t'). split; [reflexivity|]. split; [cbn [map]; now rewrite Eex, Ee|].
    constructor; assumption.
Qed.

Lemma hash_node_flags_aux : forall n, hash_ok' n.
Proof.
  induction n as [|k ch f IH|cs f IH|h|v] using node_ind';
    unfold hash_ok'; intros Hc c force fuel Hdb Hok Hfuel; try discriminate Hc.
  - (* short node *)
    destruct (fhash f) as [h|] eqn:Ef.
    { exists (NShort k ch f). split; [|split; [reflexivity|exact Hok]].
      exact (hash_cached_ok _ f h c force fuel Hc eq_refl Ef Hdb Hok Hfuel). }
    pose proof Hc as Hcn.
    rewrite canon_short in Hc. apply andb_prop in Hc as [Hk Hc].
    assert (Hkne : k <> []) by (destruct k; [discriminate Hk|discriminate]).
    destruct Hok as [_ Hsub]. rewrite sub_ok_short in Hsub.
    pose proof (spec_item_fuel _ fuel Hcn Hfuel) as Espec.
    destruct fuel as [|fu]; [apply Nat.nlt_0_r in Hfuel; destruct Hfuel|].
    rewrite hash_node_walk by exact Ef.
    destruct ch as [| | cs0 f0 | |v]; try discriminate Hc.
    + (* extension *)
      apply andb_prop in Hc as [Hp Hcc].
      pose proof (canon_full_two_heads _ _ Hcc) as T.
      pose proof (canon_content_ne _ Hcc) as Hne.
      change (content_of (NShort k (NFull cs0 f0) f))
        with (map (pre_key k) (content_of (NFull cs0 f0))) in Hfuel |- *.
      assert (Hfu : (max_key_len (content_of (NFull cs0 f0)) < fu)%nat).
      { pose proof (max_key_len_pre k _ Hne Hkne) as Hlt.
        eapply Nat.lt_le_trans; [exact Hlt|]. apply Nat.lt_succ_r. exact Hfuel. }
      destruct (IH Hcc c false fu Hdb Hsub Hfu) as (ch' & E & Ee & Hch').
      rewrite hash_children_short_full, E. cbn [bind]. rewrite store_nodb by exact Hdb.
      change (content_of (NShort k (NFull cs0 f0) f))
        with (map (pre_key k) (content_of (NFull cs0 f0))) in Espec.
      rewrite mpt_c_ext in Espec |- * by assumption.
      rewrite href_item_if, <- n_ref_ne by exact Hne.
      rewrite hex_to_compact_path by exact Hp.
      eexists. split; [reflexivity|].
      assert (Eer : erase (NShort k ch' f) = erase (NShort k (NFull cs0 f0) f))
        by (cbn [erase]; now rewrite Ee).
      split; [rewrite erase_set_hash; exact Eer|].
      apply set_hash_ok; [|exact Hch'].
      rewrite Espec. symmetry. apply spec_item_erase. exact Eer.
    + (* leaf *)
      apply andb_prop in Hc as [Ht Hv].
      rewrite hash_children_short_val. cbn [bind]. rewrite store_nodb by exact Hdb.
      change (content_of (NShort k (NVal v) f)) with [(k ++ [], v)] in Espec |- *.
      rewrite (app_nil_r k) in Espec |- *. rewrite mpt_c_S in Espec |- *.
      rewrite hex_to_compact_tkey by exact Ht.
      eexists. split; [reflexivity|].
      split; [rewrite erase_set_hash; reflexivity|].
      apply set_hash_ok; [exact Espec|exact Hsub].
  - (* full node *)
    destruct (fhash f) as [h|] eqn:Ef.
    { exists (NFull cs f). split; [|split; [reflexivity|exact Hok]].
      exact (hash_cached_ok _ f h c force fuel Hc eq_refl Ef Hdb Hok Hfuel). }
    destruct (canon_full_inv _ _ Hc) as (Hl & Hb & Hv & H16 & Hcnt).
    destruct Hok as [_ Hsub]. apply sub_ok_full in Hsub.
    pose proof (spec_item_fuel _ fuel Hc Hfuel) as Espec.
    destruct fuel as [|fu]; [apply Nat.nlt_0_r in Hfuel; destruct Hfuel|].
    rewrite hash_node_walk by exact Ef.
    pose proof (canon_full_two_heads _ _ Hc) as T.
    change (content_of (NFull cs f)) with (join 0 (map content_of cs)) in Hfuel, T, Espec |- *.
    assert (Hm : forall x, In x cs -> canon x = true -> (max_key_len (content_of x) < fu)%nat).
    { intros x Hin Hcx. pose proof (child_max cs x Hl Hin Hcx) as Hlt.
      eapply Nat.lt_le_trans; [exact Hlt|]. apply Nat.lt_succ_r. exact Hfuel. }
    destruct (go_spec' c fu Hdb cs 0%nat IH (canon_slots_ok _ _ Hc) Hsub Hm) as (cs' & Eg & Ee & Hcs').
    rewrite hash_children_full, Eg. cbn [bind]. rewrite store_nodb by exact Hdb.
    rewrite mpt_c_branch in Espec |- * by exact T.
    rewrite <- (items_full H fu cs _ Hl (fun j Hj => full_sub cs j Hl Hj)) in Espec |- *.
    eexists. split; [reflexivity|].
    assert (Eer : erase (NFull cs' f) = erase (NFull cs f)) by (cbn [erase]; now rewrite Ee).
    split; [rewrite erase_set_hash; exact Eer|].
    apply set_hash_ok; [|apply sub_ok_full; exact Hcs'].
    rewrite Espec. symmetry. apply spec_item_erase. exact Eer.
Qed.

Theorem hash_node_flags : forall n, canon n = true ->
  forall c (force : bool) fuel, hdb c = false -> (if force then root_ok n else child_ok n) ->
  (max_key_len (content_of n) < fuel)%nat ->
  exists n', hash_node H c n force =
       Ok (if (lenN (encode (mpt_c H fuel (content_of n))) <? 32) && negb force
           then RInline (mpt_c H fuel (content_of n))
           else RHash (H (encode (mpt_c H fuel (content_of n)))), n', [])
     /\ erase n' = erase n /\ (if force then root_ok n' else child_ok n').
Proof.
  intros n Hc c force fuel Hdb Hok Hfuel.
  assert (Hok' : node_ok (negb force) n) by (destruct force; exact Hok).
  destruct (hash_node_flags_aux n Hc c force fuel Hdb Hok' Hfuel) as (n' & E & Ee & Hn').
  exists n'. split; [exact E|]. split; [exact Ee|]. destruct force; exact Hn'.
Qed.

Lemma hash_root_nonnil_flags r g l : (forall x, length (H x) = 32%nat) ->
  canon r = true -> root_ok r ->
  exists n',
    bind (hash_node H (mkHctx false g l) r true) (fun '(hr, cached, w) =>
      match hr with RHash h => Ok (to_hash h, cached, w) | RInline _ => Panic end)
    = Ok (mpt_root_hex H (content_of r), n', [])
    /\ erase n' = erase r /\ root_ok n'.
Proof.
  intros Hlen Hc Hn.
  destruct (hash_node_flags r Hc (mkHctx false g l) true (S (max_key_len (content_of r)))
              eq_refl Hn (Nat.lt_succ_diag_r _)) as (n' & E & Ee & Hn').
  exists n'. split; [|split; [exact Ee|exact Hn']]. rewrite E. cbn [negb]. rewrite andb_false_r. cbn [bind].
  rewrite (to_hash_H H Hlen). unfold mpt_root_hex.
  pose proof (canon_content_ne r Hc) as Hne.
  destruct (content_of r); [congruence|reflexivity].
Qed.

Theorem trie_hash_flags : forall t, canon_root (troot t) = true -> root_ok (troot t) ->
  (forall x, length (H x) = 32%nat) ->
  exists t', trie_hash H t = Ok (mpt_root_hex H (content_of (troot t)), t') /\
    erase (troot t') = erase (troot t) /\ root_ok (troot t') /\
    tgen t' = tgen t /\ tlimit t' = tlimit t.
Proof.
  intros t Hc Hn Hlen. unfold trie_hash, hash_root. unfold canon_root in Hc.
  destruct (troot t) as [|k ch f|cs f|h|v] eqn:Er; try discriminate Hc.
  - eexists. split; [reflexivity|]. cbn [troot tgen tlimit]. repeat split.
  - destruct (hash_root_nonnil_flags _ (tgen t) (tlimit t) Hlen Hc Hn) as (n' & E & Ee & Hn').
    rewrite E. cbn [bind]. eexists. split; [reflexivity|]. cbn [troot tgen tlimit]. auto.
  - destruct (hash_root_nonnil_flags _ (tgen t) (tlimit t) Hlen Hc Hn) as (n' & E & Ee & Hn').
    rewrite E. cbn [bind]. eexists. split; [reflexivity|]. cbn [troot tgen tlimit]. auto.
Qed.

(* ------------------------------------------------------------------ (B) insert keeps the invariant *)

Lemma child_ok_empty_children : Forall child_ok empty_children.
Proof.
  apply Forall_forall. intros x Hx. apply repeat_spec in Hx. subst x. exact child_ok_nil.
Qed.

(* copy-on-write: the result is the old node or a node whose flag is fresh and
   whose proper descendants are old children or fresh; needs no canonicity, only
   that no hash node is met *)
Lemma insert_flags_gen : forall fuel d gen n key value dirty n',
  loaded n = true -> sub_ok n -> child_ok value ->
  insert fuel d gen n key value = Ok (dirty, n') -> n' = n \/ child_ok n'.
Proof.
  induction fuel as [|fuel IH]; intros d gen n key value dirty n' Hl Hs Hv E; [discriminate E|].
  rewrite insert_S in E. destruct key as [|k0 krest].
  - right. destruct n; try (injection E as _ <-; exact Hv).
    destruct value; try discriminate E. injection E as _ <-. exact Hv.
  - destruct n as [|nk nv f|cs f|h|v0].
    + injection E as _ <-. right. apply child_ok_short_new. exact Hv.
    + cbv zeta in E. cbn [loaded] in Hl. rewrite sub_ok_short in Hs.
      destruct (Nat.eqb (prefix_len (k0 :: krest) nk) (length nk)).
      * destruct (insert fuel d gen nv (skipn (prefix_len (k0 :: krest) nk) (k0 :: krest)) value)
          as [[dd nn]| | | |] eqn:E1; try discriminate E. cbn [bind] in E.
        destruct dd; injection E as _ <-; [|left; reflexivity].
        right. apply child_ok_short_new.
        destruct (IH _ _ _ _ _ _ _ Hl (proj2 Hs) Hv E1) as [->|Hn]; assumption.
      * destruct (nth_error nk (prefix_len (k0 :: krest) nk)) as [a|]; [|discriminate E].
        destruct (nth_error (k0 :: krest) (prefix_len (k0 :: krest) nk)) as [b|]; [|discriminate E].
        destruct (insert fuel d gen NNil (skipn (S (prefix_len (k0 :: krest) nk)) nk) nv)
          as [[d1 c1]| | | |] eqn:E1; try discriminate E. cbn [bind] in E.
        unfold set_child at 1 in E.
        destruct (Nat.ltb (nidx a) (length empty_children)); [|discriminate E]. cbn [bind] in E.
        destruct (insert fuel d gen NNil (skipn (S (prefix_len (k0 :: krest) nk)) (k0 :: krest)) value)
          as [[d2 c2]| | | |] eqn:E2; try discriminate E. cbn [bind] in E.
        unfold set_child in E.
        destruct (Nat.ltb (nidx b) (length (set_nth empty_children (nidx a) c1))); [|discriminate E].
        cbn [bind] in E.
        assert (H1 : child_ok c1).
        { destruct (IH _ _ _ _ _ _ _ (eq_refl : loaded NNil = true) I Hs E1) as [->|Hn];
            [exact child_ok_nil|exact Hn]. }
        assert (H2 : child_ok c2).
        { destruct (IH _ _ _ _ _ _ _ (eq_refl : loaded NNil = true) I Hv E2) as [->|Hn];
            [exact child_ok_nil|exact Hn]. }
        assert (HB : Forall child_ok (set_nth (set_nth empty_children (nidx a) c1) (nidx b) c2)).
        { apply Forall_set_nth; [apply Forall_set_nth; [exact child_ok_empty_children|exact H1]|exact H2]. }
        right. destruct (Nat.eqb (prefix_len (k0 :: krest) nk) 0); injection E as _ <-.
        -- apply child_ok_full_new. exact HB.
        -- apply child_ok_short_new. apply child_ok_full_new. exact HB.
    + unfold get_child in E. destruct (nth_error cs (nidx k0)) as [c0|] eqn:En; [|discriminate E].
      cbn [bind] in E.
      destruct (insert fuel d gen c0 krest value) as [[dd nn]| | | |] eqn:E1; try discriminate E.
      cbn [bind] in E. destruct dd; [|injection E as _ <-; left; reflexivity].
      unfold set_child in E. destruct (Nat.ltb (nidx k0) (length cs)); [|discriminate E].
      cbn [bind] in E. injection E as _ <-. right.
      apply nth_error_In in En. apply sub_ok_full in Hs.
      cbn [loaded] in Hl. rewrite forallb_forall in Hl.
      pose proof (proj1 (Forall_forall _ _) Hs c0 En) as Hc0.
      apply child_ok_full_new. apply Forall_set_nth; [exact Hs|].
      destruct (IH _ _ _ _ _ _ _ (Hl c0 En) (proj2 Hc0) Hv E1) as [->|Hn]; assumption.
    + discriminate Hl.
    + discriminate E.
Qed.

Theorem insert_flags : forall fuel d gen n key v dirty n',
  canon_root n = true -> tkeyb key = true -> nonempty v = true -> (length key < fuel)%nat ->
  sub_ok n -> insert fuel d gen n key (NVal v) = Ok (dirty, n') ->
  n' = n \/ child_ok n'.
Proof.
  intros fuel d gen n key v dirty n' Hc _ _ _ Hs E.
  exact (insert_flags_gen fuel d gen n key (NVal v) dirty n' (canon_root_loaded n Hc) Hs (child_ok_val v) E).
Qed.

Corollary insert_root_ok : forall fuel d gen n key v dirty n',
  canon_root n = true -> tkeyb key = true -> nonempty v = true -> (length key < fuel)%nat ->
  root_ok n -> insert fuel d gen n key (NVal v) = Ok (dirty, n') -> root_ok n'.
Proof.
  intros fuel d gen n key v dirty n' Hc Hk Hv Hf Hr E.
  destruct (insert_flags fuel d gen n key v dirty n' Hc Hk Hv Hf (proj2 Hr) E) as [->|Hn];
    [exact Hr|apply child_root_ok; exact Hn].
Qed.

(* ------------------------------------------------------------------ (C) delete keeps the invariant *)

Lemma delete_flags_gen : forall fuel d gen n key dirty n',
  loaded n = true -> sub_ok n ->
  delete fuel d gen n key = Ok (dirty, n') -> loaded n' = true /\ (n' = n \/ child_ok n').
Proof.
  induction fuel as [|fuel IH]; intros d gen n key dirty n' Hl Hs E; [discriminate E|].
  rewrite delete_S in E. destruct n as [|nk nv f|cs f|h|v0].
  - injection E as _ <-. split; [reflexivity|left; reflexivity].
  - cbv zeta in E. rewrite sub_ok_short in Hs.
    destruct (Nat.ltb (prefix_len key nk) (length nk)); [injection E as _ <-; split; [exact Hl|left; reflexivity]|].
    destruct (Nat.eqb (prefix_len key nk) (length key));
      [injection E as _ <-; split; [reflexivity|right; exact child_ok_nil]|].
    destruct (delete fuel d gen nv (skipn (length nk) key)) as [[dd child]| | | |] eqn:E1; try discriminate E.
    cbn [bind] in E. cbn [loaded] in Hl.
    destruct (IH _ _ _ _ _ _ Hl (proj2 Hs) E1) as [Hlc Hcc].
    assert (Hcc' : child_ok child) by (destruct Hcc as [->|Hcc]; assumption). clear Hcc.
    destruct dd; cbn [negb] in E; [|injection E as _ <-; split; [exact Hl|left; reflexivity]].
    destruct child as [|ck cv fc|cs' fc|h|v]; injection E as _ <-;
      (split; [exact Hlc|right; apply child_ok_short_new]); try exact Hcc'.
    exact (proj2 Hcc').
  - destruct key as [|k0 krest]; [discriminate E|].
    unfold get_child in E. destruct (nth_error cs (nidx k0)) as [c0|] eqn:En; [|discriminate E].
    cbn [bind] in E.
    destruct (delete fuel d gen c0 krest) as [[dd nn]| | | |] eqn:E1; try discriminate E.
    cbn [bind] in E. destruct dd; cbn [negb] in E; [|injection E as _ <-; split; [exact Hl|left; reflexivity]].
    unfold set_child in E. destruct (Nat.ltb (nidx k0) (length cs)); [|discriminate E].
    cbn [bind] in E.
    apply nth_error_In in En. apply sub_ok_full in Hs.
    cbn [loaded] in Hl. pose proof (proj1 (forallb_forall _ _) Hl c0 En) as Hlc0.
    pose proof (proj1 (Forall_forall _ _) Hs c0 En) as Hc0.
    destruct (IH _ _ _ _ _ _ Hlc0 (proj2 Hc0) E1) as [Hlnn Hnn].
    assert (Hnn' : child_ok nn) by (destruct Hnn as [->|Hnn]; assumption). clear Hnn.
    assert (HF : Forall child_ok (set_nth cs (nidx k0) nn)) by (apply Forall_set_nth; assumption).
    assert (HL : forallb loaded (set_nth cs (nidx k0) nn) = true)
      by (apply TrieDeleteProofs.forallb_set_nth; assumption).
    destruct (single_child (set_nth cs (nidx k0) nn) 0) as [[pos|]|];
      [|injection E as _ <-; split; [exact HL|right; apply child_ok_full_new; exact HF]..].
    cbv zeta in E.
    pose proof (Forall_nth_d _ _ NNil HF child_ok_nil pos) as Hcld.
    pose proof (forallb_nth_d _ _ NNil HL eq_refl pos) as Hlcld.
    remember (nth pos (set_nth cs (nidx k0) nn) NNil) as cld eqn:Ecld. clear Ecld.
    destruct (negb (Nat.eqb pos 16)).
    + destruct cld as [|ck cv fc|cs' fc|h|v]; try discriminate Hlcld; cbn [resolve bind] in E;
        injection E as _ <-; (split; [exact Hlcld|right; apply child_ok_short_new]); try exact Hcld.
      exact (proj2 Hcld).
    + injection E as _ <-. split; [exact Hlcld|right; apply child_ok_short_new; exact Hcld].
  - discriminate Hl.
  - injection E as _ <-. split; [reflexivity|right; exact child_ok_nil].
Qed.

Theorem delete_flags : forall fuel d gen n key dirty n',
  canon_root n = true -> tkeyb key = true -> sub_ok n ->
  delete fuel d gen n key = Ok (dirty, n') ->
  n' = n \/ n' = NNil \/ child_ok n'.
Proof.
  intros fuel d gen n key dirty n' Hc _ Hs E.
  destruct (delete_flags_gen fuel d gen n key dirty n' (canon_root_loaded n Hc) Hs E) as [_ [->|Hn]]; auto.
Qed.

Corollary delete_root_ok : forall fuel d gen n key dirty n',
  canon_root n = true -> tkeyb key = true -> root_ok n ->
  delete fuel d gen n key = Ok (dirty, n') -> root_ok n'.
Proof.
  intros fuel d gen n key dirty n' Hc Hk Hr E.
  destruct (delete_flags fuel d gen n key dirty n' Hc Hk (proj2 Hr) E) as [->|[->|Hn]];
    [exact Hr|apply child_root_ok; exact child_ok_nil|apply child_root_ok; exact Hn].
Qed.

End Flags.

(* ------------------------------------------------------------------ trie level *)

Lemma hex_nibbles k : keybytes_to_hex k = key_nibbles k.
Proof. induction k as [|b t IH]; [reflexivity|]. cbn [keybytes_to_hex key_nibbles]. now rewrite IH. Qed.
Lemma tkeyb_hex_key k : tkeyb (keybytes_to_hex k) = true.
Proof. rewrite hex_nibbles. apply MptSpecProofs.tkeyb_key_nibbles. Qed.
Lemma hex_key_eqb k k' : bytes_eqb (keybytes_to_hex k) (keybytes_to_hex k') = bytes_eqb k k'.
Proof.
  destruct (bytes_eqb_spec k k') as [->|Hn]; [apply bytes_eqb_refl|].
  apply TrieProofs.bytes_eqb_neq. intros E. apply Hn. rewrite !hex_nibbles in E.
  now apply MptSpecProofs.key_nibbles_inj.
Qed.
Lemma key_fuel_lt k : (length k < key_fuel k)%nat.
Proof. unfold key_fuel. lia. Qed.

Section Warm.
Variable H : bytes -> bytes.

(* a canonical, fully loaded trie whose cached hashes are all valid: what update /
   delete / get / Hash produce from the empty trie *)
Definition warm_trie (t : trie) : Prop := canon_root (troot t) = true /\ root_ok H (troot t).
(* the finite map it represents, over byte keys *)
Definition wmap (t : trie) (k : bytes) : option bytes := lookup (content_of (troot t)) (keybytes_to_hex k).

Lemma warm_empty : warm_trie empty_trie.
Proof. split; [reflexivity|split; exact I]. Qed.

(* tries without cached hashes (the fresh tries of TrieTheorems) are warm *)
Lemma fresh_warm t : canon_root (troot t) = true -> nohash (troot t) = true -> warm_trie t.
Proof. intros Hc Hn. split; [exact Hc|exact (nohash_ok H _ Hn false)]. Qed.

Theorem trie_get_warm : forall t d k, warm_trie t -> trie_get t d k = Ok (wmap t k, t).
Proof.
  intros t d k [Hc _]. unfold trie_get.
  rewrite try_get_lookup by (auto using tkeyb_hex_key, key_fuel_lt). reflexivity.
Qed.

Theorem trie_update_warm : forall t d k v, warm_trie t -> v <> [] ->
  exists t', trie_update t d k v = Ok t' /\ warm_trie t' /\ tgen t' = tgen t /\ tlimit t' = tlimit t /\
    forall k', wmap t' k' = if bytes_eqb k k' then Some v else wmap t k'.
Proof.
  intros t d k v [Hc Hr] Hv. unfold trie_update. destruct v as [|v0 v]; [contradiction|].
  destruct (insert_canon (key_fuel (keybytes_to_hex k)) d (tgen t) (troot t) (keybytes_to_hex k) (v0 :: v)
              Hc (tkeyb_hex_key k) eq_refl (key_fuel_lt _)) as (dirty & n' & E & Hc' & _ & _ & Hlk & _).
  rewrite E. cbn [bind]. eexists. split; [reflexivity|]. split.
  - split; cbn [troot]; [unfold canon_root; now rewrite Hc', orb_true_r|].
    exact (insert_root_ok H _ d (tgen t) (troot t) (keybytes_to_hex k) (v0 :: v) dirty n' Hc (tkeyb_hex_key k) eq_refl (key_fuel_lt _) Hr E).
  - split; [reflexivity|]. split; [reflexivity|].
    intros k'. unfold wmap. cbn [troot]. now rewrite Hlk, hex_key_eqb.
Qed.

Theorem trie_delete_warm : forall t d k, warm_trie t ->
  exists t', trie_delete t d k = Ok t' /\ warm_trie t' /\ tgen t' = tgen t /\ tlimit t' = tlimit t /\
    forall k', wmap t' k' = if bytes_eqb k k' then None else wmap t k'.
Proof.
  intros t d k [Hc Hr]. unfold trie_delete.
  destruct (delete_spec (key_fuel (keybytes_to_hex k)) d (tgen t) (troot t) (keybytes_to_hex k)
              Hc (tkeyb_hex_key k) (key_fuel_lt _)) as (dirty & n' & E & Hc' & Hlk & _).
  rewrite E. cbn [bind]. eexists. split; [reflexivity|]. split.
  - split; cbn [troot]; [exact Hc'|].
    exact (delete_root_ok H _ _ _ _ _ _ _ Hc (tkeyb_hex_key k) Hr E).
  - split; [reflexivity|]. split; [reflexivity|].
    intros k'. unfold wmap. cbn [troot]. now rewrite Hlk, hex_key_eqb by apply tkeyb_hex_key.
Qed.

Hypothesis Hlen : forall x, length (H x) = 32%nat.

(* Trie.Hash of a warm trie is the specification root of its content; the trie it
   leaves behind (with the new cached hashes) is warm and has the same content *)
Theorem trie_hash_warm : forall t, warm_trie t ->
  exists t', trie_hash H t = Ok (mpt_root_hex H (content_of (troot t)), t') /\ warm_trie t' /\
    erase (troot t') = erase (troot t) /\ content_of (troot t') = content_of (troot t) /\
    tgen t' = tgen t /\ tlimit t' = tlimit t.
Proof.
  intros t [Hc Hr].
  destruct (trie_hash_flags H t Hc Hr Hlen) as (t' & E & Ee & Hr' & Hg & Hl).
  exists t'. split; [exact E|]. split; [split; [rewrite (erase_canon_root _ _ Ee); exact Hc|exact Hr']|].
  split; [exact Ee|]. split; [exact (erase_content _ _ Ee)|]. split; assumption.
Qed.

(* the root is a function of the finite map alone, also with cached hashes *)
Theorem root_content_only_warm : forall t1 t2, warm_trie t1 -> warm_trie t2 ->
  (forall k, lookup (content_of (troot t1)) k = lookup (content_of (troot t2)) k) ->
  exists r t1' t2', trie_hash H t1 = Ok (r, t1') /\ trie_hash H t2 = Ok (r, t2') /\
                    r = mpt_root_hex H (content_of (troot t1)).
Proof.
  intros t1 t2 H1 H2 Hm.
  destruct (trie_hash_warm t1 H1) as (t1' & E1 & _). destruct (trie_hash_warm t2 H2) as (t2' & E2 & _).
  exists (mpt_root_hex H (content_of (troot t1))), t1', t2'. split; [exact E1|]. split; [|reflexivity].
  rewrite E2. f_equal. f_equal. symmetry.
  apply MptSpecProofs.mpt_root_hex_ext; auto; apply TrieContentProofs.canon_root_wf_content; [apply H1|apply H2].
Qed.

(* ------------------------------------------------------------------ histories with intermediate Hash() calls *)

(* the operations that do not involve the database: Update / Delete / Get / Hash *)
Definition plain_op (o : op) : bool :=
  match o with OpUpdate _ _ | OpDelete _ | OpGet _ | OpHash => true | _ => false end.
(* the finite map after an operation (an empty value deletes, as in Trie.Update) *)
Definition op_map (m : bytes -> option bytes) (o : op) : bytes -> option bytes :=
  match o with
  | OpUpdate k v => fun k' => if bytes_eqb k k' then (match v with [] => None | _ => Some v end) else m k'
  | OpDelete k => fun k' => if bytes_eqb k k' then None else m k'
  | _ => m
  end.
(* what the operation must report on trie t *)
Definition op_obs (t : trie) (o : op) : obs :=
  match o with
  | OpGet k => OVal (wmap t k)
  | OpHash => ORoot (mpt_root_hex H (content_of (troot t)))
  | _ => ODone
  end.

Lemma op_map_ext m1 m2 o : (forall k, m1 k = m2 k) -> forall k, op_map m1 o k = op_map m2 o k.
Proof. intros E k. destruct o; cbn [op_map]; auto; destruct (bytes_eqb _ k); auto. Qed.

Theorem step_warm : forall s o, warm_trie (strie s) -> plain_op o = true ->
  exists s', step H s o = (s', op_obs (strie s) o) /\ warm_trie (strie s') /\ sdb s' = sdb s /\
             forall k, wmap (strie s') k = op_map (wmap (strie s)) o k.
Proof.
  intros s o Hw Hp. destruct o as [k v|k|k| | | | | |]; try discriminate Hp; unfold step; cbv zeta.
  - destruct v as [|v0 v].
    + change (trie_update (strie s) (sdb s) k []) with (trie_delete (strie s) (sdb s) k).
      destruct (trie_delete_warm (strie s) (sdb s) k Hw) as (t' & E & Hw' & _ & _ & Hm).
      rewrite E. eexists. split; [reflexivity|]. cbn [strie sdb op_map]. auto.
    + destruct (trie_update_warm (strie s) (sdb s) k (v0 :: v) Hw ltac:(discriminate))
        as (t' & E & Hw' & _ & _ & Hm).
      rewrite E. eexists. split; [reflexivity|]. cbn [strie sdb op_map]. auto.
  - destruct (trie_delete_warm (strie s) (sdb s) k Hw) as (t' & E & Hw' & _ & _ & Hm).
    rewrite E. eexists. split; [reflexivity|]. cbn [strie sdb op_map]. auto.
  - rewrite (trie_get_warm (strie s) (sdb s) k Hw).
    eexists. split; [reflexivity|]. cbn [strie sdb op_map]. auto.
  - destruct (trie_hash_warm (strie s) Hw) as (t' & E & Hw' & _ & Ec & _).
    rewrite E. eexists. split; [reflexivity|]. cbn [strie sdb op_map]. split; [exact Hw'|].
    split; [reflexivity|]. intros k. unfold wmap. now rewrite Ec.
Qed.

(* every observation of a plain history is the one the specification prescribes
   for a warm trie that represents the finite map denoted by the history so far;
   in particular every intermediate Hash() reports the specification root *)
Fixpoint trace_ok (m : bytes -> option bytes) (ops : list op) (obl : list obs) : Prop :=
  match ops, obl with
  | [], [] => True
  | o :: r, ob :: obr =>
    (exists t, warm_trie t /\ (forall k, wmap t k = m k) /\ ob = op_obs t o) /\ trace_ok (op_map m o) r obr
  | _, _ => False
  end.

Theorem run_plain_warm : forall ops s m, warm_trie (strie s) -> (forall k, wmap (strie s) k = m k) ->
  forallb plain_op ops = true ->
  exists s' obl, run_ops H s ops = (s', obl) /\ warm_trie (strie s') /\ sdb s' = sdb s /\
    (forall k, wmap (strie s') k = fold_left op_map ops m k) /\ trace_ok m ops obl.
Proof.
  induction ops as [|o r IH]; intros s m Hw Hm Hp.
  - exists s, []. cbn [run_ops fold_left trace_ok]. auto.
  - cbn [forallb] in Hp. apply andb_prop in Hp as [Hpo Hpr].
    destruct (step_warm s o Hw Hpo) as (s1 & E1 & Hw1 & Hd1 & Hm1).
    assert (Hm1' : forall k, wmap (strie s1) k = op_map m o k)
      by (intros k; rewrite Hm1; apply op_map_ext; exact Hm).
    destruct (IH s1 (op_map m o) Hw1 Hm1' Hpr) as (s2 & obr & E2 & Hw2 & Hd2 & Hm2 & Ht).
    exists s2, (op_obs (strie s) o :: obr). cbn [run_ops]. rewrite E1, E2.
    split; [reflexivity|]. split; [exact Hw2|]. split; [now rewrite Hd2|].
    split; [exact Hm2|]. cbn [trace_ok fold_left]. split; [|exact Ht].
    exists (strie s). auto.
Qed.

(* two plain histories from the empty trie (with any Hash() calls in between)
   that end with the same content end with the same root: the specification's *)
Theorem plain_history_root_content_only : forall ops1 ops2 s1 s2 ob1 ob2,
  forallb plain_op ops1 = true -> forallb plain_op ops2 = true ->
  run_ops H init_state ops1 = (s1, ob1) -> run_ops H init_state ops2 = (s2, ob2) ->
  (forall k, lookup (content_of (troot (strie s1))) k = lookup (content_of (troot (strie s2))) k) ->
  exists r t1' t2', trie_hash H (strie s1) = Ok (r, t1') /\ trie_hash H (strie s2) = Ok (r, t2') /\
                    r = mpt_root_hex H (content_of (troot (strie s1))).
Proof.
  intros ops1 ops2 s1 s2 ob1 ob2 P1 P2 E1 E2 Hm.
  destruct (run_plain_warm ops1 init_state (wmap empty_trie) warm_empty (fun _ => eq_refl) P1)
    as (s1x & o1x & E1x & W1 & _). rewrite E1 in E1x. injection E1x as <- _.
  destruct (run_plain_warm ops2 init_state (wmap empty_trie) warm_empty (fun _ => eq_refl) P2)
    as (s2x & o2x & E2x & W2 & _). rewrite E2 in E2x. injection E2x as <- _.
  now apply root_content_only_warm.
Qed.

End Warm.
