(* Trie/RootInjProofs.v — the Merkle root commits to the content:
   (A) two canonical tries with the same specification root answer every byte
       key alike (and, with byte keys only, hold the same content), under
       collision freedom of H on the encodings of canonical nodes.  No new
       induction over the trie: Prove on the second trie emits a proof that
       VerifyProof accepts against the common root (prove_verify), and
       VerifyProof against the first trie's root only ever returns the first
       trie's answer (verify_sound_closed).
   (B) core/types/derive_sha.go DeriveSha (Import/DeriveShaCode.v): it computes
       the specification root of {rlp(i) -> item_i}, and it is injective on
       lists of non-empty items. *)
From Coq Require Import ZifyBool ZifyN ZifyNat Permutation.
From AQ Require Import Lib.Bytes Rlp.RlpSpec Rlp.RlpProofs Trie.MptSpec Trie.TrieModel Trie.TrieInv
  Trie.MptSpecProofs Trie.TrieContentProofs Trie.TrieCodecDefs Trie.TrieTheorems Import.DeriveShaCode.
From AQ Require Trie.TrieProofs Trie.TrieFlagsProofs Trie.TrieFitsProofs Trie.TrieVerifyProofs Trie.TrieProveProofs.
Local Open Scope N_scope.

(* ------------------------------------------------------------------ erased nodes *)

Lemma nohash_erase n : nohash (erase n) = true.
Proof.
  induction n as [|k c f IH|cs f IH|h|v] using node_ind'; try reflexivity.
  - cbn [erase nohash]. rewrite IH. reflexivity.
  - cbn [erase nohash]. change (fnohash flag0) with true. cbn [andb].
    apply forallb_forall. intros x Hx. apply in_map_iff in Hx as (y & <- & Hy).
    rewrite Forall_forall in IH. exact (IH y Hy).
Qed.

Lemma spec_item_erase_eq H n : spec_item H (erase n) = spec_item H n.
Proof. unfold spec_item. now rewrite TrieFlagsProofs.content_of_erase. Qed.

Lemma all_fits_erase H n : all_fits H n -> all_fits H (erase n).
Proof.
  induction n as [|k c f IH|cs f IH|h|v] using node_ind'; intros Hf; try exact Hf.
  - destruct Hf as [A B]. cbn [erase]. split.
    + change (NShort k (erase c) flag0) with (erase (NShort k c f)).
      rewrite spec_item_erase_eq. exact A.
    + exact (IH B).
  - apply TrieVerifyProofs.all_fits_full in Hf as [A B]. cbn [erase].
    apply TrieFitsProofs.all_fits_full_of.
    + change (NFull (map erase cs) flag0) with (erase (NFull cs f)).
      rewrite spec_item_erase_eq. exact A.
    + intros x Hx. apply in_map_iff in Hx as (y & <- & Hy).
      rewrite Forall_forall in IH, B. exact (IH y Hy (B y Hy)).
Qed.

(* ------------------------------------------------------------------ listings as maps *)

Lemma nth_error_ext_eq {A} : forall (l1 l2 : list A),
  (forall j, nth_error l1 j = nth_error l2 j) -> l1 = l2.
Proof.
  induction l1 as [|a l1 IH]; intros [|b l2] E.
  - reflexivity.
  - specialize (E O). discriminate E.
  - specialize (E O). discriminate E.
  - pose proof (E O) as E0. cbn [nth_error] in E0. injection E0 as ->.
    f_equal. apply IH. intros j. exact (E (S j)).
Qed.

Lemma lookup_notin : forall (c : content) k, ~ In k (map fst c) -> lookup c k = None.
Proof.
  induction c as [|[k0 v0] c IH]; intros k Hn; cbn [lookup fst snd]; [reflexivity|].
  destruct (bytes_eqb_spec k0 k) as [->|_]; [exfalso; apply Hn; now left|].
  apply IH. intros Hin. apply Hn. now right.
Qed.

(* replaying a listing with distinct keys and non-empty values as updates gives its lookup *)
Lemma map_ops_listing : forall (c : content) m k,
  NoDup (map fst c) -> Forall (fun kv => snd kv <> []) c ->
  map_ops m c k = match lookup c k with Some v => Some v | None => m k end.
Proof.
  induction c as [|[k0 v0] c IH]; intros m k Hnd Hv; cbn [map_ops lookup fst snd]; [reflexivity|].
  inversion Hnd as [|? ? Hni Hnd']; subst. inversion Hv as [|? ? Hv0 Hv']; subst. cbn [snd] in Hv0.
  rewrite (IH _ k Hnd' Hv').
  destruct (bytes_eqb_spec k0 k) as [->|Hne].
  - rewrite (lookup_notin c k Hni). destruct (bytes_eqb_spec k k); [|congruence].
    destruct v0; [contradiction|reflexivity].
  - destruct (lookup c k); [reflexivity|].
    destruct (bytes_eqb_spec k0 k); [congruence|reflexivity].
Qed.

Lemma lookup_hexed : forall (c : content) kb, lookup (hexed c) (key_nibbles kb) = lookup c kb.
Proof.
  induction c as [|[k0 v0] c IH]; intros kb; cbn [hexed map lookup fst snd]; [reflexivity|].
  fold (hexed c). rewrite IH.
  destruct (bytes_eqb_spec k0 kb) as [->|Hne].
  - destruct (bytes_eqb_spec (key_nibbles kb) (key_nibbles kb)); congruence.
  - destruct (bytes_eqb_spec (key_nibbles k0) (key_nibbles kb)) as [E|_]; [|reflexivity].
    apply key_nibbles_inj in E. congruence.
Qed.

Lemma lookup_hexed_some : forall (c : content) k v,
  lookup (hexed c) k = Some v -> exists kb, k = key_nibbles kb.
Proof.
  intros c k v E. apply lookup_some_in in E. unfold hexed in E. apply in_map_iff in E.
  destruct E as ([kb v'] & E & _). cbn [fst snd] in E. injection E as <- _. eauto.
Qed.

(* two listings with distinct keys and the same lookups hold the same pairs *)
Lemma perm_of_lookup (J J' : content) :
  NoDup (map fst J) -> NoDup (map fst J') -> (forall k, lookup J k = lookup J' k) ->
  Permutation J J'.
Proof.
  intros Hnd Hnd' Hl. apply NoDup_Permutation.
  - now apply NoDup_map_inv in Hnd.
  - now apply NoDup_map_inv in Hnd'.
  - intros [k v]. rewrite (lookup_in (fun x => x) J k v Hnd), (lookup_in (fun x => x) J' k v Hnd'). now rewrite Hl.
Qed.

(* the trie a listing builds from the empty trie *)
Lemma listing_trie : forall (c : content) d,
  NoDup (map fst c) -> Forall (fun kv => snd kv <> []) c ->
  exists t, apply_ops empty_trie d c = Ok t /\ fresh_trie t /\
    (forall kb, tmap t kb = lookup c kb) /\
    (forall k, lookup (tcontent t) k = lookup (hexed c) k) /\
    Permutation (tcontent t) (hexed c).
Proof.
  intros c d Hnd Hv.
  destruct (history_spec c d) as (t & E & Hf & Hm).
  exists t. split; [exact E|]. split; [exact Hf|].
  assert (Hb : forall kb, tmap t kb = lookup c kb).
  { intros kb. rewrite Hm, (map_ops_listing c _ kb Hnd Hv). now destruct (lookup c kb). }
  split; [exact Hb|].
  pose proof (apply_ops_hexmap _ _ _ _ fresh_empty hexmap_empty E) as Hx.
  assert (Hk : forall k, lookup (tcontent t) k = lookup (hexed c) k).
  { intros k. destruct (lookup (tcontent t) k) as [v|] eqn:E1.
    - destruct (Hx _ _ E1) as (kb & ->). rewrite keybytes_to_hex_nibbles in *.
      rewrite lookup_hexed, <- (Hb kb). unfold tmap. rewrite keybytes_to_hex_nibbles. now rewrite E1.
    - destruct (lookup (hexed c) k) as [v|] eqn:E2; [|reflexivity].
      destruct (lookup_hexed_some _ _ _ E2) as (kb & ->).
      rewrite lookup_hexed in E2. rewrite <- (Hb kb) in E2. unfold tmap in E2.
      rewrite keybytes_to_hex_nibbles in E2. congruence. }
  split; [exact Hk|].
  apply perm_of_lookup; [|apply (wf_hexed c Hnd)|exact Hk].
  apply (canon_root_wf_content _ (proj1 Hf)).
Qed.

(* ------------------------------------------------------------------ the DeriveSha listing *)

Fixpoint indexed (i : N) (l : list bytes) : content :=
  match l with
  | [] => []
  | x :: t => (encode_uint i, x) :: indexed (i + 1) t
  end.

Lemma encode_uint_inj a b : a < two64 -> b < two64 -> encode_uint a = encode_uint b -> a = b.
Proof.
  intros Ha Hb E. pose proof (uint_roundtrip a Ha) as Ra. pose proof (uint_roundtrip b Hb) as Rb.
  rewrite E in Ra. rewrite Ra in Rb. now injection Rb.
Qed.

Lemma indexed_keys : forall l i k, In k (map fst (indexed i l)) ->
  exists m, i <= m /\ m < i + lenN l /\ k = encode_uint m.
Proof.
  induction l as [|x l IH]; intros i k; cbn [indexed map fst]; [contradiction|].
  intros [<-|Hin].
  - exists i. unfold lenN. cbn [length]. repeat split; lia.
  - destruct (IH _ _ Hin) as (m & H1 & H2 & ->). exists m. unfold lenN in *. cbn [length].
    repeat split; lia.
Qed.

Lemma indexed_nodup : forall l i, i + lenN l <= two64 -> NoDup (map fst (indexed i l)).
Proof.
  induction l as [|x l IH]; intros i Hb; cbn [indexed map fst]; [constructor|].
  assert (Hl : lenN (x :: l) = 1 + lenN l) by (unfold lenN; cbn [length]; lia).
  constructor.
  - intros Hin. destruct (indexed_keys _ _ _ Hin) as (m & H1 & H2 & E).
    apply encode_uint_inj in E; lia.
  - apply IH. lia.
Qed.

Lemma indexed_values : forall l i kv, In kv (indexed i l) -> In (snd kv) l.
Proof.
  induction l as [|x l IH]; intros i kv; cbn [indexed]; [contradiction|].
  intros [<-|Hin]; [now left|right; eauto].
Qed.

Lemma indexed_values_ne l i : Forall (fun x => x <> []) l -> Forall (fun kv => snd kv <> []) (indexed i l).
Proof.
  intros Hv. rewrite Forall_forall in *. intros kv Hin. apply Hv. eapply indexed_values; eauto.
Qed.

(* the listing read at rlp(i + j) is item j *)
Lemma lookup_indexed_lt : forall l i j, i + lenN l <= two64 -> (j < length l)%nat ->
  lookup (indexed i l) (encode_uint (i + N.of_nat j)) = nth_error l j.
Proof.
  induction l as [|x l IH]; intros i j Hb Hj; [cbn [length] in Hj; lia|].
  assert (Hl : lenN (x :: l) = 1 + lenN l) by (unfold lenN; cbn [length]; lia).
  cbn [indexed lookup fst snd]. destruct j as [|j].
  - rewrite N.add_0_r, bytes_eqb_refl. reflexivity.
  - cbn [length] in Hj.
    destruct (bytes_eqb_spec (encode_uint i) (encode_uint (i + N.of_nat (S j)))) as [E|_].
    + apply encode_uint_inj in E; unfold lenN in *; lia.
    + cbn [nth_error]. replace (i + N.of_nat (S j)) with (i + 1 + N.of_nat j) by lia.
      apply IH; lia.
Qed.
Lemma lookup_indexed_ge l i n : i + lenN l <= n -> n < two64 ->
  lookup (indexed i l) (encode_uint n) = None.
Proof.
  intros Hn H64. apply lookup_notin. intros Hin.
  destruct (indexed_keys _ _ _ Hin) as (m & H1 & H2 & E).
  apply encode_uint_inj in E; lia.
Qed.

Lemma indexed_not_shorter a b : lenN a <= two64 -> lenN b <= two64 ->
  (forall kb, lookup (indexed 0 a) kb = lookup (indexed 0 b) kb) -> ~ (length a < length b)%nat.
Proof.
  intros Ha Hb E Hlt. specialize (E (encode_uint (N.of_nat (length a)))).
  rewrite (lookup_indexed_ge a 0) in E by (unfold lenN in *; lia).
  pose proof (lookup_indexed_lt b 0 (length a) ltac:(lia) Hlt) as L.
  rewrite N.add_0_l in L. rewrite L in E. symmetry in E. apply nth_error_None in E. lia.
Qed.

Lemma indexed_lookup_inj l1 l2 : lenN l1 <= two64 -> lenN l2 <= two64 ->
  (forall kb, lookup (indexed 0 l1) kb = lookup (indexed 0 l2) kb) -> l1 = l2.
Proof.
  intros H1 H2 E.
  pose proof (indexed_not_shorter l1 l2 H1 H2 E) as N1.
  pose proof (indexed_not_shorter l2 l1 H2 H1 (fun kb => eq_sym (E kb))) as N2.
  assert (El : length l1 = length l2) by lia.
  apply nth_error_ext_eq. intros j.
  destruct (Nat.lt_ge_cases j (length l1)) as [Hj|Hj].
  - rewrite <- (lookup_indexed_lt l1 0 j ltac:(lia) Hj).
    rewrite <- (lookup_indexed_lt l2 0 j ltac:(lia) ltac:(lia)). apply E.
  - rewrite (proj2 (nth_error_None l1 j) Hj). symmetry. apply nth_error_None. lia.
Qed.

Lemma ds_insert_apply_ops : forall l t d i, ds_insert t d i l = apply_ops t d (indexed i l).
Proof.
  induction l as [|x l IH]; intros t d i; cbn [ds_insert indexed apply_ops]; [reflexivity|].
  destruct (trie_update t d (encode_uint i) x); cbn [bind]; auto.
Qed.

(* ------------------------------------------------------------------ (A) the root commits to the content *)

Section RootInj.
Variable H : bytes -> bytes.
Hypothesis Hlen : forall x, length (H x) = 32%nat.
Hypothesis Hcf : forall m1 m2, canon m1 = true -> canon m2 = true ->
  H (spec_enc H m1) = H (spec_enc H m2) -> spec_enc H m1 = spec_enc H m2.

(* a proof database as Prove builds it is a database keyed by H *)
Lemma good_db_proof_db p : TrieProveProofs.good_db H p -> p = proof_db_of H (map snd p).
Proof using.
  unfold proof_db_of. induction p as [|[h e] t IH]; intros G; [reflexivity|].
  cbn [map snd]. destruct (G h e (or_introl eq_refl)) as (x & _ & Eh & Ee).
  rewrite Eh at 1. rewrite <- Ee. f_equal. apply IH. intros h' e' Hin. apply (G h' e'). now right.
Qed.

Theorem root_injective : forall m1 m2,
  canon m1 = true -> canon m2 = true -> all_fits H m1 -> all_fits H m2 ->
  mpt_root_hex H (content_of m1) = mpt_root_hex H (content_of m2) ->
  forall kb, lookup (content_of m1) (keybytes_to_hex kb) = lookup (content_of m2) (keybytes_to_hex kb).
Proof using Hlen Hcf.
  intros m1 m2 Hc1 Hc2 Hf1 Hf2 Er kb.
  assert (Hc2' : canon (troot (mkTrie (erase m2) 0 0)) = true)
    by (cbn [troot]; rewrite TrieFlagsProofs.canon_erase; exact Hc2).
  assert (Hn2 : nohash (troot (mkTrie (erase m2) 0 0)) = true) by apply nohash_erase.
  assert (Hf2' : all_fits H (troot (mkTrie (erase m2) 0 0))) by (apply all_fits_erase; exact Hf2).
  destruct (TrieProveProofs.prove_elems_spec H (mkTrie (erase m2) 0 0) [] kb Hc2' Hn2)
    as (rest & Hkp & HF & Ep).
  pose proof (TrieProveProofs.prove_verify H Hlen Hcf _ [] kb _ Hc2' Hn2 Hf2' Ep) as V.
  cbn [troot] in V, HF, Hc2'. rewrite TrieFlagsProofs.content_of_erase in V. rewrite <- Er in V.
  assert (G : TrieProveProofs.good_db H (TrieProveProofs.pelems H true (erase m2 :: rest))).
  { apply (TrieProveProofs.pelems_good H Hcf). constructor; [exact Hc2'|].
    apply Forall_forall. intros x Hx. rewrite Forall_forall in HF. exact (proj1 (HF x Hx)). }
  rewrite (good_db_proof_db _ G) in V.
  symmetry. apply (TrieVerifyProofs.verify_sound_closed H Hlen m1 Hc1 Hf1 _) with (2 := V).
  intros buf m Hin Hcm Eh. apply in_map_iff in Hin as ([h e] & Es & Hin). cbn [snd] in Es. subst e.
  destruct (G h buf Hin) as (x & Hcx & _ & Ee). subst buf. apply Hcf; assumption.
Qed.

(* with byte keys only (what TryUpdate inserts): the same content *)
Definition hex_keys (m : node) : Prop :=
  forall k v, lookup (content_of m) k = Some v -> exists kb, k = keybytes_to_hex kb.

Corollary root_injective_content : forall m1 m2,
  canon m1 = true -> canon m2 = true -> all_fits H m1 -> all_fits H m2 ->
  hex_keys m1 -> hex_keys m2 ->
  mpt_root_hex H (content_of m1) = mpt_root_hex H (content_of m2) ->
  (forall k, lookup (content_of m1) k = lookup (content_of m2) k) /\
  Permutation (content_of m1) (content_of m2).
Proof using Hlen Hcf.
  intros m1 m2 Hc1 Hc2 Hf1 Hf2 Hx1 Hx2 Er.
  assert (Hk : forall k, lookup (content_of m1) k = lookup (content_of m2) k).
  { apply (tmap_ext_lookup (mkTrie m1 0 0) (mkTrie m2 0 0) Hx1 Hx2).
    exact (root_injective m1 m2 Hc1 Hc2 Hf1 Hf2 Er). }
  split; [exact Hk|].
  apply perm_of_lookup; [apply (canon_wf_content _ Hc1)|apply (canon_wf_content _ Hc2)|exact Hk].
Qed.

(* ------------------------------------------------------------------ (B) DeriveSha *)

(* B1: the code computes the specification root of {rlp(i) -> item_i} *)
Theorem derive_sha_code_spec : forall (items : list bytes) d,
  lenN items <= two64 -> Forall (fun x => x <> []) items ->
  derive_sha_code H d items = Ok (mpt_root H (indexed 0 items)).
Proof using Hlen.
  intros items d Hb Hv. unfold derive_sha_code. rewrite ds_insert_apply_ops.
  destruct (listing_trie (indexed 0 items) d (indexed_nodup items 0 Hb) (indexed_values_ne items 0 Hv))
    as (t & E & Hf & _ & _ & HP).
  rewrite E. cbn [bind].
  destruct (trie_hash_spec H Hlen t Hf) as (t' & Eh & _). rewrite Eh. cbn [bind].
  f_equal. unfold mpt_root. apply mpt_root_hex_perm; [|exact HP].
  apply (canon_root_wf_content _ (proj1 Hf)).
Qed.

(* the trie behind a DeriveSha result *)
Lemma derive_sha_trie : forall (items : list bytes) d r,
  items <> [] -> lenN items <= two64 -> Forall (fun x => x <> []) items ->
  TrieFitsProofs.byte_content_size (indexed 0 items) < 2 ^ 32 ->
  derive_sha_code H d items = Ok r ->
  exists m, canon m = true /\ all_fits H m /\ r = mpt_root_hex H (content_of m) /\
    forall kb, lookup (content_of m) (keybytes_to_hex kb) = lookup (indexed 0 items) kb.
Proof using Hlen.
  intros items d r Hne Hb Hv Hsz. unfold derive_sha_code. rewrite ds_insert_apply_ops.
  destruct (listing_trie (indexed 0 items) d (indexed_nodup items 0 Hb) (indexed_values_ne items 0 Hv))
    as (t & E & Hf & Hm & _ & HP).
  rewrite E. cbn [bind].
  destruct (trie_hash_spec H Hlen t Hf) as (t' & Eh & _). rewrite Eh. cbn [bind].
  intros X. injection X as <-. exists (troot t).
  assert (Hc : canon (troot t) = true).
  { destruct items as [|x l]; [congruence|].
    pose proof (Hm (encode_uint 0)) as M. cbn [indexed lookup fst snd] in M.
    rewrite bytes_eqb_refl in M. unfold tmap, tcontent in M.
    pose proof (proj1 Hf) as Hr. unfold canon_root in Hr.
    destruct (troot t); [discriminate M|exact Hr..]. }
  split; [exact Hc|]. split; [|split; [reflexivity|exact Hm]].
  exact (TrieFitsProofs.all_fits_of_byte_content H Hlen (troot t) (indexed 0 items) (proj1 Hf) HP Hsz).
Qed.

(* B2: DeriveSha is injective on non-empty lists of non-empty items *)
Theorem derive_sha_injective : forall d (items1 items2 : list bytes) r,
  items1 <> [] -> items2 <> [] -> lenN items1 <= two64 -> lenN items2 <= two64 ->
  Forall (fun x => x <> []) items1 -> Forall (fun x => x <> []) items2 ->
  TrieFitsProofs.byte_content_size (indexed 0 items1) < 2 ^ 32 ->
  TrieFitsProofs.byte_content_size (indexed 0 items2) < 2 ^ 32 ->
  derive_sha_code H d items1 = Ok r -> derive_sha_code H d items2 = Ok r ->
  items1 = items2.
Proof using Hlen Hcf.
  intros d items1 items2 r N1 N2 B1 B2 V1 V2 S1 S2 E1 E2.
  destruct (derive_sha_trie items1 d r N1 B1 V1 S1 E1) as (m1 & Hc1 & Hf1 & R1 & L1).
  destruct (derive_sha_trie items2 d r N2 B2 V2 S2 E2) as (m2 & Hc2 & Hf2 & R2 & L2).
  apply indexed_lookup_inj; [exact B1|exact B2|].
  intros kb. rewrite <- L1, <- L2.
  apply root_injective; auto. congruence.
Qed.

End RootInj.
