(* Trie/MptSpec.v — the Merkle-Patricia root of a key/value content, defined
   from the content alone (Yellow Paper appendix D): structural composition
   c(J,i) into leaf / extension / branch, hex-prefix encoding HP, node cap
   function n(J,i) (inline if the RLP is shorter than 32 bytes, else H of it).
   Keys are presented as nibble strings closed by the terminator nibble 16 (so
   that no key is a prefix of another and the value of a branch is the entry
   whose remaining key is just the terminator) — the usual presentation of the
   same definition.  Nothing here mentions insertion or deletion: the root is a
   function of the content by construction.  No proofs in this file. *)
From AQ Require Import Lib.Bytes Rlp.RlpSpec.
Local Open Scope N_scope.

Definition content := list (bytes * bytes).

Section Spec.
Variable H : bytes -> bytes.

Definition tnib : byte := x10.

(* y(k): the nibbles of a byte key, then the terminator *)
Fixpoint key_nibbles (s : bytes) : bytes :=
  match s with
  | [] => [tnib]
  | b :: t => n2b (b2n b / 16) :: n2b (b2n b mod 16) :: key_nibbles t
  end.

Fixpoint pack (nib : bytes) : bytes :=
  match nib with
  | a :: b :: t => n2b (16 * b2n a + b2n b) :: pack t
  | _ => []
  end.

(* HP(x, t), Yellow Paper appendix C *)
Definition hp (x : bytes) (t : bool) : bytes :=
  let f : N := if t then 2 else 0 in
  if Nat.even (length x) then n2b (16 * f) :: pack x
  else match x with
       | h :: r => n2b (16 * (f + 1) + b2n h) :: pack r
       | [] => []
       end.

Fixpoint lcp2 (a b : bytes) : bytes :=
  match a, b with
  | x :: a', y :: b' => if byte_eqb x y then x :: lcp2 a' b' else []
  | _, _ => []
  end.
(* longest common prefix of all keys *)
Fixpoint lcp (ks : list bytes) : bytes :=
  match ks with
  | [] => []
  | [k] => k
  | k :: t => lcp2 k (lcp t)
  end.

(* the entries whose key starts with nibble i, with that nibble removed *)
Definition sub (i : byte) (J : content) : content :=
  flat_map (fun kv => match fst kv with
                      | h :: r => if byte_eqb h i then [(r, snd kv)] else []
                      | [] => []
                      end) J.
Definition strip (n : nat) (J : content) : content :=
  map (fun kv => (skipn n (fst kv), snd kv)) J.

Definition nibbles16 : list byte :=
  [x00; x01; x02; x03; x04; x05; x06; x07; x08; x09; x0a; x0b; x0c; x0d; x0e; x0f].

(* c(J, i) as an RLP item; fuel >= longest key *)
Fixpoint mpt_c (fuel : nat) (J : content) {struct fuel} : item :=
  match fuel with
  | O => Str []
  | S f =>
    let n_ref (J' : content) : item :=
      match J' with
      | [] => Str []
      | _ => let c := mpt_c f J' in
             if lenN (encode c) <? 32 then c else Str (H (encode c))
      end in
    match J with
    | [] => Str []
    | [(k, v)] => Lst [Str (hp (removelast k) true); Str v]
    | _ =>
      match lcp (map fst J) with
      | [] => Lst (map (fun i => n_ref (sub i J)) nibbles16
                   ++ [Str (match sub tnib J with (_, v) :: _ => v | [] => [] end)])
      | p => Lst [Str (hp p false); n_ref (strip (length p) J)]
      end
    end
  end.

Definition max_key_len (J : content) : nat := list_max (map (fun kv => length (fst kv)) J).

(* root of a content whose keys are terminated nibble strings *)
Definition mpt_root_hex (J : content) : bytes :=
  match J with
  | [] => H (encode (Str []))
  | _ => H (encode (mpt_c (S (max_key_len J)) J))
  end.

(* root of a content with byte keys (a finite map: distinct keys, non-empty values) *)
Definition mpt_root (c : content) : bytes :=
  mpt_root_hex (map (fun kv => (key_nibbles (fst kv), snd kv)) c).

End Spec.
