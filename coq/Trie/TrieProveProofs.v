(* Trie/TrieProveProofs.v — completeness of proof.go Prove / VerifyProof: the
   proof that Prove builds for a key, checked by VerifyProof against the root
   hash of the trie, yields the content's answer for that key (the value, or
   proven absence), for every non-empty canonical trie held in memory without
   cached hashes.  Twin of TrieVerifyProofs.verify_loop_sound (soundness).
   Route: (1) prove_path on a canonical node follows the key (relation kp);
   (2) proof_elems emits (H enc, enc) for the first node and for every later
   node whose encoding has 32 bytes or more (function pelems); (3) VerifyProof
   over that list walks the same nodes: each decoded blob covers a hashed node
   and its small descendants along the key, and stops at the next big one. *)
From Coq Require Import ZifyBool ZifyN ZifyNat.
From AQ Require Import Lib.Bytes Rlp.RlpSpec Rlp.RlpProofs Trie.MptSpec Trie.TrieModel Trie.TrieInv
  Trie.TrieProofs Trie.TrieCodecDefs Trie.TrieDecodeProofs.
From AQ Require Trie.TrieRootProofs Trie.TrieCodecProofs Trie.TrieVerifyProofs.
Local Open Scope N_scope.

(* ------------------------------------------------------------------ one-step unfoldings *)

Lemma prove_path_S fuel d gen tn key :
  prove_path (S fuel) d gen tn key =
    match key, tn with
    | [], _ => Ok []
    | _, NNil => Ok []
    | _, NShort nk nv _ =>
      if negb (has_prefix key nk) then Ok [tn]
      else bind (prove_path fuel d gen nv (skipn (length nk) key)) (fun l => Ok (tn :: l))
    | k0 :: krest, NFull cs _ =>
      bind (get_child cs k0) (fun c =>
      bind (prove_path fuel d gen c krest) (fun l => Ok (tn :: l)))
    | _, NHash h => bind (resolve_hash d h gen) (fun r => prove_path fuel d gen r key)
    | _, NVal _ => Panic
    end.
Proof. reflexivity. Qed.

Definition c0 : hctx := mkHctx false 0 0.

Lemma proof_elems_cons H first n t :
  proof_elems H first (n :: t) =
    bind (hash_children (fun x => hash_node H c0 x false) n) (fun '(it, _, _) =>
    let '(hn, _) := store H c0 it (match node_flag n with Some f => fhash f | None => None end) false in
    bind (proof_elems H false t) (fun rest =>
      match hn with
      | RHash h => Ok ((h, encode it) :: rest)
      | RInline _ => if first then Ok ((H (encode it), encode it) :: rest) else Ok rest
      end)).
Proof. reflexivity. Qed.

(* ------------------------------------------------------------------ children of a canonical full node *)

Lemma full_child_sf cs f i : canon (NFull cs f) = true -> is_sf (nth i cs NNil) = true ->
  canon (nth i cs NNil) = true /\ (i < 16)%nat.
Proof.
  intros Hc Hsf. apply canon_full_iff in Hc as (Hl & Hs & _).
  destruct (Nat.lt_ge_cases i 17) as [Hi|Hi].
  - specialize (Hs i Hi). unfold slot_ok in Hs. destruct (Nat.ltb_spec i 16) as [Hlt|Hge].
    + split; [|exact Hlt]. destruct (nth i cs NNil); try discriminate Hsf; exact Hs.
    + destruct (nth i cs NNil); try discriminate Hsf; discriminate Hs.
  - rewrite nth_overflow in Hsf by (rewrite Hl; exact Hi). discriminate Hsf.
Qed.

Lemma key_idx_lt k0 kr : tkeyb (k0 :: kr) = true -> (nidx k0 < 17)%nat.
Proof.
  intros Hk. destruct (tkeyb_cons _ _ Hk) as [[_ ->]|(_ & Hb & _)];
    [rewrite nidx_term; clear; lia|apply nibb_nidx in Hb; clear - Hb; lia].
Qed.

Lemma full_child_nsf cs f k0 kr : canon (NFull cs f) = true -> tkeyb (k0 :: kr) = true ->
  is_sf (nth (nidx k0) cs NNil) = false ->
  nth (nidx k0) cs NNil = NNil \/ (exists v, nth (nidx k0) cs NNil = NVal v /\ kr = [] /\ k0 = term).
Proof.
  intros Hc Hk Hsf. apply canon_full_iff in Hc as (Hl & Hs & _).
  pose proof (key_idx_lt k0 kr Hk) as Hi. specialize (Hs _ Hi). unfold slot_ok in Hs.
  destruct (Nat.ltb_spec (nidx k0) 16) as [Hlt|Hge].
  - destruct (nth (nidx k0) cs NNil); try discriminate Hsf; try discriminate Hs. now left.
  - destruct (nth (nidx k0) cs NNil) as [| | | |v]; try discriminate Hsf; try discriminate Hs; [now left|].
    right. exists v. split; [reflexivity|].
    assert (E : k0 = term) by (apply nidx_inj; rewrite nidx_term; clear - Hi Hge; lia).
    split; [|exact E]. subst k0.
    destruct (tkeyb_cons _ _ Hk) as [[E _]|(_ & Hb & _)]; [exact E|].
    rewrite nibb_term in Hb. discriminate Hb.
Qed.

Lemma nohash_child cs i : forallb nohash cs = true -> nohash (nth i cs NNil) = true.
Proof.
  intros Hn. destruct (nth_in_or_default i cs NNil) as [Hin|E]; [|rewrite E; reflexivity].
  rewrite forallb_forall in Hn. now apply Hn.
Qed.

(* ------------------------------------------------------------------ the key path below a node *)

(* [kp m key rest]: following key from m visits, after m, the short / full nodes rest *)
Inductive kp : node -> bytes -> list node -> Prop :=
| kp_miss k c f key : has_prefix key k = false -> kp (NShort k c f) key []
| kp_leaf k v f key : has_prefix key k = true -> kp (NShort k (NVal v) f) key []
| kp_ext k cs f0 f key rest : has_prefix key k = true ->
    kp (NFull cs f0) (skipn (length k) key) rest ->
    kp (NShort k (NFull cs f0) f) key (NFull cs f0 :: rest)
| kp_stop cs f k0 kr : is_sf (nth (nidx k0) cs NNil) = false -> kp (NFull cs f) (k0 :: kr) []
| kp_down cs f k0 kr rest : is_sf (nth (nidx k0) cs NNil) = true ->
    kp (nth (nidx k0) cs NNil) kr rest ->
    kp (NFull cs f) (k0 :: kr) (nth (nidx k0) cs NNil :: rest).

(* step 1: Prove's first loop on a canonical loaded node *)
Lemma prove_path_kp d gen : forall fuel m key,
  canon m = true -> tkeyb key = true -> (length key < fuel)%nat ->
  exists rest, prove_path fuel d gen m key = Ok (m :: rest) /\ kp m key rest.
Proof.
  induction fuel as [|fuel IH]; intros m key Hc Hk Hlt; [clear - Hlt; lia|].
  destruct key as [|k0 kr]; [discriminate Hk|].
  rewrite prove_path_S.
  destruct m as [|k c f|cs f|h|v]; try discriminate Hc.
  - destruct (has_prefix (k0 :: kr) k) eqn:Hp; cbn [negb].
    + pose proof Hc as Hc'.
      apply canon_short_inv in Hc' as [Hkne [(v & -> & Ht & _)|(cs & f' & -> & Hpath & Hcc)]].
      * assert (E : k0 :: kr = k) by (apply tkeyb_prefix_eq; auto).
        assert (Esk : skipn (length k) (k0 :: kr) = []) by (rewrite E; apply skipn_all).
        rewrite Esk. destruct fuel as [|fuel]; [cbn [length] in Hlt; clear - Hlt; lia|].
        rewrite prove_path_S. cbn [bind]. exists []. split; [reflexivity|].
        apply kp_leaf. exact Hp.
      * assert (Hk' : tkeyb (skipn (length k) (k0 :: kr)) = true) by (apply tkeyb_skip_path; auto).
        assert (Hlt' : (length (skipn (length k) (k0 :: kr)) < fuel)%nat).
        { rewrite skipn_length. destruct k as [|a k]; [congruence|]. cbn [length] in *. clear - Hlt. lia. }
        destruct (IH _ _ Hcc Hk' Hlt') as (rest & E & Hkp).
        rewrite E. cbn [bind]. exists (NFull cs f' :: rest). split; [reflexivity|].
        apply kp_ext; assumption.
    + exists []. split; [reflexivity|]. apply kp_miss. exact Hp.
  - pose proof Hc as Hc'. apply canon_full_iff in Hc' as (Hl & _ & _).
    pose proof (key_idx_lt k0 kr Hk) as Hi.
    rewrite get_child_ok by (rewrite Hl; exact Hi). cbn [bind].
    destruct (is_sf (nth (nidx k0) cs NNil)) eqn:Esf.
    + destruct (full_child_sf cs f _ Hc Esf) as [Hcc Hi16].
      assert (Hk' : tkeyb kr = true).
      { destruct (tkeyb_cons _ _ Hk) as [[_ ->]|(_ & _ & Hkr)]; [|exact Hkr].
        rewrite nidx_term in Hi16. clear - Hi16. lia. }
      assert (Hlt' : (length kr < fuel)%nat) by (cbn [length] in Hlt; clear - Hlt; lia).
      destruct (IH _ _ Hcc Hk' Hlt') as (rest & E & Hkp).
      rewrite E. cbn [bind]. eexists. split; [reflexivity|]. apply kp_down; assumption.
    + exists []. split; [|apply kp_stop; exact Esf].
      destruct fuel as [|fuel]; [cbn [length] in Hlt; clear - Hlt; lia|].
      rewrite prove_path_S.
      destruct (full_child_nsf cs f k0 kr Hc Hk Esf) as [->|(v & -> & -> & _)].
      * destruct kr; reflexivity.
      * reflexivity.
Qed.

Lemma kp_facts : forall m key rest, kp m key rest -> canon m = true -> nohash m = true ->
  Forall (fun x => canon x = true /\ nohash x = true) rest.
Proof.
  induction 1 as [k c f key Hp|k v f key Hp|k cs f0 f key rest Hp Hkp IH|cs f k0 kr Hsf|cs f k0 kr rest Hsf Hkp IH];
    intros Hc Hn; try (constructor; fail).
  - apply canon_short_inv in Hc as [_ [(v & Ev & _)|(cs' & f' & _ & _ & Hcc)]]; [discriminate Ev|].
    cbn [nohash] in Hn. apply andb_prop in Hn as [_ Hnc].
    constructor; [split; assumption|]. apply IH; assumption.
  - destruct (full_child_sf cs f _ Hc Hsf) as [Hcc _].
    cbn [nohash] in Hn. apply andb_prop in Hn as [_ Hncs].
    pose proof (nohash_child cs (nidx k0) Hncs) as Hnc.
    constructor; [split; assumption|]. apply IH; assumption.
Qed.

Section ProveComplete.
Variable H : bytes -> bytes.
Hypothesis Hlen : forall x, length (H x) = 32%nat.
(* collision freedom of H on the encodings of canonical nodes: the proof
   database is searched by hash, two different nodes on the path must not share one *)
Hypothesis Hcf : forall m1 m2, canon m1 = true -> canon m2 = true ->
  H (spec_enc H m1) = H (spec_enc H m2) -> spec_enc H m1 = spec_enc H m2.

(* ------------------------------------------------------------------ step 2: the proof elements *)

(* hashChildren on a canonical node without cached hashes: the specification item *)
Lemma hash_children_spec n : canon n = true -> nohash n = true ->
  exists n' w, hash_children (fun x => hash_node H c0 x false) n = Ok (spec_item H n, n', w).
Proof using.
  intros Hc Hn. destruct n as [|k ch f|cs f|h|v]; try discriminate Hc.
  - pose proof Hc as Hc'. rewrite TrieRootProofs.canon_short in Hc'. apply andb_prop in Hc' as [Hk Hc'].
    assert (Hkne : k <> []) by (destruct k; [discriminate Hk|discriminate]).
    cbn [nohash] in Hn. apply andb_prop in Hn as [_ Hnch].
    destruct ch as [| |cs0 f0| |v]; try discriminate Hc'.
    + apply andb_prop in Hc' as [Hp Hcc].
      destruct (TrieCodecProofs.spec_item_ext H k cs0 f0 f Hkne Hp Hcc) as (m & Hm & E).
      destruct (TrieRootProofs.hash_node_spec H _ Hcc Hnch c0 false m eq_refl Hm) as (ch' & E2 & _).
      rewrite TrieRootProofs.hash_children_short_full, E2. cbn [bind].
      rewrite TrieRootProofs.href_item_if, <- TrieRootProofs.n_ref_ne
        by (apply TrieRootProofs.canon_content_ne; exact Hcc).
      rewrite E. eauto.
    + apply andb_prop in Hc' as [Ht _].
      rewrite TrieRootProofs.hash_children_short_val, TrieCodecProofs.spec_item_leaf by exact Ht. eauto.
  - destruct (TrieCodecProofs.spec_item_full H cs f Hc) as (m & Hm & E).
    cbn [nohash] in Hn. apply andb_prop in Hn as [_ Hncs].
    assert (HF : Forall (TrieRootProofs.hash_ok H) cs).
    { apply Forall_forall. intros x _. exact (TrieRootProofs.hash_node_spec H x). }
    destruct (TrieRootProofs.go_spec H c0 m eq_refl cs 0 HF (TrieRootProofs.canon_slots_ok _ _ Hc) Hncs Hm)
      as (cs' & Eg & _).
    rewrite TrieRootProofs.hash_children_full, Eg. cbn [bind]. rewrite E. eauto.
Qed.

Lemma nohash_flag n : canon n = true -> nohash n = true ->
  match node_flag n with Some f => fhash f | None => None end = None.
Proof.
  intros Hc Hn. destruct n as [|k ch f|cs f|h|v]; try discriminate Hc;
    cbn [nohash] in Hn; apply andb_prop in Hn as [Hf _]; unfold fnohash in Hf;
    cbn [node_flag]; destruct (fhash f); [discriminate Hf|reflexivity|discriminate Hf|reflexivity].
Qed.

(* the elements Prove emits for a path: the first node always, later nodes iff big *)
Fixpoint pelems (first : bool) (path : list node) : list (bytes * bytes) :=
  match path with
  | [] => []
  | n :: t =>
    if first || big H n then (H (spec_enc H n), spec_enc H n) :: pelems false t else pelems false t
  end.

Lemma proof_elems_spec : forall path first,
  Forall (fun x => canon x = true /\ nohash x = true) path ->
  proof_elems H first path = Ok (pelems first path).
Proof using.
  induction path as [|n t IH]; intros first HF; [reflexivity|].
  inversion HF as [|? ? [Hc Hn] HF']; subst.
  rewrite proof_elems_cons.
  destruct (hash_children_spec n Hc Hn) as (n' & w & E). rewrite E. cbn [bind].
  rewrite (nohash_flag n Hc Hn), TrieRootProofs.store_nodb by reflexivity.
  rewrite (IH false HF'). cbn [pelems]. unfold big, spec_enc.
  destruct (N.ltb_spec (lenN (encode (spec_item H n))) 32) as [Hlt|Hge];
    destruct (N.leb_spec 32 (lenN (encode (spec_item H n)))) as [Hle|Hgt];
    try (exfalso; clear - Hlt Hle; lia); try (exfalso; clear - Hge Hgt; lia);
    cbn [andb negb bind]; destruct first; reflexivity.
Qed.

Definition nbig (l : list node) : nat := length (filter (big H) l).

Lemma pelems_false_length l : length (pelems false l) = nbig l.
Proof.
  unfold nbig. induction l as [|x t IH]; [reflexivity|].
  cbn [pelems filter orb]. destruct (big H x); cbn [length]; now rewrite IH.
Qed.
Lemma pelems_true_length m l : length (pelems true (m :: l)) = S (nbig l).
Proof. cbn [pelems orb length]. now rewrite pelems_false_length. Qed.

Lemma pelems_in : forall l first x, In x l -> big H x = true ->
  In (H (spec_enc H x), spec_enc H x) (pelems first l).
Proof.
  induction l as [|y t IH]; intros first x Hin Hb; [destruct Hin|].
  cbn [pelems]. destruct Hin as [->|Hin].
  - rewrite Hb, orb_true_r. now left.
  - destruct (first || big H y); [right|]; apply IH; assumption.
Qed.

(* every entry of a proof database is (H e, e), e the encoding of a canonical node *)
Definition good_db (pdb : db) : Prop :=
  forall h e, In (h, e) pdb -> exists x, canon x = true /\ h = H (spec_enc H x) /\ e = spec_enc H x.

Lemma pelems_good : forall l first, Forall (fun x => canon x = true) l -> good_db (pelems first l).
Proof.
  induction l as [|y t IH]; intros first HF h e Hin; [destruct Hin|].
  inversion HF as [|? ? Hc HF']; subst. cbn [pelems] in Hin.
  destruct (first || big H y).
  - destruct Hin as [E|Hin]; [|exact (IH false HF' h e Hin)].
    injection E as <- <-. exists y. auto.
  - exact (IH false HF' h e Hin).
Qed.

Lemma db_get_good pdb m : good_db pdb -> canon m = true ->
  In (H (spec_enc H m), spec_enc H m) pdb ->
  db_get pdb (H (spec_enc H m)) = Some (spec_enc H m).
Proof using Hcf.
  induction pdb as [|[h e] t IH]; intros G Hc Hin; [destruct Hin|].
  cbn [db_get]. destruct (bytes_eqb_spec h (H (spec_enc H m))) as [E|N].
  - destruct (G h e (or_introl eq_refl)) as (x & Hx & Eh & Ee). f_equal. subst e.
    apply Hcf; auto. congruence.
  - apply IH; [|exact Hc|].
    + intros h' e' Hin'. apply (G h' e'). now right.
    + destruct Hin as [E|Hin]; [|exact Hin]. injection E as E1 _. congruence.
Qed.

(* ------------------------------------------------------------------ step 3: the walk over a decoded node *)

Definition small (x : node) : Prop := big H x = false.

(* what proof.go get answers on the decoded form of a canonical node m whose key path is rest *)
Definition wres (m : node) (key : bytes) (rest : list node) (r : getres) : Prop :=
  match r with
  | GNil => lookup (content_of m) key = None /\ Forall small rest
  | GVal v => lookup (content_of m) key = Some v /\ Forall small rest
  | GHash kr h =>
    exists sm m' rest', rest = sm ++ m' :: rest' /\ Forall small sm /\ big H m' = true /\
      h = H (spec_enc H m') /\ canon m' = true /\ all_fits H m' /\ tkeyb kr = true /\
      kp m' kr rest' /\ lookup (content_of m) key = lookup (content_of m') kr
  | GPanic => False
  | GFuel => False
  end.

Lemma wres_down m key c key' rest r :
  lookup (content_of m) key = lookup (content_of c) key' -> big H c = false ->
  wres c key' rest r -> wres m key (c :: rest) r.
Proof.
  intros E Hs. destruct r as [|kr h|v| |]; cbn [wres]; auto.
  - intros [A B]. split; [congruence|constructor; assumption].
  - intros (sm & m' & rest' & Er & Hsm & Hb & Eh & Hc & Hf & Hk & Hkp & El).
    exists (c :: sm), m', rest'. subst rest.
    split; [reflexivity|]. split; [constructor; assumption|].
    split; [exact Hb|]. split; [exact Eh|]. split; [exact Hc|]. split; [exact Hf|].
    split; [exact Hk|]. split; [exact Hkp|]. congruence.
  - intros [A B]. split; [congruence|constructor; assumption].
Qed.

Lemma wres_hash m key c key' rest :
  lookup (content_of m) key = lookup (content_of c) key' -> big H c = true ->
  canon c = true -> all_fits H c -> tkeyb key' = true -> kp c key' rest ->
  wres m key (c :: rest) (GHash key' (H (spec_enc H c))).
Proof.
  intros E Hb Hc Hf Hk Hkp. cbn [wres]. exists [], c, rest.
  split; [reflexivity|]. split; [constructor|].
  split; [exact Hb|]. split; [reflexivity|]. split; [exact Hc|]. split; [exact Hf|].
  split; [exact Hk|]. split; [exact Hkp|]. exact E.
Qed.

Lemma all_fits_child cs i : Forall (all_fits H) cs -> all_fits H (nth i cs NNil).
Proof.
  intros HF. destruct (nth_in_or_default i cs NNil) as [Hin|E]; [|rewrite E; exact I].
  rewrite Forall_forall in HF. now apply HF.
Qed.

Lemma walk_kp : forall m key rest, kp m key rest ->
  forall pfuel hash, canon m = true -> all_fits H m -> tkeyb key = true -> (length key < pfuel)%nat ->
  wres m key rest (proof_get pfuel (dec_node H 0 hash m) key).
Proof using.
  induction 1 as [k c f key Hp|k v f key Hp|k cs f0 f key rest Hp Hkp IH|cs f k0 kr Hsf|cs f k0 kr rest Hsf Hkp IH];
    intros pfuel hash Hc Hf Hk Hlt;
    (destruct pfuel as [|p]; [clear - Hlt; lia|]).
  - (* short node, key leaves it *)
    rewrite TrieVerifyProofs.dec_node_short, proof_get_S, Hp. cbn [negb wres].
    split; [|constructor].
    pose proof (lookup_pre_key k (content_of c) key) as L. rewrite Hp in L. exact L.
  - (* leaf reached *)
    apply canon_short_inv in Hc as [_ [(v' & Ev & Ht & _)|(cs & f' & Ev & _)]]; [|discriminate Ev].
    assert (key = k) by (apply tkeyb_prefix_eq; auto). subst key.
    rewrite TrieVerifyProofs.dec_node_short, proof_get_S, Hp. cbn [negb]. rewrite skipn_all.
    change (dec_child H 0 (NVal v)) with (NVal v).
    destruct p as [|p]; [destruct k; [discriminate Ht|cbn [length] in Hlt; clear - Hlt; lia]|].
    rewrite proof_get_S. cbn [wres]. split; [|constructor].
    pose proof (lookup_pre_key k (content_of (NVal v)) k) as L. rewrite Hp, skipn_all in L.
    exact L.
  - (* extension *)
    pose proof Hc as Hc'.
    apply canon_short_inv in Hc' as [Hkne [(v' & Ev & _)|(cs' & f' & _ & Hpath & Hcc)]]; [discriminate Ev|].
    apply TrieVerifyProofs.all_fits_short in Hf as [_ Hfc].
    assert (Hk' : tkeyb (skipn (length k) key) = true) by (apply tkeyb_skip_path; auto).
    pose proof (lookup_pre_key k (content_of (NFull cs f0)) key) as L. rewrite Hp in L.
    change (map (pre_key k) (content_of (NFull cs f0))) with (content_of (NShort k (NFull cs f0) f)) in L.
    rewrite TrieVerifyProofs.dec_node_short, proof_get_S, Hp. cbn [negb].
    rewrite (TrieVerifyProofs.dec_child_canon H 0 _ Hcc).
    destruct (big H (NFull cs f0)) eqn:Hb.
    + destruct p as [|p]; [destruct key; [discriminate Hk|cbn [length] in Hlt; clear - Hlt; lia]|].
      rewrite proof_get_S. apply wres_hash; assumption.
    + apply wres_down with (key' := skipn (length k) key); [exact L|exact Hb|].
      apply IH; auto. rewrite skipn_length. destruct k as [|a k]; [congruence|].
      assert (Hkl : (1 <= length key)%nat) by (destruct key; [discriminate Hk|cbn [length]; clear; lia]).
      cbn [length] in *. clear - Hlt Hkl. lia.
  - (* full node, empty slot or value *)
    pose proof Hc as Hc'. apply canon_full_iff in Hc' as (Hl & _ & _).
    pose proof (key_idx_lt k0 kr Hk) as Hi.
    rewrite TrieVerifyProofs.dec_node_full, proof_get_S.
    rewrite get_child_ok by (rewrite map_length, Hl; exact Hi).
    assert (En : nth (nidx k0) (map (dec_child H 0) cs) NNil
                 = dec_child H 0 (nth (nidx k0) cs NNil)).
    { change NNil with (dec_child H 0 NNil) at 1. apply map_nth. }
    rewrite En. clear En.
    pose proof (lookup_full cs f k0 kr Hl) as L.
    destruct (Nat.ltb_spec (nidx k0) 17) as [_|Hge]; [|clear - Hi Hge; lia].
    destruct p as [|p]; [cbn [length] in Hlt; clear - Hlt; lia|].
    destruct (full_child_nsf cs f k0 kr Hc Hk Hsf) as [E|(v & E & -> & ->)]; rewrite E in L |- *.
    + change (dec_child H 0 NNil) with NNil. rewrite proof_get_S. cbn [wres].
      split; [exact L|constructor].
    + change (dec_child H 0 (NVal v)) with (NVal v). rewrite proof_get_S. cbn [wres].
      split; [exact L|constructor].
  - (* full node, descend *)
    pose proof Hc as Hc'. apply canon_full_iff in Hc' as (Hl & _ & _).
    pose proof (key_idx_lt k0 kr Hk) as Hi.
    destruct (full_child_sf cs f _ Hc Hsf) as [Hcc Hi16].
    apply TrieVerifyProofs.all_fits_full in Hf as [_ Hfa].
    pose proof (all_fits_child cs (nidx k0) Hfa) as Hfc.
    assert (Hk' : tkeyb kr = true).
    { destruct (tkeyb_cons _ _ Hk) as [[_ ->]|(_ & _ & Hkr)]; [|exact Hkr].
      rewrite nidx_term in Hi16. clear - Hi16. lia. }
    rewrite TrieVerifyProofs.dec_node_full, proof_get_S.
    rewrite get_child_ok by (rewrite map_length, Hl; exact Hi).
    assert (En : nth (nidx k0) (map (dec_child H 0) cs) NNil
                 = dec_child H 0 (nth (nidx k0) cs NNil)).
    { change NNil with (dec_child H 0 NNil) at 1. apply map_nth. }
    rewrite En. clear En.
    pose proof (lookup_full cs f k0 kr Hl) as L.
    destruct (Nat.ltb_spec (nidx k0) 17) as [_|Hge]; [|clear - Hi Hge; lia].
    rewrite (TrieVerifyProofs.dec_child_canon H 0 _ Hcc).
    destruct (big H (nth (nidx k0) cs NNil)) eqn:Hb.
    + destruct p as [|p]; [cbn [length] in Hlt; clear - Hlt; lia|].
      rewrite proof_get_S. apply wres_hash; assumption.
    + apply wres_down with (key' := kr); [exact L|exact Hb|].
      apply IH; auto. cbn [length] in Hlt. clear - Hlt. lia.
Qed.

(* ------------------------------------------------------------------ the VerifyProof loop *)

Lemma nbig_app_big sm m' rest' : big H m' = true -> (S (nbig rest') <= nbig (sm ++ m' :: rest'))%nat.
Proof.
  intros Hb. unfold nbig. rewrite filter_app, app_length. cbn [filter]. rewrite Hb. cbn [length].
  clear. lia.
Qed.

Lemma verify_kp pdb : good_db pdb -> forall vf m key rest,
  kp m key rest -> canon m = true -> all_fits H m -> tkeyb key = true ->
  In (H (spec_enc H m), spec_enc H m) pdb ->
  (forall x, In x rest -> big H x = true -> In (H (spec_enc H x), spec_enc H x) pdb) ->
  (nbig rest < vf)%nat ->
  verify_loop vf pdb (H (spec_enc H m)) key = Ok (lookup (content_of m) key).
Proof using Hlen Hcf.
  intros G. induction vf as [|vf IH]; intros m key rest Hkp Hc Hf Hk Hin Hrest Hvf;
    [clear - Hvf; lia|].
  rewrite TrieVerifyProofs.verify_loop_S, (db_get_good pdb m G Hc Hin).
  destruct (encode_nonempty (spec_item H m)) as (b0 & bt & Ee).
  assert (Ee' : spec_enc H m = b0 :: bt) by exact Ee.
  rewrite Ee'. cbv iota. rewrite <- Ee'.
  rewrite (TrieCodecProofs.roundtrip H Hlen m (Some (H (spec_enc H m))) 0 Hc
             (TrieVerifyProofs.all_fits_canon_fits H m Hc Hf)).
  cbn [bind].
  assert (Hpf : (length key < 2 * length key + 40)%nat) by (clear; lia).
  pose proof (walk_kp m key rest Hkp (2 * length key + 40)%nat (Some (H (spec_enc H m))) Hc Hf Hk Hpf) as W.
  destruct (proof_get (2 * length key + 40) (dec_node H 0 (Some (H (spec_enc H m))) m) key) as [|kr h|v| |];
    cbn [wres] in W.
  - destruct W as [A _]. now rewrite A.
  - destruct W as (sm & m' & rest' & Er & Hsm & Hb & Eh & Hc' & Hf' & Hk' & Hkp' & El).
    rewrite El, Eh, (TrieVerifyProofs.to_hash_H H Hlen).
    apply (IH m' kr rest'); auto.
    + apply Hrest; [|exact Hb]. subst rest. apply in_or_app. right. now left.
    + intros x Hx Hbx. apply Hrest; [|exact Hbx]. subst rest. apply in_or_app. right. now right.
    + pose proof (nbig_app_big sm m' rest' Hb) as Hn. rewrite <- Er in Hn. clear - Hn Hvf. lia.
  - destruct W as [A _]. now rewrite A.
  - destruct W.
  - destruct W.
Qed.

(* ------------------------------------------------------------------ Prove, then VerifyProof *)

(* (a) Prove succeeds on a canonical loaded trie and returns the elements of the key path *)
Theorem prove_elems_spec : forall t d k,
  canon (troot t) = true -> nohash (troot t) = true ->
  exists rest, kp (troot t) (keybytes_to_hex k) rest /\
    Forall (fun x => canon x = true /\ nohash x = true) rest /\
    trie_prove H t d k = Ok (pelems true (troot t :: rest)).
Proof using.
  intros t d k Hc Hn. unfold trie_prove.
  assert (Hlt : (length (keybytes_to_hex k) < key_fuel (keybytes_to_hex k))%nat)
    by (unfold key_fuel; clear; lia).
  destruct (prove_path_kp d (tgen t) _ _ _ Hc (tkeyb_keybytes_to_hex k) Hlt) as (rest & E & Hkp).
  pose proof (kp_facts _ _ _ Hkp Hc Hn) as HF.
  exists rest. split; [exact Hkp|]. split; [exact HF|].
  rewrite E. cbn [bind]. apply proof_elems_spec. constructor; [split; assumption|exact HF].
Qed.

Theorem prove_succeeds : forall t d k,
  canon (troot t) = true -> nohash (troot t) = true -> exists p, trie_prove H t d k = Ok p.
Proof using.
  intros t d k Hc Hn. destruct (prove_elems_spec t d k Hc Hn) as (rest & _ & _ & E). eauto.
Qed.

(* (c) the proof verifies to the content's answer *)
Theorem prove_verify : forall t d k p,
  canon (troot t) = true -> nohash (troot t) = true -> all_fits H (troot t) ->
  trie_prove H t d k = Ok p ->
  verify_proof (mpt_root_hex H (content_of (troot t))) k p
    = Ok (lookup (content_of (troot t)) (keybytes_to_hex k)).
Proof using Hlen Hcf.
  intros t d k p Hc Hn Hf Hp.
  destruct (prove_elems_spec t d k Hc Hn) as (rest & Hkp & HF & E).
  assert (Ep : p = pelems true (troot t :: rest)) by congruence. subst p.
  unfold verify_proof. rewrite (TrieVerifyProofs.mpt_root_hex_spec_enc H _ Hc).
  rewrite pelems_true_length.
  apply (verify_kp (pelems true (troot t :: rest))) with (rest := rest).
  - apply pelems_good. constructor; [exact Hc|].
    apply Forall_forall. intros x Hx. rewrite Forall_forall in HF. exact (proj1 (HF x Hx)).
  - exact Hkp.
  - exact Hc.
  - exact Hf.
  - apply tkeyb_keybytes_to_hex.
  - cbn [pelems orb]. now left.
  - intros x Hx Hb. apply pelems_in; [now right|exact Hb].
  - clear. lia.
Qed.

End ProveComplete.

(* ------------------------------------------------------------------ closed form *)

Theorem prove_verify_closed : forall (H : bytes -> bytes),
  (forall x, length (H x) = 32%nat) ->
  (forall m1 m2, canon m1 = true -> canon m2 = true ->
     H (spec_enc H m1) = H (spec_enc H m2) -> spec_enc H m1 = spec_enc H m2) ->
  forall t d k,
  canon (troot t) = true -> nohash (troot t) = true -> all_fits H (troot t) ->
  exists p, trie_prove H t d k = Ok p /\
    verify_proof (mpt_root_hex H (content_of (troot t))) k p
      = Ok (lookup (content_of (troot t)) (keybytes_to_hex k)).
Proof.
  intros H Hlen Hcf t d k Hc Hn Hf.
  destruct (prove_succeeds H t d k Hc Hn) as (p & E).
  exists p. split; [exact E|]. exact (prove_verify H Hlen Hcf t d k p Hc Hn Hf E).
Qed.
