(* Trie/TrieDeleteProofs.v — tryGet computes the abstract lookup on a canonical
   trie; delete preserves the canonical shape and removes exactly the key. *)
From AQ Require Import Lib.Bytes Rlp.RlpSpec Trie.MptSpec Trie.TrieModel Trie.TrieInv.
From Coq Require Import ZifyBool ZifyN ZifyNat.
Local Open Scope nat_scope.

(* ------------------------------------------------------------------ keys *)

Lemma nibb_iff b : nibb b = true <-> (b2n b < 16)%N.
Proof. unfold nibb. rewrite N.ltb_lt. tauto. Qed.

Lemma nibb_term : nibb term = false.
Proof. reflexivity. Qed.

Lemma nidx_term : nidx term = 16.
Proof. reflexivity. Qed.

Lemma tkeyb_cons_nib b l : nibb b = true -> tkeyb (b :: l) = tkeyb l.
Proof.
  intros H. cbn [tkeyb]. destruct l as [|c l'].
  - cbn [tkeyb]. destruct (byte_eqb_spec b term) as [->|]; [|reflexivity].
    rewrite nibb_term in H. discriminate.
  - rewrite H. reflexivity.
Qed.

Lemma tkeyb_cons_nonnib b l : nibb b = false -> tkeyb (b :: l) = true -> b = term /\ l = [].
Proof.
  intros H T. cbn [tkeyb] in T. destruct l.
  - destruct (byte_eqb_spec b term); [auto|discriminate].
  - rewrite H in T. discriminate.
Qed.

Lemma tkeyb_app_path k r : pathb k = true -> tkeyb (k ++ r) = tkeyb r.
Proof.
  induction k as [|b k IH]; cbn [app pathb forallb]; intros H; [reflexivity|].
  apply andb_true_iff in H as [H1 H2]. rewrite tkeyb_cons_nib by auto. apply IH. exact H2.
Qed.

Lemma tkeyb_app_nil k r : tkeyb k = true -> tkeyb (k ++ r) = true -> r = [].
Proof.
  induction k as [|b k IH]; intros Hk Hkr; [discriminate|].
  destruct (nibb b) eqn:Nb.
  - rewrite tkeyb_cons_nib in Hk by auto. cbn [app] in Hkr.
    rewrite tkeyb_cons_nib in Hkr by auto. auto.
  - destruct (tkeyb_cons_nonnib _ _ Nb Hk) as [E1 E2]. subst b k. cbn [app] in Hkr.
    destruct (tkeyb_cons_nonnib _ _ Nb Hkr) as [_ E3]. exact E3.
Qed.

Lemma tkeyb_head k0 r : tkeyb (k0 :: r) = true ->
  nidx k0 < 17 /\ ((nibb k0 = true /\ tkeyb r = true /\ nidx k0 < 16) \/ (k0 = term /\ r = [])).
Proof.
  intros H. destruct (nibb k0) eqn:Nb.
  - rewrite tkeyb_cons_nib in H by auto. apply nibb_iff in Nb. unfold nidx.
    split; [lia|]. left. repeat split; auto. lia.
  - destruct (tkeyb_cons_nonnib _ _ Nb H) as [E1 E2]. subst k0 r. rewrite nidx_term. split; [lia|]. right; auto.
Qed.

Lemma nonempty_len (k : bytes) : nonempty k = true -> 1 <= length k.
Proof. destruct k; [discriminate|cbn; lia]. Qed.

Lemma nonempty_of_len (k : bytes) : 1 <= length k -> nonempty k = true.
Proof. destruct k; cbn [length]; [lia|reflexivity]. Qed.

Lemma nonempty_app_l (k r : bytes) : 1 <= length k -> nonempty (k ++ r) = true.
Proof. destruct k; cbn [length]; [lia|reflexivity]. Qed.

Lemma nibb_n2b pos : pos < 16 -> nibb (n2b (N.of_nat pos)) = true.
Proof. intros H. apply nibb_iff. rewrite b2n_n2b by lia. lia. Qed.

Lemma has_prefix_true key k : has_prefix key k = true -> key = k ++ skipn (length k) key.
Proof.
  unfold has_prefix. intros H. apply andb_true_iff in H as [_ H].
  destruct (bytes_eqb_spec k (firstn (length k) key)) as [e|]; [|discriminate].
  pose proof (firstn_skipn (length k) key) as E. rewrite <- e in E. symmetry; exact E.
Qed.

Lemma has_prefix_app k r : has_prefix (k ++ r) k = true.
Proof.
  unfold has_prefix. rewrite app_length. apply andb_true_iff; split.
  - apply Nat.leb_le; lia.
  - rewrite firstn_app, Nat.sub_diag, firstn_all. cbn [firstn]. rewrite app_nil_r. apply bytes_eqb_refl.
Qed.

Lemma has_prefix_false key k : has_prefix key k = false -> forall r, key <> k ++ r.
Proof. intros H r ->. rewrite has_prefix_app in H. discriminate. Qed.

Lemma prefix_len_le_r : forall a b, prefix_len a b <= length b.
Proof.
  induction a as [|x a IH]; intros [|y b]; cbn [prefix_len length]; try lia.
  destruct (byte_eqb x y); [specialize (IH b)|]; lia.
Qed.

Lemma prefix_len_app : forall k r, prefix_len (k ++ r) k = length k.
Proof.
  induction k as [|x k IH]; intros r; cbn [app prefix_len length].
  - destruct r; reflexivity.
  - destruct (byte_eqb_spec x x); [|congruence]. now rewrite IH.
Qed.

Lemma prefix_len_full : forall k key, prefix_len key k = length k -> key = k ++ skipn (length k) key.
Proof.
  induction k as [|a k IH]; intros [|x key] H; cbn [prefix_len length app skipn] in *; try reflexivity; try discriminate.
  destruct (byte_eqb_spec x a); [|discriminate]. subst. f_equal. apply IH. lia.
Qed.

Lemma prefix_len_short key k : prefix_len key k < length k -> forall r, key <> k ++ r.
Proof. intros H r ->. rewrite prefix_len_app in H. lia. Qed.

(* ------------------------------------------------------------------ lookup *)

Lemma lookup_app c1 c2 k :
  lookup (c1 ++ c2) k = match lookup c1 k with Some v => Some v | None => lookup c2 k end.
Proof.
  induction c1 as [|kv c1 IH]; cbn [app lookup]; [reflexivity|].
  destruct (bytes_eqb (fst kv) k); auto.
Qed.

Lemma lookup_pre_key k J r : lookup (map (pre_key k) J) (k ++ r) = lookup J r.
Proof.
  induction J as [|[a v] J IH]; cbn [map lookup pre_key fst snd]; [reflexivity|].
  destruct (bytes_eqb_spec (k ++ a) (k ++ r)) as [e|ne]; destruct (bytes_eqb_spec a r) as [e'|ne'].
  - reflexivity.
  - apply app_inv_head in e. contradiction.
  - subst. contradiction.
  - apply IH.
Qed.

Lemma lookup_pre_key_none k J key : (forall r, key <> k ++ r) -> lookup (map (pre_key k) J) key = None.
Proof.
  intros H. induction J as [|[a v] J IH]; cbn [map lookup pre_key fst snd]; [reflexivity|].
  destruct (bytes_eqb_spec (k ++ a) key) as [e|ne]; [|apply IH].
  exfalso. apply (H a). auto.
Qed.

Lemma lookup_pre_nib i J b r :
  lookup (map (pre_nib i) J) (b :: r) = if byte_eqb (n2b (N.of_nat i)) b then lookup J r else None.
Proof.
  destruct (byte_eqb_spec (n2b (N.of_nat i)) b) as [e|ne].
  - subst b. apply (lookup_pre_key [n2b (N.of_nat i)] J r).
  - apply (lookup_pre_key_none [n2b (N.of_nat i)] J (b :: r)). intros r0 E. cbn [app] in E. congruence.
Qed.

Lemma nidx_n2b i : i < 256 -> nidx (n2b (N.of_nat i)) = i.
Proof. intros. unfold nidx. rewrite b2n_n2b by lia. lia. Qed.

Lemma n2b_nidx b : n2b (N.of_nat (nidx b)) = b.
Proof. unfold nidx. rewrite N2Nat.id. apply n2b_b2n. Qed.

Lemma lookup_join : forall l i b r, i + length l <= 256 ->
  lookup (join i l) (b :: r) =
  if (i <=? nidx b) && (nidx b <? i + length l) then lookup (nth (nidx b - i) l []) r else None.
Proof.
  induction l as [|a l IH]; intros i b r Hi; cbn [join length].
  - cbn [lookup]. destruct (Nat.leb_spec i (nidx b)); destruct (Nat.ltb_spec (nidx b) (i + 0)); cbn [andb]; try reflexivity; lia.
  - cbn [length] in Hi. rewrite lookup_app, lookup_pre_nib, (IH (S i)) by lia.
    destruct (byte_eqb_spec (n2b (N.of_nat i)) b) as [e|ne].
    + subst b. rewrite nidx_n2b by lia.
      destruct (Nat.leb_spec i i); [|lia]. destruct (Nat.ltb_spec i (i + S (length l))); [|lia].
      destruct (Nat.leb_spec (S i) i); [lia|]. cbn [andb]. rewrite Nat.sub_diag. cbn [nth].
      destruct (lookup a r); reflexivity.
    + assert (nidx b <> i) by (intros E; apply ne; rewrite <- E; apply n2b_nidx).
      destruct (Nat.leb_spec i (nidx b)); destruct (Nat.ltb_spec (nidx b) (i + S (length l)));
        destruct (Nat.leb_spec (S i) (nidx b)); destruct (Nat.ltb_spec (nidx b) (S i + length l));
        cbn [andb]; try reflexivity; try lia.
      replace (nidx b - i) with (S (nidx b - S i)) by lia. reflexivity.
Qed.

Lemma content_short k c f : content_of (NShort k c f) = map (pre_key k) (content_of c).
Proof. reflexivity. Qed.

Lemma lookup_full cs f b r : length cs = 17 -> nidx b < 17 ->
  lookup (content_of (NFull cs f)) (b :: r) = lookup (content_of (nth (nidx b) cs NNil)) r.
Proof.
  intros Hl Hb. cbn [content_of]. rewrite lookup_join by (rewrite map_length; lia).
  rewrite map_length, Hl.
  destruct (Nat.leb_spec 0 (nidx b)); [|lia]. destruct (Nat.ltb_spec (nidx b) (0 + 17)); [|lia].
  cbn [andb]. rewrite Nat.sub_0_r.
  exact (f_equal (fun c => lookup c r) (map_nth content_of cs NNil (nidx b))).
Qed.

(* ------------------------------------------------------------------ lists of children *)

Lemma forallb_nth_iff {A} (f : A -> bool) d l :
  forallb f l = true <-> (forall i, i < length l -> f (nth i l d) = true).
Proof.
  induction l as [|a l IH]; cbn [forallb length].
  - split; auto. intros; lia.
  - rewrite andb_true_iff, IH. split.
    + intros [H1 H2] [|i] Hi; cbn [nth]; auto. apply H2. lia.
    + intros H. split. apply (H 0). lia. intros i Hi. apply (H (S i)). lia.
Qed.

Lemma nth_firstn_lt {A} (l : list A) d : forall n i, i < n -> nth i (firstn n l) d = nth i l d.
Proof.
  induction l as [|a l IH]; intros [|n] [|i] H; cbn [firstn nth]; try lia; auto. apply IH; lia.
Qed.

Lemma set_nth_length l : forall i x, length (set_nth l i x) = length l.
Proof. induction l as [|a l IH]; intros [|i] x; cbn [set_nth length]; auto. Qed.

Lemma nth_set_nth l : forall i j x, j < length l ->
  nth i (set_nth l j x) NNil = if Nat.eqb i j then x else nth i l NNil.
Proof.
  induction l as [|a l IH]; intros i j x H; cbn [length] in H; [lia|].
  destruct j as [|j]; destruct i as [|i]; cbn [set_nth nth Nat.eqb]; auto. apply IH. lia.
Qed.

Lemma forallb_set_nth (f : node -> bool) l : forall i x,
  forallb f l = true -> f x = true -> forallb f (set_nth l i x) = true.
Proof.
  induction l as [|a l IH]; intros [|i] x H Hx; cbn [set_nth forallb] in *; auto;
    apply andb_true_iff in H as [H1 H2]; apply andb_true_iff; split; auto.
Qed.

Lemma count_cons a l : count_nonnil (a :: l) = (if is_nil a then 0 else 1) + count_nonnil l.
Proof. unfold count_nonnil. cbn [filter]. destruct (is_nil a); reflexivity. Qed.

Lemma count_set_nth l : forall i x, count_nonnil l <= S (count_nonnil (set_nth l i x)).
Proof.
  induction l as [|a l IH]; intros [|i] x; cbn [set_nth]; rewrite ?count_cons; try (unfold count_nonnil; cbn; lia).
  - destruct (is_nil a), (is_nil x); lia.
  - specialize (IH i x). destruct (is_nil a); lia.
Qed.

Lemma is_nil_eq c : is_nil c = true -> c = NNil.
Proof. destruct c; try discriminate; reflexivity. Qed.

Lemma forallb_is_nil_count l : forallb is_nil l = true -> count_nonnil l = 0.
Proof.
  induction l as [|a l IH]; [reflexivity|]. cbn [forallb]. intros H. apply andb_true_iff in H as [H1 H2].
  rewrite count_cons, H1. auto.
Qed.

Lemma forallb_is_nil_nth l : forallb is_nil l = true -> forall j, nth j l NNil = NNil.
Proof.
  induction l as [|a l IH]; intros H [|j]; cbn [nth]; auto; cbn [forallb] in H; apply andb_true_iff in H as [H1 H2].
  - now apply is_nil_eq. - auto.
Qed.

Lemma forallb_is_nil_false_count l : forallb is_nil l = false -> 1 <= count_nonnil l.
Proof.
  induction l as [|a l IH]; [discriminate|]. cbn [forallb]. rewrite count_cons. intros H.
  destruct (is_nil a); [cbn [andb] in H; specialize (IH H)|]; lia.
Qed.

Lemma single_child_spec : forall cs i,
  match single_child cs i with
  | Some None => count_nonnil cs = 0
  | None => 2 <= count_nonnil cs
  | Some (Some p) => i <= p /\ p - i < length cs /\ is_nil (nth (p - i) cs NNil) = false /\
                     (forall j, j <> p - i -> nth j cs NNil = NNil)
  end.
Proof.
  induction cs as [|c t IH]; intros i; cbn [single_child]; [reflexivity|].
  destruct (is_nil c) eqn:Ec.
  - specialize (IH (S i)). destruct (single_child t (S i)) as [[p|]|].
    + destruct IH as (H1 & H2 & H3 & H4). replace (p - i) with (S (p - S i)) by lia.
      cbn [length nth]. repeat split; try lia; auto.
      intros [|j] Hj; cbn [nth]; [now apply is_nil_eq|]. apply H4. lia.
    + rewrite count_cons, Ec. lia.
    + rewrite count_cons, Ec. lia.
  - destruct (forallb is_nil t) eqn:Et.
    + rewrite Nat.sub_diag. cbn [length nth]. repeat split; try lia; auto.
      intros [|j] Hj; [lia|]. cbn [nth]. now apply forallb_is_nil_nth.
    + rewrite count_cons, Ec. apply forallb_is_nil_false_count in Et. lia.
Qed.

(* ------------------------------------------------------------------ canonical full nodes, slot by slot *)

Definition slot_ok (i : nat) (c : node) : bool :=
  if Nat.ltb i 16 then is_nil c || canon c
  else match c with NNil => true | NVal v => nonempty v | _ => false end.

Lemma canon_full_eq cs f : canon (NFull cs f) =
    (Nat.eqb (length cs) 17
    && forallb (fun c => is_nil c || is_val c || canon c) cs
    && forallb (fun c => negb (is_val c)) (firstn 16 cs)
    && forallb val_ok cs
    && match nth 16 cs NNil with NNil | NVal _ => true | _ => false end
    && Nat.leb 2 (count_nonnil cs)).
Proof. reflexivity. Qed.

Lemma canon_short_eq k c f : canon (NShort k c f) =
  (nonempty k && match c with
                 | NVal v => tkeyb k && nonempty v
                 | NFull _ _ => pathb k && canon c
                 | _ => false
                 end).
Proof. reflexivity. Qed.

Lemma canon_full_elim cs f : canon (NFull cs f) = true ->
  length cs = 17 /\ (forall i, i < 17 -> slot_ok i (nth i cs NNil) = true) /\ 2 <= count_nonnil cs.
Proof.
  rewrite canon_full_eq, !andb_true_iff. intros [[[[[H1 H2] H3] H4] H5] H6].
  apply Nat.eqb_eq in H1. apply Nat.leb_le in H6. split; [auto|split; [|auto]].
  intros i Hi. pose proof (proj1 (forallb_nth_iff _ NNil _) H2) as H2'.
  pose proof (proj1 (forallb_nth_iff _ NNil _) H3) as H3'.
  pose proof (proj1 (forallb_nth_iff _ NNil _) H4) as H4'. clear H2 H3 H4.
  rename H2' into H2, H3' into H3, H4' into H4. unfold slot_ok.
  destruct (Nat.ltb_spec i 16).
  - specialize (H2 i ltac:(lia)). specialize (H3 i). rewrite firstn_length, H1 in H3.
    specialize (H3 ltac:(lia)). rewrite nth_firstn_lt in H3 by lia.
    destruct (nth i cs NNil); cbn [is_nil is_val orb negb] in *; try discriminate; auto.
  - assert (i = 16) by lia; subst i. specialize (H4 16 ltac:(lia)).
    destruct (nth 16 cs NNil); cbn [val_ok] in *; auto; discriminate.
Qed.

Lemma canon_full_intro cs f : length cs = 17 ->
  (forall i, i < 17 -> slot_ok i (nth i cs NNil) = true) -> 2 <= count_nonnil cs ->
  canon (NFull cs f) = true.
Proof.
  intros Hl Hs Hc. rewrite canon_full_eq, !andb_true_iff. repeat split.
  - now apply Nat.eqb_eq.
  - apply (forallb_nth_iff _ NNil). intros i Hi. specialize (Hs i ltac:(lia)). unfold slot_ok in Hs.
    destruct (Nat.ltb_spec i 16);
      destruct (nth i cs NNil); cbn [is_nil is_val orb] in *; auto; discriminate.
  - apply (forallb_nth_iff _ NNil). intros i Hi. rewrite firstn_length in Hi.
    rewrite nth_firstn_lt by lia. specialize (Hs i ltac:(lia)). unfold slot_ok in Hs.
    destruct (Nat.ltb_spec i 16); [|lia].
    destruct (nth i cs NNil); cbn [is_nil is_val orb negb canon] in *; auto; discriminate.
  - apply (forallb_nth_iff _ NNil). intros i Hi. specialize (Hs i ltac:(lia)). unfold slot_ok in Hs.
    destruct (Nat.ltb_spec i 16);
      destruct (nth i cs NNil); cbn [is_nil val_ok orb canon] in *; auto; discriminate.
  - specialize (Hs 16 ltac:(lia)). unfold slot_ok in Hs. cbn [Nat.ltb Nat.leb] in Hs.
    destruct (nth 16 cs NNil); auto; discriminate.
  - now apply Nat.leb_le.
Qed.

(* ------------------------------------------------------------------ tryGet *)

Lemma try_get_S fuel d gen n key : try_get (S fuel) d gen n key =
    match n with
    | NNil => Ok (None, NNil, false)
    | NVal v => Ok (Some v, n, false)
    | NShort nk nv f =>
      if negb (has_prefix key nk) then Ok (None, n, false)
      else
        bind (try_get fuel d gen nv (skipn (length nk) key)) (fun '(v, nn, did) =>
          if did then Ok (v, NShort nk nn (mkFlag (fhash f) gen (fdirty f)), did)
          else Ok (v, n, did))
    | NFull cs f =>
      match key with
      | [] => Panic
      | k0 :: krest =>
        bind (get_child cs k0) (fun c =>
        bind (try_get fuel d gen c krest) (fun '(v, nn, did) =>
          if did then bind (set_child cs k0 nn) (fun cs' => Ok (v, NFull cs' (mkFlag (fhash f) gen (fdirty f)), did))
          else Ok (v, n, did)))
      end
    | NHash h =>
      bind (resolve_hash d h gen) (fun child =>
      bind (try_get fuel d gen child key) (fun '(v, nn, _) => Ok (v, nn, true)))
    end.
Proof. reflexivity. Qed.

Lemma get_child_ok cs b : nidx b < length cs -> get_child cs b = Ok (nth (nidx b) cs NNil).
Proof. intros H. unfold get_child. rewrite (nth_error_nth' cs NNil H). reflexivity. Qed.

Lemma try_get_canon : forall fuel d gen n key,
  canon n = true -> tkeyb key = true -> length key < fuel ->
  try_get fuel d gen n key = Ok (lookup (content_of n) key, n, false).
Proof.
  induction fuel as [|fuel IH]; intros d gen n key Hc Hk Hl; [lia|].
  rewrite try_get_S. destruct n as [|nk nv f|cs f|h|v]; try discriminate Hc.
  - rewrite canon_short_eq in Hc. apply andb_true_iff in Hc as [Hne Hc]. apply nonempty_len in Hne.
    rewrite content_short.
    destruct (has_prefix key nk) eqn:Hp; cbn [negb].
    + apply has_prefix_true in Hp. remember (skipn (length nk) key) as rest eqn:Er. clear Er. subst key.
      rewrite app_length in Hl. rewrite lookup_pre_key.
      destruct nv as [| | cs' f'| |v]; try discriminate Hc.
      * apply andb_true_iff in Hc as [Hpath Hcf]. rewrite tkeyb_app_path in Hk by auto.
        rewrite (IH d gen _ rest Hcf Hk) by lia. reflexivity.
      * apply andb_true_iff in Hc as [Htk Hv]. apply (tkeyb_app_nil nk rest Htk) in Hk. subst rest.
        destruct fuel; [lia|]. reflexivity.
    + rewrite lookup_pre_key_none by (apply has_prefix_false; auto). reflexivity.
  - destruct key as [|k0 rest]; [discriminate|].
    apply canon_full_elim in Hc as (Hlen & Hs & _).
    apply tkeyb_head in Hk as [Hi Hk]. cbn [length] in Hl.
    rewrite get_child_ok by lia. cbn [bind]. rewrite lookup_full by auto.
    specialize (Hs (nidx k0) Hi). unfold slot_ok in Hs.
    remember (nth (nidx k0) cs NNil) as c eqn:Ec. clear Ec.
    destruct Hk as [(Hn & Hk & Hlt)|[-> ->]].
    + destruct (Nat.ltb_spec (nidx k0) 16); [|lia]. apply orb_true_iff in Hs as [Hs|Hs].
      * apply is_nil_eq in Hs. subst c. destruct fuel; [lia|]. reflexivity.
      * rewrite (IH d gen c rest Hs Hk) by lia. reflexivity.
    + rewrite nidx_term in Hs. cbn [Nat.ltb Nat.leb] in Hs.
      destruct fuel; [lia|]. destruct c; try discriminate Hs; reflexivity.
Qed.

Theorem try_get_lookup : forall fuel d gen n key,
  canon_root n = true -> tkeyb key = true -> (length key < fuel)%nat ->
  try_get fuel d gen n key = Ok (lookup (content_of n) key, n, false).
Proof.
  unfold canon_root. intros fuel d gen n key H Hk Hl. apply orb_true_iff in H as [H|H].
  - apply is_nil_eq in H. subst n. destruct fuel; [lia|]. reflexivity.
  - now apply try_get_canon.
Qed.

(* ------------------------------------------------------------------ delete *)

Lemma delete_S fuel d gen n key : delete (S fuel) d gen n key =
    match n with
    | NShort nk nv f =>
      let m := prefix_len key nk in
      if Nat.ltb m (length nk) then Ok (false, n)
      else if Nat.eqb m (length key) then Ok (true, NNil)
      else
        bind (delete fuel d gen nv (skipn (length nk) key)) (fun '(dirty, child) =>
          if negb dirty then Ok (false, n)
          else match child with
               | NShort ck cv _ => Ok (true, NShort (nk ++ ck) cv (new_flag gen))
               | _ => Ok (true, NShort nk child (new_flag gen))
               end)
    | NFull cs f =>
      match key with
      | [] => Panic
      | k0 :: krest =>
        bind (get_child cs k0) (fun c =>
        bind (delete fuel d gen c krest) (fun '(dirty, nn) =>
          if negb dirty then Ok (false, n)
          else
            bind (set_child cs k0 nn) (fun cs' =>
              match single_child cs' 0 with
              | Some (Some pos) =>
                let posb := n2b (N.of_nat pos) in
                let cld := nth pos cs' NNil in
                if negb (Nat.eqb pos 16) then
                  bind (resolve d cld gen) (fun cnode =>
                    match cnode with
                    | NShort ck cv _ => Ok (true, NShort (posb :: ck) cv (new_flag gen))
                    | _ => Ok (true, NShort [posb] cld (new_flag gen))
                    end)
                else Ok (true, NShort [posb] cld (new_flag gen))
              | _ => Ok (true, NFull cs' (new_flag gen))
              end)))
      end
    | NVal _ => Ok (true, NNil)
    | NNil => Ok (false, NNil)
    | NHash h =>
      bind (resolve_hash d h gen) (fun rn =>
      bind (delete fuel d gen rn key) (fun '(dirty, nn) =>
        if dirty then Ok (true, nn) else Ok (false, rn)))
    end.
Proof. reflexivity. Qed.

Definition is_full (n : node) : bool := match n with NFull _ _ => true | _ => false end.

Definition del_post (n : node) (key : bytes) (dirty : bool) (n' : node) : Prop :=
  (dirty = false -> n' = n) /\
  canon_root n' = true /\
  (is_full n = true -> canon n' = true) /\
  (forall k', tkeyb k' = true ->
     lookup (content_of n') k' = if bytes_eqb key k' then None else lookup (content_of n) k') /\
  (nohash n = true -> nohash n' = true).

Lemma del_post_same n key : canon n = true -> lookup (content_of n) key = None -> del_post n key false n.
Proof.
  intros Hc Hl. repeat split; auto.
  - unfold canon_root. rewrite Hc. apply orb_true_r.
  - intros k' _. destruct (bytes_eqb_spec key k'); [subst; auto|reflexivity].
Qed.

Lemma nohash_short_eq k c f : nohash (NShort k c f) = fnohash f && nohash c.
Proof. reflexivity. Qed.
Lemma nohash_full_eq cs f : nohash (NFull cs f) = fnohash f && forallb nohash cs.
Proof. reflexivity. Qed.

Lemma map_pre_key_app a b (J : content) : map (pre_key (a ++ b)) J = map (pre_key a) (map (pre_key b) J).
Proof.
  rewrite map_map. apply map_ext. intros [k v]. unfold pre_key; cbn [fst snd]. now rewrite app_assoc.
Qed.

Lemma lookup_short_del nk (J J' : content) rest :
  (forall r', tkeyb r' = true -> lookup J' r' = if bytes_eqb rest r' then None else lookup J r') ->
  pathb nk = true ->
  forall k', tkeyb k' = true ->
    lookup (map (pre_key nk) J') k' =
    if bytes_eqb (nk ++ rest) k' then None else lookup (map (pre_key nk) J) k'.
Proof.
  intros H Hp k' Hk'. destruct (has_prefix k' nk) eqn:Hpre.
  - apply has_prefix_true in Hpre. remember (skipn (length nk) k') as r' eqn:Er. clear Er. subst k'.
    rewrite !lookup_pre_key. rewrite tkeyb_app_path in Hk' by auto. rewrite H by auto.
    destruct (bytes_eqb_spec rest r') as [e|ne]; destruct (bytes_eqb_spec (nk ++ rest) (nk ++ r')) as [e'|ne'];
      try reflexivity.
    + subst. contradiction.
    + apply app_inv_head in e'. contradiction.
  - rewrite !lookup_pre_key_none by (apply has_prefix_false; auto).
    destruct (bytes_eqb (nk ++ rest) k'); reflexivity.
Qed.

Lemma lookup_full_del cs f f' k0 krest nn :
  length cs = 17 -> nidx k0 < 17 ->
  (forall r', tkeyb (k0 :: r') = true ->
     lookup (content_of nn) r' =
     if bytes_eqb krest r' then None else lookup (content_of (nth (nidx k0) cs NNil)) r') ->
  forall k', tkeyb k' = true ->
    lookup (content_of (NFull (set_nth cs (nidx k0) nn) f')) k' =
    if bytes_eqb (k0 :: krest) k' then None else lookup (content_of (NFull cs f)) k'.
Proof.
  intros Hl Hi H k' Hk'. destruct k' as [|b r']; [discriminate|].
  pose proof Hk' as Hk2. apply tkeyb_head in Hk2 as [Hb _].
  rewrite !lookup_full by (rewrite ?set_nth_length; auto).
  rewrite nth_set_nth by lia. cbn [bytes_eqb].
  destruct (Nat.eqb_spec (nidx b) (nidx k0)) as [e|ne].
  - assert (b = k0) by (rewrite <- (n2b_nidx b), e; apply n2b_nidx). subst b.
    rewrite H by auto. destruct (byte_eqb_spec k0 k0); [|congruence]. reflexivity.
  - destruct (byte_eqb_spec k0 b); [subst; contradiction|]. reflexivity.
Qed.

Lemma lookup_collapse cs' f' pos : length cs' = 17 -> pos < 17 ->
  (forall j, j <> pos -> nth j cs' NNil = NNil) ->
  forall k', tkeyb k' = true ->
    lookup (map (pre_key [n2b (N.of_nat pos)]) (content_of (nth pos cs' NNil))) k' =
    lookup (content_of (NFull cs' f')) k'.
Proof.
  intros Hl Hp H k' Hk'. destruct k' as [|b r']; [discriminate|].
  apply tkeyb_head in Hk' as [Hb _]. rewrite lookup_full by auto.
  transitivity (lookup (map (pre_nib pos) (content_of (nth pos cs' NNil))) (b :: r')); [reflexivity|].
  rewrite lookup_pre_nib. destruct (byte_eqb_spec (n2b (N.of_nat pos)) b) as [e|ne].
  - subst b. rewrite nidx_n2b by lia. reflexivity.
  - rewrite H; [reflexivity|]. intros E. apply ne. rewrite <- E. apply n2b_nidx.
Qed.

Lemma delete_canon : forall fuel d gen n key,
  canon n = true -> tkeyb key = true -> length key < fuel ->
  exists dirty n', delete fuel d gen n key = Ok (dirty, n') /\ del_post n key dirty n'.
Proof.
  induction fuel as [|fuel IH]; intros d gen n key Hc Hk Hl; [lia|].
  rewrite delete_S. destruct n as [|nk nv f|cs f|h|v]; try discriminate Hc.
  - (* short node *)
    pose proof Hc as Hcn.
    rewrite canon_short_eq in Hc. apply andb_true_iff in Hc as [Hne Hc]. apply nonempty_len in Hne.
    cbv zeta.
    destruct (Nat.ltb_spec (prefix_len key nk) (length nk)) as [Hm|Hm].
    + exists false, (NShort nk nv f). split; [reflexivity|]. apply del_post_same; auto.
      rewrite content_short. apply lookup_pre_key_none. apply prefix_len_short; auto.
    + pose proof (prefix_len_le_r key nk) as Hle.
      assert (Em : prefix_len key nk = length nk) by lia. clear Hm Hle.
      pose proof (prefix_len_full _ _ Em) as Hp. rewrite Em. clear Em.
      remember (skipn (length nk) key) as rest eqn:Er. clear Er. subst key.
      rewrite app_length in Hl |- *.
      destruct nv as [| |cs' f'| |v]; try discriminate Hc.
      * (* extension over a full node *)
        apply andb_true_iff in Hc as [Hpath Hcf]. rewrite tkeyb_app_path in Hk by auto.
        assert (Hr1 : 1 <= length rest) by (destruct rest; [discriminate|cbn [length]; lia]).
        destruct (Nat.eqb_spec (length nk) (length nk + length rest)); [lia|].
        destruct (IH d gen _ rest Hcf Hk ltac:(lia)) as (dirty & child & Ed & P1 & P2 & P3 & P4 & P5).
        rewrite Ed. cbn [bind].
        destruct dirty; cbn [negb].
        -- specialize (P3 eq_refl).
           assert (Hlk : forall R, content_of R = map (pre_key nk) (content_of child) ->
                     forall k', tkeyb k' = true ->
                       lookup (content_of R) k' =
                       if bytes_eqb (nk ++ rest) k' then None
                       else lookup (content_of (NShort nk (NFull cs' f') f)) k').
           { intros R ER k' Hk'. rewrite ER, content_short. apply lookup_short_del; auto. }
           assert (Hnh : nohash (NShort nk (NFull cs' f') f) = true -> nohash child = true).
           { rewrite nohash_short_eq. intros Hn. apply andb_true_iff in Hn as [_ Hn]. auto. }
           destruct child as [|ck cv fc|cs'' fc| |]; try discriminate P3.
           ++ exists true, (NShort (nk ++ ck) cv (new_flag gen)). split; [reflexivity|].
              assert (Hcr : canon (NShort (nk ++ ck) cv (new_flag gen)) = true).
              { rewrite canon_short_eq in P3 |- *. apply andb_true_iff in P3 as [Q1 Q2].
                apply andb_true_iff; split.
                - apply nonempty_app_l; exact Hne.
                - destruct cv; try discriminate Q2.
                  + unfold pathb in *. rewrite forallb_app. apply andb_true_iff in Q2 as [Q2 Q3].
                    rewrite Hpath, Q2, Q3. reflexivity.
                  + rewrite tkeyb_app_path by auto. exact Q2. }
              split; [discriminate|]. split; [unfold canon_root; rewrite Hcr; apply orb_true_r|].
              split; [auto|]. split.
              ** apply Hlk. rewrite !content_short. apply map_pre_key_app.
              ** intros Hn. specialize (Hnh Hn). rewrite nohash_short_eq in Hnh |- *.
                 apply andb_true_iff in Hnh as [_ Hnh]. rewrite Hnh. reflexivity.
           ++ exists true, (NShort nk (NFull cs'' fc) (new_flag gen)). split; [reflexivity|].
              assert (Hcr : canon (NShort nk (NFull cs'' fc) (new_flag gen)) = true).
              { rewrite canon_short_eq. rewrite Hpath, P3, (nonempty_of_len nk Hne). reflexivity. }
              split; [discriminate|]. split; [unfold canon_root; rewrite Hcr; apply orb_true_r|].
              split; [auto|]. split.
              ** apply Hlk. apply content_short.
              ** intros Hn. specialize (Hnh Hn). rewrite nohash_short_eq. rewrite Hnh. reflexivity.
        -- exists false, (NShort nk (NFull cs' f') f). split; [reflexivity|]. apply del_post_same; auto.
           rewrite content_short, lookup_pre_key. specialize (P1 eq_refl). subst child.
           rewrite P4 by auto. rewrite bytes_eqb_refl. reflexivity.
      * (* leaf *)
        apply andb_true_iff in Hc as [Htk Hv]. apply (tkeyb_app_nil nk rest Htk) in Hk. subst rest.
        cbn [length]. rewrite Nat.add_0_r, Nat.eqb_refl.
        exists true, NNil. split; [reflexivity|]. split; [discriminate|]. split; [reflexivity|].
        split; [discriminate|]. split; [|reflexivity].
        intros k' _. rewrite app_nil_r. cbn [content_of map pre_key lookup fst snd]. rewrite app_nil_r.
        destruct (bytes_eqb nk k'); reflexivity.
  - (* full node *)
    destruct key as [|k0 krest]; [discriminate|].
    pose proof Hc as Hcn.
    apply canon_full_elim in Hc as (Hlen & Hs & Hcnt).
    pose proof Hk as Hk0. apply tkeyb_head in Hk0 as [Hi Hk0]. cbn [length] in Hl.
    rewrite get_child_ok by lia. cbn [bind].
    pose proof (Hs (nidx k0) Hi) as Hsc.
    assert (Hch : exists dirty nn,
              delete fuel d gen (nth (nidx k0) cs NNil) krest = Ok (dirty, nn) /\
              (dirty = false -> nn = nth (nidx k0) cs NNil) /\
              slot_ok (nidx k0) nn = true /\
              (forall r', tkeyb (k0 :: r') = true ->
                 lookup (content_of nn) r' =
                 if bytes_eqb krest r' then None else lookup (content_of (nth (nidx k0) cs NNil)) r') /\
              (nohash (nth (nidx k0) cs NNil) = true -> nohash nn = true)).
    { remember (nth (nidx k0) cs NNil) as c eqn:Ec. clear Ec.
      destruct Hk0 as [(Hn & Hkr & Hlt)|[E1 E2]].
      - unfold slot_ok in *. destruct (Nat.ltb_spec (nidx k0) 16); [|lia].
        apply orb_true_iff in Hsc as [Hsc|Hsc].
        + apply is_nil_eq in Hsc. subst c. destruct fuel; [lia|]. exists false, NNil.
          split; [reflexivity|]. repeat split; auto.
          intros r' _. destruct (bytes_eqb krest r'); reflexivity.
        + destruct (IH d gen c krest Hsc Hkr ltac:(lia)) as (dirty & nn & Ed & P1 & P2 & P3 & P4 & P5).
          exists dirty, nn. split; [exact Ed|]. split; [exact P1|]. split; [exact P2|]. split; [|exact P5].
          intros r' Hr'. apply P4. rewrite tkeyb_cons_nib in Hr'; auto.
      - subst k0 krest. rewrite nidx_term in *. unfold slot_ok in Hsc. cbn [Nat.ltb Nat.leb] in Hsc.
        destruct fuel; [lia|]. destruct c; try discriminate Hsc.
        + exists false, NNil. split; [reflexivity|]. repeat split; auto.
          intros r' _. destruct r'; reflexivity.
        + exists true, NNil. split; [reflexivity|]. split; [discriminate|]. split; [reflexivity|].
          split; [|reflexivity]. intros r' Hr'.
          destruct (tkeyb_cons_nonnib _ _ nibb_term Hr') as [_ E]. subst r'. reflexivity. }
    destruct Hch as (dirty & nn & Ed & P1 & P2 & P4 & P5). rewrite Ed. cbn [bind].
    destruct dirty; cbn [negb].
    2:{ exists false, (NFull cs f). split; [reflexivity|]. apply del_post_same; auto.
        rewrite lookup_full by auto. specialize (P1 eq_refl).
        rewrite <- P1 at 1. rewrite P4 by exact Hk. rewrite bytes_eqb_refl. reflexivity. }
    unfold set_child. rewrite Hlen. rewrite (proj2 (Nat.ltb_lt (nidx k0) 17) Hi). cbn [bind].
    set (cs' := set_nth cs (nidx k0) nn).
    assert (Hlen' : length cs' = 17) by (unfold cs'; rewrite set_nth_length; auto).
    assert (Hs' : forall i, i < 17 -> slot_ok i (nth i cs' NNil) = true).
    { intros i Hi'. unfold cs'. rewrite nth_set_nth by (rewrite Hlen; exact Hi).
      destruct (Nat.eqb_spec i (nidx k0)); [subst; auto|auto]. }
    assert (Hcnt' : 1 <= count_nonnil cs')
      by (unfold cs'; pose proof (count_set_nth cs (nidx k0) nn) as Hq; clear - Hq Hcnt; lia).
    assert (Hlk' : forall f' k', tkeyb k' = true ->
              lookup (content_of (NFull cs' f')) k' =
              if bytes_eqb (k0 :: krest) k' then None else lookup (content_of (NFull cs f)) k').
    { intros f' k' Hk'. apply lookup_full_del; auto. }
    assert (Hnh' : nohash (NFull cs f) = true -> forallb nohash cs' = true).
    { rewrite nohash_full_eq. intros Hn. apply andb_true_iff in Hn as [_ Hn].
      apply forallb_set_nth; auto. apply P5.
      apply (proj1 (forallb_nth_iff nohash NNil cs) Hn). rewrite Hlen; exact Hi. }
    pose proof (single_child_spec cs' 0) as Hsc'.
    destruct (single_child cs' 0) as [[pos|]|].
    + (* one child left: collapse into a short node *)
      destruct Hsc' as (_ & Hpos & Hnn & Hoth). rewrite Nat.sub_0_r in Hpos, Hnn, Hoth.
      rewrite Hlen' in Hpos. cbv zeta.
      pose proof (Hs' pos Hpos) as Hsp. unfold slot_ok in Hsp.
      pose proof (lookup_collapse cs' (new_flag gen) pos Hlen' Hpos Hoth) as Hcol.
      assert (Hnhc : nohash (NFull cs f) = true -> nohash (nth pos cs' NNil) = true).
      { intros Hn. specialize (Hnh' Hn). apply (proj1 (forallb_nth_iff nohash NNil cs') Hnh'). rewrite Hlen'; exact Hpos. }
      remember (nth pos cs' NNil) as cld eqn:Ecld. clear Ecld.
      destruct (Nat.eqb_spec pos 16) as [E16|N16]; cbn [negb].
      * subst pos. cbn [Nat.ltb Nat.leb] in Hsp. destruct cld; try discriminate.
        exists true, (NShort [n2b (N.of_nat 16)] (NVal v) (new_flag gen)). split; [reflexivity|].
        assert (Hcr : canon (NShort [n2b (N.of_nat 16)] (NVal v) (new_flag gen)) = true).
        { rewrite canon_short_eq. rewrite Hsp. reflexivity. }
        split; [discriminate|]. split; [unfold canon_root; rewrite Hcr; apply orb_true_r|].
        split; [auto|]. split; [|reflexivity].
        intros k' Hk'. rewrite content_short, Hcol by auto. apply Hlk'. auto.
      * assert (Hp16 : pos < 16) by (clear - Hpos N16; lia).
        rewrite (proj2 (Nat.ltb_lt pos 16) Hp16) in Hsp. rewrite Hnn in Hsp. cbn [orb] in Hsp.
        assert (Hres : resolve d cld gen = Ok cld) by (destruct cld; try reflexivity; discriminate Hsp).
        rewrite Hres. cbn [bind].
        assert (Hnib : nibb (n2b (N.of_nat pos)) = true) by (apply nibb_n2b; exact Hp16).
        destruct cld as [|ck cv fc|cs'' fc| |]; try discriminate Hsp.
        -- exists true, (NShort (n2b (N.of_nat pos) :: ck) cv (new_flag gen)). split; [reflexivity|].
           assert (Hcr : canon (NShort (n2b (N.of_nat pos) :: ck) cv (new_flag gen)) = true).
           { rewrite canon_short_eq in Hsp |- *. apply andb_true_iff in Hsp as [Q1 Q2].
             apply andb_true_iff; split; [reflexivity|].
             destruct cv; try discriminate Q2.
             - cbn [pathb forallb]. rewrite Hnib. exact Q2.
             - rewrite tkeyb_cons_nib by auto. exact Q2. }
           split; [discriminate|]. split; [unfold canon_root; rewrite Hcr; apply orb_true_r|].
           split; [auto|]. split.
           ** intros k' Hk'. rewrite <- (Hlk' (new_flag gen)) by auto. rewrite <- Hcol by auto.
              rewrite !content_short. change (n2b (N.of_nat pos) :: ck) with ([n2b (N.of_nat pos)] ++ ck).
              rewrite map_pre_key_app. reflexivity.
           ** intros Hn. specialize (Hnhc Hn). rewrite nohash_short_eq in Hnhc |- *.
              apply andb_true_iff in Hnhc as [_ Hnhc]. rewrite Hnhc. reflexivity.
        -- exists true, (NShort [n2b (N.of_nat pos)] (NFull cs'' fc) (new_flag gen)). split; [reflexivity|].
           assert (Hcr : canon (NShort [n2b (N.of_nat pos)] (NFull cs'' fc) (new_flag gen)) = true).
           { rewrite canon_short_eq. cbn [nonempty pathb forallb]. rewrite Hnib, Hsp. reflexivity. }
           split; [discriminate|]. split; [unfold canon_root; rewrite Hcr; apply orb_true_r|].
           split; [auto|]. split.
           ** intros k' Hk'. rewrite content_short, Hcol by auto. apply Hlk'. auto.
           ** intros Hn. specialize (Hnhc Hn). rewrite nohash_short_eq. rewrite Hnhc. reflexivity.
    + exfalso. clear - Hsc' Hcnt'. lia.
    + exists true, (NFull cs' (new_flag gen)). split; [reflexivity|].
      assert (Hcr : canon (NFull cs' (new_flag gen)) = true) by (apply canon_full_intro; auto).
      split; [discriminate|]. split; [unfold canon_root; rewrite Hcr; apply orb_true_r|].
      split; [auto|]. split; [apply Hlk'|].
      intros Hn. rewrite nohash_full_eq. rewrite (Hnh' Hn). reflexivity.
Qed.

Theorem delete_spec : forall fuel d gen n key,
  canon_root n = true -> tkeyb key = true -> (length key < fuel)%nat ->
  exists dirty n', delete fuel d gen n key = Ok (dirty, n') /\ canon_root n' = true /\
    (forall k', tkeyb k' = true ->
       lookup (content_of n') k' = if bytes_eqb key k' then None else lookup (content_of n) k') /\
    (nohash n = true -> nohash n' = true).
Proof.
  intros fuel d gen n key H Hk Hl. unfold canon_root in H. apply orb_true_iff in H as [H|H].
  - apply is_nil_eq in H. subst n. destruct fuel; [lia|]. exists false, NNil.
    split; [reflexivity|]. split; [reflexivity|]. split; [|auto].
    intros k' _. destruct (bytes_eqb key k'); reflexivity.
  - destruct (delete_canon fuel d gen n key H Hk Hl) as (dirty & n' & Ed & _ & P2 & _ & P4 & P5).
    exists dirty, n'. auto.
Qed.
