(* Trie/TrieLazyIterProofs.v — iteration (TrieModel.leaves) over a lazily loaded
   trie: on any lazy form x (TrieLazyDefs.lzf) of a canonical node m the
   traversal lists the content of m.  Hash nodes are resolved through the
   database (one extra step per level) and the walk continues on the decoded
   node; the trie itself is not changed. *)
From AQ Require Import Lib.Bytes Rlp.RlpSpec Rlp.RlpProofs Trie.MptSpec Trie.TrieModel Trie.TrieInv
  Trie.TrieProofs Trie.TrieRootProofs Trie.TrieCodecDefs Trie.TrieCodecProofs Trie.TrieReopenProofs
  Trie.TrieLazyDefs Trie.TrieIterProofs Trie.TrieLazyGetProofs.
From Coq Require Import ZifyBool ZifyN ZifyNat.
Local Open Scope nat_scope.

Lemma leaves_hash f d gen h path :
  leaves (S f) d gen (NHash h) path =
  if has_term path then Panic else bind (resolve_hash d h gen) (fun r => leaves f d gen r path).
Proof. reflexivity. Qed.

Section LazyIter.
Variable H : bytes -> bytes.
Hypothesis Hlen : forall x, length (H x) = 32%nat.

Lemma lzf_nil_inv' d s m : lzf H d s m NNil -> m = NNil.
Proof. intros Hu. inversion Hu; subst; reflexivity. Qed.

(* the statement for one canonical node m, over all its lazy forms *)
Definition lz_ok (d : db) (gen : N) (m : node) : Prop :=
  forall fuel s x p, canon m = true -> lzf H d s m x -> pathb p = true ->
    2 * max_key_len (content_of m) + 3 <= fuel ->
    leaves fuel d gen x p = keyed p (content_of m).

(* it is enough to treat the loaded forms (not a hash node), with one step less *)
Lemma lz_ok_loaded d gen m :
  (forall fuel s x p, canon m = true -> is_hash x = false -> lzf H d s m x -> pathb p = true ->
     2 * max_key_len (content_of m) + 2 <= fuel ->
     leaves fuel d gen x p = keyed p (content_of m)) ->
  lz_ok d gen m.
Proof.
  intros Hld fuel s x p Hc Hu Hp Hf.
  destruct (is_hash x) eqn:Eh.
  - destruct x as [| | |h|]; try discriminate Eh.
    inversion Hu as [s0 m0 Ha | | | |]; subst.
    pose proof Ha as (_ & Hfit & Hst & Hcov).
    destruct fuel as [|fu]; [lia|].
    rewrite leaves_hash, (has_term_path _ Hp).
    rewrite (resolve_stored H Hlen d m gen Hc (all_fits_top H m Hc Hfit) Hst). cbn [bind].
    apply (Hld fu false); [exact Hc|apply dec_node_not_hash; exact Hc| |exact Hp|lia].
    apply dec_lzf; [exact Ha|]. intros E; discriminate E.
  - apply (Hld fuel s); try assumption. lia.
Qed.

(* the children loop *)
Lemma lv_go_lazy f d gen path :
  pathb path = true -> 1 <= f ->
  forall cs xs i, Forall2 (lzf H d true) cs xs -> slots_ok i cs -> i + length cs = 17 ->
  Forall (lz_ok d gen) cs ->
  (forall c, In c cs -> canon c = true -> 2 * max_key_len (content_of c) + 3 <= f) ->
  lv_go f d gen path i xs = keyed path (join i (map content_of cs)).
Proof.
  intros Hp Hf cs xs i HF2. revert i.
  induction HF2 as [|c x cs xs Hu HF2 IH]; intros i Hs Hl HF Hm.
  - reflexivity.
  - rewrite lv_go_cons. cbn [map join]. rewrite keyed_app, keyed_pre_nib.
    destruct Hs as [Hx Hs]. inversion HF as [|? ? HFx HFt]; subst.
    assert (Hl' : S i + length cs = 17) by (cbn [length] in Hl; lia).
    rewrite (IH (S i) Hs Hl' HFt (fun y Hy => Hm y (or_intror Hy))).
    assert (A : lv_slot f d gen path i x = keyed (path ++ [n2b (N.of_nat i)]) (content_of c)).
    { unfold child_ok in Hx. destruct (Nat.ltb_spec i 16) as [Hi|Hi].
      - destruct Hx as [->|Hc].
        + apply lzf_nil_inv in Hu. subst x. reflexivity.
        + transitivity (leaves f d gen x (path ++ [n2b (N.of_nat i)])).
          { destruct x; try reflexivity. apply lzf_nil_inv' in Hu. subst c. discriminate Hc. }
          apply (HFx f true); [exact Hc|exact Hu|apply pathb_snoc_nib; assumption|].
          apply Hm; [left; reflexivity|exact Hc].
      - assert (i = 16) by (cbn [length] in Hl; lia). subst i.
        destruct Hx as [->|[v ->]].
        + apply lzf_nil_inv in Hu. subst x. reflexivity.
        + apply lzf_val_inv in Hu. subst x.
          destruct f as [|f']; [lia|]. unfold lv_slot. rewrite leaves_val.
          change (n2b (N.of_nat 16)) with term. rewrite has_term_snoc.
          cbn [content_of]. rewrite keyed_cons. cbn [fst snd keyed]. rewrite app_nil_r.
          destruct (hex_to_keybytes (path ++ [term])); reflexivity. }
    rewrite A. reflexivity.
Qed.

Lemma leaves_lazy_aux d gen : forall m, lz_ok d gen m.
Proof.
  induction m as [|k c f IH|cs f IH|h|v] using node_ind';
    try (intros fuel s x p Hc; discriminate Hc); apply lz_ok_loaded;
    intros fuel s x path Hc Hnh Hu Hp Hf.
  - (* short node *)
    inversion Hu as [s0 m0 Ha | | | s0 k0 c0 x1 f0 f' Hu1 Hb1 Hfl | ]; subst; [discriminate Hnh|].
    destruct fuel as [|fu]; [lia|]. rewrite leaves_short, (has_term_path _ Hp).
    destruct (canon_short_inv _ _ _ Hc) as [Hk [(v & -> & Ht & Hv)|(cs & fc & -> & Hpk & Hcc)]].
    + apply lzf_val_inv in Hu1. subst x1.
      destruct fu as [|fu]; [lia|]. rewrite leaves_val.
      destruct (tkey_facts _ (tkeyb_app _ _ Hp Ht)) as [HT _]. rewrite HT.
      rewrite content_short. cbn [content_of map]. rewrite keyed_cons.
      unfold pre_key. cbn [fst snd keyed]. rewrite app_nil_r.
      destruct (hex_to_keybytes (path ++ k)); reflexivity.
    + rewrite content_short in Hf |- *. rewrite keyed_pre_key.
      apply (IH fu true); [exact Hcc|exact Hu1|rewrite pathb_app, Hp, Hpk; reflexivity|].
      pose proof (max_key_len_pre k (content_of (NFull cs fc)) (canon_content_ne _ Hcc) Hk) as Hlt.
      clear - Hlt Hf. lia.
  - (* full node *)
    inversion Hu as [s0 m0 Ha | | | | s0 cs0 xs f0 f' Hus Hbs Hfl]; subst; [discriminate Hnh|].
    destruct fuel as [|fu]; [lia|]. rewrite leaves_full, (has_term_path _ Hp).
    destruct (canon_full_inv _ _ Hc) as (Hl & _).
    rewrite content_full in Hf |- *.
    apply lv_go_lazy; [exact Hp|clear - Hf; lia|exact Hus|exact (canon_slots_ok _ _ Hc)|clear - Hl; lia|exact IH|].
    intros x Hin Hx. pose proof (child_max cs x Hl Hin Hx) as Hlt. clear - Hlt Hf. lia.
Qed.

(* iteration below any lazy form of a canonical node lists its content *)
Theorem leaves_lazy : forall fuel d gen s m x path,
  canon m = true -> lzf H d s m x -> pathb path = true ->
  2 * max_key_len (content_of m) + 3 <= fuel ->
  leaves fuel d gen x path = keyed path (content_of m).
Proof. intros fuel d gen s m x path. apply leaves_lazy_aux. Qed.

(* the root as trie_iterate walks it: fuel 200, empty path *)
Corollary leaves_lazy_root : forall d gen m x,
  canon_root m = true -> lzf H d false m x -> max_key_len (content_of m) <= 98 ->
  leaves 200 d gen x [] = keyed [] (content_of m).
Proof.
  intros d gen m x Hr Hu Hm. unfold canon_root in Hr. apply orb_prop in Hr as [Hn|Hc].
  - destruct m; try discriminate Hn. apply lzf_nil_inv in Hu. subst x. reflexivity.
  - apply (leaves_lazy 200 d gen false m x []); [exact Hc|exact Hu|reflexivity|clear - Hm; lia].
Qed.

(* the same for the trie value *)
Corollary leaves_lazy_trie : forall d m t,
  lazy_trie H d m t -> max_key_len (content_of m) <= 98 ->
  leaves 200 d (tgen t) (troot t) [] = keyed [] (content_of m).
Proof. intros d m t (Hr & Hu & _) Hm. apply leaves_lazy_root; assumption. Qed.

End LazyIter.
