(* Trie/TrieIterProofs.v — the model of iterator.go (TrieModel.leaves) lists
   exactly the abstract content of a canonical trie node, in content order:
   leaves_content (the traversal is [keyed path (content_of n)]),
   hex_to_keybytes_hex (hexToKeybytes inverts keybytesToHex) and keyed_hexed
   (for a content whose keys are hex forms of byte keys the listing is that
   content with the byte keys, in the same order). *)
From Coq Require Import ZifyBool ZifyN ZifyNat.
From AQ Require Import Lib.Bytes Rlp.RlpSpec Trie.MptSpec Trie.TrieModel Trie.TrieInv
  Trie.TrieProofs Trie.TrieRootProofs.
Local Open Scope N_scope.

(* ------------------------------------------------------------------ keyed *)

(* the listing of a content below a nibble path: keys converted by hexToKeybytes *)
Fixpoint keyed (path : bytes) (J : content) : res (list (bytes * bytes)) :=
  match J with
  | [] => Ok []
  | kv :: t =>
    bind (hex_to_keybytes (path ++ fst kv)) (fun kb =>
    bind (keyed path t) (fun r => Ok ((kb, snd kv) :: r)))
  end.

Lemma keyed_cons path kv t :
  keyed path (kv :: t) =
  bind (hex_to_keybytes (path ++ fst kv)) (fun kb =>
  bind (keyed path t) (fun r => Ok ((kb, snd kv) :: r))).
Proof. reflexivity. Qed.

Lemma keyed_app p a b :
  keyed p (a ++ b) = bind (keyed p a) (fun x => bind (keyed p b) (fun y => Ok (x ++ y))).
Proof.
  induction a as [|kv a IH].
  - cbn [app keyed bind]. destruct (keyed p b); reflexivity.
  - cbn [app]. rewrite !keyed_cons, IH.
    destruct (hex_to_keybytes (p ++ fst kv)); cbn [bind]; try reflexivity.
    destruct (keyed p a); cbn [bind]; try reflexivity.
    destruct (keyed p b); reflexivity.
Qed.

Lemma keyed_pre_key path k J : keyed path (map (pre_key k) J) = keyed (path ++ k) J.
Proof.
  induction J as [|kv J IH]; [reflexivity|].
  cbn [map]. rewrite !keyed_cons, IH. unfold pre_key. cbn [fst snd].
  now rewrite app_assoc.
Qed.

Lemma keyed_pre_nib path i J :
  keyed path (map (pre_nib i) J) = keyed (path ++ [n2b (N.of_nat i)]) J.
Proof.
  induction J as [|kv J IH]; [reflexivity|].
  cbn [map]. rewrite !keyed_cons, IH. unfold pre_nib. cbn [fst snd].
  rewrite <- app_assoc. reflexivity.
Qed.

(* ------------------------------------------------------------------ has_term *)

Lemma has_term_snoc l : has_term (l ++ [term]) = true.
Proof.
  unfold has_term. destruct (l ++ [term]) eqn:E.
  - destruct l; discriminate E.
  - rewrite <- E, last_last. reflexivity.
Qed.

(* ------------------------------------------------------------------ one-step unfoldings of leaves *)

Definition lv_slot (f : nat) (d : db) (gen : N) (path : bytes) (i : nat) (x : node)
  : res (list (bytes * bytes)) :=
  match x with
  | NNil => Ok []
  | _ => leaves f d gen x (path ++ [n2b (N.of_nat i)])
  end.

Definition lv_go (f : nat) (d : db) (gen : N) (path : bytes)
  : nat -> list node -> res (list (bytes * bytes)) :=
  fix go (i : nat) (l : list node) {struct l} : res (list (bytes * bytes)) :=
    match l with
    | [] => Ok []
    | x :: t =>
      bind (lv_slot f d gen path i x) (fun a =>
      bind (go (S i) t) (fun b => Ok (a ++ b)))
    end.

Lemma lv_go_cons f d gen path i x t :
  lv_go f d gen path i (x :: t) =
  bind (lv_slot f d gen path i x) (fun a =>
  bind (lv_go f d gen path (S i) t) (fun b => Ok (a ++ b))).
Proof. reflexivity. Qed.

Lemma leaves_val f d gen v path :
  leaves (S f) d gen (NVal v) path =
  if has_term path then bind (hex_to_keybytes path) (fun k => Ok [(k, v)]) else Ok [].
Proof. reflexivity. Qed.

Lemma leaves_nil f d gen path :
  leaves (S f) d gen NNil path = if has_term path then Panic else Ok [].
Proof. reflexivity. Qed.

Lemma leaves_short f d gen k c fl path :
  leaves (S f) d gen (NShort k c fl) path =
  if has_term path then Panic else leaves f d gen c (path ++ k).
Proof. reflexivity. Qed.

Lemma leaves_full f d gen cs fl path :
  leaves (S f) d gen (NFull cs fl) path =
  if has_term path then Panic else lv_go f d gen path 0 cs.
Proof. reflexivity. Qed.

Lemma content_short k c f : content_of (NShort k c f) = map (pre_key k) (content_of c).
Proof. reflexivity. Qed.
Lemma content_full cs f : content_of (NFull cs f) = join 0 (map content_of cs).
Proof. reflexivity. Qed.

(* ------------------------------------------------------------------ the children loop *)

Definition leaves_ok (d : db) (gen : N) (x : node) : Prop :=
  forall fuel p, canon x = true -> pathb p = true ->
    (2 * max_key_len (content_of x) + 2 <= fuel)%nat ->
    leaves fuel d gen x p = keyed p (content_of x).

Lemma pathb_snoc_nib path i : pathb path = true -> (i < 16)%nat ->
  pathb (path ++ [n2b (N.of_nat i)]) = true.
Proof.
  intros Hp Hi. rewrite pathb_app, Hp. cbn [pathb forallb andb]. rewrite andb_true_r.
  unfold nibb. rewrite b2n_n2b by lia. apply N.ltb_lt. lia.
Qed.

Lemma lv_go_spec f d gen path :
  pathb path = true -> (1 <= f)%nat ->
  forall l i, slots_ok i l -> (i + length l = 17)%nat ->
  Forall (leaves_ok d gen) l ->
  (forall x, In x l -> canon x = true -> (2 * max_key_len (content_of x) + 2 <= f)%nat) ->
  lv_go f d gen path i l = keyed path (join i (map content_of l)).
Proof.
  intros Hp Hf. induction l as [|x t IH]; intros i Hs Hl HF Hm.
  - reflexivity.
  - rewrite lv_go_cons. cbn [map join]. rewrite keyed_app, keyed_pre_nib.
    destruct Hs as [Hx Hs]. inversion HF as [|? ? HFx HFt]; subst.
    assert (Hl' : (S i + length t = 17)%nat) by (cbn [length] in Hl; lia).
    rewrite (IH (S i) Hs Hl' HFt (fun y Hy => Hm y (or_intror Hy))).
    assert (A : lv_slot f d gen path i x = keyed (path ++ [n2b (N.of_nat i)]) (content_of x)).
    { unfold child_ok in Hx. destruct (Nat.ltb_spec i 16) as [Hi|Hi].
      - destruct Hx as [->|Hc]; [reflexivity|].
        transitivity (leaves f d gen x (path ++ [n2b (N.of_nat i)])).
        { destruct x; try reflexivity; discriminate Hc. }
        apply HFx; [exact Hc|apply pathb_snoc_nib; assumption|].
        apply Hm; [left; reflexivity|exact Hc].
      - assert (i = 16%nat) by (cbn [length] in Hl; lia). subst i.
        destruct Hx as [->|[v ->]]; [reflexivity|].
        destruct f as [|f']; [lia|]. unfold lv_slot. rewrite leaves_val.
        change (n2b (N.of_nat 16)) with term. rewrite has_term_snoc.
        cbn [content_of]. rewrite keyed_cons. cbn [fst snd keyed]. rewrite app_nil_r.
        destruct (hex_to_keybytes (path ++ [term])); reflexivity. }
    rewrite A. reflexivity.
Qed.

(* ------------------------------------------------------------------ (1) leaves = keyed content *)

Lemma leaves_content_aux d gen : forall n, leaves_ok d gen n.
Proof.
  induction n as [|k c f IH|cs f IH|h|v] using node_ind';
    intros fuel path Hc Hp Hf; try discriminate Hc.
  - (* short node *)
    destruct fuel as [|fu]; [lia|]. rewrite leaves_short, (has_term_path _ Hp).
    destruct (canon_short_inv _ _ _ Hc) as [Hk [(v & -> & Ht & Hv)|(cs & f' & -> & Hpk & Hcc)]].
    + destruct fu as [|fu]; [lia|]. rewrite leaves_val.
      destruct (tkey_facts _ (tkeyb_app _ _ Hp Ht)) as [HT _]. rewrite HT.
      rewrite content_short. cbn [content_of map]. rewrite keyed_cons.
      unfold pre_key. cbn [fst snd keyed]. rewrite app_nil_r.
      destruct (hex_to_keybytes (path ++ k)); reflexivity.
    + rewrite content_short in Hf |- *. rewrite keyed_pre_key.
      apply IH; [exact Hcc|rewrite pathb_app, Hp, Hpk; reflexivity|].
      pose proof (max_key_len_pre k (content_of (NFull cs f')) (canon_content_ne _ Hcc) Hk) as Hlt.
      clear - Hlt Hf. lia.
  - (* full node *)
    destruct fuel as [|fu]; [lia|]. rewrite leaves_full, (has_term_path _ Hp).
    destruct (canon_full_inv _ _ Hc) as (Hl & _).
    rewrite content_full in Hf |- *.
    apply lv_go_spec; [exact Hp|clear - Hf; lia|exact (canon_slots_ok _ _ Hc)|clear - Hl; lia|exact IH|].
    intros x Hin Hx. pose proof (child_max cs x Hl Hin Hx) as Hlt. clear - Hlt Hf. lia.
Qed.

Theorem leaves_content : forall n fuel d gen path,
  canon n = true -> pathb path = true ->
  (2 * max_key_len (content_of n) + 2 <= fuel)%nat ->
  leaves fuel d gen n path = keyed path (content_of n).
Proof. intros n fuel d gen path. apply leaves_content_aux. Qed.

(* the root as trie_iterate walks it: fuel 200, empty path; the empty trie lists nothing *)
Corollary leaves_root : forall n d gen,
  canon_root n = true -> (max_key_len (content_of n) <= 99)%nat ->
  leaves 200 d gen n [] = keyed [] (content_of n).
Proof.
  intros n d gen Hr Hm. unfold canon_root in Hr. apply orb_prop in Hr as [Hn|Hc].
  - destruct n; try discriminate Hn. reflexivity.
  - apply leaves_content; [exact Hc|reflexivity|clear - Hm; lia].
Qed.

(* ------------------------------------------------------------------ (2) hexToKeybytes o keybytesToHex *)

Fixpoint nibs (s : bytes) : bytes :=
  match s with
  | [] => []
  | b :: t => n2b (b2n b / 16) :: n2b (b2n b mod 16) :: nibs t
  end.

Lemma keybytes_to_hex_nibs s : keybytes_to_hex s = nibs s ++ [term].
Proof.
  induction s as [|b t IH]; [reflexivity|].
  cbn [keybytes_to_hex nibs app]. now rewrite IH.
Qed.

Lemma nibs_odd s : Nat.odd (length (nibs s)) = false.
Proof. induction s as [|b t IH]; [reflexivity|]. cbn [nibs length]. exact IH. Qed.

Lemma nibs_pathb s : pathb (nibs s) = true.
Proof.
  induction s as [|b t IH]; [reflexivity|].
  cbn [nibs]. rewrite !pathb_cons, IH. pose proof (b2n_lt b) as Hb.
  assert (H1 : b2n b / 16 < 16) by (apply N.div_lt_upper_bound; lia).
  assert (H2 : b2n b mod 16 < 16) by (apply N.mod_lt; lia).
  unfold nibb. rewrite !b2n_n2b by lia.
  apply N.ltb_lt in H1. apply N.ltb_lt in H2. now rewrite H1, H2.
Qed.

Lemma decode_nibs s : decode_nibbles (nibs s) = s.
Proof.
  induction s as [|b t IH]; [reflexivity|].
  cbn [nibs decode_nibbles]. rewrite IH. f_equal.
  pose proof (b2n_lt b) as Hb.
  assert (H1 : b2n b / 16 < 16) by (apply N.div_lt_upper_bound; lia).
  assert (H2 : b2n b mod 16 < 16) by (apply N.mod_lt; lia).
  rewrite !b2n_n2b by lia. rewrite lor_nib by assumption.
  rewrite <- (N.div_mod (b2n b) 16) by lia. apply n2b_b2n.
Qed.

Lemma hex_to_keybytes_hex : forall kb, hex_to_keybytes (keybytes_to_hex kb) = Ok kb.
Proof.
  intros kb. unfold hex_to_keybytes. cbv zeta.
  rewrite keybytes_to_hex_nibs, has_term_snoc, removelast_last, nibs_odd, decode_nibs.
  reflexivity.
Qed.

(* ------------------------------------------------------------------ (3) the listing of a hex-keyed content *)

Theorem keyed_hexed : forall J,
  Forall (fun kv => exists kb, fst kv = keybytes_to_hex kb) J ->
  exists l, keyed [] J = Ok l /\ map snd l = map snd J /\
            map (fun kv => keybytes_to_hex (fst kv)) l = map fst J.
Proof.
  induction J as [|kv J IH]; intros HF.
  - exists []. repeat split.
  - inversion HF as [|? ? [kb Hk] HFt]; subst.
    destruct (IH HFt) as (l & El & Es & Ek).
    exists ((kb, snd kv) :: l). rewrite keyed_cons. cbn [app].
    rewrite Hk, hex_to_keybytes_hex. cbn [bind]. rewrite El. cbn [bind map fst snd].
    rewrite Es, Ek, Hk. repeat split.
Qed.

(* iterating a canonical root whose content is hex-keyed: the byte-keyed content, in order *)
Corollary leaves_hexed : forall n d gen,
  canon_root n = true -> (max_key_len (content_of n) <= 99)%nat ->
  Forall (fun kv => exists kb, fst kv = keybytes_to_hex kb) (content_of n) ->
  exists l, leaves 200 d gen n [] = Ok l /\ map snd l = map snd (content_of n) /\
            map (fun kv => keybytes_to_hex (fst kv)) l = map fst (content_of n).
Proof.
  intros n d gen Hr Hm HF. rewrite (leaves_root n d gen Hr Hm). exact (keyed_hexed _ HF).
Qed.
