(* Trie/TrieRootProofs.v — the hasher of the trie model (hasher.go hash /
   hashChildren / store, TrieModel.hash_node) computes, on a canonical node
   without cached hashes, the specification root of the node's content
   (MptSpec.mpt_c / mpt_root_hex).  Main theorems: hash_node_spec,
   hash_root_spec (Section Root). *)
From AQ Require Import Lib.Bytes Rlp.RlpSpec Trie.MptSpec Trie.TrieModel Trie.TrieInv.
From Coq Require Import ZifyBool ZifyN ZifyNat.
Local Open Scope N_scope.

(* ------------------------------------------------------------------ nibble arithmetic *)

Definition small16 : list N := map N.of_nat (seq 0 16).
Lemma in_small16 a : a < 16 -> In a small16.
Proof.
  intros Ha. unfold small16. rewrite <- (N2Nat.id a). apply in_map. apply in_seq. lia.
Qed.

Lemma lor_nib a b : a < 16 -> b < 16 -> N.lor ((a * 16) mod 256) b = 16 * a + b.
Proof.
  intros Ha Hb.
  assert (E : forallb (fun a => forallb (fun b => N.lor ((a * 16) mod 256) b =? 16 * a + b) small16) small16 = true)
    by (vm_compute; reflexivity).
  rewrite forallb_forall in E. specialize (E a (in_small16 a Ha)).
  rewrite forallb_forall in E. specialize (E b (in_small16 b Hb)).
  now apply N.eqb_eq in E.
Qed.

Lemma lor16 h : h < 16 -> N.lor 16 h = 16 + h.
Proof.
  intros Hh.
  assert (E : forallb (fun b => N.lor 16 b =? 16 + b) small16 = true) by (vm_compute; reflexivity).
  rewrite forallb_forall in E. specialize (E h (in_small16 h Hh)). now apply N.eqb_eq in E.
Qed.
Lemma lor48 h : h < 16 -> N.lor 48 h = 48 + h.
Proof.
  intros Hh.
  assert (E : forallb (fun b => N.lor 48 b =? 48 + b) small16 = true) by (vm_compute; reflexivity).
  rewrite forallb_forall in E. specialize (E h (in_small16 h Hh)). now apply N.eqb_eq in E.
Qed.

Lemma nibb_lt b : nibb b = true -> b2n b < 16.
Proof. unfold nibb. intros Hb. now apply N.ltb_lt in Hb. Qed.

Lemma pathb_cons a t : pathb (a :: t) = nibb a && pathb t.
Proof. reflexivity. Qed.

(* ------------------------------------------------------------------ compact encoding = HP *)

Lemma decode_nibbles_pack_aux p :
  (pathb p = true -> decode_nibbles p = pack p) /\
  (forall a, pathb (a :: p) = true -> decode_nibbles (a :: p) = pack (a :: p)).
Proof.
  induction p as [|b t [IH1 IH2]]; split.
  - reflexivity.
  - intros; reflexivity.
  - intros Hp. apply IH2. exact Hp.
  - intros a Hp. rewrite !pathb_cons in Hp.
    apply andb_prop in Hp as [Ha Hp]. apply andb_prop in Hp as [Hb Ht].
    cbn [decode_nibbles pack]. rewrite lor_nib by (apply nibb_lt; assumption).
    now rewrite IH1.
Qed.
Lemma decode_nibbles_pack p : pathb p = true -> decode_nibbles p = pack p.
Proof. apply decode_nibbles_pack_aux. Qed.

Lemma path_last p : pathb p = true -> p <> [] -> nibb (last p x00) = true.
Proof.
  induction p as [|a t IH]; intros Hp Hne; [congruence|].
  rewrite pathb_cons in Hp. apply andb_prop in Hp as [Ha Ht].
  destruct t as [|b t'].
  - exact Ha.
  - change (last (a :: b :: t') x00) with (last (b :: t') x00). apply IH; [exact Ht|discriminate].
Qed.

Lemma has_term_path p : pathb p = true -> has_term p = false.
Proof.
  intros Hp. destruct p as [|a t]; [reflexivity|].
  change (has_term (a :: t)) with (byte_eqb (last (a :: t) x00) term).
  assert (Hl : nibb (last (a :: t) x00) = true) by (apply path_last; [exact Hp|discriminate]).
  apply nibb_lt in Hl. unfold byte_eqb. change (b2n term) with 16.
  apply N.eqb_neq. lia.
Qed.

Lemma compact_path p (t : bool) : pathb p = true ->
  (if Nat.odd (length p) then
     match p with
     | h :: rest => n2b (N.lor (N.lor (if t then 32 else 0) 16) (b2n h)) :: decode_nibbles rest
     | [] => [n2b (if t then 32 else 0)]
     end
   else n2b (if t then 32 else 0) :: decode_nibbles p) = hp p t.
Proof.
  intros Hp. unfold hp. rewrite <- Nat.negb_even.
  destruct (Nat.even (length p)) eqn:E; cbn [negb].
  - rewrite decode_nibbles_pack by exact Hp. destruct t; reflexivity.
  - destruct p as [|h r]; [discriminate E|].
    rewrite pathb_cons in Hp. apply andb_prop in Hp as [Hh Hr]. apply nibb_lt in Hh.
    rewrite decode_nibbles_pack by exact Hr. f_equal. f_equal.
    destruct t.
    + change (N.lor 32 16) with 48. rewrite lor48 by exact Hh. lia.
    + change (N.lor 0 16) with 16. rewrite lor16 by exact Hh. lia.
Qed.

Lemma hex_to_compact_path k : pathb k = true -> hex_to_compact k = hp k false.
Proof.
  intros Hp. unfold hex_to_compact. cbv zeta. rewrite (has_term_path k Hp).
  exact (compact_path k false Hp).
Qed.

Lemma tkey_facts k : tkeyb k = true -> has_term k = true /\ pathb (removelast k) = true.
Proof.
  induction k as [|b t IH]; [discriminate|]. intros Hk. destruct t as [|b' t'].
  - change (tkeyb [b]) with (byte_eqb b term) in Hk. split; [exact Hk|reflexivity].
  - change (tkeyb (b :: b' :: t')) with (nibb b && tkeyb (b' :: t')) in Hk.
    apply andb_prop in Hk as [Hb Ht]. destruct (IH Ht) as [I1 I2]. split.
    + change (has_term (b :: b' :: t')) with (has_term (b' :: t')). exact I1.
    + change (removelast (b :: b' :: t')) with (b :: removelast (b' :: t')).
      rewrite pathb_cons, Hb. exact I2.
Qed.

Lemma hex_to_compact_tkey k : tkeyb k = true -> hex_to_compact k = hp (removelast k) true.
Proof.
  intros Hk. destruct (tkey_facts k Hk) as [Ht Hp].
  unfold hex_to_compact. cbv zeta. rewrite Ht.
  exact (compact_path (removelast k) true Hp).
Qed.

(* ------------------------------------------------------------------ longest common prefix *)

Lemma lcp2_app k a b : lcp2 (k ++ a) (k ++ b) = k ++ lcp2 a b.
Proof.
  induction k as [|x k IH]; cbn [app lcp2]; [reflexivity|].
  destruct (byte_eqb_spec x x); [|congruence]. now rewrite IH.
Qed.

Lemma lcp_cons2 x y t : lcp (x :: y :: t) = lcp2 x (lcp (y :: t)).
Proof. reflexivity. Qed.

Lemma lcp_app k ks : ks <> [] -> lcp (map (app k) ks) = k ++ lcp ks.
Proof.
  induction ks as [|x t IH]; [congruence|]. intros _. destruct t as [|y t'].
  - reflexivity.
  - change (lcp (map (app k) (x :: y :: t'))) with (lcp2 (k ++ x) (lcp (map (app k) (y :: t')))).
    rewrite IH by discriminate. rewrite lcp_cons2. apply lcp2_app.
Qed.

Lemma lcp2_head a b h p : lcp2 a b = h :: p -> (exists a', a = h :: a') /\ (exists b', b = h :: b').
Proof.
  destruct a as [|x a'], b as [|y b']; cbn [lcp2]; try discriminate.
  destruct (byte_eqb_spec x y) as [->|]; [|discriminate].
  intros E. injection E as -> _. split; eauto.
Qed.

Lemma lcp_head ks : forall h p, lcp ks = h :: p -> forall k, In k ks -> exists r, k = h :: r.
Proof.
  induction ks as [|x t IH]; intros h p E k Hin; [destruct Hin|].
  destruct t as [|y t'].
  - cbn in E. destruct Hin as [<-|[]]. eauto.
  - rewrite lcp_cons2 in E. apply lcp2_head in E as [[a' Ea] [b' Eb]].
    destruct Hin as [<-|Hin]; [eauto|]. eapply IH; eauto.
Qed.

Definition two_heads (J : content) : Prop :=
  exists a r1 v1 b r2 v2, In (a :: r1, v1) J /\ In (b :: r2, v2) J /\ a <> b.

Lemma two_heads_lcp J : two_heads J -> lcp (map fst J) = [].
Proof.
  intros (a & r1 & v1 & b & r2 & v2 & I1 & I2 & Hab).
  destruct (lcp (map fst J)) as [|h p] eqn:E; [reflexivity|exfalso].
  destruct (lcp_head _ _ _ E _ (in_map fst _ _ I1)) as [x1 E1].
  destruct (lcp_head _ _ _ E _ (in_map fst _ _ I2)) as [x2 E2].
  cbn [fst] in E1, E2. congruence.
Qed.

Lemma two_heads_len J : two_heads J -> exists kv1 kv2 J', J = kv1 :: kv2 :: J'.
Proof.
  intros (a & r1 & v1 & b & r2 & v2 & I1 & I2 & Hab).
  destruct J as [|kv1 [|kv2 J']].
  - destruct I1.
  - destruct I1 as [E1|[]]. destruct I2 as [E2|[]]. congruence.
  - eauto.
Qed.

(* ------------------------------------------------------------------ sub / join *)

Lemma sub_cons b kv J :
  sub b (kv :: J) =
  (match fst kv with
   | h :: r => if byte_eqb h b then [(r, snd kv)] else []
   | [] => []
   end) ++ sub b J.
Proof. reflexivity. Qed.

Lemma sub_app b A B : sub b (A ++ B) = sub b A ++ sub b B.
Proof. unfold sub. apply flat_map_app. Qed.

Lemma sub_pre_nib i s c : (i < 256)%nat -> (s < 256)%nat ->
  sub (n2b (N.of_nat i)) (map (pre_nib s) c) = if Nat.eqb i s then c else [].
Proof.
  intros Hi Hs. induction c as [|[k v] t IH].
  - destruct (Nat.eqb i s); reflexivity.
  - cbn [map]. rewrite sub_cons, IH. cbn [pre_nib fst snd].
    unfold byte_eqb. rewrite !b2n_n2b by lia.
    destruct (Nat.eqb_spec i s); destruct (N.eqb_spec (N.of_nat s) (N.of_nat i)); try lia; reflexivity.
Qed.

Lemma sub_join_lt i : forall L s, (i < s)%nat -> (s + length L <= 256)%nat ->
  sub (n2b (N.of_nat i)) (join s L) = [].
Proof.
  induction L as [|c t IH]; intros s H1 H2; cbn [join]; [reflexivity|].
  cbn [length] in H2. rewrite sub_app, sub_pre_nib, IH by lia.
  destruct (Nat.eqb_spec i s); [lia|reflexivity].
Qed.

Lemma sub_join i : forall L s, (s <= i)%nat -> (i < s + length L)%nat -> (s + length L <= 256)%nat ->
  sub (n2b (N.of_nat i)) (join s L) = nth (i - s) L [].
Proof.
  induction L as [|c t IH]; intros s H1 H2 H3; cbn [length] in *; [lia|].
  cbn [join]. rewrite sub_app, sub_pre_nib by lia.
  destruct (Nat.eqb_spec i s) as [->|Hne].
  - rewrite sub_join_lt by lia. rewrite Nat.sub_diag, app_nil_r. reflexivity.
  - rewrite IH by lia. replace (i - s)%nat with (S (i - S s)) by lia. reflexivity.
Qed.

Lemma in_sub r v b J : In (r, v) (sub b J) -> In (b :: r, v) J.
Proof.
  induction J as [|[k v'] J IH]; [intros []|].
  rewrite sub_cons. intros Hin. apply in_app_or in Hin as [Hin|Hin].
  - left. cbn [fst snd] in Hin. destruct k as [|h t]; [destruct Hin|].
    destruct (byte_eqb_spec h b) as [->|]; [|destruct Hin].
    destruct Hin as [E|[]]. now injection E as -> ->.
  - right. auto.
Qed.

Lemma full_sub cs j : length cs = 17%nat -> (j < 17)%nat ->
  sub (n2b (N.of_nat j)) (join 0 (map content_of cs)) = content_of (nth j cs NNil).
Proof.
  intros Hl Hj. rewrite sub_join by (rewrite ?map_length; lia).
  rewrite Nat.sub_0_r. exact (map_nth content_of cs NNil j).
Qed.

(* ------------------------------------------------------------------ max_key_len *)

Lemma max_key_len_cons kv J : max_key_len (kv :: J) = Nat.max (length (fst kv)) (max_key_len J).
Proof. reflexivity. Qed.

Lemma max_key_len_in kv J : In kv J -> (length (fst kv) <= max_key_len J)%nat.
Proof.
  induction J as [|x t IH]; intros Hin; [destruct Hin|].
  rewrite max_key_len_cons.
  destruct Hin as [->|Hin]; [apply Nat.le_max_l|].
  eapply Nat.le_trans; [exact (IH Hin)|apply Nat.le_max_r].
Qed.

Lemma max_key_len_ex J : J <> [] -> exists kv, In kv J /\ length (fst kv) = max_key_len J.
Proof.
  induction J as [|x t IH]; [congruence|]. intros _. rewrite max_key_len_cons.
  destruct t as [|y t'].
  - exists x. split; [left; reflexivity|]. change (max_key_len []) with 0%nat.
    now rewrite Nat.max_0_r.
  - destruct IH as (kv & Hin & E); [discriminate|].
    destruct (le_lt_dec (max_key_len (y :: t')) (length (fst x))) as [Hle|Hlt].
    + exists x. split; [left; reflexivity|]. now rewrite Nat.max_l by exact Hle.
    + exists kv. split; [right; exact Hin|].
      rewrite Nat.max_r by (apply Nat.lt_le_incl; exact Hlt). exact E.
Qed.

(* ------------------------------------------------------------------ occupied slots *)

Lemma count_cons x t :
  count_nonnil (x :: t) = if is_nil x then count_nonnil t else S (count_nonnil t).
Proof. unfold count_nonnil. cbn [filter]. destruct (is_nil x); reflexivity. Qed.

Lemma count_ge1 l : (1 <= count_nonnil l)%nat ->
  exists i, (i < length l)%nat /\ is_nil (nth i l NNil) = false.
Proof.
  induction l as [|x t IH]; [cbn; lia|]. rewrite count_cons.
  destruct (is_nil x) eqn:E.
  - intros Hc. destruct (IH Hc) as (i & Hi & Hn). exists (S i). cbn [length nth]. split; [lia|exact Hn].
  - intros _. exists O. cbn [length nth]. split; [lia|exact E].
Qed.

Lemma count_ge2 l : (2 <= count_nonnil l)%nat ->
  exists i j, (i < j)%nat /\ (j < length l)%nat /\
              is_nil (nth i l NNil) = false /\ is_nil (nth j l NNil) = false.
Proof.
  induction l as [|x t IH]; [cbn; lia|]. rewrite count_cons.
  destruct (is_nil x) eqn:E.
  - intros Hc. destruct (IH Hc) as (i & j & Hij & Hj & Hn1 & Hn2).
    exists (S i), (S j). cbn [length nth]. repeat split; try lia; assumption.
  - intros Hc. destruct (count_ge1 t) as (j & Hj & Hn); [lia|].
    exists O, (S j). cbn [length nth]. repeat split; try lia; assumption.
Qed.

Lemma full_two_heads cs : length cs = 17%nat ->
  (forall x, In x cs -> is_nil x = false -> content_of x <> []) ->
  (2 <= count_nonnil cs)%nat ->
  two_heads (join 0 (map content_of cs)).
Proof.
  intros Hl Hne Hc. destruct (count_ge2 _ Hc) as (i & j & Hij & Hj & Ni & Nj).
  assert (Hi' : (i < length cs)%nat) by lia.
  assert (Ei := Hne (nth i cs NNil) (nth_In cs NNil Hi') Ni).
  assert (Ej := Hne (nth j cs NNil) (nth_In cs NNil Hj) Nj).
  destruct (content_of (nth i cs NNil)) as [|[r1 v1] ?] eqn:E1; [congruence|].
  destruct (content_of (nth j cs NNil)) as [|[r2 v2] ?] eqn:E2; [congruence|].
  exists (n2b (N.of_nat i)), r1, v1, (n2b (N.of_nat j)), r2, v2. repeat split.
  - apply in_sub. rewrite full_sub by lia. rewrite E1. left; reflexivity.
  - apply in_sub. rewrite full_sub by lia. rewrite E2. left; reflexivity.
  - intros E. apply (f_equal b2n) in E. rewrite !b2n_n2b in E by lia. lia.
Qed.

(* ------------------------------------------------------------------ canonical nodes *)

Lemma canon_short k ch f :
  canon (NShort k ch f) =
  nonempty k &&
  match ch with
  | NVal v => tkeyb k && nonempty v
  | NFull _ _ => pathb k && canon ch
  | _ => false
  end.
Proof. destruct ch; reflexivity. Qed.

Lemma canon_full cs f :
  canon (NFull cs f) =
  Nat.eqb (length cs) 17
  && forallb (fun c => is_nil c || is_val c || canon c) cs
  && forallb (fun c => negb (is_val c)) (firstn 16 cs)
  && forallb val_ok cs
  && match nth 16 cs NNil with NNil | NVal _ => true | _ => false end
  && Nat.leb 2 (count_nonnil cs).
Proof. reflexivity. Qed.

Lemma canon_full_inv cs f : canon (NFull cs f) = true ->
  length cs = 17%nat /\
  forallb (fun c => is_nil c || is_val c || canon c) cs = true /\
  forallb (fun c => negb (is_val c)) (firstn 16 cs) = true /\
  match nth 16 cs NNil with NNil | NVal _ => true | _ => false end = true /\
  (2 <= count_nonnil cs)%nat.
Proof.
  rewrite canon_full. intros Hc.
  apply andb_prop in Hc as [Hc H6]. apply andb_prop in Hc as [Hc H5].
  apply andb_prop in Hc as [Hc H4]. apply andb_prop in Hc as [Hc H3].
  apply andb_prop in Hc as [H1 H2].
  apply Nat.eqb_eq in H1. apply Nat.leb_le in H6. auto.
Qed.

Lemma child_content_ne cs :
  Forall (fun x => canon x = true -> content_of x <> []) cs ->
  forallb (fun c => is_nil c || is_val c || canon c) cs = true ->
  forall x, In x cs -> is_nil x = false -> content_of x <> [].
Proof.
  intros HF Hb x Hin Hn. rewrite Forall_forall in HF. rewrite forallb_forall in Hb.
  specialize (Hb x Hin). rewrite Hn in Hb. cbn [orb] in Hb.
  apply orb_prop in Hb as [Hv|Hc].
  - destruct x; try discriminate Hv. cbn. discriminate.
  - exact (HF x Hin Hc).
Qed.

Lemma canon_content_ne n : canon n = true -> content_of n <> [].
Proof.
  induction n as [|k ch f IH|cs f IH|h|v] using node_ind'; intros Hc; try discriminate Hc.
  - rewrite canon_short in Hc. apply andb_prop in Hc as [Hk Hc].
    destruct ch; try discriminate Hc.
    + apply andb_prop in Hc as [_ Hc]. intros E. cbn [content_of] in E.
      apply map_eq_nil in E. exact (IH Hc E).
    + cbn. discriminate.
  - destruct (canon_full_inv _ _ Hc) as (Hl & Hb & _ & _ & Hcnt).
    pose proof (full_two_heads cs Hl (child_content_ne cs IH Hb) Hcnt) as T.
    destruct (two_heads_len _ T) as (kv1 & kv2 & J' & E).
    cbn [content_of]. rewrite E. discriminate.
Qed.

Lemma canon_full_two_heads cs f : canon (NFull cs f) = true -> two_heads (content_of (NFull cs f)).
Proof.
  intros Hc. destruct (canon_full_inv _ _ Hc) as (Hl & Hb & _ & _ & Hcnt).
  cbn [content_of]. apply full_two_heads; [exact Hl| |exact Hcnt].
  apply child_content_ne; [|exact Hb].
  apply Forall_forall. intros x _. apply canon_content_ne.
Qed.

Lemma max_key_len_pre k J : J <> [] -> k <> [] ->
  (max_key_len J < max_key_len (map (pre_key k) J))%nat.
Proof.
  intros HJ Hk. destruct (max_key_len_ex J HJ) as (kv & Hin & E).
  pose proof (max_key_len_in (pre_key k kv) (map (pre_key k) J) (in_map _ _ _ Hin)) as Hle.
  cbn [pre_key fst] in Hle. rewrite app_length in Hle. rewrite <- E.
  destruct k as [|a k]; [congruence|]. cbn [length] in Hle.
  eapply Nat.lt_le_trans; [|exact Hle]. apply Nat.lt_succ_r. apply Nat.le_add_l.
Qed.

Lemma child_max cs x : length cs = 17%nat -> In x cs -> canon x = true ->
  (max_key_len (content_of x) < max_key_len (join 0 (map content_of cs)))%nat.
Proof.
  intros Hl Hin Hc. destruct (In_nth cs x NNil Hin) as (j & Hj & Ej).
  pose proof (full_sub cs j Hl ltac:(lia)) as Es. rewrite Ej in Es.
  destruct (max_key_len_ex (content_of x) (canon_content_ne x Hc)) as ([r v] & Hkv & E).
  rewrite <- Es in Hkv. apply in_sub in Hkv. apply max_key_len_in in Hkv.
  cbn [fst length] in Hkv. rewrite <- E. cbn [fst]. exact Hkv.
Qed.

(* ------------------------------------------------------------------ slots of a full node *)

Definition child_ok (i : nat) (x : node) : Prop :=
  if Nat.ltb i 16 then x = NNil \/ canon x = true
  else x = NNil \/ exists v, x = NVal v.
Fixpoint slots_ok (i : nat) (l : list node) : Prop :=
  match l with
  | [] => True
  | x :: t => child_ok i x /\ slots_ok (S i) t
  end.

Lemma slots_ok_of : forall m l i, (i + m = 16)%nat -> length l = S m ->
  forallb (fun c => is_nil c || is_val c || canon c) l = true ->
  forallb (fun c => negb (is_val c)) (firstn m l) = true ->
  match nth m l NNil with NNil | NVal _ => true | _ => false end = true ->
  slots_ok i l.
Proof.
  induction m as [|m IH]; intros l i Him Hl HA HB HN.
  - destruct l as [|x [|? ?]]; try discriminate Hl. cbn [slots_ok]. split; [|exact I].
    unfold child_ok. destruct (Nat.ltb_spec i 16); [lia|]. cbn [nth] in HN.
    destruct x; try discriminate HN; [left; reflexivity|right; eauto].
  - destruct l as [|x t]; [discriminate Hl|]. cbn [firstn forallb nth length] in *.
    apply andb_prop in HA as [HAx HAt]. apply andb_prop in HB as [HBx HBt]. split.
    + unfold child_ok. destruct (Nat.ltb_spec i 16); [|lia].
      destruct (is_nil x) eqn:En.
      * left. destruct x; try discriminate En. reflexivity.
      * right. destruct (is_val x); [discriminate HBx|]. exact HAx.
    + apply (IH t (S i)); [lia|now injection Hl|assumption..].
Qed.

Lemma canon_slots_ok cs f : canon (NFull cs f) = true -> slots_ok 0 cs.
Proof.
  intros Hc. destruct (canon_full_inv _ _ Hc) as (Hl & Hb & Hv & H16 & _).
  apply (slots_ok_of 16 cs 0); auto.
Qed.

Lemma erase_set_hash c n r : erase (set_hash_flag c n r) = erase n.
Proof. destruct n; reflexivity. Qed.

(* hasher.hashChildren, exposed pieces *)
Definition hc_slot (rec : node -> res (href * node * writes)) (i : nat) (x : node)
  : res (item * node * writes) :=
  if Nat.ltb i 16 then
    match x with
    | NNil => Ok (Str [], NNil, [])
    | _ => bind (rec x) (fun '(r, cx, w) => Ok (href_item r, cx, w))
    end
  else Ok (match x with NNil => Str [] | _ => raw_item x end, x, []).

Definition hc_go (rec : node -> res (href * node * writes)) :=
  fix go (i : nat) (l : list node) {struct l} : res (list item * list node * writes) :=
    match l with
    | [] => Ok ([], [], [])
    | x :: t =>
      bind (hc_slot rec i x)
           (fun '(it, cx, w) =>
      bind (go (S i) t) (fun '(its, cxs, ws) => Ok (it :: its, cx :: cxs, w ++ ws)))
    end.

Lemma hash_children_full rec cs f :
  hash_children rec (NFull cs f) =
  bind (hc_go rec O cs) (fun '(its, ccs, w) => Ok (Lst its, NFull ccs f, w)).
Proof. reflexivity. Qed.

Lemma hc_go_cons rec i x t :
  hc_go rec i (x :: t) =
  bind (hc_slot rec i x)
       (fun '(it, cx, w) =>
  bind (hc_go rec (S i) t) (fun '(its, cxs, ws) => Ok (it :: its, cx :: cxs, w ++ ws))).
Proof. reflexivity. Qed.

Lemma hash_children_short_full rec k cs0 f0 f :
  hash_children rec (NShort k (NFull cs0 f0) f) =
  bind (rec (NFull cs0 f0))
       (fun '(r, cch, w) => Ok (Lst [Str (hex_to_compact k); href_item r], NShort k cch f, w)).
Proof. reflexivity. Qed.

Lemma hash_children_short_val rec k v f :
  hash_children rec (NShort k (NVal v) f) =
  Ok (Lst [Str (hex_to_compact k); Str v], NShort k (NVal v) f, []).
Proof. reflexivity. Qed.

Lemma href_item_if (a : bool) m h :
  href_item (if a && negb false then RInline m else RHash h) = if a then m else Str h.
Proof. destruct a; reflexivity. Qed.

(* ------------------------------------------------------------------ the root *)

Section Root.
Variable H : bytes -> bytes.

Definition n_ref (f : nat) (J' : content) : item :=
  match J' with
  | [] => Str []
  | _ => let c := mpt_c H f J' in
         if lenN (encode c) <? 32 then c else Str (H (encode c))
  end.

Lemma n_ref_ne f J : J <> [] ->
  n_ref f J = if lenN (encode (mpt_c H f J)) <? 32 then mpt_c H f J else Str (H (encode (mpt_c H f J))).
Proof. destruct J; [congruence|reflexivity]. Qed.

Lemma mpt_c_S f J :
  mpt_c H (S f) J =
  match J with
  | [] => Str []
  | [(k, v)] => Lst [Str (hp (removelast k) true); Str v]
  | _ =>
    match lcp (map fst J) with
    | [] => Lst (map (fun i => n_ref f (sub i J)) nibbles16
                 ++ [Str (match sub tnib J with (_, v) :: _ => v | [] => [] end)])
    | p => Lst [Str (hp p false); n_ref f (strip (length p) J)]
    end
  end.
Proof. reflexivity. Qed.

Lemma mpt_c_branch f J : two_heads J ->
  mpt_c H (S f) J =
  Lst (map (fun i => n_ref f (sub i J)) nibbles16
       ++ [Str (match sub tnib J with (_, v) :: _ => v | [] => [] end)]).
Proof.
  intros T. rewrite mpt_c_S. pose proof (two_heads_lcp J T) as E.
  destruct (two_heads_len J T) as (kv1 & kv2 & J' & ->). destruct kv1 as [k v].
  rewrite E. reflexivity.
Qed.

Lemma mpt_c_ext f k J : two_heads J -> k <> [] ->
  mpt_c H (S f) (map (pre_key k) J) = Lst [Str (hp k false); n_ref f J].
Proof.
  intros T Hk. rewrite mpt_c_S.
  destruct (two_heads_len J T) as (kv1 & kv2 & J' & EJ).
  assert (Elcp : lcp (map fst (map (pre_key k) J)) = k).
  { replace (map fst (map (pre_key k) J)) with (map (app k) (map fst J))
      by (rewrite !map_map; reflexivity).
    rewrite lcp_app by (rewrite EJ; discriminate).
    rewrite (two_heads_lcp J T). apply app_nil_r. }
  assert (Estrip : strip (length k) (map (pre_key k) J) = J).
  { unfold strip. rewrite map_map. rewrite <- (map_id J) at 2. apply map_ext.
    intros [k' v']. cbn [pre_key fst snd]. rewrite skipn_app, Nat.sub_diag, skipn_all.
    reflexivity. }
  remember (map (pre_key k) J) as J2 eqn:EJ2.
  assert (E3 : exists k1 v1 kv2' J2', J2 = (k1, v1) :: kv2' :: J2').
  { subst J2 J. destruct kv1 as [k1 v1]. cbn [map]. unfold pre_key at 1.
    do 4 eexists. reflexivity. }
  destruct E3 as (k1 & v1 & kv2' & J2' & E3). rewrite E3 in *.
  rewrite Elcp. destruct k as [|b k0]; [congruence|]. cbv iota zeta. rewrite Estrip. reflexivity.
Qed.

Lemma store_nodb c it force : hdb c = false ->
  store H c it None force =
  (if (lenN (encode it) <? 32) && negb force then RInline it else RHash (H (encode it)), []).
Proof.
  intros Hdb. unfold store. cbv zeta. rewrite Hdb.
  destruct ((lenN (encode it) <? 32) && negb force); reflexivity.
Qed.

Lemma hash_node_walk c n force :
  match n with NShort _ _ f | NFull _ f => fhash f = None | _ => False end ->
  hash_node H c n force =
  bind (hash_children (fun x => hash_node H c x false) n) (fun '(it, cached, w) =>
    let '(r, w2) := store H c it None force in
    Ok (r, set_hash_flag c cached r, w ++ w2)).
Proof.
  destruct n as [|k ch f|cs f|h|v]; intros E; [destruct E| | |destruct E|destruct E].
  - destruct f as [fh fg fd]. cbn [fhash] in E. subst fh. reflexivity.
  - destruct f as [fh fg fd]. cbn [fhash] in E. subst fh. reflexivity.
Qed.

Definition item_at (f i : nat) (x : node) : item :=
  if Nat.ltb i 16 then n_ref f (content_of x)
  else Str (match content_of x with (_, v) :: _ => v | [] => [] end).
Fixpoint items (f i : nat) (l : list node) : list item :=
  match l with
  | [] => []
  | x :: t => item_at f i x :: items f (S i) t
  end.

Definition slot_item (f : nat) (J : content) (j : nat) : item :=
  if Nat.ltb j 16 then n_ref f (sub (n2b (N.of_nat j)) J)
  else Str (match sub (n2b (N.of_nat j)) J with (_, v) :: _ => v | [] => [] end).

Lemma items_seq f J : forall l i,
  (forall j, (j < length l)%nat -> content_of (nth j l NNil) = sub (n2b (N.of_nat (i + j))) J) ->
  items f i l = map (slot_item f J) (seq i (length l)).
Proof.
  induction l as [|x t IH]; intros i Hsub; [reflexivity|].
  cbn [items length seq map]. f_equal.
  - pose proof (Hsub O ltac:(cbn [length]; lia)) as E0. cbn [nth] in E0.
    rewrite Nat.add_0_r in E0. unfold item_at, slot_item. rewrite E0. reflexivity.
  - apply IH. intros j Hj. specialize (Hsub (S j)). cbn [nth length] in Hsub.
    rewrite Hsub by lia. replace (S i + j)%nat with (i + S j)%nat by lia. reflexivity.
Qed.

Lemma items_full f cs J : length cs = 17%nat ->
  (forall j, (j < 17)%nat -> sub (n2b (N.of_nat j)) J = content_of (nth j cs NNil)) ->
  items f 0 cs =
  map (fun i => n_ref f (sub i J)) nibbles16
  ++ [Str (match sub tnib J with (_, v) :: _ => v | [] => [] end)].
Proof.
  intros Hl Hsub.
  rewrite (items_seq f J) by (intros j Hj; cbn [Nat.add]; symmetry; apply Hsub; lia).
  rewrite Hl. change (seq 0 17) with (seq 0 16 ++ [16%nat]). rewrite map_app. apply f_equal2; [|reflexivity].
  transitivity (map (fun b => n_ref f (sub b J)) (map (fun i => n2b (N.of_nat i)) (seq 0 16))).
  - rewrite map_map. apply map_ext_in. intros a Ha. apply in_seq in Ha.
    unfold slot_item. destruct (Nat.ltb_spec a 16); [reflexivity|lia].
  - apply f_equal. reflexivity.
Qed.

Definition hash_ok (n : node) : Prop :=
  canon n = true -> nohash n = true ->
  forall c force fuel, hdb c = false -> (max_key_len (content_of n) < fuel)%nat ->
  exists n', hash_node H c n force =
       Ok (if (lenN (encode (mpt_c H fuel (content_of n))) <? 32) && negb force
           then RInline (mpt_c H fuel (content_of n))
           else RHash (H (encode (mpt_c H fuel (content_of n)))), n', [])
     /\ erase n' = erase n.

Lemma slot_spec c f i x : hdb c = false -> hash_ok x -> child_ok i x -> nohash x = true ->
  (canon x = true -> (max_key_len (content_of x) < f)%nat) ->
  exists x', hc_slot (fun y => hash_node H c y false) i x = Ok (item_at f i x, x', [])
             /\ erase x' = erase x.
Proof.
  intros Hdb Hx Hok Hnx Hm. unfold hc_slot, child_ok, item_at in *.
  destruct (Nat.ltb i 16).
  - destruct Hok as [->|Hcx].
    + exists NNil. split; reflexivity.
    + destruct (Hx Hcx Hnx c false f Hdb (Hm Hcx)) as (x' & E & Ee).
      exists x'. split; [|exact Ee].
      pose proof (canon_content_ne x Hcx) as Hne.
      assert (Enn : forall (A : Type) (a b : A),
                 match x with NNil => a | _ => b end = b)
        by (intros; destruct x; [discriminate Hcx|reflexivity..]).
      rewrite Enn, E. cbn [bind]. rewrite href_item_if, n_ref_ne by exact Hne. reflexivity.
  - destruct Hok as [->|[v ->]]; eexists; split; reflexivity.
Qed.

Lemma go_spec c f : hdb c = false -> forall l i,
  Forall hash_ok l -> slots_ok i l -> forallb nohash l = true ->
  (forall x, In x l -> canon x = true -> (max_key_len (content_of x) < f)%nat) ->
  exists l', hc_go (fun x => hash_node H c x false) i l = Ok (items f i l, l', [])
             /\ map erase l' = map erase l.
Proof.
  intros Hdb. induction l as [|x t IH]; intros i HF Hs Hn Hm.
  - exists []. split; reflexivity.
  - rewrite hc_go_cons. inversion HF as [|? ? Hx HF']; subst.
    destruct Hs as [Hxok Hs]. cbn [forallb] in Hn. apply andb_prop in Hn as [Hnx Hnt].
    destruct (IH (S i) HF' Hs Hnt (fun y Hy => Hm y (or_intror Hy))) as (t' & Et & Ee).
    destruct (slot_spec c f i x Hdb Hx Hxok Hnx (Hm x (or_introl eq_refl))) as (x' & Ex & Eex).
    rewrite Ex. cbn [bind]. rewrite Et. cbn [bind].
    exists (x' :: t'). split; [reflexivity|]. cbn [map]. now rewrite Eex, Ee.
Qed.

Theorem hash_node_spec : forall n, canon n = true -> nohash n = true ->
  forall c force fuel, hdb c = false -> (max_key_len (content_of n) < fuel)%nat ->
  exists n', hash_node H c n force =
       Ok (if (lenN (encode (mpt_c H fuel (content_of n))) <? 32) && negb force
           then RInline (mpt_c H fuel (content_of n))
           else RHash (H (encode (mpt_c H fuel (content_of n)))), n', [])
     /\ erase n' = erase n.
Proof.
  intros n. change (hash_ok n).
  induction n as [|k ch f IH|cs f IH|h|v] using node_ind';
    unfold hash_ok; intros Hc Hn c force fuel Hdb Hfuel; try discriminate Hc.
  - (* short node *)
    rewrite canon_short in Hc. apply andb_prop in Hc as [Hk Hc].
    assert (Hkne : k <> []) by (destruct k; [discriminate Hk|discriminate]).
    cbn [nohash] in Hn. apply andb_prop in Hn as [Hf Hnch].
    unfold fnohash in Hf. destruct (fhash f) eqn:Ef; [discriminate Hf|].
    destruct fuel as [|fu]; [apply Nat.nlt_0_r in Hfuel; destruct Hfuel|].
    rewrite hash_node_walk by exact Ef.
    destruct ch as [| | cs0 f0 | |v]; try discriminate Hc.
    + (* extension *)
      apply andb_prop in Hc as [Hp Hcc].
      pose proof (canon_full_two_heads _ _ Hcc) as T.
      pose proof (canon_content_ne _ Hcc) as Hne.
      change (content_of (NShort k (NFull cs0 f0) f))
        with (map (pre_key k) (content_of (NFull cs0 f0))) in *.
      assert (Hfu : (max_key_len (content_of (NFull cs0 f0)) < fu)%nat).
      { pose proof (max_key_len_pre k _ Hne Hkne) as Hlt.
        eapply Nat.lt_le_trans; [exact Hlt|]. apply Nat.lt_succ_r. exact Hfuel. }
      destruct (IH Hcc Hnch c false fu Hdb Hfu) as (ch' & E & Ee).
      rewrite hash_children_short_full, E. cbn [bind]. rewrite store_nodb by exact Hdb.
      rewrite mpt_c_ext by assumption.
      rewrite href_item_if, <- n_ref_ne by exact Hne.
      rewrite hex_to_compact_path by exact Hp.
      eexists. split; [reflexivity|].
      rewrite erase_set_hash. cbn [erase]. now rewrite Ee.
    + (* leaf *)
      apply andb_prop in Hc as [Ht Hv].
      rewrite hash_children_short_val. cbn [bind]. rewrite store_nodb by exact Hdb.
      change (content_of (NShort k (NVal v) f)) with [(k ++ [], v)].
      rewrite (app_nil_r k). rewrite mpt_c_S.
      rewrite hex_to_compact_tkey by exact Ht.
      eexists. split; [reflexivity|].
      rewrite erase_set_hash. reflexivity.
  - (* full node *)
    destruct (canon_full_inv _ _ Hc) as (Hl & Hb & Hv & H16 & Hcnt).
    cbn [nohash] in Hn. apply andb_prop in Hn as [Hf Hncs].
    unfold fnohash in Hf. destruct (fhash f) eqn:Ef; [discriminate Hf|].
    destruct fuel as [|fu]; [apply Nat.nlt_0_r in Hfuel; destruct Hfuel|].
    rewrite hash_node_walk by exact Ef.
    pose proof (canon_full_two_heads _ _ Hc) as T.
    change (content_of (NFull cs f)) with (join 0 (map content_of cs)) in *.
    assert (Hm : forall x, In x cs -> canon x = true -> (max_key_len (content_of x) < fu)%nat).
    { intros x Hin Hcx. pose proof (child_max cs x Hl Hin Hcx) as Hlt.
      eapply Nat.lt_le_trans; [exact Hlt|]. apply Nat.lt_succ_r. exact Hfuel. }
    destruct (go_spec c fu Hdb cs 0 IH (canon_slots_ok _ _ Hc) Hncs Hm) as (cs' & Eg & Ee).
    rewrite hash_children_full, Eg. cbn [bind]. rewrite store_nodb by exact Hdb.
    rewrite mpt_c_branch by exact T.
    rewrite <- (items_full fu cs _ Hl (fun j Hj => full_sub cs j Hl Hj)).
    eexists. split; [reflexivity|].
    rewrite erase_set_hash. cbn [erase]. now rewrite Ee.
Qed.

Hypothesis Hlen : forall x, length (H x) = 32%nat.

Lemma to_hash_H x : to_hash (H x) = H x.
Proof.
  unfold to_hash, left_pad. rewrite Hlen, Nat.leb_refl, Nat.sub_diag. reflexivity.
Qed.

Lemma hash_root_nonnil r g l : canon r = true -> nohash r = true ->
  exists n',
    bind (hash_node H (mkHctx false g l) r true) (fun '(hr, cached, w) =>
      match hr with RHash h => Ok (to_hash h, cached, w) | RInline _ => Panic end)
    = Ok (mpt_root_hex H (content_of r), n', [])
    /\ erase n' = erase r.
Proof.
  intros Hc Hn.
  destruct (hash_node_spec r Hc Hn (mkHctx false g l) true (S (max_key_len (content_of r)))
              eq_refl (Nat.lt_succ_diag_r _)) as (n' & E & Ee).
  exists n'. split; [|exact Ee]. rewrite E. cbn [negb]. rewrite andb_false_r. cbn [bind].
  rewrite to_hash_H. unfold mpt_root_hex.
  pose proof (canon_content_ne r Hc) as Hne.
  destruct (content_of r); [congruence|reflexivity].
Qed.

Theorem hash_root_spec : forall t, canon_root (troot t) = true -> nohash (troot t) = true ->
  exists n', hash_root H t false = Ok (mpt_root_hex H (content_of (troot t)), n', [])
     /\ erase n' = erase (troot t).
Proof.
  intros t Hc Hn. unfold hash_root. unfold canon_root in Hc.
  destruct (troot t) as [|k ch f|cs f|h|v] eqn:Er.
  - exists NNil. split; reflexivity.
  - apply hash_root_nonnil; assumption.
  - apply hash_root_nonnil; assumption.
  - discriminate Hc.
  - discriminate Hc.
Qed.

End Root.
